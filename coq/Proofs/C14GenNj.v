(* C14 translator tie: the generated main loop of nj_tree (Gen/Pdm.v, PDM_nj_tree) performs the hand
   model's nj_step on the node pool, and returns the model's tree. *)
From Coq Require Import ZArith QArith List Bool Lia Permutation.
From DV Require Import Model.PyPrims Model.Tree Model.C14Model Model.C14Spec Model.C14GenPrims Model.C14GenObj Gen.Pdm
  Proofs.C14Dict Proofs.C14Pdm Proofs.C14Clu Proofs.C14GenBase Proofs.C14Uniq Proofs.C14GenTreesBase Proofs.C14GenUpgma.
Import ListNotations.
Open Scope Z_scope.

Section Nj.
Variable none_key : Z.

(* ---------- the pool in the heap ---------- *)
Definition JR (h : oheap) (u : jnode) : Prop :=
  Rep h (j_tree u) /\
  exists o, hget (j_id u) h = Some o /\ o_num o = Some (j_xsub u) /\ o_dists o = Some (j_d u).

Definition JInv (h : oheap) (pool : list jnode) : Prop :=
  Forall (JR h) pool /\ NoDup (flat_map (fun u => qids (j_tree u)) pool) /\ heap_ok h.

Lemma jpool_ids_nodup pool : NoDup (flat_map (fun u => qids (j_tree u)) pool) -> NoDup (map j_id pool).
Proof.
  induction pool as [|u r IH]; intro N; [constructor|]. cbn [flat_map map] in *. constructor.
  - intro Hin. apply in_map_iff in Hin. destruct Hin as [v [E Hv]].
    apply (NoDup_app_disj _ _ (j_id u) N); [exact (q_id_in_qids (j_tree u))|].
    apply in_flat_map. exists v. split; [exact Hv|]. rewrite <- E. exact (q_id_in_qids (j_tree v)).
  - apply IH. exact (NoDup_app_r _ _ N).
Qed.

Lemma jpool_disjoint pool u v k : NoDup (flat_map (fun u => qids (j_tree u)) pool) -> In u pool -> In v pool ->
  In k (qids (j_tree u)) -> In k (qids (j_tree v)) -> u = v.
Proof.
  induction pool as [|w r IH]; intros N Hu Hv Ku Kv; [destruct Hu|]. cbn [flat_map] in N.
  destruct Hu as [->|Hu]; destruct Hv as [->|Hv]; [reflexivity | | |].
  - exfalso. apply (NoDup_app_disj _ _ k N Ku). apply in_flat_map. exists v. split; assumption.
  - exfalso. apply (NoDup_app_disj _ _ k N Kv). apply in_flat_map. exists u. split; assumption.
  - apply IH; try assumption. exact (NoDup_app_r _ _ N).
Qed.

(* ---------- choosing the pair ---------- *)
Definition jcand (n : Z) (ab : jnode * jnode) : res (Q * (jnode * jnode)) :=
  do d <- qget (j_d (fst ab)) (j_id (snd ab)) ;;
  Ok ((inject_Z (n - 2) * d - j_xsub (fst ab) - j_xsub (snd ab))%Q, ab).

Definition jacc_rel (best : option (Q * (jnode * jnode))) (acc : option Q * option (Z * Z)) : Prop :=
  match best with
  | None => acc = (None, None)
  | Some (m, (a, b)) => exists mg, acc = (Some mg, Some (j_id a, j_id b)) /\ (mg == m)%Q
  end.

Lemma qv_eq a d x1 x2 : (qsub (qsub (qmul a d) x1) x2 == a * d - x1 - x2)%Q.
Proof. unfold qsub, qmul. rewrite !Qred_correct. reflexivity. Qed.

Lemma jsel_loop h n : forall P best acc cands,
  (forall ab, In ab P -> (exists o, hget (j_id (fst ab)) h = Some o /\ o_dists o = Some (j_d (fst ab)) /\ o_num o = Some (j_xsub (fst ab)))
                         /\ (exists o, hget (j_id (snd ab)) h = Some o /\ o_num o = Some (j_xsub (snd ab)))) ->
  res_map (jcand n) P = Ok cands -> jacc_rel best acc ->
  exists acc', py_for P (fun ab => PDM_nj_tree_for4 h n (j_id (fst ab)) (0, j_id (snd ab))) acc = Ok acc' /\
               jacc_rel (argmin_first best cands) acc'.
Proof.
  induction P as [|[a b] r IH]; intros best acc cands HP HR HA.
  - cbn in HR. assert (cands = []) by congruence. subst. exists acc. split; [reflexivity | exact HA].
  - cbn [res_map] in HR. unfold jcand at 1 in HR. cbn [fst snd] in HR.
    destruct (qget (j_d a) (j_id b)) as [d|e|] eqn:Ed; cbn [bind] in HR; try discriminate.
    destruct (res_map (jcand n) r) as [cr|e|] eqn:Er; cbn [bind] in HR; try discriminate.
    set (q := (inject_Z (n - 2) * d - j_xsub a - j_xsub b)%Q) in *.
    assert (cands = (q, (a, b)) :: cr) by congruence. subst cands. clear HR.
    rewrite py_for_cons. cbn [fst snd].
    destruct (HP (a, b) (or_introl eq_refl)) as [[oa [Ha [Da Na]]] [ob [Hb Nb]]]. cbn [fst snd] in *.
    unfold PDM_nj_tree_for4 at 1. unfold o_get_dists, o_get_num. rewrite (o_get_some _ _ _ Ha). cbn [bind]. rewrite Da. cbn [attr bind].
    rewrite Ed. cbn [bind]. rewrite Na. cbn [attr bind]. rewrite (o_get_some _ _ _ Hb). cbn [bind]. rewrite Nb. cbn [attr bind].
    set (qg := qsub (qsub (qmul (inject_Z (n - 2)) d) (j_xsub a)) (j_xsub b)).
    assert (Eq : (qg == q)%Q) by apply qv_eq.
    assert (HP' : forall ab, In ab r ->
       (exists o, hget (j_id (fst ab)) h = Some o /\ o_dists o = Some (j_d (fst ab)) /\ o_num o = Some (j_xsub (fst ab)))
       /\ (exists o, hget (j_id (snd ab)) h = Some o /\ o_num o = Some (j_xsub (snd ab)))) by (intros ab Hab; apply HP; right; exact Hab).
    cbn [argmin_first].
    destruct best as [[m [a' b']]|]; cbn [jacc_rel] in HA.
    + destruct HA as [mg [-> Em]]. unfold qlt. rewrite (Qlt_le_dec_eq qg mg q m _ _ Eq Em).
      destruct (Qlt_le_dec q m); cbn [bind].
      * apply (IH (Some (q, (a, b))) _ cr HP' eq_refl). exists qg. split; [reflexivity | exact Eq].
      * apply (IH (Some (m, (a', b'))) _ cr HP' eq_refl). exists mg. split; [reflexivity | exact Em].
    + subst acc. cbn [bind]. apply (IH (Some (q, (a, b))) _ cr HP' eq_refl). exists qg. split; [reflexivity | exact Eq].
Qed.

Lemma jfor4_idx h n nd1 (jy : Z * Z) s : PDM_nj_tree_for4 h n nd1 jy s = PDM_nj_tree_for4 h n nd1 (0, snd jy) s.
Proof. destruct jy. reflexivity. Qed.

Lemma jselect h n pool cands : Forall (JR h) pool -> res_map (jcand n) (pairs_of pool) = Ok cands ->
  exists acc, py_for (py_enumerate (py_drop_last (map j_id pool))) (PDM_nj_tree_for5 h (map j_id pool) n) (None, None) = Ok acc /\
              jacc_rel (argmin_first None cands) acc.
Proof.
  intros HU HR.
  rewrite (py_for_ext _ _ (fun ix s => py_for (py_enumerate (py_slice_from (map j_id pool) (fst ix + 1)))
                                              (fun jy => (fun nd1 nd2 => PDM_nj_tree_for4 h n nd1 (0, nd2)) (snd ix) (snd jy)) s)).
  - rewrite (nested_pairs_drop_last (fun nd1 nd2 => PDM_nj_tree_for4 h n nd1 (0, nd2))).
    rewrite pairs_z_map, py_for_map. cbn [fst snd].
    apply (jsel_loop h n (pairs_of pool) None (None, None) cands); [|exact HR | reflexivity].
    intros [a b] Hab. destruct (pairs_of_In _ _ _ Hab) as [Ha Hb]. rewrite Forall_forall in HU. cbn [fst snd].
    destruct (HU a Ha) as [_ [oa [Hoa [Na Da]]]]. destruct (HU b Hb) as [_ [ob [Hob [Nb Db]]]].
    split; [exists oa | exists ob]; repeat split; assumption.
  - intros [idx1 nd1] [s1 s2] _. unfold PDM_nj_tree_for5. rewrite bind_pair_ok. cbn [fst snd].
    apply py_for_ext. intros jy s' _. apply jfor4_idx.
Qed.

(* ---------- distances and row sums after a join ---------- *)
Definition jupd (j0 j1 : jnode) (v3 : Q) (next : Z) (node : jnode) : res (jnode * Q) :=
  do a0 <- qget (j_d node) (j_id j0) ;;
  do a1 <- qget (j_d node) (j_id j1) ;;
  let dist := Qred ((1 # 2) * ((0 + a0 + a1) - v3))%Q in
  do b0 <- qget (j_d j0) (j_id node) ;;
  do b1 <- qget (j_d j1) (j_id node) ;;
  Ok (mkJ (j_tree node) (dset next dist (j_d node)) (Qred (j_xsub node + dist - b0 - b1)%Q), dist).

Definition jfind (k : Z) (upd : list (jnode * Q)) : option (jnode * Q) := find (fun nd => Z.eqb (j_id (fst nd)) k) upd.

Lemma jupd_id j0 j1 v3 next x r : jupd j0 j1 v3 next x = Ok r -> j_id (fst r) = j_id x.
Proof.
  unfold jupd. destruct (qget (j_d x) (j_id j0)); cbn [bind]; try discriminate.
  destruct (qget (j_d x) (j_id j1)); cbn [bind]; try discriminate. cbv zeta.
  destruct (qget (j_d j0) (j_id x)); cbn [bind]; try discriminate.
  destruct (qget (j_d j1) (j_id x)); cbn [bind]; try discriminate. intro H.
  assert (E : fst r = mkJ (j_tree x) (dset next (Qred ((1 # 2) * (0 + q + q0 - v3))) (j_d x)) (Qred (j_xsub x + Qred ((1 # 2) * (0 + q + q0 - v3)) - q1 - q2)))
    by (destruct r; cbn [fst]; congruence).
  rewrite E. reflexivity.
Qed.

Lemma res_map_ids {A B} (F : A -> res B) (ida : A -> Z) (idb : B -> Z) l rs :
  (forall x r, F x = Ok r -> idb r = ida x) -> res_map F l = Ok rs -> map idb rs = map ida l.
Proof.
  intro HF. revert rs. induction l as [|x l IH]; intros rs H; cbn [res_map] in H.
  - assert (rs = []) by congruence. subst. reflexivity.
  - destruct (F x) as [r|e|] eqn:E; cbn [bind] in H; try discriminate.
    destruct (res_map F l) as [rs'|e|]; cbn [bind] in H; try discriminate.
    assert (rs = r :: rs') by congruence. subst. cbn [map]. rewrite (HF x r E), (IH rs' eq_refl). reflexivity.
Qed.

Lemma jfind_none k upd : ~ In k (map (fun nd : jnode * Q => j_id (fst nd)) upd) -> jfind k upd = None.
Proof.
  unfold jfind. induction upd as [|nd r IH]; intro H; [reflexivity|]. cbn [find].
  destruct (Z.eqb_spec (j_id (fst nd)) k) as [E|]; [exfalso; apply H; left; exact E | apply IH; intro Hin; apply H; right; exact Hin].
Qed.

Lemma jfor7_eval h node a o dd ent v1 :
  hget node h = Some o -> o_dists o = Some dd -> qget dd a = Ok ent ->
  PDM_nj_tree_for7 h node a v1 = Ok (qadd v1 ent).
Proof.
  intros Ho Hd Hq. unfold PDM_nj_tree_for7, o_get_dists. rewrite (o_get_some _ _ _ Ho). cbn [bind]. rewrite Hd. cbn [attr bind].
  rewrite Hq. reflexivity.
Qed.

Lemma jfor8_eval node a h on x oa da b :
  hget node h = Some on -> o_num on = Some x -> hget a h = Some oa -> o_dists oa = Some da -> qget da node = Ok b ->
  PDM_nj_tree_for8 node a h = Ok (o_put node (w_num on (Some (qsub x b))) h).
Proof.
  intros Hn Nx Ha Da Hq. unfold PDM_nj_tree_for8, o_get_num, o_get_dists. rewrite (o_get_some _ _ _ Hn). cbn [bind]. rewrite Nx. cbn [attr bind].
  rewrite (o_get_some _ _ _ Ha). cbn [bind]. rewrite Da. cbn [attr bind]. rewrite Hq. cbn [bind].
  unfold o_set_num. rewrite (o_upd_some _ _ _ _ Hn). reflexivity.
Qed.

Lemma jdist_loop (j0 j1 : jnode) new o0 o1 v3 :
  j_id j0 <> new -> j_id j1 <> new -> j_id j0 <> j_id j1 ->
  o_dists o0 = Some (j_d j0) -> o_dists o1 = Some (j_d j1) -> qget (j_d j0) (j_id j1) = Ok v3 ->
  forall Lm h acc accx onew upd,
    hget (j_id j0) h = Some o0 -> hget (j_id j1) h = Some o1 -> hget new h = Some onew ->
    o_dists onew = Some acc -> o_num onew = Some accx ->
    NoDup (map j_id Lm) -> ~ In (j_id j0) (map j_id Lm) -> ~ In (j_id j1) (map j_id Lm) -> ~ In new (map j_id Lm) ->
    (forall u, In u Lm -> exists o, hget (j_id u) h = Some o /\ o_dists o = Some (j_d u) /\ o_num o = Some (j_xsub u)) ->
    (forall u, In u Lm -> dmem (j_id u) acc = false) ->
    res_map (jupd j0 j1 v3 new) Lm = Ok upd ->
    exists h' accx', py_for Lm (fun u => PDM_nj_tree_for9 (Some (j_id j0, j_id j1)) new (j_id u)) h = Ok h' /\
               h_next h' = h_next h /\
               (accx' == fold_left (fun a nd => a + snd nd) upd accx)%Q /\
               (Qred accx = accx -> Qred accx' = accx') /\
               forall k, hget k h' =
                 if Z.eqb k new then Some (w_num (w_dists onew (Some (acc ++ map (fun nd => (j_id (fst nd), snd nd)) upd))) (Some accx'))
                 else match jfind k upd with
                      | Some nd => option_map (fun o => w_num (w_dists o (Some (j_d (fst nd)))) (Some (j_xsub (fst nd)))) (hget k h)
                      | None => hget k h
                      end.
Proof.
  intros N0 N1 N01 D0 D1 V3. induction Lm as [|u r IH]; intros h acc accx onew upd H0 H1 Hn Hacc Hx ND I0 I1 In' HU HF HR.
  - cbn in HR. assert (upd = []) by congruence. subst upd. exists h, accx. split; [reflexivity|]. split; [reflexivity|].
    split; [reflexivity|]. split; [tauto|]. intro k. cbn [map]. rewrite app_nil_r. destruct (Z.eqb_spec k new) as [->|]; [|reflexivity].
    rewrite Hn. f_equal. destruct onew; unfold w_num, w_dists; cbn in *. rewrite Hacc, Hx. reflexivity.
  - cbn [res_map] in HR. unfold jupd at 1 in HR.
    destruct (qget (j_d u) (j_id j0)) as [a0|e|] eqn:Ea0; cbn [bind] in HR; try discriminate.
    destruct (qget (j_d u) (j_id j1)) as [a1|e|] eqn:Ea1; cbn [bind] in HR; try discriminate. cbv zeta in HR.
    destruct (qget (j_d j0) (j_id u)) as [b0|e|] eqn:Eb0; cbn [bind] in HR; try discriminate.
    destruct (qget (j_d j1) (j_id u)) as [b1|e|] eqn:Eb1; cbn [bind] in HR; try discriminate.
    destruct (res_map (jupd j0 j1 v3 new) r) as [updr|e|] eqn:Er; cbn [bind] in HR; try discriminate.
    set (dist := Qred ((1 # 2) * (0 + a0 + a1 - v3))) in *.
    set (xs := Qred (j_xsub u + dist - b0 - b1)) in *.
    set (u' := mkJ (j_tree u) (dset new dist (j_d u)) xs) in *.
    assert (Eu : upd = (u', dist) :: updr) by congruence. subst upd. clear HR.
    cbn [map] in ND, I0, I1, In'. apply NoDup_cons_iff in ND. destruct ND as [Nu ND].
    destruct (HU u (or_introl eq_refl)) as [ou [Hou [Dou Xou]]].
    assert (Nun : j_id u <> new) by (intro E; apply In'; left; exact E).
    assert (Nu0 : j_id u <> j_id j0) by (intro E; apply I0; left; exact E).
    assert (Nu1 : j_id u <> j_id j1) by (intro E; apply I1; left; exact E).
    rewrite py_for_cons. unfold PDM_nj_tree_for9 at 1. cbn [py_iter_pair bind].
    rewrite py_for_cons, (jfor7_eval h (j_id u) (j_id j0) ou _ a0 _ Hou Dou Ea0). cbn [bind].
    rewrite py_for_cons, (jfor7_eval h (j_id u) (j_id j1) ou _ a1 _ Hou Dou Ea1). cbn [bind py_for fold_left].
    cbn [py_pair_item Z.eqb Pos.eqb bind]. unfold o_get_dists at 1. rewrite (o_get_some _ _ _ H0). cbn [bind]. rewrite D0. cbn [attr bind].
    rewrite V3. cbn [bind].
    set (distg := qmul (1 # 2) (qsub (qadd (qadd (0 # 1) a0) a1) v3)).
    assert (Ed : distg = dist).
    { unfold distg, dist, qmul, qsub, qadd. apply Qred_eq. rewrite !Qred_correct. reflexivity. }
    rewrite Ed. clear Ed distg.
    unfold o_get_dists at 1. rewrite (o_get_some _ _ _ Hn). cbn [bind]. rewrite Hacc. cbn [attr bind].
    unfold o_set_dists at 1. rewrite (o_upd_some _ _ _ _ Hn). cbn [bind]. set (h1 := o_put new _ h).
    assert (Hu1 : hget (j_id u) h1 = Some ou).
    { unfold h1. rewrite hget_put. destruct (Z.eqb_spec (j_id u) new); [congruence | exact Hou]. }
    unfold o_get_dists at 1. rewrite (o_get_some _ _ _ Hu1). cbn [bind]. rewrite Dou. cbn [attr bind].
    unfold o_set_dists at 1. rewrite (o_upd_some _ _ _ _ Hu1). cbn [bind]. set (h2 := o_put (j_id u) _ h1).
    assert (Hn2 : hget new h2 = Some (w_dists onew (Some (dset (j_id u) dist acc)))).
    { unfold h2, h1. rewrite !hget_put. destruct (Z.eqb_spec new (j_id u)); [congruence|]. rewrite Z.eqb_refl. reflexivity. }
    unfold o_get_num at 1. rewrite (o_get_some _ _ _ Hn2). cbn [bind w_dists o_num]. rewrite Hx. cbn [attr bind].
    unfold o_set_num at 1. rewrite (o_upd_some _ _ _ _ Hn2). cbn [bind]. set (h3 := o_put new _ h2).
    assert (Hu3 : hget (j_id u) h3 = Some (w_dists ou (Some (dset new dist (j_d u))))).
    { unfold h3, h2. rewrite !hget_put. destruct (Z.eqb_spec (j_id u) new); [congruence|]. rewrite Z.eqb_refl. reflexivity. }
    unfold o_get_num at 1. rewrite (o_get_some _ _ _ Hu3). cbn [bind w_dists o_num]. rewrite Xou. cbn [attr bind].
    unfold o_set_num at 1. rewrite (o_upd_some _ _ _ _ Hu3). cbn [bind]. set (h4 := o_put (j_id u) _ h3).
    assert (G4 : forall k, hget k h4 = if Z.eqb k (j_id u) then Some (w_num (w_dists ou (Some (dset new dist (j_d u)))) (Some (qadd (j_xsub u) dist)))
                                       else if Z.eqb k new then Some (w_num (w_dists onew (Some (dset (j_id u) dist acc))) (Some (qadd accx dist)))
                                       else hget k h).
    { intro k. unfold h4, h3, h2, h1. rewrite !hget_put. destruct (Z.eqb k (j_id u)); [reflexivity|]. destruct (Z.eqb k new); reflexivity. }
    assert (X4 : h_next h4 = h_next h) by reflexivity.
    clearbody h4. clear h1 h2 h3 Hu1 Hn2 Hu3.
    (* node._nj_xsub -= node_to_join._nj_distances[node], for both joined nodes *)
    set (on4 := w_num (w_dists ou (Some (dset new dist (j_d u)))) (Some (qadd (j_xsub u) dist))) in *.
    rewrite (jfor8_eval (j_id u) (j_id j0) h4 on4 (qadd (j_xsub u) dist) o0 (j_d j0) b0).
    2:{ rewrite G4, Z.eqb_refl. reflexivity. } 2:{ reflexivity. }
    2:{ rewrite G4. destruct (Z.eqb_spec (j_id j0) (j_id u)); [congruence|]. destruct (Z.eqb_spec (j_id j0) new); [congruence | exact H0]. }
    2:{ exact D0. } 2:{ exact Eb0. }
    cbn [bind]. set (h5 := o_put (j_id u) _ h4).
    rewrite (jfor8_eval (j_id u) (j_id j1) h5 (w_num on4 (Some (qsub (qadd (j_xsub u) dist) b0))) (qsub (qadd (j_xsub u) dist) b0) o1 (j_d j1) b1).
    2:{ unfold h5. rewrite hget_put, Z.eqb_refl. reflexivity. } 2:{ reflexivity. }
    2:{ unfold h5. rewrite hget_put. destruct (Z.eqb_spec (j_id j1) (j_id u)); [congruence|]. rewrite G4.
        destruct (Z.eqb_spec (j_id j1) (j_id u)); [congruence|]. destruct (Z.eqb_spec (j_id j1) new); [congruence | exact H1]. }
    2:{ exact D1. } 2:{ exact Eb1. }
    cbn [bind]. set (h6 := o_put (j_id u) _ h5).
    assert (Exs : qsub (qsub (qadd (j_xsub u) dist) b0) b1 = xs).
    { unfold xs, qsub, qadd. apply Qred_eq. rewrite !Qred_correct. reflexivity. }
    set (onew' := w_num (w_dists onew (Some (acc ++ [(j_id u, dist)]))) (Some (qadd accx dist))).
    assert (G6 : forall k, hget k h6 = if Z.eqb k (j_id u) then Some (w_num (w_dists ou (Some (j_d u'))) (Some (j_xsub u')))
                                       else if Z.eqb k new then Some onew' else hget k h).
    { intro k. unfold h6, h5. rewrite !hget_put, G4. destruct (Z.eqb k (j_id u)).
      - unfold on4, u', w_num, w_dists. cbn [o_taxon o_len o_kids o_cluster o_num o_dists j_d j_xsub]. rewrite Exs. reflexivity.
      - destruct (Z.eqb k new); [|reflexivity]. unfold onew'. rewrite (dset_new _ _ _ (HF u (or_introl eq_refl))). reflexivity. }
    assert (X6 : h_next h6 = h_next h) by (unfold h6, h5; rewrite !h_next_put; exact X4).
    clearbody h6. clear G4 h5.
    destruct (IH h6 (acc ++ [(j_id u, dist)]) (qadd accx dist) onew' updr) as [h' [accx' [E' [Nx' [Sx' [Cx' G']]]]]].
    + rewrite G6. destruct (Z.eqb_spec (j_id j0) (j_id u)); [congruence|]. destruct (Z.eqb_spec (j_id j0) new); [congruence | exact H0].
    + rewrite G6. destruct (Z.eqb_spec (j_id j1) (j_id u)); [congruence|]. destruct (Z.eqb_spec (j_id j1) new); [congruence | exact H1].
    + rewrite G6. destruct (Z.eqb_spec new (j_id u)); [congruence|]. rewrite Z.eqb_refl. reflexivity.
    + reflexivity.
    + reflexivity.
    + exact ND.
    + intro Hin. apply I0. right. exact Hin.
    + intro Hin. apply I1. right. exact Hin.
    + intro Hin. apply In'. right. exact Hin.
    + intros v Hv. destruct (HU v (or_intror Hv)) as [ov [Hov [Dov Xov]]]. exists ov. split; [|split; assumption].
      rewrite G6. destruct (Z.eqb_spec (j_id v) (j_id u)) as [E|]; [exfalso; apply Nu; rewrite <- E; apply in_map; exact Hv|].
      destruct (Z.eqb_spec (j_id v) new) as [E|]; [exfalso; apply In'; right; rewrite <- E; apply in_map; exact Hv | exact Hov].
    + intros v Hv. unfold dmem. rewrite dget_app. pose proof (HF v (or_intror Hv)) as Fv. unfold dmem in Fv.
      destruct (dget (j_id v) acc); [discriminate|]. cbn [dget].
      destruct (Z.eqb_spec (j_id v) (j_id u)) as [E|]; [exfalso; apply Nu; rewrite <- E; apply in_map; exact Hv | reflexivity].
    + reflexivity.
    + exists h', accx'. split; [exact E'|]. split; [rewrite Nx'; exact X6|]. split; [|split].
      * rewrite Sx'. cbn [fold_left snd]. 
        assert (Q1 : (qadd accx dist == accx + dist)%Q) by (unfold qadd; apply Qred_correct).
        clear - Q1. revert Q1. generalize (qadd accx dist) (accx + dist)%Q. induction updr as [|nd l IHl]; intros x y E; cbn [fold_left]; [exact E|].
        apply IHl. rewrite E. reflexivity.
      * intros _. apply Cx'. unfold qadd. apply Qred_eq. apply Qred_correct.
      * intro k. rewrite G'. destruct (Z.eqb_spec k new) as [->|Nk].
        -- unfold onew', w_num, w_dists. cbn. rewrite <- app_assoc. reflexivity.
        -- unfold jfind. cbn [find fst]. change (j_id u') with (j_id u). fold (jfind k updr).
           destruct (Z.eqb_spec (j_id u) k) as [<-|Nku].
           ++ rewrite (jfind_none (j_id u) updr).
              ** rewrite G6, Z.eqb_refl, Hou. reflexivity.
              ** rewrite (res_map_ids (jupd j0 j1 v3 new) j_id (fun nd => j_id (fst nd)) r updr (jupd_id j0 j1 v3 new) Er). exact Nu.
           ++ rewrite G6. destruct (Z.eqb_spec k (j_id u)); [congruence|]. destruct (Z.eqb_spec k new); [congruence|]. reflexivity.
Qed.

(* ---------- straight-line parts of one iteration ---------- *)
Lemma jfor6_eval new a h L on :
  hget new h = Some on -> In a (map j_id L) ->
  PDM_nj_tree_for6 new a (h, map j_id L) = Ok (o_put new (w_kids on (o_kids on ++ [a])) h, map j_id (remove_id j_id a L)).
Proof.
  intros Hn Hin. unfold PDM_nj_tree_for6, o_add_child. rewrite (o_upd_some _ _ _ _ Hn). cbn [bind].
  rewrite (py_list_remove_map j_id a L Hin). reflexivity.
Qed.

Definition jstrip (o : nobj) : nobj := w_num (w_dists o None) None.

Lemma jfor10_eval a h o d x :
  hget a h = Some o -> o_dists o = Some d -> o_num o = Some x ->
  exists h', PDM_nj_tree_for10 a h = Ok h' /\ h_next h' = h_next h /\
             forall k, hget k h' = if Z.eqb k a then Some (jstrip o) else hget k h.
Proof.
  intros Ha Hd Hx. unfold PDM_nj_tree_for10.
  unfold o_del_dists. rewrite (o_get_some _ _ _ Ha). cbn [bind]. rewrite Hd. cbn [attr bind]. set (h1 := o_put a _ h).
  assert (H1 : hget a h1 = Some (w_dists o None)) by (unfold h1; rewrite hget_put, Z.eqb_refl; reflexivity).
  unfold o_del_num. rewrite (o_get_some _ _ _ H1). cbn [bind w_dists o_num]. rewrite Hx. cbn [attr bind].
  eexists. split; [reflexivity|]. split; [reflexivity|]. intro k. unfold h1. rewrite !hget_put.
  destruct (Z.eqb k a); reflexivity.
Qed.

Lemma res_map_proj {A B C} (F : A -> res B) (pa : A -> C) (pb : B -> C) l rs :
  (forall x r, F x = Ok r -> pb r = pa x) -> res_map F l = Ok rs -> map pb rs = map pa l.
Proof.
  intro HF. revert rs. induction l as [|x l IH]; intros rs H; cbn [res_map] in H.
  - assert (rs = []) by congruence. subst. reflexivity.
  - destruct (F x) as [r|e|] eqn:E; cbn [bind] in H; try discriminate.
    destruct (res_map F l) as [rs'|e|]; cbn [bind] in H; try discriminate.
    assert (rs = r :: rs') by congruence. subst. cbn [map]. rewrite (HF x r E), (IH rs' eq_refl). reflexivity.
Qed.

Lemma res_map_in {A B} (F : A -> res B) l : forall rs r, res_map F l = Ok rs -> In r rs -> exists x, In x l /\ F x = Ok r.
Proof.
  induction l as [|x l IH]; intros rs r H Hin; cbn [res_map] in H.
  - assert (rs = []) by congruence. subst. destruct Hin.
  - destruct (F x) as [r0|e|] eqn:E; cbn [bind] in H; try discriminate.
    destruct (res_map F l) as [rs'|e|] eqn:Er; cbn [bind] in H; try discriminate.
    assert (rs = r0 :: rs') by congruence. subst. destruct Hin as [<-|Hin].
    + exists x. split; [left; reflexivity | exact E].
    + destruct (IH rs' r eq_refl Hin) as [y [Hy Ey]]. exists y. split; [right; exact Hy | exact Ey].
Qed.

Lemma jupd_shape j0 j1 v3 next x r : jupd j0 j1 v3 next x = Ok r ->
  j_tree (fst r) = j_tree x /\ exists dist, snd r = dist /\ j_d (fst r) = dset next dist (j_d x).
Proof.
  unfold jupd. destruct (qget (j_d x) (j_id j0)); cbn [bind]; try discriminate.
  destruct (qget (j_d x) (j_id j1)); cbn [bind]; try discriminate. cbv zeta.
  destruct (qget (j_d j0) (j_id x)); cbn [bind]; try discriminate.
  destruct (qget (j_d j1) (j_id x)); cbn [bind]; try discriminate. intro H.
  set (dist := Qred ((1 # 2) * (0 + q + q0 - v3))) in *.
  assert (E : r = (mkJ (j_tree x) (dset next dist (j_d x)) (Qred (j_xsub x + dist - q1 - q2)), dist)) by congruence.
  rewrite E. cbn [fst snd j_tree j_d]. split; [reflexivity|]. exists dist. split; reflexivity.
Qed.

Lemma jfind_in upd nd : NoDup (map (fun nd : jnode * Q => j_id (fst nd)) upd) -> In nd upd -> jfind (j_id (fst nd)) upd = Some nd.
Proof.
  unfold jfind. induction upd as [|x r IH]; intros N H; [destruct H|]. cbn [map] in N. apply NoDup_cons_iff in N. destruct N as [Nx N].
  cbn [find]. destruct H as [->|H]; [rewrite Z.eqb_refl; reflexivity|].
  destruct (Z.eqb_spec (j_id (fst x)) (j_id (fst nd))) as [E|]; [|apply IH; assumption].
  exfalso. apply Nx. rewrite E. apply (in_map (fun nd => j_id (fst nd))). exact H.
Qed.

Lemma jfind_some k upd nd : jfind k upd = Some nd -> In nd upd /\ j_id (fst nd) = k.
Proof.
  unfold jfind. intro H. apply find_some in H. destruct H as [A B]. apply Z.eqb_eq in B. split; assumption.
Qed.

Lemma fold_snd_eq {A} (l : list (A * Q)) : forall x y, (x == y)%Q ->
  (fold_left (fun a kv => a + snd kv) l x == fold_left (fun a kv => a + snd kv) l y)%Q.
Proof. induction l as [|nd l IH]; intros x y E; cbn [fold_left]; [exact E|]. apply IH. rewrite E. reflexivity. Qed.

Lemma fold_sum_eq (l : list (jnode * Q)) : forall x y, (x == y)%Q ->
  (fold_left (fun a nd => a + snd nd) l x == fold_left (fun a nd => a + snd nd) l y)%Q.
Proof. induction l as [|nd l IH]; intros x y E; cbn [fold_left]; [exact E|]. apply IH. rewrite E. reflexivity. Qed.

(* ---------- one iteration of `while n > 1` ---------- *)
Lemma JR_obj h u : JR h u -> exists o, hget (j_id u) h = Some o /\ o_num o = Some (j_xsub u) /\ o_dists o = Some (j_d u).
Proof. intros [_ H]. exact H. Qed.

Lemma jcand_in n P : forall cands q ab, res_map (jcand n) P = Ok cands -> In (q, ab) cands -> In ab P.
Proof.
  intros cands q ab H Hin. destruct (res_map_in (jcand n) P cands (q, ab) H Hin) as [x [Hx Ex]].
  unfold jcand in Ex. destruct (qget (j_d (fst x)) (j_id (snd x))); cbn [bind] in Ex; try discriminate.
  assert (ab = x) by congruence. subst. exact Hx.
Qed.

Lemma nj_step_sim h pool n pool2 :
  JInv h pool -> nj_step pool n (h_next h) = Ok pool2 ->
  exists h2, PDM_nj_tree_while11 ((h, map j_id pool), n) = Ok ((h2, map j_id pool2), n - 1) /\ JInv h2 pool2 /\
             h_next h2 = h_next h + 1.
Proof.
  intros [HU [ND OK]] HS. pose proof (jpool_ids_nodup pool ND) as NI.
  unfold nj_step in HS.
  destruct (res_map _ (pairs_of pool)) as [cands|e|] eqn:Ec; cbn [bind] in HS; try discriminate.
  assert (Ec' : res_map (jcand n) (pairs_of pool) = Ok cands) by exact Ec. clear Ec.
  destruct (argmin_first None cands) as [[qmin [j0 j1]]|] eqn:Ea; [|discriminate].
  cbv zeta in HS. set (next := h_next h) in *.
  set (pool' := remove_id j_id (j_id j1) (remove_id j_id (j_id j0) pool)) in *.
  destruct (qget (j_d j0) (j_id j1)) as [v3|e|] eqn:V3; cbn [bind] in HS; try discriminate.
  destruct (res_map _ pool') as [upd|e|] eqn:Eu; cbn [bind] in HS; try discriminate.
  assert (Eu' : res_map (jupd j0 j1 v3 next) pool' = Ok upd) by exact Eu. clear Eu.
  set (new_d := map (fun nd : jnode * Q => (j_id (fst nd), snd nd)) upd) in *.
  set (new_x := Qred (fold_left (fun acc (nd : jnode * Q) => acc + snd nd) upd 0)%Q) in *.
  set (LL := if 2 <? n
             then (Qred ((1 # 2) * v3 + 1 / inject_Z (2 * (n - 2)) * (j_xsub j0 - j_xsub j1)),
                   Qred (v3 - Qred ((1 # 2) * v3 + 1 / inject_Z (2 * (n - 2)) * (j_xsub j0 - j_xsub j1))))%Q
             else (Qred (v3 / 2), Qred (v3 / 2))%Q).
  set (unew := mkJ (QT next None None [q_setlen (j_tree j0) (fst LL); q_setlen (j_tree j1) (snd LL)]) new_d new_x).
  assert (E2 : pool2 = map fst upd ++ [unew]).
  { unfold unew, LL. destruct (2 <? n); cbv beta iota zeta in HS; cbn [fst snd]; congruence. }
  clear HS. set (l0 := fst LL) in *. set (l1 := snd LL) in *.
  (* the chosen pair *)
  destruct (argmin_first_in _ _ _ Ea) as [Ab|Hin]; [discriminate|].
  pose proof (jcand_in n _ _ _ _ Ec' Hin) as Hp.
  destruct (pairs_of_In _ _ _ Hp) as [Hj0 Hj1].
  pose proof (pairs_of_distinct j_id pool j0 j1 NI Hp) as N01.
  rewrite Forall_forall in HU.
  destruct (JR_obj _ _ (HU j0 Hj0)) as [o0 [H0 [T0 D0]]].
  destruct (JR_obj _ _ (HU j1 Hj1)) as [o1 [H1 [T1 D1]]].
  assert (L0 : j_id j0 < next) by (eapply OK; exact H0).
  assert (L1 : j_id j1 < next) by (eapply OK; exact H1).
  (* run the generated code *)
  unfold PDM_nj_tree_while11. cbv zeta.
  destruct (jselect h n pool cands) as [acc [Esel Hacc]]; [apply Forall_forall; exact HU | exact Ec'|].
  rewrite Ea in Hacc. cbn [jacc_rel] in Hacc. destruct Hacc as [mg [-> _]]. rewrite Esel. cbn [bind].
  set (h1 := snd (py_node_factory h)).
  change (py_node_factory h) with (next, h1). cbv iota beta.
  assert (F1 : forall k, hget k h1 = if Z.eqb k next then Some (mkN None None [] None None None) else hget k h)
    by (intro k; apply hget_factory; exact OK).
  cbn [py_iter_pair bind].
  rewrite py_for_cons, (jfor6_eval next (j_id j0) h1 pool (mkN None None [] None None None)); [| rewrite F1, Z.eqb_refl; reflexivity | apply in_map; exact Hj0].
  cbn [bind o_kids app w_kids]. set (pool1 := remove_id j_id (j_id j0) pool) in *. set (h2 := o_put next _ h1).
  assert (Hj1' : In j1 pool1) by (apply remove_id_In; [exact NI | split; [exact Hj1 | congruence]]).
  rewrite py_for_cons, (jfor6_eval next (j_id j1) h2 pool1 (mkN None None [j_id j0] None None None));
    [| unfold h2; rewrite hget_put, Z.eqb_refl; reflexivity | apply in_map; exact Hj1'].
  cbn [bind o_kids app w_kids]. rewrite py_for_nil. cbn [bind]. fold pool'. set (h3 := o_put next _ h2).
  assert (Hb3 : hget next h3 = Some (mkN None None [j_id j0; j_id j1] None None None)) by (unfold h3; rewrite hget_put, Z.eqb_refl; reflexivity).
  unfold o_set_dists at 1. rewrite (o_upd_some _ _ _ _ Hb3). cbn [bind]. set (h4 := o_put next _ h3).
  assert (Hb4 : hget next h4 = Some (mkN None None [j_id j0; j_id j1] None None (Some []))) by (unfold h4; rewrite hget_put, Z.eqb_refl; reflexivity).
  unfold o_set_num at 1. rewrite (o_upd_some _ _ _ _ Hb4). cbn [bind]. set (h5 := o_put next _ h4).
  set (onew5 := mkN None None [j_id j0; j_id j1] None (Some (0 # 1)) (Some [])).
  assert (G5 : forall k, hget k h5 = if Z.eqb k next then Some onew5 else hget k h).
  { intro k. unfold h5, h4, h3, h2. rewrite !hget_put, F1. destruct (Z.eqb k next); reflexivity. }
  assert (X5 : h_next h5 = next + 1) by reflexivity.
  clearbody h5. clear h1 h2 h3 h4 F1 Hb3 Hb4.
  (* the distances *)
  rewrite py_for_map.
  assert (NI1 : NoDup (map j_id pool1)) by (apply remove_id_NoDup; exact NI).
  assert (NI' : NoDup (map j_id pool')) by (apply remove_id_NoDup; exact NI1).
  assert (In' : forall u, In u pool' <-> In u pool /\ j_id u <> j_id j0 /\ j_id u <> j_id j1).
  { intro u. unfold pool'. rewrite (remove_id_In j_id _ _ _ NI1). unfold pool1. rewrite (remove_id_In j_id _ _ _ NI). tauto. }
  assert (NotIn : forall x, (x = j_id j0 \/ x = j_id j1 \/ x = next) -> ~ In x (map j_id pool')).
  { intros x Hx Hi. apply in_map_iff in Hi. destruct Hi as [u [E Hu]]. apply In' in Hu. destruct Hu as [Hu [A0 A1]].
    destruct Hx as [ -> | [ -> | -> ] ]; [congruence | congruence|]. destruct (JR_obj _ _ (HU u Hu)) as [o [Ho _]]. pose proof (OK _ _ Ho). lia. }
  destruct (jdist_loop j0 j1 next o0 o1 v3) with (Lm := pool') (h := h5) (acc := @nil (Z * Q)) (accx := (0 # 1)%Q)
    (onew := onew5) (upd := upd) as [h6 [accx' [E6 [X6 [Sx [Cx G6]]]]]]; try assumption; try lia; try reflexivity.
  { rewrite G5. destruct (Z.eqb_spec (j_id j0) next); [lia | exact H0]. }
  { rewrite G5. destruct (Z.eqb_spec (j_id j1) next); [lia | exact H1]. }
  { rewrite G5, Z.eqb_refl. reflexivity. }
  { apply NotIn. auto. } { apply NotIn. auto. } { apply NotIn. auto. }
  { intros u Hu. apply In' in Hu. destruct Hu as [Hu [A0 A1]]. destruct (JR_obj _ _ (HU u Hu)) as [o [Ho [No Do]]].
    exists o. split; [|split; assumption]. rewrite G5. pose proof (OK _ _ Ho). destruct (Z.eqb_spec (j_id u) next); [lia | exact Ho]. }
  rewrite E6. cbn [bind app] in *. fold new_d in G6.
  assert (Ex : accx' = new_x).
  { rewrite <- (Cx eq_refl). unfold new_x. apply Qred_eq. exact Sx. }
  subst accx'. clear Sx Cx.
  assert (Ids : map (fun nd : jnode * Q => j_id (fst nd)) upd = map j_id pool')
    by (apply (res_map_proj (jupd j0 j1 v3 next) j_id (fun nd => j_id (fst nd)) pool' upd (jupd_id j0 j1 v3 next) Eu')).
  assert (F0 : jfind (j_id j0) upd = None) by (apply jfind_none; rewrite Ids; apply NotIn; auto).
  assert (F1 : jfind (j_id j1) upd = None) by (apply jfind_none; rewrite Ids; apply NotIn; auto).
  assert (H06 : hget (j_id j0) h6 = Some o0).
  { rewrite G6. destruct (Z.eqb_spec (j_id j0) next); [lia|]. rewrite F0, G5. destruct (Z.eqb_spec (j_id j0) next); [lia | exact H0]. }
  assert (H16 : hget (j_id j1) h6 = Some o1).
  { rewrite G6. destruct (Z.eqb_spec (j_id j1) next); [lia|]. rewrite F1, G5. destruct (Z.eqb_spec (j_id j1) next); [lia | exact H1]. }
  (* the branch lengths *)
  assert (BR : exists h7,
    (if n >? 2
     then do item_37 <- py_pair_item (Some (j_id j0, j_id j1)) 0 ;;
          do dists_38 <- o_get_dists item_37 h6 ;;
          do item_39 <- py_pair_item (Some (j_id j0, j_id j1)) 1 ;;
          do ent_40 <- qget dists_38 item_39 ;;
          do quo_41 <- qdiv (1 # 1) (inject_Z (2 * (n - 2))) ;;
          do item_42 <- py_pair_item (Some (j_id j0, j_id j1)) 0 ;;
          do num_43 <- o_get_num item_42 h6 ;;
          do item_44 <- py_pair_item (Some (j_id j0, j_id j1)) 1 ;;
          do num_45 <- o_get_num item_44 h6 ;;
          do item_46 <- py_pair_item (Some (j_id j0, j_id j1)) 0 ;;
          do dists_47 <- o_get_dists item_46 h6 ;;
          do item_48 <- py_pair_item (Some (j_id j0, j_id j1)) 1 ;;
          do ent_49 <- qget dists_47 item_48 ;;
          do item_50 <- py_pair_item (Some (j_id j0, j_id j1)) 0 ;;
          do heap_ <- o_set_len item_50 (qadd (qmul (1 # 2) ent_40) (qmul quo_41 (qsub num_43 num_45))) h6 ;;
          do item_51 <- py_pair_item (Some (j_id j0, j_id j1)) 1 ;;
          do heap_0 <- o_set_len item_51 (qsub ent_49 (qadd (qmul (1 # 2) ent_40) (qmul quo_41 (qsub num_43 num_45)))) heap_ ;;
          Ok (heap_0, map j_id pool', n)
     else do item_52 <- py_pair_item (Some (j_id j0, j_id j1)) 0 ;;
          do dists_53 <- o_get_dists item_52 h6 ;;
          do item_54 <- py_pair_item (Some (j_id j0, j_id j1)) 1 ;;
          do ent_55 <- qget dists_53 item_54 ;;
          do item_56 <- py_pair_item (Some (j_id j0, j_id j1)) 0 ;;
          do quo_57 <- qdiv ent_55 (inject_Z 2) ;;
          do heap_ <- o_set_len item_56 quo_57 h6 ;;
          do item_58 <- py_pair_item (Some (j_id j0, j_id j1)) 1 ;;
          do quo_59 <- qdiv ent_55 (inject_Z 2) ;;
          do heap_0 <- o_set_len item_58 quo_59 heap_ ;;
          Ok (heap_0, map j_id pool', n))
    = Ok (h7, map j_id pool', n) /\ h_next h7 = h_next h6 /\
    forall k, hget k h7 = if Z.eqb k (j_id j1) then Some (w_len o1 l1) else if Z.eqb k (j_id j0) then Some (w_len o0 l0) else hget k h6).
  { cbn [py_pair_item Z.eqb Pos.eqb bind]. unfold o_get_dists, o_get_num. rewrite (o_get_some _ _ _ H06), (o_get_some _ _ _ H16).
    cbn [bind]. rewrite D0, T0, T1. cbn [attr bind]. rewrite V3. cbn [bind].
    unfold l0, l1, LL. rewrite Z.gtb_ltb. destruct (Z.ltb_spec 2 n) as [Ln|Ln]; cbn [fst snd].
    - unfold qdiv. destruct (Qeq_bool (inject_Z (2 * (n - 2))) 0) eqn:Ez.
      { exfalso. apply Qeq_bool_eq in Ez. change 0%Q with (inject_Z 0) in Ez. apply (proj1 (inject_Z_injective _ _)) in Ez. lia. }
      cbn [bind]. unfold o_set_len. rewrite (o_upd_some _ _ _ _ H06). cbn [bind]. set (h7a := o_put (j_id j0) _ h6).
      assert (H17 : hget (j_id j1) h7a = Some o1).
      { unfold h7a. rewrite hget_put. destruct (Z.eqb_spec (j_id j1) (j_id j0)); [congruence | exact H16]. }
      rewrite (o_upd_some _ _ _ _ H17). cbn [bind]. eexists. split; [reflexivity|]. split; [reflexivity|].
      assert (Ef : qadd (qmul (1 # 2) v3) (qmul (Qred ((1 # 1) / inject_Z (2 * (n - 2)))) (qsub (j_xsub j0) (j_xsub j1)))
                   = Qred ((1 # 2) * v3 + 1 / inject_Z (2 * (n - 2)) * (j_xsub j0 - j_xsub j1))).
      { unfold qadd, qmul, qsub. apply Qred_eq. rewrite !Qred_correct. reflexivity. }
      intro k. unfold h7a. rewrite !hget_put. destruct (Z.eqb k (j_id j1)).
      + unfold w_len. rewrite Ef. reflexivity.
      + destruct (Z.eqb k (j_id j0)); [|reflexivity]. unfold w_len. rewrite Ef. reflexivity.
    - unfold qdiv. change (Qeq_bool (inject_Z 2) 0) with false. cbv iota. cbn [bind].
      unfold o_set_len. rewrite (o_upd_some _ _ _ _ H06). cbn [bind]. set (h7a := o_put (j_id j0) _ h6).
      assert (H17 : hget (j_id j1) h7a = Some o1).
      { unfold h7a. rewrite hget_put. destruct (Z.eqb_spec (j_id j1) (j_id j0)); [congruence | exact H16]. }
      rewrite (o_upd_some _ _ _ _ H17). cbn [bind]. eexists. split; [reflexivity|]. split; [reflexivity|].
      intro k. unfold h7a. rewrite !hget_put. destruct (Z.eqb k (j_id j1)); [reflexivity|]. destruct (Z.eqb k (j_id j0)); reflexivity. }
  destruct BR as [h7 [E7 [X7 G7]]]. rewrite E7. cbn [bind]. clear E7.
  (* the private attributes of the joined nodes are deleted *)
  rewrite py_for_cons.
  destruct (jfor10_eval (j_id j0) h7 (w_len o0 l0) (j_d j0) (j_xsub j0)) as [h8 [E8 [X8 G8]]]; try assumption.
  { rewrite G7. destruct (Z.eqb_spec (j_id j0) (j_id j1)); [congruence|]. rewrite Z.eqb_refl. reflexivity. }
  rewrite E8. cbn [bind]. rewrite py_for_cons.
  destruct (jfor10_eval (j_id j1) h8 (w_len o1 l1) (j_d j1) (j_xsub j1)) as [h9 [E9 [X9 G9]]]; try assumption.
  { rewrite G8. destruct (Z.eqb_spec (j_id j1) (j_id j0)); [congruence|]. rewrite G7, Z.eqb_refl. reflexivity. }
  rewrite E9. cbn [bind]. rewrite py_for_nil.
  set (fupd := fun (nd : jnode * Q) (o : nobj) => w_num (w_dists o (Some (j_d (fst nd)))) (Some (j_xsub (fst nd)))).
  set (onewF := w_num (w_dists onew5 (Some new_d)) (Some new_x)).
  assert (GF : forall k, hget k h9 =
                 if Z.eqb k (j_id j1) then Some (jstrip (w_len o1 l1))
                 else if Z.eqb k (j_id j0) then Some (jstrip (w_len o0 l0))
                 else if Z.eqb k next then Some onewF
                 else match jfind k upd with Some nd => option_map (fupd nd) (hget k h) | None => hget k h end).
  { intro k. rewrite G9. destruct (Z.eqb_spec k (j_id j1)); [reflexivity|]. rewrite G8.
    destruct (Z.eqb_spec k (j_id j0)); [reflexivity|]. rewrite G7.
    destruct (Z.eqb_spec k (j_id j1)); [congruence|]. destruct (Z.eqb_spec k (j_id j0)); [congruence|].
    rewrite G6. destruct (Z.eqb_spec k next); [reflexivity|]. rewrite G5. destruct (Z.eqb_spec k next); [congruence | reflexivity]. }
  assert (XF : h_next h9 = next + 1) by (rewrite X9, X8, X7, X6; exact X5).
  clear G9 G8 G7 G6 G5 E6 E8 E9 H06 H16.
  exists h9. split.
  { cbn [bind]. rewrite E2, map_app, map_map. cbn [map]. rewrite Ids. reflexivity. }
  split; [|exact XF].
  (* the invariant *)
  assert (Perm : Permutation pool (j0 :: j1 :: pool')).
  { eapply perm_trans; [apply (remove_id_perm j_id pool j0 Hj0 NI)|]. apply perm_skip.
    apply (remove_id_perm j_id pool1 j1 Hj1' NI1). }
  assert (Lt : forall u k, In u pool -> In k (qids (j_tree u)) -> k < next).
  { intros u k Hu Hk. destruct (Rep_in_heap h _ (proj1 (HU u Hu)) k Hk) as [o Ho]. exact (OK _ _ Ho). }
  assert (KeepK : forall k ok, k <> j_id j1 -> k <> j_id j0 -> k < next -> hget k h = Some ok ->
                  exists o', hget k h9 = Some o' /\ same_struct ok o').
  { intros k ok K1 K0 Kn Hok. rewrite GF.
    destruct (Z.eqb_spec k (j_id j1)); [congruence|]. destruct (Z.eqb_spec k (j_id j0)); [congruence|].
    destruct (Z.eqb_spec k next); [lia|]. rewrite Hok. destruct (jfind k upd); cbn [option_map].
    - eexists. split; [reflexivity | repeat split].
    - exists ok. split; [reflexivity | repeat split]. }
  assert (Keep : forall u, In u pool -> j_id u <> j_id j0 -> j_id u <> j_id j1 -> keeps (qids (j_tree u)) h h9).
  { intros u Hu A0 A1 k o Hk Ho. apply KeepK; [| | exact (Lt u k Hu Hk) | exact Ho].
    - intro E. subst k. apply A1. f_equal. eapply (jpool_disjoint pool u j1 _ ND Hu Hj1 Hk). exact (q_id_in_qids (j_tree j1)).
    - intro E. subst k. apply A0. f_equal. eapply (jpool_disjoint pool u j0 _ ND Hu Hj0 Hk). exact (q_id_in_qids (j_tree j0)). }
  assert (KeepJ : forall j oj lj, In j pool -> (j_id j = j_id j0 \/ j_id j = j_id j1) -> hget (j_id j) h = Some oj ->
                  hget (j_id j) h9 = Some (jstrip (w_len oj lj)) -> Rep h9 (q_setlen (j_tree j) lj)).
  { intros j oj lj Hj Hid Hoj H9. pose proof (proj1 (HU j Hj)) as R. destruct (j_tree j) as [i x l ks] eqn:Et.
    cbn [q_setlen]. rewrite Rep_eq in *. destruct R as [[o [Ho [Hx [Hl Hk]]]] Rk].
    assert (Ei : j_id j = i) by (unfold j_id; rewrite Et; reflexivity). rewrite Ei in *. rewrite Ho in Hoj.
    assert (oj = o) by congruence. subst oj.
    split; [exists (jstrip (w_len o lj)); repeat split; assumption|].
    rewrite Forall_forall in *. intros c Hc. apply (Rep_keeps h); [apply Rk; exact Hc|].
    intros k ok Hk' Hok.
    assert (Kin : In k (qids (j_tree j))) by (rewrite Et, qids_eq; right; apply in_flat_map; exists c; split; assumption).
    assert (NDj : NoDup (qids (j_tree j))).
    { clear - ND Hj. induction pool as [|w r IH]; [destruct Hj|]. cbn [flat_map] in ND. destruct Hj as [->|Hj];
        [exact (NoDup_app_l _ _ ND) | apply IH; [exact (NoDup_app_r _ _ ND) | exact Hj]]. }
    assert (k <> i).
    { rewrite Et, qids_eq in NDj. apply NoDup_cons_iff in NDj. intro E. subst k. apply (proj1 NDj).
      apply in_flat_map. exists c. split; assumption. }
    apply KeepK; [| | exact (Lt j k Hj Kin) | exact Hok].
    - intro E; subst k. assert (j = j1) by (eapply (jpool_disjoint pool j j1 _ ND Hj Hj1 Kin); exact (q_id_in_qids (j_tree j1))). subst j.
      destruct Hid; congruence.
    - intro E; subst k. assert (j = j0) by (eapply (jpool_disjoint pool j j0 _ ND Hj Hj0 Kin); exact (q_id_in_qids (j_tree j0))). subst j.
      destruct Hid; congruence. }
  assert (NDu : NoDup (map (fun nd : jnode * Q => j_id (fst nd)) upd)) by (rewrite Ids; exact NI').
  assert (Trees : map (fun nd : jnode * Q => j_tree (fst nd)) upd = map j_tree pool').
  { apply (res_map_proj (jupd j0 j1 v3 next) j_tree (fun nd => j_tree (fst nd)) pool' upd); [|exact Eu'].
    intros x r Er. exact (proj1 (jupd_shape _ _ _ _ _ _ Er)). }
  split; [|split].
  - rewrite E2. apply Forall_app. split.
    + apply Forall_forall. intros u'' Hu''. apply in_map_iff in Hu''. destruct Hu'' as [nd [<- Hnd]].
      destruct (res_map_in _ _ _ _ Eu' Hnd) as [u [Hu Eud]]. apply In' in Hu. destruct Hu as [Hu [A0 A1]].
      destruct (jupd_shape _ _ _ _ _ _ Eud) as [Et _]. pose proof (jupd_id _ _ _ _ _ _ Eud) as Eid.
      split.
      * rewrite Et. apply (Rep_keeps h); [exact (proj1 (HU u Hu)) | apply Keep; assumption].
      * destruct (JR_obj _ _ (HU u Hu)) as [o [Ho [No Do]]]. pose proof (OK _ _ Ho) as Lu.
        exists (fupd nd o). split; [|split; reflexivity].
        rewrite GF, Eid. destruct (Z.eqb_spec (j_id u) (j_id j1)); [congruence|]. destruct (Z.eqb_spec (j_id u) (j_id j0)); [congruence|].
        destruct (Z.eqb_spec (j_id u) next); [lia|]. rewrite <- Eid, (jfind_in upd nd NDu Hnd), Eid, Ho. reflexivity.
    + constructor; [|constructor]. split.
      * unfold unew. cbn [j_tree]. rewrite Rep_eq. split.
        -- exists onewF. split; [|repeat split].
           ++ rewrite GF. destruct (Z.eqb_spec next (j_id j1)); [lia|]. destruct (Z.eqb_spec next (j_id j0)); [lia|].
              rewrite Z.eqb_refl. reflexivity.
           ++ cbn. rewrite !q_id_setlen. reflexivity.
        -- constructor; [|constructor; [|constructor]].
           ++ apply (KeepJ j0 o0 l0 Hj0 (or_introl eq_refl) H0). rewrite GF.
              destruct (Z.eqb_spec (j_id j0) (j_id j1)); [congruence|]. rewrite Z.eqb_refl. reflexivity.
           ++ apply (KeepJ j1 o1 l1 Hj1 (or_intror eq_refl) H1). rewrite GF. rewrite Z.eqb_refl. reflexivity.
      * exists onewF. change (j_id unew) with next. split; [|split; reflexivity].
        rewrite GF. destruct (Z.eqb_spec next (j_id j1)); [lia|]. destruct (Z.eqb_spec next (j_id j0)); [lia|].
        rewrite Z.eqb_refl. reflexivity.
  - rewrite E2, flat_map_app. cbn [flat_map]. rewrite app_nil_r.
    replace (flat_map (fun u => qids (j_tree u)) (map fst upd)) with (flat_map (fun u => qids (j_tree u)) pool').
    2:{ rewrite !flat_map_concat_map, map_map. rewrite <- (map_map (fun nd : jnode * Q => j_tree (fst nd)) qids), Trees, map_map. reflexivity. }
    unfold unew. cbn [j_tree]. rewrite qids_eq. cbn [flat_map]. rewrite !qids_setlen, app_nil_r.
    pose proof (Permutation_NoDup (Permutation_flat_map (fun u => qids (j_tree u)) Perm) ND) as NP. cbn [flat_map] in NP.
    apply NoDup_app_intro.
    + exact (NoDup_app_r _ _ (NoDup_app_r _ _ NP)).
    + constructor.
      * intro Hi. apply in_app_or in Hi. destruct Hi as [Hi|Hi]; [pose proof (Lt j0 next Hj0 Hi) | pose proof (Lt j1 next Hj1 Hi)]; lia.
      * rewrite app_assoc in NP. exact (NoDup_app_l _ _ NP).
    + intros x Hx [<-|Hi].
      * apply in_flat_map in Hx. destruct Hx as [u [Hu Hk]]. apply In' in Hu. pose proof (Lt u next (proj1 Hu) Hk). lia.
      * rewrite app_assoc in NP. exact (NoDup_app_disj _ _ x NP Hi Hx).
  - intros k o. rewrite GF, XF. destruct (Z.eqb_spec k (j_id j1)); [intros _; lia|].
    destruct (Z.eqb_spec k (j_id j0)); [intros _; lia|]. destruct (Z.eqb_spec k next); [intros _; lia|].
    destruct (jfind k upd); [destruct (hget k h) as [o'|] eqn:E; [|discriminate] | intro E]; intros; pose proof (OK _ _ E); lia.
Qed.

(* ---------- the while loop ---------- *)
Definition jcond (s_ : oheap * list Z * Z) : bool := let '((heap_, node_pool), n) := s_ in (n >? 1).

Lemma nj_loop_sim : forall fuel h pool n t,
  JInv h pool -> nj_loop fuel pool n (h_next h) = Ok t ->
  exists h' u r n', py_while fuel jcond PDM_nj_tree_while11 ((h, map j_id pool), n) = Ok ((h', j_id u :: map j_id r), n') /\
                    JInv h' (u :: r) /\ j_tree u = t.
Proof.
  induction fuel as [|f IH]; intros h pool n t I H; cbn [nj_loop] in H; cbn [py_while]; unfold jcond at 1; rewrite Z.gtb_ltb.
  - destruct (1 <? n); [discriminate|]. destruct pool as [|x r]; [discriminate|].
    assert (j_tree x = t) by congruence. exists h, x, r, n. split; [reflexivity | split; assumption].
  - destruct (1 <? n).
    + destruct (nj_step pool n (h_next h)) as [pool2|e|] eqn:Es; cbn [bind] in H; try discriminate.
      destruct (nj_step_sim h pool n pool2 I Es) as [h2 [E2 [I2 X2]]]. rewrite E2. cbn [bind].
      rewrite <- X2 in H. exact (IH h2 pool2 (n - 1) t I2 H).
    + destruct pool as [|x r]; [discriminate|].
      assert (j_tree x = t) by congruence. exists h, x, r, n. split; [reflexivity | split; assumption].
Qed.

(* ---------- building the pool ---------- *)
Definition jleaf (a : Z) : nobj := mkN (Some a) None [] None None (Some []).

Lemma jinit1 : forall l h ids, heap_ok h -> 0 <= h_next h ->
  exists h', py_for l PDM_nj_tree_for1 (h, ids)
             = Ok (h', ids ++ map Z.of_nat (seq (Z.to_nat (h_next h)) (length l))) /\
             h_next h' = h_next h + Z.of_nat (length l) /\ heap_ok h' /\
             forall k, hget k h' = match dget k (idsl (Z.to_nat (h_next h)) l) with
                                   | Some a => Some (jleaf a)
                                   | None => hget k h
                                   end.
Proof.
  induction l as [|a l IH]; intros h ids OK P.
  - exists h. cbn [length seq map]. rewrite app_nil_r, Z.add_0_r. repeat split; try assumption; reflexivity.
  - rewrite py_for_cons. unfold PDM_nj_tree_for1 at 1.
    set (new := h_next h). set (h1 := snd (py_node_factory h)). change (py_node_factory h) with (new, h1). cbv iota beta.
    assert (F1 : forall k, hget k h1 = if Z.eqb k new then Some (mkN None None [] None None None) else hget k h)
      by (intro k; apply hget_factory; exact OK).
    assert (Hb : hget new h1 = Some (mkN None None [] None None None)) by (rewrite F1, Z.eqb_refl; reflexivity).
    unfold o_set_taxon. rewrite (o_upd_some _ _ _ _ Hb). cbn [bind]. set (h2 := o_put new _ h1).
    assert (Hb2 : hget new h2 = Some (mkN (Some a) None [] None None None)) by (unfold h2; rewrite hget_put, Z.eqb_refl; reflexivity).
    unfold o_set_dists. rewrite (o_upd_some _ _ _ _ Hb2). cbn [bind]. set (h5 := o_put new _ h2).
    assert (F5 : forall k, hget k h5 = if Z.eqb k new then Some (jleaf a) else hget k h).
    { intro k. unfold h5, h2. rewrite !hget_put, F1. destruct (Z.eqb k new); reflexivity. }
    assert (X5 : h_next h5 = new + 1) by reflexivity.
    assert (OK5 : heap_ok h5).
    { intros k o. rewrite F5, X5. destruct (Z.eqb_spec k new); [intros _; lia|]. intro E. pose proof (OK _ _ E). unfold new. lia. }
    destruct (IH h5 (ids ++ [new]) OK5) as [h' [E' [X' [OK' G']]]]; [rewrite X5; unfold new; lia|].
    rewrite E'. cbn [bind]. exists h'. rewrite X5 in *.
    replace (Z.to_nat (new + 1)) with (S (Z.to_nat new)) in * by lia.
    split; [|split; [|split; [exact OK'|]]].
    + f_equal. f_equal. rewrite <- app_assoc. cbn [length seq map app]. rewrite Z2Nat.id by (unfold new; lia). reflexivity.
    + rewrite X'. cbn [length]. lia.
    + intro k. rewrite G'. unfold idsl. cbn [length seq map combine dget]. fold (idsl (S (Z.to_nat new)) l).
      rewrite Z2Nat.id by (unfold new; lia). destruct (Z.eqb_spec k new) as [->|Nk].
      * rewrite idsl_below by lia. rewrite F5, Z.eqb_refl. reflexivity.
      * destruct (dget k (idsl (S (Z.to_nat new)) l)); [reflexivity|]. rewrite F5.
        destruct (Z.eqb_spec k new); [congruence | reflexivity].
Qed.

Section JFill.
Variables (M : tbl Q) (tax : Z -> Z).

(* for nd2 in node_pool: if nd1 is nd2: continue; ... *)
Lemma jrow_loop nd1 : forall (lp : list (Z * Z)) h o dd x,
  hget nd1 h = Some o -> o_taxon o = Some (tax nd1) -> o_dists o = Some dd -> o_num o = Some x ->
  NoDup (map fst lp) ->
  (forall jb, In jb lp -> fst jb <> nd1 ->
     (exists o2, hget (fst jb) h = Some o2 /\ o_taxon o2 = Some (snd jb)) /\ tget2 (tax nd1) (snd jb) M <> None /\
     dmem (fst jb) dd = false) ->
  exists h' x', py_for (map fst lp) (PDM_nj_tree_for2 none_key M nd1) h = Ok h' /\ h_next h' = h_next h /\
    (x' == fold_left (fun acc kv => acc + snd kv) (nrow M (nd1, tax nd1) lp) x)%Q /\
    (Qred x = x -> Qred x' = x') /\
    forall k, hget k h' = if Z.eqb k nd1 then Some (w_num (w_dists o (Some (dd ++ nrow M (nd1, tax nd1) lp))) (Some x')) else hget k h.
Proof.
  induction lp as [|[j b] lp IH]; intros h o dd x Ho To Do Xo ND HL.
  - exists h, x. split; [reflexivity|]. split; [reflexivity|]. split; [reflexivity|]. split; [tauto|]. intro k.
    cbn [nrow flat_map]. rewrite app_nil_r. destruct (Z.eqb_spec k nd1) as [->|]; [|reflexivity]. rewrite Ho. f_equal.
    destruct o; unfold w_num, w_dists; cbn in *. rewrite Do, Xo. reflexivity.
  - cbn [map fst] in *. apply NoDup_cons_iff in ND. destruct ND as [Nj ND]. rewrite py_for_cons.
    unfold PDM_nj_tree_for2 at 1. unfold nrow. cbn [flat_map fst snd]. fold (nrow M (nd1, tax nd1) lp).
    destruct (Z.eqb_spec nd1 j) as [<-|Nn].
    + cbn [bind app]. apply (IH h o dd x Ho To Do Xo ND). intros jb Hjb. apply HL. right. exact Hjb.
    + destruct (HL (j, b) (or_introl eq_refl)) as [[o2 [H2 T2]] [Hm Fr]]; [cbn; congruence|]. cbn [fst snd] in *.
      unfold o_get_taxon. rewrite (o_get_some _ _ _ Ho). cbn [bind]. rewrite To. cbn [tax_key].
      unfold tget2 in Hm. destruct (dget (tax nd1) M) as [row|] eqn:Er; [|congruence]. cbn [bind].
      rewrite (o_get_some _ _ _ H2). cbn [bind]. rewrite T2. cbn [tax_key].
      destruct (dget b row) as [v|] eqn:Ev; [|congruence]. cbn [bind].
      assert (Ev' : v = mval M (tax nd1) b) by (unfold mval, tget2; rewrite Er, Ev; reflexivity).
      unfold o_get_dists. rewrite (o_get_some _ _ _ Ho). cbn [bind]. rewrite Do. cbn [attr bind].
      unfold o_set_dists. rewrite (o_upd_some _ _ _ _ Ho). cbn [bind]. set (h1 := o_put nd1 _ h).
      assert (H1 : hget nd1 h1 = Some (w_dists o (Some (dset j v dd)))) by (unfold h1; rewrite hget_put, Z.eqb_refl; reflexivity).
      unfold o_get_num. rewrite (o_get_some _ _ _ H1). cbn [bind w_dists o_num]. rewrite Xo. cbn [attr bind].
      unfold o_set_num. rewrite (o_upd_some _ _ _ _ H1). cbn [bind]. set (h2 := o_put nd1 _ h1).
      set (o' := w_num (w_dists o (Some (dd ++ [(j, v)]))) (Some (qadd x v))).
      assert (G2 : forall k, hget k h2 = if Z.eqb k nd1 then Some o' else hget k h).
      { intro k. unfold h2, h1. rewrite !hget_put. destruct (Z.eqb k nd1); [|reflexivity]. unfold o'. rewrite <- (dset_new _ _ _ Fr). reflexivity. }
      destruct (IH h2 o' (dd ++ [(j, v)]) (qadd x v)) as [h' [x' [E' [X' [Sx [Cx G']]]]]]; try reflexivity.
      * rewrite G2, Z.eqb_refl. reflexivity.
      * exact To.
      * exact ND.
      * intros jb Hjb Njb. destruct (HL jb (or_intror Hjb) Njb) as [[o3 [H3 T3]] [Hm3 Fr3]]. split; [|split; [exact Hm3|]].
        -- exists o3. split; [|exact T3]. rewrite G2. destruct (Z.eqb_spec (fst jb) nd1); [congruence | exact H3].
        -- unfold dmem. rewrite dget_app. unfold dmem in Fr3. destruct (dget (fst jb) dd); [discriminate|]. cbn [dget].
           destruct (Z.eqb_spec (fst jb) j) as [E|]; [exfalso; apply Nj; rewrite <- E; apply in_map; exact Hjb | reflexivity].
      * rewrite E'. exists h', x'. split; [reflexivity|]. split; [rewrite X'; reflexivity|]. split; [|split].
        -- rewrite Sx. cbn [fold_left snd app]. rewrite <- Ev'.
           apply fold_snd_eq. unfold qadd. apply Qred_correct.
        -- intros _. apply Cx. unfold qadd. apply Qred_eq, Qred_correct.
        -- intro k. rewrite G', G2. destruct (Z.eqb k nd1); [|reflexivity]. unfold o', w_num, w_dists. cbn.
           rewrite <- Ev', <- app_assoc. reflexivity.
Qed.

Variable lp0 : list (Z * Z).
Hypothesis N0 : NoDup (map fst lp0).
Hypothesis TX : forall k a, In (k, a) lp0 -> tax k = a.
Hypothesis MC : forall ia jb, In ia lp0 -> In jb lp0 -> fst ia <> fst jb -> tget2 (snd ia) (snd jb) M <> None.

Definition jfinal (k a : Z) : nobj :=
  mkN (Some a) None [] None (Some (Qred (fold_left (fun acc kv => acc + snd kv) (nrow M (k, a) lp0) 0)%Q)) (Some (nrow M (k, a) lp0)).

Lemma jouter : forall lp h, NoDup (map fst lp) -> incl lp lp0 ->
  (forall ia, In ia lp -> hget (fst ia) h = Some (jleaf (snd ia))) ->
  (forall jb, In jb lp0 -> exists o, hget (fst jb) h = Some o /\ o_taxon o = Some (snd jb)) ->
  exists h', py_for (map fst lp) (PDM_nj_tree_for3 none_key M (map fst lp0)) h = Ok h' /\ h_next h' = h_next h /\
             forall k, hget k h' = match dget k lp with Some a => Some (jfinal k a) | None => hget k h end.
Proof.
  induction lp as [|[i a] lp IH]; intros h ND Inc HL HT.
  - exists h. split; [reflexivity|]. split; reflexivity.
  - cbn [map fst] in *. apply NoDup_cons_iff in ND. destruct ND as [Ni ND]. rewrite py_for_cons.
    assert (Iia : In (i, a) lp0) by (apply Inc; left; reflexivity).
    pose proof (HL (i, a) (or_introl eq_refl)) as Hi. cbn [fst snd] in Hi.
    unfold PDM_nj_tree_for3 at 1. unfold o_set_num. rewrite (o_upd_some _ _ _ _ Hi). cbn [bind]. set (h1 := o_put i _ h).
    set (o := mkN (Some a) None [] None (Some (0 # 1)%Q) (Some [])).
    assert (H1 : hget i h1 = Some o) by (unfold h1; rewrite hget_put, Z.eqb_refl; reflexivity).
    destruct (jrow_loop i lp0 h1 o [] (0 # 1)%Q) as [h2 [x' [E2 [X2 [Sx [Cx G2]]]]]]; try reflexivity; try assumption.
    { cbn. rewrite (TX _ _ Iia). reflexivity. }
    { intros jb Hjb Njb. split; [|split; [|reflexivity]].
      - destruct (HT jb Hjb) as [o2 [H2 T2]]. exists o2. split; [|exact T2]. unfold h1. rewrite hget_put.
        destruct (Z.eqb_spec (fst jb) i); [congruence | exact H2].
      - rewrite (TX _ _ Iia). apply (MC (i, a) jb Iia Hjb). cbn [fst]. congruence. }
    rewrite E2. cbn [bind app] in *. rewrite (TX _ _ Iia) in G2.
    assert (Ex : x' = Qred (fold_left (fun acc kv => acc + snd kv) (nrow M (i, a) lp0) 0)%Q).
    { rewrite <- (Cx eq_refl). apply Qred_eq. rewrite Sx, (TX _ _ Iia). reflexivity. }
    destruct (IH h2) as [h' [E' [X' G']]]; try assumption.
    + intros x Hx. apply Inc. right. exact Hx.
    + intros ia Hia. rewrite G2. destruct (Z.eqb_spec (fst ia) i) as [E|].
      * exfalso. apply Ni. rewrite <- E. apply in_map. exact Hia.
      * unfold h1. rewrite hget_put. destruct (Z.eqb_spec (fst ia) i); [congruence|]. apply HL. right. exact Hia.
    + intros jb Hjb. rewrite G2. destruct (Z.eqb_spec (fst jb) i) as [E|].
      * eexists. split; [reflexivity|]. cbn. f_equal.
        destruct jb as [j b]. cbn [fst snd] in *. subst j. pose proof (TX _ _ Hjb). pose proof (TX _ _ Iia). congruence.
      * destruct (HT jb Hjb) as [o2 [H2 T2]]. exists o2. split; [|exact T2]. unfold h1. rewrite hget_put.
        destruct (Z.eqb_spec (fst jb) i); [congruence | exact H2].
    + rewrite E'. exists h'. split; [reflexivity|]. split; [rewrite X', X2; reflexivity|]. intro k. rewrite G'. cbn [dget].
      destruct (Z.eqb_spec k i) as [->|Nk].
      * rewrite (dget_none_keys i lp) by exact Ni. rewrite G2, Z.eqb_refl. unfold jfinal, o, w_num, w_dists. cbn. rewrite Ex. reflexivity.
      * destruct (dget k lp); [reflexivity|]. rewrite G2. destruct (Z.eqb_spec k i); [congruence|]. unfold h1. rewrite hget_put.
        destruct (Z.eqb_spec k i); [congruence | reflexivity].
Qed.

End JFill.

(* ---------- the whole function ---------- *)
Lemma del2_eval {R} a h o d x (K : oheap -> res R) :
  hget a h = Some o -> o_dists o = Some d -> o_num o = Some x ->
  exists h', (do h1 <- o_del_dists a h ;; do h2 <- o_del_num a h1 ;; K h2) = K h' /\
             forall k, hget k h' = if Z.eqb k a then Some (jstrip o) else hget k h.
Proof.
  intros Ha Hd Hx.
  unfold o_del_dists. rewrite (o_get_some _ _ _ Ha). cbn [bind]. rewrite Hd. cbn [attr bind]. set (h1 := o_put a _ h).
  assert (H1 : hget a h1 = Some (w_dists o None)) by (unfold h1; rewrite hget_put, Z.eqb_refl; reflexivity).
  unfold o_del_num. rewrite (o_get_some _ _ _ H1). cbn [bind w_dists o_num]. rewrite Hx. cbn [attr bind].
  eexists. split; [reflexivity|]. intro k. unfold h1. rewrite !hget_put. destruct (Z.eqb k a); reflexivity.
Qed.

Theorem gen_nj_tree_ok (M : tbl Q) (order : list Z) (t : qtree) :
  NoDup order -> mcomplete M order -> nj_tree M order = Ok t ->
  exists i h, PDM_nj_tree none_key (length order) M order = Ok (i, h) /\
              forall fuel, (qdepth t <= fuel)%nat -> rebuild fuel h i = Ok t.
Proof.
  intros NO MC HT. set (ids := idsl 0 order).
  assert (Sn : map snd ids = order) by (apply combine_snd; rewrite map_length, seq_length; reflexivity).
  assert (Fn : map fst ids = map Z.of_nat (seq 0 (length order))) by (apply combine_fst; rewrite map_length, seq_length; reflexivity).
  assert (NF : NoDup (map fst ids)) by apply idsl_keys_nodup.
  unfold nj_tree in HT.
  rewrite (nj_init_eval M ids) in HT; [| rewrite Sn; exact NO | rewrite Sn; exact MC | reflexivity].
  cbn [bind] in HT. set (pool0 := map (nmk M ids) ids) in *.
  set (tax := fun k => match dget k ids with Some a => a | None => 0 end).
  assert (TX : forall k a, In (k, a) ids -> tax k = a) by (intros k a E; unfold tax; rewrite (In_dget _ _ _ NF E); reflexivity).
  unfold PDM_nj_tree. cbv zeta.
  destruct (jinit1 order oheap_empty []) as [h1 [E1 [X1 [OK1 G1]]]]; [intros k o; discriminate | cbn; lia|].
  cbn [h_next oheap_empty Z.to_nat app Z.add] in E1, X1, G1. rewrite E1. cbn [bind]. rewrite <- Fn. fold ids in G1.
  destruct (jouter M tax ids NF TX) with (lp := ids) (h := h1) as [h2 [E2 [X2 G2]]]; try assumption.
  { intros ia jb Ha Hb Nab. apply MC.
    - rewrite <- Sn. apply in_map. exact Ha.
    - rewrite <- Sn. apply in_map. exact Hb.
    - apply (ids_snd_neq ids); [rewrite Sn; exact NO | exact Ha | exact Hb | exact Nab]. }
  { apply incl_refl. }
  { intros [i a] Hia. cbn [fst snd]. rewrite G1, (In_dget _ _ _ NF Hia). reflexivity. }
  { intros [j b] Hjb. cbn [fst snd]. rewrite G1, (In_dget _ _ _ NF Hjb). eexists. split; reflexivity. }
  assert (E2' : py_for (map fst ids) (PDM_nj_tree_for3 none_key M (map fst ids)) h1 = Ok h2) by exact E2.
  rewrite E2'. cbn [bind]. clear E2 E2'.
  assert (I0 : JInv h2 pool0).
  { split; [|split].
    - apply Forall_forall. intros u Hu. apply in_map_iff in Hu. destruct Hu as [[i a] [<- Hia]].
      assert (Ei : dget i ids = Some a) by (apply In_dget; assumption).
      split.
      + cbn [nmk j_tree fst snd]. rewrite Rep_eq. split; [|constructor]. eexists. split; [rewrite G2, Ei; reflexivity|]. repeat split.
      + eexists. change (j_id (nmk M ids (i, a))) with i. split; [rewrite G2, Ei; reflexivity|]. split; reflexivity.
    - unfold pool0. rewrite flat_map_concat_map, map_map. cbn [nmk j_tree qids]. rewrite <- flat_map_concat_map.
      replace (flat_map (fun x : Z * Z => [fst x]) ids) with (map fst ids); [exact NF|].
      clear. induction ids as [|x l IH]; [reflexivity|]. cbn. rewrite IH. reflexivity.
    - intros k o. rewrite X2, X1, G2. destruct (dget k ids) as [a|] eqn:Ea.
      + intros _. apply dget_In in Ea. apply (in_map fst) in Ea. cbn [fst] in Ea. rewrite Fn in Ea.
        apply in_map_iff in Ea. destruct Ea as [n [<- Hn]]. apply in_seq in Hn. lia.
      + rewrite G1, Ea. discriminate. }
  assert (EL : map j_id pool0 = map fst ids).
  { unfold pool0. rewrite map_map. apply map_ext. intros [i a]. reflexivity. }
  assert (XN : h_next h2 = Z.of_nat (length order)) by (rewrite X2, X1; reflexivity).
  rewrite <- XN in HT at 2.
  destruct (nj_loop_sim (length order) h2 pool0 _ t I0 HT) as [h3 [u [r [n' [E3 [I3 Et]]]]]].
  rewrite EL in E3.
  change (fun s_ : oheap * list Z * Z => let '(heap_, node_pool, n) := s_ in n >? 1) with jcond.
  unfold py_len. rewrite E3. cbn [bind]. unfold py_index. cbn [Z.to_nat nth_error bind].
  destruct I3 as [U3 _]. apply Forall_inv in U3. destruct U3 as [R3 [o [Ho [No Do]]]].
  destruct (del2_eval (j_id u) h3 o (j_d u) (j_xsub u) (fun h => Ok (j_id u, h)) Ho Do No) as [h4 [E4 G4]].
  rewrite E4. exists (j_id u), h4. split; [reflexivity|]. intros fuel Hf. subst t.
  change (j_id u) with (q_id (j_tree u)). apply rebuild_Rep; [|exact Hf].
  apply (Rep_keeps h3); [exact R3|]. intros k ok _ Hk. rewrite G4. destruct (Z.eqb_spec k (j_id u)) as [->|].
  - rewrite Ho in Hk. assert (ok = o) by congruence. subst ok. eexists. split; [reflexivity | repeat split].
  - exists ok. split; [exact Hk | repeat split].
Qed.

End Nj.
