(* C14: NJ builds a tree whose path distances are the matrix, provided every joined pair is a cherry *)
From Coq Require Import ZArith QArith Qabs List Bool Lia Permutation.
From DV Require Import Model.PyPrims Model.Tree Model.C14Model Model.C14Spec Proofs.C14Dict Proofs.C14Clu Proofs.C14Upgma.
Import ListNotations.
Open Scope Z_scope.

Lemma map2_in {A B C} (f : A -> B) (g : A -> C) : forall l1 l2,
  map f l1 = map f l2 -> map g l1 = map g l2 ->
  forall x, In x l1 -> exists y, In y l2 /\ f x = f y /\ g x = g y.
Proof.
  induction l1 as [|a l1 IH]; intros [|b l2] Ef Eg x Hx; simpl in *; try discriminate; [destruct Hx|].
  inversion Ef. inversion Eg. destruct Hx as [<-|Hx].
  - exists b. auto.
  - destruct (IH l2 H1 H3 x Hx) as [y [Hy E]]. exists y. auto.
Qed.

Section NjRecover.
Variable Mf : Z -> Z -> Q.
Variable order : list Z.

Record NI (pool : list jnode) : Prop := mkNI {
  ni_wf : jwf pool;
  ni_in : forall u a b, In u pool -> a <> b -> qhas a (j_tree u) = true -> qhas b (j_tree u) = true ->
      exists q, qdist (j_tree u) a b = Some q /\ (q == Mf a b)%Q;
  ni_cross : forall u v a b, In u pool -> In v pool -> j_id u <> j_id v ->
      qhas a (j_tree u) = true -> qhas b (j_tree v) = true ->
      exists qa qb, qdown a (j_tree u) = Some qa /\ qdown b (j_tree v) = Some qb /\
                    (Mf a b == qa + jd u v + qb)%Q;
  ni_disj : forall u v a, In u pool -> In v pool -> j_id u <> j_id v ->
      qhas a (j_tree u) = true -> qhas a (j_tree v) = false;
  ni_cover : forall a, In a order -> exists u, In u pool /\ qhas a (j_tree u) = true
}.

Lemma ni_step pool next :
  NI pool -> (2 <= length pool)%nat -> (forall i, In i (jids pool) -> i < next) ->
  ((3 <= length pool)%nat ->
   forall j0 j1, In (j0, j1) (pairs_of pool) ->
     (forall a b, In (a, b) (pairs_of pool) ->
                  (qvalue (Z.of_nat (length pool)) j0 j1 <= qvalue (Z.of_nat (length pool)) a b)%Q) ->
     exists a0 a1 mv, is_cherry (remove_id j_id (j_id j1) (remove_id j_id (j_id j0) pool)) j0 j1 a0 a1 mv) ->
  exists pool', nj_step pool (Z.of_nat (length pool)) next = Ok pool' /\ NI pool' /\
                S (length pool') = length pool /\ (forall i, In i (jids pool') -> i < next + 1).
Proof.
  intros I L Fr Hch. set (n := Z.of_nat (length pool)).
  assert (Nn : ~ In next (jids pool)) by (intro H; apply Fr in H; lia).
  destruct (nj_step_sound_l pool n next (ni_wf pool I) eq_refl L Nn)
    as [j0 [j1 [rest [newn [l0 [l1 [E [Hab [Min [Ht [_ [Hsum [Hids [Htrees [Hothers [W' Hcherry]]]]]]]]]]]]]]]].
  destruct (ni_wf pool I) as [N [Dm [Sy Xs]]].
  destruct (pairs_of_In _ _ _ Hab) as [H0 H1].
  pose proof (pairs_of_distinct j_id _ _ _ N Hab) as Nd.
  set (others := remove_id j_id (j_id j1) (remove_id j_id (j_id j0) pool)) in *.
  assert (Hnew : j_id newn = next) by (unfold j_id; rewrite Ht; reflexivity).
  assert (N0 : NoDup (map j_id (remove_id j_id (j_id j0) pool))) by (apply remove_id_NoDup; exact N).
  assert (No : NoDup (map j_id others)) by (apply remove_id_NoDup; exact N0).
  assert (Io : forall k, In k others <-> In k pool /\ j_id k <> j_id j0 /\ j_id k <> j_id j1).
  { intro k. unfold others. rewrite (remove_id_In j_id _ _ _ N0), (remove_id_In j_id _ _ _ N). tauto. }
  (* every node of rest is the copy of exactly one old node *)
  assert (Orig : forall k', In k' rest -> exists k, In k others /\ j_id k' = j_id k /\ j_tree k' = j_tree k).
  { intros k' Hk'. exact (map2_in j_id j_tree rest others Hids Htrees k' Hk'). }
  assert (Back : forall k, In k others -> exists k', In k' rest /\ j_id k' = j_id k /\ j_tree k' = j_tree k).
  { intros k Hk. destruct (map2_in j_id j_tree others rest (eq_sym Hids) (eq_sym Htrees) k Hk) as [k' [Hk' [E1 E2]]].
    exists k'. auto. }
  (* the cherry, when there are other nodes *)
  assert (Ch : (3 <= length pool)%nat -> exists a0 a1 mv, is_cherry others j0 j1 a0 a1 mv /\
               (forall k k', In k others -> In k' rest -> j_id k' = j_id k -> (jd k' newn == mv k)%Q) /\
               (l0 == a0)%Q /\ (l1 == a1)%Q).
  { intro L3. destruct (Hch L3 j0 j1 Hab Min) as [a0 [a1 [mv C]]]. exists a0, a1, mv. split; [exact C|].
    destruct (Hcherry a0 a1 mv C) as [C1 C2]. split; [exact C1|]. apply C2. unfold n. lia. }
  assert (Oempty : (length pool < 3)%nat -> others = []).
  { intro L2. pose proof (others_length j_id pool j0 j1 N H0 H1 Nd) as Lo. fold others in Lo.
    destruct others; [reflexivity | simpl in Lo; lia]. }
  eexists. split; [exact E|]. split; [|split].
  - constructor.
    + exact W'.
    + (* path distances inside a pool node *)
      intros u a b Hu Nab Ha Hb. apply in_app_iff in Hu. destruct Hu as [Hu|[<-|[]]].
      * destruct (Orig u Hu) as [k [Hk [_ Etr]]]. rewrite Etr in *. apply Io in Hk. apply (ni_in pool I k a b); tauto.
      * rewrite Ht in *. rewrite qhas_join in Ha, Hb.
        destruct (qhas a (j_tree j0)) eqn:A0; destruct (qhas b (j_tree j0)) eqn:B0; simpl in Ha, Hb.
        -- rewrite qdist_join_l by assumption. apply (ni_in pool I j0 a b H0 Nab A0 B0).
        -- pose proof (ni_disj pool I j0 j1 a H0 H1 Nd A0) as A1.
           destruct (ni_cross pool I j0 j1 a b H0 H1 Nd A0 Hb) as [qa [qb [Hqa [Hqb Em]]]].
           rewrite (qdist_join_cross next (j_tree j0) (j_tree j1) l0 l1 a b qa qb A0 B0 A1 Hb Hqa (qdown_none b _ B0) Hqb).
           eexists. split; [reflexivity|]. rewrite Em, <- Hsum. ring.
        -- pose proof (ni_disj pool I j0 j1 b H0 H1 Nd B0) as B1.
           destruct (ni_cross pool I j1 j0 a b H1 H0 (not_eq_sym Nd) Ha B0) as [qa [qb [Hqa [Hqb Em]]]].
           rewrite (qdist_join_cross' next (j_tree j0) (j_tree j1) l0 l1 a b qa qb A0 B0 Ha B1 (qdown_none a _ A0) Hqa Hqb).
           eexists. split; [reflexivity|]. rewrite Em, (Sy j1 j0 H1 H0 (not_eq_sym Nd)), <- Hsum. ring.
        -- rewrite qdist_join_r by assumption. apply (ni_in pool I j1 a b H1 Nab Ha Hb).
    + (* leaves in different pool nodes *)
      intros u v a b Hu Hv Huv Ha Hb. apply in_app_iff in Hu. apply in_app_iff in Hv.
      destruct Hu as [Hu|[<-|[]]]; destruct Hv as [Hv|[<-|[]]].
      * destruct (Orig u Hu) as [k [Hk [Ek Etr]]]. destruct (Orig v Hv) as [w [Hw [Ew Etw]]].
        rewrite Etr in *. rewrite Etw in *. pose proof Hk as Hk2. pose proof Hw as Hw2. apply Io in Hk2. apply Io in Hw2.
        destruct (ni_cross pool I k w a b) as [qa [qb [Hqa [Hqb Em]]]]; try tauto; [congruence|].
        exists qa, qb. split; [exact Hqa|]. split; [exact Hqb|].
        destruct (Hothers k Hk) as [k2 [Hk2' [Ek2 [Hsame _]]]].
        assert (k2 = u) by (apply (same_id_eq j_id rest); auto; [rewrite Hids; exact No | congruence]). subst k2.
        rewrite (Hsame w v Hw Hv Ew) by congruence. exact Em.
      * (* u in rest, v the new node *)
        destruct (Orig u Hu) as [k [Hk [Ek Etr]]]. rewrite Etr in *. pose proof Hk as Hk2. apply Io in Hk2.
        destruct Hk2 as [Hkp [K0 K1]].
        assert (L3 : (3 <= length pool)%nat).
        { destruct (le_lt_dec 3 (length pool)); [assumption|]. rewrite (Oempty l) in Hk. destruct Hk. }
        destruct (Ch L3) as [a0 [a1 [mv [[C01 Ck] [Cm [El0 El1]]]]]]. destruct (Ck k Hk) as [C0 C1].
        rewrite Ht in *. rewrite qhas_join in Hb. pose proof (Cm k u Hk Hu Ek) as Cu.
        destruct (qhas b (j_tree j0)) eqn:B0.
        -- destruct (ni_cross pool I k j0 a b Hkp H0 K0 Ha B0) as [qa [qb [Hqa [Hqb Em]]]].
           exists qa, (qb + l0)%Q. split; [exact Hqa|]. split; [apply qdown_join_l; exact Hqb|].
           rewrite Cu, Em, (Sy k j0 Hkp H0 K0), C0, El0. ring.
        -- simpl in Hb. destruct (ni_cross pool I k j1 a b Hkp H1 K1 Ha Hb) as [qa [qb [Hqa [Hqb Em]]]].
           exists qa, (qb + l1)%Q. split; [exact Hqa|]. split; [apply qdown_join_r; [apply qdown_none; exact B0 | exact Hqb]|].
           rewrite Cu, Em, (Sy k j1 Hkp H1 K1), C1, El1. ring.
      * (* u the new node, v in rest *)
        destruct (Orig v Hv) as [k [Hk [Ek Etr]]]. rewrite Etr in *. pose proof Hk as Hk2. apply Io in Hk2.
        destruct Hk2 as [Hkp [K0 K1]].
        assert (L3 : (3 <= length pool)%nat).
        { destruct (le_lt_dec 3 (length pool)); [assumption|]. rewrite (Oempty l) in Hk. destruct Hk. }
        destruct (Ch L3) as [a0 [a1 [mv [[C01 Ck] [Cm [El0 El1]]]]]]. destruct (Ck k Hk) as [C0 C1].
        destruct (Hothers k Hk) as [k2 [Hk2' [Ek2 [_ [_ Hsw]]]]].
        assert (k2 = v) by (apply (same_id_eq j_id rest); auto; [rewrite Hids; exact No | congruence]). subst k2.
        pose proof (Cm k v Hk Hv Ek) as Cv. rewrite Ht in *. rewrite qhas_join in Ha.
        destruct (qhas a (j_tree j0)) eqn:A0.
        -- destruct (ni_cross pool I j0 k a b H0 Hkp (not_eq_sym K0) A0 Hb) as [qa [qb [Hqa [Hqb Em]]]].
           exists (qa + l0)%Q, qb. split; [apply qdown_join_l; exact Hqa|]. split; [exact Hqb|].
           rewrite Hsw, Cv, Em, C0, El0. ring.
        -- simpl in Ha. destruct (ni_cross pool I j1 k a b H1 Hkp (not_eq_sym K1) Ha Hb) as [qa [qb [Hqa [Hqb Em]]]].
           exists (qa + l1)%Q, qb. split; [apply qdown_join_r; [apply qdown_none; exact A0 | exact Hqa]|]. split; [exact Hqb|].
           rewrite Hsw, Cv, Em, C1, El1. ring.
      * congruence.
    + (* disjoint leaf sets *)
      intros u v a Hu Hv Huv Ha. apply in_app_iff in Hu. apply in_app_iff in Hv.
      destruct Hu as [Hu|[<-|[]]]; destruct Hv as [Hv|[<-|[]]].
      * destruct (Orig u Hu) as [k [Hk [Ek Etr]]]. destruct (Orig v Hv) as [w [Hw [Ew Etw]]].
        rewrite Etr in Ha. rewrite Etw. apply Io in Hk. apply Io in Hw. apply (ni_disj pool I k w a); try tauto. congruence.
      * destruct (Orig u Hu) as [k [Hk [Ek Etr]]]. rewrite Etr in Ha. apply Io in Hk. destruct Hk as [Hkp [K0 K1]].
        rewrite Ht, qhas_join. rewrite (ni_disj pool I k j0 a Hkp H0 K0 Ha), (ni_disj pool I k j1 a Hkp H1 K1 Ha). reflexivity.
      * destruct (Orig v Hv) as [k [Hk [Ek Etr]]]. rewrite Etr. apply Io in Hk. destruct Hk as [Hkp [K0 K1]].
        rewrite Ht, qhas_join in Ha. apply orb_true_iff in Ha. destruct Ha as [Ha|Ha].
        -- apply (ni_disj pool I j0 k a); auto.
        -- apply (ni_disj pool I j1 k a); auto.
      * congruence.
    + (* coverage *)
      intros a Ha. destruct (ni_cover pool I a Ha) as [u [Hu Hau]].
      destruct (Z.eq_dec (j_id u) (j_id j0)) as [E0|E0].
      { assert (u = j0) by (apply (same_id_eq j_id pool); auto). subst u.
        exists newn. split; [apply in_app_iff; right; left; reflexivity|]. rewrite Ht, qhas_join, Hau. reflexivity. }
      destruct (Z.eq_dec (j_id u) (j_id j1)) as [E1|E1].
      { assert (u = j1) by (apply (same_id_eq j_id pool); auto). subst u.
        exists newn. split; [apply in_app_iff; right; left; reflexivity|]. rewrite Ht, qhas_join, Hau. apply orb_true_r. }
      destruct (Back u) as [k' [Hk' [_ Etr]]]; [apply Io; auto|].
      exists k'. split; [apply in_app_iff; left; exact Hk'|]. rewrite Etr. exact Hau.
  - pose proof (others_length j_id pool j0 j1 N H0 H1 Nd) as Lo. fold others in Lo.
    rewrite app_length. change (length [newn]) with 1%nat.
    rewrite <- (map_length j_id rest), Hids, map_length. lia.
  - intros i Hi. unfold jids in Hi. rewrite map_app, in_app_iff in Hi. destruct Hi as [Hi|[Hi|[]]].
    + rewrite Hids in Hi. apply in_map_iff in Hi. destruct Hi as [k [<- Hk]]. apply Io in Hk.
      assert (j_id k < next) by (apply Fr; apply in_map; tauto). lia.
    + rewrite <- Hi, Hnew. lia.
Qed.

Variable P : list jnode -> Prop.
Hypothesis Pcherry : qcrit_cherry P.
Hypothesis Pclosed : qcrit_closed P.

Lemma ni_loop : forall fuel pool next,
  NI pool -> ((3 <= length pool)%nat -> P pool) ->
  (length pool <= fuel)%nat -> (1 <= length pool)%nat ->
  (forall i, In i (jids pool) -> i < next) ->
  exists x, nj_loop fuel pool (Z.of_nat (length pool)) next = Ok (j_tree x) /\ NI [x].
Proof.
  induction fuel as [|f IH]; intros pool next I HP Lf L1 Fr; [lia|].
  cbn [nj_loop]. destruct (1 <? Z.of_nat (length pool)) eqn:E1.
  - apply Z.ltb_lt in E1. assert (L2 : (2 <= length pool)%nat) by lia.
    destruct (ni_step pool next I L2 Fr) as [pool' [E [I' [Ln Fr']]]].
    { intros L3 j0 j1 Hab Min. apply (Pcherry pool j0 j1 (HP L3) (ni_wf pool I) L3 Hab Min). }
    rewrite E. cbn [bind].
    replace (Z.of_nat (length pool) - 1) with (Z.of_nat (length pool')) by lia.
    apply IH; auto; try lia.
    intro L3'. apply (Pclosed pool next pool'); auto; try lia; [apply HP; lia | apply (ni_wf pool I) | intro H; apply Fr in H; lia].
  - apply Z.ltb_ge in E1. destruct pool as [|x [|y pool]]; simpl in *; try lia. exists x. auto.
Qed.

Lemma ni_final x : NI [x] ->
  forall a b, In a order -> In b order -> a <> b -> exists q, qdist (j_tree x) a b = Some q /\ (q == Mf a b)%Q.
Proof.
  intros I a b Ha Hb Nab. destruct (ni_cover [x] I a Ha) as [u [[<-|[]] Hau]].
  destruct (ni_cover [x] I b Hb) as [v [[<-|[]] Hbv]]. apply (ni_in [x] I x a b); simpl; auto.
Qed.

End NjRecover.

(* ---------- the initial pool ---------- *)
Section NInitNI.
Variables (M : tbl Q) (ids : list (Z * Z)).
Hypothesis Nf : NoDup (map fst ids).
Hypothesis Ns : NoDup (map snd ids).
Hypothesis Hc : mcomplete M (map snd ids).
Hypothesis Hs : msymmetric M (map snd ids).

Lemma nmk_qhas ia a : qhas a (j_tree (nmk M ids ia)) = Z.eqb (snd ia) a.
Proof. reflexivity. Qed.

Lemma nj_init_NI : NI (mval M) (map snd ids) (map (nmk M ids) ids).
Proof.
  constructor.
  - apply nj_init_wf; assumption.
  - intros u a b Hu0 Nab Ha Hb. apply in_map_iff in Hu0. destruct Hu0 as [ia [<- Hia]].
    rewrite nmk_qhas in Ha, Hb. apply Z.eqb_eq in Ha. apply Z.eqb_eq in Hb. congruence.
  - intros u v a b Hu0 Hv0 Huv Ha Hb. apply in_map_iff in Hu0. destruct Hu0 as [ia [<- Hia]].
    apply in_map_iff in Hv0. destruct Hv0 as [jb [<- Hjb]]. change (fst ia <> fst jb) in Huv.
    rewrite nmk_qhas in Ha, Hb. apply Z.eqb_eq in Ha. apply Z.eqb_eq in Hb. subst a b.
    exists 0%Q, 0%Q. split; [simpl; rewrite Z.eqb_refl; reflexivity|]. split; [simpl; rewrite Z.eqb_refl; reflexivity|].
    rewrite (nmk_jd M ids Nf ia jb Hjb Huv). ring.
  - intros u v a Hu0 Hv0 Huv Ha. apply in_map_iff in Hu0. destruct Hu0 as [ia [<- Hia]].
    apply in_map_iff in Hv0. destruct Hv0 as [jb [<- Hjb]]. change (fst ia <> fst jb) in Huv.
    rewrite nmk_qhas in *. apply Z.eqb_eq in Ha. subst a. apply Z.eqb_neq. intro E.
    apply (ids_snd_neq ids Ns ia jb Hia Hjb Huv). congruence.
  - intros a Ha. apply in_map_iff in Ha. destruct Ha as [ia [<- Hia]].
    exists (nmk M ids ia). split; [apply in_map; exact Hia|]. rewrite nmk_qhas. apply Z.eqb_refl.
Qed.
End NInitNI.

Lemma nj_realizes_additive_l M order (P : list jnode -> Prop) :
  NoDup order -> order <> [] -> mcomplete M order -> msymmetric M order ->
  qcrit_cherry P -> qcrit_closed P -> (forall pool, nj_init M order = Ok pool -> P pool) ->
  exists T, nj_tree M order = Ok T /\
    forall a b, In a order -> In b order -> a <> b -> exists q, qdist T a b = Some q /\ (q == mval M a b)%Q.
Proof.
  intros N Ne Hc Hs PC PK P0. destruct (ids_facts order) as [F [S0 [Nf [Li Fr]]]].
  set (ids := combine (map Z.of_nat (seq 0 (length order))) order) in *.
  assert (Ns : NoDup (map snd ids)) by (rewrite S0; exact N).
  assert (Hc' : mcomplete M (map snd ids)) by (rewrite S0; exact Hc).
  assert (Hs' : msymmetric M (map snd ids)) by (rewrite S0; exact Hs).
  pose proof (nj_init_eval M ids Ns Hc' order eq_refl) as Ei.
  unfold nj_tree. rewrite Ei. cbn [bind].
  assert (I : NI (mval M) (map snd ids) (map (nmk M ids) ids)) by (apply nj_init_NI; assumption).
  rewrite S0 in I.
  assert (Lp : length (map (nmk M ids) ids) = length order) by (rewrite map_length; exact Li).
  rewrite <- Lp.
  destruct (ni_loop (mval M) order P PC PK (length (map (nmk M ids) ids)) (map (nmk M ids) ids) (Z.of_nat (length (map (nmk M ids) ids))) I) as [x [E Ix]].
  - intros _. apply P0. exact Ei.
  - lia.
  - rewrite Lp. destruct order; [congruence | simpl; lia].
  - intros i Hi. unfold jids in Hi. rewrite map_map in Hi. rewrite Lp. apply Fr. exact Hi.
  - exists (j_tree x). split; [exact E|]. apply (ni_final (mval M) order x Ix).
Qed.

(* ---------- non-vacuity: with three nodes every pair is a cherry ---------- *)
Lemma three_cherry pool j0 j1 :
  jwf pool -> length pool = 3%nat -> In (j0, j1) (pairs_of pool) ->
  exists a0 a1 mv, is_cherry (remove_id j_id (j_id j1) (remove_id j_id (j_id j0) pool)) j0 j1 a0 a1 mv.
Proof.
  intros [N _] L Hab. destruct (pairs_of_In _ _ _ Hab) as [H0 H1].
  pose proof (pairs_of_distinct j_id _ _ _ N Hab) as Nd.
  pose proof (others_length j_id pool j0 j1 N H0 H1 Nd) as Lo.
  destruct (remove_id j_id (j_id j1) (remove_id j_id (j_id j0) pool)) as [|k [|k2 r]]; simpl in Lo; try lia.
  exists ((jd j0 j1 + jd j0 k - jd j1 k) / 2)%Q, ((jd j0 j1 + jd j1 k - jd j0 k) / 2)%Q,
         (fun _ => (jd j0 k + jd j1 k - jd j0 j1) / 2)%Q.
  split; [field|]. intros k' [<-|[]]. split; field.
Qed.

Lemma small_pools_qcrit :
  qcrit_cherry (fun pool => (length pool <= 3)%nat) /\ qcrit_closed (fun pool => (length pool <= 3)%nat).
Proof.
  split.
  - intros pool j0 j1 HP W L3 Hab _. apply three_cherry; [exact W | lia | exact Hab].
  - intros pool next pool' HP W L3 Nn E.
    destruct (nj_step_sound_l pool (Z.of_nat (length pool)) next W eq_refl) as
        [j0 [j1 [rest [newn [l0 [l1 [E' [Hab [_ [_ [_ [_ [Hids _]]]]]]]]]]]]]; [lia | exact Nn|].
    rewrite E in E'. inversion E'. subst pool'. destruct W as [N _].
    destruct (pairs_of_In _ _ _ Hab) as [H0 H1]. pose proof (pairs_of_distinct j_id _ _ _ N Hab) as Nd.
    pose proof (others_length j_id pool j0 j1 N H0 H1 Nd) as Lo.
    rewrite app_length. change (length [newn]) with 1%nat.
    rewrite <- (map_length j_id rest), Hids, map_length. lia.
Qed.

Lemma nj_exact_small_l M order :
  NoDup order -> order <> [] -> (length order <= 3)%nat -> mcomplete M order -> msymmetric M order ->
  exists T, nj_tree M order = Ok T /\
    forall a b, In a order -> In b order -> a <> b -> exists q, qdist T a b = Some q /\ (q == mval M a b)%Q.
Proof.
  intros N Ne L3 Hc Hs. destruct small_pools_qcrit as [PC PK].
  apply (nj_realizes_additive_l M order (fun pool => (length pool <= 3)%nat)); auto.
  intros pool Ei. destruct (ids_facts order) as [F [S0 [Nf [Li Fr]]]].
  set (ids := combine (map Z.of_nat (seq 0 (length order))) order) in *.
  assert (Ns : NoDup (map snd ids)) by (rewrite S0; exact N).
  assert (Hc' : mcomplete M (map snd ids)) by (rewrite S0; exact Hc).
  rewrite (nj_init_eval M ids Ns Hc' order eq_refl) in Ei. inversion Ei. rewrite map_length, Li. exact L3.
Qed.
