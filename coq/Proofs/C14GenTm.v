(* C14 translator tie: the generated Tree.mrca (argument handling, refresh, descent) and
   treemeasure.patristic_distance (Gen/Pdm.v) compute the hand model's tree_mrca / tm_patristic. *)
From Coq Require Import ZArith QArith List Bool Lia.
From DV Require Import Model.PyPrims Model.Tree Model.C14Model Model.C14Spec Model.C14GenPrims Model.C14GenObj
  Model.C14GenMrcaPrims Gen.Pdm
  Proofs.C14Dict Proofs.C14Pdm Proofs.C14Mrca Proofs.C14GenBase Proofs.C14GenMrca.
Import ListNotations.
Open Scope Z_scope.

(* the keyword arguments of a call in one of the forms of the hand model *)
Definition mk_kw (arg : mrca_arg) (start : option Z) (updated : bool) : mrca_kwargs :=
  mkKw start
       (match arg with ByMask m => Some m | _ => None end)
       (match arg with ByTaxa l => Some l | _ => None end)
       (match arg with ByLabels l => Some l | _ => None end)
       (Some updated).

Lemma preorder_size : forall t s, In s (preorder t) -> (size s <= size t)%nat.
Proof.
  induction t as [i x lb e ks IH] using tree_ind'. intros s H. cbn [preorder] in H. destruct H as [<-|H]; [lia|].
  rewrite size_eq. apply in_flat_map in H. destruct H as [k [Hk Hs]]. rewrite Forall_forall in IH.
  pose proof (IH k Hk s Hs). assert (size k <= sizes ks)%nat; [|lia].
  clear - Hk. induction ks as [|c r IHr]; [destruct Hk|]. rewrite sizes_cons. destruct Hk as [->|Hk]; [lia | specialize (IHr Hk); lia].
Qed.

Lemma collapse_size t : (size (fst (collapse_basal t)) <= size t)%nat.
Proof.
  destruct t as [i x lb e ks]. cbn [collapse_basal]. destruct ks as [|c0 [|c1 [|c2 r]]]; try (cbn [fst]; lia).
  destruct (2 <=? nkids c1).
  - cbn [fst]. rewrite !size_eq, !sizes_cons. destruct c0, c1. cbn [set_len t_kids]. rewrite !size_eq. cbn [sizes fold_right]. lia.
  - destruct (2 <=? nkids c0); [|cbn [fst]; lia].
    cbn [fst]. rewrite !size_eq, sizes_app, !sizes_cons. destruct c0, c1. cbn [set_len t_kids]. rewrite !size_eq. cbn [sizes fold_right]. lia.
Qed.

Lemma encode_size ns mt mt' : encode ns mt = Ok mt' -> (size (mt_tree mt') <= size (mt_tree mt))%nat.
Proof.
  unfold encode. destruct (negb (is_true (mt_rooted mt)) && (nkids (mt_tree mt) =? 2)).
  - pose proof (collapse_size (mt_tree mt)) as C. destruct (collapse_basal (mt_tree mt)) as [t' ch]. cbn [fst] in C.
    destruct (enc_fresh ns t'); cbn [bind]; try discriminate. intro H. inversion H. cbn [mt_tree]. exact C.
  - destruct (enc_fresh ns (mt_tree mt)); cbn [bind]; try discriminate. intro H. inversion H. cbn [mt_tree]. lia.
Qed.

Lemma len_eqb {A B} (a : list A) (b : list B) : Z.eqb (py_len a) (py_len b) = Nat.eqb (length a) (length b).
Proof.
  unfold py_len. destruct (Nat.eqb_spec (length a) (length b)) as [E|E]; [rewrite E; apply Z.eqb_refl|].
  apply Z.eqb_neq. lia.
Qed.

Lemma find_node_size i t s : find_node i t = Some s -> (size s <= size t)%nat.
Proof. intro H. apply preorder_size. exact (proj1 (find_node_in i t s H)). Qed.

(* from the test `leafset_bitmask == 0` on *)
Lemma mrca_tail_eq fuel ns mt start updated m :
  (size (mt_tree mt) <= fuel)%nat ->
  let sid := kw_default start (t_id (mt_tree mt)) in
  let G := (if false || (m =? 0)
            then Err ValueErr
            else do st_10 <- (if (enc_get (mt_enc mt) sid =? 0) || negb updated then do self <- encode ns mt ;; Ok self else Ok mt) ;;
                 do node_ <- py_node_object mt st_10 sid ;;
                 do r_ <- Tree_mrca_descent fuel (mt_enc st_10) m node_ ;;
                 Ok (option_map t_id r_, st_10)) in
  let '(r0, mt') :=
    if m =? 0 then (Err ValueErr, mt)
    else match (if (enc_get (mt_enc mt) sid =? 0) || negb updated then encode ns mt else Ok mt) with
         | Ok mt' =>
           match match find_node sid (mt_tree mt') with Some s => Some s | None => find_node sid (mt_tree mt) end with
           | Some s =>
             if negb (Z.land (enc_get (mt_enc mt') sid) m =? m) then (Ok None, mt')
             else match visit false (mt_enc mt') m s s with
                  | Some r => (Ok (Some (t_id r)), mt')
                  | None => (Ok (Some (t_id s)), mt')
                  end
           | None => (Err LookupErr, mt')
           end
         | Err e => (Err e, mt)
         | OutOfFuel => (OutOfFuel, mt)
         end in
  match r0 with Ok r => G = Ok (r, mt') | Err e => G = Err e | OutOfFuel => True end.
Proof.
  intros Hf sid G. subst G. destruct (Z.eqb_spec m 0) as [Ez|Ez]; cbn [orb]; [reflexivity|].
  assert (Tail : forall mt', (size (mt_tree mt') <= size (mt_tree mt))%nat ->
    let '(r0, mt'') :=
       match match find_node sid (mt_tree mt') with Some s => Some s | None => find_node sid (mt_tree mt) end with
       | Some s =>
         if negb (Z.land (enc_get (mt_enc mt') sid) m =? m) then (Ok None, mt')
         else match visit false (mt_enc mt') m s s with
              | Some r => (Ok (Some (t_id r)), mt')
              | None => (Ok (Some (t_id s)), mt')
              end
       | None => (Err LookupErr, mt')
       end in
    match r0 with
    | Ok r => (do node_ <- py_node_object mt mt' sid ;; do r_ <- Tree_mrca_descent fuel (mt_enc mt') m node_ ;; Ok (option_map t_id r_, mt')) = Ok (r, mt'')
    | Err e => (do node_ <- py_node_object mt mt' sid ;; do r_ <- Tree_mrca_descent fuel (mt_enc mt') m node_ ;; Ok (option_map t_id r_, mt')) = Err e
    | OutOfFuel => True
    end).
  { intros mt' Hs. unfold py_node_object.
    assert (Sub : forall s, match find_node sid (mt_tree mt') with Some s => Some s | None => find_node sid (mt_tree mt) end = Some s ->
                            (size s <= fuel)%nat /\ t_id s = sid).
    { intros s H. destruct (find_node sid (mt_tree mt')) as [s'|] eqn:E1.
      - inversion H; subst s'. split; [pose proof (find_node_size _ _ _ E1); lia | exact (proj2 (find_node_in _ _ _ E1))].
      - split; [pose proof (find_node_size _ _ _ H); lia | exact (proj2 (find_node_in _ _ _ H))]. }
    destruct (match find_node sid (mt_tree mt') with Some s => Some s | None => find_node sid (mt_tree mt) end) as [s|] eqn:Es.
    - destruct (Sub s eq_refl) as [Sz Sid].
      assert (En : match find_node sid (mt_tree mt') with Some s0 => Ok s0 | None => match find_node sid (mt_tree mt) with Some s0 => Ok s0 | None => Err LookupErr end end = Ok s).
      { destruct (find_node sid (mt_tree mt')); [congruence|]. rewrite Es. reflexivity. }
      rewrite En. cbn [bind]. rewrite (gen_tree_mrca_descent_eq (mt_enc mt') m s fuel Ez Sz). unfold model_descent. rewrite Sid.
      destruct (negb (Z.land (enc_get (mt_enc mt') sid) m =? m)); [reflexivity|].
      destruct (visit false (mt_enc mt') m s s); cbn [bind option_map]; rewrite ?Sid; reflexivity.
    - destruct (find_node sid (mt_tree mt')); [discriminate|]. rewrite Es. reflexivity. }
  destruct ((enc_get (mt_enc mt) sid =? 0) || negb updated).
  - destruct (encode ns mt) as [mt'|e|] eqn:Een; cbn [bind]; [|reflexivity | exact I].
    apply (Tail mt'). exact (encode_size _ _ _ Een).
  - cbn [bind]. apply (Tail mt). lia.
Qed.

Theorem gen_tree_mrca_eq fuel ns mt arg start updated :
  (size (mt_tree mt) <= fuel)%nat ->
  match tree_mrca false ns mt arg start updated with
  | (Ok r, mt') => Tree_mrca fuel ns mt (mk_kw arg start updated) = Ok (r, mt')
  | (Err e, _) => Tree_mrca fuel ns mt (mk_kw arg start updated) = Err e
  | (OutOfFuel, _) => True
  end.
Proof.
  intro Hf. unfold tree_mrca, Tree_mrca. cbv zeta.
  destruct arg as [m|l|ls|]; unfold mk_kw; cbn [kw_start_node kw_leafset_bitmask kw_taxa kw_taxon_labels kw_is_bipartitions_updated
                                               kw_has kw_item bind mrca_mask py_unwrap].
  - exact (mrca_tail_eq fuel ns mt start updated m Hf).
  - destruct (taxa_bitmask ns l 0) as [sm|e|]; cbn [bind]; [|reflexivity | exact I].
    exact (mrca_tail_eq fuel ns mt start updated sm Hf).
  - rewrite len_eqb. destruct (Nat.eqb (length (get_taxa ns ls)) (length ls)); cbn [negb bind py_unwrap]; [|reflexivity].
    destruct (taxa_bitmask ns (get_taxa ns ls) 0) as [sm|e|]; cbn [bind]; [|reflexivity | exact I].
    exact (mrca_tail_eq fuel ns mt start updated sm Hf).
  - reflexivity.
Qed.

(* ---------- treemeasure.patristic_distance ---------- *)
Fixpoint pchain (G : tree) (l : list tree) : Prop :=
  match l with [] => True | x :: r => py_parent_node G x = hd_error r /\ pchain G r end.

Lemma walk_climb G m : forall l d fuel, pchain G l -> (length l < fuel)%nat ->
  rmap snd (py_while fuel (TM_walk1_test m) (TM_walk1_body G) (hd_error l, d)) = climb l m d.
Proof.
  induction l as [|x r IH]; intros d fuel PC Hf; (destruct fuel as [|f]; [cbn in Hf; lia|]).
  - cbn [py_while hd_error]. unfold TM_walk1_test at 1. cbn [py_node_eq climb]. destruct m as [i|]; cbn [negb]; [|reflexivity].
    unfold TM_walk1_body. cbn [py_deref bind]. reflexivity.
  - cbn [py_while hd_error]. unfold TM_walk1_test at 1. cbn [py_node_eq climb oz_eqb]. destruct PC as [Px PC].
    assert (Step : rmap snd (bind (TM_walk1_body G (Some x, d)) (py_while f (TM_walk1_test m) (TM_walk1_body G))) = climb r m (d + len0 x)).
    { unfold TM_walk1_body at 1. cbn [py_deref bind]. rewrite Px.
      replace (match node_edge_length x with Some l_ => d + l_ | None => d end) with (d + len0 x)
        by (unfold len0, node_edge_length; destruct (t_len x); lia).
      apply IH; [exact PC | cbn [length] in Hf; lia]. }
    destruct m as [i|]; cbn [negb].
    + destruct (Z.eqb (t_id x) i); cbn [negb]; [reflexivity | exact Step].
    + exact Step.
Qed.

Lemma py_parent_in_proper c i x lb e ks p : py_parent_in c (T i x lb e ks) = Some p -> In c (flat_map ids ks).
Proof.
  intro H. cbn [py_parent_in] in H.
  destruct (existsb (fun k => Z.eqb (t_id k) c) ks) eqn:E.
  - apply existsb_exists in E. destruct E as [k [Hk Ek]]. apply Z.eqb_eq in Ek. subst c.
    apply in_flat_map. exists k. split; [exact Hk|]. apply in_ids_preorder. apply preorder_self.
  - clear E. induction ks as [|k r IHr]; [discriminate|]. cbn [flat_map]. apply in_or_app.
    destruct (py_parent_in c k) as [p'|] eqn:Ek.
    + left. eapply py_parent_in_ids. exact Ek.
    + right. apply IHr. exact H.
Qed.

Lemma py_parent_in_preorder c : forall t p, py_parent_in c t = Some p -> In p (preorder t).
Proof.
  induction t as [i x lb e ks IH] using tree_ind'. intros p H. cbn [py_parent_in] in H.
  destruct (existsb (fun k => Z.eqb (t_id k) c) ks).
  - inversion H. apply preorder_self.
  - cbn [preorder]. right. induction ks as [|k r IHr]; [discriminate|]. inversion IH as [|? ? Hk Hr]; subst.
    cbn [flat_map]. apply in_or_app. destruct (py_parent_in c k) as [p'|] eqn:Ek.
    + left. inversion H; subst. apply Hk. reflexivity.
    + right. apply IHr; assumption.
Qed.

Lemma preorder_id_inj G x y : NoDup (ids G) -> In x (preorder G) -> In y (preorder G) -> t_id x = t_id y -> x = y.
Proof.
  unfold ids. generalize (preorder G). induction l as [|z l IH]; intros N Hx Hy E; [destruct Hx|].
  cbn [map] in N. apply NoDup_cons_iff in N. destruct N as [Nz N].
  destruct Hx as [->|Hx]; destruct Hy as [->|Hy]; [reflexivity | | | apply IH; assumption].
  - exfalso. apply Nz. rewrite E. apply in_map. exact Hy.
  - exfalso. apply Nz. rewrite <- E. apply in_map. exact Hx.
Qed.

(* the path root..node of the hand model *)
Fixpoint adj (p : list tree) : Prop :=
  match p with
  | x :: ((y :: _) as r) => In y (t_kids x) /\ adj r
  | _ => True
  end.

Definition pfacts (t : tree) (p : list tree) : Prop :=
  (exists q, p = t :: q) /\ Forall (fun n => In n (preorder t)) p /\ adj p /\ (length p <= size t)%nat.

Lemma path_kids a (t0 : tree) ks :
  Forall (fun t => forall p, path_to a t = Some p -> pfacts t p) ks ->
  forall p, (fix go (ks : list tree) : option (list tree) :=
               match ks with
               | [] => None
               | k :: r => match path_to a k with Some p => Some (t0 :: p) | None => go r end
               end) ks = Some p ->
  exists k pk, In k ks /\ p = t0 :: pk /\ pfacts k pk.
Proof.
  induction 1 as [|k r Hk _ IH]; intros p H; [discriminate|].
  destruct (path_to a k) as [pk|] eqn:Ek.
  - exists k, pk. split; [left; reflexivity|]. split; [congruence | apply Hk; reflexivity].
  - destruct (IH p H) as [k' [pk [Hin [E F]]]]. exists k', pk. split; [right; exact Hin | split; assumption].
Qed.

Lemma size_kid k ks : In k ks -> (size k <= sizes ks)%nat.
Proof. induction ks as [|c r IH]; [intros []|]. rewrite sizes_cons. intros [->|H]; [lia | specialize (IH H); lia]. Qed.

Lemma path_to_facts a : forall t p, path_to a t = Some p -> pfacts t p.
Proof.
  induction t as [i x lb e ks IH] using tree_ind'. intros p H. cbn [path_to t_taxon] in H.
  destruct (oz_eqb x (Some a)).
  - inversion H; subst. split; [exists []; reflexivity|]. split; [constructor; [apply preorder_self | constructor]|].
    split; [exact I | cbn; lia].
  - destruct (path_kids a (T i x lb e ks) ks IH p H) as [k [pk [Hin [-> [[q ->] [F [A L]]]]]]].
    split; [eexists; reflexivity|]. split; [|split].
    + constructor; [apply preorder_self|]. eapply Forall_impl; [|exact F]. intros n Hn. eapply preorder_kid; eassumption.
    + cbn [adj]. split; [exact Hin | exact A].
    + rewrite size_eq. pose proof (size_kid k ks Hin). cbn [length] in *. lia.
Qed.

Lemma find_path a : forall t,
  find (fun n => oz_eqb (t_taxon n) (Some a)) (preorder t) = match path_to a t with Some p => hd_error (rev p) | None => None end.
Proof.
  induction t as [i x lb e ks IH] using tree_ind'. cbn [preorder find path_to t_taxon].
  destruct (oz_eqb x (Some a)); [reflexivity|]. rewrite find_flat_map. generalize (T i x lb e ks) as t0. intro t0.
  induction ks as [|k r IHr]; [reflexivity|]. inversion IH as [|? ? Hk Hr]; subst. cbn [first_some]. rewrite Hk.
  destruct (path_to a k) as [pk|] eqn:Ek.
  - destruct (path_to_facts a k pk Ek) as [[q ->] _]. cbn [rev].
    destruct (rev q ++ [k]) as [|z zs] eqn:Ez; [destruct (rev q); discriminate|]. reflexivity.
  - apply IHr. exact Hr.
Qed.

Fixpoint adjG (G : tree) (p : list tree) : Prop :=
  match p with x :: ((y :: _) as r) => py_parent_node G y = Some x /\ adjG G r | _ => True end.

Lemma rev_chain G : forall p acc, pchain G acc ->
  match p with [] => True | x :: _ => py_parent_node G x = hd_error acc end ->
  adjG G p -> pchain G (rev p ++ acc).
Proof.
  induction p as [|x q IH]; intros acc PA Hh HA; [exact PA|]. cbn [rev]. rewrite <- app_assoc. cbn [app].
  apply IH.
  - cbn [pchain]. split; [exact Hh | exact PA].
  - destruct q as [|y q']; [exact I|]. destruct HA as [HA _]. cbn [hd_error]. exact HA.
  - destruct q as [|y q']; [exact I|]. destruct HA as [_ HA]. exact HA.
Qed.

Lemma adjG_of G : NoDup (ids G) -> forall l, Forall (fun n => In n (preorder G)) l -> adj l -> adjG G l.
Proof.
  intro N. induction l as [|x r IHl]; intros F A; [exact I|]. destruct r as [|y r']; [exact I|].
  cbn [adj] in A. destruct A as [A1 A2]. inversion F as [|? ? Fx Fr]; subst. split; [|apply IHl; assumption].
  destruct (py_parent_in_spec G x y N Fx A1) as [pp [Ep Eid]]. unfold py_parent_node, node_id. rewrite Ep. f_equal.
  apply (preorder_id_inj G); [exact N | eapply py_parent_in_preorder; exact Ep | exact Fx | exact Eid].
Qed.

Lemma path_chain G a p : NoDup (ids G) -> path_to a G = Some p -> pchain G (rev p).
Proof.
  intros N H. destruct (path_to_facts a G p H) as [[q ->] [F [A _]]].
  rewrite <- (app_nil_r (rev (G :: q))). apply rev_chain; [exact I | | apply adjG_of; assumption].
  unfold py_parent_node. cbn [hd_error]. destruct (py_parent_in (node_id G) G) as [pp|] eqn:E; [|reflexivity].
  exfalso. destruct G as [i x lb e ks]. apply py_parent_in_proper in E. rewrite ids_node in N.
  apply NoDup_cons_iff in N. exact (proj1 N E).
Qed.

Lemma bind_snd {A B C} (w : res (A * B)) (K : B -> res C) :
  (do st_ <- w ;; let '(n, d) := st_ in K d) = (do d <- rmap snd w ;; K d).
Proof. destruct w as [[n d]|e|]; reflexivity. Qed.

Lemma tree_mrca_tree ee ns mt arg start updated :
  snd (tree_mrca ee ns mt arg start updated) = mt \/ encode ns mt = Ok (snd (tree_mrca ee ns mt arg start updated)).
Proof.
  unfold tree_mrca. destruct (mrca_mask ns arg); [|left; reflexivity | left; reflexivity]. cbv zeta.
  destruct (Z.eqb z 0); [left; reflexivity|].
  destruct (Z.eqb (enc_get (mt_enc mt) _) 0 || negb updated).
  - destruct (encode ns mt) as [mt'|e|]; [|left; reflexivity | left; reflexivity]. right.
    destruct (match find_node _ (mt_tree mt') with Some s => Some s | None => _ end); [|reflexivity].
    destruct (negb _); [reflexivity|]. destruct (visit _ _ _ _ _); reflexivity.
  - left. destruct (match find_node _ (mt_tree mt) with Some s => Some s | None => _ end); [|reflexivity].
    destruct (negb _); [reflexivity|]. destruct (visit _ _ _ _ _); reflexivity.
Qed.

Theorem gen_tm_patristic_eq fuel ns mt a b updated :
  (size (mt_tree mt) < fuel)%nat ->
  match tm_patristic false ns mt a b updated with
  | (Ok d, mt') => NoDup (ids (mt_tree mt')) -> TM_patristic_distance fuel ns mt a b updated = Ok (d, mt')
  | (Err e, mt') => NoDup (ids (mt_tree mt')) -> TM_patristic_distance fuel ns mt a b updated = Err e
  | (OutOfFuel, _) => True
  end.
Proof.
  intro Hf. unfold tm_patristic, TM_patristic_distance.
  pose proof (gen_tree_mrca_eq fuel ns mt (ByTaxa [a; b]) None updated (Nat.lt_le_incl _ _ Hf)) as HM.
  pose proof (tree_mrca_tree false ns mt (ByTaxa [a; b]) None updated) as HT.
  change (mkKw None None (Some [a; b]) None (Some updated)) with (mk_kw (ByTaxa [a; b]) None updated).
  destruct (tree_mrca false ns mt (ByTaxa [a; b]) None updated) as [[m|e|] mt']; cbn [snd] in HT.
  - rewrite HM. cbn [bind]. cbv zeta.
    assert (Sz : (size (mt_tree mt') < fuel)%nat).
    { destruct HT as [->|HT]; [exact Hf | pose proof (encode_size _ _ _ HT); lia]. }
    set (G := mt_tree mt') in *.
    assert (W : forall x d, NoDup (ids G) ->
              rmap snd (py_while fuel (TM_walk1_test m) (TM_walk1_body G) (py_find_node_taxon G x, d))
              = climb (match path_to x G with Some p => rev p | None => [] end) m d).
    { intros x d N. unfold py_find_node_taxon. rewrite find_path. destruct (path_to x G) as [p|] eqn:Ep.
      - apply walk_climb; [apply (path_chain G x p N Ep)|]. rewrite rev_length.
        destruct (path_to_facts x G p Ep) as [_ [_ [_ L]]]. lia.
      - apply (walk_climb G m [] d fuel I). cbn. lia. }
    change TM_walk2_test with TM_walk1_test. change TM_walk2_body with TM_walk1_body.
    destruct (climb (match path_to a G with Some p => rev p | None => [] end) m 0) as [d1|e|] eqn:E1; cbn [bind].
    + destruct (climb (match path_to b G with Some p => rev p | None => [] end) m d1) as [d2|e|] eqn:E2; [| |exact I]; intro N;
        rewrite bind_snd, (W a 0 N), E1; cbn [bind]; rewrite bind_snd, (W b d1 N), E2; reflexivity.
    + intro N. rewrite bind_snd, (W a 0 N), E1. reflexivity.
    + exact I.
  - intros _. rewrite HM. reflexivity.
  - exact I.
Qed.
