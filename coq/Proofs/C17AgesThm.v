(* C17: the age theorems in the form exported by Props/C17.v *)
From Coq Require Import ZArith QArith List Bool Lia ZifyBool.
From DV Require Import Model.PyPrims Model.Tree Model.C17Model Proofs.C17Ages.
Import ListNotations.
Open Scope Z_scope.

Lemma fp_coerce m co t : fp (coerce m co t) = fp t.
Proof.
  revert co. induction t as [i x l e ks IH] using tree_ind'. intro co.
  destruct ks as [|k r]; [destruct m; reflexivity|].
  inversion IH as [|? ? Hk Hr]; subst.
  destruct m; cbn [coerce map]; rewrite !fp_cons, elen_coerce, Hk; reflexivity.
Qed.

Lemma height_coerce m co t : height (coerce m co t) = height t.
Proof.
  revert co. induction t as [i x l e ks IH] using tree_ind'. intro co. rewrite Forall_forall in IH.
  assert (G : forall (g : tree -> tree) (ls : list tree),
             (forall c, In c ls -> In c ks) -> (forall c, In c ls -> exists co', g c = coerce m co' c) ->
             fold_right (fun k n => Nat.max (height k) n) O (map g ls)
             = fold_right (fun k n => Nat.max (height k) n) O ls).
  { intros g ls Hs Hg. induction ls as [|c ls IHl]; [reflexivity|]. cbn [map fold_right].
    destruct (Hg c (or_introl eq_refl)) as [co' E]. rewrite E, (IH c (Hs c (or_introl eq_refl))). f_equal.
    apply IHl; intros; [apply Hs | apply Hg]; right; assumption. }
  destruct m; cbn [coerce height]; f_equal.
  - apply G; [auto|]. intros c _. exists true. reflexivity.
  - destruct ks as [|k r]; [reflexivity|]. cbn [fold_right]. rewrite (IH k (or_introl eq_refl)). f_equal.
    apply G; [intros; right; assumption|]. intros c _. exists false. reflexivity.
  - apply G; [auto|]. intros c _. exists false. reflexivity.
Qed.

Lemma check_prec_nonneg pv p : check_prec pv = Some p -> 0 <= p.
Proof. destruct pv as [| |z]; try discriminate. simpl. destruct (z <? 0) eqn:E; [discriminate|]. intro H. inversion H. lia. Qed.

Lemma calc_node_ages_unforced c t : c_fmax c = false -> c_fmin c = false -> calc_node_ages c t = calc c t.
Proof. intros H1 H2. unfold calc_node_ages. rewrite H1, H2. reflexivity. Qed.

Lemma mode_enabled c p : c_fmax c = false -> c_fmin c = false -> check_prec (c_prec c) = Some p -> mode_of c = CoAll.
Proof. intros H1 H2 H3. unfold mode_of. rewrite H1, H2, H3. reflexivity. Qed.

Lemma mode_disabled c : c_fmax c = false -> c_fmin c = false -> check_prec (c_prec c) = None -> mode_of c = CoFirst.
Proof. intros H1 H2 H3. unfold mode_of. rewrite H1, H2, H3. reflexivity. Qed.

(* a node of the annotated result, seen from the input tree *)
Lemma annot_view f m t v : In v (apreorder (annot f m false t)) ->
  exists s, In s (preorder t) /\ a_age v = f s /\ tipdists (aforget v) = tipdists s
            /\ fp (aforget v) = fp s /\ height (aforget v) = height s
            /\ exists co, v = annot f m co s.
Proof.
  intro H. apply apreorder_annot in H. destruct H as [s [co [Hs ->]]]. exists s.
  rewrite annot_age, aforget_annot, tipdists_coerce, fp_coerce, height_coerce.
  repeat split; try assumption. exists co. reflexivity.
Qed.

(* ------------------------------------------------------------------------------------------ *)

Lemma exact_local_ok t p : 0 <= p ->
  (forall v, In v (preorder t) -> forall d1 d2, In d1 (tipdists v) -> In d2 (tipdists v) -> Z.abs (d1 - d2) <= p) ->
  local_okb p t = true.
Proof.
  intros Hp H. apply local_okb_iff. intros v Hv c Hc. apply (H v Hv).
  - apply fp_in_tipdists.
  - apply (tipdists_kid v c); [|apply fp_in_tipdists]. destruct (t_kids v); [destruct Hc | right; exact Hc].
Qed.

Lemma ages_within_l : forall c p eps t,
  c_fmax c = false -> c_fmin c = false -> check_prec (c_prec c) = Some p ->
  0 <= eps <= p ->
  (forall v, In v (preorder t) -> forall d1 d2, In d1 (tipdists v) -> In d2 (tipdists v) -> Z.abs (d1 - d2) <= eps) ->
  exists a, calc_node_ages c t = COk a
    /\ map a_id (apostorder a) = map t_id (postorder t)
    /\ aforget a = coerce CoAll false t
    /\ forall v, In v (apreorder a) -> forall d, In d (tipdists (aforget v)) -> Z.abs (a_age v - d) <= eps.
Proof.
  intros c p eps t Hmx Hmn Hp He H.
  assert (Hok : local_okb p t = true).
  { apply exact_local_ok; [lia|]. intros v Hv d1 d2 H1 H2. specialize (H v Hv d1 d2 H1 H2). lia. }
  rewrite calc_node_ages_unforced by assumption.
  destruct (calc_enabled c p t Hmx Hmn Hp) as [[_ E] | [E _]]; [|rewrite E in Hok; discriminate].
  exists (annot fp CoAll false t). split; [exact E|]. split; [apply postorder_ids_annot|].
  split; [apply aforget_annot|]. intros v Hv d Hd.
  apply annot_view in Hv. destruct Hv as [s [Hs [Ea [Et _]]]]. rewrite Ea. rewrite Et in Hd.
  apply (H s Hs); [apply fp_in_tipdists | exact Hd].
Qed.

Lemma ages_exact_l : forall c t,
  (forall v, In v (preorder t) -> forall d1 d2, In d1 (tipdists v) -> In d2 (tipdists v) -> d1 = d2) ->
  c_fmax c && c_fmin c = false ->
  (c_fmax c || c_fmin c = true -> forall v, In v (preorder t) -> forall k, In k (t_kids v) -> t_len k <> None) ->
  exists a, calc_node_ages c t = COk a
    /\ map a_id (apostorder a) = map t_id (postorder t)
    /\ aforget a = coerce (mode_of c) false t
    /\ forall v, In v (apreorder a) -> forall d, In d (tipdists (aforget v)) -> a_age v = d.
Proof.
  intros c t H Hboth Hlens.
  assert (Gen : forall f m, (forall s, In (f s) (tipdists s)) ->
            forall v, In v (apreorder (annot f m false t)) -> forall d, In d (tipdists (aforget v)) -> a_age v = d).
  { intros f m Hf v Hv d Hd. apply annot_view in Hv. destruct Hv as [s [Hs [Ea [Et _]]]]. rewrite Ea. rewrite Et in Hd.
    apply (H s Hs); [apply Hf | exact Hd]. }
  unfold calc_node_ages. rewrite Hboth.
  destruct (c_fmax c) eqn:Hmx.
  - destruct (c_fmin c) eqn:Hmn; [discriminate|].
    destruct (calc_forced true c t Hmx) as [[_ E] | [Hn _]]; [|exfalso; apply Hn; exact (Hlens eq_refl)].
    exists (annot hmax CoNone false t). split; [exact E|]. split; [apply postorder_ids_annot|].
    split; [unfold mode_of; rewrite Hmx; apply aforget_annot|]. apply Gen. intro s. apply hmax_in_tipdists.
  - destruct (c_fmin c) eqn:Hmn.
    + destruct (calc_forced false c t (conj Hmx Hmn)) as [[_ E] | [Hn _]]; [|exfalso; apply Hn; exact (Hlens eq_refl)].
      exists (annot hmin CoNone false t). split; [exact E|]. split; [apply postorder_ids_annot|].
      split; [unfold mode_of; rewrite Hmx, Hmn; apply aforget_annot|]. apply Gen. intro s. apply hmin_in_tipdists.
    + destruct (check_prec (c_prec c)) as [p|] eqn:Hp.
      * pose proof (check_prec_nonneg _ _ Hp) as Hp0.
        assert (Hok : local_okb p t = true).
        { apply exact_local_ok; [exact Hp0|]. intros v Hv d1 d2 H1 H2. rewrite (H v Hv d1 d2 H1 H2). lia. }
        destruct (calc_enabled c p t Hmx Hmn Hp) as [[_ E] | [E _]]; [|rewrite E in Hok; discriminate].
        exists (annot fp CoAll false t). split; [exact E|]. split; [apply postorder_ids_annot|].
        split; [rewrite (mode_enabled c p) by assumption; apply aforget_annot|]. apply Gen. apply fp_in_tipdists.
      * exists (annot fp CoFirst false t). split; [apply calc_disabled; assumption|]. split; [apply postorder_ids_annot|].
        split; [rewrite (mode_disabled c) by assumption; apply aforget_annot|]. apply Gen. apply fp_in_tipdists.
Qed.

(* kids of an annotated node *)
Lemma annot_all_kids f co s : a_kids (annot f CoAll co s) = map (annot f CoAll true) (t_kids s).
Proof. destruct s; reflexivity. Qed.

Lemma accept_local_spec_l : forall c p t,
  c_fmax c = false -> c_fmin c = false -> check_prec (c_prec c) = Some p ->
  ((exists a, calc_node_ages c t = COk a) <->
   (forall v, In v (preorder t) -> forall k, In k (tl (t_kids v)) -> Z.abs (fp v - (fp k + elen k)) <= p))
  /\ (forall a, calc_node_ages c t = COk a ->
        map a_id (apostorder a) = map t_id (postorder t)
        /\ aforget a = coerce CoAll false t
        /\ (forall v, In v (apreorder a) -> a_age v = fp (aforget v))
        /\ (forall v, In v (apreorder a) -> forall k, In k (a_kids v) -> Z.abs (a_age v - (a_age k + len0 (a_len k))) <= p)).
Proof.
  intros c p t Hmx Hmn Hp. rewrite calc_node_ages_unforced by assumption.
  pose proof (check_prec_nonneg _ _ Hp) as Hp0.
  destruct (calc_enabled c p t Hmx Hmn Hp) as [[Hok E] | [Hok [e [n [E _]]]]]; rewrite E; split.
  - split; [intros _; apply local_okb_iff; exact Hok | intros _; eexists; reflexivity].
  - intros a Ha. inversion Ha; subst a. split; [apply postorder_ids_annot|]. split; [apply aforget_annot|]. split.
    + intros v Hv. apply annot_view in Hv. destruct Hv as [s [_ [Ea [_ [Ef _]]]]]. rewrite Ea, Ef. reflexivity.
    + intros v Hv k Hk. apply annot_view in Hv. destruct Hv as [s [Hs [Ea [_ [_ [_ [co ->]]]]]]].
      rewrite annot_all_kids in Hk. apply in_map_iff in Hk. destruct Hk as [cx [<- Hcx]].
      rewrite annot_age. change (annot fp CoAll true cx) with (annot fp CoAll true cx).
      fold (a_path (annot fp CoAll true cx)). rewrite annot_path.
      destruct (t_kids s) as [|k0 r] eqn:Ek; [destruct Hcx|]. destruct Hcx as [<- | Hcx].
      * destruct s as [i x l e ks]. simpl in Ek. subst ks. rewrite fp_cons. lia.
      * apply (proj1 (local_okb_iff p t) Hok s Hs). rewrite Ek. exact Hcx.
  - split; [intros [a Ha]; discriminate|]. intro H. apply local_okb_iff in H. rewrite H in Hok. discriminate.
  - intros a Ha. discriminate.
Qed.

Lemma accepted_drift_bound_l : forall c p t a,
  c_fmax c = false -> c_fmin c = false -> check_prec (c_prec c) = Some p ->
  calc_node_ages c t = COk a ->
  forall v, In v (apreorder a) -> forall d, In d (tipdists (aforget v)) ->
    Z.abs (a_age v - d) <= (Z.of_nat (height (aforget v)) - 1) * p.
Proof.
  intros c p t a Hmx Hmn Hp Ha v Hv d Hd. rewrite calc_node_ages_unforced in Ha by assumption.
  pose proof (check_prec_nonneg _ _ Hp) as Hp0.
  destruct (calc_enabled c p t Hmx Hmn Hp) as [[Hok E] | [_ [e [n [E _]]]]]; rewrite E in Ha; [|discriminate].
  inversion Ha; subst a. apply annot_view in Hv. destruct Hv as [s [Hs [Ea [Et [_ [Eh _]]]]]].
  rewrite Ea, Eh. rewrite Et in Hd. apply drift_bound; [exact Hp0 | | exact Hd].
  eapply local_okb_sub; eassumption.
Qed.

Lemma reject_sound_l : forall c p t e n,
  c_fmax c = false -> c_fmin c = false -> check_prec (c_prec c) = Some p ->
  calc_node_ages c t = CErr e n ->
  e = Ultra
  /\ exists v, In v (preorder t) /\ t_id v = n
       /\ exists d1 d2, In d1 (tipdists v) /\ In d2 (tipdists v) /\ Z.abs (d1 - d2) > p.
Proof.
  intros c p t e n Hmx Hmn Hp Ha. rewrite calc_node_ages_unforced in Ha by assumption.
  destruct (calc_enabled c p t Hmx Hmn Hp) as [[_ E] | [_ [e' [n' [E V]]]]]; rewrite E in Ha; [discriminate|].
  inversion Ha; subst e' n'. destruct V as [v [cx [Hv [En [Hcx [Hd He]]]]]]. split; [exact He|].
  exists v. split; [exact Hv|]. split; [symmetry; exact En|].
  exists (fp v), (fp cx + elen cx). split; [apply fp_in_tipdists|]. split; [|exact Hd].
  apply (tipdists_kid v cx); [|apply fp_in_tipdists]. destruct (t_kids v); [destruct Hcx | right; exact Hcx].
Qed.

Lemma reject_only_when_needed_l : forall c p t,
  c_fmax c = false -> c_fmin c = false -> check_prec (c_prec c) = Some p ->
  (forall v, In v (preorder t) -> forall d1 d2, In d1 (tipdists v) -> In d2 (tipdists v) -> Z.abs (d1 - d2) <= p) ->
  exists a, calc_node_ages c t = COk a.
Proof.
  intros c p t Hmx Hmn Hp H. pose proof (check_prec_nonneg _ _ Hp) as Hp0.
  destruct (ages_within_l c p p t Hmx Hmn Hp) as [a [Ha _]]; [lia | exact H|]. exists a. exact Ha.
Qed.

(* F16 *)
Definition f16_leaf (i l : Z) : tree := T i None None (Some l) [].
Definition f16_witness : tree :=
  T 0 None None None [T 1 None None (Some 10) [f16_leaf 2 10; f16_leaf 3 19]; f16_leaf 4 11].

Lemma reject_complete_refuted_l : exists c p t,
  c_fmax c = false /\ c_fmin c = false /\ check_prec (c_prec c) = Some p
  /\ (exists v d1 d2, In v (preorder t) /\ In d1 (tipdists v) /\ In d2 (tipdists v) /\ Z.abs (d1 - d2) > p)
  /\ exists a, calc_node_ages c t = COk a.
Proof.
  exists (mkCfg (PNum 10) false false), 10, f16_witness. repeat split.
  - exists f16_witness, 29, 11. split; [left; reflexivity|]. split; [vm_compute; auto|]. split; [vm_compute; auto|].
    vm_compute. reflexivity.
  - eexists. vm_compute. reflexivity.
Qed.

(* acceptance depends on the order of the children: the same tree with the cherry's tips exchanged *)
Lemma accept_child_order_refuted_l : exists c t t',
  t = f16_witness
  /\ t' = T 0 None None None [T 1 None None (Some 10) [f16_leaf 3 19; f16_leaf 2 10]; f16_leaf 4 11]
  /\ (exists a, calc_node_ages c t = COk a) /\ (exists n, calc_node_ages c t' = CErr Ultra n).
Proof.
  exists (mkCfg (PNum 10) false false). eexists. eexists. split; [reflexivity|]. split; [reflexivity|].
  split; eexists; vm_compute; reflexivity.
Qed.

(* ------------------------------------------------------------------------------------------ *)

Lemma forced_spec_l (mx : bool) : forall c t,
  (if mx then c_fmax c = true /\ c_fmin c = false else c_fmax c = false /\ c_fmin c = true) ->
  ((forall v, In v (preorder t) -> forall k, In k (t_kids v) -> t_len k <> None) ->
     exists a, calc_node_ages c t = COk a
       /\ map a_id (apostorder a) = map t_id (postorder t)
       /\ aforget a = t
       /\ forall v, In v (apreorder a) ->
            In (a_age v) (tipdists (aforget v))
            /\ forall d, In d (tipdists (aforget v)) -> if mx then d <= a_age v else a_age v <= d)
  /\ (~ (forall v, In v (preorder t) -> forall k, In k (t_kids v) -> t_len k <> None) ->
        exists n, calc_node_ages c t = CErr (Py TypeErr) n).
Proof.
  intros c t Hc.
  assert (Hboth : c_fmax c && c_fmin c = false) by (destruct mx, Hc as [H1 H2]; rewrite H1, H2; reflexivity).
  assert (Hc' : if mx then c_fmax c = true else c_fmax c = false /\ c_fmin c = true) by (destruct mx; tauto).
  unfold calc_node_ages. rewrite Hboth. split.
  - intro Hl. destruct (calc_forced mx c t Hc') as [[_ E] | [Hn _]]; [|contradiction].
    exists (annot (if mx then hmax else hmin) CoNone false t). split; [exact E|]. split; [apply postorder_ids_annot|].
    split; [rewrite aforget_annot; apply coerce_none|]. intros v Hv.
    apply annot_view in Hv. destruct Hv as [s [Hs [Ea [Et _]]]]. rewrite Ea, Et. destruct mx.
    + apply hmax_in_tipdists.
    + apply hmin_in_tipdists.
  - intro Hn. destruct (calc_forced mx c t Hc') as [[Hl _] | [_ [n [E _]]]]; [contradiction|]. exists n. exact E.
Qed.

Lemma forced_both_l : forall c t, c_fmax c = true -> c_fmin c = true -> calc_node_ages c t = CErr (Py ValueErr) (-1).
Proof. intros c t H1 H2. unfold calc_node_ages. rewrite H1, H2. reflexivity. Qed.

Lemma check_disabled_spec_l : forall c t,
  c_fmax c = false -> c_fmin c = false -> check_prec (c_prec c) = None ->
  exists a, calc_node_ages c t = COk a
    /\ map a_id (apostorder a) = map t_id (postorder t)
    /\ aforget a = coerce CoFirst false t
    /\ forall v, In v (apreorder a) -> a_age v = fp (aforget v) /\ In (a_age v) (tipdists (aforget v)).
Proof.
  intros c t Hmx Hmn Hp. rewrite calc_node_ages_unforced by assumption.
  exists (annot fp CoFirst false t). split; [apply calc_disabled; assumption|]. split; [apply postorder_ids_annot|].
  split; [apply aforget_annot|]. intros v Hv. apply annot_view in Hv. destruct Hv as [s [_ [Ea [Et [Ef _]]]]].
  rewrite Ea, Ef, Et. split; [reflexivity | apply fp_in_tipdists].
Qed.

Lemma check_prec_disabled_values : check_prec PNone = None /\ check_prec PFalse = None
  /\ forall z, check_prec (PNum z) = if z <? 0 then None else Some z.
Proof. repeat split. Qed.

(* ------------------------------------------------------------------------------------------ *)
(* set_edge_lengths_from_node_ages                                                             *)

Lemma rseq_map_ok {X Y} (g : X -> res Y) (F : X -> Y) ks :
  (forall k, In k ks -> g k = Ok (F k)) -> rsequence (map g ks) = Ok (map F ks).
Proof.
  induction ks as [|k r IH]; intro H; [reflexivity|]. cbn [map rsequence].
  rewrite (H k (or_introl eq_refl)), IH; [reflexivity|]. intros c Hc. apply H. right. exact Hc.
Qed.

Definition lens_fit (mn : option Z) (eon : bool) (t : tree) : Prop :=
  forall v, In v (preorder t) -> forall k, In k (t_kids v) ->
    (forall m, mn = Some m -> m <= elen k) /\ (eon = true -> 0 <= elen k).

Lemma set_lens_nr_exact mn eon page c :
  local_okb 0 c = true -> lens_fit mn eon c ->
  (forall m, mn = Some m -> m <= elen c) -> (eon = true -> 0 <= elen c) ->
  page - fp c = elen c ->
  set_lens_nr mn eon page (annot fp CoAll true c) = Ok (coerce CoAll true c).
Proof.
  revert page. induction c as [i x l e ks IH] using tree_ind'. intros page Hok Hfit Hm He Hpage.
  rewrite Forall_forall in IH. cbn [annot set_lens_nr coerce].
  assert (El : new_len mn page (fp (T i x l e ks)) = len0 e).
  { unfold new_len. rewrite Hpage. unfold elen in *. cbn [t_len] in *. destruct mn as [m|]; [|reflexivity].
    specialize (Hm m eq_refl). destruct (len0 e <? m) eqn:Ec; [lia | reflexivity]. }
  rewrite El. replace (eon && (len0 e <? 0)) with false.
  2:{ symmetry. destruct eon; [|reflexivity]. specialize (He eq_refl). unfold elen in He. cbn [t_len] in He. simpl. lia. }
  rewrite map_map.
  rewrite (rseq_map_ok _ (coerce CoAll true)); [reflexivity|].
  intros k Hk. apply IH; [exact Hk | | | | |].
  - eapply local_okb_sub; [exact Hok|]. eapply in_preorder_kid; [exact Hk | apply in_preorder_self].
  - intros v Hv cc Hcc. apply (Hfit v); [|exact Hcc]. eapply in_preorder_kid; [exact Hk | exact Hv].
  - apply (Hfit _ (in_preorder_self _) k Hk).
  - apply (Hfit _ (in_preorder_self _) k Hk).
  - destruct ks as [|k0 r]; [destruct Hk|]. destruct Hk as [<- | Hk].
    + rewrite fp_cons. lia.
    + pose proof (proj1 (local_okb_iff 0 _) Hok _ (in_preorder_self _) k Hk) as H. lia.
Qed.

Lemma lengths_from_ages_roundtrip_l : forall c t a mn eon,
  c_fmax c = false -> c_fmin c = false -> check_prec (c_prec c) = Some 0 ->
  calc_node_ages c t = COk a ->
  (forall v, In v (preorder t) -> forall k, In k (t_kids v) ->
     (forall m, mn = Some m -> m <= elen k) /\ (eon = true -> 0 <= elen k)) ->
  set_edge_lengths_from_node_ages mn eon a = Ok (aforget a) /\ aforget a = coerce CoAll false t.
Proof.
  intros c t a mn eon Hmx Hmn Hp Ha Hfit. rewrite calc_node_ages_unforced in Ha by assumption.
  destruct (calc_enabled c 0 t Hmx Hmn Hp) as [[Hok E] | [_ [e [n [E _]]]]]; rewrite E in Ha; [|discriminate].
  inversion Ha; subst a. split; [|apply aforget_annot]. rewrite aforget_annot.
  destruct t as [i x l e ks]. cbn [annot set_edge_lengths_from_node_ages coerce]. rewrite map_map.
  rewrite (rseq_map_ok _ (coerce CoAll true)); [reflexivity|].
  intros k Hk. apply set_lens_nr_exact.
  - eapply local_okb_sub; [exact Hok|]. eapply in_preorder_kid; [exact Hk | apply in_preorder_self].
  - intros v Hv cc Hcc. apply (Hfit v); [|exact Hcc]. eapply in_preorder_kid; [exact Hk | exact Hv].
  - apply (Hfit _ (in_preorder_self _) k Hk).
  - apply (Hfit _ (in_preorder_self _) k Hk).
  - destruct ks as [|k0 r]; [destruct Hk|]. destruct Hk as [<- | Hk].
    + rewrite fp_cons. lia.
    + pose proof (proj1 (local_okb_iff 0 _) Hok _ (in_preorder_self _) k Hk) as H. lia.
Qed.

(* without the fit hypotheses the lengths are NOT restored: clamping at the minimum *)
Lemma lengths_roundtrip_needs_fit : exists c t a,
  calc_node_ages c t = COk a /\ check_prec (c_prec c) = Some 0
  /\ set_edge_lengths_from_node_ages (Some 0) false a <> Ok (aforget a).
Proof.
  exists (mkCfg (PNum 0) false false), (T 0 None None None [T 1 None None (Some (-5)) [f16_leaf 2 10]; f16_leaf 3 5]).
  eexists. split; [vm_compute; reflexivity|]. split; [reflexivity|]. vm_compute. discriminate.
Qed.

(* returned list and the sorting wrappers *)
Lemma ret_ages_all a : ret_ages false a = map a_age (apostorder a).
Proof.
  unfold ret_ages. f_equal. induction (apostorder a) as [|v r IH]; [reflexivity|].
  change (filter (fun v0 => negb (false && a_is_leaf v0)) (v :: r))
    with (v :: filter (fun v0 => negb (false && a_is_leaf v0)) r).
  rewrite IH. reflexivity.
Qed.

Lemma ret_ages_internal a : ret_ages true a = map a_age (filter (fun v => negb (a_is_leaf v)) (apostorder a)).
Proof. reflexivity. Qed.
