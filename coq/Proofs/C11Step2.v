(* C11: every operation of the model preserves Closed (under the usage discipline) - part 2:
   CharacterMatrix, DataSet *)
From Coq Require Import List Bool Arith ZArith Lia.
From DV Require Import Model.PyPrims Model.C11Model Proofs.C11Base Proofs.C11Inv Proofs.C11Ops Proofs.C11Ops2 Proofs.C11Step.
Import ListNotations.
Open Scope nat_scope.

Lemma set_mat_same_ns : forall XL XD st m M rows,
  ClosedX XL XD st -> nth_error (s_mats st) m = Some M ->
  (forall x, In x rows -> In x (members st (m_ns M))) ->
  ClosedX XL XD (set_mat st m (mkMat (m_ns M) rows)).
Proof.
  intros XL XD st m M rows C E H. apply set_mat_closedX; [exact C | exact H |].
  cbn [m_ns]. eapply ds_clause_mat; eassumption.
Qed.

Lemma closed_ds_list : forall st d l,
  Closed st -> d < length (s_dss st) -> In l (d_lists (getds st d)) ->
  l < length (s_lists st) /\ forall a, d_att (getds st d) = Some a -> l_ns (getlist st l) = a.
Proof.
  intros st d l [_ [_ [_ C4]]] V Hin.
  pose proof (nth_nth_error _ (s_dss st) d dds V) as G. fold (getds st d) in G.
  destruct (C4 _ _ G) as [_ K]. destruct (K (NoX_no d)) as [K1 _]. destruct (K1 l Hin) as [L [E A]].
  split; [apply nth_error_Some; congruence|]. rewrite (getlist_some _ _ _ E). exact A.
Qed.

Lemma closed_ds_mat : forall st d m,
  Closed st -> d < length (s_dss st) -> In m (d_mats (getds st d)) ->
  m < length (s_mats st) /\ forall a, d_att (getds st d) = Some a -> m_ns (getmat st m) = a.
Proof.
  intros st d m [_ [_ [_ C4]]] V Hin.
  pose proof (nth_nth_error _ (s_dss st) d dds V) as G. fold (getds st d) in G.
  destruct (C4 _ _ G) as [_ K]. destruct (K (NoX_no d)) as [_ K2]. destruct (K2 m Hin) as [M [E A]].
  split; [apply nth_error_Some; congruence|]. rewrite (getmat_some _ _ _ E). exact A.
Qed.

(* writing a data-set record whose components exist and agree with its attached namespace *)
Lemma set_ds_closed : forall XL XD st d D',
  ClosedX XL XD st ->
  (forall l, In l (d_lists D') -> l < length (s_lists st) /\ (~ XD d -> forall a, d_att D' = Some a -> l_ns (getlist st l) = a)) ->
  (forall m, In m (d_mats D') -> m < length (s_mats st) /\ (~ XD d -> forall a, d_att D' = Some a -> m_ns (getmat st m) = a)) ->
  ClosedX XL XD (set_ds st d D').
Proof.
  intros XL XD st d D' C HL HM. apply set_ds_closedX; [exact C | |].
  - split; [intros l Hl; apply HL, Hl | intros m Hm; apply HM, Hm].
  - intro NX. split.
    + intros l Hl. destruct (HL l Hl) as [V A]. exists (getlist st l).
      split; [apply nth_nth_error; exact V | apply A, NX].
    + intros m Hm. destruct (HM m Hm) as [V A]. exists (getmat st m).
      split; [apply nth_nth_error; exact V | apply A, NX].
Qed.

Lemma getds_set_same : forall st d D', d < length (s_dss st) -> getds (set_ds st d D') d = D'.
Proof.
  intros st d D' V. apply getds_some. simpl. destruct (nth_error (s_dss st) d) eqn:E.
  - eapply nth_error_upd_same. exact E.
  - apply nth_error_None in E. lia.
Qed.

Lemma ds_add_ns_closed : forall st d n, Closed st -> d < length (s_dss st) -> Closed (ds_add_ns st d n).
Proof.
  intros st d n C V. unfold ds_add_ns. apply set_ds_closed; [exact C | |]; cbn [d_lists d_mats d_att].
  - intros l Hl. destruct (closed_ds_list st d l C V Hl) as [Vl A]. split; [exact Vl | intros _; exact A].
  - intros m Hm. destruct (closed_ds_mat st d m C V Hm) as [Vm A]. split; [exact Vm | intros _; exact A].
Qed.

Lemma getds_ds_add_ns : forall st d n, d < length (s_dss st) ->
  d_att (getds (ds_add_ns st d n) d) = d_att (getds st d)
  /\ d_lists (getds (ds_add_ns st d n) d) = d_lists (getds st d)
  /\ d_mats (getds (ds_add_ns st d n) d) = d_mats (getds st d).
Proof. intros st d n V. unfold ds_add_ns. rewrite getds_set_same by exact V. repeat split. Qed.

Lemma ds_add_list_closed : forall st d l,
  Closed st -> d < length (s_dss st) -> l < length (s_lists st) ->
  att_ok (getds st d) (l_ns (getlist st l)) = true -> Closed (ds_add_list st d l).
Proof.
  intros st d l C V Vl A. unfold ds_add_list.
  set (st1 := ds_add_ns st d (l_ns (getlist st l))).
  assert (C1 : Closed st1) by (apply ds_add_ns_closed; assumption).
  assert (V1 : d < length (s_dss st1)) by (unfold st1, ds_add_ns; simpl; rewrite upd_length; exact V).
  destruct (getds_ds_add_ns st d (l_ns (getlist st l)) V) as [Ea [El Em]]. fold st1 in Ea, El, Em.
  apply set_ds_closed; [exact C1 | |]; cbn [d_lists d_mats d_att].
  - intros x Hx. apply In_add_uniq in Hx. destruct Hx as [Hx|Hx].
    + subst x. split; [exact Vl|]. intros _ a Ha. rewrite Ea in Ha. unfold att_ok in A. rewrite Ha in A.
      apply Nat.eqb_eq in A. symmetry. exact A.
    + destruct (closed_ds_list st1 d x C1 V1 Hx) as [Vx Ax]. split; [exact Vx | intros _; exact Ax].
  - intros m Hm. destruct (closed_ds_mat st1 d m C1 V1 Hm) as [Vm Am]. split; [exact Vm | intros _; exact Am].
Qed.

Lemma ds_add_mat_closed : forall st d m,
  Closed st -> d < length (s_dss st) -> m < length (s_mats st) ->
  att_ok (getds st d) (m_ns (getmat st m)) = true -> Closed (ds_add_mat st d m).
Proof.
  intros st d m C V Vm A. unfold ds_add_mat.
  set (st1 := ds_add_ns st d (m_ns (getmat st m))).
  assert (C1 : Closed st1) by (apply ds_add_ns_closed; assumption).
  assert (V1 : d < length (s_dss st1)) by (unfold st1, ds_add_ns; simpl; rewrite upd_length; exact V).
  destruct (getds_ds_add_ns st d (m_ns (getmat st m)) V) as [Ea [El Em]]. fold st1 in Ea, El, Em.
  apply set_ds_closed; [exact C1 | |]; cbn [d_lists d_mats d_att].
  - intros l Hl. destruct (closed_ds_list st1 d l C1 V1 Hl) as [Vl Al]. split; [exact Vl | intros _; exact Al].
  - intros x Hx. apply In_add_uniq in Hx. destruct Hx as [Hx|Hx].
    + subst x. split; [exact Vm|]. intros _ a Ha. rewrite Ea in Ha. unfold att_ok in A. rewrite Ha in A.
      apply Nat.eqb_eq in A. symmetry. exact A.
    + destruct (closed_ds_mat st1 d x C1 V1 Hx) as [Vx Ax]. split; [exact Vx | intros _; exact Ax].
Qed.

(* attaching: all components must already refer to n *)
Lemma ds_attach_closedX : forall XL st d n,
  ClosedX XL (eq d) st \/ ClosedX XL NoX st -> d < length (s_dss st) ->
  (forall l, In l (d_lists (getds st d)) -> l < length (s_lists st) /\ l_ns (getlist st l) = n) ->
  (forall m, In m (d_mats (getds st d)) -> m < length (s_mats st) /\ m_ns (getmat st m) = n) ->
  ClosedX XL NoX (ds_attach st d n).
Proof.
  intros XL st d n C V HL HM.
  assert (C' : ClosedX XL (eq d) st).
  { destruct C as [C|C]; [exact C|]. eapply ClosedX_weaken; [| |exact C]; [intros i Hi; exact Hi | intros i []]. }
  clear C. unfold ds_attach. set (st1 := ds_add_ns st d n).
  destruct (getds_ds_add_ns st d n V) as [Ea [El Em]]. fold st1 in Ea, El, Em.
  assert (C1 : ClosedX XL (eq d) st1).
  { unfold st1, ds_add_ns. apply set_ds_closed; [exact C' | |]; cbn [d_lists d_mats d_att].
    - intros l Hl. split; [apply HL, Hl | intro NX; exfalso; apply NX; reflexivity].
    - intros m Hm. split; [apply HM, Hm | intro NX; exfalso; apply NX; reflexivity]. }
  (* write the attached record, then lift the exemption of d *)
  destruct C1 as [K1 [K2 [K3 K4]]]. closed_split; simpl; try assumption.
  intros i d0 H. apply nth_error_upd_inv in H. destruct H as [[Ei E]|[Ne E]].
  - subst. rewrite El, Em. split.
    + split; [intros l Hl; apply HL, Hl | intros m Hm; apply HM, Hm].
    + intros _. split; cbn [d_lists d_mats d_att].
      * intros l Hl. destruct (HL l Hl) as [Vl Nl]. exists (getlist st l). split; [apply nth_nth_error; exact Vl|].
        intros a Ha. injection Ha as Ha. rewrite <- Ha. exact Nl.
      * intros m Hm. destruct (HM m Hm) as [Vm Nm]. exists (getmat st m). split; [apply nth_nth_error; exact Vm|].
        intros a Ha. injection Ha as Ha. rewrite <- Ha. exact Nm.
  - destruct (K4 i d0 E) as [W K]. split; [exact W|]. intros _. apply K. intro Eq. apply Ne. symmetry. exact Eq.
Qed.

Section WithLower.
Variable lower : lbl -> lbl.

(* ---- CharacterMatrix ---- *)
Lemma step_NewSeq : forall st m x, Closed st -> Closed (fst (step lower st (NewSeq m x))).
Proof.
  intros st m x C. cbn [step]. destruct (valid_mat st m && valid_taxon st x) eqn:V; [|exact C].
  apply andb_true_iff in V. destruct V as [Vm _]. apply ltb_lt' in Vm.
  destruct (memb x (m_rows (getmat st m))); [exact C|].
  destruct (negb (memb x (members st (m_ns (getmat st m))))) eqn:Mx; [exact C|]. cbn [fst].
  apply negb_false_iff in Mx. apply memb_In in Mx.
  apply (set_mat_same_ns NoX NoX st m (getmat st m)); [exact C | apply nth_nth_error; exact Vm |].
  intros y Hy. apply in_app_or in Hy. destruct Hy as [Hy|[Hy|[]]]; [|subst; exact Mx].
  apply (closed_mat_ok NoX NoX st m C). exact Hy.
Qed.

Lemma step_SetRow : forall st m k, Closed st -> Closed (fst (step lower st (SetRow m k))).
Proof.
  intros st m k C. cbn [step].
  destruct (valid_mat st m && match k with KeyTaxon x => valid_taxon st x | _ => true end) eqn:V; [|exact C].
  apply andb_true_iff in V. destruct V as [Vm _]. apply ltb_lt' in Vm.
  destruct (row_key lower st (m_ns (getmat st m)) k) as [x|e|]; try exact C.
  destruct (negb (memb x (members st (m_ns (getmat st m))))) eqn:Mx; [exact C|]. cbn [fst].
  apply negb_false_iff in Mx. apply memb_In in Mx.
  apply (set_mat_same_ns NoX NoX st m (getmat st m)); [exact C | apply nth_nth_error; exact Vm |].
  intros y Hy. apply In_add_uniq in Hy. destruct Hy as [Hy|Hy]; [subst; exact Mx|].
  apply (closed_mat_ok NoX NoX st m C). exact Hy.
Qed.

Lemma step_MigrateMat : forall st m n u,
  Closed st -> disciplined st (MigrateMat m n u) = true ->
  snd (step lower st (MigrateMat m n u)) <> ORecon -> Closed (fst (step lower st (MigrateMat m n u))).
Proof.
  intros st m n u C D. cbn [step]. destruct (valid_mat st m && valid_ns st n); [|intros _; exact C].
  cbn [disciplined] in D.
  pose proof (migrate_mat_spec lower NoX NoX st m n u [] C) as S.
  destruct (migrate_mat lower st m n u []) as [[st1 memo] ok]. cbn [fst snd] in *.
  destruct ok; [|intro H; exfalso; apply H; reflexivity]. intros _. apply S; [|reflexivity].
  intros i d Ed _ Hin a Ha. eapply ds_mat_free_spec; try eassumption. reflexivity.
Qed.

Lemma step_ReconstructMat : forall st m u,
  Closed st -> snd (step lower st (ReconstructMat m u)) <> ORecon -> Closed (fst (step lower st (ReconstructMat m u))).
Proof.
  intros st m u C. cbn [step]. destruct (valid_mat st m) eqn:Vm; [|intros _; exact C]. apply ltb_lt' in Vm.
  pose proof (migrate_mat_spec lower NoX NoX st m (m_ns (getmat st m)) u [] C) as S.
  destruct (migrate_mat lower st m (m_ns (getmat st m)) u []) as [[st1 memo] ok]. cbn [fst snd] in *.
  destruct ok; [|intro H; exfalso; apply H; reflexivity]. intros _. apply S; [|reflexivity].
  intros i d Ed NX Hin a Ha.
  eapply (ds_clause_mat NoX NoX st m (getmat st m) C); [apply nth_nth_error; exact Vm | exact Ed | exact NX | exact Hin | exact Ha].
Qed.

Lemma step_UpdateMat : forall st m, Closed st -> Closed (fst (step lower st (UpdateMat m))).
Proof.
  intros st m C. cbn [step]. destruct (valid_mat st m); [|exact C]. cbn [fst].
  eapply grows_closedX; [apply add_members_grows | exact C].
Qed.

Lemma step_PurgeMat : forall st m,
  Closed st -> disciplined st (PurgeMat m) = true -> Closed (fst (step lower st (PurgeMat m))).
Proof.
  intros st m C D. cbn [step]. destruct (valid_mat st m); [|exact C]. cbn [fst].
  apply purge_closed; assumption.
Qed.

(* ---- DataSet ---- *)
Lemma step_Attach : forall st d n,
  Closed st -> disciplined st (Attach d n) = true -> Closed (fst (step lower st (Attach d n))).
Proof.
  intros st d n C D. cbn [step]. destruct (valid_ds st d && valid_ns st n) eqn:V; [|exact C].
  apply andb_true_iff in V. destruct V as [Vd _]. apply ltb_lt' in Vd. cbn [fst].
  cbn [disciplined] in D. apply andb_true_iff in D. destruct D as [D1 D2].
  apply (ds_attach_closedX NoX st d n (or_intror C) Vd).
  - intros l Hl. destruct (closed_ds_list st d l C Vd Hl) as [Vl _]. split; [exact Vl|].
    apply Nat.eqb_eq. apply (forallb_In _ _ _ l D1 Hl).
  - intros m Hm. destruct (closed_ds_mat st d m C Vd Hm) as [Vm _]. split; [exact Vm|].
    apply Nat.eqb_eq. apply (forallb_In _ _ _ m D2 Hm).
Qed.

Lemma step_Detach : forall st d, Closed st -> Closed (fst (step lower st (Detach d))).
Proof.
  intros st d C. cbn [step]. destruct (valid_ds st d) eqn:Vd; [|exact C]. apply ltb_lt' in Vd. cbn [fst].
  apply set_ds_closed; [exact C | |]; cbn [d_lists d_mats d_att].
  - intros l Hl. destruct (closed_ds_list st d l C Vd Hl) as [Vl _]. split; [exact Vl | intros _ a Ha; discriminate].
  - intros m Hm. destruct (closed_ds_mat st d m C Vd Hm) as [Vm _]. split; [exact Vm | intros _ a Ha; discriminate].
Qed.

Lemma step_DsAdd : forall st d o,
  Closed st -> disciplined st (DsAdd d o) = true -> Closed (fst (step lower st (DsAdd d o))).
Proof.
  intros st d o C D. cbn [step]. destruct (valid_ds st d) eqn:Vd; [|exact C]. apply ltb_lt' in Vd.
  destruct o as [n|l|m]; cbn [disciplined] in D.
  - destruct (valid_ns st n); [|exact C]. cbn [fst]. apply ds_add_ns_closed; assumption.
  - destruct (valid_list st l) eqn:Vl; [|exact C]. apply ltb_lt' in Vl. cbn [fst]. apply ds_add_list_closed; assumption.
  - destruct (valid_mat st m) eqn:Vm; [|exact C]. apply ltb_lt' in Vm. cbn [fst]. apply ds_add_mat_closed; assumption.
Qed.

Lemma ds_pick_ns_spec : forall st d nsarg st1 n,
  ds_pick_ns st d nsarg = Some (st1, n) -> Closed st ->
  Closed st1 /\ s_dss st1 = s_dss st /\ s_lists st1 = s_lists st /\ s_mats st1 = s_mats st
  /\ att_ok (getds st d) n = true.
Proof.
  intros st d nsarg st1 n H C. unfold ds_pick_ns in H. unfold att_ok.
  destruct (d_att (getds st d)) as [a|]; destruct nsarg as [n0|].
  - destruct (Nat.eqb a n0) eqn:E; [|discriminate]. inv H.
    split; [exact C|]. split; [reflexivity|]. split; [reflexivity|]. split; [reflexivity|]. apply Nat.eqb_refl.
  - inv H. split; [exact C|]. split; [reflexivity|]. split; [reflexivity|]. split; [reflexivity|]. apply Nat.eqb_refl.
  - inv H. split; [exact C|]. split; [reflexivity|]. split; [reflexivity|]. split; reflexivity.
  - unfold alloc_ns in H. inv H. split; [exact C|]. split; [reflexivity|]. split; [reflexivity|]. split; reflexivity.
Qed.

Lemma step_DsNewList : forall st d nsarg, Closed st -> Closed (fst (step lower st (DsNewList d nsarg))).
Proof.
  intros st d nsarg C. cbn [step]. destruct (valid_ds st d && valid_nsopt st nsarg) eqn:V; [|exact C].
  apply andb_true_iff in V. destruct V as [Vd _]. apply ltb_lt' in Vd.
  destruct (ds_pick_ns st d nsarg) as [[st1 n]|] eqn:P; [|exact C].
  destruct (ds_pick_ns_spec _ _ _ _ _ P C) as [C1 [ED [EL [EM A]]]].
  pose proof (alloc_list_closedX NoX NoX st1 (mkTL n []) C1) as C2.
  destruct (alloc_list st1 (mkTL n [])) as [st2 l] eqn:Q. cbn [fst] in *.
  assert (C2' : Closed st2) by (apply C2; intros tr []). clear C2.
  unfold alloc_list in Q. inv Q.
  apply ds_add_list_closed; [exact C2' | simpl; rewrite ED; exact Vd | simpl; rewrite app_length; simpl; lia |].
  unfold getds, getlist. simpl. rewrite app_nth2 by lia. rewrite Nat.sub_diag. simpl. rewrite ED. exact A.
Qed.

Lemma step_DsNewMat : forall st d nsarg, Closed st -> Closed (fst (step lower st (DsNewMat d nsarg))).
Proof.
  intros st d nsarg C. cbn [step]. destruct (valid_ds st d && valid_nsopt st nsarg) eqn:V; [|exact C].
  apply andb_true_iff in V. destruct V as [Vd _]. apply ltb_lt' in Vd.
  destruct (ds_pick_ns st d nsarg) as [[st1 n]|] eqn:P; [|exact C].
  destruct (ds_pick_ns_spec _ _ _ _ _ P C) as [C1 [ED [EL [EM A]]]].
  pose proof (alloc_mat_closedX NoX NoX st1 (mkMat n []) C1) as C2.
  destruct (alloc_mat st1 (mkMat n [])) as [st2 m] eqn:Q. cbn [fst] in *.
  assert (C2' : Closed st2) by (apply C2; intros x []). clear C2.
  unfold alloc_mat in Q. inv Q.
  apply ds_add_mat_closed; [exact C2' | simpl; rewrite ED; exact Vd | simpl; rewrite app_length; simpl; lia |].
  unfold getds, getmat. simpl. rewrite app_nth2 by lia. rewrite Nat.sub_diag. simpl. rewrite ED. exact A.
Qed.

Lemma ds_read_ns_spec : forall st d nsarg st1 n,
  ds_read_ns st d nsarg = Some (st1, n) -> Closed st -> d < length (s_dss st) ->
  Closed st1 /\ length (s_dss st1) = length (s_dss st) /\ s_lists st1 = s_lists st /\ s_mats st1 = s_mats st
  /\ att_ok (getds st1 d) n = true.
Proof.
  intros st d nsarg st1 n H C V. unfold ds_read_ns in H. unfold att_ok.
  destruct (d_att (getds st d)) as [a|] eqn:Ea; destruct nsarg as [n0|].
  - destruct (Nat.eqb a n0) eqn:E; [|discriminate]. inv H.
    split; [exact C|]. split; [reflexivity|]. split; [reflexivity|]. split; [reflexivity|]. rewrite Ea. exact E.
  - inv H. split; [exact C|]. split; [reflexivity|]. split; [reflexivity|]. split; [reflexivity|].
    rewrite Ea. apply Nat.eqb_refl.
  - inv H. split; [exact C|]. split; [reflexivity|]. split; [reflexivity|]. split; [reflexivity|].
    rewrite Ea. reflexivity.
  - unfold alloc_ns in H. cbn [fst snd] in H. inv H.
    set (st0 := mkSt (s_lab st) (s_mem st) ((s_nns st, false) :: s_cs st) (S (s_nns st)) (s_trees st) (s_lists st) (s_mats st) (s_dss st)).
    assert (C0 : Closed st0) by exact C.
    split; [apply ds_add_ns_closed; [exact C0 | exact V]|].
    split; [unfold ds_add_ns; simpl; apply upd_length|]. split; [reflexivity|]. split; [reflexivity|].
    destruct (getds_ds_add_ns st0 d (s_nns st) V) as [E1 _]. rewrite E1.
    change (getds st0 d) with (getds st d). rewrite Ea. reflexivity.
Qed.

Lemma step_DsReadTrees : forall st d sc cskw nsarg trees,
  Closed st -> Closed (fst (step lower st (DsReadTrees d sc cskw nsarg trees))).
Proof.
  intros st d sc cskw nsarg trees C. cbn [step]. destruct (valid_ds st d && valid_nsopt st nsarg) eqn:V; [|exact C].
  apply andb_true_iff in V. destruct V as [Vd _]. apply ltb_lt' in Vd.
  destruct (ds_read_ns st d nsarg) as [[st1 n]|] eqn:P; [|exact C].
  destruct (ds_read_ns_spec _ _ _ _ _ P C Vd) as [C1 [ED [EL [EM A]]]].
  assert (Hadd : forall st2 l, alloc_list st1 (mkTL n []) = (st2, l) ->
            Closed (ds_add_list st2 d l) /\ l < length (s_lists (ds_add_list st2 d l))).
  { intros st2 l Q. pose proof (alloc_list_closedX NoX NoX st1 (mkTL n []) C1) as C2. rewrite Q in C2. cbn [fst] in C2.
    assert (C2' : Closed st2) by (apply C2; intros tr []). unfold alloc_list in Q. inv Q. split.
    - apply ds_add_list_closed; [exact C2' | simpl; rewrite ED; exact Vd | simpl; rewrite app_length; simpl; lia |].
      unfold getlist. simpl. rewrite app_nth2 by lia. rewrite Nat.sub_diag. simpl. exact A.
    - unfold ds_add_list, ds_add_ns. simpl. rewrite app_length. simpl. lia. }
  destruct sc.
  - destruct (alloc_list st1 (mkTL n [])) as [st2 l] eqn:Q. destruct (Hadd st2 l eq_refl) as [C3 V3].
    destruct (Bool.eqb cskw (ns_cs (ds_add_list st2 d l) n)); [|exact C3].
    destruct (read_trees_spec lower cskw trees NoX NoX _ l C3 V3) as [K _].
    destruct (read_trees lower (ds_add_list st2 d l) l cskw trees) as [st4 ok]. exact K.
  - destruct (Bool.eqb cskw (ns_cs st1 n)); [|exact C1].
    destruct trees as [|t0 r]; [exact C1|].
    destruct (alloc_list st1 (mkTL n [])) as [st2 l] eqn:Q. destruct (Hadd st2 l eq_refl) as [C3 V3].
    destruct (read_trees_spec lower cskw (t0 :: r) NoX NoX _ l C3 V3) as [K _].
    destruct (read_trees lower (ds_add_list st2 d l) l cskw (t0 :: r)) as [st4 ok]. exact K.
Qed.

Lemma step_DsReadFasta : forall st d nsarg rows,
  Closed st -> Closed (fst (step lower st (DsReadFasta d nsarg rows))).
Proof.
  intros st d nsarg rows C. cbn [step]. destruct (valid_ds st d && valid_nsopt st nsarg) eqn:V; [|exact C].
  apply andb_true_iff in V. destruct V as [Vd _]. apply ltb_lt' in Vd.
  destruct (ds_read_ns st d nsarg) as [[st1 n]|] eqn:P; [|exact C].
  destruct (ds_read_ns_spec _ _ _ _ _ P C Vd) as [C1 [ED [EL [EM A]]]].
  pose proof (alloc_mat_closedX NoX NoX st1 (mkMat n []) C1) as C2.
  destruct (alloc_mat st1 (mkMat n [])) as [st2 m] eqn:Q. cbn [fst] in C2.
  assert (C2' : Closed st2) by (apply C2; intros x []). clear C2. unfold alloc_mat in Q. inv Q.
  set (st2 := mkSt _ _ _ _ _ _ _ _) in *.
  assert (C3 : Closed (ds_add_mat st2 d (length (s_mats st1)))).
  { apply ds_add_mat_closed; [exact C2' | simpl; rewrite ED; exact Vd | simpl; rewrite app_length; simpl; lia |].
    unfold getmat. simpl. rewrite app_nth2 by lia. rewrite Nat.sub_diag. simpl. exact A. }
  assert (V3 : length (s_mats st1) < length (s_mats (ds_add_mat st2 d (length (s_mats st1))))).
  { unfold ds_add_mat, ds_add_ns. simpl. rewrite app_length. simpl. lia. }
  pose proof (read_rows_spec lower rows NoX NoX _ _ C3 V3) as K.
  destruct (read_rows lower (ds_add_mat st2 d (length (s_mats st1))) (length (s_mats st1)) rows) as [st4 ok]. exact K.
Qed.

End WithLower.
