(* C12, second wave: the additional hypotheses hold on the example heap of C12Examples (non-vacuity) *)
From Coq Require Import ZArith List Bool.
From DV Require Import Model.PyPrims Model.C12Model Model.C12Spec2 Proofs.C12Examples.
Import ListNotations.
Open Scope Z_scope.

Lemma ex_wf3 : wf_heap3 ex_heap = true /\ wf_heap3s ex_heap = true
  /\ root_seeds_ok ex_heap [] 0 = true /\ root_seeds_ok ex_heap (ns_seeds ex_heap 1) 0 = true.
Proof. vm_compute. repeat split; reflexivity. Qed.
