(* C13 (second wave): the matrix clause at block-dispatch level.  CharacterMatrix.get (trees
   excluded) and DataSet.get (trees read) run the same block loop and differ only in what they do
   with a TREES block.  On a document in the standard layout - every CHARACTERS / DATA / SETS /
   ASSUMPTIONS / CODONS keyword token precedes every TREES keyword token - both deliver the same
   matrices whenever both succeed: until the first TREES block the two runs are the same
   computation, afterwards neither run meets a block that touches the matrices. *)
From Coq Require Import ZArith List Bool Lia.
From DV Require Import Model.PyPrims Model.C13Model Model.C13Chars Proofs.C13Lists Proofs.C13Lockstep
  Proofs.C13Suffix Proofs.C13Blocks.
Import ListNotations.

Section CharsProofs.
Variable T M : Type.
Variables lower upper : str -> str.
Variable parse_tree : mapper -> tz -> res (option T * mapper * tz).
Variable set_label : T -> option str -> T.
Variable add_comments : T -> list str -> T.
Variable vl : bool.
Variable c : nscfg.
Variable tlf : tl_factory.
Variable parse_chars : core -> regs -> list M -> res (core * regs * list M).
Variable parse_sets : core -> regs -> list M -> res (core * regs * list M).

Hypothesis parse_tree_suf : forall m z ot m' z',
  parse_tree m z = Ok (ot, m', z') -> suf (z_toks z') (z_toks z).
Hypothesis parse_chars_suf : forall k g ms k' g' ms',
  parse_chars k g ms = Ok (k', g', ms') -> ksuf k' k.
Hypothesis parse_sets_suf : forall k g ms k' g' ms',
  parse_sets k g ms = Ok (k', g', ms') -> ksuf k' k.

Notation RTL := (r_tree_loop T upper parse_tree set_label add_comments).
Notation RTS := (r_trees_loop T lower upper parse_tree set_label add_comments vl c tlf).
Notation RTB et := (r_parse_trees_block T lower upper parse_tree set_label add_comments vl c tlf et).
Notation CBL := (c_blocks_loop T M lower upper parse_tree set_label add_comments vl c tlf parse_chars parse_sets).

(* ---- the reader's TREES block only moves forward ---- *)
Lemma r_tree_loop_suf : forall fuel k tls ns i m k' tls' m' tk,
  RTL fuel k tls ns i m = Ok (k', tls', m', tk) -> ksuf k' k.
Proof.
  intros fuel k tls ns i m k' tls' m' tk H. rewrite tree_loop_agree in H.
  destruct (y_tree_loop T upper parse_tree set_label add_comments fuel k ns m) as [out r] eqn:E.
  destruct r as [[[k1 m1] tk1]|e|]; try discriminate. inversion H; subst.
  eapply (y_tree_loop_suf T upper parse_tree set_label add_comments parse_tree_suf). eassumption.
Qed.

Lemma r_trees_loop_suf : forall fuel s l tb s', RTS fuel s l tb = Ok s' -> ksuf (r_k s') (r_k s).
Proof.
  unfold ksuf.
  induction fuel as [|f IH]; intros s l tb s' H; [discriminate|].
  cbn [r_trees_loop] in H.
  destruct (loop_guard (k_z (r_k s)) (l_token l)); [|inversion H; subst; apply suf_refl].
  destruct (zstep (r_k s) (next_token_ucase upper)) as [k1|e|] eqn:E1; cbn [bind] in H; try discriminate.
  apply zstep_suf in E1; [|apply next_token_ucase_suf]. unfold ksuf in E1.
  destruct (otok_is (z_cur (k_z k1)) K_LINK).
  { destruct (parse_link upper vl (S f) (k_z k1)) as [[lt z2]|e|] eqn:E2; cbn [bind] in H; try discriminate.
    apply IH in H. apply parse_link_suf in E2. suf_chain. }
  destruct (otok_is (z_cur (k_z k1)) K_TITLE).
  { destruct (parse_title upper (k_z k1)) as [[bt z2]|e|] eqn:E2; cbn [bind] in H; try discriminate.
    apply IH in H. apply parse_title_suf in E2. suf_chain. }
  destruct (otok_is (z_cur (k_z k1)) K_TRANSLATE).
  { destruct (loc_get_ns upper c k1 (r_g s) l) as [[[ns k2] g2]|e|] eqn:E2; cbn [bind] in H; try discriminate.
    destruct (parse_translate lower (S f) k2 ns) as [[m k3]|e|] eqn:E3; cbn [bind] in H; try discriminate.
    apply IH in H. apply parse_translate_suf in E3. unfold ksuf in E3.
    apply loc_get_ns_z in E2. rewrite E2 in E3. suf_chain. }
  destruct (otok_is (z_cur (k_z k1)) K_TREE).
  { destruct (loc_get_ns upper c k1 (r_g s) l) as [[[ns k2] g2]|e|] eqn:E2; cbn [bind] in H; try discriminate.
    destruct (pull_comments (k_z k2)) as [pre z3] eqn:EP.
    destruct (match tb with Some i => (i, r_tls s, r_tlreg s) | None => new_tree_list T tlf (r_tls s) (r_tlreg s) (l_title l) end)
      as [[i tls4] reg4].
    match type of H with bind ?r _ = _ => destruct r as [[[[k6 tls6] m1] tk]|e|] eqn:E3 end; cbn [bind] in H; try discriminate.
    apply r_tree_loop_suf in E3. unfold ksuf in E3. apply IH in H.
    unfold pull_comments in EP. inversion EP; subst. simpl in E3.
    apply loc_get_ns_z in E2. rewrite E2 in E3. suf_chain. }
  destruct (otok_is (z_cur (k_z k1)) K_BEGIN); [discriminate|].
  apply IH in H. suf_chain.
Qed.

Lemma r_trees_block_suf : forall et fuel s s', RTB et fuel s = Ok s' -> ksuf (r_k s') (r_k s).
Proof.
  unfold ksuf. intros et fuel s s' H. unfold r_parse_trees_block in H.
  destruct (negb (tok_is (cast_ucase upper (k_z (r_k s))) K_TREES)); [discriminate|].
  destruct et.
  - destruct (zstep _ _) as [k1|e|] eqn:E; cbn [bind] in H; try discriminate.
    inversion H; subst. apply zstep_suf in E; [|apply consume_suf]. unfold ksuf in E. simpl in *.
    rewrite cast_toks in E. assumption.
  - destruct (zstep (set_z (r_k s) (cast_ucase upper (k_z (r_k s)))) (skip_to_semicolon fuel)) as [k1|e|] eqn:E; cbn [bind] in H; try discriminate.
    match type of H with bind ?r _ = _ => destruct r as [s2|e|] eqn:E2 end; cbn [bind] in H; try discriminate.
    destruct (zstep (r_k s2) (skip_to_semicolon fuel)) as [k3|e|] eqn:E3; cbn [bind] in H; try discriminate.
    inversion H; subst.
    apply zstep_suf in E; [|apply skip_to_semicolon_suf].
    apply zstep_suf in E3; [|apply skip_to_semicolon_suf].
    apply r_trees_loop_suf in E2. unfold ksuf in *. simpl in *. rewrite cast_toks in E. suf_chain.
Qed.

(* ---- keyword tokens ---- *)
Definition tkw (t : token) : bool := otok_is (Some (upper (t_text t))) K_TREES.
Definition ckw (t : token) : bool :=
  otok_is (Some (upper (t_text t))) K_CHARACTERS || otok_is (Some (upper (t_text t))) K_DATA
  || is_sets_kw (Some (upper (t_text t))).
Definition NoT (l : list token) : Prop := Forall (fun t => tkw t = false) l.
Definition NoC (l : list token) : Prop := Forall (fun t => ckw t = false) l.
(* the standard layout: character-related keywords first, TREES keywords afterwards *)
Definition Layout (l : list token) : Prop := exists pre post, l = pre ++ post /\ NoT pre /\ NoC post.

Lemma NoC_suf : forall a b, suf a b -> NoC b -> NoC a.
Proof. intros a b. apply suf_Forall. Qed.

Lemma Layout_suf : forall a b, suf a b -> Layout b -> Layout a.
Proof.
  intros a b [p E] [pre [post [E2 [HT HC]]]]. subst b.
  apply app_eq_app in E2. destruct E2 as [q [[E1 E3]|[E1 E3]]].
  - (* p = pre ++ q, post = q ++ a *)
    exists [], a. subst. split; [reflexivity|]. split; [constructor|].
    unfold NoC in *. apply Forall_app in HC. tauto.
  - (* pre = p ++ q, a = q ++ post *)
    exists q, post. subst. split; [reflexivity|]. split; [|assumption].
    unfold NoT in *. apply Forall_app in HT. tauto.
Qed.

(* the block name read by block_head is a token of the document; what is left follows it *)
Lemma block_head_token : forall fuel k k4,
  block_head upper fuel k = Ok k4 ->
  z_cur (k_z k4) = None
  \/ exists t p, z_toks (k_z k) = p ++ t :: z_toks (k_z k4) /\ z_cur (k_z k4) = Some (upper (t_text t)).
Proof.
  intros fuel k k4 H. unfold block_head in H.
  destruct (zstep k (next_token_ucase upper)) as [k1|e|] eqn:E1; cbn [bind] in H; try discriminate.
  destruct (zstep k1 (scan_begin upper fuel)) as [k2|e|] eqn:E2; cbn [bind] in H; try discriminate.
  apply zstep_suf in E1; [|apply next_token_ucase_suf].
  apply zstep_suf in E2; [|apply scan_begin_suf].
  unfold zstep, next_token_ucase, fetch in H. simpl in H.
  destruct (z_toks (k_z k2)) as [|t r] eqn:ET.
  - destruct (z_end (k_z k2)); simpl in H; [|discriminate]. inversion H; subst. left. reflexivity.
  - simpl in H. inversion H; subst. right. simpl.
    unfold ksuf in *. destruct E1 as [p1 P1]. destruct E2 as [p2 P2]. rewrite ET in P2.
    exists t, (p1 ++ p2). split; [|reflexivity]. rewrite P1, P2, <- app_assoc. reflexivity.
Qed.

Lemma in_split_suffix : forall (t : token) p r (P : token -> Prop) l,
  l = p ++ t :: r -> Forall P l -> P t /\ Forall P r.
Proof.
  intros t p r P l E H. subst. apply Forall_app in H. destruct H as [_ H]. inversion H; subst. auto.
Qed.

(* ---- once no character-related keyword is left, the matrices are final ---- *)
Lemma mats_frozen : forall et fuel s mats s' mats',
  NoC (z_toks (k_z (r_k s))) -> CBL et fuel s mats = Ok (s', mats') -> mats' = mats.
Proof.
  induction fuel as [|f IH]; intros s mats s' mats' N H; [discriminate|].
  cbn [c_blocks_loop] in H.
  destruct (negb (z_eof (k_z (r_k s)))); [|inversion H; reflexivity].
  destruct (block_head upper (S f) (r_k s)) as [k4|e|] eqn:EH; cbn [bind] in H; try discriminate.
  assert (S4 : ksuf k4 (r_k s)) by (destruct (block_head_up upper _ _ _ EH); assumption).
  assert (N4 : NoC (z_toks (k_z k4))) by (eapply NoC_suf; eassumption).
  assert (CK : (otok_is (z_cur (k_z k4)) K_CHARACTERS || otok_is (z_cur (k_z k4)) K_DATA) = false
               /\ is_sets_kw (z_cur (k_z k4)) = false).
  { destruct (block_head_token _ _ _ EH) as [E|[t [p [E1 E2]]]].
    - rewrite E. split; reflexivity.
    - rewrite E2. destruct (in_split_suffix t p _ _ _ E1 N) as [X _]. unfold ckw in X.
      apply orb_false_iff in X. tauto. }
  destruct CK as [CK1 CK2].
  destruct (otok_is (z_cur (k_z k4)) K_TAXA).
  { destruct (parse_taxa_block lower upper c (S f) k4 (r_g s)) as [[k5 g5]|e|] eqn:E5; cbn [bind] in H; try discriminate.
    refine (IH _ _ _ _ _ H); simpl; exact (NoC_suf _ _ (parse_taxa_block_suf lower upper c _ _ _ _ _ E5) N4). }
  rewrite CK1 in H.
  destruct (otok_is (z_cur (k_z k4)) K_TREES).
  { match type of H with bind ?r _ = _ => destruct r as [s5|e|] eqn:E5 end; cbn [bind] in H; try discriminate.
    apply r_trees_block_suf in E5. simpl in E5. refine (IH _ _ _ _ _ H); simpl; exact (NoC_suf _ _ E5 N4). }
  rewrite CK2 in H.
  destruct (otok_is (z_cur (k_z k4)) K_BEGIN); [discriminate|].
  destruct (zstep k4 _) as [k5|e|] eqn:E5; cbn [bind] in H; try discriminate.
  apply zstep_suf in E5; [|apply consume_suf]. refine (IH _ _ _ _ _ H); simpl; exact (NoC_suf _ _ E5 N4).
Qed.

(* ---- the two routes ---- *)
Lemma routes_same_matrices : forall fuel s mats s1 m1 s2 m2,
  Layout (z_toks (k_z (r_k s))) ->
  CBL true fuel s mats = Ok (s1, m1) -> CBL false fuel s mats = Ok (s2, m2) -> m1 = m2.
Proof.
  induction fuel as [|f IH]; intros s mats s1 m1 s2 m2 L H1 H2; [discriminate|].
  cbn [c_blocks_loop] in H1, H2.
  destruct (negb (z_eof (k_z (r_k s)))); [|inversion H1; inversion H2; congruence].
  destruct (block_head upper (S f) (r_k s)) as [k4|e|] eqn:EH; cbn [bind] in H1, H2; try discriminate.
  assert (S4 : ksuf k4 (r_k s)) by (destruct (block_head_up upper _ _ _ EH); assumption).
  assert (L4 : Layout (z_toks (k_z k4))) by (eapply Layout_suf; eassumption).
  destruct (otok_is (z_cur (k_z k4)) K_TAXA).
  { destruct (parse_taxa_block lower upper c (S f) k4 (r_g s)) as [[k5 g5]|e|] eqn:E5; cbn [bind] in H1, H2; try discriminate.
    refine (IH _ _ _ _ _ _ _ H1 H2); simpl; exact (Layout_suf _ _ (parse_taxa_block_suf lower upper c _ _ _ _ _ E5) L4). }
  destruct (otok_is (z_cur (k_z k4)) K_CHARACTERS || otok_is (z_cur (k_z k4)) K_DATA).
  { destruct (parse_chars k4 (r_g s) mats) as [[[k5 g5] mats5]|e|] eqn:E5; cbn [bind] in H1, H2; try discriminate.
    refine (IH _ _ _ _ _ _ _ H1 H2); simpl; exact (Layout_suf _ _ (parse_chars_suf _ _ _ _ _ _ E5) L4). }
  destruct (otok_is (z_cur (k_z k4)) K_TREES) eqn:ETR.
  { (* the first TREES block: nothing character-related is left *)
    assert (N4 : NoC (z_toks (k_z k4))).
    { destruct (block_head_token _ _ _ EH) as [E|[t [p [E1 E2]]]]; [rewrite E in ETR; discriminate|].
      destruct L as [pre [post [EL [HT HC]]]]. rewrite EL in E1.
      apply app_eq_app in E1. destruct E1 as [q [[A B]|[A B]]].
      - (* pre = p ++ q, t :: rest = q ++ post *)
        destruct q as [|t' q'].
        + simpl in B. subst post. inversion HC; subst. assumption.
        + inversion B; subst. exfalso. unfold NoT in HT. apply Forall_app in HT. destruct HT as [_ HT].
          apply Forall_inv in HT. unfold tkw in HT. rewrite E2 in ETR. rewrite ETR in HT. discriminate.
      - (* p = pre ++ q, post = q ++ t :: rest *)
        subst post. unfold NoC in HC. apply Forall_app in HC. destruct HC as [_ HC]. inversion HC; subst. assumption. }
    match type of H1 with bind ?r _ = _ => destruct r as [s5|e|] eqn:E5 end; cbn [bind] in H1; try discriminate.
    match type of H2 with bind ?r _ = _ => destruct r as [s6|e|] eqn:E6 end; cbn [bind] in H2; try discriminate.
    apply r_trees_block_suf in E5. apply r_trees_block_suf in E6. simpl in E5, E6.
    apply mats_frozen in H1; [|eapply NoC_suf; eassumption].
    apply mats_frozen in H2; [|eapply NoC_suf; eassumption]. congruence. }
  destruct (is_sets_kw (z_cur (k_z k4))).
  { destruct (parse_sets k4 (r_g s) mats) as [[[k5 g5] mats5]|e|] eqn:E5; cbn [bind] in H1, H2; try discriminate.
    refine (IH _ _ _ _ _ _ _ H1 H2); simpl; exact (Layout_suf _ _ (parse_sets_suf _ _ _ _ _ _ E5) L4). }
  destruct (otok_is (z_cur (k_z k4)) K_BEGIN); [discriminate|].
  destruct (zstep k4 _) as [k5|e|] eqn:E5; cbn [bind] in H1, H2; try discriminate.
  assert (S5 : ksuf k5 k4) by (eapply zstep_suf; [apply consume_suf | eassumption]).
  refine (IH _ _ _ _ _ _ _ H1 H2); simpl; exact (Layout_suf _ _ S5 L4).
Qed.

(* a document without any TREES keyword: the two routes are the same computation *)
Lemma routes_equal_without_trees : forall fuel s mats,
  NoT (z_toks (k_z (r_k s))) -> CBL true fuel s mats = CBL false fuel s mats.
Proof.
  induction fuel as [|f IH]; intros s mats N; [reflexivity|].
  cbn [c_blocks_loop].
  destruct (negb (z_eof (k_z (r_k s)))); [|reflexivity].
  destruct (block_head upper (S f) (r_k s)) as [k4|e|] eqn:EH; cbn [bind]; try reflexivity.
  assert (S4 : ksuf k4 (r_k s)) by (destruct (block_head_up upper _ _ _ EH); assumption).
  assert (N4 : NoT (z_toks (k_z k4))) by (eapply suf_Forall; eassumption).
  destruct (otok_is (z_cur (k_z k4)) K_TAXA).
  { destruct (parse_taxa_block lower upper c (S f) k4 (r_g s)) as [[k5 g5]|e|] eqn:E5; cbn [bind]; try reflexivity.
    apply IH. eapply suf_Forall; [exact (parse_taxa_block_suf lower upper c _ _ _ _ _ E5) | exact N4]. }
  destruct (otok_is (z_cur (k_z k4)) K_CHARACTERS || otok_is (z_cur (k_z k4)) K_DATA).
  { destruct (parse_chars k4 (r_g s) mats) as [[[k5 g5] mats5]|e|] eqn:E5; cbn [bind]; try reflexivity.
    apply IH. eapply suf_Forall; [exact (parse_chars_suf _ _ _ _ _ _ E5) | exact N4]. }
  destruct (otok_is (z_cur (k_z k4)) K_TREES) eqn:ETR.
  { exfalso. destruct (block_head_token _ _ _ EH) as [E|[t [p [E1 E2]]]]; [rewrite E in ETR; discriminate|].
    destruct (in_split_suffix t p _ _ _ E1 N) as [X _]. unfold tkw in X. rewrite E2 in ETR. congruence. }
  destruct (is_sets_kw (z_cur (k_z k4))).
  { destruct (parse_sets k4 (r_g s) mats) as [[[k5 g5] mats5]|e|] eqn:E5; cbn [bind]; try reflexivity.
    apply IH. eapply suf_Forall; [exact (parse_sets_suf _ _ _ _ _ _ E5) | exact N4]. }
  destruct (otok_is (z_cur (k_z k4)) K_BEGIN); [reflexivity|].
  destruct (zstep k4 _) as [k5|e|] eqn:E5; cbn [bind]; try reflexivity.
  apply IH. eapply suf_Forall; [|exact N4]. eapply zstep_suf; [apply consume_suf | eassumption].
Qed.

End CharsProofs.

(* the statement with every hypothesis spelled out *)
Lemma S_matrix_routes :
  forall (T M : Type) (lower upper : str -> str)
         (parse_tree : mapper -> tz -> res (option T * mapper * tz))
         (set_label : T -> option str -> T) (add_comments : T -> list str -> T)
         (vl : bool) (c : nscfg) (tlf : tl_factory)
         (parse_chars parse_sets : core -> regs -> list M -> res (core * regs * list M)),
  (forall m z ot m' z', parse_tree m z = Ok (ot, m', z') -> exists pre, z_toks z = pre ++ z_toks z') ->
  (forall k g ms k' g' ms', parse_chars k g ms = Ok (k', g', ms') -> exists pre, z_toks (k_z k) = pre ++ z_toks (k_z k')) ->
  (forall k g ms k' g' ms', parse_sets k g ms = Ok (k', g', ms') -> exists pre, z_toks (k_z k) = pre ++ z_toks (k_z k')) ->
  forall (fuel : nat) (s : rs T) (mats : list M),
  let run := c_blocks_loop T M lower upper parse_tree set_label add_comments vl c tlf parse_chars parse_sets in
  ((forall t, In t (z_toks (k_z (r_k s))) -> otok_is (Some (upper (t_text t))) K_TREES = false) ->
     run true fuel s mats = run false fuel s mats)
  /\ (forall pre post s1 m1 s2 m2,
        z_toks (k_z (r_k s)) = pre ++ post ->
        (forall t, In t pre -> otok_is (Some (upper (t_text t))) K_TREES = false) ->
        (forall t, In t post ->
           otok_is (Some (upper (t_text t))) K_CHARACTERS || otok_is (Some (upper (t_text t))) K_DATA
           || is_sets_kw (Some (upper (t_text t))) = false) ->
        run true fuel s mats = Ok (s1, m1) -> run false fuel s mats = Ok (s2, m2) -> m1 = m2).
Proof.
  intros T M lower upper parse_tree set_label add_comments vl c tlf parse_chars parse_sets HT HC HS fuel s mats run.
  split.
  - intros N. apply routes_equal_without_trees; try assumption.
    unfold NoT, tkw. apply Forall_forall. exact N.
  - intros pre post s1 m1 s2 m2 E N1 N2 H1 H2.
    apply (routes_same_matrices T M lower upper parse_tree set_label add_comments vl c tlf
             parse_chars parse_sets HT HC HS fuel s mats s1 m1 s2 m2); try assumption.
    exists pre, post. split; [exact E|]. split; [unfold NoT, tkw | unfold NoC, ckw]; apply Forall_forall; assumption.
Qed.
