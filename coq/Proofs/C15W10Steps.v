(* C15 wave 10, part 2: world_wf is PRESERVED by history steps, and the corollary for reachable worlds.

   winv s   the semantic invariant: the store is structurally sound (sok) and there is a forest F of rose trees,
            each with pairwise distinct node ids, whose roots are the live seeds in order and which the store
            holds (live: child lists and parent pointers are those of the tree, the root has no parent).
   winv s -> world_wf s = true   (the executable check of C15W9Store, fuel #nodes + 1)
   build_world establishes winv (C15W10Build), the covered steps preserve it. *)
From Coq Require Import ZArith List Bool Arith Lia.
From DV Require Import Model.PyPrims Model.Tree Model.C15Prims Model.C15WorldPrims
     Gen.Traversals Gen.TraversalsObj Model.C15Model Model.C15World
     Proofs.C15Base Proofs.C15Proofs Proofs.C15Apply Proofs.C15Order Proofs.C15Edges Proofs.C15Final
     Proofs.C15WorldProofs Proofs.C15Refused Proofs.C15W9Sim Proofs.C15W9Store Proofs.C15W10Build.
Import ListNotations.
Open Scope Z_scope.

Definition winv (s : store) : Prop :=
  sok s /\ exists F, s_trees s = map t_id F /\ Forall (live s) F /\ Forall (fun t => NoDup (ids t)) F.

Theorem winv_world_wf s : winv s -> world_wf s = true.
Proof.
  intros [_ [F [T [L N]]]]. unfold world_wf. rewrite T. apply forallb_forall. intros y Hy.
  apply in_map_iff in Hy. destruct Hy as [t [Et Ht]]. subst y. rewrite Forall_forall in L, N.
  apply live_wf_store; [exact (L t Ht)|exact (N t Ht)].
Qed.

Definition ext (s s' : store) : Prop :=
  s_trees s' = s_trees s /\
  forall y, dom s y -> dom s' y /\ kids_of s' y = kids_of s y /\ parent_of s' y = parent_of s y.

Lemma ext_refl s : ext s s.
Proof. split; [reflexivity|]. intros y Dy. repeat split; auto. Qed.

Lemma ext_trans a b c : ext a b -> ext b c -> ext a c.
Proof.
  intros [T1 F1] [T2 F2]. split; [congruence|]. intros y Dy. destruct (F1 y Dy) as [D1 [K1 P1]].
  destruct (F2 y D1) as [D2 [K2 P2]]. split; [exact D2|split; congruence].
Qed.

Lemma winv_ext s s' : winv s -> sok s' -> ext s s' -> winv s'.
Proof.
  intros [_ [F [T [L N]]]] So [T' Fr]. split; [exact So|]. exists F. split; [congruence|split; [|exact N]].
  rewrite Forall_forall in *. intros t Ht. exact (live_frame s s' t (L t Ht) Fr).
Qed.

Lemma mbind_inv {A B} (m : M A) (f : A -> M B) s r : mbind m f s = Ok r ->
  exists a s1, m s = Ok (a, s1) /\ f a s1 = Ok r.
Proof. unfold mbind. destruct (m s) as [[a s1]| |]; [|discriminate|discriminate]. intro H. exists a, s1. split; [reflexivity|exact H]. Qed.

(* ---- a list object no node uses as its child list ---- *)
Definition priv (s : store) (l : Z) : Prop :=
  list_of s l <> None /\ forall y r, node_of s y = Some r -> n_kids r <> l.

Lemma child_nodes_spec s n l s1 : sok s -> Node_child_nodes_obj n s = Ok (l, s1) ->
  sok s1 /\ ext s s1 /\ priv s1 l /\ s_held s1 = s_held s.
Proof.
  intros [S1 [S2 S3]] H. unfold Node_child_nodes_obj in H.
  apply mbind_inv in H. destruct H as [v1 [sa [Ha H]]].
  unfold o_child_list in Ha. destruct (node_of s n) as [rn|] eqn:En; [|discriminate]. inversion Ha; subst v1 sa. clear Ha.
  apply mbind_inv in H. destruct H as [v2 [sb [Hb H]]].
  unfold l_copy in Hb. destruct (list_of s (n_kids rn)) as [c0|] eqn:Ec; [|discriminate]. inversion Hb; subst v2 sb. clear Hb.
  unfold ret in H. inversion H; subst l. clear H.
  set (s1' := mkS _ _ _ _ _) in *. subst s1.
  assert (N : forall y, node_of s1' y = node_of s y) by reflexivity.
  assert (L : forall l, list_of s1' l = match list_of s l with Some c => Some c
                                       | None => if Z.eqb l (s_next s) then Some c0 else None end).
  { intro l. unfold list_of, s1'. simpl. rewrite alookup_app. reflexivity. }
  assert (Ln : list_of s (s_next s) = None).
  { destruct (list_of s (s_next s)) eqn:E; [|reflexivity]. apply S2 in E. lia. }
  assert (LK : forall y r, node_of s y = Some r -> list_of s1' (n_kids r) = list_of s (n_kids r)).
  { intros y r Hy. rewrite L. destruct (S1 y r Hy) as [_ B]. destruct (list_of s (n_kids r)); [reflexivity|contradiction]. }
  split; [|split; [|split; [|reflexivity]]].
  - split; [|split].
    + intros y r. rewrite N. intro Hy. destruct (S1 y r Hy) as [A B]. split; [simpl; lia|].
      rewrite (LK y r Hy). exact B.
    + intros l c. rewrite L. simpl s_next. destruct (list_of s l) eqn:El.
      * intros _. apply S2 in El. lia.
      * destruct (Z.eqb l (s_next s)) eqn:E; [|discriminate]. apply Z.eqb_eq in E. lia.
    + intros a b ra rb. rewrite !N. apply S3.
  - split; [reflexivity|]. intros y Dy. split; [exact Dy|]. split; [|reflexivity].
    unfold kids_of. rewrite N. destruct (node_of s y) as [r|] eqn:Ey; [|reflexivity]. rewrite (LK y r Ey). reflexivity.
  - split.
    + rewrite L, Ln, Z.eqb_refl. discriminate.
    + intros y r. rewrite N. intros Hy E. destruct (S1 y r Hy) as [A _]. lia.
Qed.

Lemma l_put_priv s l c s1 : sok s -> priv s l -> l_put l c s = Ok (tt, s1) -> sok s1 /\ ext s s1 /\ priv s1 l /\ s_held s1 = s_held s.
Proof.
  intros [S1 [S2 S3]] [P1 P2] H. unfold l_put in H. destruct (list_of s l) as [c0|] eqn:El; [|discriminate].
  inversion H; subst s1. clear H.
  set (s1 := set_lists s _).
  assert (N : forall y, node_of s1 y = node_of s y) by reflexivity.
  assert (L : forall l', list_of s1 l' = if Z.eqb l' l then Some c else list_of s l').
  { intro l'. unfold list_of, s1, set_lists. simpl. apply alookup_aset. }
  assert (LK : forall y r, node_of s y = Some r -> list_of s1 (n_kids r) = list_of s (n_kids r)).
  { intros y r Hy. rewrite L. destruct (Z.eqb (n_kids r) l) eqn:E; [|reflexivity]. apply Z.eqb_eq in E.
    exfalso. exact (P2 y r Hy E). }
  split; [|split; [|split; [|reflexivity]]].
  - split; [|split].
    + intros y r. rewrite N. intro Hy. destruct (S1 y r Hy) as [A B]. split; [exact A|]. rewrite (LK y r Hy). exact B.
    + intros l' c'. rewrite L. destruct (Z.eqb l' l) eqn:E; [|apply S2].
      apply Z.eqb_eq in E. subst l'. intros _. exact (S2 l c0 El).
    + intros a b ra rb. rewrite !N. apply S3.
  - split; [reflexivity|]. intros y Dy. split; [exact Dy|]. split; [|reflexivity].
    unfold kids_of. rewrite N. destruct (node_of s y) as [r|] eqn:Ey; [|reflexivity]. rewrite (LK y r Ey). reflexivity.
  - split; [rewrite L, Z.eqb_refl; discriminate|]. intros y r. rewrite N. apply P2.
Qed.

Lemma l_contents_inv l s c s1 : l_contents l s = Ok (c, s1) -> s1 = s.
Proof. unfold l_contents. destruct (list_of s l); [|discriminate]. intro H. inversion H. reflexivity. Qed.

Lemma new_node_inv s x s1 : sok s -> new_node x s = Ok (tt, s1) ->
  ~ dom s x /\ sok s1 /\ ext s s1 /\ s_held s1 = s_held s /\
  (forall y, dom s1 y <-> dom s y \/ y = x) /\ kids_of s1 x = [] /\ parent_of s1 x = None /\
  (forall l, priv s l -> priv s1 l).
Proof.
  intros So H.
  assert (Fx : ~ dom s x).
  { unfold dom. unfold new_node in H. destruct (node_of s x); [discriminate|]. intro F. apply F. reflexivity. }
  destruct (new_node_spec s x So Fx) as [s1' [E1 [So1 [T1 [H1 [D1 [F1 [K1 P1]]]]]]]].
  rewrite E1 in H. inversion H; subst s1'. clear H.
  split; [exact Fx|split; [exact So1|split; [|split; [exact H1|split; [exact D1|split; [exact K1|split; [exact P1|]]]]]]].
  - split; [exact T1|]. intros y Dy. split; [apply D1; left; exact Dy|]. apply F1. intro E. subst y. exact (Fx Dy).
  - intros l [Q1 Q2]. destruct So as [S1 [S2 S3]].
    unfold new_node in E1. unfold dom in Fx. destruct (node_of s x) eqn:Ex; [discriminate|]. inversion E1; subst s1. clear E1.
    split.
    + unfold list_of. simpl. rewrite alookup_app. fold (list_of s l). destruct (list_of s l); [discriminate|contradiction].
    + intros y r. unfold node_of. simpl. rewrite alookup_app. fold (node_of s y). destruct (node_of s y) eqn:Ey.
      * intro E. inversion E; subst. exact (Q2 y r Ey).
      * simpl. destruct (Z.eqb y x); [|discriminate]. intro E. inversion E; subst. simpl.
        destruct (list_of s l) eqn:El; [|contradiction]. apply S2 in El. lia.
Qed.

(* ---- edits of a private list ---- *)
Definition pinv (s0 : store) (l : Z) (s : store) : Prop :=
  sok s /\ ext s0 s /\ priv s l /\ s_held s = s_held s0.

Lemma pinv_put s0 l s c s1 : pinv s0 l s -> l_put l c s = Ok (tt, s1) -> pinv s0 l s1.
Proof.
  intros [So [E [P H]]] Hp. destruct (l_put_priv s l c s1 So P Hp) as [So1 [E1 [P1 H1]]].
  split; [exact So1|split; [exact (ext_trans _ _ _ E E1)|split; [exact P1|congruence]]].
Qed.

Lemma pinv_new s0 l s x s1 : pinv s0 l s -> new_node x s = Ok (tt, s1) -> pinv s0 l s1.
Proof.
  intros [So [E [P H]]] Hn. destruct (new_node_inv s x s1 So Hn) as [_ [So1 [E1 [H1 [_ [_ [_ PP]]]]]]].
  split; [exact So1|split; [exact (ext_trans _ _ _ E E1)|split; [exact (PP l P)|congruence]]].
Qed.

Lemma apply_edit_pinv s0 l e s s1 : pinv s0 l s -> apply_edit l e s = Ok (tt, s1) -> pinv s0 l s1.
Proof.
  intros P H. destruct e as [x|i x|i| |]; simpl in H.
  - apply mbind_inv in H. destruct H as [[] [sa [Ha H]]]. pose proof (pinv_new _ _ _ _ _ P Ha) as Pa.
    unfold l_append in H. apply mbind_inv in H. destruct H as [c [sb [Hb H]]].
    apply l_contents_inv in Hb. subst sb. exact (pinv_put _ _ _ _ _ Pa H).
  - apply mbind_inv in H. destruct H as [[] [sa [Ha H]]]. pose proof (pinv_new _ _ _ _ _ P Ha) as Pa.
    apply mbind_inv in H. destruct H as [c [sb [Hb H]]].
    apply l_contents_inv in Hb. subst sb. exact (pinv_put _ _ _ _ _ Pa H).
  - apply mbind_inv in H. destruct H as [c [sb [Hb H]]].
    apply l_contents_inv in Hb. subst sb. exact (pinv_put _ _ _ _ _ P H).
  - apply mbind_inv in H. destruct H as [c [sb [Hb H]]].
    apply l_contents_inv in Hb. subst sb. exact (pinv_put _ _ _ _ _ P H).
  - unfold l_clear in H. exact (pinv_put _ _ _ _ _ P H).
Qed.

Lemma apply_edits_pinv s0 l : forall es s s1, pinv s0 l s -> apply_edits l es s = Ok (tt, s1) -> pinv s0 l s1.
Proof.
  induction es as [|e r IH]; intros s s1 P H; simpl in H.
  - unfold ret in H. inversion H; subst. exact P.
  - apply mbind_inv in H. destruct H as [[] [sa [Ha H]]]. exact (IH sa s1 (apply_edit_pinv _ _ _ _ _ P Ha) H).
Qed.

(* ---- the covered step kinds ---- *)
(* kids = n.child_nodes(); any edits of that private list (appending / inserting NEW nodes, pop, reverse, clear);
   the caller keeps the list *)
Theorem step_private_copy_preserves s n es s1 : winv s ->
  do_step (SKids n es false) s = Ok (tt, s1) -> winv s1.
Proof.
  intros W H. pose proof W as [So _]. simpl in H.
  apply mbind_inv in H. destruct H as [l [sa [Ha H]]].
  destruct (child_nodes_spec s n l sa So Ha) as [Soa [Ea [Pa Ha']]].
  apply mbind_inv in H. destruct H as [[] [sb [Hb H]]].
  destruct (apply_edits_pinv sa l es sa sb) as [Sob [Eb [Pb Hb']]]; [|exact Hb|].
  { split; [exact Soa|split; [apply ext_refl|split; [exact Pa|reflexivity]]]. }
  unfold hold in H. inversion H; subst s1. clear H.
  apply (winv_ext s); [exact W| |].
  - destruct Sob as [S1 [S2 S3]]. split; [|split]; assumption.
  - destruct (ext_trans _ _ _ Ea Eb) as [T Fr]. split; [exact T|exact Fr].
Qed.

(* a new tree built later, from nodes that do not exist yet *)
Theorem step_new_tree_preserves s t s1 : winv s -> NoDup (ids t) -> (forall y, In y (ids t) -> ~ dom s y) ->
  do_step (SNewTree t) s = Ok (tt, s1) -> winv s1.
Proof.
  intros [So [F [T [L N]]]] Nt Fr H. simpl in H.
  destruct (new_tree_spec t s So Nt Fr) as [s1' [E1 [So1 [T1 [H1 [F1 [D1 L1]]]]]]].
  rewrite E1 in H. inversion H; subst s1'. clear H.
  split; [exact So1|]. exists (F ++ [t]). split; [rewrite T1, T, map_app; reflexivity|]. split.
  - apply Forall_app. split; [|constructor; [exact L1|constructor]].
    rewrite Forall_forall in *. intros u Hu. exact (live_frame s s1 u (L u Hu) F1).
  - apply Forall_app. split; [exact N|constructor; [exact Nt|constructor]].
Qed.

(* and it does succeed *)
Theorem step_new_tree_succeeds s t : winv s -> NoDup (ids t) -> (forall y, In y (ids t) -> ~ dom s y) ->
  exists s1, do_step (SNewTree t) s = Ok (tt, s1).
Proof.
  intros [So _] Nt Fr. destruct (new_tree_spec t s So Nt Fr) as [s1 [E1 _]]. exists s1. exact E1.
Qed.

(* build_world establishes the invariant *)
Theorem build_world_winv ts : NoDup (flat_map ids ts) ->
  exists s, build_world ts empty_store = Ok (tt, s) /\ winv s.
Proof.
  intro N. destruct (build_world_spec ts empty_store [] sok_empty (Forall_nil _) eq_refl N) as [s [E [So [L [T H]]]]].
  { intros y _ F. apply F. reflexivity. }
  simpl in L, T. exists s. split; [exact E|]. split; [exact So|]. exists ts. split; [exact T|split; [exact L|]].
  apply Forall_forall. intros t Ht. exact (NoDup_flat_map_in ids ts t N Ht).
Qed.

(* ---- x = n.new_child(): the tree gets a new leaf under n ---- *)
Lemma NoDup_app_intro {A} (a b : list A) : NoDup a -> NoDup b -> (forall x, In x a -> ~ In x b) -> NoDup (a ++ b).
Proof.
  induction a as [|h r IH]; simpl; intros Na Nb D; [exact Nb|].
  inversion Na as [|? ? Hh Nr]; subst. constructor.
  - intro F. apply in_app_or in F. destruct F as [F|F]; [exact (Hh F)|]. exact (D h (or_introl eq_refl) F).
  - apply IH; [exact Nr|exact Nb|]. intros y Hy. apply D. right. exact Hy.
Qed.

Definition leafx (x : Z) : tree := T x None None None [].

Section Graft.
  Variables n x : Z.

  Fixpoint graft (t : tree) : tree :=
    match t with
    | T i a b c ks => T i a b c (map graft ks ++ (if Z.eqb i n then [leafx x] else []))
    end.

  Lemma graft_id t : t_id (graft t) = t_id t.
  Proof. destruct t; reflexivity. Qed.

  Definition gin (old : list Z) (y : Z) : Prop := In y old \/ (y = x /\ In n old).

  Lemma In_graft_forest ks :
    (forall k, In k ks -> forall y, In y (ids (graft k)) <-> gin (ids k) y) ->
    forall y, In y (flat_map ids (map graft ks)) <-> gin (flat_map ids ks) y.
  Proof.
    unfold gin. induction ks as [|k r IH]; intros H y; simpl.
    - tauto.
    - rewrite !in_app_iff, (H k (or_introl eq_refl)), IH; [tauto|]. intros k' Hk'. apply H. right. exact Hk'.
  Qed.

  Lemma ids_graft_unfold i a b c ks :
    ids (graft (T i a b c ks)) = i :: flat_map ids (map graft ks) ++ (if Z.eqb i n then [x] else []).
  Proof.
    cbn [graft]. rewrite ids_unfold. f_equal. rewrite flat_map_app. f_equal.
    destruct (Z.eqb i n); reflexivity.
  Qed.

  Lemma In_graft : forall t y, In y (ids (graft t)) <-> gin (ids t) y.
  Proof.
    induction t as [i a b c ks IH] using tree_ind'. intro y. rewrite ids_graft_unfold, ids_unfold.
    rewrite Forall_forall in IH. pose proof (In_graft_forest ks IH y) as HF. unfold gin in *.
    simpl. rewrite in_app_iff, HF. destruct (Z.eqb i n) eqn:E.
    - apply Z.eqb_eq in E. subst i. simpl. intuition congruence.
    - apply Z.eqb_neq in E. simpl. intuition congruence.
  Qed.

  Lemma NoDup_graft_forest ks :
    (forall k, In k ks -> NoDup (ids k) -> ~ In x (ids k) -> NoDup (ids (graft k))) ->
    NoDup (flat_map ids ks) -> ~ In x (flat_map ids ks) -> NoDup (flat_map ids (map graft ks)).
  Proof.
    induction ks as [|k r IH]; intros H N Hx; simpl; [constructor|].
    simpl in N, Hx. destruct (NoDup_app_inv _ _ N) as [Nk [Nr Dis]].
    apply NoDup_app_intro.
    - apply H; [left; reflexivity|exact Nk|]. intro F. apply Hx. apply in_or_app. left. exact F.
    - apply IH; [intros k' Hk'; apply H; right; exact Hk'|exact Nr|]. intro F. apply Hx. apply in_or_app. right. exact F.
    - intros y Hy F. apply In_graft in Hy. apply (In_graft_forest r (fun k _ => In_graft k)) in F.
      unfold gin in *. destruct Hy as [Hy|[Ey Hy]], F as [F|[Ey' F]].
      + exact (Dis y Hy F).
      + subst y. apply Hx. apply in_or_app. left. exact Hy.
      + subst y. apply Hx. apply in_or_app. right. exact F.
      + exact (Dis n Hy F).
  Qed.

  Lemma NoDup_graft : forall t, NoDup (ids t) -> ~ In x (ids t) -> NoDup (ids (graft t)).
  Proof.
    induction t as [i a b c ks IH] using tree_ind'. intros N Hx. rewrite ids_graft_unfold. rewrite ids_unfold in N, Hx.
    inversion N as [|? ? Hi Nk]; subst. rewrite Forall_forall in IH.
    assert (Hxk : ~ In x (flat_map ids ks)) by (intro F; apply Hx; right; exact F).
    assert (Hxi : x <> i) by (intro F; apply Hx; left; symmetry; exact F).
    pose proof (NoDup_graft_forest ks (fun k Hk => IH k Hk) Nk Hxk) as NA.
    pose proof (In_graft_forest ks (fun k _ => In_graft k)) as MA. unfold gin in MA.
    constructor.
    - intro F. apply in_app_or in F. destruct F as [F|F].
      + apply MA in F. destruct F as [F|[F _]]; [exact (Hi F)|]. apply Hxi. symmetry. exact F.
      + destruct (Z.eqb i n); simpl in F; [destruct F as [F|[]]; exact (Hxi F)|destruct F].
    - apply NoDup_app_intro; [exact NA|destruct (Z.eqb i n); [constructor; [intros []|constructor]|constructor]|].
      intros y Hy F. destruct (Z.eqb i n) eqn:E; simpl in F; [|destruct F]. destruct F as [F|[]]. subst y.
      apply Z.eqb_eq in E. subst i. apply MA in Hy. destruct Hy as [Hy|[_ Hy]]; [exact (Hxk Hy)|exact (Hi Hy)].
  Qed.

  (* the effect of the step on the object graph *)
  Variables s s2 : store.
  Hypothesis Hx : ~ dom s x.
  Hypothesis KN : kids_of s2 n = kids_of s n ++ [x].
  Hypothesis KO : forall y, dom s y -> y <> n -> kids_of s2 y = kids_of s y.
  Hypothesis PO : forall y, dom s y -> parent_of s2 y = parent_of s y.
  Hypothesis KX : kids_of s2 x = [].
  Hypothesis PX : parent_of s2 x = Some n.

  Lemma grep_graft : forall t, grep s t -> (forall y, In y (ids t) -> dom s y) -> grep s2 (graft t).
  Proof.
    induction t as [i a b c ks IH] using tree_ind'. intros G D. inversion G as [? ? ? ? ? Gk GF]; subst.
    assert (Di : dom s i) by (apply D; rewrite ids_unfold; left; reflexivity).
    cbn [graft]. constructor.
    - rewrite map_app, map_map. rewrite (map_ext _ _ graft_id). destruct (Z.eqb i n) eqn:E.
      + apply Z.eqb_eq in E. subst i. rewrite KN, Gk. reflexivity.
      + apply Z.eqb_neq in E. rewrite (KO i Di E), Gk, app_nil_r. reflexivity.
    - apply Forall_app. split.
      + rewrite Forall_forall in *. intros k' Hk'. apply in_map_iff in Hk'. destruct Hk' as [k [Ek Hk]]. subst k'.
        destruct (GF k Hk) as [Pk Gk'].
        assert (Dk : forall y, In y (ids k) -> dom s y).
        { intros y Hy. apply D. rewrite ids_unfold. right. apply in_flat_map. exists k. split; assumption. }
        rewrite graft_id. split.
        * rewrite PO; [exact Pk|]. apply Dk. rewrite ids_head. left. reflexivity.
        * exact (IH k Hk Gk' Dk).
      + destruct (Z.eqb i n) eqn:E; [|constructor]. apply Z.eqb_eq in E. subst i.
        constructor; [|constructor]. split; [exact PX|]. constructor; [exact KX|constructor].
  Qed.
End Graft.

Theorem step_new_child_preserves s n x s1 : winv s ->
  ~ In x (kids_of s n) -> parent_of s n <> Some x ->     (* the new id x is not referenced by n yet *)
  do_step (SNewChild n x) s = Ok (tt, s1) -> winv s1.
Proof.
  intros [So [F [T [L N]]]] Hk Hp H. simpl in H.
  apply mbind_inv in H. destruct H as [[] [sa [Ha H]]].
  destruct (new_node_inv s x sa So Ha) as [Fx [Soa [[Ta Fra] [_ [Da [Kx [Px _]]]]]]].
  apply mbind_inv in H. destruct H as [v [sb [Hb H]]]. unfold ret in H. inversion H; subst s1. clear H.
  assert (Hxn : x <> n).
  { intro E. subst n. unfold Node_add_child_obj in Hb. rewrite Z.eqb_refl in Hb. simpl in Hb. discriminate. }
  assert (Dn' : dom sa n).
  { unfold dom. destruct (node_of sa n) eqn:En; [discriminate|]. exfalso.
    unfold Node_add_child_obj in Hb. replace (Z.eqb x n) with false in Hb by (symmetry; apply Z.eqb_neq; exact Hxn).
    cbn [negb] in Hb. unfold mbind at 1 in Hb. unfold o_get_parent in Hb. rewrite En in Hb. discriminate. }
  assert (Dn : dom s n).
  { apply Da in Dn'. destruct Dn' as [D|D]; [exact D|]. exfalso. apply Hxn. symmetry. exact D. }
  assert (Dx : dom sa x) by (apply Da; right; reflexivity).
  destruct (Fra n Dn) as [_ [Kn Pn]].
  destruct (add_child_spec sa n x Soa Dn' Dx Hxn) as [sb' [E2 [So2 [T2 [H2 [D2 [KO2 [KI2 [PO2 PK2]]]]]]]]].
  { rewrite Pn. exact Hp. }
  { rewrite Kn. exact Hk. }
  rewrite E2 in Hb. inversion Hb; subst v sb'. clear Hb.
  assert (KN : kids_of sb n = kids_of s n ++ [x]) by (rewrite KI2, Kn; reflexivity).
  assert (KO : forall y, dom s y -> y <> n -> kids_of sb y = kids_of s y).
  { intros y Dy Hy. rewrite (KO2 y Hy). apply Fra. exact Dy. }
  assert (PO : forall y, dom s y -> parent_of sb y = parent_of s y).
  { intros y Dy. rewrite PO2; [apply Fra; exact Dy|]. intro E. subst y. exact (Fx Dy). }
  assert (KX : kids_of sb x = []) by (rewrite (KO2 x Hxn); exact Kx).
  split; [exact So2|]. exists (map (graft n x) F). split; [|split].
  - rewrite T2, Ta, T, map_map. apply map_ext. intro t. symmetry. apply graft_id.
  - rewrite Forall_forall in *. intros t' Ht'. apply in_map_iff in Ht'. destruct Ht' as [t [Et Ht]]. subst t'.
    destruct (L t Ht) as [G [P D]]. split; [|split].
    + exact (grep_graft n x s sb KN KO PO KX PK2 t G D).
    + rewrite graft_id, PO; [exact P|]. apply D. rewrite ids_head. left. reflexivity.
    + intros y Hy. apply In_graft in Hy. apply D2. apply Da. destruct Hy as [Hy|[Hy _]]; [left; exact (D y Hy)|right; exact Hy].
  - rewrite Forall_forall in *. intros t' Ht'. apply in_map_iff in Ht'. destruct Ht' as [t [Et Ht]]. subst t'.
    apply NoDup_graft; [exact (N t Ht)|]. intro F'. destruct (L t Ht) as [_ [_ D]]. exact (Fx (D x F')).
Qed.

(* a refused call leaves the store (Model/C15World.v: steps_ok / history_wf go on with the store before) *)
Theorem step_refused_preserves s k p n e : winv s -> do_step (SRefused k p n) s = Err e -> winv s.
Proof. intros W _. exact W. Qed.


(* ---- n.parent_node.remove_child(n) of a real child: the subtree at n leaves the tree ---- *)
Lemma remove_child_spec s q n : sok s -> dom s q -> dom s n -> In n (kids_of s q) ->
  exists s', remove_child q n s = Ok (tt, s') /\ sok s' /\ s_trees s' = s_trees s /\
    (forall y, dom s' y <-> dom s y) /\
    kids_of s' q = remove_first n (kids_of s q) /\ (forall y, y <> q -> kids_of s' y = kids_of s y) /\
    parent_of s' n = None /\ (forall y, y <> n -> parent_of s' y = parent_of s y).
Proof.
  intros [S1 [S2 S3]] Dq Dn Hin. unfold dom in *.
  destruct (node_of s q) as [rq|] eqn:Eq; [|contradiction]. destruct (node_of s n) as [rn|] eqn:En; [|contradiction].
  destruct (S1 q rq Eq) as [_ Lc]. destruct (list_of s (n_kids rq)) as [c|] eqn:Ec; [|contradiction]. clear Lc.
  assert (Kq : kids_of s q = c) by (unfold kids_of; rewrite Eq, Ec; reflexivity). rewrite Kq in *.
  assert (Hm : C15WorldPrims.memZ n c = true) by (change (C15Model.memZ n c = true); apply memZ_In; exact Hin).
  set (s1 := set_nodes s (aset n (mkN (n_kids rn) None) (s_nodes s))).
  set (s2 := set_nodes s1 (aset n (mkN (n_kids rn) None) (s_nodes s1))).
  set (s3 := set_lists s2 (aset (n_kids rq) (remove_first n c) (s_lists s2))).
  assert (N1 : forall y, node_of s1 y = if Z.eqb y n then Some (mkN (n_kids rn) None) else node_of s y).
  { intro y. unfold node_of, s1, set_nodes. simpl. apply alookup_aset. }
  assert (N2 : forall y, node_of s2 y = node_of s1 y).
  { intro y. change (alookup y (aset n (mkN (n_kids rn) None) (s_nodes s1)) = node_of s1 y).
    rewrite alookup_aset. change (alookup y (s_nodes s1)) with (node_of s1 y). rewrite N1.
    destruct (Z.eqb y n); reflexivity. }
  assert (N3 : forall y, node_of s3 y = node_of s1 y) by (intro y; rewrite <- N2; reflexivity).
  assert (L12 : forall l, list_of s2 l = list_of s l) by reflexivity.
  assert (L3 : forall l, list_of s3 l = if Z.eqb l (n_kids rq) then Some (remove_first n c) else list_of s l).
  { intro l. unfold list_of, s3, set_lists. simpl. apply alookup_aset. }
  assert (Kq1 : forall st, (forall y, node_of st y = node_of s1 y) -> o_child_list q st = Ok (n_kids rq, st)).
  { intros st H. unfold o_child_list. rewrite H, N1. destruct (Z.eqb q n) eqn:E; [|rewrite Eq; reflexivity].
    apply Z.eqb_eq in E. subst q. rewrite En in Eq. inversion Eq; subst. reflexivity. }
  assert (G1 : o_get_parent n s1 = Ok (None, s1)) by (unfold o_get_parent; rewrite N1, Z.eqb_refl; reflexivity).
  assert (G2 : o_get_parent n s2 = Ok (None, s2)) by (unfold o_get_parent; rewrite N2, N1, Z.eqb_refl; reflexivity).
  exists s3. split.
  { unfold remove_child.
    erewrite mbind_ok; [|unfold o_child_list; rewrite Eq; reflexivity].
    erewrite mbind_ok; [|unfold l_mem; erewrite mbind_ok; [|unfold l_contents; rewrite Ec; reflexivity]; reflexivity].
    rewrite Hm.
    erewrite mbind_ok with (a := tt) (s' := s1); [|unfold o_set_parent; rewrite En; reflexivity].
    erewrite mbind_ok with (a := tt) (s' := s2).
    2:{ unfold Node_set_parent_node_obj. unfold mbind at 1. erewrite mbind_ok; [|exact G1]. cbn [negb]. unfold ret at 1.
        erewrite mbind_ok with (a := tt) (s' := s2); [|unfold o_set_parent; rewrite N1, Z.eqb_refl; reflexivity].
        erewrite mbind_ok; [|exact G2]. reflexivity. }
    unfold l_remove. erewrite mbind_ok; [|unfold l_contents; rewrite L12, Ec; reflexivity]. rewrite Hm.
    unfold l_put. rewrite L12, Ec. reflexivity. }
  assert (NK : forall y r, node_of s3 y = Some r -> exists r0, node_of s y = Some r0 /\ n_kids r = n_kids r0).
  { intros y r. rewrite N3, N1. destruct (Z.eqb y n) eqn:E.
    - apply Z.eqb_eq in E. subst y. intro H. inversion H; subst. exists rn. split; [exact En|reflexivity].
    - intro H. exists r. split; [exact H|reflexivity]. }
  split; [|split; [reflexivity|split; [|split; [|split; [|split]]]]].
  - split; [|split].
    + intros y r Hy. destruct (NK y r Hy) as [r0 [E0 Ek0]]. rewrite Ek0. destruct (S1 y r0 E0) as [A B].
      split; [exact A|]. rewrite L3. destruct (Z.eqb (n_kids r0) (n_kids rq)); [discriminate|exact B].
    + intros l c0. rewrite L3. destruct (Z.eqb l (n_kids rq)) eqn:E.
      * intros _. apply Z.eqb_eq in E. subst l. exact (S2 _ _ Ec).
      * apply S2.
    + intros a b ra rb Ha Hb E. destruct (NK a ra Ha) as [ra0 [Ea0 Eka]]. destruct (NK b rb Hb) as [rb0 [Eb0 Ekb]].
      apply (S3 a b ra0 rb0 Ea0 Eb0). congruence.
  - intro y. rewrite N3, N1. destruct (Z.eqb y n) eqn:E; [|reflexivity].
    apply Z.eqb_eq in E. subst y. rewrite En. split; intros _; discriminate.
  - unfold kids_of at 1. destruct (node_of s3 q) as [r|] eqn:E3.
    + destruct (NK q r E3) as [r0 [E0 Ek0]]. rewrite Eq in E0. inversion E0; subst r0. rewrite Ek0, L3, Z.eqb_refl. reflexivity.
    + exfalso. rewrite N3, N1 in E3. destruct (Z.eqb q n); [discriminate|]. rewrite Eq in E3. discriminate.
  - intros y Hy. unfold kids_of. destruct (node_of s3 y) as [r|] eqn:E3.
    + destruct (NK y r E3) as [r0 [E0 Ek0]]. rewrite E0, Ek0, L3.
      destruct (Z.eqb (n_kids r0) (n_kids rq)) eqn:F; [|reflexivity].
      apply Z.eqb_eq in F. exfalso. apply Hy. exact (S3 y q r0 rq E0 Eq F).
    + rewrite N3, N1 in E3. destruct (Z.eqb y n); [discriminate|]. rewrite E3. reflexivity.
  - unfold parent_of. rewrite N3, N1, Z.eqb_refl. reflexivity.
  - intros y Hy. apply Z.eqb_neq in Hy. unfold parent_of. rewrite N3, N1, Hy. reflexivity.
Qed.

Lemma remove_first_filter n l : NoDup l -> remove_first n l = filter (fun y => negb (Z.eqb y n)) l.
Proof.
  induction 1 as [|a r Ha _ IH]; simpl; [reflexivity|]. rewrite (Z.eqb_sym a n). destruct (Z.eqb n a) eqn:E; simpl.
  - apply Z.eqb_eq in E. subst a. clear IH. induction r as [|b r IHr]; simpl; [reflexivity|].
    destruct (Z.eqb b n) eqn:F; simpl.
    + apply Z.eqb_eq in F. subst b. exfalso. apply Ha. left. reflexivity.
    + f_equal. apply IHr. intro G. apply Ha. right. exact G.
  - f_equal. exact IH.
Qed.

Lemma kid_ids_sub ks : forall y, In y (map t_id ks) -> In y (flat_map ids ks).
Proof.
  intros y Hy. apply in_map_iff in Hy. destruct Hy as [k [E Hk]]. subst y. apply in_flat_map. exists k.
  split; [exact Hk|rewrite ids_head; left; reflexivity].
Qed.

Lemma NoDup_kid_ids ks : NoDup (flat_map ids ks) -> NoDup (map t_id ks).
Proof.
  induction ks as [|k r IH]; simpl; intro N; [constructor|].
  destruct (NoDup_app_inv _ _ N) as [Nk [Nr Dis]]. constructor; [|exact (IH Nr)].
  intro F. apply kid_ids_sub in F. apply (Dis (t_id k)); [rewrite ids_head; left; reflexivity|exact F].
Qed.

Lemma filter_all {A} (f : A -> bool) l : (forall y, In y l -> f y = true) -> filter f l = l.
Proof.
  induction l as [|a r IH]; simpl; intro H; [reflexivity|]. rewrite (H a (or_introl eq_refl)). f_equal.
  apply IH. intros y Hy. apply H. right. exact Hy.
Qed.

Section Prune.
  Variable n : Z.

  Fixpoint prune (t : tree) : tree :=
    match t with
    | T i a b c ks =>
      T i a b c ((fix go (ks : list tree) : list tree :=
                   match ks with
                   | [] => []
                   | k :: r => if Z.eqb (t_id k) n then go r else prune k :: go r
                   end) ks)
    end.

  Fixpoint prune_kids (ks : list tree) : list tree :=
    match ks with
    | [] => []
    | k :: r => if Z.eqb (t_id k) n then prune_kids r else prune k :: prune_kids r
    end.

  Lemma prune_eq i a b c ks : prune (T i a b c ks) = T i a b c (prune_kids ks).
  Proof.
    cbn [prune]. f_equal.
  Qed.

  Lemma prune_id t : t_id (prune t) = t_id t.
  Proof. destruct t; reflexivity. Qed.

  Lemma prune_kids_ids ks : map t_id (prune_kids ks) = filter (fun y => negb (Z.eqb y n)) (map t_id ks).
  Proof.
    induction ks as [|k r IH]; simpl; [reflexivity|]. destruct (Z.eqb (t_id k) n); simpl; [exact IH|].
    rewrite prune_id, IH. reflexivity.
  Qed.

  Lemma prune_kids_In k' ks : In k' (prune_kids ks) -> exists k, In k ks /\ k' = prune k /\ t_id k <> n.
  Proof.
    induction ks as [|k r IH]; simpl; [intros []|]. destruct (Z.eqb (t_id k) n) eqn:E.
    - intro H. destruct (IH H) as [k0 [A B]]. exists k0. split; [right; exact A|exact B].
    - apply Z.eqb_neq in E. intros [H|H].
      + exists k. split; [left; reflexivity|split; [symmetry; exact H|exact E]].
      + destruct (IH H) as [k0 [A B]]. exists k0. split; [right; exact A|exact B].
  Qed.

  Lemma prune_kids_sub ks : (forall k, In k ks -> forall y, In y (ids (prune k)) -> In y (ids k)) ->
    forall y, In y (flat_map ids (prune_kids ks)) -> In y (flat_map ids ks).
  Proof.
    induction ks as [|k r IH]; intros H y; simpl; [tauto|]. destruct (Z.eqb (t_id k) n); simpl.
    - intro F. apply in_or_app. right. apply IH; [intros k' Hk'; apply H; right; exact Hk'|exact F].
    - rewrite !in_app_iff. intros [F|F]; [left; apply (H k (or_introl eq_refl)); exact F|].
      right. apply IH; [intros k' Hk'; apply H; right; exact Hk'|exact F].
  Qed.

  Lemma prune_sub : forall t y, In y (ids (prune t)) -> In y (ids t).
  Proof.
    induction t as [i a b c ks IH] using tree_ind'. intro y. rewrite prune_eq, !ids_unfold. rewrite Forall_forall in IH.
    intros [F|F]; [left; exact F|right; exact (prune_kids_sub ks IH y F)].
  Qed.

  Lemma NoDup_prune_kids ks : (forall k, In k ks -> NoDup (ids k) -> NoDup (ids (prune k))) ->
    NoDup (flat_map ids ks) -> NoDup (flat_map ids (prune_kids ks)).
  Proof.
    induction ks as [|k r IH]; intros H N; simpl; [constructor|]. simpl in N.
    destruct (NoDup_app_inv _ _ N) as [Nk [Nr Dis]].
    assert (IHr : NoDup (flat_map ids (prune_kids r))) by (apply IH; [intros k' Hk'; apply H; right; exact Hk'|exact Nr]).
    destruct (Z.eqb (t_id k) n); [exact IHr|]. simpl. apply NoDup_app_intro; [apply H; [left; reflexivity|exact Nk]|exact IHr|].
    intros y Hy F. apply (Dis y); [exact (prune_sub k y Hy)|]. exact (prune_kids_sub r (fun k' _ => prune_sub k') y F).
  Qed.

  Lemma NoDup_prune : forall t, NoDup (ids t) -> NoDup (ids (prune t)).
  Proof.
    induction t as [i a b c ks IH] using tree_ind'. intro N. rewrite prune_eq, ids_unfold. rewrite ids_unfold in N.
    inversion N as [|? ? Hi Nk]; subst. rewrite Forall_forall in IH. constructor.
    - intro F. apply Hi. exact (prune_kids_sub ks (fun k' _ => prune_sub k') i F).
    - exact (NoDup_prune_kids ks IH Nk).
  Qed.

  Variables (q : Z) (s s' : store).
  Hypothesis Pn : parent_of s n = Some q.
  Hypothesis KQ : kids_of s' q = remove_first n (kids_of s q).
  Hypothesis KO : forall y, y <> q -> kids_of s' y = kids_of s y.
  Hypothesis PO : forall y, y <> n -> parent_of s' y = parent_of s y.

  Lemma grep_prune : forall t, grep s t -> NoDup (ids t) -> grep s' (prune t).
  Proof.
    induction t as [i a b c ks IH] using tree_ind'. intros G N. inversion G as [? ? ? ? ? Gk GF]; subst.
    rewrite ids_unfold in N. inversion N as [|? ? Hi Nk]; subst.
    rewrite prune_eq. constructor.
    - rewrite prune_kids_ids. destruct (Z.eq_dec i q) as [E|E].
      + subst i. rewrite KQ, Gk. apply remove_first_filter. exact (NoDup_kid_ids ks Nk).
      + rewrite (KO i E), Gk. symmetry. apply filter_all. intros y Hy.
        apply negb_true_iff. apply Z.eqb_neq. intro F. subst y. apply in_map_iff in Hy. destruct Hy as [k [Ek Hk]].
        rewrite Forall_forall in GF. destruct (GF k Hk) as [Pk _]. rewrite Ek, Pn in Pk. inversion Pk. apply E. symmetry. assumption.
    - apply Forall_forall. intros k' Hk'. apply prune_kids_In in Hk'. destruct Hk' as [k [Hk [Ek Hkn]]]. subst k'.
      rewrite Forall_forall in GF, IH. destruct (GF k Hk) as [Pk Gk']. rewrite prune_id. split.
      + rewrite (PO _ Hkn). exact Pk.
      + apply (IH k Hk Gk'). exact (NoDup_flat_map_in ids ks k Nk Hk).
  Qed.
End Prune.

Theorem step_remove_child_preserves s n s1 : winv s ->
  do_step (SRemoveChild n) s = Ok (tt, s1) -> winv s1.
Proof.
  intros [So [F [T [L N]]]] H. simpl in H.
  apply mbind_inv in H. destruct H as [p [sa [Ha H]]].
  unfold o_get_parent in Ha. destruct (node_of s n) as [rn|] eqn:En; [|discriminate]. inversion Ha; subst p sa. clear Ha.
  destruct (n_parent rn) as [q|] eqn:Eq; [|discriminate].
  assert (Pn : parent_of s n = Some q) by (unfold parent_of; rewrite En; exact Eq).
  assert (Dn : dom s n) by (unfold dom; rewrite En; discriminate).
  pose proof H as H0. unfold remove_child in H0.
  apply mbind_inv in H0. destruct H0 as [ch [sb [Hb H0]]].
  unfold o_child_list in Hb. destruct (node_of s q) as [rq|] eqn:Enq; [|discriminate]. inversion Hb; subst ch sb. clear Hb.
  assert (Dq : dom s q) by (unfold dom; rewrite Enq; discriminate).
  apply mbind_inv in H0. destruct H0 as [b [sc [Hc H0]]].
  unfold l_mem in Hc. apply mbind_inv in Hc. destruct Hc as [c [sd [Hd Hc]]].
  unfold l_contents in Hd. destruct (list_of s (n_kids rq)) as [c0|] eqn:Ec; [|discriminate]. inversion Hd; subst c sd. clear Hd.
  unfold ret in Hc. inversion Hc; subst b sc. clear Hc.
  assert (Hin : In n (kids_of s q)).
  { unfold kids_of. rewrite Enq, Ec. destruct (C15WorldPrims.memZ n c0) eqn:E; [|discriminate].
    change (C15Model.memZ n c0 = true) in E. apply memZ_In in E. exact E. }
  clear H0.
  destruct (remove_child_spec s q n So Dq Dn Hin) as [s' [E1 [So1 [T1 [D1 [KQ [KO [PN PO]]]]]]]].
  rewrite E1 in H. inversion H; subst s'. clear H.
  split; [exact So1|]. exists (map (prune n) F). split; [|split].
  - rewrite T1, T, map_map. apply map_ext. intro t. symmetry. apply prune_id.
  - rewrite Forall_forall in *. intros t' Ht'. apply in_map_iff in Ht'. destruct Ht' as [t [Et Ht]]. subst t'.
    destruct (L t Ht) as [G [P D]]. split; [|split].
    + exact (grep_prune n q s s1 Pn KQ KO PO t G (N t Ht)).
    + rewrite prune_id. destruct (Z.eq_dec (t_id t) n) as [E|E]; [rewrite E; exact PN|rewrite (PO _ E); exact P].
    + intros y Hy. apply D1. apply D. exact (prune_sub n t y Hy).
  - rewrite Forall_forall in *. intros t' Ht'. apply in_map_iff in Ht'. destruct Ht' as [t [Et Ht]]. subst t'.
    apply NoDup_prune. exact (N t Ht).
Qed.


(* ---- n.parent_node = None through the managed setter, n a real child of its parent q: n is spliced out ---- *)
Lemma detach_spec s q n : sok s -> dom s q -> dom s n -> parent_of s n = Some q -> In n (kids_of s q) ->
  exists s', Node_set_parent_node_obj n None s = Ok (tt, s') /\ sok s' /\ s_trees s' = s_trees s /\
    s_held s' = s_held s /\
    (forall y, dom s' y <-> dom s y) /\
    kids_of s' q = remove_first n (kids_of s q) /\ (forall y, y <> q -> kids_of s' y = kids_of s y) /\
    parent_of s' n = None /\ (forall y, y <> n -> parent_of s' y = parent_of s y).
Proof.
  intros [S1 [S2 S3]] Dq Dn Pn Hin. unfold dom in *.
  destruct (node_of s q) as [rq|] eqn:Eq; [|contradiction]. destruct (node_of s n) as [rn|] eqn:En; [|contradiction].
  destruct (S1 q rq Eq) as [_ Lc]. destruct (list_of s (n_kids rq)) as [c|] eqn:Ec; [|contradiction]. clear Lc.
  assert (Kq : kids_of s q = c) by (unfold kids_of; rewrite Eq, Ec; reflexivity). rewrite Kq in *.
  assert (Pn' : n_parent rn = Some q) by (unfold parent_of in Pn; rewrite En in Pn; exact Pn).
  assert (Hm : C15WorldPrims.memZ n c = true) by (change (C15Model.memZ n c = true); apply memZ_In; exact Hin).
  set (s1 := set_lists s (aset (n_kids rq) (remove_first n c) (s_lists s))).
  set (s3 := set_nodes s1 (aset n (mkN (n_kids rn) None) (s_nodes s1))).
  assert (N1 : forall y, node_of s1 y = node_of s y) by reflexivity.
  assert (N3 : forall y, node_of s3 y = if Z.eqb y n then Some (mkN (n_kids rn) None) else node_of s y).
  { intro y. unfold node_of, s3, set_nodes. simpl. apply alookup_aset. }
  assert (L3 : forall l, list_of s3 l = if Z.eqb l (n_kids rq) then Some (remove_first n c) else list_of s l).
  { intro l. change (alookup l (aset (n_kids rq) (remove_first n c) (s_lists s)) = if Z.eqb l (n_kids rq) then Some (remove_first n c) else list_of s l).
    apply alookup_aset. }
  assert (G0 : o_get_parent n s = Ok (Some q, s)) by (unfold o_get_parent; rewrite En, Pn'; reflexivity).
  assert (G3 : o_get_parent n s3 = Ok (None, s3)) by (unfold o_get_parent; rewrite N3, Z.eqb_refl; reflexivity).
  exists s3. split.
  { unfold Node_set_parent_node_obj. unfold mbind at 1. erewrite mbind_ok; [|exact G0]. cbn [negb].
    assert (TR : mtry_value (mbind (o_get_parent n) (fun v2 => match v2 with
                    | Some v3 => mbind (o_child_list v3) (fun v4 => l_remove v4 n)
                    | None => raise AttrErr end)) s = Ok (tt, s1)).
    { assert (IN : mbind (o_get_parent n) (fun v2 => match v2 with
                    | Some v3 => mbind (o_child_list v3) (fun v4 => l_remove v4 n)
                    | None => raise AttrErr end) s = Ok (tt, s1)).
      { erewrite mbind_ok; [|exact G0]. cbv beta iota.
        erewrite mbind_ok; [|unfold o_child_list; rewrite Eq; reflexivity].
        unfold l_remove. erewrite mbind_ok; [|unfold l_contents; rewrite Ec; reflexivity]. rewrite Hm.
        unfold l_put. rewrite Ec. reflexivity. }
      unfold mtry_value. rewrite IN. reflexivity. }
    rewrite TR.
    erewrite mbind_ok with (a := tt) (s' := s3); [|unfold o_set_parent; rewrite N1, En; reflexivity].
    erewrite mbind_ok; [|exact G3]. reflexivity. }
  assert (NK : forall y r, node_of s3 y = Some r -> exists r0, node_of s y = Some r0 /\ n_kids r = n_kids r0).
  { intros y r. rewrite N3. destruct (Z.eqb y n) eqn:E.
    - apply Z.eqb_eq in E. subst y. intro H. inversion H; subst. exists rn. split; [exact En|reflexivity].
    - intro H. exists r. split; [exact H|reflexivity]. }
  split; [|split; [reflexivity|split; [reflexivity|split; [|split; [|split; [|split]]]]]].
  - split; [|split].
    + intros y r Hy. destruct (NK y r Hy) as [r0 [E0 Ek0]]. rewrite Ek0. destruct (S1 y r0 E0) as [A B].
      split; [exact A|]. rewrite L3. destruct (Z.eqb (n_kids r0) (n_kids rq)); [discriminate|exact B].
    + intros l c0. rewrite L3. destruct (Z.eqb l (n_kids rq)) eqn:E.
      * intros _. apply Z.eqb_eq in E. subst l. exact (S2 _ _ Ec).
      * apply S2.
    + intros a b ra rb Ha Hb E. destruct (NK a ra Ha) as [ra0 [Ea0 Eka]]. destruct (NK b rb Hb) as [rb0 [Eb0 Ekb]].
      apply (S3 a b ra0 rb0 Ea0 Eb0). congruence.
  - intro y. rewrite N3. destruct (Z.eqb y n) eqn:E; [|reflexivity].
    apply Z.eqb_eq in E. subst y. rewrite En. split; intros _; discriminate.
  - unfold kids_of at 1. destruct (node_of s3 q) as [r|] eqn:E3.
    + destruct (NK q r E3) as [r0 [E0 Ek0]]. rewrite Eq in E0. inversion E0; subst r0. rewrite Ek0, L3, Z.eqb_refl. reflexivity.
    + exfalso. rewrite N3 in E3. destruct (Z.eqb q n); [discriminate|]. rewrite Eq in E3. discriminate.
  - intros y Hy. unfold kids_of. destruct (node_of s3 y) as [r|] eqn:E3.
    + destruct (NK y r E3) as [r0 [E0 Ek0]]. rewrite E0, Ek0, L3.
      destruct (Z.eqb (n_kids r0) (n_kids rq)) eqn:F; [|reflexivity].
      apply Z.eqb_eq in F. exfalso. apply Hy. exact (S3 y q r0 rq E0 Eq F).
    + rewrite N3 in E3. destruct (Z.eqb y n); [discriminate|]. rewrite E3. reflexivity.
  - unfold parent_of. rewrite N3, Z.eqb_refl. reflexivity.
  - intros y Hy. apply Z.eqb_neq in Hy. unfold parent_of. rewrite N3, Hy. reflexivity.
Qed.

(* ---- subtrees ---- *)
Inductive subtree (u : tree) : tree -> Prop :=
| sub_here : subtree u u
| sub_kid i a b c ks k : In k ks -> subtree u k -> subtree u (T i a b c ks).

Lemma subtree_ids u t : subtree u t -> forall y, In y (ids u) -> In y (ids t).
Proof.
  induction 1 as [|i a b c ks k Hk _ IH]; intros y Hy; [exact Hy|]. rewrite ids_unfold. right.
  apply in_flat_map. exists k. split; [exact Hk|exact (IH y Hy)].
Qed.

Lemma subtree_NoDup u t : subtree u t -> NoDup (ids t) -> NoDup (ids u).
Proof.
  induction 1 as [|i a b c ks k Hk _ IH]; intro N; [exact N|]. rewrite ids_unfold in N.
  inversion N as [|? ? _ Nk]; subst. exact (IH (NoDup_flat_map_in ids ks k Nk Hk)).
Qed.

Lemma subtree_grep s u t : subtree u t -> grep s t -> grep s u.
Proof.
  induction 1 as [|i a b c ks k Hk _ IH]; intro G; [exact G|]. inversion G as [? ? ? ? ? _ GF]; subst.
  rewrite Forall_forall in GF. exact (IH (proj2 (GF k Hk))).
Qed.

Lemma subtree_exists n : forall t, In n (ids t) -> exists u, subtree u t /\ t_id u = n.
Proof.
  induction t as [i a b c ks IH] using tree_ind'. rewrite ids_unfold. intros [E|H].
  - exists (T i a b c ks). split; [constructor|exact E].
  - apply in_flat_map in H. destruct H as [k [Hk Hn]]. rewrite Forall_forall in IH.
    destruct (IH k Hk Hn) as [u [Su Eu]]. exists u. split; [exact (sub_kid u i a b c ks k Hk Su)|exact Eu].
Qed.

(* a proper subtree hangs under a node of t whose id is not inside it, and its parent pointer is that node *)
Lemma subtree_parent s u t : subtree u t -> grep s t -> NoDup (ids t) -> u = t \/
  exists p, parent_of s (t_id u) = Some p /\ ~ In p (ids u).
Proof.
  induction 1 as [|i a b c ks k Hk Su IH]; intros G N; [left; reflexivity|]. right.
  inversion G as [? ? ? ? ? _ GF]; subst. rewrite Forall_forall in GF. destruct (GF k Hk) as [Pk Gk].
  rewrite ids_unfold in N. inversion N as [|? ? Hi Nk]; subst.
  destruct (IH Gk (NoDup_flat_map_in ids ks k Nk Hk)) as [E|[p [Pp Hp]]].
  - subst u. exists i. split; [exact Pk|]. intro F. apply Hi. apply in_flat_map. exists k. split; assumption.
  - exists p. split; assumption.
Qed.

Lemma subtree_parent2 s u t : subtree u t -> grep s t -> NoDup (ids t) -> u = t \/
  exists p, parent_of s (t_id u) = Some p /\ ~ In p (ids u) /\ In (t_id u) (kids_of s p) /\ In p (ids t).
Proof.
  induction 1 as [|i a b c ks k Hk Su IH]; intros G N; [left; reflexivity|]. right.
  inversion G as [? ? ? ? ? GK GF]; subst. rewrite Forall_forall in GF. destruct (GF k Hk) as [Pk Gk].
  rewrite ids_unfold in N. inversion N as [|? ? Hi Nk]; subst.
  assert (Sub : forall y, In y (ids k) -> In y (flat_map ids ks)).
  { intros y Hy. apply in_flat_map. exists k. split; assumption. }
  destruct (IH Gk (NoDup_flat_map_in ids ks k Nk Hk)) as [E|[p [Pp [Hp [Kp Ip]]]]].
  - subst u. exists i. split; [exact Pk|split; [|split]].
    + intro F. apply Hi. exact (Sub i F).
    + rewrite GK. apply in_map. exact Hk.
    + rewrite ids_unfold. left. reflexivity.
  - exists p. split; [exact Pp|split; [exact Hp|split; [exact Kp|]]]. rewrite ids_unfold. right. exact (Sub p Ip).
Qed.

Lemma in_firstn {A} (x : A) k l : In x (firstn k l) -> In x l.
Proof. intro H. rewrite <- (firstn_skipn k l). apply in_or_app. left. exact H. Qed.
Lemma in_skipn {A} (x : A) k l : In x (skipn k l) -> In x l.
Proof. intro H. rewrite <- (firstn_skipn k l). apply in_or_app. right. exact H. Qed.

(* n lies in a live tree (an id of the tree read off the store at some live seed) *)
Definition in_live_tree (s : store) (n : Z) : Prop :=
  exists seed, In seed (s_trees s) /\ In n (ids (store_tree s (S (length (s_nodes s))) seed)).

(* Tree(seed_node = n) / tree.seed_node = n for a node n ATTACHED inside a live tree: n's subtree is spliced out
   of that tree and becomes the (new / reassigned) tree; all live trees stay well formed *)
Theorem seed_splice_preserves s self n s1 : winv s -> in_live_tree s n -> parent_of s n <> None ->
  Tree_set_seed_node_obj self (Some n) s = Ok (tt, s1) -> winv s1.
Proof.
  intros [So [F [T [L N]]]] [seed [Hseed Hn]] Hpar H.
  rewrite T in Hseed. apply in_map_iff in Hseed. destruct Hseed as [t0 [Et0 Ht0]]. subst seed.
  rewrite Forall_forall in L, N.
  destruct (live_wf_store s t0 (L t0 Ht0) (N t0 Ht0)) as [_ EI]. rewrite EI in Hn. clear EI.
  destruct (L t0 Ht0) as [G0 [P0 D0]].
  destruct (subtree_exists n t0 Hn) as [u [Su Eu]].
  destruct (subtree_parent2 s u t0 Su G0 (N t0 Ht0)) as [E|[q [Pn [Hq [Kq Iq]]]]].
  { subst u. exfalso. apply Hpar. rewrite <- Eu. exact P0. }
  rewrite Eu in Pn, Kq.
  assert (Dq : dom s q) by (apply D0; exact Iq).
  assert (Dn : dom s n) by (apply D0; exact Hn).
  (* the list of live trees is updated first *)
  unfold Tree_set_seed_node_obj in H. apply mbind_inv in H. destruct H as [[] [sa [Ha H]]].
  assert (SA : (forall y, node_of sa y = node_of s y) /\ (forall l, list_of sa l = list_of s l) /\ s_next sa = s_next s /\
               (s_trees sa = s_trees s ++ [n] \/
                exists k, s_trees sa = firstn k (s_trees s) ++ n :: skipn (S k) (s_trees s))).
  { unfold t_set_seed in Ha. destruct (Z.ltb self 0); [discriminate|].
    destruct (Z.ltb self (Z.of_nat (length (s_trees s)))).
    - inversion Ha; subst sa. repeat split. right. exists (Z.to_nat self). reflexivity.
    - destruct (Z.eqb self (Z.of_nat (length (s_trees s)))); [|discriminate]. inversion Ha; subst sa. repeat split. left. reflexivity. }
  destruct SA as [NA [LA [XA TA]]].
  pose proof (sok_ext s sa So XA NA LA) as Soa.
  assert (KA : forall y, kids_of sa y = kids_of s y).
  { intro y. unfold kids_of. rewrite NA. destruct (node_of s y); [rewrite LA|]; reflexivity. }
  assert (PA : forall y, parent_of sa y = parent_of s y) by (intro y; unfold parent_of; rewrite NA; reflexivity).
  assert (DA : forall y, dom sa y <-> dom s y) by (intro y; unfold dom; rewrite NA; reflexivity).
  assert (FA : forall y, dom s y -> dom sa y /\ kids_of sa y = kids_of s y /\ parent_of sa y = parent_of s y).
  { intros y Dy. split; [apply DA; exact Dy|split; [apply KA|apply PA]]. }
  cbn [negb] in H. apply mbind_inv in H. destruct H as [[] [sb [Hb H]]].
  assert (sb = sa).
  { apply mbind_inv in Hb. destruct Hb as [v [sc [Hc Hb]]]. unfold o_get_parent in Hc.
    destruct (node_of sa n); [|discriminate]. inversion Hc; subst v sc.
    destruct (negb match n_parent n0 with Some _ => false | None => true end); unfold ret in Hb; inversion Hb; reflexivity. }
  subst sb. clear Hb.
  destruct (detach_spec sa q n Soa) as [s' [E1 [So1 [T1 [_ [D1 [KQ [KO [PN PO]]]]]]]]].
  { apply DA. exact Dq. } { apply DA. exact Dn. } { rewrite PA. exact Pn. } { rewrite KA. exact Kq. }
  rewrite E1 in H. inversion H; subst s'. clear H E1.
  (* the trees after the step *)
  assert (LP : forall t, In t F -> live s1 (prune n t)).
  { intros t Ht. destruct (live_frame s sa t (L t Ht) FA) as [G [P D]]. split; [|split].
    - apply (grep_prune n q sa s1); [rewrite PA; exact Pn|exact KQ|exact KO|exact PO|exact G|exact (N t Ht)].
    - rewrite prune_id. destruct (Z.eq_dec (t_id t) n) as [E|E]; [rewrite E; exact PN|rewrite (PO _ E); exact P].
    - intros y Hy. apply D1. apply D. exact (prune_sub n t y Hy). }
  assert (Nu : NoDup (ids u)) by exact (subtree_NoDup u t0 Su (N t0 Ht0)).
  assert (LU : live s1 u).
  { destruct (live_frame s sa t0 (L t0 Ht0) FA) as [G [_ D]]. pose proof (subtree_grep sa u t0 Su G) as Gu.
    split; [|split].
    - apply (grep_frame sa s1 u Gu).
      + intros y Hy. apply KO. intro E. subst y. exact (Hq Hy).
      + intros y Hy. apply PO. intro E. subst y. pose proof Nu as Nu'. rewrite ids_head in Nu'. apply NoDup_cons_iff in Nu'.
        destruct Nu' as [Hh _]. apply Hh. rewrite Eu. exact Hy.
    - rewrite Eu. exact PN.
    - intros y Hy. apply D1. apply D. exact (subtree_ids u t0 Su y Hy). }
  assert (TP : s_trees s = map t_id (map (prune n) F)).
  { rewrite T, map_map. apply map_ext. intro t. symmetry. apply prune_id. }
  assert (GEN : forall F', s_trees s1 = map t_id F' ->
                  (forall t', In t' F' -> In t' (map (prune n) F) \/ t' = u) -> winv s1).
  { intros F' TF' HF'. split; [exact So1|]. exists F'. split; [exact TF'|]. split; apply Forall_forall; intros t' Ht'.
    - destruct (HF' t' Ht') as [Hin|E]; [|subst t'; exact LU].
      apply in_map_iff in Hin. destruct Hin as [t [Et Ht]]. subst t'. exact (LP t Ht).
    - destruct (HF' t' Ht') as [Hin|E]; [|subst t'; exact Nu].
      apply in_map_iff in Hin. destruct Hin as [t [Et Ht]]. subst t'. apply NoDup_prune. exact (N t Ht). }
  destruct TA as [TA|[k TA]].
  - apply (GEN (map (prune n) F ++ [u])).
    + rewrite T1, TA, TP, map_app. simpl. rewrite Eu. reflexivity.
    + intros t' Ht'. apply in_app_or in Ht'. destruct Ht' as [Ht'|[Ht'|[]]]; [left; exact Ht'|right; symmetry; exact Ht'].
  - apply (GEN (firstn k (map (prune n) F) ++ u :: skipn (S k) (map (prune n) F))).
    + rewrite T1, TA, TP. generalize (map (prune n) F). intro PF. rewrite map_app. cbn [map]. rewrite Eu, firstn_map, skipn_map. reflexivity.
    + intros t' Ht'. apply in_app_or in Ht'. destruct Ht' as [Ht'|[Ht'|Ht']].
      * left. exact (in_firstn _ _ _ Ht').
      * right. symmetry. exact Ht'.
      * left. exact (in_skipn _ _ _ Ht').
Qed.

Theorem step_tree_from_attached_seed_preserves s n s1 : winv s -> in_live_tree s n -> parent_of s n <> None ->
  do_step (STreeFromSeed n) s = Ok (tt, s1) -> winv s1.
Proof. intros W I P H. exact (seed_splice_preserves s (n_trees s) n s1 W I P H). Qed.

Theorem step_assign_attached_seed_preserves s k n s1 : winv s -> in_live_tree s n -> parent_of s n <> None ->
  do_step (SAssignSeed k n) s = Ok (tt, s1) -> winv s1.
Proof. intros W I P H. exact (seed_splice_preserves s k n s1 W I P H). Qed.

(* ---- covered steps, reachable worlds ---- *)
Definition covered (s : store) (st : step) : Prop :=
  match st with
  | SKids _ _ false => True                                            (* child_nodes() copy, private edits, kept *)
  | STreeFromSeed n => in_live_tree s n /\ parent_of s n <> None         (* Tree(seed_node = a node attached in a live tree) *)
  | SAssignSeed _ n => in_live_tree s n /\ parent_of s n <> None         (* tree.seed_node = such a node *)
  | SNewChild n x => ~ In x (kids_of s n) /\ parent_of s n <> Some x     (* x a brand-new id, referenced nowhere at n *)
  | SRemoveChild _ => True                                            (* n.parent_node.remove_child(n) *)
  | SNewTree t => NoDup (ids t) /\ forall y, In y (ids t) -> ~ dom s y   (* built from nodes that do not exist yet *)
  | SRefused _ _ _ => True
  | _ => False
  end.

(* one step of a history, as steps_ok / history_wf take it: a refused call must raise and leaves the store *)
Definition step_to (s : store) (st : step) (s' : store) : Prop :=
  match st, do_step st s with
  | SRefused _ _ _, Err _ => s' = s
  | SRefused _ _ _, _ => False
  | _, Ok (_, s1) => s' = s1
  | _, _ => False
  end.

Theorem covered_step_preserves s st s' : winv s -> covered s st -> step_to s st s' -> winv s'.
Proof.
  intros W C H. unfold step_to in H. destruct st as [n es [|]|n|k0 n|? ?|n x|n|t|k p n]; try contradiction.
  - destruct (do_step (SKids n es false) s) as [[[] s1]| |] eqn:E; try contradiction. subst s'.
    exact (step_private_copy_preserves s n es s1 W E).
  - destruct C as [C1 C2]. destruct (do_step (STreeFromSeed n) s) as [[[] s1]| |] eqn:E; try contradiction. subst s'.
    exact (step_tree_from_attached_seed_preserves s n s1 W C1 C2 E).
  - destruct C as [C1 C2]. destruct (do_step (SAssignSeed k0 n) s) as [[[] s1]| |] eqn:E; try contradiction. subst s'.
    exact (step_assign_attached_seed_preserves s k0 n s1 W C1 C2 E).
  - destruct C as [C1 C2]. destruct (do_step (SNewChild n x) s) as [[[] s1]| |] eqn:E; try contradiction. subst s'.
    exact (step_new_child_preserves s n x s1 W C1 C2 E).
  - destruct (do_step (SRemoveChild n) s) as [[[] s1]| |] eqn:E; try contradiction. subst s'.
    exact (step_remove_child_preserves s n s1 W E).
  - destruct C as [C1 C2]. destruct (do_step (SNewTree t) s) as [[[] s1]| |] eqn:E; try contradiction. subst s'.
    exact (step_new_tree_preserves s t s1 W C1 C2 E).
  - destruct (do_step (SRefused k p n) s) as [[[] s1]| |] eqn:E; try contradiction. subst s'. exact W.
Qed.

Inductive reachable : store -> Prop :=
| reach_built ts s : NoDup (flat_map ids ts) -> build_world ts empty_store = Ok (tt, s) -> reachable s
| reach_step s st s' : reachable s -> covered s st -> step_to s st s' -> reachable s'.

Theorem reachable_winv s : reachable s -> winv s.
Proof.
  induction 1 as [ts s N E|s st s' _ IH C H].
  - destruct (build_world_winv ts N) as [s0 [E0 W]]. rewrite E0 in E. inversion E; subst. exact W.
  - exact (covered_step_preserves s st s' IH C H).
Qed.

(* (2): every world reachable from built trees by covered steps passes the executable check *)
Theorem reachable_world_wf s : reachable s -> world_wf s = true.
Proof. intro R. exact (winv_world_wf s (reachable_winv s R)). Qed.

(* (3) *)
Theorem traversals_on_reachable_worlds s : reachable s ->
  forall seed, In seed (s_trees s) ->
    let f := S (length (s_nodes s)) in
    wf_store s f seed = true /\
    structural_orders s f seed /\
    (exists x, loc (store_tree s f seed, []) x /\ l_id x = seed /\
               (2 * size (here x) + l_depth x + 2 <= store_fuel s)%nat).
Proof.
  intros R seed Hs. cbv zeta. pose proof (world_wf_probes s seed (reachable_world_wf s R) Hs) as Ws.
  split; [exact Ws|split; [exact (wf_store_structural_orders _ _ _ Ws)|exact (seed_is_located_with_probe_fuel _ _ _ Ws)]].
Qed.

(* the hypotheses are satisfiable: a world reached by one step of each covered kind *)
Definition ex_reach_tree : tree := T 0 None None None [T 1 None None None [leafx 3]; leafx 2].

Example reachable_example :
  exists s, reachable s /\ s_trees s = [0; 10; 1] /\
    ids (store_tree s (S (length (s_nodes s))) 0) = [0; 2] /\
    ids (store_tree s (S (length (s_nodes s))) 10) = [10] /\
    ids (store_tree s (S (length (s_nodes s))) 1) = [1; 3; 5] /\ s_held s <> [].
Proof.
  destruct (build_world [ex_reach_tree] empty_store) as [[[] s0]| |] eqn:E0; [|vm_compute in E0; discriminate..].
  assert (R0 : reachable s0).
  { apply (reach_built [ex_reach_tree]); [|exact E0]. vm_compute. repeat constructor; simpl; intuition discriminate. }
  vm_compute in E0. inversion E0; subst s0. clear E0.
  match type of R0 with reachable ?s => set (s0 := s) in * end.
  destruct (do_step (SKids 0 [EAppend 4; EReverse; EPop 0] false) s0) as [[[] s1]| |] eqn:E1; [|vm_compute in E1; discriminate..].
  assert (R1 : reachable s1).
  { apply (reach_step s0 (SKids 0 [EAppend 4; EReverse; EPop 0] false)); [exact R0|exact I|]. unfold step_to. rewrite E1. reflexivity. }
  vm_compute in E1. inversion E1; subst s1. clear E1.
  match type of R1 with reachable ?s => set (s1 := s) in * end.
  destruct (do_step (SNewChild 1 5) s1) as [[[] s2]| |] eqn:E2; [|vm_compute in E2; discriminate..].
  assert (R2 : reachable s2).
  { apply (reach_step s1 (SNewChild 1 5)); [exact R1| |unfold step_to; rewrite E2; reflexivity].
    split; vm_compute; [intros [F|[]]; discriminate|discriminate]. }
  vm_compute in E2. inversion E2; subst s2. clear E2.
  match type of R2 with reachable ?s => set (s2 := s) in * end.
  destruct (do_step (SNewTree (T 10 None None None [leafx 11])) s2) as [[[] s3]| |] eqn:E3; [|vm_compute in E3; discriminate..].
  assert (R3 : reachable s3).
  { apply (reach_step s2 (SNewTree (T 10 None None None [leafx 11]))); [exact R2| |unfold step_to; rewrite E3; reflexivity].
    split; [vm_compute; repeat constructor; simpl; intuition discriminate|].
    intros y Hy. vm_compute in Hy. destruct Hy as [Hy|[Hy|[]]]; subst y; vm_compute; intro F; apply F; reflexivity. }
  vm_compute in E3. inversion E3; subst s3. clear E3.
  match type of R3 with reachable ?s => set (s3 := s) in * end.
  destruct (do_step (STreeFromSeed 1) s3) as [[[] s4]| |] eqn:E4; [|vm_compute in E4; discriminate..].
  assert (R4 : reachable s4).
  { apply (reach_step s3 (STreeFromSeed 1)); [exact R3| |unfold step_to; rewrite E4; reflexivity].
    split; [exists 0; split; vm_compute; tauto|vm_compute; discriminate]. }
  vm_compute in E4. inversion E4; subst s4. clear E4.
  match type of R4 with reachable ?s => set (s4 := s) in * end.
  destruct (do_step (SRemoveChild 11) s4) as [[[] s5]| |] eqn:E5; [|vm_compute in E5; discriminate..].
  assert (R5 : reachable s5).
  { apply (reach_step s4 (SRemoveChild 11)); [exact R4|exact I|unfold step_to; rewrite E5; reflexivity]. }
  vm_compute in E5. inversion E5; subst s5. clear E5.
  match type of R5 with reachable ?s => set (s5 := s) in * end.
  assert (R6 : reachable s5).
  { apply (reach_step s5 (SRefused RRemoveChild 0 3)); [exact R5|exact I|]. vm_compute. reflexivity. }
  exists s5. split; [exact R6|]. vm_compute. repeat split; discriminate.
Qed.

(* ---- NOT covered, and not preservable: ---- *)
Definition ex_w0 : store :=
  match build_world [ex_reach_tree] empty_store with Ok (_, s0) => s0 | _ => empty_store end.

(* p.add_child(n) while n is still a child of another node (unchanged library: C03's finding): the store before
   is well formed, the call succeeds, the store after is not, and the pre-order visits node 3 twice *)
Theorem add_child_of_attached_node_preserves_wf_refuted :
  ~ (forall s p n s', world_wf s = true -> Node_add_child_obj p n s = Ok (n, s') -> world_wf s' = true).
Proof.
  intro H. specialize (H ex_w0 2 3).
  destruct (Node_add_child_obj 2 3 ex_w0) as [[v s']| |] eqn:E; [|vm_compute in E; discriminate..].
  vm_compute in E. inversion E; subst v s'. clear E.
  specialize (H _ eq_refl eq_refl). vm_compute in H. discriminate.
Qed.

(* the same through set_child_nodes with a list that holds another node's child *)
Theorem set_child_nodes_with_attached_node_preserves_wf_refuted :
  ~ (forall s p q s', world_wf s = true ->
       mbind (Node_child_nodes_obj q) (fun l => Node_set_child_nodes_obj p l) s = Ok (tt, s') -> world_wf s' = true).
Proof.
  intro H. specialize (H ex_w0 2 1).
  destruct (mbind (Node_child_nodes_obj 1) (fun l => Node_set_child_nodes_obj 2 l) ex_w0) as [[[] s']| |] eqn:E;
    [|vm_compute in E; discriminate..].
  vm_compute in E. inversion E; subst s'. clear E.
  specialize (H _ eq_refl eq_refl). vm_compute in H. discriminate.
Qed.

(* a step kind outside `covered` that does not preserve world_wf: seed.parent_node = its own child (a cycle) *)
Theorem reparent_step_preserves_wf_refuted :
  ~ (forall s n p s', world_wf s = true -> do_step (SReparent n p) s = Ok (tt, s') -> world_wf s' = true).
Proof.
  intro H. specialize (H ex_w0 0 1).
  destruct (do_step (SReparent 0 1) ex_w0) as [[[] s']| |] eqn:E; [|vm_compute in E; discriminate..].
  vm_compute in E. inversion E; subst s'. clear E.
  specialize (H _ eq_refl eq_refl). vm_compute in H. discriminate.
Qed.
