(* C14 translator tie: the generated descent loop of Tree.mrca (Gen/Pdm.v, Tree_mrca_descent) computes
   the hand model's `visit false`, and the generated accessors equal the hand model's. *)
From Coq Require Import ZArith QArith List Bool Lia.
From DV Require Import Model.PyPrims Model.Tree Model.C14Model Model.C14GenPrims Gen.Pdm Proofs.C14Mrca.
Import ListNotations.
Open Scope Z_scope.

Section Descent.
Variables (enc : dict Z) (sm : Z).

Let step := Tree_mrca_step enc sm.

(* what the loop does after `curr_node = next(nd_source)` *)
Definition after_next (fuel : nat) (last : tree) (src : list tree) : res (option tree) :=
  match src with
  | [] => Ok (Some last)
  | k :: r => py_loop fuel step ((last, r), k)
  end.

Definition node_ok (t : tree) : Prop :=
  forall last src fuel,
    match visit false enc sm t last with
    | Some r => (size t <= fuel)%nat -> py_loop fuel step ((last, src), t) = Ok (Some r)
    | None => py_loop (S fuel) step ((last, src), t) = after_next fuel last src
    end.

Lemma scan_ok ks : Forall node_ok ks ->
  forall t fuel, (sizes ks <= fuel)%nat -> after_next fuel t ks = Ok (Some (scan_kids false enc sm t ks)).
Proof.
  induction 1 as [|k r Hk _ IH]; intros t fuel Hf; [reflexivity|].
  rewrite sizes_cons in Hf. cbn [after_next scan_kids].
  specialize (Hk t r). destruct (visit false enc sm k t) as [res|].
  - apply Hk. lia.
  - destruct fuel as [|f]; [pose proof (size_pos k); lia|].
    refine (eq_trans (Hk f) _). apply IH. pose proof (size_pos k). lia.
Qed.

Lemma node_ok_all t : node_ok t.
Proof.
  induction t as [i x lb e ks IH] using tree_ind'. intros last src fuel.
  rewrite visit_eq. cbv zeta. rewrite andb_false_r. cbn [t_id t_kids].
  destruct (Z.eqb (Z.land (enc_get enc i) sm) 0) eqn:E0.
  - cbn [py_loop]. unfold step, Tree_mrca_step. cbn [node_id t_id]. rewrite E0. cbn [negb].
    destruct src as [|k r]; reflexivity.
  - destruct (Z.eqb (Z.land (enc_get enc i) sm) sm) eqn:E1.
    + intro Hf. rewrite size_eq in Hf. destruct fuel as [|f]; [lia|].
      cbn [py_loop]. unfold step, Tree_mrca_step. cbn [node_id t_id node_child_nodes t_kids]. rewrite E0, E1. cbn [negb].
      destruct ks as [|k r]; [reflexivity|]. cbn [py_next].
      apply (scan_ok (k :: r) IH (T i x lb e (k :: r)) f). lia.
    + intro Hf. rewrite size_eq in Hf. destruct fuel as [|f]; [lia|].
      cbn [py_loop]. unfold step, Tree_mrca_step. cbn [node_id t_id]. rewrite E0, E1. reflexivity.
Qed.

(* the tail of Tree.mrca, from `if (start.leafset_bitmask & S) != S: return None` on *)
Definition model_descent (s : tree) : res (option tree) :=
  if negb (Z.eqb (Z.land (enc_get enc (t_id s)) sm) sm) then Ok None
  else match visit false enc sm s s with Some r => Ok (Some r) | None => Ok (Some s) end.

Lemma gen_tree_mrca_descent_eq s fuel : sm <> 0 -> (size s <= fuel)%nat ->
  Tree_mrca_descent fuel enc sm s = model_descent s.
Proof.
  intros Hsm Hf. unfold Tree_mrca_descent, model_descent, node_id.
  destruct (Z.eqb (Z.land (enc_get enc (t_id s)) sm) sm) eqn:E; cbn [negb]; [|reflexivity].
  pose proof (node_ok_all s s (node_child_nodes s) fuel) as H.
  destruct (visit false enc sm s s) as [r|] eqn:V.
  - apply H, Hf.
  - exfalso. rewrite visit_eq in V. cbv zeta in V. rewrite E in V.
    destruct (Z.eqb (Z.land (enc_get enc (t_id s)) sm) 0) eqn:E0; [|rewrite andb_false_r in V; discriminate].
    apply Z.eqb_eq in E0, E. congruence.
Qed.

End Descent.

(* tree_mrca of the hand model uses exactly this tail *)
Lemma tree_mrca_tail ns mt arg start updated :
  forall sm mt' s,
    mrca_mask ns arg = Ok sm -> Z.eqb sm 0 = false ->
    (if Z.eqb (enc_get (mt_enc mt) (match start with Some i => i | None => t_id (mt_tree mt) end)) 0 || negb updated
     then encode ns mt else Ok mt) = Ok mt' ->
    match find_node (match start with Some i => i | None => t_id (mt_tree mt) end) (mt_tree mt') with
    | Some s => Some s
    | None => find_node (match start with Some i => i | None => t_id (mt_tree mt) end) (mt_tree mt)
    end = Some s ->
    t_id s = match start with Some i => i | None => t_id (mt_tree mt) end ->
    tree_mrca false ns mt arg start updated =
    (match model_descent (mt_enc mt') sm s with
     | Ok o => Ok (option_map t_id o) | Err e => Err e | OutOfFuel => OutOfFuel end, mt').
Proof.
  intros sm mt' s Hm Hz Hr Hs Hid. unfold tree_mrca. rewrite Hm, Hz.
  cbv zeta. rewrite Hr, Hs. unfold model_descent. rewrite Hid.
  destruct (negb (Z.eqb (Z.land _ sm) sm)); [reflexivity|]. destruct (visit false (mt_enc mt') sm s s); cbn [option_map]; rewrite ?Hid; reflexivity.
Qed.

(* accessors *)
Lemma gen_pdm_mrca_eq p a b : PDM_mrca p a b = pdm_mrca p a b.
Proof.
  unfold PDM_mrca, pdm_mrca, key_get, tget2. destruct (dget a (p_mrca p)) as [row|]; [|reflexivity].
  cbn [bind]. destruct (dget b row); reflexivity.
Qed.

Lemma gen_patristic_distance_eq p a b nrm : PDM_patristic_distance p a b nrm = distance p a b true nrm.
Proof.
  unfold PDM_patristic_distance, distance, dmatrix, key_get, tget2, norm_factor, py_div.
  destruct (Z.eqb a b); [reflexivity|].
  destruct (dget a (p_dist p)) as [row|]; [|reflexivity]. cbn [bind].
  destruct (dget b row) as [v|]; [|reflexivity]. cbn [bind].
  destruct nrm; [|reflexivity]. destruct (Qeq_bool (uq (p_tree_length p)) 0); reflexivity.
Qed.

Lemma gen_path_edge_count_eq p a b nrm : PDM_path_edge_count p a b nrm = distance p a b false nrm.
Proof.
  unfold PDM_path_edge_count, distance, dmatrix, key_get, tget2, norm_factor, py_div.
  destruct (Z.eqb a b); [reflexivity|].
  destruct (dget a (p_steps p)) as [row|]; [|reflexivity]. cbn [bind].
  destruct (dget b row) as [v|]; [|reflexivity]. cbn [bind].
  destruct nrm; [|reflexivity]. destruct (Qeq_bool (inject_Z (p_num_edges p)) 0); reflexivity.
Qed.
