(* C11: translated methods = model - part G: DataSet.unify_taxon_namespaces *)
From Coq Require Import String.
From Coq Require Import List Bool Arith ZArith Lia.
From DV Require Import Model.PyPrims Model.C11Model Model.C11Prims Gen.Containers Proofs.C11Base Proofs.C11GenA Proofs.C11GenB
  Proofs.C11GenD Proofs.C11GenE Proofs.C11GenF Proofs.C11Ops.
Import ListNotations.
Open Scope nat_scope.

Lemma nth_error_eq_nth' : forall A (a b : list A) j d, nth_error a j = nth_error b j -> nth j a d = nth j b d.
Proof.
  intros A a b j d E. destruct (nth_error b j) eqn:K.
  - rewrite (nth_error_some_nth _ _ _ d _ E). symmetry. apply nth_error_some_nth. exact K.
  - rewrite !nth_overflow; [reflexivity | apply nth_error_None; exact K | apply nth_error_None; exact E].
Qed.

Lemma match3_ne : forall (A B C D : Type) (a : list A) (b : list B) (c : list C) (x y : D),
  negb (Nat.eqb (length a) 0) || (negb (Nat.eqb (length b) 0) || negb (Nat.eqb (length c) 0)) = true ->
  match a, b, c with [], [], [] => x | _, _, _ => y end = y.
Proof. intros A B C D a b c x y H. destruct a, b, c; try reflexivity. discriminate. Qed.

Section WithLower.
Variable lower : lbl -> lbl.

Lemma migrate_tree_frame2 : forall st tr n u memo,
  let st' := fst (migrate_tree lower st tr n u memo) in
  length (s_trees st') = length (s_trees st) /\ s_lists st' = s_lists st /\ s_mats st' = s_mats st /\ s_dss st' = s_dss st.
Proof.
  intros. unfold st', migrate_tree.
  pose proof (recon_refs_objs lower n u (t_refs (gettree st tr)) st (s_trees st) (s_lists st) (s_mats st) (s_dss st) memo) as Q.
  rewrite with_objs_id in Q. destruct (recon_refs lower st n u (t_refs (gettree st tr)) memo) as [[s1 r] m]. injection Q as Q.
  cbn [fst]. simpl. rewrite upd_length, Q. repeat split; reflexivity.
Qed.

Lemma migrate_trees_frame : forall trs st n u memo,
  let st' := fst (migrate_trees lower st n u trs memo) in
  length (s_trees st') = length (s_trees st) /\ s_lists st' = s_lists st /\ s_mats st' = s_mats st /\ s_dss st' = s_dss st.
Proof.
  induction trs as [|tr r IH]; intros st n u memo; cbn [migrate_trees]; [repeat split; reflexivity|].
  destruct (migrate_tree_frame2 st tr n u memo) as [A [B [C D]]].
  destruct (migrate_tree lower st tr n u memo) as [st1 m1]. cbn [fst] in *.
  destruct (IH st1 n u m1) as [A2 [B2 [C2 D2]]]. cbv zeta in *. repeat split; congruence.
Qed.

Lemma migrate_list_frame : forall st l n u memo,
  let st' := fst (migrate_list lower st l n u memo) in
  length (s_trees st') = length (s_trees st) /\ length (s_lists st') = length (s_lists st)
  /\ s_mats st' = s_mats st /\ s_dss st' = s_dss st
  /\ (forall i, l_trees (getlist st' i) = l_trees (getlist st i)).
Proof.
  intros st l n u memo. unfold migrate_list, reconstruct_list.
  set (st0 := set_list st l (mkTL n (l_trees (getlist st l)))).
  destruct (migrate_trees_frame (l_trees (getlist st0 l)) st0 (l_ns (getlist st0 l)) u memo) as [A [B [C D]]].
  cbv zeta in *. split; [exact A|]. split; [rewrite B; unfold st0; simpl; apply upd_length|].
  split; [exact C|]. split; [exact D|]. intro i. unfold getlist at 1. rewrite B. unfold st0. simpl.
  destruct (Nat.eq_dec i l) as [E|E].
  - subst i. destruct (nth_error (s_lists st) l) eqn:K.
    + rewrite (nth_error_some_nth _ _ _ dlist _ (nth_error_upd_same _ _ _ _ _ K)). reflexivity.
    + unfold getlist. rewrite !nth_overflow; [reflexivity | apply nth_error_None; exact K | rewrite upd_length; apply nth_error_None; exact K].
  - unfold getlist. f_equal. apply nth_error_eq_nth'. apply nth_error_upd_other. exact E.
Qed.

Theorem gen_TreeList_migrate : forall st l n u om,
  l < length (s_lists st) -> (forall tr, In tr (l_trees (getlist st l)) -> tr < length (s_trees st)) ->
  py_TreeList_migrate_taxon_namespace lower st l (Some n) u om
  = (fst (migrate_list lower st l n u (kw_default om [])), Ok (snd (migrate_list lower st l n u (kw_default om [])))).
Proof.
  intros st l n u om Vl W. unfold py_TreeList_migrate_taxon_namespace. cbn [bindR]. rewrite bindR_ret.
  assert (G : getlist (set_list_ns st l n) l = mkTL n (l_trees (getlist st l))).
  { unfold set_list_ns, getlist. simpl. apply nth_error_some_nth. destruct (nth_error (s_lists st) l) eqn:E.
    - eapply nth_error_upd_same. exact E.
    - apply nth_error_None in E. lia. }
  rewrite gen_TreeList_reconstruct; [reflexivity|]. rewrite G. exact W.
Qed.

Lemma unify_lists_loop : forall (ls : list oid) n st memo,
  (forall l, In l ls -> l < length (s_lists st)) ->
  (forall l tr, In l ls -> In tr (l_trees (getlist st l)) -> tr < length (s_trees st)) ->
  for_each ls (fun stb (x : oid) (m : list (oid * oid)) =>
                 bindR (py_TreeList_migrate_taxon_namespace lower stb x (Some n) true (Some m)) (fun s r => (s, Ok r))) st memo
  = (fst (unify_lists lower st n ls memo), Ok (snd (unify_lists lower st n ls memo))).
Proof.
  induction ls as [|l r IH]; intros n st memo V W; cbn [for_each unify_lists]; [reflexivity|].
  rewrite bindR_ret, gen_TreeList_migrate; [|apply V; left; reflexivity | intros tr Htr; eapply W; [left; reflexivity | exact Htr]].
  cbn [kw_default]. destruct (migrate_list_frame st l n true memo) as [A [B [_ [_ T]]]].
  destruct (migrate_list lower st l n true memo) as [st1 memo1]. cbn [fst snd bindR] in *.
  apply IH.
  - intros x Hx. rewrite B. apply V. right. exact Hx.
  - intros x tr Hx Htr. rewrite A. rewrite T in Htr. eapply W; [right; exact Hx | exact Htr].
Qed.

Lemma migrate_mat_frame : forall st m n u memo,
  let st' := fst (fst (migrate_mat lower st m n u memo)) in
  length (s_mats st') = length (s_mats st) /\ s_dss st' = s_dss st /\ s_lists st' = s_lists st /\ s_trees st' = s_trees st
  /\ (forall j, j <> m -> getmat st' j = getmat st j).
Proof.
  intros st m n u memo. unfold migrate_mat.
  pose proof (recon_rows_objs lower n u (m_rows (getmat st m)) st (s_trees st) (s_lists st) (s_mats st) (s_dss st) (m_rows (getmat st m)) memo) as Q.
  rewrite with_objs_id in Q.
  destruct (recon_rows lower st n u (m_rows (getmat st m)) (m_rows (getmat st m)) memo) as [[[s1 r] mm] ok]. injection Q as Q.
  cbn [fst]. simpl. rewrite upd_length, Q. simpl. repeat split; try reflexivity.
  intros j Ne. unfold getmat. simpl. apply nth_error_eq_nth'. apply nth_error_upd_other. exact Ne.
Qed.

Lemma unify_mats_loop : forall (ms : list oid) n st memo,
  NoDup ms -> (forall m, In m ms -> m < length (s_mats st) /\ NoDup (m_rows (getmat st m))) ->
  exists mm,
  for_each ms (fun stb (x : oid) (m0 : list (oid * oid)) =>
                 bindR (py_CharacterMatrix_migrate_taxon_namespace lower stb x (Some n) true (Some m0)) (fun s r => (s, Ok r))) st memo
  = (fst (unify_mats lower st n ms memo), if snd (unify_mats lower st n ms memo) then Ok mm else Err OtherErr).
Proof.
  induction ms as [|m r IH]; intros n st memo ND W; cbn [for_each unify_mats]; [exists memo; reflexivity|].
  apply NoDup_cons_iff in ND. destruct ND as [Nin ND].
  destruct (W m (or_introl eq_refl)) as [Vm NDm].
  rewrite bindR_ret, gen_CM_migrate by assumption. cbn [kw_default].
  destruct (migrate_mat_frame st m n true memo) as [A [_ [_ [_ O]]]].
  destruct (migrate_mat lower st m n true memo) as [[st1 memo1] ok]. cbn [fst snd] in *.
  destruct ok; cbn [bindR].
  - destruct (IH n st1 memo1 ND) as [mm E].
    + intros x Hx. destruct (W x (or_intror Hx)) as [Vx NDx]. rewrite A. split; [exact Vx|].
      rewrite O; [exact NDx|]. intro Q. subst x. contradiction.
    + exists mm. exact E.
  - exists memo. reflexivity.
Qed.

Theorem step_Unify_gen : forall st d nsarg attach,
  valid_ds st d && valid_nsopt st nsarg = true ->
  (forall l, In l (d_lists (getds st d)) -> l < length (s_lists st)) ->
  (forall l tr, In l (d_lists (getds st d)) -> In tr (l_trees (getlist st l)) -> tr < length (s_trees st)) ->
  NoDup (d_mats (getds st d)) ->
  (forall m, In m (d_mats (getds st d)) -> m < length (s_mats st) /\ NoDup (m_rows (getmat st m))) ->
  step lower st (Unify d nsarg attach) = obs_unit (py_DataSet_unify_taxon_namespaces lower st d nsarg true attach).
Proof.
  intros st d nsarg attach V WL WT NDM WM. cbn [step]. rewrite V. apply andb_true_iff in V. destruct V as [Vd _]. apply ltb_lt' in Vd.
  unfold py_DataSet_unify_taxon_namespaces.
  set (ds := getds st d) in *.
  assert (Hempty : (negb (Nat.eqb (length (d_nss ds)) 0) || (negb (Nat.eqb (length (d_lists ds)) 0) || negb (Nat.eqb (length (d_mats ds)) 0))) = false
                   -> d_nss ds = [] /\ d_lists ds = [] /\ d_mats ds = []).
  { intro H. apply orb_false_iff in H. destruct H as [H1 H]. apply orb_false_iff in H. destruct H as [H2 H3].
    destruct (d_nss ds); [|discriminate]. destruct (d_lists ds); [|discriminate]. destruct (d_mats ds); [|discriminate]. auto. }
  destruct (negb (Nat.eqb (length (d_nss ds)) 0) || (negb (Nat.eqb (length (d_lists ds)) 0) || negb (Nat.eqb (length (d_mats ds)) 0))) eqn:NE.
  2:{ destruct (Hempty eq_refl) as [E1 [E2 E3]]. rewrite E1, E2, E3.
      destruct attach; [|reflexivity]. destruct nsarg as [n|]; [|reflexivity]. rewrite gen_DataSet_attach. reflexivity. }
  clear Hempty.
  (* the non-trivial branch, whatever the shape of the three collections *)
  assert (Body :
    (let '(st3, target, ok) :=
       let st0 := set_ds st d (mkDS (d_att ds) [] (d_lists ds) (d_mats ds)) in
       let '(st1, n) := match nsarg with
                        | Some n => (st0, n)
                        | None => let '(s, n) := alloc_ns st0 false in (ds_add_ns s d n, n)
                        end in
       let '(st2, memo) := unify_lists lower st1 n (d_lists ds) [] in
       let '(st3, ok) := unify_mats lower st2 n (d_mats ds) memo in
       (st3, Some n, ok) in
     if ok then
       if attach then match target with Some n => (ds_attach st3 d n, OUnit) | None => (st3, OErr TypeErr) end
       else (st3, OUnit)
     else (st3, ORecon))
    = obs_unit
        (let st1 := set_ds_nss st d [] in
         bindR (match nsarg with
                | Some x_ => (st1, Ok x_)
                | None => bindR (py_DataSet_new_taxon_namespace st1 d) (fun st2 r_3 => (st2, Ok r_3))
                end) (fun st4 v_ns =>
         let v_memo := [] in
         bindR (for_each (d_lists (getds st4 d)) (fun stb7 x_8 v_m =>
                  bindR (py_TreeList_migrate_taxon_namespace lower stb7 x_8 (Some v_ns) true (Some v_m)) (fun st10 r_11 => (st10, Ok r_11))) st4 v_memo)
           (fun st12 v_memo13 =>
         bindR (for_each (d_mats (getds st12 d)) (fun stb14 x_15 v_m16 =>
                  bindR (py_CharacterMatrix_migrate_taxon_namespace lower stb14 x_15 (Some v_ns) true (Some v_m16)) (fun st17 r_18 => (st17, Ok r_18))) st12 v_memo13)
           (fun st19 v_memo20 =>
         if attach then bindR (py_DataSet_attach_taxon_namespace st19 d (Some v_ns)) (fun st21 r_22 => (st21, Ok tt))
         else (st19, Ok tt)))))).
  { cbv zeta. change (set_ds_nss st d []) with (set_ds st d (mkDS (d_att ds) [] (d_lists ds) (d_mats ds))).
    set (st0 := set_ds st d (mkDS (d_att ds) [] (d_lists ds) (d_mats ds))).
    assert (G0 : getds st0 d = mkDS (d_att ds) [] (d_lists ds) (d_mats ds)).
    { unfold st0, getds. simpl. apply nth_error_some_nth. destruct (nth_error (s_dss st) d) eqn:K.
      - eapply nth_error_upd_same. exact K.
      - apply nth_error_None in K. lia. }
    (* the state after the target namespace is known *)
    assert (F1 : forall st1 n,
       (match nsarg with Some n => (st0, n) | None => let '(s, n) := alloc_ns st0 false in (ds_add_ns s d n, n) end) = (st1, n) ->
       s_lists st1 = s_lists st /\ s_trees st1 = s_trees st /\ s_mats st1 = s_mats st
       /\ d_lists (getds st1 d) = d_lists ds /\ d_mats (getds st1 d) = d_mats ds).
    { intros st1 n E. destruct nsarg as [n0|].
      - injection E as E1 E2. subst. rewrite G0. repeat split; reflexivity.
      - unfold alloc_ns in E. cbn [fst snd] in E. injection E as E1 E2. subst.
        set (sa := mkSt (s_lab st0) (s_mem st0) ((s_nns st0, false) :: s_cs st0) (S (s_nns st0)) (s_trees st0) (s_lists st0) (s_mats st0) (s_dss st0)).
        assert (Ga : getds (ds_add_ns sa d (s_nns st0)) d = mkDS (d_att ds) (add_uniq (s_nns st0) []) (d_lists ds) (d_mats ds)).
        { unfold ds_add_ns. change (getds sa d) with (getds st0 d). rewrite G0. cbn [d_att d_nss d_lists d_mats].
          unfold getds. simpl. apply nth_error_some_nth. destruct (nth_error (s_dss st0) d) eqn:K.
          - eapply nth_error_upd_same. exact K.
          - apply nth_error_None in K. unfold st0 in K. simpl in K. rewrite upd_length in K. lia. }
        split; [reflexivity|]. split; [reflexivity|]. split; [reflexivity|].
        split; [exact (f_equal d_lists Ga) | exact (f_equal d_mats Ga)]. }
    destruct (match nsarg with Some n => (st0, n) | None => let '(s, n) := alloc_ns st0 false in (ds_add_ns s d n, n) end) as [st1 n] eqn:E1.
    destruct (F1 st1 n eq_refl) as [L1 [T1 [M1 [DL DM]]]].
    assert (E1' : forall B (k : state -> oid -> R B),
              bindR (match nsarg with
                     | Some x_ => (st0, Ok x_)
                     | None => bindR (py_DataSet_new_taxon_namespace st0 d) (fun st2 r_3 => (st2, Ok r_3))
                     end) k = k st1 n).
    { intros B k. destruct nsarg as [n0|]; [injection E1 as A0 B0; subst; reflexivity|].
      unfold py_DataSet_new_taxon_namespace, new_namespace, py_DataSet_add_taxon_namespace. unfold alloc_ns in *. cbn [fst snd bindR] in *.
      injection E1 as A0 B0. subst. reflexivity. }
    rewrite E1'. rewrite DL.
    rewrite unify_lists_loop; [|intros l Hl; rewrite L1; apply WL; exact Hl
                               |intros l tr Hl Htr; rewrite T1; unfold getlist in Htr; rewrite L1 in Htr; eapply WT; [exact Hl | exact Htr]].
    (* frame of the list phase *)
    assert (F2 : forall (ls : list oid) s memo, s_mats (fst (unify_lists lower s n ls memo)) = s_mats s
                                     /\ s_dss (fst (unify_lists lower s n ls memo)) = s_dss s).
    { induction ls as [|l r IH]; intros s memo; cbn [unify_lists]; [split; reflexivity|].
      destruct (migrate_list_frame s l n true memo) as [_ [_ [A [B _]]]].
      destruct (migrate_list lower s l n true memo) as [s1 m1]. cbn [fst] in *. destruct (IH s1 m1) as [A2 B2]. split; congruence. }
    destruct (F2 (d_lists ds) st1 []) as [M2 D2].
    destruct (unify_lists lower st1 n (d_lists ds) []) as [st2 memo2]. cbn [fst snd bindR] in *.
    assert (G2 : getds st2 d = getds st1 d) by (unfold getds; rewrite D2; reflexivity).
    rewrite G2, DM.
    destruct (unify_mats_loop (d_mats ds) n st2 memo2 NDM) as [mm E3].
    { intros m Hm. destruct (WM m Hm) as [Vm NDm]. rewrite M2, M1. split; [exact Vm|].
      unfold getmat. rewrite M2, M1. exact NDm. }
    rewrite E3. destruct (unify_mats lower st2 n (d_mats ds) memo2) as [st3 ok]. cbn [fst snd].
    destruct ok; cbn [bindR]; [|reflexivity].
    destruct attach; [rewrite gen_DataSet_attach|]; reflexivity. }
  cbv zeta in Body. erewrite match3_ne; [exact Body | exact NE].
Qed.

End WithLower.
