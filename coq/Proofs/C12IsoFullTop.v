(* C12, fifth wave: top level of the isomorphism theorem, its non-vacuity examples and the two refuted
   strengthenings (raw bijection; single-valuedness on tuples). *)
From Coq Require Import ZArith List Bool Lia.
From DV Require Import Model.PyPrims Model.C12Model Model.C12Spec2 Model.C12Spec3 Proofs.C12Heap Proofs.C12Inv Proofs.C12Copy
  Proofs.C12Wf Proofs.C12Proofs Proofs.C12Iso Proofs.C12Wf2 Proofs.C12IsoTop Proofs.C12Own Proofs.C12AnnDef Proofs.C12Own2
  Proofs.C12Fun Proofs.C12Wf3 Proofs.C12AnnTop Proofs.C12FunTop Proofs.C12Image Proofs.C12ImageTop Proofs.C12Examples
  Proofs.C12IsoFull.
Import ListNotations.
Open Scope Z_scope.

Ltac feed H := repeat match type of H with ?A -> _ => let X := fresh in assert (X : A) by assumption; specialize (H X); clear X end.

(* final-state invariants of the second and third pass *)
Lemma run_inv23 : forall nf h seeds root fuel s' y,
  wf_heap h seeds = true -> wf_heap2 h = true -> wf_heap3 h = true -> memz root (owned_list h) = false ->
  0 <= root < hlen h -> (length h < fuel)%nat ->
  run_seeded nf fuel h seeds root = Ok (s', R y) -> Inv2 h s' /\ Inv3 h s'.
Proof.
  intros nf h seeds root fuel s' y WF WF2 WF3 NO Hr Hf E.
  destruct (wf_heap_parts _ _ WF) as [Hc [Hs [Hi [Hn Hk]]]].
  assert (R3 := dc_spec3 h seeds (closedb_spec h Hc) (ann_items_ok_spec h seeds Hi) (bound_names_ok_spec h Hn)
           (attr_keys_ok_spec h Hk) (wf2_listkeys h WF2) (wf2_noalias h WF2) (wf2_taxa h WF2) (wf2_bound h WF2)
           (wf2_ilist h WF2) (wf2_ilist2 h WF2) (wf3_nodup h WF3) fuel).
  destruct R3 as [[_ RB] R3]. unfold run_seeded in E.
  assert (IV0 := init_inv h seeds nf WF).
  assert (J0 := init_inv2 h seeds nf Hs).
  assert (HU := U_init h seeds nf).
  assert (V0 : vsrc2 h (R root)) by (split; [exact Hr | exact (not_owned_of_list h root NO)]).
  assert (UF : (U h (init_st nf h seeds) < fuel)%nat) by lia.
  destruct (R3 (init_st nf h seeds) (R root) IV0 J0 (init_inv3 nf h seeds) V0 UF s' (R y) E) as [J3 _].
  destruct (RB (init_st nf h seeds) (R root) IV0 J0 V0 UF s' (R y) E) as [J _].
  split; [exact J | exact J3].
Qed.

Theorem deepcopy_isomorphism_l : forall nf h seeds root fuel s' y,
  wf_heap h seeds = true -> wf_heap2 h = true -> wf_heap3 h = true -> wf_heap3s h = true -> wf_heap4 h = true ->
  root_seeds_ok h seeds root = true -> memz root (owned_list h) = false ->
  0 <= root < hlen h -> (length h < fuel)%nat ->
  run_seeded nf fuel h seeds root = Ok (s', R y) ->
  iso_rel h s' root y root y
  /\ (forall b, reach (sh s') y b -> exists a, iso_rel h s' root y a b)
  /\ (forall a, reach h root a -> (exists b, iso_rel h s' root y a b) \/ empty_annset_part h a)
  /\ (forall a a' b, iso_rel h s' root y a b -> iso_rel h s' root y a' b -> a = a')
  /\ (forall a b b', iso_rel h s' root y a b -> iso_rel h s' root y a b' ->
        b = b' \/ kind_at h a = Some KTuple \/ (reach (sh s') y a /\ a < hlen h)
        \/ (In a (owned_conts h) /\ exists b0, In (a, b0) (sc s')))
  /\ (forall a b, iso_rel h s' root y a b ->
        (b < hlen h -> a = b) /\ (hlen h <= b -> 0 <= a < hlen h /\ a <> b))
  /\ (forall a b, iso_rel h s' root y a b ->
        exists oa ob, hget h a = Some oa /\ hget (sh s') b = Some ob /\ ocls oa = ocls ob /\ okind oa = okind ob
          /\ NoDup (map fst (obody oa)) /\ NoDup (map fst (obody ob))
          /\ (forall k v, In (k, v) (obody oa) ->
                (exists k' v', In (k', v') (obody ob) /\ viso (iso_rel h s' root y) k k' /\ viso (iso_rel h s' root y) v v')
                \/ (is_annk (okind oa) = true /\ k = NM_ANN /\ refs_of (ann_items h oa) = []
                    /\ bget (obody ob) NM_ANN = None))
          /\ (forall k' v', In (k', v') (obody ob) ->
                exists k v, In (k, v) (obody oa) /\ viso (iso_rel h s' root y) k k' /\ viso (iso_rel h s' root y) v v')).
Proof.
  intros nf h seeds root fuel s' y WF WF2 WF3 WF3S WF4 RS NO Hr Hf E.
  destruct (wf_heap_parts _ _ WF) as [Hc _].
  destruct (deepcopy_fresh_disjoint_l nf h seeds root fuel s' y WF Hr Hf E) as [OLD _].
  destruct (deepcopy_bisimulation_l nf h seeds root fuel s' y WF WF2 NO Hr Hf E) as [RR [PAIR INJ]].
  assert (ANN := deepcopy_annotation_sets_l nf h seeds root fuel s' y WF WF2 WF3 NO Hr Hf E).
  destruct (deepcopy_single_valued_l nf h seeds root fuel s' y WF WF2 WF3 RS NO Hr Hf E) as [FUN [SRC FND]].
  destruct (run_inv23 nf h seeds root fuel s' y WF WF2 WF3 NO Hr Hf E) as [J J3].
  assert (NOSRC : forall a b, In (a, b) (sc s') -> ~ owned h a).
  { intros a b I O. apply (proj1 (SRC a b I)). apply owned_in_list. exact O. }
  assert (ANN' : forall a b oa, In (a, b) (sc s') -> hget h a = Some oa -> is_annk (okind oa) = true ->
            exists done, AnnState s' b done /\ map fst done = refs_of (ann_items h oa) /\ (forall p, In p done -> In p (sc s'))).
  { intros a b oa I G AK. exact (ANN a b oa I G AK). }
  assert (SHAPE : forall x ob sx sxo, hget h x = Some ob -> is_annk (okind ob) = true ->
            bget (obody ob) NM_ANN = Some (R sx) -> hget h sx = Some sxo ->
            (forall k v, In (k, v) (obody sxo) ->
               (exists p, k = P p) /\ (k = NM_ILIST \/ k = NM_ISET \/ (k = NM_TARGET /\ ((exists p, v = P p) \/ v = R x))))).
  { intros x ob sx sxo G AK BA GS. exact (proj1 (wf3s_shape h WF3S x ob sx sxo G AK BA GS)). }
  assert (CL := closedb_spec h Hc).
  assert (SND := wf2_nodup h WF2). assert (SO := wf3s_owned h WF3S). assert (LK := wf2_listkeys h WF2).
  assert (PRIV := j_priv _ _ J). assert (OWNC := own_cont _ _ J3).
  assert (EX := wf4_exact h WF4). assert (CND := wf4_nodup h WF4).
  assert (T1 := iso_root h s' root y). feed T1.
  assert (T2 := iso_onto h s' root y). feed T2.
  assert (T3 := iso_total h s' root y). feed T3.
  assert (T4 := iso_injective h s' root y). feed T4.
  assert (T5 := iso_functional h s' root y). feed T5.
  assert (T6 := iso_fresh_or_same h s' root y). feed T6.
  assert (T7 := iso_labels h s' root y). feed T7.
  assert (EF := edges_fwd h s' root y). feed EF.
  assert (EB := edges_back h s' root y). feed EB.
  split; [exact T1|]. split; [exact T2|]. split; [exact T3|]. split; [exact T4|]. split; [exact T5|]. split; [exact T6|].
  intros a b RHO.
  destruct (T7 a b RHO) as [oa [ob [Ga [Gb [C1 K1]]]]].
  exists oa, ob. split; [exact Ga|]. split; [exact Gb|]. split; [exact C1|]. split; [exact K1|].
  split; [exact (SND a oa Ga)|]. split.
  { destruct (Z_lt_le_dec b (hlen h)) as [Lt|Ge].
    - rewrite (OLD b Lt) in Gb. exact (SND b ob Gb).
    - exact (FND b ob Ge Gb). }
  split.
  - intros k v I.
    destruct (EF a b oa k v RHO Ga I) as [[ob1 [k' [v' [Gb1 [I' [VK VV]]]]]]|[AK [EK [Iab [EM [_ NA]]]]]].
    + left. assert (ob1 = ob) by congruence. subst ob1. exists k', v'. auto.
    + right. split; [exact AK|]. split; [exact EK|]. split; [exact EM|]. exact (NA ob Gb).
  - intros k' v' I.
    destruct (EB a b ob k' v' RHO Gb I) as [oa1 [k [v [Ga1 [I0 [VK VV]]]]]].
    assert (oa1 = oa) by congruence. subst oa1. exists k, v. auto.
Qed.

Theorem scoped_copy_isomorphism_l : forall nf h root ns fuel s' y,
  wf_heap h (ns_seeds h ns) = true -> wf_heap2 h = true -> wf_heap3 h = true -> wf_heap3s h = true -> wf_heap4 h = true ->
  root_seeds_ok h (ns_seeds h ns) root = true -> memz root (owned_list h) = false ->
  0 <= root < hlen h -> (length h < fuel)%nat ->
  run nf fuel h root (RScoped ns) = Ok (s', R y) ->
  iso_rel h s' root y root y
  /\ (forall b, reach (sh s') y b -> exists a, iso_rel h s' root y a b)
  /\ (forall a, reach h root a -> (exists b, iso_rel h s' root y a b) \/ empty_annset_part h a)
  /\ (forall a a' b, iso_rel h s' root y a b -> iso_rel h s' root y a' b -> a = a')
  /\ (forall a b, iso_rel h s' root y a b ->
        (b < hlen h -> a = b) /\ (hlen h <= b -> 0 <= a < hlen h /\ a <> b)).
Proof.
  intros nf h root ns fuel s' y WF WF2 WF3 WF3S WF4 RS NO Hr Hf E. simpl in E.
  destruct (deepcopy_isomorphism_l nf h _ root fuel s' y WF WF2 WF3 WF3S WF4 RS NO Hr Hf E) as [A [B [C [D [_ [F _]]]]]].
  auto.
Qed.

Theorem scoped_shares_exactly_l : forall nf h root ns fuel s' y,
  wf_heap h (ns_seeds h ns) = true -> wf_heap2 h = true -> wf_heap3 h = true -> wf_heap3s h = true ->
  root_seeds_ok h (ns_seeds h ns) root = true -> memz root (owned_list h) = false ->
  0 <= root < hlen h -> (length h < fuel)%nat ->
  run nf fuel h root (RScoped ns) = Ok (s', R y) ->
  (forall o, reach (sh s') y o -> reach (sh s') root o ->
     exists b, (In b (ns_seeds h ns) \/ is_atomic h b = true) /\ reach h b o)
  /\ (forall b o, In b (ns_seeds h ns) -> reach h root b -> reach h b o ->
        reach (sh s') y o /\ reach (sh s') root o /\ iso_rel h s' root y o o).
Proof.
  intros nf h root ns fuel s' y WF WF2 WF3 WF3S RS NO Hr Hf E. split.
  - exact (scoped_shares_only_namespace_l nf h root ns fuel s' y WF Hr Hf E).
  - intros b o SB RB BO.
    destruct (scoped_shares_every_seed_l nf h root ns fuel s' y WF WF2 WF3 WF3S RS NO Hr Hf E b o SB RB BO) as [R1 R2].
    split; [exact R1|]. split; [exact R2|].
    destruct (wf_heap_parts _ _ WF) as [Hc _]. simpl in E.
    destruct (deepcopy_image_l nf h _ root fuel s' y WF WF2 WF3 WF3S RS NO Hr Hf E) as [_ IMG].
    assert (RO : reach h root o) by (eapply reach_trans; eassumption).
    destruct (IMG o RO) as [Ho _].
    split; [exact RO|]. split; [exact R1|]. right. left. split; [reflexivity | exact Ho].
Qed.

(* ---- the hypotheses are satisfiable, and the relation is not trivial --------------------------------------- *)

Example ex_wf4 : wf_heap4 ex_heap = true /\ root_ok4 ex_heap 0 = true.
Proof. vm_compute. split; reflexivity. Qed.

(* on the example heap (tree 0, namespace 1, _taxa 2, annotation set 3/4/5, bound annotation 6, taxon 7,
   tuple 8) the deep copy is 9..; the correspondence relates the annotation set 3 to the rebuilt set and the
   taxon 7 to its copy; under the namespace-scoped copy the taxon corresponds to itself *)
Example ex_iso_pairs :
  (exists s', run false 10 ex_heap 0 RDeep = Ok (s', R 9)
      /\ In (6, 13) (sc s') /\ In (7, 12) (sc s') /\ In (8, 15) (sc s')
      /\ bget (body_of s' 9) NM_ANN = Some (R 16) /\ body_of s' 17 = [(pidx 0, R 13)])
  /\ (exists s', run false 10 ex_heap 0 (RScoped 1) = Ok (s', R 9)
      /\ bget (body_of s' 9) (P 100) = Some (R 1) /\ ~ In 7 (map fst (sc s'))).
Proof.
  split.
  - eexists. split; [vm_compute; reflexivity|]. vm_compute. repeat split; auto 10.
  - eexists. split; [vm_compute; reflexivity|]. vm_compute. split; [reflexivity|]. intros [H|[H|[H|[H|H]]]]; try discriminate H; exact H.
Qed.

(* ---- refuted strengthenings ------------------------------------------------------------------------------------ *)

(* an annotable object whose annotation set is EMPTY *)
Definition empty_ann_heap : heap := [
  mkObj 10 KAnnotable [(P 101, P 50); (NM_ANN, R 1)];
  mkObj 4 KAnnSet [(NM_ILIST, R 2); (NM_ISET, R 3); (NM_TARGET, R 0)];
  mkObj 0 KList [];
  mkObj 2 KSet []
].

(* "the correspondence is a bijection between everything the source reaches and everything the copy reaches"
   is false without the exception empty_annset_part: the source reaches 4 objects, the copy 1 *)
Example raw_bijection_refuted_l :
  wf_heap empty_ann_heap [] = true /\ wf_heap2 empty_ann_heap = true /\ wf_heap3 empty_ann_heap = true
  /\ wf_heap3s empty_ann_heap = true /\ wf_heap4 empty_ann_heap = true /\ root_seeds_ok empty_ann_heap [] 0 = true
  /\ exists s', run_seeded false 6 empty_ann_heap [] 0 = Ok (s', R 4)
       /\ reach_count empty_ann_heap 0 = 4%nat /\ reach_count (sh s') 4 = 1%nat
       /\ bget (body_of s' 4) NM_ANN = None.
Proof. repeat (split; [vm_compute; reflexivity|]). eexists. split; [vm_compute; reflexivity|]. vm_compute. auto. Qed.

(* the (owner, name) tuple of a bound annotation that is ALSO the value of an attribute of the owner *)
Definition alias_tuple_heap : heap := [
  mkObj 10 KAnnotable [(P 101, R 5); (NM_ANN, R 1)];
  mkObj 4 KAnnSet [(NM_ILIST, R 2); (NM_ISET, R 3); (NM_TARGET, R 0)];
  mkObj 0 KList [(pidx 0, R 4)];
  mkObj 2 KSet [(R 4, P 0)];
  mkObj 12 KAnnotable [(NM_VALUE, R 5); (NM_ISATTR, P 2)];
  mkObj 3 KTuple [(pidx 0, R 0); (pidx 1, P 101)]
].

(* "the correspondence is single-valued" is false on tuples: the source tuple 5 has two recorded copies, 7
   (the generic copy, value of the copy's attribute) and 9 (the re-targeted pair), both reachable from the
   copy, with identical content (copy, name); the source reaches 6 objects, the copy 7 *)
Example tuple_single_valued_refuted_l :
  wf_heap alias_tuple_heap [] = true /\ wf_heap2 alias_tuple_heap = true /\ wf_heap3 alias_tuple_heap = true
  /\ wf_heap3s alias_tuple_heap = true /\ wf_heap4 alias_tuple_heap = true /\ root_seeds_ok alias_tuple_heap [] 0 = true
  /\ exists s', run_seeded false 8 alias_tuple_heap [] 0 = Ok (s', R 6)
       /\ copies_of (sc s') 5 = [9; 7]
       /\ existsb (Z.eqb 7) (reach_list (sh s') [6]) = true /\ existsb (Z.eqb 9) (reach_list (sh s') [6]) = true
       /\ body_of s' 7 = [(pidx 0, R 6); (pidx 1, P 101)] /\ body_of s' 9 = [(pidx 0, R 6); (pidx 1, P 101)]
       /\ reach_count alias_tuple_heap 0 = 6%nat /\ reach_count (sh s') 6 = 7%nat.
Proof. repeat (split; [vm_compute; reflexivity|]). eexists. split; [vm_compute; reflexivity|]. vm_compute. auto 10. Qed.

(* tuples: the model ALWAYS allocates a new tuple; when every member is unchanged (immutable values, memo-seeded
   or atomic objects) the new tuple's content is identical to the source's - the case in which CPython's
   _deepcopy_tuple hands back the very same tuple object.  Scoped copy of an object holding (taxon, "x"): *)
Definition seeded_tuple_heap : heap := [
  mkObj 10 KAnnotable [(P 100, R 1); (P 101, R 4)];
  mkObj 11 KNamespace [(NM_TAXA, R 2)];
  mkObj 0 KList [(pidx 0, R 3)];
  mkObj 13 KTaxon [(P 103, P 70)];
  mkObj 3 KTuple [(pidx 0, R 3); (pidx 1, P 60)]
].

Example tuple_unchanged_same_content_l :
  exists s' t', run false 6 seeded_tuple_heap 0 (RScoped 1) = Ok (s', R 5)
    /\ bget (body_of s' 5) (P 101) = Some (R t') /\ t' <> 4
    /\ body_of s' t' = body_of (init_st false seeded_tuple_heap []) 4.
Proof. eexists. exists 6. split; [vm_compute; reflexivity|]. vm_compute. repeat split. discriminate. Qed.
