(* C03Gen: observational equality of heaps is respected by the Heap.v primitives used below, and
   writes to different cells / different fields commute up to it. *)
From Coq Require Import ZArith List Bool Lia.
From DV Require Import Model.PyPrims Model.Tree Model.Heap Model.C15Prims Model.MutPrims
     Model.C03GenInst Proofs.C03Base Proofs.C03GenPrims.
Import ListNotations.
Open Scope Z_scope.

Lemma heq_kids a b x : heq a b -> kids a x = kids b x.
Proof. intros [_ [_ [_ Hg]]]. unfold kids. rewrite Hg. reflexivity. Qed.
Lemma heq_parent a b x : heq a b -> parent a x = parent b x.
Proof. intros [_ [_ [_ Hg]]]. unfold parent. rewrite Hg. reflexivity. Qed.
Lemma heq_elen a b x : heq a b -> elen a x = elen b x.
Proof. intros [_ [_ [_ Hg]]]. unfold elen. rewrite Hg. reflexivity. Qed.

Lemma heq_set_kids i v a b : heq a b -> heq (set_kids i v a) (set_kids i v b).
Proof. apply heq_upd_cell. Qed.
Lemma heq_set_parent i v a b : heq a b -> heq (set_parent i v a) (set_parent i v b).
Proof. apply heq_upd_cell. Qed.
Lemma heq_set_elen i v a b : heq a b -> heq (set_elen i v a) (set_elen i v b).
Proof. apply heq_upd_cell. Qed.

Lemma heq_insert_child p i c a b : heq a b -> heq (insert_child p i c a) (insert_child p i c b).
Proof.
  intro H. unfold insert_child.
  assert (H1 : heq (set_parent c (Some p) a) (set_parent c (Some p) b)) by (apply heq_set_parent; exact H).
  rewrite (heq_kids _ _ p H1).
  destruct (index_of c (kids (set_parent c (Some p) b) p)) as [cur|].
  - destruct (Nat.eqb cur i); [exact H1|apply heq_set_kids; exact H1].
  - apply heq_set_kids; exact H1.
Qed.

Lemma heq_insert_each p i : forall l a b, heq a b -> heq (insert_each p i l a) (insert_each p i l b).
Proof.
  induction l as [|c r IH]; intros a b H; [exact H|]. simpl. apply IH. apply heq_insert_child. exact H.
Qed.

(* writes to different cells, or to different fields of one cell, commute observationally *)
Lemma heq_upd_comm i k (f g : cell -> cell) h :
  (i = k -> forall c, f (g c) = g (f c)) ->
  heq (upd_cell i f (upd_cell k g h)) (upd_cell k g (upd_cell i f h)).
Proof.
  intro Hc. repeat split. intro j. rewrite !get_upd_cell.
  destruct (Z.eqb_spec j i) as [Eji|Nji], (Z.eqb_spec j k) as [Ejk|Njk]; subst.
  - rewrite !Z.eqb_refl. apply Hc. reflexivity.
  - destruct (Z.eqb_spec i k); [contradiction|]. reflexivity.
  - destruct (Z.eqb_spec k i); [subst; contradiction|]. reflexivity.
  - reflexivity.
Qed.

Lemma set_kids_set_parent_comm tr v c q h :
  heq (set_parent c q (set_kids tr v h)) (set_kids tr v (set_parent c q h)).
Proof. unfold set_parent, set_kids. apply heq_upd_comm. intros _ [a b d e f]. reflexivity. Qed.

Lemma set_kids_set_kids_comm tr v p w h :
  tr <> p -> heq (set_kids p w (set_kids tr v h)) (set_kids tr v (set_kids p w h)).
Proof. intro N. unfold set_kids. apply heq_upd_comm. intro E. subst. contradiction. Qed.

Lemma insert_child_set_kids_comm p i c tr v h :
  tr <> p -> heq (insert_child p i c (set_kids tr v h)) (set_kids tr v (insert_child p i c h)).
Proof.
  intro N. unfold insert_child.
  pose proof (set_kids_set_parent_comm tr v c (Some p) h) as H1.
  rewrite (heq_kids _ _ p H1), kids_set_kids.
  destruct (Z.eqb_spec p tr) as [E|_]; [subst; contradiction|].
  destruct (index_of c (kids (set_parent c (Some p) h) p)) as [cur|].
  - destruct (Nat.eqb cur i); [exact H1|].
    eapply heq_trans; [apply heq_set_kids; exact H1|]. apply set_kids_set_kids_comm. exact N.
  - eapply heq_trans; [apply heq_set_kids; exact H1|]. apply set_kids_set_kids_comm. exact N.
Qed.

Lemma insert_each_set_kids_comm p i tr v : forall l h,
  tr <> p -> heq (insert_each p i l (set_kids tr v h)) (set_kids tr v (insert_each p i l h)).
Proof.
  induction l as [|c r IH]; intros h N; [apply heq_refl|]. simpl.
  eapply heq_trans; [apply heq_insert_each; apply insert_child_set_kids_comm; exact N|].
  apply IH. exact N.
Qed.
