(* C02 (NEXUS): the taxon symbol mapper of a TREES block (lookup order token -> label -> number)
   resolves the tokens NexusWriter puts into the tree statements to the positions of the taxa in the
   TAXA block -- also when labels look like numbers. *)
From Coq Require Import ZArith List Bool Lia Arith DecimalN FinFun.
From DV Require Import Model.PyPrims Gen.CharClasses Model.Tokenizer Model.Newick Model.C02Spec Model.C02ListSpec
     Model.C02Nexus Model.C02NexusSpec
     Proofs.C02Lex Proofs.C02Parse Proofs.C02ListParse Proofs.C02ListMap.
Import ListNotations.

Lemma nodup_app_l {A} (a b : list A) : NoDup (a ++ b) -> NoDup a.
Proof. induction a as [|x a IH]; simpl; intro H; [constructor|]. inversion H; subst. constructor; [intro Hi; apply H2; apply in_app_iff; left; exact Hi | apply IH; exact H3]. Qed.
Lemma nodup_app_r {A} (a b : list A) : NoDup (a ++ b) -> NoDup b.
Proof. induction a as [|x a IH]; simpl; intro H; [exact H|]. inversion H; subst. apply IH. exact H3. Qed.
Lemma nodup_app_disj {A} (a b : list A) x : NoDup (a ++ b) -> In x a -> In x b -> False.
Proof.
  induction a as [|y a IH]; simpl; intros H Ha Hb; [contradiction|]. inversion H; subst.
  destruct Ha as [Ha|Ha]; [subst; apply H2; apply in_app_iff; right; exact Hb | apply IH; assumption].
Qed.

Section NexusMap.
Variable L : Type.
Variable lower : str -> str.
Variable o : rt_opts.

Notation ntree := (ntree L).
Notation ptree := (ptree L).
Notation expectM := (expectM L lower o).
Notation expectM_list := (expectM_list L lower o).
Notation noclashM := (noclashM L lower o).
Notation noclashM_list := (noclashM_list L lower o).
Notation taxa_order := (taxa_order L o).
Notation own_taxa := (own_taxa L o).
Notation expectF := (expectF L o).

(* ---- a mapper that answers every token of the tree without changing: expectM = expectF ---- *)
Section Fixed.
Variable m : mapper.
Variable ixs : str -> nat.

Definition FixNode (t : ntree) : Prop :=
  forall seen,
    (forall s, In s (taxa_order t) -> require_taxon_for_symbol lower m s = (ixs s, m)) ->
    NoDup (map ixs (taxa_order t)) ->
    (forall s, In s (taxa_order t) -> ~ In (ixs s) seen) ->
    noclashM t (seen, m) = true /\
    expectM t (seen, m) = (expectF ixs t, (rev (map ixs (taxa_order t)) ++ seen, m)).

Lemma existsb_nat_false i seen : ~ In i seen -> existsb (Nat.eqb i) seen = false.
Proof.
  intro H. destruct (existsb (Nat.eqb i) seen) eqn:E; [|reflexivity]. exfalso.
  apply existsb_exists in E. destruct E as [x [Hx Ex]]. apply Nat.eqb_eq in Ex. subst. contradiction.
Qed.

Lemma fix_node_all : forall t, FixNode t.
Proof.
  induction t as [tx lb ln ks IH] using ntree_ind'. intros seen Hreq Hnd Hseen.
  rewrite (taxa_order_unfold L o) in *.
  assert (KS : forall seen,
     (forall s, In s (flat_map taxa_order ks) -> require_taxon_for_symbol lower m s = (ixs s, m)) ->
     NoDup (map ixs (flat_map taxa_order ks)) ->
     (forall s, In s (flat_map taxa_order ks) -> ~ In (ixs s) seen) ->
     noclashM_list ks (seen, m) = true /\
     expectM_list ks (seen, m) = (map (expectF ixs) ks, (rev (map ixs (flat_map taxa_order ks)) ++ seen, m))).
  { clear Hreq Hnd Hseen seen. induction ks as [|k r IHr]; intros seen Hreq Hnd Hseen.
    - split; reflexivity.
    - pose proof (Forall_inv IH) as Ik. pose proof (Forall_inv_tail IH) as Ir. cbv beta in Ik. unfold FixNode in Ik.
      cbn [flat_map] in *. rewrite map_app in Hnd.
      destruct (Ik seen) as [A1 A2].
      { intros s Hs. apply Hreq. apply in_app_iff. left. exact Hs. }
      { apply nodup_app_l in Hnd. exact Hnd. }
      { intros s Hs. apply Hseen. apply in_app_iff. left. exact Hs. }
      destruct (IHr Ir (rev (map ixs (taxa_order k)) ++ seen)) as [B1 B2].
      { intros s Hs. apply Hreq. apply in_app_iff. right. exact Hs. }
      { apply nodup_app_r in Hnd. exact Hnd. }
      { intros s Hs Hi. apply in_app_iff in Hi. destruct Hi as [Hi|Hi].
        - apply in_rev in Hi. apply in_map_iff in Hi. destruct Hi as [s' [E Hs']].
          apply (nodup_app_disj _ _ (ixs s) Hnd); [rewrite <- E; apply in_map; exact Hs' | apply in_map; exact Hs].
        - apply (Hseen s); [apply in_app_iff; right; exact Hs | exact Hi]. }
      cbn [C02ListParse.noclashM_list C02ListParse.expectM_list]. rewrite A1, A2. cbn [fst snd].
      rewrite B1, B2. split; [reflexivity|]. cbn [map]. rewrite map_app, rev_app_distr, <- app_assoc. reflexivity. }
  destruct (KS seen) as [K1 K2].
  { intros s Hs. apply Hreq. apply in_app_iff. left. exact Hs. }
  { rewrite map_app in Hnd. apply nodup_app_l in Hnd. exact Hnd. }
  { intros s Hs. apply Hseen. apply in_app_iff. left. exact Hs. }
  rewrite (noclashM_unfold L lower o), (expectM_unfold L lower o), K1, K2. cbn [fst snd].
  unfold C02ListParse.bodyM, C02ListParse.body_ok, C02ListParse.tstepM. cbn [fst snd n_len].
  cbn [C02NexusSpec.expectF].
  rewrite (own_taxa_tax L o) in *. rewrite (exp_label_lbl L o).
  destruct (own_tax L o (Nd tx lb ln ks)) as [l|].
  - rewrite (Hreq l) by (apply in_app_iff; right; left; reflexivity). cbn [fst snd].
    rewrite existsb_nat_false.
    + split; [reflexivity|]. unfold finish. cbn [pn_taxon pn_label pn_len pn_comments].
      rewrite map_app, rev_app_distr. reflexivity.
    + intro Hi. apply in_app_iff in Hi. destruct Hi as [Hi|Hi].
      * apply in_rev in Hi. rewrite map_app in Hnd. simpl in Hnd.
        apply NoDup_remove_2 in Hnd. apply Hnd. rewrite app_nil_r. exact Hi.
      * apply (Hseen l); [apply in_app_iff; right; left; reflexivity | exact Hi].
  - split; [reflexivity|]. unfold finish. cbn [pn_taxon pn_label pn_len pn_comments].
    simpl. rewrite app_nil_r. reflexivity.
Qed.

End Fixed.

(* ---- association lists ---- *)
Lemma assoc_in {A} (al : list (str * A)) k v : NoDup (map fst al) -> In (k, v) al -> assoc k al = Some v.
Proof.
  induction al as [|[k' v'] al IH]; simpl; intros Hnd Hi; [contradiction|].
  inversion Hnd; subst. destruct Hi as [Hi|Hi].
  - inversion Hi; subst. assert (E : str_eqb k k = true) by (apply str_eqb_eq; reflexivity). rewrite E. reflexivity.
  - destruct (str_eqb k k') eqn:E.
    + apply str_eqb_eq in E. subst. exfalso. apply H1. apply (in_map fst) in Hi. exact Hi.
    + apply IH; assumption.
Qed.

Lemma enum_from_in {A} (l : list A) : forall off i x, nth_error l i = Some x -> In ((off + i)%nat, x) (enum_from off l).
Proof.
  induction l as [|y l IH]; intros off i x H; [destruct i; discriminate|].
  destruct i as [|i]; simpl in *.
  - inversion H; subst. left. rewrite Nat.add_0_r. reflexivity.
  - right. replace (off + S i)%nat with (S off + i)%nat by lia. apply IH. exact H.
Qed.

Lemma enum_from_fst {A} (l : list A) : forall off, map fst (enum_from off l) = seq off (length l).
Proof. induction l as [|y l IH]; intro off; simpl; [reflexivity|]. rewrite IH. reflexivity. Qed.

Lemma enum_from_snd {A} (l : list A) : forall off, map snd (enum_from off l) = l.
Proof. induction l as [|y l IH]; intro off; simpl; [reflexivity|]. rewrite IH. reflexivity. Qed.

(* ---- positions ---- *)
Lemma index_of_spec l : forall ns off i, index_of l ns off = Some i ->
  (off <= i)%nat /\ nth_error ns (i - off) = Some l.
Proof.
  induction ns as [|x ns IH]; intros off i H; simpl in H; [discriminate|].
  destruct (str_eqb x l) eqn:E.
  - inversion H; subst. apply str_eqb_eq in E. subst. rewrite Nat.sub_diag. split; [lia | reflexivity].
  - destruct (IH _ _ H) as [A B]. split; [lia|]. replace (i - off)%nat with (S (i - S off)) by lia. exact B.
Qed.

Lemma index_of_in l : forall ns off, In l ns -> exists i, index_of l ns off = Some i.
Proof.
  induction ns as [|x ns IH]; intros off H; [contradiction|]. simpl.
  destruct (str_eqb x l) eqn:E; [eexists; reflexivity|].
  destruct H as [H|H]; [subst; assert (X : str_eqb l l = true) by (apply str_eqb_eq; reflexivity); congruence|].
  apply IH. exact H.
Qed.

Lemma pos_nth ns l : In l ns -> nth_error ns (pos ns l) = Some l.
Proof.
  intro H. unfold pos. destruct (index_of_in l ns O H) as [i E]. rewrite E.
  destruct (index_of_spec l ns O i E) as [_ B]. rewrite Nat.sub_0_r in B. exact B.
Qed.

Lemma pos_lt ns l : In l ns -> (pos ns l < length ns)%nat.
Proof. intro H. apply nth_error_Some. rewrite (pos_nth ns l H). discriminate. Qed.

Lemma nodup_map_nodup {A B} (f : A -> B) (l : list A) : NoDup (map f l) -> NoDup l.
Proof.
  induction l as [|x l IH]; simpl; intro H; [constructor|]. inversion H; subst.
  constructor; [intro Hi; apply H2; apply in_map; exact Hi | apply IH; exact H3].
Qed.

Lemma nth_error_nodup_inj {A} (l : list A) i j x : NoDup l ->
  nth_error l i = Some x -> nth_error l j = Some x -> i = j.
Proof.
  intros Hnd Hi Hj. apply (proj1 (NoDup_nth_error l) Hnd); [apply nth_error_Some; congruence | congruence].
Qed.

(* find_key (case-folded search) finds the exact position when the folded labels are distinct *)
Lemma find_key_pos ns l : NoDup (map lower ns) -> In l ns -> find_key lower ns l O = Some (pos ns l).
Proof.
  intros Hnd Hin.
  assert (G : forall ns off, NoDup (map lower ns) -> In l ns ->
              exists i, find_key lower ns l off = Some (off + i)%nat /\ nth_error ns i = Some l).
  { clear. induction ns as [|x ns IH]; intros off Hnd Hin; [contradiction|]. simpl.
    inversion Hnd; subst. destruct (str_eqb (lower x) (lower l)) eqn:E.
    - apply str_eqb_eq in E. destruct Hin as [Hin|Hin].
      + subst. exists O. rewrite Nat.add_0_r. split; reflexivity.
      + exfalso. apply H1. rewrite E. apply in_map. exact Hin.
    - destruct Hin as [Hin|Hin].
      + subst. assert (X : str_eqb (lower l) (lower l) = true) by (apply str_eqb_eq; reflexivity). congruence.
      + destruct (IH (S off) H2 Hin) as [i [A B]]. exists (S i). split; [rewrite A; f_equal; lia | exact B]. }
  destruct (G ns O Hnd Hin) as [i [A B]]. rewrite A. simpl. f_equal.
  apply (nth_error_nodup_inj ns i (pos ns l) l (nodup_map_nodup lower ns Hnd) B (pos_nth ns l Hin)).
Qed.

(* ---- decimal numerals are injective ---- *)
Lemma uint_digits_inj : forall a b, uint_digits a = uint_digits b -> a = b.
Proof.
  induction a as [|a IH|a IH|a IH|a IH|a IH|a IH|a IH|a IH|a IH|a IH]; destruct b; simpl; intro H;
    try discriminate; try reflexivity; inversion H; f_equal; apply IH; assumption.
Qed.

Lemma dec_of_nat_inj a b : dec_of_nat a = dec_of_nat b -> a = b.
Proof.
  unfold dec_of_nat. intro H. apply uint_digits_inj in H.
  apply Nnat.Nat2N.inj. rewrite <- (DecimalN.Unsigned.of_to (N.of_nat a)), <- (DecimalN.Unsigned.of_to (N.of_nat b)).
  rewrite H. reflexivity.
Qed.

(* ---- the TREES block mappers ---- *)
Hypothesis lower_digits : forall n, lower (dec_of_nat n) = dec_of_nat n.

(* TRANSLATE token numbers: the member at position i gets the token str(tokn i + 1)
   (tokn i = its accession index; tokn = identity for a namespace that was never re-ordered) *)
Variable tokn : nat -> nat.

Lemma nodup_map_on {A B} (g : A -> B) (l : list A) :
  NoDup l -> (forall x y, In x l -> In y l -> g x = g y -> x = y) -> NoDup (map g l).
Proof.
  intros Hnd Hinj. induction Hnd as [|x l Hx Hl IH]; [constructor|]. simpl. constructor.
  - intro Hi. apply in_map_iff in Hi. destruct Hi as [y [E Hy]].
    assert (y = x) by (apply Hinj; [right; exact Hy | left; reflexivity | exact E]). subst. contradiction.
  - apply IH. intros a b Ha Hb. apply Hinj; right; assumption.
Qed.

Definition m0 (ns : list str) : mapper := new_mapper lower ns true false.

Lemma m0_labels_keys ns : map fst (m_labels (m0 ns)) = rev (map lower ns).
Proof.
  unfold m0, new_mapper. cbn [m_labels]. rewrite map_rev, map_map. cbn [fst].
  f_equal. rewrite <- (enum_from_snd ns O) at 2. rewrite map_map. reflexivity.
Qed.

Lemma label_lookup ns l : NoDup (map lower ns) -> In l ns ->
  assoc (lower l) (m_labels (m0 ns)) = Some (pos ns l).
Proof.
  intros Hnd Hin. apply assoc_in.
  - rewrite m0_labels_keys. apply NoDup_rev. exact Hnd.
  - unfold m0, new_mapper. cbn [m_labels]. apply -> in_rev.
    apply (in_map (fun p : nat * str => (lower (snd p), fst p)) _ (pos ns l, l)).
    apply (enum_from_in ns O (pos ns l) l). apply pos_nth. exact Hin.
Qed.

(* without TRANSLATE the tree token is the label: found in the label map (before any number) *)
Lemma lookup_plain ns l : NoDup (map lower ns) -> In l ns ->
  require_taxon_for_symbol lower (m0 ns) l = (pos ns l, m0 ns).
Proof.
  intros Hnd Hin. unfold require_taxon_for_symbol, m_key. cbn [m_case_sensitive m_tokens m0 new_mapper assoc].
  fold (m0 ns). rewrite (label_lookup ns l Hnd Hin). reflexivity.
Qed.

(* the mapper after the TRANSLATE statement the writer produces *)
Definition add_tokens (m : mapper) (ils : list (nat * str)) : mapper :=
  fold_left (fun m il => add_translate_token lower m (dec_of_nat (S (tokn (fst il)))) (fst il)) ils m.

Definition mT (ns : list str) : mapper := add_tokens (m0 ns) (enum_from O ns).

Lemma add_tokens_tokens : forall ils m, m_case_sensitive m = false ->
  m_tokens (add_tokens m ils) = rev (map (fun il => (dec_of_nat (S (tokn (fst il))), fst il)) ils) ++ m_tokens m
  /\ m_case_sensitive (add_tokens m ils) = false.
Proof.
  induction ils as [|il ils IH]; intros m Hcs; [split; [reflexivity | exact Hcs]|].
  change (add_tokens m (il :: ils)) with (add_tokens (add_translate_token lower m (dec_of_nat (S (tokn (fst il)))) (fst il)) ils).
  destruct (IH (add_translate_token lower m (dec_of_nat (S (tokn (fst il)))) (fst il)) Hcs) as [A B].
  rewrite A, B. split; [|reflexivity]. unfold add_translate_token, m_key. cbn [m_tokens]. rewrite Hcs, lower_digits.
  simpl. rewrite <- app_assoc. reflexivity.
Qed.

Lemma lookup_translate ns l : In l ns ->
  (forall i j, (i < length ns)%nat -> (j < length ns)%nat -> tokn i = tokn j -> i = j) ->
  require_taxon_for_symbol lower (mT ns) (dec_of_nat (S (tokn (pos ns l)))) = (pos ns l, mT ns).
Proof.
  intros Hin Hinj. unfold require_taxon_for_symbol, m_key.
  destruct (add_tokens_tokens (enum_from O ns) (m0 ns) eq_refl) as [A B]. fold (mT ns) in A, B.
  rewrite B. rewrite lower_digits. rewrite A.
  cbn [m0 new_mapper m_tokens]. rewrite app_nil_r.
  rewrite (assoc_in _ (dec_of_nat (S (tokn (pos ns l)))) (pos ns l)); [reflexivity| |].
  - rewrite map_rev, map_map. cbn [fst]. apply NoDup_rev.
    rewrite <- (map_map fst (fun i => dec_of_nat (S (tokn i)))). rewrite enum_from_fst.
    apply nodup_map_on; [apply seq_NoDup|].
    intros a b Ha Hb E. apply in_seq in Ha. apply in_seq in Hb. apply dec_of_nat_inj in E.
    apply Hinj; lia.
  - apply -> in_rev. apply (in_map (fun il : nat * str => (dec_of_nat (S (tokn (fst il))), fst il)) _ (pos ns l, l)).
    apply (enum_from_in ns O (pos ns l) l). apply pos_nth. exact Hin.
Qed.

End NexusMap.
