(* C03 proofs: refinement and leaf-multiset statements in terms of abs; the add_child defect (F18)
   as a refuted statement; non-vacuity examples. *)
From Coq Require Import ZArith List Bool Lia Permutation.
From DV Require Import Model.PyPrims Model.Tree Model.Heap Model.HeapOps Model.C03Spec
  Proofs.C03Base Proofs.C03Abs Proofs.C03Local Proofs.C03Prims
  Proofs.C03Collapse Proofs.C03Suppress Proofs.C03Reseed Proofs.C03Order Proofs.C03Ops
  Proofs.C03SpecLinks Proofs.C03Ops2 Proofs.C03Unweighted Proofs.C03Hist.
Import ListNotations.
Open Scope Z_scope.

Lemma has_dup_false l : has_dup l = false <-> NoDup l.
Proof.
  induction l as [|x r IH]; simpl.
  - split; [constructor|reflexivity].
  - rewrite orb_false_iff, NoDup_cons_iff, memz_false, IH. reflexivity.
Qed.

(* ---------- refinement: abs (op h) = spec_op (abs h) ---------- *)

Theorem suppress_refines_l h t :
  WF h -> abs h = Some t ->
  exists h', suppress_unifurcations h = HOk h' /\ WF h' /\ abs h' = Some (spec_su t) /\
             leaf_taxa (spec_su t) = leaf_taxa t /\ rooted h' = rooted h.
Proof.
  intros W E. pose proof (WF_abs_t h t W E) as Wt.
  destruct (suppress_unifurcations_wf h t Wt) as [h' [E' [W' [_ [R _]]]]].
  exists h'. split; [exact E'|split; [eapply WFt_WF, W'|split; [apply abs_WFt, W'|split; [apply leaf_taxa_spec_su|exact R]]]].
Qed.

Theorem collapse_basal_refines_l u h t :
  WF h -> abs h = Some t ->
  exists h', collapse_basal_bifurcation u h = HOk h' /\ WF h' /\ abs h' = Some (spec_collapse_basal t) /\
             leaf_taxa (spec_collapse_basal t) = leaf_taxa t /\ (u = false -> rooted h' = rooted h).
Proof.
  intros W E. pose proof (WF_abs_t h t W E) as Wt.
  destruct (collapse_basal_wf h t u Wt) as [h' [E' [W' [_ [_ [_ R]]]]]].
  exists h'. split; [exact E'|split; [eapply WFt_WF, W'|split; [apply abs_WFt, W'|split; [apply leaf_taxa_collapse_basal|exact R]]]].
Qed.

Theorem edge_collapse_refines_l adj h t ci :
  WF h -> abs h = Some t -> In ci (ids t) -> ci <> seed h -> kids h ci <> [] ->
  exists h', edge_collapse ci adj h = HOk h' /\ WF h' /\ abs h' = Some (spec_collapse ci adj t) /\
             leaf_taxa (spec_collapse ci adj t) = leaf_taxa t /\ rooted h' = rooted h.
Proof.
  intros W E Hc Ds Hk. pose proof (WF_abs_t h t W E) as Wt.
  destruct (find_ctx t ci Hc) as [c [s [-> Es]]]. subst ci.
  pose proof Wt as [W0 S]. pose proof W0 as [_ [N _]].
  rewrite (kids_of_focus h c s W0) in Hk.
  pose proof (edge_collapse_op_wf adj h c s Wt) as H.
  destruct c as [|c' p x l e lft rgt].
  - exfalso. apply Ds. rewrite <- S. reflexivity.
  - destruct s as [ci xc lc ec kc]. simpl t_kids in *. simpl t_id in *. simpl t_len in *.
    destruct kc as [|k0 kr]; [exfalso; apply Hk; reflexivity|].
    destruct H as [h' [E' [W' [_ R]]]]. simpl plug in N.
    exists h'. split; [exact E'|split; [eapply WFt_WF, W'|]].
    simpl plug. rewrite (spec_collapse_plug c' p x l e lft ci xc lc ec (k0 :: kr) rgt adj) by (discriminate || exact N).
    split; [apply abs_WFt, W'|split; [|exact R]].
    apply leaf_taxa_plug_collapse. discriminate.
Qed.

Theorem reseed_refines_l ub cb su h t n :
  WF h -> abs h = Some t -> In n (ids t) -> (kids h n <> [] \/ su = false) ->
  exists h' t1, reseed_at n ub cb su h = HOk h' /\ WF h' /\
    spec_reseed n t = Some t1 /\ abs h' = Some (spec_encode su cb (not_rooted h) t1) /\
    Permutation (ids t1) (ids t).
Proof.
  intros W E Hn Hk. pose proof (WF_abs_t h t W E) as Wt.
  destruct (find_ctx t n Hn) as [c [s [-> Es]]]. subst n.
  pose proof Wt as [W0 _]. pose proof W0 as [_ [N _]].
  rewrite (kids_of_focus h c s W0) in Hk.
  assert (Hs : t_kids s <> [] \/ su = false).
  { destruct Hk as [H0|H0]; [left|right; exact H0]. intro E0. apply H0. rewrite E0. reflexivity. }
  destruct (reseed_at_wf ub cb su h c s Wt Hs) as [h' [E' [W' _]]].
  exists h', (reroot c s). split; [exact E'|split; [eapply WFt_WF, W'|]].
  split; [apply rr_plug, N|split; [apply abs_WFt, W'|apply ids_reroot]].
Qed.

Lemma ctx_keeps_leaves_of_root c : forall s,
  (2 <= length (t_kids (plug c s)))%nat -> c <> CTop -> ctx_keeps_leaves c.
Proof.
  induction c as [|c' IH i x l e lft rgt]; intros s H D; [congruence|]. simpl. split.
  - destruct c' as [|c'' j y m f a b]; [|right; discriminate]. left.
    simpl in H. rewrite app_length in H. simpl in H. destruct lft, rgt; simpl in *; try discriminate; lia.
  - destruct c' as [|c'' j y m f a b]; [exact I|].
    apply (IH (T i x l e (lft ++ s :: rgt))); [exact H|discriminate].
Qed.

(* re-seeding at an internal node of a tree whose root has at least two children keeps the
   multiset of leaf taxa (with the clean-up passes of any flag setting) *)
Theorem reseed_leaf_multiset_l ub cb su h t n :
  WF h -> abs h = Some t -> In n (ids t) -> kids h n <> [] -> (2 <= length (t_kids t))%nat ->
  exists h' t', reseed_at n ub cb su h = HOk h' /\ abs h' = Some t' /\
    Permutation (leaf_taxa t') (leaf_taxa t).
Proof.
  intros W E Hn Hk H2. pose proof (WF_abs_t h t W E) as Wt.
  destruct (find_ctx t n Hn) as [c [s [-> Es]]]. subst n.
  pose proof Wt as [W0 _]. rewrite (kids_of_focus h c s W0) in Hk.
  assert (Hs : t_kids s <> []). { intro E0. apply Hk. rewrite E0. reflexivity. }
  destruct (reseed_at_wf ub cb su h c s Wt (or_introl Hs)) as [h' [E' [W' _]]].
  exists h', (spec_encode su cb (not_rooted h) (reroot c s)).
  split; [exact E'|split; [apply abs_WFt, W'|]]. rewrite leaf_taxa_spec_encode.
  destruct c as [|c' i x l e lft rgt]; [rewrite reroot_top; reflexivity|].
  apply leaf_taxa_reroot; [exact Hs|]. eapply ctx_keeps_leaves_of_root; [exact H2|discriminate].
Qed.

Theorem prune_subtree_refines_l ub su h t n :
  WF h -> abs h = Some t -> In n (ids t) -> n <> seed h ->
  exists h', prune_subtree n ub su h = HOk h' /\ WF h' /\
    abs h' = Some (spec_tail ub su (not_rooted h) (spec_prune n t)) /\
    exists c p x l e lft s rgt,
      t = plug c (T p x l e (lft ++ s :: rgt)) /\ t_id s = n /\
      Permutation (olist (if match lft ++ rgt with [] => true | _ => false end then Some x else None)
                     ++ leaf_taxa t)
                  (leaf_taxa s ++ leaf_taxa (spec_tail ub su (not_rooted h) (spec_prune n t))).
Proof.
  intros W E Hn Ds. pose proof (WF_abs_t h t W E) as Wt.
  destruct (find_ctx t n Hn) as [c [s [-> Es]]]. subst n.
  pose proof Wt as [[_ [N _]] S].
  destruct c as [|c' p x l e lft rgt]; [exfalso; apply Ds; rewrite <- S; reflexivity|].
  simpl plug in *.
  destruct (prune_subtree_wf ub su h c' p x l e lft s rgt Wt) as [h' [E' [W' _]]].
  rewrite (spec_prune_plug c' p x l e lft s rgt N).
  exists h'. split; [exact E'|split; [eapply WFt_WF, W'|split; [apply abs_WFt, W'|]]].
  exists c', p, x, l, e, lft, s, rgt. split; [reflexivity|split; [reflexivity|]].
  rewrite leaf_taxa_spec_tail. apply leaf_taxa_plug_remove.
Qed.

Theorem ladderize_refines_l asc h t :
  WF h -> abs h = Some t ->
  exists h' t', ladderize asc h = HOk h' /\ WF h' /\ abs h' = Some t' /\
    t_id t' = t_id t /\ Permutation (ids t) (ids t') /\ Permutation (leaf_taxa t) (leaf_taxa t').
Proof.
  intros W E. pose proof (WF_abs_t h t W E) as Wt.
  destruct (ladderize_wf asc h t Wt) as [h' [t' [E' [W' [[S1 [S2 S3]] _]]]]].
  exists h', t'. split; [exact E'|split; [eapply WFt_WF, W'|split; [apply abs_WFt, W'|auto]]].
Qed.

Theorem collapse_unweighted_refines_l thr h t :
  WF h -> abs h = Some t ->
  exists h', collapse_unweighted_edges thr false h = HOk h' /\ WF h' /\ abs h' = Some (spec_cu thr t) /\
             leaf_taxa (spec_cu thr t) = leaf_taxa t /\ rooted h' = rooted h.
Proof.
  intros W E. pose proof (WF_abs_t h t W E) as Wt.
  destruct (collapse_unweighted_wf thr false h t Wt) as [h' [E' [W' [_ R]]]]. simpl in W'.
  exists h'. split; [exact E'|split; [eapply WFt_WF, W'|split; [apply abs_WFt, W'|split; [apply leaf_taxa_spec_cu|]]]].
  (* rooted: the loop only runs edge_collapse, which keeps the flag (pres) *)
  rewrite collapse_unweighted_edges_eq in E'.
  destruct (cu_loop_wf thr h t Wt) as [h1 [E1 [_ [[_ [P2 _]] _]]]].
  rewrite E1 in E'. simpl in E'. inversion E'; subst. exact P2.
Qed.

(* ---------- F18: Node.add_child of a node that is attached elsewhere ---------- *)

Definition f18_leaf (i : Z) : tree := T i (Some i) None (Some 1024) [].
Definition f18_tree : tree :=
  T 0 None None None [T 1 None None (Some 1024) [f18_leaf 2; f18_leaf 3];
                      T 4 None None (Some 1024) [f18_leaf 5; f18_leaf 6]].

Lemma f18_tree_nodup : NoDup (ids f18_tree).
Proof. apply has_dup_false. vm_compute. reflexivity. Qed.

(* the receiver 4 and the argument 2 are live, distinct, and 2 is not the parent of 4: both
   assertions of add_child pass, the call returns, and node 2 is then listed under 1 and 4 *)
Theorem add_child_attached_refuted_l :
  exists h p ci h',
    WF h /\ live h p /\ live h ci /\ ci <> p /\ parent h p <> Some ci /\
    add_child p ci h = HOk h' /\ ~ WF h'.
Proof.
  exists (of_tree f18_tree None), 4, 2.
  eexists. split; [apply of_tree_WF, f18_tree_nodup|].
  split; [exists f18_tree; split; [vm_compute; reflexivity|vm_compute; tauto]|].
  split; [exists f18_tree; split; [vm_compute; reflexivity|vm_compute; tauto]|].
  split; [discriminate|]. split; [vm_compute; discriminate|].
  split; [vm_compute; reflexivity|].
  intro W. destruct (wf_meaning_l _ W) as [t [E [N _]]].
  vm_compute in E. inversion E; subst t. apply has_dup_false in N. vm_compute in N. discriminate.
Qed.

(* Edge.invert on its own (not inside reseed_at) does not update Tree.seed_node *)
Theorem edge_invert_alone_not_wf_l :
  exists h ci h', WF h /\ live h ci /\ edge_invert ci h = HOk h' /\ ~ WF h'.
Proof.
  exists (of_tree f18_tree None), 1. eexists.
  split; [apply of_tree_WF, f18_tree_nodup|].
  split; [exists f18_tree; split; [vm_compute; reflexivity|vm_compute; tauto]|].
  split; [vm_compute; reflexivity|].
  intro W. destruct (wf_meaning_l _ W) as [t [_ [_ [_ [P _]]]]]. vm_compute in P. discriminate.
Qed.

(* ---------- non-vacuity ---------- *)

Definition ex_tree : tree :=
  T 0 None None (Some 7)
    [T 1 None None (Some 1) [f18_leaf 2; T 3 None None (Some 3) [T 4 None None (Some 4) [f18_leaf 5; f18_leaf 6]]];
     T 7 None None None [f18_leaf 8]; f18_leaf 9].

Example ex_tree_wf : WF (of_tree ex_tree None).
Proof. apply of_tree_WF. apply has_dup_false. vm_compute. reflexivity. Qed.

Definition ex_hist : list op :=
  [OReseedAt 4 false true true; OLadderize true; OPruneSubtree 9 false true; ONewChild 5 (Some 9) None None;
   OEdgeCollapse 1 true; OPruneSubtree 4 false true; OEdgeCollapse 6 false;
   ORerootAtEdge 5 (Some 3) (Some 4) false true; OToOutgroup 2 false false; OCollapseUnweighted 5 false; ODeroot;
   OReseedAt 8 true false true].

Ltac live_tac := eexists; split; [vm_compute; reflexivity|vm_compute; tauto].
Ltac next_state :=
  intros ? [E|[? E]]; vm_compute in E; inversion E; subst; clear E.

Example ex_hist_valid : valid_hist ex_hist (of_tree ex_tree None).
Proof.
  unfold ex_hist. simpl valid_hist.
  split; [apply cov_reseed; live_tac|next_state].
  split; [apply cov_ladderize|next_state].
  split; [apply cov_prune_subtree; live_tac|next_state].
  split; [apply cov_new_child; live_tac|next_state].
  split; [apply cov_edge_collapse; live_tac|next_state].
  split; [apply cov_prune_subtree; live_tac|next_state].
  split; [apply cov_edge_collapse; live_tac|next_state].
  split; [apply cov_reroot_edge; live_tac|next_state].
  split; [apply cov_to_outgroup; live_tac|next_state].
  split; [apply cov_collapse_unweighted|next_state].
  split; [apply cov_deroot|next_state].
  split; [apply cov_reseed; live_tac|next_state].
  exact I.
Qed.

(* the example history exercises two raising steps (pruning the seed, collapsing a terminal edge),
   re-rootings at an internal node, at an edge and at a LEAF, an allocation and a collapse *)
Example ex_hist_runs :
  exists h', run_hist ex_hist (of_tree ex_tree None) = Some h' /\
             abs h' = Some (T 8 (Some 8) None (Some 7)
                              [T 2 (Some 2) None (Some 1031) []; T 6 (Some 6) None (Some 1024) [];
                               T 10 (Some 9) None (Some 4) []]).
Proof. eexists. split; vm_compute; reflexivity. Qed.

(* ---------- operations that must not change the multiset of leaf taxa at all ---------- *)

Inductive keeps_leaves (h : heap) : op -> Prop :=
| kl_set_rooted r : keeps_leaves h (OSetRooted r)
| kl_set_unrooted v : keeps_leaves h (OSetUnrooted v)
| kl_deroot : keeps_leaves h ODeroot
| kl_collapse_basal u : keeps_leaves h (OCollapseBasal u)
| kl_encode su cb : keeps_leaves h (OEncode su cb)
| kl_suppress : keeps_leaves h OSuppressUnifurcations
| kl_unweighted thr ub : keeps_leaves h (OCollapseUnweighted thr ub)
| kl_edge_collapse ci adj : live h ci -> keeps_leaves h (OEdgeCollapse ci adj)
| kl_ladderize asc : keeps_leaves h (OLadderize asc)
| kl_reorder asc ranks : keeps_leaves h (OReorder asc ranks).

Lemma abs_of_WFt h t t' : WFt h t -> abs h = Some t' -> t' = t.
Proof. intros W E. rewrite (abs_WFt h t W) in E. inversion E. reflexivity. Qed.

Theorem leaf_multiset_preserved_l h o h' t t' :
  WF h -> keeps_leaves h o -> run_op o h = HOk h' ->
  abs h = Some t -> abs h' = Some t' -> Permutation (leaf_taxa t) (leaf_taxa t').
Proof.
  intros W K E A A'. pose proof (WF_abs_t h t W A) as Wt.
  destruct K; simpl run_op in E.
  - inversion E; subst. rewrite (abs_of_WFt _ _ _ (WFt_set_rooted r h t Wt) A'). reflexivity.
  - inversion E; subst. rewrite (abs_of_WFt _ _ _ (WFt_set_rooted _ h t Wt) A'). reflexivity.
  - destruct (deroot_wf h t Wt) as [h1 [E1 W1]]. rewrite E1 in E. inversion E; subst.
    rewrite (abs_of_WFt _ _ _ W1 A'), leaf_taxa_collapse_basal. reflexivity.
  - destruct (collapse_basal_wf h t u Wt) as [h1 [E1 [W1 _]]]. rewrite E1 in E. inversion E; subst.
    rewrite (abs_of_WFt _ _ _ W1 A'), leaf_taxa_collapse_basal. reflexivity.
  - destruct (encode_structural_wf su cb h t Wt) as [h1 [E1 [W1 _]]]. rewrite E1 in E. inversion E; subst.
    rewrite (abs_of_WFt _ _ _ W1 A'), leaf_taxa_spec_encode. reflexivity.
  - destruct (suppress_unifurcations_wf h t Wt) as [h1 [E1 [W1 _]]]. rewrite E1 in E. inversion E; subst.
    rewrite (abs_of_WFt _ _ _ W1 A'), leaf_taxa_spec_su. reflexivity.
  - destruct (collapse_unweighted_wf thr ub h t Wt) as [h1 [E1 [W1 _]]]. rewrite E1 in E. inversion E; subst.
    rewrite (abs_of_WFt _ _ _ W1 A'). destruct ub; rewrite ?leaf_taxa_spec_encode, leaf_taxa_spec_cu; reflexivity.
  - destruct (live_ctx h t ci Wt H) as [c [s [-> Es]]]. subst ci.
    pose proof (edge_collapse_op_wf adj h c s Wt) as Hc.
    destruct c as [|c' p x l e lft rgt].
    + rewrite Hc in E. inversion E; subst. rewrite A in A'. inversion A'. reflexivity.
    + destruct s as [ci xc lc ec kc]. simpl t_kids in Hc. simpl t_id in *. simpl t_len in Hc.
      destruct kc as [|k0 kr]; [rewrite Hc in E; discriminate|].
      destruct Hc as [h1 [E1 [W1 _]]]. rewrite E1 in E. inversion E; subst.
      rewrite (abs_of_WFt _ _ _ W1 A').
      change (plug (CNode c' p x l e lft rgt) (T ci xc lc ec (k0 :: kr)))
        with (plug c' (T p x l e (lft ++ T ci xc lc ec (k0 :: kr) :: rgt))).
      erewrite leaf_taxa_plug_collapse by discriminate. reflexivity.
  - destruct (ladderize_wf asc h t Wt) as [h1 [t1 [E1 [W1 [[_ [_ P]] _]]]]]. rewrite E1 in E. inversion E; subst.
    rewrite (abs_of_WFt _ _ _ W1 A'). exact P.
  - destruct (reorder_wf asc ranks h t Wt) as [h1 [t1 [E1 [W1 [[_ [_ P]] _]]]]]. rewrite E1 in E. inversion E; subst.
    rewrite (abs_of_WFt _ _ _ W1 A'). exact P.
Qed.
