(* C05: generic lemmas: insertion-ordered dictionaries, insertion sort, rational sums *)
From Coq Require Import ZArith QArith Qabs Qreduction List Bool Lia Lqa Permutation Sorted Setoid Morphisms.
From DV Require Import Model.PyPrims Model.C05Model Model.C05Spec.
Import ListNotations.
Open Scope Z_scope.

(* ---------------------------------------------------------------- dictionaries *)

Definition keys {V} (l : list (Z * V)) : list Z := map fst l.

Lemma aget_aupd_same {V} k d (f : V -> V) l : aget k (aupd k d f l) = Some (f (aget_d k d l)).
Proof.
  unfold aget_d. induction l as [|[k' v] r IH]; simpl.
  - now rewrite Z.eqb_refl.
  - destruct (Z.eqb k k') eqn:E; simpl; rewrite E; [reflexivity | exact IH].
Qed.

Lemma aget_aupd_other {V} k k' d (f : V -> V) l : k <> k' -> aget k' (aupd k d f l) = aget k' l.
Proof.
  intro N. induction l as [|[k2 v] r IH]; simpl.
  - destruct (Z.eqb k' k) eqn:E; [apply Z.eqb_eq in E; congruence | reflexivity].
  - destruct (Z.eqb k k2) eqn:E; simpl.
    + apply Z.eqb_eq in E. subst k2.
      destruct (Z.eqb k' k) eqn:E2; [apply Z.eqb_eq in E2; congruence | reflexivity].
    + destruct (Z.eqb k' k2); [reflexivity | exact IH].
Qed.

Lemma aget_d_aupd_same {V} k d (f : V -> V) l : aget_d k d (aupd k d f l) = f (aget_d k d l).
Proof. unfold aget_d at 1. now rewrite aget_aupd_same. Qed.

Lemma aget_d_aupd_other {V} k k' d (f : V -> V) l : k <> k' -> aget_d k' d (aupd k d f l) = aget_d k' d l.
Proof. intro N. unfold aget_d. now rewrite aget_aupd_other. Qed.

Lemma aget_none_iff {V} k (l : list (Z * V)) : aget k l = None <-> ~ In k (keys l).
Proof.
  induction l as [|[k' v] r IH]; simpl.
  - tauto.
  - destruct (Z.eqb k k') eqn:E.
    + apply Z.eqb_eq in E. subst. split; [discriminate | intro H; exfalso; apply H; now left].
    + apply Z.eqb_neq in E. rewrite IH. split; intro H.
      * intros [X|X]; [congruence | tauto].
      * intro X. apply H. now right.
Qed.

Lemma aget_some_in {V} k (l : list (Z * V)) v : aget k l = Some v -> In (k, v) l.
Proof.
  induction l as [|[k' v'] r IH]; simpl; [discriminate|].
  destruct (Z.eqb k k') eqn:E.
  - apply Z.eqb_eq in E. subst. intro H. inversion H. now left.
  - intro H. right. now apply IH.
Qed.

Lemma in_aget_nodup {V} k v (l : list (Z * V)) : NoDup (keys l) -> In (k, v) l -> aget k l = Some v.
Proof.
  induction l as [|[k' v'] r IH]; simpl; [tauto|].
  intros ND [H|H].
  - inversion H. subst. now rewrite Z.eqb_refl.
  - inversion ND as [|? ? Hn Hr]. subst.
    destruct (Z.eqb k k') eqn:E.
    + apply Z.eqb_eq in E. subst. exfalso. apply Hn. unfold keys. apply in_map_iff. now exists (k', v).
    + now apply IH.
Qed.

Lemma keys_aupd_in {V} k d (f : V -> V) l k' :
  In k' (keys (aupd k d f l)) <-> k' = k \/ In k' (keys l).
Proof.
  induction l as [|[k2 v] r IH]; simpl.
  - intuition.
  - destruct (Z.eqb k k2) eqn:E; simpl.
    + apply Z.eqb_eq in E. subst. intuition.
    + rewrite IH. intuition.
Qed.

Lemma nodup_keys_aupd {V} k d (f : V -> V) l : NoDup (keys l) -> NoDup (keys (aupd k d f l)).
Proof.
  induction l as [|[k2 v] r IH]; simpl; intro ND.
  - constructor; [simpl; tauto | constructor].
  - inversion ND as [|? ? Hn Hr]. subst.
    destruct (Z.eqb k k2) eqn:E; simpl.
    + constructor; assumption.
    + apply Z.eqb_neq in E. constructor.
      * intro X. apply keys_aupd_in in X. destruct X as [X|X]; [congruence | tauto].
      * now apply IH.
Qed.

Lemma aget_map_val {V W} (g : V -> W) k (l : list (Z * V)) :
  aget k (map (fun kv => (fst kv, g (snd kv))) l) = option_map g (aget k l).
Proof.
  induction l as [|[k' v] r IH]; simpl; [reflexivity|].
  destruct (Z.eqb k k'); [reflexivity | exact IH].
Qed.

Lemma keys_map_val {V W} (g : Z * V -> W) (l : list (Z * V)) :
  keys (map (fun kv => (fst kv, g kv)) l) = keys l.
Proof. unfold keys. rewrite map_map. simpl. reflexivity. Qed.

Lemma zmem_in x l : zmem x l = true <-> In x l.
Proof.
  unfold zmem. rewrite existsb_exists. split.
  - intros [y [Hy E]]. apply Z.eqb_eq in E. now subst.
  - intro H. exists x. split; [assumption | apply Z.eqb_refl].
Qed.

Lemma zmem_false x l : zmem x l = false <-> ~ In x l.
Proof.
  rewrite <- zmem_in. destruct (zmem x l); split; intro H; try reflexivity; try discriminate.
  - exfalso. now apply H.
Qed.

(* ---------------------------------------------------------------- insertion sort *)

Section Sort.
  Context {A : Type} (le : A -> A -> bool).
  Let R (a b : A) := le a b = true.

  Lemma insert_by_perm x l : Permutation (insert_by le x l) (x :: l).
  Proof.
    induction l as [|y r IH]; simpl; [reflexivity|].
    destruct (le x y); [reflexivity|].
    rewrite IH. apply perm_swap.
  Qed.

  Lemma sort_by_perm l : Permutation (sort_by le l) l.
  Proof.
    induction l as [|x r IH]; simpl; [reflexivity|].
    unfold sort_by in *. simpl. rewrite insert_by_perm. now constructor.
  Qed.

  Lemma sort_by_in x l : In x (sort_by le l) <-> In x l.
  Proof. split; apply Permutation_in; [apply sort_by_perm | symmetry; apply sort_by_perm]. Qed.

  Lemma sort_by_length l : length (sort_by le l) = length l.
  Proof. apply Permutation_length, sort_by_perm. Qed.

  Hypothesis le_total : forall a b, le a b = true \/ le b a = true.

  Lemma insert_by_sorted x l : Sorted R l -> Sorted R (insert_by le x l).
  Proof.
    induction 1 as [|y l Hs IH Hd]; simpl.
    - repeat constructor.
    - destruct (le x y) eqn:E.
      + constructor; [constructor; assumption | constructor; exact E].
      + constructor; [exact IH|].
        assert (Ryx : R y x) by (destruct (le_total x y); [congruence | assumption]).
        destruct l as [|z l']; simpl.
        * constructor. exact Ryx.
        * destruct (le x z); constructor; [exact Ryx | inversion Hd; assumption].
  Qed.

  Lemma sort_by_sorted l : Sorted R (sort_by le l).
  Proof.
    induction l as [|x r IH]; simpl; [constructor|].
    unfold sort_by in *. simpl. now apply insert_by_sorted.
  Qed.

  Hypothesis le_trans : forall a b c, le a b = true -> le b c = true -> le a c = true.

  Lemma sort_by_strongly_sorted l : StronglySorted R (sort_by le l).
  Proof.
    apply Sorted_StronglySorted; [|apply sort_by_sorted].
    intros a b c. apply le_trans.
  Qed.
End Sort.

(* ---------------------------------------------------------------- rationals *)

Lemma qplus_eq a b : (qplus a b == a + b)%Q.
Proof. unfold qplus. apply Qred_correct. Qed.
Lemma qminus_eq a b : (qminus a b == a - b)%Q.
Proof. unfold qminus. apply Qred_correct. Qed.
Lemma qmult_eq a b : (qmult a b == a * b)%Q.
Proof. unfold qmult. apply Qred_correct. Qed.
Lemma qdiv_eq a b : (qdiv a b == a / b)%Q.
Proof. unfold qdiv. apply Qred_correct. Qed.

Lemma qlt_bool_iff a b : qlt_bool a b = true <-> (a < b)%Q.
Proof.
  unfold qlt_bool. rewrite negb_true_iff. split; intro H.
  - apply Qnot_le_lt. intro L. apply Qle_bool_iff in L. congruence.
  - destruct (Qle_bool b a) eqn:E; [|reflexivity].
    apply Qle_bool_iff in E. exfalso. now apply (Qlt_not_le a b).
Qed.

Lemma qlt_bool_false a b : qlt_bool a b = false <-> (b <= a)%Q.
Proof.
  unfold qlt_bool. rewrite negb_false_iff. apply Qle_bool_iff.
Qed.

Lemma qsum_app a b : (qsum (a ++ b) == qsum a + qsum b)%Q.
Proof.
  induction a as [|x r IH]; simpl; [ring|]. rewrite IH. ring.
Qed.

Lemma qsum_nonneg l : (forall x, In x l -> (0 <= x)%Q) -> (0 <= qsum l)%Q.
Proof.
  induction l as [|x r IH]; simpl; intro H; [apply Qle_refl|].
  assert (0 <= x)%Q by (apply H; now left).
  assert (0 <= qsum r)%Q by (apply IH; intros; apply H; now right).
  lra.
Qed.

Lemma inject_Z_of_nat_S n : (inject_Z (Z.of_nat (S n)) == inject_Z (Z.of_nat n) + 1)%Q.
Proof. rewrite Nat2Z.inj_succ. unfold Z.succ. rewrite inject_Z_plus. reflexivity. Qed.
