(* C03Gen: the prune family of Tree (prune_leaves_without_taxa, filter_leaf_nodes, prune_nodes,
   prune_taxa, retain_taxa and the *_with_labels wrappers) as generated = HeapOps.v.
   The `while True:` loops run on explicit fuel; HeapOps.v's own loop uses fuel_of h: the theorems
   hold whenever the generated fuel is at least that and HeapOps.v itself does not give up (HFuel). *)
From Coq Require Import ZArith List Bool Lia.
From DV Require Import Model.PyPrims Model.Tree Model.Heap Model.HeapOps Model.C15Prims Model.MutPrims Gen.Mutators
     Model.C03GenInst Proofs.C03Base Proofs.C03GenPrims Proofs.C03GenNode Proofs.C03GenHeq Proofs.C03GenRemove
     Proofs.C03GenEdge Proofs.C03GenTree.
Import ListNotations.
Open Scope Z_scope.

Ltac hsimpp := cbn [mst mnode medge mg_eqb rd_parent wr_parent rd_kids wr_kids rd_edge rd_head rd_length rd_taxon
                    wr_length rd_seed wr_seed rd_rooted wr_rooted new_node x_reseed_at x_suppress_unifurcations
                    x_encode_bipartitions x_postorder_nodes x_leaf_nodes x_collapse_basal_bifurcation HG] in *.

(* ---- for x in l: f(x)  with no loop-carried locals ---- *)
Lemma mfor_hfold (body : Z -> unit -> heap -> mres heap (lctl unit)) (f : Z -> heap -> hres) :
  (forall x s, body x tt s = lift (LNext tt) (f x s)) ->
  forall l h, mfor body l tt h = lift (LNext tt) (hfold f l h).
Proof.
  intro Hb. induction l as [|x r IH]; intro h; [reflexivity|].
  simpl mfor. simpl hfold. rewrite Hb. destruct (f x h); simpl; [apply IH|reflexivity|reflexivity].
Qed.

(* nd.edge.tail_node.remove_child(nd), with the error a missing parent produces *)
Lemma gen_remove_from_parent_body (err : PyPrims.err) nd s :
  match parent s nd with
  | Some p => match Node_remove_child__suppress_unifurcations_False HG p nd s with
              | MOk _ s => MOk (LNext tt) s
              | MErr dv_e s => MErr dv_e s
              | MFuel => MFuel
              end
  | None => MErr err s
  end = lift (LNext tt) (remove_from_parent err nd s).
Proof.
  unfold remove_from_parent. destruct (parent s nd) as [p|]; [|reflexivity].
  rewrite gen_remove_plain_lift. destruct (remove_child_plain p nd s); reflexivity.
Qed.

(* ---- the `while True` loop of prune_leaves_without_taxa / filter_leaf_nodes ---- *)
Lemma prune_loop_generic (step : list Z -> heap -> mres heap (lctl (list Z)))
      (bad : heap -> Z -> bool) (err : PyPrims.err) (recursive : bool) (g : list Z -> list Z -> list Z) :
  (forall acc s,
      step acc s =
      match abs_at s (seed s) with
      | None => MFuel
      | Some t =>
        let rm := filter (bad s) (leaf_ids t) in
        match hfold (remove_from_parent err) rm s with
        | HOk s1 => MOk (if negb (py_is_empty rm) && recursive then LNext (g acc rm) else LBreak (g acc rm)) s1
        | HErr e s1 => MErr e s1
        | HFuel => MFuel
        end
      end) ->
  forall f fuel acc h, (f <= fuel)%nat ->
    leaf_prune_loop f bad err recursive h <> HFuel ->
    exists v, mwhile fuel step acc h = lift v (leaf_prune_loop f bad err recursive h).
Proof.
  intro Hs. induction f as [|f IH]; intros fuel acc h Hle Hnf; [exfalso; apply Hnf; reflexivity|].
  destruct fuel as [|fuel]; [lia|]. simpl mwhile. rewrite Hs. simpl leaf_prune_loop in *. unfold with_sub in *.
  destruct (abs_at h (seed h)) as [t|]; [|exfalso; apply Hnf; reflexivity].
  cbv zeta in *.
  destruct (hfold (remove_from_parent err) (filter (bad h) (leaf_ids t)) h) as [h1|e h1|]; simpl hbind in *;
    [|exists acc; reflexivity|exfalso; apply Hnf; reflexivity].
  destruct (filter (bad h) (leaf_ids t)) as [|x r] eqn:Erm.
  - simpl. eexists; reflexivity.
  - change (negb (py_is_empty (x :: r))) with true. simpl andb.
    destruct recursive; [|eexists; reflexivity].
    apply IH; [lia|exact Hnf].
Qed.

Lemma collect_loop (P : heap -> Z -> bool) (body : Z -> list Z -> heap -> mres heap (lctl (list Z))) :
  (forall x acc s, body x acc s = MOk (LNext (if P s x then acc ++ [x] else acc)) s) ->
  forall l acc s, mfor body l acc s = MOk (LNext (acc ++ filter (P s) l)) s.
Proof.
  intro Hb. induction l as [|x r IH]; intros acc s.
  - simpl. rewrite app_nil_r. reflexivity.
  - simpl mfor. rewrite Hb, IH. simpl filter. destruct (P s x); [rewrite <- app_assoc|]; reflexivity.
Qed.

Definition no_taxon (h : heap) (nd : Z) : bool := match taxon h nd with None => true | Some _ => false end.

(* the common end: suppress_unifurcations / update_bipartitions *)
Lemma prune_finish {A} (v : A) (su ub : bool) (h1 : heap) :
  (if su
   then match x_suppress_unifurcations HG h1 with
        | MOk _ s => if ub then match x_encode_bipartitions HG su true s with
                                | MOk _ s => MOk v s
                                | MErr dv_e s => MErr dv_e s
                                | MFuel => MFuel
                                end
                     else MOk v s
        | MErr dv_e s => MErr dv_e s
        | MFuel => MFuel
        end
   else if ub then match x_encode_bipartitions HG su true h1 with
                   | MOk _ s => MOk v s
                   | MErr dv_e s => MErr dv_e s
                   | MFuel => MFuel
                   end
        else MOk v h1)
  = lift v (hdo h2 <- (if su then suppress_unifurcations h1 else HOk h1) ;; ub_tail_su ub su h2).
Proof.
  unfold ub_tail_su. hsimpp. destruct su.
  - destruct (suppress_unifurcations h1) as [h2|e h2|]; simpl; try reflexivity.
    destruct ub; [|reflexivity]. destruct (encode_structural true true h2); reflexivity.
  - simpl. destruct ub; [|reflexivity]. destruct (encode_structural false true h1); reflexivity.
Qed.

Theorem gen_prune_leaves_without_taxa (fuel : nat) (recursive ub su : bool) (h : heap) :
  (fuel_of h <= fuel)%nat ->
  prune_leaves_without_taxa recursive ub su h <> HFuel ->
  to_hres (Tree_prune_leaves_without_taxa HG fuel recursive ub su h) = prune_leaves_without_taxa recursive ub su h.
Proof.
  intros Hf Hnf. unfold Tree_prune_leaves_without_taxa, prune_leaves_without_taxa in *.
  match goal with |- context [mwhile fuel ?st ?a0 h] =>
    destruct (prune_loop_generic st no_taxon AttrErr recursive (fun acc rm => acc ++ rm)) with
      (f := fuel_of h) (fuel := fuel) (acc := a0) (h := h) as [v E]
  end.
  - intros acc s. cbv beta zeta. hsimpp.
    destruct (abs_at s (seed s)) as [t|]; [|reflexivity].
    rewrite (collect_loop no_taxon) by (intros x a s0; unfold no_taxon; hsimpp; destruct (taxon s0 x); reflexivity).
    cbv iota beta. simpl lctl_val. simpl app.
    rewrite (mfor_hfold _ (remove_from_parent AttrErr))
      by (intros x s0; unfold Node__get_edge, Edge__get_tail_node; hsimpp; cbv zeta;
          apply gen_remove_from_parent_body).
    destruct (hfold (remove_from_parent AttrErr) (filter (no_taxon s) (leaf_ids t)) s); simpl; try reflexivity.
    destruct (negb (py_is_empty (filter (no_taxon s) (leaf_ids t)))); simpl; [destruct recursive|]; reflexivity.
  - exact Hf.
  - intro E. apply Hnf. unfold no_taxon in E. rewrite E. reflexivity.
  - hsimpp. unfold no_taxon in E. rewrite E.
    destruct (leaf_prune_loop (fuel_of h) _ AttrErr recursive h) as [h1|e h1|]; simpl lift; simpl hbind; cbv iota;
      try reflexivity.
    etransitivity; [exact (f_equal to_hres (prune_finish v su ub h1))|].
    destruct (hbind _ _); reflexivity.
Qed.

Theorem gen_filter_leaf_nodes (fuel : nat) (keep : list Z) (recursive ub su : bool) (h : heap) :
  (fuel_of h <= fuel)%nat ->
  filter_leaf_nodes keep recursive ub su h <> HFuel ->
  to_hres (Tree_filter_leaf_nodes HG fuel (fun nd => memz nd keep) recursive ub su h)
  = filter_leaf_nodes keep recursive ub su h.
Proof.
  intros Hf Hnf. unfold Tree_filter_leaf_nodes, filter_leaf_nodes in *.
  match goal with |- context [mwhile fuel ?st ?a0 h] =>
    destruct (prune_loop_generic st (fun _ nd => negb (memz nd keep)) OtherErr recursive
                                 (fun acc rm => if negb (py_is_empty rm) then acc ++ rm else acc)) with
      (f := fuel_of h) (fuel := fuel) (acc := a0) (h := h) as [v E]
  end.
  - intros acc s. cbv beta zeta. hsimpp.
    destruct (abs_at s (seed s)) as [t|]; [|reflexivity].
    rewrite (mfor_hfold _ (remove_from_parent OtherErr))
      by (intros x s0; unfold Node__get_edge, Edge__get_tail_node; hsimpp; cbv zeta;
          apply gen_remove_from_parent_body).
    destruct (hfold (remove_from_parent OtherErr) (filter (fun nd => negb (memz nd keep)) (leaf_ids t)) s);
      simpl; try reflexivity.
    destruct (negb (py_is_empty (filter (fun nd => negb (memz nd keep)) (leaf_ids t)))); simpl;
      [destruct recursive|]; reflexivity.
  - exact Hf.
  - intro E. apply Hnf. rewrite E. reflexivity.
  - hsimpp. rewrite E.
    destruct (leaf_prune_loop (fuel_of h) _ OtherErr recursive h) as [h1|e h1|]; simpl lift; simpl hbind; cbv iota;
      try reflexivity.
    etransitivity; [exact (f_equal to_hres (prune_finish v su ub h1))|].
    destruct (hbind _ _); reflexivity.
Qed.

Lemma gen_plwt_lift (fuel : nat) (recursive ub su : bool) (h : heap) :
  (fuel_of h <= fuel)%nat ->
  prune_leaves_without_taxa recursive ub su h <> HFuel ->
  exists v, Tree_prune_leaves_without_taxa HG fuel recursive ub su h
            = lift v (prune_leaves_without_taxa recursive ub su h).
Proof.
  intros Hf Hnf. pose proof (gen_prune_leaves_without_taxa fuel recursive ub su h Hf Hnf) as R.
  destruct (Tree_prune_leaves_without_taxa HG fuel recursive ub su h) as [v s|e s|];
    destruct (prune_leaves_without_taxa recursive ub su h) as [h'|e' h'|]; simpl in R; try discriminate.
  - inversion R; subst. exists v. reflexivity.
  - inversion R; subst. exists []. reflexivity.
  - exfalso. apply Hnf. reflexivity.
Qed.

Theorem gen_prune_nodes (fuel : nat) (nodes : list Z) (plwt ub su : bool) (h : heap) :
  (forall h1, hfold (remove_from_parent OtherErr) nodes h = HOk h1 -> (fuel_of h1 <= fuel)%nat) ->
  prune_nodes nodes plwt ub su h <> HFuel ->
  to_hres (Tree_prune_nodes HG fuel nodes plwt ub su h) = prune_nodes nodes plwt ub su h.
Proof.
  intros Hf Hnf. unfold Tree_prune_nodes, prune_nodes in *.
  rewrite (mfor_hfold _ (remove_from_parent OtherErr))
    by (intros x s0; unfold Node__get_edge, Edge__get_tail_node; hsimpp; cbv zeta;
        apply gen_remove_from_parent_body).
  destruct (hfold (remove_from_parent OtherErr) nodes h) as [h1|e h1|] eqn:Eh; simpl lift; simpl hbind in *; cbv iota;
    try reflexivity.
  destruct plwt; [|reflexivity].
  destruct (gen_plwt_lift fuel true ub su h1 (Hf h1 eq_refl) Hnf) as [v ->].
  destruct (prune_leaves_without_taxa true ub su h1); reflexivity.
Qed.

Theorem gen_prune_taxa (fuel : nat) (taxa : list Z) (ub su ol oi : bool) (h : heap) :
  (forall t h1, abs_at h (seed h) = Some t ->
                hfold (prune_taxa_step taxa ol oi) (post_ids t) h = HOk h1 -> (fuel_of h1 <= fuel)%nat) ->
  prune_taxa taxa ub su ol oi h <> HFuel ->
  to_hres (Tree_prune_taxa HG fuel taxa ub su ol oi h) = prune_taxa taxa ub su ol oi h.
Proof.
  intros Hf Hnf. unfold Tree_prune_taxa, prune_taxa, with_sub in *. hsimpp. cbv zeta.
  destruct (abs_at h (seed h)) as [t|]; [|reflexivity].
  rewrite (mfor_hfold _ (prune_taxa_step taxa ol oi)).
  2:{ intros nd s0. unfold prune_taxa_step, is_internal, Node__get_edge, Edge__get_tail_node. hsimpp. cbv zeta.
      pose proof (gen_remove_from_parent_body AttrErr nd s0) as B.
      destruct oi, ol, (kids s0 nd) as [|k0 kr]; simpl; try reflexivity;
        destruct (taxon s0 nd) as [x|]; simpl; try reflexivity;
        rewrite ?py_in_memz; destruct (memz x taxa); simpl; try reflexivity; exact B. }
  change (fun nd h0 => if ((oi && is_internal h0 nd) || (ol && negb (is_internal h0 nd)))
                          && match taxon h0 nd with Some x => memz x taxa | None => false end
                       then remove_from_parent AttrErr nd h0 else HOk h0)
    with (prune_taxa_step taxa ol oi) in *.
  destruct (hfold (prune_taxa_step taxa ol oi) (post_ids t) h) as [h1|e h1|] eqn:Eh; simpl lift; simpl hbind in *;
    cbv iota; try reflexivity.
  destruct (gen_plwt_lift fuel true ub su h1 (Hf t h1 eq_refl Eh) Hnf) as [v ->].
  destruct (prune_leaves_without_taxa true ub su h1); reflexivity.
Qed.

Lemma gen_prune_taxa_lift (fuel : nat) (taxa : list Z) (ub su ol oi : bool) (h : heap) :
  (forall t h1, abs_at h (seed h) = Some t ->
                hfold (prune_taxa_step taxa ol oi) (post_ids t) h = HOk h1 -> (fuel_of h1 <= fuel)%nat) ->
  prune_taxa taxa ub su ol oi h <> HFuel ->
  Tree_prune_taxa HG fuel taxa ub su ol oi h = lift tt (prune_taxa taxa ub su ol oi h).
Proof.
  intros Hf Hnf. pose proof (gen_prune_taxa fuel taxa ub su ol oi h Hf Hnf) as R.
  destruct (Tree_prune_taxa HG fuel taxa ub su ol oi h) as [[] s|e s|];
    destruct (prune_taxa taxa ub su ol oi h) as [h'|e' h'|]; simpl in R; try discriminate;
    try (inversion R; subst; reflexivity); try (exfalso; apply Hnf; reflexivity).
Qed.

Theorem gen_retain_taxa (fuel : nat) (namespace taxa : list Z) (ub su : bool) (h : heap) :
  (forall t h1, abs_at h (seed h) = Some t ->
                hfold (prune_taxa_step (filter (fun x => negb (memz x taxa)) namespace) true false) (post_ids t) h = HOk h1 ->
                (fuel_of h1 <= fuel)%nat) ->
  retain_taxa namespace taxa ub su h <> HFuel ->
  to_hres (Tree_retain_taxa HG fuel namespace taxa ub su h) = retain_taxa namespace taxa ub su h.
Proof.
  intros Hf Hnf. unfold Tree_retain_taxa, retain_taxa in *. cbv zeta.
  assert (Ef : filter (fun t => negb (py_in Z.eqb t taxa)) namespace = filter (fun x => negb (memz x taxa)) namespace)
    by (apply filter_ext; intro x; rewrite py_in_memz; reflexivity).
  rewrite Ef, (gen_prune_taxa_lift fuel _ ub su true false h Hf Hnf).
  destruct (prune_taxa _ ub su true false h); reflexivity.
Qed.

(* the *_with_labels wrappers resolve the labels through the namespace (TaxonNamespace.get_taxa: C10)
   and delegate *)
Theorem gen_with_labels (fuel : nat) (namespace : list Z) (get_taxa : list Z -> list Z) (labels : list Z)
        (ub su ol oi : bool) (h : heap) :
  to_hres (Tree_prune_taxa_with_labels HG fuel get_taxa labels ub su ol oi h)
  = to_hres (Tree_prune_taxa HG fuel (get_taxa labels) ub su ol oi h) /\
  to_hres (Tree_retain_taxa_with_labels HG fuel namespace get_taxa labels ub su h)
  = to_hres (Tree_retain_taxa HG fuel namespace (get_taxa labels) ub su h).
Proof.
  unfold Tree_prune_taxa_with_labels, Tree_retain_taxa_with_labels. cbv zeta. split.
  - destruct (Tree_prune_taxa HG fuel (get_taxa labels) ub su ol oi h); reflexivity.
  - destruct (Tree_retain_taxa HG fuel namespace (get_taxa labels) ub su h); reflexivity.
Qed.
