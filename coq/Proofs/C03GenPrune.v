(* C03Gen: the prune family of Tree (prune_leaves_without_taxa, filter_leaf_nodes, prune_nodes,
   prune_taxa, retain_taxa and the *_with_labels wrappers) as generated = HeapOps.v.
   The `while True:` loops run on explicit fuel; HeapOps.v's own loop uses fuel_of h: the theorems
   hold whenever the generated fuel is at least that and HeapOps.v itself does not give up (HFuel). *)
From Coq Require Import ZArith List Bool Lia.
From DV Require Import Model.PyPrims Model.Tree Model.Heap Model.HeapOps Model.C15Prims Model.MutPrims Gen.Mutators
     Model.C03GenInst Proofs.C03Base Proofs.C03GenPrims Proofs.C03GenNode Proofs.C03GenHeq Proofs.C03GenRemove
     Proofs.C03GenEdge Proofs.C03GenTree.
Import ListNotations.
Open Scope Z_scope.

Ltac hsimpp := cbn [mst mnode medge mg_eqb rd_parent wr_parent rd_kids wr_kids rd_edge rd_head rd_length rd_taxon
                    wr_length rd_seed wr_seed rd_rooted wr_rooted new_node x_reseed_at x_suppress_unifurcations
                    x_encode_bipartitions x_postorder_nodes x_leaf_nodes x_collapse_basal_bifurcation HG] in *.

(* ---- for x in l: f(x)  with no loop-carried locals ---- *)
Lemma mfor_hfold (body : Z -> unit -> heap -> mres heap (lctl unit)) (f : Z -> heap -> hres) :
  (forall x s, body x tt s = lift (LNext tt) (f x s)) ->
  forall l h, mfor body l tt h = lift (LNext tt) (hfold f l h).
Proof.
  intro Hb. induction l as [|x r IH]; intro h; [reflexivity|].
  simpl mfor. simpl hfold. rewrite Hb. destruct (f x h); simpl; [apply IH|reflexivity|reflexivity].
Qed.

(* nd.edge.tail_node.remove_child(nd), with the error a missing parent produces *)
Lemma gen_remove_from_parent_body (err : PyPrims.err) nd s :
  match parent s nd with
  | Some p => match Node_remove_child__suppress_unifurcations_False HG p nd s with
              | MOk _ s => MOk (LNext tt) s
              | MErr dv_e s => MErr dv_e s
              | MFuel => MFuel
              end
  | None => MErr err s
  end = lift (LNext tt) (remove_from_parent err nd s).
Proof.
  unfold remove_from_parent. destruct (parent s nd) as [p|]; [|reflexivity].
  rewrite gen_remove_plain_lift. destruct (remove_child_plain p nd s); reflexivity.
Qed.

(* ---- the `while True` loop of prune_leaves_without_taxa / filter_leaf_nodes ---- *)
Lemma prune_loop_generic (step : list Z -> heap -> mres heap (lctl (list Z)))
      (bad : heap -> Z -> bool) (err : PyPrims.err) (recursive : bool) (g : list Z -> list Z -> list Z) :
  (forall acc s,
      step acc s =
      match abs_at s (seed s) with
      | None => MFuel
      | Some t =>
        let rm := filter (bad s) (leaf_ids t) in
        match hfold (remove_from_parent err) rm s with
        | HOk s1 => MOk (if negb (py_is_empty rm) && recursive then LNext (g acc rm) else LBreak (g acc rm)) s1
        | HErr e s1 => MErr e s1
        | HFuel => MFuel
        end
      end) ->
  forall f fuel acc h, (f <= fuel)%nat ->
    leaf_prune_loop f bad err recursive h <> HFuel ->
    exists v, mwhile fuel step acc h = lift v (leaf_prune_loop f bad err recursive h).
Proof.
  intro Hs. induction f as [|f IH]; intros fuel acc h Hle Hnf; [exfalso; apply Hnf; reflexivity|].
  destruct fuel as [|fuel]; [lia|]. simpl mwhile. rewrite Hs. simpl leaf_prune_loop in *. unfold with_sub in *.
  destruct (abs_at h (seed h)) as [t|]; [|exfalso; apply Hnf; reflexivity].
  cbv zeta in *.
  destruct (hfold (remove_from_parent err) (filter (bad h) (leaf_ids t)) h) as [h1|e h1|]; simpl hbind in *;
    [|exists acc; reflexivity|exfalso; apply Hnf; reflexivity].
  destruct (filter (bad h) (leaf_ids t)) as [|x r] eqn:Erm.
  - simpl. eexists; reflexivity.
  - change (negb (py_is_empty (x :: r))) with true. simpl andb.
    destruct recursive; [|eexists; reflexivity].
    apply IH; [lia|exact Hnf].
Qed.

Lemma collect_loop (P : heap -> Z -> bool) (body : Z -> list Z -> heap -> mres heap (lctl (list Z))) :
  (forall x acc s, body x acc s = MOk (LNext (if P s x then acc ++ [x] else acc)) s) ->
  forall l acc s, mfor body l acc s = MOk (LNext (acc ++ filter (P s) l)) s.
Proof.
  intro Hb. induction l as [|x r IH]; intros acc s.
  - simpl. rewrite app_nil_r. reflexivity.
  - simpl mfor. rewrite Hb, IH. simpl filter. destruct (P s x); [rewrite <- app_assoc|]; reflexivity.
Qed.

Definition no_taxon (h : heap) (nd : Z) : bool := match taxon h nd with None => true | Some _ => false end.

(* the common end: suppress_unifurcations / update_bipartitions *)
Lemma prune_finish {A} (v : A) (su ub : bool) (h1 : heap) :
  (if su
   then match x_suppress_unifurcations HG h1 with
        | MOk _ s => if ub then match x_encode_bipartitions HG su true s with
                                | MOk _ s => MOk v s
                                | MErr dv_e s => MErr dv_e s
                                | MFuel => MFuel
                                end
                     else MOk v s
        | MErr dv_e s => MErr dv_e s
        | MFuel => MFuel
        end
   else if ub then match x_encode_bipartitions HG su true h1 with
                   | MOk _ s => MOk v s
                   | MErr dv_e s => MErr dv_e s
                   | MFuel => MFuel
                   end
        else MOk v h1)
  = lift v (hdo h2 <- (if su then suppress_unifurcations h1 else HOk h1) ;; ub_tail_su ub su h2).
Proof.
  unfold ub_tail_su. hsimpp. destruct su.
  - destruct (suppress_unifurcations h1) as [h2|e h2|]; simpl; try reflexivity.
    destruct ub; [|reflexivity]. destruct (encode_structural true true h2); reflexivity.
  - simpl. destruct ub; [|reflexivity]. destruct (encode_structural false true h1); reflexivity.
Qed.

(* ---------------------------------------------------------------- the repaired sites
   HeapOps.v keeps the functions of the unrepaired source (a parentless node gives AttributeError from
   None.remove_child; prune_nodes without the final suppress / update) and describes the repaired source
   by `run_op_v` with v_seed_guard / v_prune_nodes_tail: a relabelling AttrErr -> OtherErr of the
   outcome, and the tail appended.  Here: the functions with the error as a parameter (= HeapOps's for
   AttrErr), the generated code = them for OtherErr, and they = the relabelled HeapOps functions
   because nothing else in these functions can produce an AttributeError. *)
Definition plwt_e (ne : PyPrims.err) (recursive ub su : bool) (h : heap) : hres :=
  hdo h1 <- leaf_prune_loop (fuel_of h)
              (fun h nd => match taxon h nd with None => true | Some _ => false end)
              ne recursive h ;;
  hdo h2 <- (if su then suppress_unifurcations h1 else HOk h1) ;;
  ub_tail_su ub su h2.

Definition prune_taxa_e (ne : PyPrims.err) (taxa : list Z) (ub su on_leaves on_internal : bool) (h : heap) : hres :=
  hdo h1 <- with_sub h (seed h) (fun t => hfold (prune_taxa_step_e ne taxa on_leaves on_internal) (post_ids t) h) ;;
  plwt_e ne true ub su h1.

Definition prune_nodes_e (ne : PyPrims.err) (nodes : list Z) (plwt ub su : bool) (h : heap) : hres :=
  hdo h1 <- hfold (remove_from_parent OtherErr) nodes h ;;
  if plwt then plwt_e ne true ub su h1
  else hdo h2 <- (if su then suppress_unifurcations h1 else HOk h1) ;; ub_tail_su ub su h2.

Lemma plwt_e_attr rc ub su h : plwt_e AttrErr rc ub su h = prune_leaves_without_taxa rc ub su h.
Proof. reflexivity. Qed.
Lemma prune_taxa_e_attr taxa ub su ol oi h : prune_taxa_e AttrErr taxa ub su ol oi h = prune_taxa taxa ub su ol oi h.
Proof. reflexivity. Qed.

(* ---- no AttributeError from the other steps ---- *)
Definition noattr (r : hres) : Prop := forall h, r <> HErr AttrErr h.
Notation relab := (relabel_err AttrErr OtherErr).

Lemma relab_noattr r : noattr r -> relab r = r.
Proof.
  intro N. destruct r as [h|e h|]; try reflexivity. destruct e; try reflexivity. exfalso. exact (N h eq_refl).
Qed.

Lemma relab_hbind r k : relab (hbind r k) = hbind (relab r) (fun h => relab (k h)).
Proof. destruct r as [h|e h|]; try reflexivity. simpl. destruct (err_eqb e AttrErr); reflexivity. Qed.

Lemma noattr_hbind r k : noattr r -> (forall h, noattr (k h)) -> noattr (hbind r k).
Proof. intros Nr Nk. destruct r as [h|e h|]; simpl; [apply Nk|exact Nr|intros h E; discriminate]. Qed.

Lemma noattr_ok h : noattr (HOk h).
Proof. intros h' E. discriminate. Qed.

Lemma noattr_hfold (f : Z -> heap -> hres) : (forall x h, noattr (f x h)) -> forall l h, noattr (hfold f l h).
Proof.
  intro Nf. induction l as [|x r IH]; intro h; simpl; [apply noattr_ok|]. apply noattr_hbind; [apply Nf|exact IH].
Qed.

Lemma noattr_remove_child_plain p c h : noattr (remove_child_plain p c h).
Proof. unfold remove_child_plain. destruct (memz c (kids h p)); intros h' E; discriminate. Qed.

Lemma noattr_su_step nd h : noattr (su_step nd h).
Proof.
  unfold su_step. destruct (kids h nd) as [|ch [|]]; try apply noattr_ok. cbv zeta.
  destruct (parent _ nd); [|apply noattr_ok]. destruct (index_of nd _); [|intros h' E; discriminate].
  apply noattr_hbind; [apply noattr_remove_child_plain|intro; apply noattr_ok].
Qed.

Lemma noattr_with_sub h i k : (forall t, noattr (k t)) -> noattr (with_sub h i k).
Proof. intro N. unfold with_sub. destruct (abs_at h i); [apply N|intros h' E; discriminate]. Qed.

Lemma noattr_su h : noattr (suppress_unifurcations h).
Proof. apply noattr_with_sub. intro t. apply noattr_hfold. apply noattr_su_step. Qed.

Lemma noattr_edge_collapse c adj h : noattr (edge_collapse c adj h).
Proof.
  unfold edge_collapse. destruct (parent h c); [|apply noattr_ok]. destruct (kids h c); [intros h' E; discriminate|].
  destruct (index_of c _); [|intros h' E; discriminate].
  apply noattr_hbind; [apply noattr_remove_child_plain|intro; apply noattr_ok].
Qed.

Lemma noattr_cbb su h : noattr (collapse_basal_bifurcation su h).
Proof.
  unfold collapse_basal_bifurcation. destruct (kids h (seed h)) as [|c0 [|c1 [|]]]; try apply noattr_ok. cbv zeta.
  destruct (if 2 <=? len (kids h c1) then Some (c0, c1) else if 2 <=? len (kids h c0) then Some (c1, c0) else None)
    as [[keep del]|]; [|apply noattr_ok].
  apply noattr_hbind; [apply noattr_edge_collapse|intro; apply noattr_ok].
Qed.

Lemma noattr_encode su cb h : noattr (encode_structural su cb h).
Proof.
  unfold encode_structural. apply noattr_hbind.
  - destruct (cb && not_rooted h && (len (kids h (seed h)) =? 2)); [apply noattr_cbb|apply noattr_ok].
  - intro h1. destruct su; [apply noattr_su|apply noattr_ok].
Qed.

Lemma noattr_tail (ub su : bool) (h1 : heap) :
  noattr (hbind (if su then suppress_unifurcations h1 else HOk h1) (fun h2 => ub_tail_su ub su h2)).
Proof.
  apply noattr_hbind; [destruct su; [apply noattr_su|apply noattr_ok]|].
  intro h2. unfold ub_tail_su. destruct ub; [apply noattr_encode|apply noattr_ok].
Qed.

(* ---- relabelling the unrepaired functions gives the functions with the new error ---- *)
Lemma relab_remove_from_parent nd h : relab (remove_from_parent AttrErr nd h) = remove_from_parent OtherErr nd h.
Proof.
  unfold remove_from_parent. destruct (parent h nd); [|reflexivity]. apply relab_noattr, noattr_remove_child_plain.
Qed.

Lemma relab_hfold (f g : Z -> heap -> hres) : (forall x h, relab (f x h) = g x h) ->
  forall l h, relab (hfold f l h) = hfold g l h.
Proof.
  intro H. induction l as [|x r IH]; intro h; simpl; [reflexivity|]. rewrite relab_hbind, H.
  destruct (g x h); simpl; try reflexivity. apply IH.
Qed.

Lemma hbind_ext r k1 k2 : (forall h, k1 h = k2 h) -> hbind r k1 = hbind r k2.
Proof. intro H. destruct r; simpl; [apply H|reflexivity|reflexivity]. Qed.

Lemma relab_leaf_prune_loop bad rc : forall f h,
  relab (leaf_prune_loop f bad AttrErr rc h) = leaf_prune_loop f bad OtherErr rc h.
Proof.
  induction f as [|f IH]; intro h; [reflexivity|]. simpl. unfold with_sub.
  destruct (abs_at h (seed h)) as [t|]; [|reflexivity]. cbv zeta.
  rewrite relab_hbind, (relab_hfold _ _ relab_remove_from_parent). apply hbind_ext. intro h1.
  destruct (filter (bad h) (leaf_ids t)); [reflexivity|]. destruct rc; [apply IH|reflexivity].
Qed.

Lemma relab_plwt rc ub su h : relab (prune_leaves_without_taxa rc ub su h) = plwt_e OtherErr rc ub su h.
Proof.
  unfold prune_leaves_without_taxa, plwt_e. rewrite relab_hbind, relab_leaf_prune_loop. apply hbind_ext. intro h1.
  apply relab_noattr, noattr_tail.
Qed.

Lemma relab_prune_taxa_step taxa ol oi nd h :
  relab (prune_taxa_step_e AttrErr taxa ol oi nd h) = prune_taxa_step_e OtherErr taxa ol oi nd h.
Proof.
  unfold prune_taxa_step_e. destruct (_ && _); [apply relab_remove_from_parent|reflexivity].
Qed.

Lemma relab_prune_taxa taxa ub su ol oi h :
  relab (prune_taxa taxa ub su ol oi h) = prune_taxa_e OtherErr taxa ub su ol oi h.
Proof.
  rewrite <- prune_taxa_e_attr. unfold prune_taxa_e. rewrite relab_hbind. unfold with_sub.
  destruct (abs_at h (seed h)) as [t|]; [|reflexivity].
  rewrite (relab_hfold _ _ (relab_prune_taxa_step taxa ol oi)). apply hbind_ext. intro h1.
  rewrite plwt_e_attr. apply relab_plwt.
Qed.

Lemma noattr_remove_from_parent_other nd h : noattr (remove_from_parent OtherErr nd h).
Proof.
  unfold remove_from_parent. destruct (parent h nd); [apply noattr_remove_child_plain|intros h' E; discriminate].
Qed.

Lemma relab_prune_nodes nodes plwt ub su h :
  (let r := relab (prune_nodes nodes plwt ub su h) in
   if negb plwt then hbind r (fun h1 => hbind (if su then suppress_unifurcations h1 else HOk h1) (ub_tail_su ub su)) else r)
  = prune_nodes_e OtherErr nodes plwt ub su h.
Proof.
  cbv zeta. unfold prune_nodes, prune_nodes_e. rewrite relab_hbind.
  rewrite (relab_noattr (hfold _ nodes h)) by (apply noattr_hfold, noattr_remove_from_parent_other).
  destruct plwt; cbn [negb].
  - apply hbind_ext. intro h1. apply relab_plwt.
  - destruct (hfold (remove_from_parent OtherErr) nodes h); reflexivity.
Qed.

(* ---- the generated code = the functions with OtherErr ---- *)
Ltac plwt_proof NE fuel recursive ub su h Hf Hnf :=
  unfold Tree_prune_leaves_without_taxa, plwt_e in *;
  match goal with |- context [mwhile fuel ?st ?a0 h] =>
    destruct (prune_loop_generic st no_taxon NE recursive (fun acc rm => acc ++ rm)) with
      (f := fuel_of h) (fuel := fuel) (acc := a0) (h := h) as [v E]
  end;
  [ intros acc s; cbv beta zeta; hsimpp;
    destruct (abs_at s (seed s)) as [t|]; [|reflexivity];
    rewrite (collect_loop no_taxon) by (intros x a s0; unfold no_taxon; hsimpp; destruct (taxon s0 x); reflexivity);
    cbv iota beta; simpl lctl_val; simpl app;
    rewrite (mfor_hfold _ (remove_from_parent NE))
      by (intros x s0; unfold Node__get_edge, Edge__get_tail_node; hsimpp; cbv zeta;
          apply gen_remove_from_parent_body);
    destruct (hfold (remove_from_parent NE) (filter (no_taxon s) (leaf_ids t)) s); simpl; try reflexivity;
    destruct (negb (py_is_empty (filter (no_taxon s) (leaf_ids t)))); simpl; [destruct recursive|]; reflexivity
  | exact Hf
  | let E' := fresh "E" in intro E'; apply Hnf; unfold no_taxon in E'; rewrite E'; reflexivity
  | hsimpp;
    match goal with E0 : mwhile _ _ _ _ = lift ?v0 _ |- _ =>
      unfold no_taxon in E0; rewrite E0;
      destruct (leaf_prune_loop (fuel_of h) _ NE recursive h) as [h1|e h1|]; simpl lift; simpl hbind; cbv iota;
        try reflexivity;
      etransitivity; [exact (f_equal to_hres (prune_finish v0 su ub h1))|];
      destruct (hbind _ _); reflexivity
    end ].

Theorem gen_plwt_e (fuel : nat) (recursive ub su : bool) (h : heap) :
  (fuel_of h <= fuel)%nat ->
  plwt_e OtherErr recursive ub su h <> HFuel ->
  to_hres (Tree_prune_leaves_without_taxa HG fuel recursive ub su h) = plwt_e OtherErr recursive ub su h.
Proof. intros Hf Hnf. plwt_proof OtherErr fuel recursive ub su h Hf Hnf. Qed.

Theorem gen_filter_leaf_nodes (fuel : nat) (keep : list Z) (recursive ub su : bool) (h : heap) :
  (fuel_of h <= fuel)%nat ->
  filter_leaf_nodes keep recursive ub su h <> HFuel ->
  to_hres (Tree_filter_leaf_nodes HG fuel (fun nd => memz nd keep) recursive ub su h)
  = filter_leaf_nodes keep recursive ub su h.
Proof.
  intros Hf Hnf. unfold Tree_filter_leaf_nodes, filter_leaf_nodes in *.
  match goal with |- context [mwhile fuel ?st ?a0 h] =>
    destruct (prune_loop_generic st (fun _ nd => negb (memz nd keep)) OtherErr recursive
                                 (fun acc rm => if negb (py_is_empty rm) then acc ++ rm else acc)) with
      (f := fuel_of h) (fuel := fuel) (acc := a0) (h := h) as [v E]
  end.
  - intros acc s. cbv beta zeta. hsimpp.
    destruct (abs_at s (seed s)) as [t|]; [|reflexivity].
    rewrite (mfor_hfold _ (remove_from_parent OtherErr))
      by (intros x s0; unfold Node__get_edge, Edge__get_tail_node; hsimpp; cbv zeta;
          apply gen_remove_from_parent_body).
    destruct (hfold (remove_from_parent OtherErr) (filter (fun nd => negb (memz nd keep)) (leaf_ids t)) s);
      simpl; try reflexivity.
    destruct (negb (py_is_empty (filter (fun nd => negb (memz nd keep)) (leaf_ids t)))); simpl;
      [destruct recursive|]; reflexivity.
  - exact Hf.
  - intro E. apply Hnf. rewrite E. reflexivity.
  - hsimpp. rewrite E.
    destruct (leaf_prune_loop (fuel_of h) _ OtherErr recursive h) as [h1|e h1|]; simpl lift; simpl hbind; cbv iota;
      try reflexivity.
    etransitivity; [exact (f_equal to_hres (prune_finish v su ub h1))|].
    destruct (hbind _ _); reflexivity.
Qed.

Lemma gen_plwt_lift (fuel : nat) (recursive ub su : bool) (h : heap) :
  (fuel_of h <= fuel)%nat ->
  plwt_e OtherErr recursive ub su h <> HFuel ->
  exists v, Tree_prune_leaves_without_taxa HG fuel recursive ub su h = lift v (plwt_e OtherErr recursive ub su h).
Proof.
  intros Hf Hnf. pose proof (gen_plwt_e fuel recursive ub su h Hf Hnf) as R.
  destruct (Tree_prune_leaves_without_taxa HG fuel recursive ub su h) as [v s|e s|];
    destruct (plwt_e OtherErr recursive ub su h) as [h'|e' h'|]; simpl in R; try discriminate.
  - inversion R; subst. exists v. reflexivity.
  - inversion R; subst. exists []. reflexivity.
  - exfalso. apply Hnf. reflexivity.
Qed.

Theorem gen_prune_nodes_e (fuel : nat) (nodes : list Z) (plwt ub su : bool) (h : heap) :
  (forall h1, hfold (remove_from_parent OtherErr) nodes h = HOk h1 -> (fuel_of h1 <= fuel)%nat) ->
  prune_nodes_e OtherErr nodes plwt ub su h <> HFuel ->
  to_hres (Tree_prune_nodes HG fuel nodes plwt ub su h) = prune_nodes_e OtherErr nodes plwt ub su h.
Proof.
  intros Hf Hnf. unfold Tree_prune_nodes, prune_nodes_e in *.
  rewrite (mfor_hfold _ (remove_from_parent OtherErr))
    by (intros x s0; unfold Node__get_edge, Edge__get_tail_node; hsimpp; cbv zeta;
        apply gen_remove_from_parent_body).
  destruct (hfold (remove_from_parent OtherErr) nodes h) as [h1|e h1|] eqn:Eh; simpl lift; simpl hbind in *; cbv iota;
    try reflexivity.
  destruct plwt.
  - destruct (gen_plwt_lift fuel true ub su h1 (Hf h1 eq_refl) Hnf) as [v ->].
    destruct (plwt_e OtherErr true ub su h1); reflexivity.
  - hsimpp. etransitivity; [exact (f_equal to_hres (prune_finish tt su ub h1))|].
    destruct (hbind _ _); reflexivity.
Qed.

Theorem gen_prune_taxa_e (fuel : nat) (taxa : list Z) (ub su ol oi : bool) (h : heap) :
  (forall t h1, abs_at h (seed h) = Some t ->
                hfold (prune_taxa_step_e OtherErr taxa ol oi) (post_ids t) h = HOk h1 -> (fuel_of h1 <= fuel)%nat) ->
  prune_taxa_e OtherErr taxa ub su ol oi h <> HFuel ->
  to_hres (Tree_prune_taxa HG fuel taxa ub su ol oi h) = prune_taxa_e OtherErr taxa ub su ol oi h.
Proof.
  intros Hf Hnf. unfold Tree_prune_taxa, prune_taxa_e, with_sub in *. hsimpp. cbv zeta.
  destruct (abs_at h (seed h)) as [t|]; [|reflexivity].
  rewrite (mfor_hfold _ (prune_taxa_step_e OtherErr taxa ol oi)).
  2:{ intros nd s0. unfold prune_taxa_step_e, is_internal, Node__get_edge, Edge__get_tail_node. hsimpp. cbv zeta.
      pose proof (gen_remove_from_parent_body OtherErr nd s0) as B.
      destruct oi, ol, (kids s0 nd) as [|k0 kr]; simpl; try reflexivity;
        destruct (taxon s0 nd) as [x|]; simpl; try reflexivity;
        rewrite ?py_in_memz; destruct (memz x taxa); simpl; try reflexivity; exact B. }
  destruct (hfold (prune_taxa_step_e OtherErr taxa ol oi) (post_ids t) h) as [h1|e h1|] eqn:Eh; simpl lift; simpl hbind in *;
    cbv iota; try reflexivity.
  destruct (gen_plwt_lift fuel true ub su h1 (Hf t h1 eq_refl Eh) Hnf) as [v ->].
  destruct (plwt_e OtherErr true ub su h1); reflexivity.
Qed.

(* ---- against HeapOps.run_op_v for the current source: both repairs present ---- *)
Definition v_now : variants := mkVariants true true true.

Lemma relab_fuel r : relab r <> HFuel -> r <> HFuel.
Proof. intros H E. apply H. rewrite E. reflexivity. Qed.

Theorem gen_prune_leaves_without_taxa (fuel : nat) (recursive ub su : bool) (h : heap) :
  (fuel_of h <= fuel)%nat ->
  run_op_v v_now (OPruneLeavesWithoutTaxa recursive ub su) h <> HFuel ->
  to_hres (Tree_prune_leaves_without_taxa HG fuel recursive ub su h)
  = run_op_v v_now (OPruneLeavesWithoutTaxa recursive ub su) h.
Proof.
  cbn [run_op_v v_now v_seed_guard run_op]. rewrite relab_plwt. apply gen_plwt_e.
Qed.

Theorem gen_prune_nodes (fuel : nat) (nodes : list Z) (plwt ub su : bool) (h : heap) :
  (forall h1, hfold (remove_from_parent OtherErr) nodes h = HOk h1 -> (fuel_of h1 <= fuel)%nat) ->
  run_op_v v_now (OPruneNodes nodes plwt ub su) h <> HFuel ->
  to_hres (Tree_prune_nodes HG fuel nodes plwt ub su h) = run_op_v v_now (OPruneNodes nodes plwt ub su) h.
Proof.
  assert (E : run_op_v v_now (OPruneNodes nodes plwt ub su) h = prune_nodes_e OtherErr nodes plwt ub su h)
    by (etransitivity; [|apply relab_prune_nodes]; reflexivity).
  rewrite E. apply gen_prune_nodes_e.
Qed.

Theorem gen_prune_taxa (fuel : nat) (taxa : list Z) (ub su ol oi : bool) (h : heap) :
  (forall t h1, abs_at h (seed h) = Some t ->
                hfold (prune_taxa_step_e OtherErr taxa ol oi) (post_ids t) h = HOk h1 -> (fuel_of h1 <= fuel)%nat) ->
  run_op_v v_now (OPruneTaxa taxa ub su ol oi) h <> HFuel ->
  to_hres (Tree_prune_taxa HG fuel taxa ub su ol oi h) = run_op_v v_now (OPruneTaxa taxa ub su ol oi) h.
Proof.
  cbn [run_op_v v_now v_seed_guard run_op]. rewrite relab_prune_taxa. apply gen_prune_taxa_e.
Qed.

Lemma gen_prune_taxa_lift (fuel : nat) (taxa : list Z) (ub su ol oi : bool) (h : heap) :
  (forall t h1, abs_at h (seed h) = Some t ->
                hfold (prune_taxa_step_e OtherErr taxa ol oi) (post_ids t) h = HOk h1 -> (fuel_of h1 <= fuel)%nat) ->
  prune_taxa_e OtherErr taxa ub su ol oi h <> HFuel ->
  Tree_prune_taxa HG fuel taxa ub su ol oi h = lift tt (prune_taxa_e OtherErr taxa ub su ol oi h).
Proof.
  intros Hf Hnf. pose proof (gen_prune_taxa_e fuel taxa ub su ol oi h Hf Hnf) as R.
  destruct (Tree_prune_taxa HG fuel taxa ub su ol oi h) as [[] s|e s|];
    destruct (prune_taxa_e OtherErr taxa ub su ol oi h) as [h'|e' h'|]; simpl in R; try discriminate;
    try (inversion R; subst; reflexivity); try (exfalso; apply Hnf; reflexivity).
Qed.

Theorem gen_retain_taxa (fuel : nat) (namespace taxa : list Z) (ub su : bool) (h : heap) :
  (forall t h1, abs_at h (seed h) = Some t ->
                hfold (prune_taxa_step_e OtherErr (filter (fun x => negb (memz x taxa)) namespace) true false) (post_ids t) h = HOk h1 ->
                (fuel_of h1 <= fuel)%nat) ->
  run_op_v v_now (ORetainTaxa namespace taxa ub su) h <> HFuel ->
  to_hres (Tree_retain_taxa HG fuel namespace taxa ub su h) = run_op_v v_now (ORetainTaxa namespace taxa ub su) h.
Proof.
  cbn [run_op_v v_now v_seed_guard run_op]. unfold retain_taxa. rewrite relab_prune_taxa.
  intros Hf Hnf. unfold Tree_retain_taxa. cbv zeta.
  assert (Ef : filter (fun t => negb (py_in Z.eqb t taxa)) namespace = filter (fun x => negb (memz x taxa)) namespace)
    by (apply filter_ext; intro x; rewrite py_in_memz; reflexivity).
  rewrite Ef, (gen_prune_taxa_lift fuel _ ub su true false h Hf Hnf).
  destruct (prune_taxa_e _ _ ub su true false h); reflexivity.
Qed.

(* the *_with_labels wrappers resolve the labels through the namespace (TaxonNamespace.get_taxa: C10)
   and delegate *)
Theorem gen_with_labels (fuel : nat) (namespace : list Z) (get_taxa : list Z -> list Z) (labels : list Z)
        (ub su ol oi : bool) (h : heap) :
  to_hres (Tree_prune_taxa_with_labels HG fuel get_taxa labels ub su ol oi h)
  = to_hres (Tree_prune_taxa HG fuel (get_taxa labels) ub su ol oi h) /\
  to_hres (Tree_retain_taxa_with_labels HG fuel namespace get_taxa labels ub su h)
  = to_hres (Tree_retain_taxa HG fuel namespace (get_taxa labels) ub su h).
Proof.
  unfold Tree_prune_taxa_with_labels, Tree_retain_taxa_with_labels. cbv zeta. split.
  - destruct (Tree_prune_taxa HG fuel (get_taxa labels) ub su ol oi h); reflexivity.
  - destruct (Tree_retain_taxa HG fuel namespace (get_taxa labels) ub su h); reflexivity.
Qed.
