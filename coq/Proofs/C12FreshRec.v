(* C12, sixth wave: every ANNOTABLE object (Annotable / Taxon / TaxonNamespace kinds) the copy algorithm allocates
   is recorded as the copy of some source object (new_copy allocates and notes in one step; everything else it
   allocates is a list, set, tuple or AnnotationSet).  Same pass structure as Proofs/C12NoAtom.v. *)
From Coq Require Import ZArith List Bool Lia.
From DV Require Import Model.PyPrims Model.C12Model Proofs.C12Heap.
Import ListNotations.
Open Scope Z_scope.

Section FreshRec.
Variable n0 : Z.

Definition NA (s : st) : Prop :=
  forall o kd, n0 <= o -> kind_at (sh s) o = Some kd -> is_annk kd = true -> exists a, In (a, o) (sc s).

Definition RecNA (rec : rec_t) : Prop := forall s v s' v', rec s v = Ok (s', v') -> NA s -> NA s'.
Definition StNA (r : res st) (s : st) : Prop := forall s', r = Ok s' -> NA s -> NA s'.

Lemma na_heap : forall s s', sh s' = sh s -> incl (sc s) (sc s') -> NA s -> NA s'.
Proof. intros s s' E IC H o kd Ho K A. rewrite E in K. destruct (H o kd Ho K A) as [a I]. exists a. apply IC. exact I. Qed.

Lemma put_sc : forall s y k v, sc (put s y k v) = sc s.
Proof. intros. unfold put. destruct (hget (sh s) y); reflexivity. Qed.

Lemma na_put : forall s y k v, NA s -> NA (put s y k v).
Proof. intros s y k v H o kd Ho K A. rewrite put_kind in K. rewrite put_sc. eauto. Qed.

Lemma na_alloc : forall s x, NA s -> is_annk (okind x) = false -> NA (fst (alloc s x)).
Proof.
  intros s x H NK o kd Ho K A. simpl in K. unfold kind_at in K. simpl.
  destruct (hget (sh s ++ [x]) o) as [ob|] eqn:G; [|discriminate].
  assert (R0 := hget_Some_range _ _ _ G). rewrite hlen_app1 in R0.
  destruct (Z.eq_dec o (hlen (sh s))) as [E|E].
  - subst o. rewrite hget_app_new in G. inversion G; subst ob. inversion K; subst kd. congruence.
  - rewrite hget_app_old in G by lia. apply (H o kd Ho); [|exact A]. unfold kind_at. rewrite G. exact K.
Qed.

Lemma na_memo_val : forall s v v', NA s -> NA (memo_val s v v').
Proof.
  intros s v v' H. apply (na_heap s); [| |exact H]; destruct v as [p|a]; destruct v' as [q|b]; simpl; try reflexivity;
    try apply incl_refl; destruct p; simpl; try reflexivity; apply incl_refl.
Qed.

Lemma stna_ok : forall s, StNA (Ok s) s.
Proof. intros s s' E H. inversion E; subst. exact H. Qed.

Lemma stna_err : forall e s, StNA (Err e) s.
Proof. intros e s s' E. discriminate. Qed.

Lemma stna_oof : forall s, StNA OutOfFuel s.
Proof. intros s s' E. discriminate. Qed.

Lemma stna_from : forall r s1 s2, (NA s1 -> NA s2) -> StNA r s2 -> StNA r s1.
Proof. intros r s1 s2 F H s' E N. apply (H s' E). auto. Qed.

Lemma copy_append_na : forall xs rec s y i, RecNA rec -> StNA (copy_append rec s y i xs) s.
Proof.
  induction xs as [|a r IH]; intros rec s y i RS; simpl; [apply stna_ok|].
  destruct (rec s a) as [[s1 a']| |] eqn:E; simpl; [|apply stna_err|apply stna_oof].
  apply stna_from with (s2 := put s1 y (pidx i) a'); [|apply IH; exact RS].
  intro N. apply na_put. exact (RS _ _ _ _ E N).
Qed.

Lemma copy_entries_na : forall es rec ck s y, RecNA rec -> StNA (copy_entries rec ck s y es) s.
Proof.
  induction es as [|[k v] r IH]; intros rec ck s y RS; simpl; [apply stna_ok|].
  destruct ck.
  - destruct (rec s k) as [[s1 k']| |] eqn:E1; simpl; [|apply stna_err|apply stna_oof].
    destruct (rec s1 v) as [[s2 v']| |] eqn:E2; simpl; [|apply stna_err|apply stna_oof].
    apply stna_from with (s2 := put s2 y k' v'); [|apply IH; exact RS].
    intro N. apply na_put. exact (RS _ _ _ _ E2 (RS _ _ _ _ E1 N)).
  - destruct k as [p|o]; simpl; [|apply stna_err].
    destruct (rec s v) as [[s2 v']| |] eqn:E2; simpl; [|apply stna_err|apply stna_oof].
    apply stna_from with (s2 := put s2 y (P p) v'); [|apply IH; exact RS].
    intro N. apply na_put. exact (RS _ _ _ _ E2 N).
Qed.

Lemma plain_fields_na : forall es rec skip s y, RecNA rec -> StNA (plain_fields rec skip s y es) s.
Proof.
  induction es as [|[k v] r IH]; intros rec skip s y RS; simpl; [apply stna_ok|].
  destruct (existsb (val_eqb k) skip); [apply IH; exact RS|].
  destruct (rec s v) as [[s1 v']| |] eqn:E; simpl; [|apply stna_err|apply stna_oof].
  apply stna_from with (s2 := put s1 y k v'); [|apply IH; exact RS].
  intro N. apply na_put. exact (RS _ _ _ _ E N).
Qed.

Lemma annotable_fields_na : forall es rec s y, RecNA rec -> StNA (annotable_fields rec s y es) s.
Proof.
  induction es as [|[k v] r IH]; intros rec s y RS; simpl; [apply stna_ok|].
  destruct (val_eqb k NM_ANN); [apply IH; exact RS|].
  destruct (bget (body_of s y) k); [apply IH; exact RS|].
  destruct (rec s v) as [[s1 v']| |] eqn:E; simpl; [|apply stna_err|apply stna_oof].
  apply stna_from with (s2 := memo_val (put s1 y k v') v v'); [|apply IH; exact RS].
  intro N. apply na_memo_val. apply na_put. exact (RS _ _ _ _ E N).
Qed.

Lemma oset_add_na : forall s sy a, StNA (oset_add s sy a) s.
Proof.
  intros s sy a. unfold oset_add.
  destruct (bget (body_of s sy) NM_ISET) as [[?|zy]|]; try apply stna_err.
  destruct (bget (body_of s sy) NM_ILIST) as [[?|ly]|]; try apply stna_err.
  destruct (bget (body_of s zy) a); [apply stna_ok|].
  intros s' E N. inversion E; subst. apply na_put. apply na_put. exact N.
Qed.

Lemma new_annset_na : forall s cls tg, NA s -> NA (fst (new_annset s cls tg)).
Proof.
  intros s cls tg N. unfold new_annset.
  destruct (alloc s (mkObj cls KAnnSet [])) as [sa sy] eqn:A1.
  destruct (alloc sa (mkObj CLS_LIST KList [])) as [sb ly] eqn:A2.
  destruct (alloc sb (mkObj CLS_SET KSet [])) as [sd zy] eqn:A3. simpl.
  assert (Na : NA sa) by (replace sa with (fst (alloc s (mkObj cls KAnnSet []))) by (rewrite A1; reflexivity);
                          apply na_alloc; [exact N | reflexivity]).
  assert (Nb : NA sb) by (replace sb with (fst (alloc sa (mkObj CLS_LIST KList []))) by (rewrite A2; reflexivity);
                          apply na_alloc; [exact Na | reflexivity]).
  assert (Nd : NA sd) by (replace sd with (fst (alloc sb (mkObj CLS_SET KSet []))) by (rewrite A3; reflexivity);
                          apply na_alloc; [exact Nb | reflexivity]).
  repeat apply na_put. exact Nd.
Qed.

Lemma annotations_add_na : forall s dst a2, StNA (annotations_add s dst a2) s.
Proof.
  intros s dst a2. unfold annotations_add.
  destruct (bget (body_of s dst) NM_ANN) as [[?|sy]|]; [apply stna_err | apply oset_add_na |].
  destruct (new_annset s CLS_ANNSET (R dst)) as [s1 sy] eqn:A.
  apply stna_from with (s2 := put s1 dst NM_ANN (R sy)); [|apply oset_add_na].
  intro N. apply na_put. replace s1 with (fst (new_annset s CLS_ANNSET (R dst))) by (rewrite A; reflexivity).
  apply new_annset_na. exact N.
Qed.

Lemma retarget_na : forall s dst src a1 a2, StNA (retarget s dst src a1 a2) s.
Proof.
  intros s dst src a1 a2. unfold retarget.
  destruct a2 as [?|a2o]; [apply stna_err|].
  destruct (bget (body_of s a2o) NM_ISATTR) as [isattr|]; [|apply stna_err].
  destruct (val_eqb isattr PTrue); [|apply stna_ok].
  destruct a1 as [?|a1o]; [apply stna_err|].
  destruct (bget (body_of s a1o) NM_VALUE) as [[?|t]|]; try apply stna_err.
  destruct (match kind_of s t with Some KTuple | Some KList => values (body_of s t) | _ => [] end) as [|owner rest];
    [apply stna_err|].
  destruct (val_eqb owner (R src)); [|apply stna_ok].
  destruct rest as [|name rest']; [apply stna_err|].
  destruct (alloc s (mkObj CLS_TUPLE KTuple [(pidx 0, R dst); (pidx 1, name)])) as [sa tn] eqn:A.
  intros s' E N. inversion E; subst. apply na_put. apply (na_heap sa); [reflexivity | simpl; apply incl_tl, incl_refl |].
  replace sa with (fst (alloc s (mkObj CLS_TUPLE KTuple [(pidx 0, R dst); (pidx 1, name)]))) by (rewrite A; reflexivity).
  apply na_alloc; [exact N | reflexivity].
Qed.

Lemma stna_bind : forall (r : res st) (k : st -> res st) s,
  StNA r s -> (forall s1, r = Ok s1 -> StNA (k s1) s1) -> StNA (bind r k) s.
Proof.
  intros r k s H K. destruct r as [s1| |]; simpl; [|apply stna_err|apply stna_oof].
  intros s' E N. apply (K s1 eq_refl s' E). apply (H s1 eq_refl N).
Qed.

Lemma copy_annotation_items_na : forall items rec s dst src, RecNA rec ->
  StNA (copy_annotation_items rec s dst src items) s.
Proof.
  induction items as [|a1 r IH]; intros rec s dst src RS; simpl; [apply stna_ok|].
  destruct (rec s a1) as [[s1 a2]| |] eqn:E; simpl; [|apply stna_err|apply stna_oof].
  apply stna_from with (s2 := memo_val s1 a1 a2).
  { intro N. apply na_memo_val. exact (RS _ _ _ _ E N). }
  apply stna_bind; [apply retarget_na|]. intros s3 _.
  apply stna_bind; [apply annotations_add_na|]. intros s4 _. apply IH. exact RS.
Qed.

Lemma dcaf_na : forall rec s dst src, RecNA rec -> StNA (deep_copy_annotations_from rec s dst src) s.
Proof.
  intros rec s dst src RS. unfold deep_copy_annotations_from.
  destruct (bget (body_of s src) NM_ANN) as [[?|sx]|]; [apply stna_err | | apply stna_ok].
  destruct (hget (sh s) dst) as [d|]; [|apply stna_err].
  destruct (hget (sh s) src) as [o|]; [|apply stna_err].
  destruct (negb (ocls d =? ocls o)); [apply stna_err|].
  destruct (bget (body_of s sx) NM_ILIST) as [[?|lx]|]; try apply stna_err.
  apply stna_bind; [apply copy_annotation_items_na; exact RS|]. intros s1 _.
  destruct (bget (body_of s1 dst) NM_ANN) as [[?|sy]|].
  - intros s' E N. injection E as <-. exact N.
  - intros s' E N. injection E as <-. apply (na_heap s1); [reflexivity | apply incl_refl | exact N].
  - apply stna_ok.
Qed.

Lemma annset_items_na : forall items rec s o, RecNA rec -> StNA (annset_items rec s o items) s.
Proof.
  induction items as [|a r IH]; intros rec s o RS; simpl; [apply stna_ok|].
  destruct (rec s a) as [[sa a']| |] eqn:E; simpl; [|apply stna_err|apply stna_oof].
  apply stna_from with (s2 := memo_val sa a a').
  { intro N. apply na_memo_val. exact (RS _ _ _ _ E N). }
  apply stna_bind; [apply oset_add_na|]. intros sb _. apply IH. exact RS.
Qed.

Lemma new_copy_na : forall s x ob, NA s -> NA (fst (new_copy s x ob)).
Proof.
  intros s x ob N o kd Ho K A. unfold new_copy in *. simpl in *. unfold kind_at in K.
  destruct (hget (sh s ++ [mkObj (ocls ob) (okind ob) []]) o) as [ob1|] eqn:G; [|discriminate].
  assert (R0 := hget_Some_range _ _ _ G). rewrite hlen_app1 in R0.
  destruct (Z.eq_dec o (hlen (sh s))) as [E|E].
  - subst o. exists x. left. reflexivity.
  - rewrite hget_app_old in G by lia.
    destruct (N o kd Ho) as [a I]; [unfold kind_at; rewrite G; exact K | exact A |]. exists a. right. exact I.
Qed.

(* result form used by dc_step: a state computation followed by `Ok (s2, R y)` *)
Lemma finish_na : forall (r : res st) s0 s1 (y : Z) s' v',
  (do s2 <- r ;; Ok (s2, R y)) = Ok (s', v') -> StNA r s1 -> (NA s0 -> NA s1) -> NA s0 -> NA s'.
Proof.
  intros r s0 s1 y s' v' E H F N. destruct r as [s2| |]; simpl in E; try discriminate.
  inversion E; subst. apply (H s' eq_refl). auto.
Qed.

Lemma finish_na2 : forall (r : res st) (k : st -> res st) s0 s1 (y : Z) s' v',
  (do s2 <- r ;; do s3 <- k s2 ;; Ok (s3, R y)) = Ok (s', v') ->
  StNA r s1 -> (forall s2, StNA (k s2) s2) -> (NA s0 -> NA s1) -> NA s0 -> NA s'.
Proof.
  intros r k s0 s1 y s' v' E H K F N. destruct r as [s2| |]; simpl in E; try discriminate.
  eapply (finish_na (k s2) s2 s2); [exact E | apply K | auto |]. apply (H s2 eq_refl). auto.
Qed.

Lemma finish_na3 : forall (r : res st) (k k2 : st -> res st) s0 s1 (y : Z) s' v',
  (do s2 <- r ;; do s3 <- k s2 ;; do s4 <- k2 s3 ;; Ok (s4, R y)) = Ok (s', v') ->
  StNA r s1 -> (forall s2, StNA (k s2) s2) -> (forall s2, StNA (k2 s2) s2) -> (NA s0 -> NA s1) -> NA s0 -> NA s'.
Proof.
  intros r k k2 s0 s1 y s' v' E H K K2 F N. destruct r as [s2| |]; simpl in E; try discriminate.
  eapply (finish_na2 (k s2) k2 s2 s2); [exact E | apply K | exact K2 | auto |]. apply (H s2 eq_refl). auto.
Qed.

Lemma dc_step_na : forall rec, RecNA rec -> RecNA (dc_step rec).
Proof.
  intros rec RS s v s' v' E N. unfold dc_step in E.
  destruct v as [p|x]; [inversion E; subst; exact N|].
  destruct (alookup x (sm s)) as [y0|]; [inversion E; subst; exact N|].
  destruct (hget (sh s) x) as [ob|] eqn:G; [|discriminate].
  destruct (okind ob) eqn:KO.
  - inversion E; subst. exact N.
  - destruct (new_copy s x ob) as [s1 y] eqn:NC.
    eapply finish_na; [exact E | apply copy_append_na; exact RS | | exact N].
    intro N0. replace s1 with (fst (new_copy s x ob)) by (rewrite NC; reflexivity). apply new_copy_na; exact N0.
  - destruct (new_copy s x ob) as [s1 y] eqn:NC.
    eapply finish_na; [exact E | apply copy_entries_na; exact RS | | exact N].
    intro N0. replace s1 with (fst (new_copy s x ob)) by (rewrite NC; reflexivity). apply new_copy_na; exact N0.
  - destruct (forallb (fun e => is_prim (fst e) && is_prim (snd e)) (obody ob)); [|discriminate].
    destruct (alloc s ob) as [s1 y] eqn:A. inversion E; subst. apply (na_heap s1); [reflexivity | simpl; apply incl_tl, incl_refl |].
    replace s1 with (fst (alloc s ob)) by (rewrite A; reflexivity). apply na_alloc; [exact N | rewrite KO; reflexivity].
  - destruct (new_copy s x ob) as [s1 y] eqn:NC.
    eapply finish_na; [exact E | apply copy_append_na; exact RS | | exact N].
    intro N0. replace s1 with (fst (new_copy s x ob)) by (rewrite NC; reflexivity). apply new_copy_na; exact N0.
  - destruct (new_copy s x ob) as [s1 y] eqn:NC.
    eapply finish_na; [exact E | apply plain_fields_na; exact RS | | exact N].
    intro N0. replace s1 with (fst (new_copy s x ob)) by (rewrite NC; reflexivity). apply new_copy_na; exact N0.
  - destruct (new_copy s x ob) as [s1 y] eqn:NC.
    eapply finish_na2; [exact E | apply annotable_fields_na; exact RS | intro s2; apply dcaf_na; exact RS | | exact N].
    + intro N0. replace s1 with (fst (new_copy s x ob)) by (rewrite NC; reflexivity). apply new_copy_na; exact N0.
  - (* KAnnSet *)
    destruct (bget (obody ob) NM_TARGET) as [tg|]; [|discriminate].
    destruct (match tg with
              | R t => match alookup t (sm s) with Some t' => Ok (R t') | None => Err KeyErr end
              | P 0 => if snone s then Ok PNone else Err KeyErr
              | P _ => Err KeyErr
              end) as [tg'| |]; cbn [bind] in E; try discriminate.
    destruct (new_annset s (ocls ob) tg') as [s1 o] eqn:NS.
    destruct (bget (obody ob) NM_ILIST) as [[?|lx]|]; try discriminate.
    eapply finish_na; [exact E | apply annset_items_na; exact RS | | exact N].
    intro N0. apply (na_heap s1); [reflexivity | simpl; apply incl_tl, incl_refl |].
    replace s1 with (fst (new_annset s (ocls ob) tg')) by (rewrite NS; reflexivity). apply new_annset_na. exact N0.
  - destruct (new_copy s x ob) as [s1 y] eqn:NC.
    eapply finish_na2; [exact E | apply plain_fields_na; exact RS | intro s2; apply dcaf_na; exact RS | | exact N].
    + intro N0. replace s1 with (fst (new_copy s x ob)) by (rewrite NC; reflexivity). apply new_copy_na; exact N0.
  - (* KNamespace *)
    destruct (new_copy s x ob) as [s1 y] eqn:NC.
    destruct (bget (obody ob) NM_TAXA) as [[?|lt]|]; try discriminate.
    destruct (alloc s1 (mkObj CLS_LIST KList [])) as [s2 l] eqn:A.
    eapply finish_na3; [exact E | apply copy_append_na; exact RS | intro s4; apply plain_fields_na; exact RS
                        | intro s5; apply dcaf_na; exact RS | | exact N].
    + intro N0. apply (na_heap (put s2 y NM_TAXA (R l))); [reflexivity | simpl; apply incl_tl, incl_refl |]. apply na_put.
      replace s2 with (fst (alloc s1 (mkObj CLS_LIST KList []))) by (rewrite A; reflexivity).
      apply na_alloc; [|reflexivity].
      replace s1 with (fst (new_copy s x ob)) by (rewrite NC; reflexivity). apply new_copy_na; exact N0.
  - destruct (new_copy s x ob) as [s1 y] eqn:NC.
    eapply finish_na; [exact E | apply copy_entries_na; exact RS | | exact N].
    intro N0. replace s1 with (fst (new_copy s x ob)) by (rewrite NC; reflexivity). apply new_copy_na; exact N0.
Qed.

Theorem dc_na : forall f, RecNA (dc f).
Proof.
  induction f as [|f IH]; [intros s v s' v' E; discriminate E|].
  simpl. apply dc_step_na. exact IH.
Qed.

End FreshRec.

(* at top level: after a seeded deep copy every fresh annotable object is a recorded copy *)
Theorem run_seeded_fresh_recorded : forall nf fuel h seeds root s' v,
  run_seeded nf fuel h seeds root = Ok (s', v) ->
  forall o kd, hlen h <= o -> kind_at (sh s') o = Some kd -> is_annk kd = true -> exists a, In (a, o) (sc s').
Proof.
  intros nf fuel h seeds root s' v E. unfold run_seeded in E.
  apply (dc_na (hlen h) fuel _ _ _ _ E).
  intros o kd Ho K. simpl in K. unfold kind_at in K. destruct (hget h o) eqn:G; [|discriminate].
  apply hget_Some_range in G. lia.
Qed.
