(* C03 proofs: Node.remove_child(node, suppress_unifurcations=True) and
   Tree.polytomize_root / Node._convert_node_to_root_polytomy keep well-formedness; the result
   trees are given explicitly. *)
From Coq Require Import ZArith List Bool Lia Permutation.
From DV Require Import Model.PyPrims Model.Tree Model.Heap Model.HeapOps Model.C03Spec
  Proofs.C03Base Proofs.C03Abs Proofs.C03Local Proofs.C03Prims Proofs.C03Collapse Proofs.C03Suppress
  Proofs.C03Reseed Proofs.C03Order Proofs.C03Ops Proofs.C03Ops2 Proofs.C03PruneLoops.
Import ListNotations. Open Scope Z_scope.

(* ---------- small facts ---------- *)

Lemma get_add_len_try a b h j :
  get (add_len_try a b h) j =
  if Z.eqb j a
  then mkCell (parent h a) (kids h a) (try_add_len (elen h a) (elen h b)) (taxon h a) (label h a)
  else get h j.
Proof.
  unfold add_len_try, try_add_len.
  destruct (elen h a) as [la|] eqn:Ea; [destruct (elen h b) as [lb|] eqn:Eb|];
    rewrite ?get_set_elen; destruct (Z.eqb j a) eqn:E; try reflexivity;
    apply Z.eqb_eq in E; subst j; rewrite (get_eta h a), Ea; reflexivity.
Qed.

Lemma add_len_try_frame a b h :
  same_off [a] h (add_len_try a b h) /\ grows h (add_len_try a b h) /\ pres h (add_len_try a b h).
Proof.
  unfold add_len_try. destruct (elen h a); [destruct (elen h b)|];
    try (split; [apply same_off_refl|split; [apply grows_refl|apply pres_refl]]).
  apply set_elen_frame.
Qed.

Lemma is_internal_rep h par t :
  rep h par t -> is_internal h (t_id t) = match t_kids t with [] => false | _ => true end.
Proof.
  intro R. unfold is_internal. rewrite (rep_kids h par t R). destruct (t_kids t); reflexivity.
Qed.

Lemma fm_cons {A B} (f : A -> list B) a l : flat_map f (a :: l) = f a ++ flat_map f l.
Proof. reflexivity. Qed.
Lemma fm_nil {A B} (f : A -> list B) : flat_map f [] = [].
Proof. reflexivity. Qed.

(* inclusion between the id lists of two explicit trees *)
Ltac ids_incl :=
  let j := fresh "j" in let Hj := fresh "Hj" in
  intros j Hj;
  repeat (rewrite ids_eq in Hj || rewrite fm_cons in Hj || rewrite fm_nil in Hj || rewrite flat_map_app in Hj);
  repeat (rewrite ids_eq || rewrite fm_cons || rewrite fm_nil || rewrite flat_map_app);
  repeat first [rewrite in_app_iff in Hj | progress (cbn [In app] in Hj)];
  repeat first [rewrite in_app_iff | progress (cbn [In app])]; tauto.

(* ---------- A1: the parent p of the removed child is left with one child and has a parent ---------- *)

Lemma remove_child_su_unary h c q xq lq eq a b p x l e lft s rgt k :
  lft ++ rgt = [k] ->
  Wr h (plug c (T q xq lq eq (a ++ T p x l e (lft ++ s :: rgt) :: b))) ->
  exists h', remove_child p (t_id s) true h = HOk h' /\
    Wr h' (plug c (T q xq lq eq
                     (a ++ (match k with T ki xk lk ek kk => T ki xk lk (try_add_len ek e) kk end) :: b))) /\
    pres h h'.
Proof.
  intros Ek W.
  assert (W0 : Wr h (plug (CNode c q xq lq eq a b) (T p x l e (lft ++ s :: rgt)))) by exact W.
  destruct (remove_child_plain_wf h _ p x l e lft s rgt W0) as [h2 [E2 [W2 [_ [_ [_ P2]]]]]].
  rewrite Ek in W2. simpl plug in W2.
  unfold remove_child. rewrite E2. cbn [hbind negb].
  destruct k as [ki xk lk ek kk].
  remember (T ki xk lk ek kk) as k0 eqn:Ek0.
  remember (T p x l e [k0]) as tp eqn:Etp.
  destruct (wr_focus _ _ _ _ _ _ _ W2) as [Hq [Gq [Fk [N1 [N2 [N3 [N4 [N5 N6]]]]]]]].
  pose proof W2 as [_ [Nall _]]. apply nodup_plug in Nall. destruct Nall as [Ns _].
  pose proof (focus_facts _ _ _ _ _ _ _ Ns) as F.
  (* the cells of p and k in h2 *)
  apply Forall_app in Fk. destruct Fk as [Fa Fb]. inversion Fb as [|? ? Rp Fb']; subst l0 x0. clear Fb.
  pose proof Rp as Rp0. rewrite Etp in Rp0. apply rep_eq in Rp0. destruct Rp0 as [Hp [Gp Fp]].
  inversion Fp as [|? ? Rk _]; subst l0 x0. clear Fp.
  pose proof Rk as Rk0. rewrite Ek0 in Rk0. apply rep_eq in Rk0. destruct Rk0 as [Hk [Gk Fkk]].
  rewrite Ek0 in Gp. simpl in Gp.
  rewrite map_app in Gq. simpl in Gq. rewrite Etp in Gq. simpl t_id in Gq.
  (* disjointness *)
  assert (Itp : ids tp = p :: ki :: flat_map ids kk ++ []).
  { rewrite Etp, ids_eq. simpl. rewrite Ek0, ids_eq. reflexivity. }
  rewrite app_nil_r in Itp.
  assert (Dqp : q <> p). { intro E0. apply (fn_p_tc _ _ _ _ F). rewrite Itp, E0. left. reflexivity. }
  assert (Dqk : q <> ki). { intro E0. apply (fn_p_tc _ _ _ _ F). rewrite Itp, E0. right. left. reflexivity. }
  pose proof (fn_tc _ _ _ _ F) as Ntp. rewrite Itp in Ntp.
  apply NoDup_cons_iff in Ntp. destruct Ntp as [Np1 Ntp]. apply NoDup_cons_iff in Ntp. destruct Ntp as [Nk1 Nkk].
  assert (Dpk : p <> ki). { intro E0. apply Np1. left. auto. }
  assert (Npa : ~ In p (map t_id a)).
  { apply notin_map_of_flat. apply (fn_tc_lft _ _ _ _ F). rewrite Itp. left. reflexivity. }
  assert (Nka : ~ In ki (map t_id a)).
  { apply notin_map_of_flat. apply (fn_tc_lft _ _ _ _ F). rewrite Itp. right. left. reflexivity. }
  assert (Nkb : ~ In ki (map t_id b)).
  { apply notin_map_of_flat. apply (fn_tc_rgt _ _ _ _ F). rewrite Itp. right. left. reflexivity. }
  (* run the code *)
  replace (parent h2 p) with (Some q) by (unfold parent; rewrite Gp; reflexivity).
  replace (kids h2 p) with [ki] by (unfold kids; rewrite Gp; reflexivity).
  replace (kids h2 q) with (map t_id a ++ p :: map t_id b) by (unfold kids; rewrite Gq; reflexivity).
  rewrite (index_of_app_notin p _ _ Npa).
  (* insert_child q pos ki *)
  unfold insert_child.
  set (h2a := set_parent ki (Some q) h2).
  assert (Kq2a : kids h2a q = map t_id a ++ p :: map t_id b).
  { unfold kids, h2a. rewrite get_set_parent, (eqb_neq_l _ _ Dqk), Gq. reflexivity. }
  rewrite Kq2a.
  rewrite index_of_notin.
  2:{ rewrite in_app_iff. intros [H|[H|H]]; [exact (Nka H)|exact (Dpk H)|exact (Nkb H)]. }
  rewrite insert_at_length.
  set (h3 := set_kids q (map t_id a ++ ki :: p :: map t_id b) h2a).
  (* remove_child_plain q p *)
  unfold remove_child_plain.
  assert (Kq3 : kids h3 q = map t_id a ++ ki :: p :: map t_id b).
  { unfold kids, h3. rewrite get_set_kids, Z.eqb_refl. reflexivity. }
  rewrite Kq3.
  replace (memz p (map t_id a ++ ki :: p :: map t_id b)) with true
    by (symmetry; apply memz_In, in_app_iff; right; right; left; reflexivity).
  cbn [hbind].
  set (h3p := set_parent p None h3).
  assert (Kq3p : kids h3p q = (map t_id a ++ [ki]) ++ p :: map t_id b).
  { unfold kids, h3p. rewrite get_set_parent, (eqb_neq_l _ _ Dqp). fold (kids h3 q).
    rewrite Kq3, <- app_assoc. reflexivity. }
  rewrite Kq3p, remove_first_app_notin.
  2:{ rewrite in_app_iff. intros [H|[H|[]]]; [exact (Npa H)|apply Dpk; auto]. }
  rewrite <- app_assoc. simpl app.
  set (h4 := set_kids q (map t_id a ++ ki :: map t_id b) h3p).
  set (h5 := add_len_try ki p h4).
  set (h' := set_kids p [] h5).
  exists h'. split; [reflexivity|].
  (* frame *)
  destruct (add_len_try_frame ki p h4) as [A5 [G5 P5]]. fold h5 in A5, G5, P5.
  assert (A4 : same_off [q; p; ki] h2 h4).
  { unfold h4, h3p, h3, h2a, set_kids, set_parent. frame_solve. }
  assert (G4 : grows h2 h4).
  { unfold h4, h3p, h3, h2a, set_kids, set_parent. frame_solve. }
  assert (A : same_off [q; p; ki] h2 h').
  { unfold h', set_kids. apply same_off_step; [in_list|].
    eapply same_off_trans; [exact A4|]. eapply same_off_weaken; [|exact A5].
    intros j [<-|[]]. in_list. }
  assert (G : grows h2 h').
  { unfold h', set_kids. apply grows_step. eapply grows_trans; eauto. }
  assert (P : pres h h').
  { eapply pres_trans; [exact P2|]. eapply pres_trans; [|eapply pres_trans; [exact P5|apply pres_upd_cell]].
    unfold h4, h3p, h3, h2a, set_kids, set_parent. repeat split. }
  split; [|exact P].
  (* cells of the final heap *)
  assert (Gq4 : get h4 q = mkCell (cpar c None) (map t_id a ++ ki :: map t_id b) eq xq lq).
  { unfold h4. rewrite get_set_kids, Z.eqb_refl. unfold parent, elen, taxon, label, h3p.
    rewrite !get_set_parent, !(eqb_neq_l _ _ Dqp). unfold h3. rewrite !get_set_kids, !Z.eqb_refl.
    unfold parent, elen, taxon, label, h2a. rewrite !get_set_parent, !(eqb_neq_l _ _ Dqk), Gq. reflexivity. }
  assert (Gk4 : get h4 ki = mkCell (Some q) (map t_id kk) ek xk lk).
  { unfold h4. rewrite get_set_kids, (eqb_neq_r _ _ Dqk). unfold h3p.
    rewrite get_set_parent, (eqb_neq_r _ _ Dpk). unfold h3. rewrite get_set_kids, (eqb_neq_r _ _ Dqk).
    unfold h2a. rewrite get_set_parent, Z.eqb_refl. unfold kids, elen, taxon, label. rewrite Gk. reflexivity. }
  assert (Ep4 : elen h4 p = e).
  { unfold elen, h4. rewrite get_set_kids, (eqb_neq_r _ _ Dqp). unfold h3p.
    rewrite get_set_parent, Z.eqb_refl. simpl. unfold elen, h3.
    rewrite get_set_kids, (eqb_neq_r _ _ Dqp). unfold h2a. rewrite get_set_parent, (eqb_neq_l _ _ Dpk), Gp.
    reflexivity. }
  assert (Gq' : get h' q = mkCell (cpar c None) (map t_id a ++ ki :: map t_id b) eq xq lq).
  { unfold h'. rewrite get_set_kids, (eqb_neq_l _ _ Dqp). unfold h5.
    rewrite get_add_len_try, (eqb_neq_l _ _ Dqk). exact Gq4. }
  assert (Gk' : get h' ki = mkCell (Some q) (map t_id kk) (try_add_len ek e) xk lk).
  { unfold h'. rewrite get_set_kids, (eqb_neq_r _ _ Dpk). unfold h5.
    rewrite get_add_len_try, Z.eqb_refl. unfold parent, kids, elen at 1, taxon, label.
    rewrite Gk4, Ep4. reflexivity. }
  remember (T ki xk lk (try_add_len ek e) kk) as k' eqn:Ek'.
  assert (Ik' : ids k' = ki :: flat_map ids kk) by (rewrite Ek', ids_eq; reflexivity).
  assert (Ifl : forall j, In j (flat_map ids (a ++ k' :: b)) -> In j (flat_map ids (a ++ tp :: b))).
  { intros j Hj. rewrite flat_map_app in Hj. rewrite flat_map_app.
    change (flat_map ids (k' :: b)) with (ids k' ++ flat_map ids b) in Hj.
    change (flat_map ids (tp :: b)) with (ids tp ++ flat_map ids b).
    rewrite !in_app_iff in Hj. rewrite !in_app_iff. rewrite Ik' in Hj. rewrite Itp.
    simpl in Hj. simpl. tauto. }
  apply (focus_update_r [q; p; ki] h2 h' c q xq lq eq (a ++ tp :: b) xq lq eq (a ++ k' :: b) W2 A G).
  - intros j [<-|[<-|[<-|[]]]].
    + exact N3.
    + apply N4. rewrite flat_map_app. apply in_app_iff. right. simpl. rewrite Itp. left. reflexivity.
    + apply N4. rewrite flat_map_app. apply in_app_iff. right. simpl. rewrite Itp. right. left. reflexivity.
  - rewrite Gq', map_app. simpl. rewrite Ek'. reflexivity.
  - apply Forall_app. split; [|constructor].
    + eapply Forall_rep_frame_off; eauto. intros j Hj [<-|[<-|[<-|[]]]].
      * exact (fn_p_lft _ _ _ _ F Hj).
      * apply (fn_tc_lft _ _ _ _ F p); [rewrite Itp; left; reflexivity|exact Hj].
      * apply (fn_tc_lft _ _ _ _ F ki); [rewrite Itp; right; left; reflexivity|exact Hj].
    + rewrite Ek'. rewrite Ek0 in Rk.
      apply (rep_root h2 h' (Some p) (Some q) ki xk lk ek xk lk (try_add_len ek e) kk Rk Gk').
      * apply G. exact Hk.
      * intros j Hj. apply A. intros [<-|[<-|[<-|[]]]].
        -- apply (fn_p_tc _ _ _ _ F). rewrite Itp. right. right. exact Hj.
        -- apply Np1. right. exact Hj.
        -- exact (Nk1 Hj).
      * apply G.
    + eapply Forall_rep_frame_off; eauto. intros j Hj [<-|[<-|[<-|[]]]].
      * exact (fn_p_rgt _ _ _ _ F Hj).
      * apply (fn_tc_rgt _ _ _ _ F p); [rewrite Itp; left; reflexivity|exact Hj].
      * apply (fn_tc_rgt _ _ _ _ F ki); [rewrite Itp; right; left; reflexivity|exact Hj].
  - rewrite flat_map_app. simpl. rewrite Ik'.
    apply NoDup_app_iff. split; [exact (fn_lft _ _ _ _ F)|split].
    + apply NoDup_app_iff. split; [constructor; assumption|split; [exact (fn_rgt _ _ _ _ F)|]].
      intros j Hj Hb. apply (fn_tc_rgt _ _ _ _ F j); [|exact Hb]. rewrite Itp. right. exact Hj.
    + intros j Ha Hj. apply in_app_iff in Hj. destruct Hj as [Hj|Hj].
      * apply (fn_tc_lft _ _ _ _ F j); [|exact Ha]. rewrite Itp. right. exact Hj.
      * exact (fn_lft_rgt _ _ _ _ F j Ha Hj).
  - intro H. apply N2. apply Ifl. exact H.
  - intros j Hj. apply N4. apply Ifl. exact Hj.
  - intros j Hj. destruct P as [Pn _]. destruct P2 as [P2n _]. rewrite Pn, <- P2n. apply N5. apply Ifl. exact Hj.
Qed.

(* ---------- A2: p has a parent and is not left with exactly one child ---------- *)

Lemma remove_child_su_other h c q xq lq eq a b p x l e lft s rgt :
  (forall k, lft ++ rgt <> [k]) ->
  Wr h (plug c (T q xq lq eq (a ++ T p x l e (lft ++ s :: rgt) :: b))) ->
  exists h', remove_child p (t_id s) true h = HOk h' /\
    Wr h' (plug c (T q xq lq eq (a ++ T p x l e (lft ++ rgt) :: b))) /\ pres h h'.
Proof.
  intros Hn W.
  assert (W0 : Wr h (plug (CNode c q xq lq eq a b) (T p x l e (lft ++ s :: rgt)))) by exact W.
  destruct (remove_child_plain_wf h _ p x l e lft s rgt W0) as [h2 [E2 [W2 [_ [_ [_ P2]]]]]].
  unfold remove_child. rewrite E2. cbn [hbind negb].
  destruct (wr_focus _ _ _ _ _ _ _ W2) as [_ [Gp _]]. simpl cpar in Gp.
  replace (parent h2 p) with (Some q) by (unfold parent; rewrite Gp; reflexivity).
  replace (kids h2 p) with (map t_id (lft ++ rgt)) by (unfold kids; rewrite Gp; reflexivity).
  exists h2. split; [|split; [exact W2|exact P2]].
  destruct (lft ++ rgt) as [|k1 [|k2 r]]; try reflexivity.
  exfalso. apply (Hn k1). reflexivity.
Qed.

(* ---------- the re-insertion loop of the root case: every node goes to the SAME position ---------- *)

Lemma insert_each_wf c p x l e lft par0 : forall todo rgt h,
  Wr h (plug c (T p x l e (lft ++ rgt))) ->
  Forall (rep h par0) todo ->
  NoDup (flat_map ids todo) ->
  (forall j, In j (flat_map ids todo) -> ~ In j (ids (plug c (T p x l e (lft ++ rgt))))) ->
  (forall j, In j (flat_map ids todo) -> j < next h) ->
  Wr (insert_each p (length lft) (map t_id todo) h) (plug c (T p x l e (lft ++ rev todo ++ rgt))) /\
  pres h (insert_each p (length lft) (map t_id todo) h) /\
  grows h (insert_each p (length lft) (map t_id todo) h).
Proof.
  induction todo as [|k r IH]; intros rgt h W Fr N D B.
  - simpl. split; [exact W|split; [apply pres_refl|apply grows_refl]].
  - simpl map. simpl insert_each.
    inversion Fr as [|? ? Rk Frr]; subst.
    simpl in N. apply NoDup_app_iff in N. destruct N as [Nk [Nr Dkr]].
    assert (Dk : forall j, In j (ids k) -> ~ In j (ids (plug c (T p x l e (lft ++ rgt))))).
    { intros j Hj. apply D. simpl. apply in_app_iff. left. exact Hj. }
    assert (Bk : forall j, In j (ids k) -> j < next h).
    { intros j Hj. apply B. simpl. apply in_app_iff. left. exact Hj. }
    assert (Dr : forall j, In j (flat_map ids r) -> ~ In j (ids (plug c (T p x l e (lft ++ rgt))))).
    { intros j Hj. apply D. simpl. apply in_app_iff. right. exact Hj. }
    assert (Br : forall j, In j (flat_map ids r) -> j < next h).
    { intros j Hj. apply B. simpl. apply in_app_iff. right. exact Hj. }
    assert (W1 : Wr (insert_child p (length lft) (t_id k) h) (plug c (T p x l e (lft ++ k :: rgt)))).
    { pose proof (insert_child_attach h c p x l e (lft ++ rgt) (length lft) par0 k W Rk Nk Dk Bk) as W1.
      rewrite firstn_length_app, skipn_length_app in W1. exact W1. }
    destruct (insert_child_frame p (length lft) (t_id k) h) as [A1 [G1 P1]].
    set (h1 := insert_child p (length lft) (t_id k) h) in *.
    assert (Hpin : In p (ids (plug c (T p x l e (lft ++ rgt))))).
    { apply in_plug. left. apply (ids_root (T p x l e (lft ++ rgt))). }
    destruct (IH (k :: rgt) h1) as [W3 [P3 G3]].
    + exact W1.
    + eapply (Forall_rep_frame_off [p; t_id k]); eauto.
      intros j Hj [<-|[<-|[]]].
      * apply (Dr p Hj Hpin).
      * apply (Dkr (t_id k)); [apply (ids_root k)|exact Hj].
    + exact Nr.
    + intros j Hj. rewrite in_plug_insert. intros [H|H].
      * apply (Dkr j); assumption.
      * apply (Dr j Hj H).
    + intros j Hj. destruct P1 as [P1 _]. rewrite P1. apply Br. exact Hj.
    + simpl rev. rewrite <- (app_assoc (rev r) [k] rgt). simpl app.
      split; [exact W3|split].
      * eapply pres_trans; eauto.
      * eapply grows_trans; eauto.
Qed.

Lemma in_flat_rev (ks : list tree) j : In j (flat_map ids (rev ks)) <-> In j (flat_map ids ks).
Proof.
  rewrite !in_flat_map. split; intros [k [Hk Hj]]; exists k; split; auto.
  - apply in_rev. exact Hk.
  - apply in_rev in Hk. exact Hk.
Qed.

(* the child tr of p is spliced out: remove it, re-insert its children at its position, empty its
   child list *)
Lemma splice_child_wf h c p x l e a tr xr lr er kr b :
  Wr h (plug c (T p x l e (a ++ T tr xr lr er kr :: b))) ->
  index_of tr (kids h p) = Some (length a) /\
  exists h4, remove_child_plain p tr h = HOk h4 /\
    Wr (set_kids tr [] (insert_each p (length a) (rev (kids h4 tr)) h4))
       (plug c (T p x l e (a ++ kr ++ b))) /\
    pres h (set_kids tr [] (insert_each p (length a) (rev (kids h4 tr)) h4)).
Proof.
  intro W. remember (T tr xr lr er kr) as tt eqn:Ett.
  assert (Eid : t_id tt = tr) by (rewrite Ett; reflexivity).
  destruct (wr_focus _ _ _ _ _ _ _ W) as [_ [Gp [_ [N1 _]]]].
  pose proof W as [_ [Nall _]]. apply nodup_plug in Nall. destruct Nall as [Ns _].
  pose proof (focus_facts _ _ _ _ _ _ _ Ns) as F.
  assert (Ncl : ~ In tr (map t_id a)).
  { apply notin_map_of_flat. apply (fn_tc_lft _ _ _ _ F). rewrite <- Eid. apply ids_root. }
  split.
  { replace (kids h p) with (map t_id a ++ tr :: map t_id b)
      by (unfold kids; rewrite Gp, map_app; simpl; rewrite Eid; reflexivity).
    rewrite (index_of_app_notin tr _ _ Ncl), map_length. reflexivity. }
  destruct (remove_child_plain_wf h c p x l e a tt b W) as [h4 [E4 [W4 [R4 [_ [_ P4]]]]]].
  rewrite Eid in E4. exists h4. split; [exact E4|].
  destruct (detached_facts h c p x l e a tt b W) as [Nt [Dt Bt]].
  pose proof (rep_kids h4 None tt R4) as K4. rewrite Eid in K4. rewrite Ett in K4. simpl t_kids in K4.
  rewrite K4, <- map_rev.
  pose proof R4 as R4'. rewrite Ett in R4'. apply rep_eq in R4'. destruct R4' as [_ [_ Fc]].
  assert (Itt : ids tt = tr :: flat_map ids kr) by (rewrite Ett, ids_eq; reflexivity).
  pose proof Nt as Nt'. rewrite Itt in Nt'. apply NoDup_cons_iff in Nt'. destruct Nt' as [Nt1 Nt2].
  destruct (insert_each_wf c p x l e a (Some tr) (rev kr) b h4 W4) as [W5 [P5 G5]].
  - apply Forall_rev. exact Fc.
  - eapply Permutation_NoDup; [|exact Nt2]. apply flat_map_perm, Permutation_rev.
  - intros j Hj. apply (proj1 (in_flat_rev _ _)) in Hj. apply Dt. rewrite Itt. right. exact Hj.
  - intros j Hj. apply (proj1 (in_flat_rev _ _)) in Hj. destruct P4 as [P4 _]. rewrite P4. apply Bt. rewrite Itt. right. exact Hj.
  - rewrite rev_involutive in W5.
    set (h5 := insert_each p (length a) (map t_id (rev kr)) h4) in *.
    split.
    + apply (wr_frame [tr] h5 (set_kids tr [] h5) _ W5).
      * unfold set_kids. frame_solve.
      * unfold set_kids. frame_solve.
      * intros j Hj [<-|[]]. apply in_plug in Hj.
        assert (Htr : In tr (ids tt)) by (rewrite Itt; left; reflexivity).
        destruct Hj as [Hj|Hj].
        -- rewrite ids_eq in Hj. destruct Hj as [Hj|Hj]; [|rewrite !flat_map_app, !in_app_iff in Hj; destruct Hj as [Hj|[Hj|Hj]]].
           ++ apply (Dt tr Htr). apply in_plug. left. rewrite <- Hj. apply (ids_root (T p x l e (a ++ b))).
           ++ exact (fn_tc_lft _ _ _ _ F tr Htr Hj).
           ++ exact (Nt1 Hj).
           ++ exact (fn_tc_rgt _ _ _ _ F tr Htr Hj).
        -- apply (Dt tr Htr). apply in_plug. right. exact Hj.
    + eapply pres_trans; [exact P4|]. eapply pres_trans; [exact P5|]. apply pres_upd_cell.
Qed.

(* ---------- B: Node._convert_node_to_root_polytomy / Tree.polytomize_root ---------- *)

(* the child tt of p is spliced out, its children are appended at the END of the child list *)
Lemma splice_end_wf h c p x l e a tt b :
  Wr h (plug c (T p x l e (a ++ tt :: b))) ->
  exists h2 h3, remove_child_plain p (t_id tt) h = HOk h2 /\
    hfold (add_child p) (kids h2 (t_id tt)) h2 = HOk h3 /\
    Wr h3 (plug c (T p x l e ((a ++ b) ++ t_kids tt))) /\ pres h h3.
Proof.
  intro W.
  destruct (remove_child_plain_wf h c p x l e a tt b W) as [h2 [E2 [W2 [R2 [_ [_ P2]]]]]].
  destruct (detached_facts h c p x l e a tt b W) as [Nt [Dt Bt]].
  pose proof (rep_kids h2 None tt R2) as K2.
  destruct tt as [tr xr lr er kr]. simpl t_id in *. simpl t_kids in *.
  apply rep_eq in R2. destruct R2 as [_ [_ Fc]].
  apply nodup_root in Nt. destruct Nt as [Nt1 Nt2].
  destruct (add_children_wf c p x l e (Some tr) kr (a ++ b) h2 W2 Fc Nt2) as [h3 [E3 [W3 [P3 _]]]].
  - intros j Hj. apply Dt. rewrite ids_eq. right. exact Hj.
  - intros j Hj. destruct P2 as [P2 _]. rewrite P2. apply Bt. rewrite ids_eq. right. exact Hj.
  - exists h2, h3. split; [exact E2|split; [rewrite K2; exact E3|split; [exact W3|]]].
    eapply pres_trans; eauto.
Qed.

Lemma root_polytomy_wf : forall fuel h t,
  WFt h t -> (size t < fuel)%nat ->
  exists h' t', root_polytomy fuel (seed h) h = HOk h' /\ WFt h' t' /\ pres h h' /\
    Permutation (leaf_taxa t') (leaf_taxa t) /\ (forall j, In j (ids t') -> In j (ids t)).
Proof.
  induction fuel as [|n IH]; intros h t WF0 Hf; [lia|].
  assert (Triv : forall r, r = HOk h -> exists h' t', r = HOk h' /\ WFt h' t' /\ pres h h' /\
            Permutation (leaf_taxa t') (leaf_taxa t) /\ (forall j, In j (ids t') -> In j (ids t))).
  { intros r ->. exists h, t. split; [reflexivity|split; [exact WF0|split; [apply pres_refl|split; [reflexivity|auto]]]]. }
  (* one more round from a well-formed smaller tree *)
  assert (Next : forall h3 t3, Wr h3 t3 -> pres h h3 -> t_id t3 = t_id t -> (size t3 < n)%nat ->
            Permutation (leaf_taxa t3) (leaf_taxa t) -> (forall j, In j (ids t3) -> In j (ids t)) ->
            exists h' t', root_polytomy n (seed h) h3 = HOk h' /\ WFt h' t' /\ pres h h' /\
              Permutation (leaf_taxa t') (leaf_taxa t) /\ (forall j, In j (ids t') -> In j (ids t))).
  { intros h3 t3 W3 P3 Ei Sz Pl Ii. pose proof P3 as [_ [_ Ps]].
    assert (WF3 : WFt h3 t3) by (eapply WFt_of_Wr; eauto).
    destruct (IH h3 t3 WF3 Sz) as [h' [t' [E [W' [P' [Pl' Ii']]]]]]. rewrite Ps in E.
    exists h', t'. split; [exact E|split; [exact W'|split; [eapply pres_trans; eauto|split]]].
    - etransitivity; eauto.
    - auto. }
  pose proof WF0 as [W Sd]. destruct t as [s x l e ks]. simpl in Sd. rewrite <- Sd.
  assert (Wt : Wr h (plug CTop (T s x l e ks))) by exact W.
  destruct (wr_focus _ _ _ _ _ _ _ Wt) as [_ [Gs [Fk _]]].
  cbn [root_polytomy].
  replace (kids h s) with (map t_id ks) by (unfold kids; rewrite Gs; reflexivity).
  rewrite <- Sd in Next.
  destruct ks as [|[i0 x0 l0 e0 kk0] [|[i1 x1 l1 e1 kk1] [|k2 r]]]; try (apply Triv; reflexivity).
  - (* one child *)
    pose proof (Forall_inv Fk) as R0.
    pose proof (is_internal_rep h (Some s) _ R0) as I0. simpl t_id in I0. simpl t_kids in I0.
    simpl map. cbv iota. rewrite I0.
    destruct kk0 as [|ka kr]; [apply Triv; reflexivity|].
    pose proof (rep_elen h (Some s) _ R0) as L0. simpl in L0.
    destruct (add_len_try_wf h CTop s x l e _ i0 e0 Wt L0) as [W1 [_ [_ P1]]].
    set (h1 := add_len_try s i0 h) in *. set (k0 := T i0 x0 l0 e0 (ka :: kr)) in *.
    destruct (splice_end_wf h1 CTop s x l (try_add_len e e0) [] k0 [] W1) as [h2 [h3 [E2 [E3 [W3 P3]]]]].
    simpl t_id in E2, E3. rewrite E2. cbn [hbind]. rewrite E3. cbn [hbind].
    simpl plug in W3. simpl app in W3.
    apply (Next h3 _ W3).
    + eapply pres_trans; eauto.
    + reflexivity.
    + unfold k0 in Hf. simpl in Hf. simpl. lia.
    + unfold k0. simpl. rewrite !app_nil_r. reflexivity.
    + unfold k0. ids_incl.
  - (* two children *)
    pose proof (Forall_inv Fk) as R0. pose proof (Forall_inv (Forall_inv_tail Fk)) as R1.
    pose proof (is_internal_rep h (Some s) _ R0) as I0. simpl t_id in I0. simpl t_kids in I0.
    pose proof (is_internal_rep h (Some s) _ R1) as I1. simpl t_id in I1. simpl t_kids in I1.
    simpl map. cbv iota. rewrite I0, I1.
    pose proof (rep_elen h (Some s) _ R0) as L0. simpl in L0.
    pose proof (rep_elen h (Some s) _ R1) as L1. simpl in L1.
    destruct kk1 as [|ka kr].
    + destruct kk0 as [|ka kr]; [apply Triv; reflexivity|].
      (* the left child is spliced out *)
      set (k0 := T i0 x0 l0 e0 (ka :: kr)) in *.
      assert (Wk : Wr h (plug (CNode CTop s x l e [k0] []) (T i1 x1 l1 e1 []))) by exact W.
      destruct (add_len_try_wf h _ i1 x1 l1 e1 [] i0 e0 Wk L0) as [W1 [_ [_ P1]]].
      set (h1 := add_len_try i1 i0 h) in *. simpl plug in W1.
      destruct (splice_end_wf h1 CTop s x l e [] k0 [T i1 x1 l1 (try_add_len e1 e0) []] W1)
        as [h2 [h3 [E2 [E3 [W3 P3]]]]].
      simpl t_id in E2, E3. rewrite E2. cbn [hbind]. rewrite E3. cbn [hbind].
      simpl plug in W3. simpl app in W3.
      apply (Next h3 _ W3).
      * eapply pres_trans; eauto.
      * reflexivity.
      * unfold k0 in Hf. simpl in Hf. simpl. lia.
      * unfold k0. simpl.
        change (x1 :: leaf_taxa ka ++ flat_map leaf_taxa kr) with ([x1] ++ (leaf_taxa ka ++ flat_map leaf_taxa kr)).
        apply Permutation_app_comm.
      * unfold k0. ids_incl.
    + (* the right child is spliced out *)
      set (k1 := T i1 x1 l1 e1 (ka :: kr)) in *.
      assert (Wk : Wr h (plug (CNode CTop s x l e [] [k1]) (T i0 x0 l0 e0 kk0))) by exact W.
      destruct (add_len_try_wf h _ i0 x0 l0 e0 kk0 i1 e1 Wk L1) as [W1 [_ [_ P1]]].
      set (h1 := add_len_try i0 i1 h) in *. simpl plug in W1.
      destruct (splice_end_wf h1 CTop s x l e [T i0 x0 l0 (try_add_len e0 e1) kk0] k1 [] W1)
        as [h2 [h3 [E2 [E3 [W3 P3]]]]].
      simpl t_id in E2, E3. rewrite E2. cbn [hbind]. rewrite E3. cbn [hbind].
      simpl plug in W3. simpl app in W3.
      apply (Next h3 _ W3).
      * eapply pres_trans; eauto.
      * reflexivity.
      * unfold k1 in Hf. simpl in Hf. simpl. lia.
      * unfold k1. rewrite !leaf_taxa_node by discriminate. rewrite !fm_cons, fm_nil, app_nil_r.
        rewrite (leaf_taxa_node i1) by discriminate. rewrite fm_cons.
        rewrite (leaf_taxa_len i0 x0 l0 (try_add_len e0 e1) e0 kk0). reflexivity.
      * unfold k1. ids_incl.
Qed.

Theorem polytomize_root_wf u h t :
  WFt h t ->
  exists h' t', polytomize_root u h = HOk h' /\ WFt h' t' /\ next h' = next h /\
    (u = false -> rooted h' = rooted h) /\
    Permutation (leaf_taxa t') (leaf_taxa t) /\ (forall j, In j (ids t') -> In j (ids t)).
Proof.
  intro W. unfold polytomize_root.
  destruct (root_polytomy_wf (fuel_of h) h t W (fuel_of_enough h t W))
    as [h1 [t1 [E1 [W1 [[Pn [Pr Ps]] [Pl Ii]]]]]].
  rewrite E1. cbn [hbind]. destruct u.
  - exists (set_rooted (Some false) h1), t1.
    split; [reflexivity|split; [apply WFt_set_rooted; exact W1|split; [exact Pn|split; [discriminate|auto]]]].
  - exists h1, t1. split; [reflexivity|split; [exact W1|split; [exact Pn|split; [auto|auto]]]].
Qed.

(* ---------- A3: p is the root ---------- *)

(* what the root case does to the tree that the plain removal leaves behind: with exactly two
   children left, an internal one (the first by preference) is spliced out, its children take its
   place in order and the other child takes up its length *)
Definition root_su (t : tree) : tree :=
  match t with
  | T p x l e [T i0 x0 l0 e0 kk0; T i1 x1 l1 e1 kk1] =>
    match kk0, kk1 with
    | _ :: _, _ => T p x l e (kk0 ++ [T i1 x1 l1 (try_add_len e1 e0) kk1])
    | [], _ :: _ => T p x l e (T i0 x0 l0 (try_add_len e0 e1) [] :: kk1)
    | [], [] => t
    end
  | _ => t
  end.

Lemma remove_child_su_root h p x l e lft s rgt :
  Wr h (T p x l e (lft ++ s :: rgt)) ->
  exists h', remove_child p (t_id s) true h = HOk h' /\
    Wr h' (root_su (T p x l e (lft ++ rgt))) /\ pres h h'.
Proof.
  intro W.
  assert (W0 : Wr h (plug CTop (T p x l e (lft ++ s :: rgt)))) by exact W.
  destruct (remove_child_plain_wf h CTop p x l e lft s rgt W0) as [h2 [E2 [W2 [_ [_ [_ P2]]]]]].
  unfold remove_child. rewrite E2. cbn [hbind negb].
  revert W2. generalize (lft ++ rgt). intros ks W2.
  destruct (wr_focus _ _ _ _ _ _ _ W2) as [_ [Gp [Fk _]]]. simpl cpar in Gp.
  replace (parent h2 p) with (@None Z) by (unfold parent; rewrite Gp; reflexivity).
  replace (kids h2 p) with (map t_id ks) by (unfold kids; rewrite Gp; reflexivity).
  simpl plug in W2.
  destruct ks as [|[i0 x0 l0 e0 kk0] [|[i1 x1 l1 e1 kk1] [|k2 r]]];
    try (exists h2; split; [reflexivity|split; [exact W2|exact P2]]).
  pose proof (Forall_inv Fk) as R0. pose proof (Forall_inv (Forall_inv_tail Fk)) as R1.
  pose proof (is_internal_rep h2 (Some p) _ R0) as I0. simpl t_id in I0. simpl t_kids in I0.
  pose proof (is_internal_rep h2 (Some p) _ R1) as I1. simpl t_id in I1. simpl t_kids in I1.
  pose proof (rep_elen h2 (Some p) _ R0) as L0. simpl in L0.
  pose proof (rep_elen h2 (Some p) _ R1) as L1. simpl in L1.
  simpl map. cbv iota zeta. rewrite I0, I1.
  destruct kk0 as [|ka kr].
  - destruct kk1 as [|ka kr]; [exists h2; split; [reflexivity|split; [exact W2|exact P2]]|].
    (* the second child is spliced out *)
    set (k1 := T i1 x1 l1 e1 (ka :: kr)) in *.
    assert (Wk : Wr h2 (plug (CNode CTop p x l e [] [k1]) (T i0 x0 l0 e0 []))) by exact W2.
    destruct (add_len_try_wf h2 _ i0 x0 l0 e0 [] i1 e1 Wk L1) as [W3 [_ [_ P3]]].
    set (h3 := add_len_try i0 i1 h2) in *. simpl plug in W3.
    assert (W3' : Wr h3 (plug CTop (T p x l e ([T i0 x0 l0 (try_add_len e0 e1) []] ++ k1 :: [])))) by exact W3.
    destruct (splice_child_wf h3 CTop p x l e _ i1 x1 l1 e1 (ka :: kr) [] W3') as [Ei [h4 [E4 [W5 P5]]]].
    rewrite Ei, E4. cbn [hbind]. eexists. split; [reflexivity|]. split.
    + simpl plug in W5. rewrite app_nil_r in W5. exact W5.
    + eapply pres_trans; [exact P2|]. eapply pres_trans; [exact P3|exact P5].
  - (* the first child is spliced out *)
    set (k0 := T i0 x0 l0 e0 (ka :: kr)) in *.
    assert (Wk : Wr h2 (plug (CNode CTop p x l e [k0] []) (T i1 x1 l1 e1 kk1))) by exact W2.
    destruct (add_len_try_wf h2 _ i1 x1 l1 e1 kk1 i0 e0 Wk L0) as [W3 [_ [_ P3]]].
    set (h3 := add_len_try i1 i0 h2) in *. simpl plug in W3.
    assert (W3' : Wr h3 (plug CTop (T p x l e ([] ++ k0 :: [T i1 x1 l1 (try_add_len e1 e0) kk1])))) by exact W3.
    destruct (splice_child_wf h3 CTop p x l e _ i0 x0 l0 e0 (ka :: kr) _ W3') as [Ei [h4 [E4 [W5 P5]]]].
    rewrite Ei, E4. cbn [hbind]. eexists. split; [reflexivity|]. split.
    + exact W5.
    + eapply pres_trans; [exact P2|]. eapply pres_trans; [exact P3|exact P5].
Qed.

(* ---------- summary ---------- *)

Lemma t_id_root_su u : t_id (root_su u) = t_id u.
Proof.
  destruct u as [p x l e [|[i0 x0 l0 e0 kk0] [|[i1 x1 l1 e1 kk1] [|k2 r]]]]; try reflexivity.
  simpl. destruct kk0; [destruct kk1|]; reflexivity.
Qed.

Lemma leaf_taxa_root_su u : leaf_taxa (root_su u) = leaf_taxa u.
Proof.
  destruct u as [p x l e [|[i0 x0 l0 e0 kk0] [|[i1 x1 l1 e1 kk1] [|k2 r]]]]; try reflexivity.
  unfold root_su. destruct kk0 as [|ka kr]; [destruct kk1 as [|kb ks]|]; try reflexivity.
  - rewrite !leaf_taxa_node by discriminate. rewrite !fm_cons, fm_nil, app_nil_r.
    rewrite (leaf_taxa_node i1) by discriminate. rewrite fm_cons. reflexivity.
  - rewrite (leaf_taxa_node p x l e ((ka :: kr) ++ _)) by discriminate.
    rewrite (leaf_taxa_node p x l e [_; _]) by discriminate.
    rewrite flat_map_app, !fm_cons, fm_nil, !app_nil_r.
    rewrite (leaf_taxa_node i0) by discriminate. rewrite fm_cons.
    rewrite (leaf_taxa_len i1 x1 l1 (try_add_len e1 e0) e1 kk1). reflexivity.
Qed.

Lemma ids_root_su u : forall j, In j (ids (root_su u)) -> In j (ids u).
Proof.
  destruct u as [p x l e [|[i0 x0 l0 e0 kk0] [|[i1 x1 l1 e1 kk1] [|k2 r]]]]; try (intros j Hj; exact Hj).
  unfold root_su. destruct kk0 as [|ka kr]; [destruct kk1 as [|kb ks]|]; try (intros j Hj; exact Hj); ids_incl.
Qed.

(* every situation at once, for a removed child given by its position *)
Lemma remove_child_su_ctx h c p x l e lft s rgt :
  WFt h (plug c (T p x l e (lft ++ s :: rgt))) ->
  exists h' t', remove_child p (t_id s) true h = HOk h' /\ WFt h' t' /\ pres h h' /\
    leaf_taxa t' = leaf_taxa (plug c (T p x l e (lft ++ rgt))) /\
    (forall j, In j (ids t') -> In j (ids (plug c (T p x l e (lft ++ rgt))))).
Proof.
  intros [W Sd]. destruct c as [|c' q xq lq eq a b].
  - (* p is the root *)
    simpl plug in *. destruct (remove_child_su_root h p x l e lft s rgt W) as [h' [E [W' P]]].
    exists h', (root_su (T p x l e (lft ++ rgt))).
    split; [exact E|split; [|split; [exact P|split; [apply leaf_taxa_root_su|apply ids_root_su]]]].
    split; [exact W'|]. destruct P as [_ [_ Ps]]. rewrite Ps, <- Sd, t_id_root_su. reflexivity.
  - simpl plug in *.
    assert (Hcase : (exists k, lft ++ rgt = [k]) \/ (forall k, lft ++ rgt <> [k])).
    { destruct (lft ++ rgt) as [|k [|k2 r]]; [right; discriminate|left; eauto|right; discriminate]. }
    destruct Hcase as [[k Ek]|Hn].
    + destruct (remove_child_su_unary h c' q xq lq eq a b p x l e lft s rgt k Ek W) as [h' [E [W' P]]].
      exists h'. eexists. split; [exact E|split; [|split; [exact P|split]]].
      * split; [exact W'|]. destruct P as [_ [_ Ps]]. rewrite Ps, <- Sd, !plug_id. reflexivity.
      * apply leaf_taxa_plug. rewrite !leaf_taxa_focus, Ek. destruct k as [ki xk lk ek kk].
        rewrite (leaf_taxa_node p) by discriminate. rewrite fm_cons, fm_nil, app_nil_r.
        rewrite (leaf_taxa_len ki xk lk (try_add_len ek e) ek kk). reflexivity.
      * intros j Hj. rewrite Ek. apply in_plug in Hj. apply in_plug. destruct Hj as [Hj|Hj]; [left|right; exact Hj].
        destruct k as [ki xk lk ek kk]. revert j Hj. ids_incl.
    + destruct (remove_child_su_other h c' q xq lq eq a b p x l e lft s rgt Hn W) as [h' [E [W' P]]].
      exists h'. eexists. split; [exact E|split; [|split; [exact P|split; [reflexivity|auto]]]].
      split; [exact W'|]. destruct P as [_ [_ Ps]]. rewrite Ps, <- Sd, !plug_id. reflexivity.
Qed.

(* Node.remove_child(node, suppress_unifurcations=True) for any listed child ci of any live node p:
   the call succeeds and leaves a well-formed tree.  The removed subtree sub is the one hanging at
   ci; the leaf taxa of the result together with those of sub are the leaf taxa of t, plus the
   taxon of p when ci was the only child of p (p, now a leaf, or the node standing in for it) *)
Theorem remove_child_su_wf h t p ci :
  WFt h t -> In p (ids t) -> In ci (kids h p) ->
  exists h' t' c0 sub extra,
    remove_child p ci true h = HOk h' /\ WFt h' t' /\ next h' = next h /\ rooted h' = rooted h /\
    t = plug c0 sub /\ t_id sub = ci /\ cpar c0 None = Some p /\
    Permutation (extra ++ leaf_taxa t) (leaf_taxa sub ++ leaf_taxa t') /\
    (extra = [] \/ (extra = [taxon h p] /\ kids h p = [ci])) /\
    (forall j, In j (ids t') -> In j (ids t)).
Proof.
  intros WF0 Hp Hc. destruct (find_ctx t p Hp) as [c [s [Et Es]]]. subst t.
  destruct s as [p' x l e ks]. simpl in Es. subst p'.
  pose proof WF0 as [W _].
  pose proof (kids_focus h c _ W) as Kp. simpl in Kp.
  destruct (wr_focus _ _ _ _ _ _ _ W) as [_ [Gp _]].
  rewrite Kp in Hc. apply in_map_iff in Hc. destruct Hc as [sc [Esc Hsc]].
  apply in_split in Hsc. destruct Hsc as [lft [rgt Eks]]. subst ks ci.
  destruct (remove_child_su_ctx h c p x l e lft sc rgt WF0) as [h' [t' [E [W' [[Pn [Pr _]] [Lt Ii]]]]]].
  exists h', t', (CNode c p x l e lft rgt), sc,
    (olist (if match lft ++ rgt with [] => true | _ => false end then Some x else None)).
  split; [exact E|split; [exact W'|split; [exact Pn|split; [exact Pr|]]]].
  split; [reflexivity|split; [reflexivity|split; [reflexivity|split; [|split]]]].
  - rewrite Lt. apply leaf_taxa_plug_remove.
  - destruct (lft ++ rgt) as [|k r] eqn:Ek; [right|left; reflexivity].
    apply app_eq_nil in Ek. destruct Ek as [-> ->]. split.
    + unfold taxon. rewrite Gp. reflexivity.
    + rewrite Kp. reflexivity.
  - intros j Hj. apply in_plug_insert. right. apply Ii. exact Hj.
Qed.
