(* C14 translator tie, object level: the statement sequences compiled from the CURRENT source
   (Gen/PdmObj.v: clear, __init__, clone, __copy__) equal the one-step object model (Model/C14ObjModel.v). *)
From Coq Require Import ZArith List Bool Lia.
From DV Require Import Model.PyPrims Model.Tree Model.C14Model Model.C14Hist Model.C14ObjPrims Model.C14ObjModel.
From DV Require Import Proofs.C14Dict Proofs.C14ObjProofs Gen.PdmObj.
Import ListNotations.
Open Scope Z_scope.

Ltac objs_norm :=
  repeat (rewrite dset_dset || rewrite dget_dset_same).

Ltac eqb_all :=
  repeat match goal with |- context [Z.eqb ?x ?y] => destruct (Z.eqb_spec x y); try lia end.

Lemma world_eq h1 n1 o1 m1 h2 n2 o2 m2 : h1 = h2 -> n1 = n2 -> o1 = o2 -> m1 = m2 -> mkW h1 n1 o1 m1 = mkW h2 n2 o2 m2.
Proof. intros; subst; reflexivity. Qed.

(* clear: for every world, also when the object does not exist *)
Lemma gen_clear_eq self w : gen_PDM_clear self w = o_clear self w.
Proof.
  unfold gen_PDM_clear, o_clear, st_set_scalar, st_rebind, wobj, put_obj, alloc.
  destruct (dget self (w_objs w)) as [o|] eqn:D; [|reflexivity].
  cbn [bind w_objs w_heap w_next w_onext]. objs_norm.
  cbn [bind w_objs w_heap w_next w_onext]. objs_norm.
  cbn [bind w_objs w_heap w_next w_onext]. objs_norm.
  cbn [bind w_objs w_heap w_next w_onext]. objs_norm.
  cbn [bind w_objs w_heap w_next w_onext]. objs_norm.
  cbn [bind w_objs w_heap w_next w_onext]. objs_norm.
  cbn [bind w_objs w_heap w_next w_onext]. objs_norm.
  cbn [bind w_objs w_heap w_next w_onext]. objs_norm.
  cbn [bind w_objs w_heap w_next w_onext]. objs_norm.
  f_equal. apply world_eq; try reflexivity.
  - cbn [empty_of]. repeat (f_equal; try lia).
  - lia.
  - f_equal. destruct o. cbn. repeat (f_equal; try lia).
Qed.

Lemma gen_init_eq self w : gen_PDM_init self w = o_init self w.
Proof.
  unfold gen_PDM_init, o_init. rewrite gen_clear_eq. destruct (o_clear self w); reflexivity.
Qed.

(* clone of an existing object in a well-formed world *)
Lemma gen_clone_eq self w so : world_ok w -> nonneg w -> dget self (w_objs w) = Some so ->
  gen_PDM_clone self w = o_clone self w.
Proof.
  intros W [N1 N2] Hs.
  destruct (o_clone_eq self w so W Hs) as [lm [lp [Td [Ts [Te [Tm [cm [cp [cd [cs [ce [cr
     [A1 [A2 [A3 [A4 [A5 [A6 [H1 [H2 [H3 [H4 [H5 [H6 E]]]]]]]]]]]]]]]]]]]]]]]].
  rewrite E. clear E.
  pose proof (wk_oid w W self so Hs) as Rs.
  assert (R1 : 0 <= cm < w_next w) by (apply (attr_range w self so AMapped cm W Hs A1)).
  assert (R2 : 0 <= cp < w_next w) by (apply (attr_range w self so APairs cp W Hs A2)).
  assert (R3 : 0 <= cd < w_next w) by (apply (attr_range w self so ADist cd W Hs A3)).
  assert (R4 : 0 <= cs < w_next w) by (apply (attr_range w self so ASteps cs W Hs A4)).
  assert (R5 : 0 <= ce < w_next w) by (apply (attr_range w self so AEdges ce W Hs A5)).
  assert (R6 : 0 <= cr < w_next w) by (apply (attr_range w self so AMrca cr W Hs A6)).
  unfold hget in H1, H2, H3, H4, H5, H6.
  unfold gen_PDM_clone, st_new. rewrite gen_init_eq. unfold o_init.
  rewrite (o_clear_eq _ _ obj_blank) by (unfold wobj; cbn [w_objs]; rewrite dget_dset_same; reflexivity).
  cbn [bind w_objs w_heap w_next w_onext]. rewrite dset_dset.
  set (n := w_onext w). set (c := w_next w). fold c in R1, R2, R3, R4, R5, R6.
  assert (Sn : forall (x : obj) d, dget self (dset n x d) = dget self d)
    by (intros x d; apply dget_dset_other; unfold n; lia).
  (* o.taxon_namespace = self.taxon_namespace *)
  unfold st_copy_scalar at 1. unfold wobj, put_obj. cbn [w_objs w_heap w_next w_onext].
  rewrite Sn, Hs. objs_norm. cbn [bind w_objs w_heap w_next w_onext]. objs_norm.
  (* o._mapped_taxa = set(self._mapped_taxa) *)
  unfold st_copy_fresh at 1. unfold wobj, put_obj, attr, alloc, hget. cbn [w_objs w_heap w_next w_onext].
  rewrite Sn, Hs. cbn [bind get_c]. rewrite A1. cbn [bind fresh6 app hfind]. eqb_all. rewrite H1.
  cbn [bind w_objs w_heap w_next w_onext]. objs_norm. cbn [bind w_objs w_heap w_next w_onext]. objs_norm.
  (* o._all_distinct_mapped_taxa_pairs = set(...) *)
  unfold st_copy_fresh at 1. unfold wobj, put_obj, attr, alloc, hget. cbn [w_objs w_heap w_next w_onext].
  rewrite Sn, Hs. cbn [bind get_c]. rewrite A2. cbn [bind hfind]. eqb_all. rewrite H2.
  cbn [bind w_objs w_heap w_next w_onext]. objs_norm. cbn [bind w_objs w_heap w_next w_onext]. objs_norm.
  (* _tree_length, _num_edges *)
  unfold st_copy_scalar at 1. unfold wobj, put_obj. cbn [w_objs w_heap w_next w_onext].
  rewrite Sn, Hs. objs_norm. cbn [bind w_objs w_heap w_next w_onext]. objs_norm.
  unfold st_copy_scalar at 1. unfold wobj, put_obj. cbn [w_objs w_heap w_next w_onext].
  rewrite Sn, Hs. objs_norm. cbn [bind w_objs w_heap w_next w_onext]. objs_norm.
  (* the four row-copy loops *)
  unfold st_copy_rows at 1. unfold wobj, attr, mutate, hget. cbn [w_objs w_heap w_next w_onext].
  rewrite Sn, Hs. objs_norm.
  cbn [bind get_c set_c set_s get_s cleared ob_ns ob_tl ob_ne ob_mapped ob_pairs ob_dist ob_steps ob_edges ob_mrca].
  rewrite A3. cbn [bind hfind]. eqb_all. rewrite H3. cbn [bind w_objs w_heap w_next w_onext].
  unfold st_copy_rows at 1. unfold wobj, attr, mutate, hget. cbn [w_objs w_heap w_next w_onext].
  rewrite Sn, Hs. objs_norm.
  cbn [bind get_c set_c set_s get_s cleared ob_ns ob_tl ob_ne ob_mapped ob_pairs ob_dist ob_steps ob_edges ob_mrca].
  rewrite A4. cbn [bind hfind]. eqb_all. rewrite H4. cbn [bind w_objs w_heap w_next w_onext].
  unfold st_copy_rows at 1. unfold wobj, attr, mutate, hget. cbn [w_objs w_heap w_next w_onext].
  rewrite Sn, Hs. objs_norm.
  cbn [bind get_c set_c set_s get_s cleared ob_ns ob_tl ob_ne ob_mapped ob_pairs ob_dist ob_steps ob_edges ob_mrca].
  rewrite A5. cbn [bind hfind]. eqb_all. rewrite H5. cbn [bind w_objs w_heap w_next w_onext].
  unfold st_copy_rows at 1. unfold wobj, attr, mutate, hget. cbn [w_objs w_heap w_next w_onext].
  rewrite Sn, Hs. objs_norm.
  cbn [bind get_c set_c set_s get_s cleared ob_ns ob_tl ob_ne ob_mapped ob_pairs ob_dist ob_steps ob_edges ob_mrca].
  rewrite A6. cbn [bind hfind]. eqb_all. rewrite H6. cbn [bind w_objs w_heap w_next w_onext].
  f_equal. f_equal. apply world_eq; try reflexivity.
  - unfold clone_heap. cbn [app]. repeat (f_equal; try lia).
  - lia.
  - f_equal. unfold cloned. cbn. repeat (f_equal; try lia).
Qed.

Lemma gen_copy_eq self w so : world_ok w -> nonneg w -> dget self (w_objs w) = Some so ->
  gen_PDM_copy self w = o_clone self w.
Proof. intros. unfold gen_PDM_copy. eapply gen_clone_eq; eauto. Qed.

(* ---- the forms exported by Props/C14Gen.v ---- *)
Lemma gen_obj_clear_eq_top :
  forall (self : oid) (w : world), gen_PDM_clear self w = o_clear self w /\ gen_PDM_init self w = o_init self w.
Proof. intros self w. exact (conj (gen_clear_eq self w) (gen_init_eq self w)). Qed.

Lemma gen_obj_clone_eq_top :
  forall (ops : list mop) (w : world) (self : oid) (so : obj),
  run_mops ops world_empty = Ok w -> dget self (w_objs w) = Some so ->
  gen_PDM_clone self w = o_clone self w /\ gen_PDM_copy self w = o_clone self w.
Proof.
  intros ops w self so H D.
  exact (conj (gen_clone_eq self w so (reachable_ok ops w H) (reachable_nonneg ops w H) D)
              (gen_copy_eq self w so (reachable_ok ops w H) (reachable_nonneg ops w H) D)).
Qed.
