(* C19, object level: the frame.  In a separated state an operation changes the content of no row object
   other than those held by its receiver (and the ones it creates): every other matrix keeps its
   taxon -> row-object map AND the cells of every object it holds. *)
From Coq Require Import ZArith List Bool Lia.
From DV Require Import Model.PyPrims Model.C19Model Model.C19RowHeap Proofs.C19Alist Proofs.C19RowHeapSep.
Import ListNotations.
Open Scope Z_scope.

Definition sframe (n0 : rid) (old : list rid) (s0 s : store) : Prop :=
  forall r, r < n0 -> ~ In r old -> hget s r = hget s0 r.

Definition good2 (n0 : rid) (old : list rid) (s0 : store) (st : store * orows) : Prop :=
  good n0 old st /\ sframe n0 old s0 (fst st).

Lemma hget_alloc s c r : r <> s_next s -> hget (fst (alloc s c)) r = hget s r.
Proof. intros H. unfold hget. simpl. destruct (Z.eqb_spec r (s_next s)); [contradiction | reflexivity]. Qed.

Lemma hget_mutate s x c r : r <> x -> hget (mutate s x c) r = hget s r.
Proof. intros H. unfold hget. simpl. destruct (Z.eqb_spec r x); [contradiction | reflexivity]. Qed.

Lemma good2_start s sr :
  NoDup (ids sr) -> (forall r, In r (ids sr) -> r < s_next s) -> good2 (s_next s) (ids sr) s (s, sr).
Proof. intros N B. split; [apply good_start; assumption | intros r _ _; reflexivity]. Qed.

Lemma good2_put n0 old s0 s sr t c :
  good2 n0 old s0 (s, sr) -> good2 n0 old s0 (fst (alloc s c), aput t (snd (alloc s c)) sr).
Proof.
  intros [G F]. split; [apply good_put, G|]. intros r L O. cbn [fst]. rewrite hget_alloc; [apply F; assumption|].
  destruct G as [L0 _]. simpl in L0. lia.
Qed.

Lemma good2_alloc n0 old s0 s sr c : good2 n0 old s0 (s, sr) -> good2 n0 old s0 (fst (alloc s c), sr).
Proof.
  intros [G F]. split; [apply good_alloc, G|]. intros r L O. cbn [fst]. rewrite hget_alloc; [apply F; assumption|].
  destruct G as [L0 _]. simpl in L0. lia.
Qed.

Lemma good2_mutate n0 old s0 s sr x c : In x (ids sr) -> good2 n0 old s0 (s, sr) -> good2 n0 old s0 (mutate s x c, sr).
Proof.
  intros I [G F]. split; [eapply good_store; [|exact G]; reflexivity|]. intros r L O. cbn [fst].
  rewrite hget_mutate; [apply F; assumption|]. destruct G as [_ [_ [_ Od]]]. simpl in Od.
  destruct (Od x I) as [H|H]; [intros ->; contradiction | lia].
Qed.

Lemma good2_sub n0 old s0 s sr sr' :
  NoDup (ids sr') -> (forall r, In r (ids sr') -> In r (ids sr)) -> good2 n0 old s0 (s, sr) -> good2 n0 old s0 (s, sr').
Proof. intros N I [G F]. split; [eapply good_sub; eassumption | exact F]. Qed.

Lemma fold_inv {A St} (P : St -> Prop) (f : St -> A -> St) (l : list A) :
  (forall st x, P st -> P (f st x)) -> forall st, P st -> P (fold_left f l st).
Proof. intros H. induction l as [|x l IH]; simpl; intros st G; [exact G | apply IH, H, G]. Qed.

Lemma good2_copy_in n0 old s0 st t ro : good2 n0 old s0 st -> good2 n0 old s0 (o_copy_in st t ro).
Proof. destruct st as [s sr]. intros G. unfold o_copy_in. simpl fst; simpl snd. apply (good2_put _ _ _ _ _ t (hget s ro) G). Qed.

Lemma good2_extend_in n0 old s0 st t rs ro :
  aget t (snd st) = Some rs -> good2 n0 old s0 st -> good2 n0 old s0 (o_extend_in st rs ro).
Proof. destruct st as [s sr]. intros H G. unfold o_extend_in. simpl. apply good2_mutate; [apply (aget_ids t), H | exact G]. Qed.

Lemma good2_add n0 old s0 st o : good2 n0 old s0 st -> good2 n0 old s0 (o_add_rows st o).
Proof. apply fold_inv. intros s p G. destruct (ahas _ _); [exact G | apply good2_copy_in, G]. Qed.

Lemma good2_replace n0 old s0 st o : good2 n0 old s0 st -> good2 n0 old s0 (o_replace_rows st o).
Proof. apply fold_inv. intros s p G. destruct (ahas _ _); [apply good2_copy_in, G | exact G]. Qed.

Lemma good2_update n0 old s0 st o : good2 n0 old s0 st -> good2 n0 old s0 (o_update_rows st o).
Proof. apply fold_inv. intros s p G. apply good2_copy_in, G. Qed.

Lemma good2_extend b n0 old s0 st o : good2 n0 old s0 st -> good2 n0 old s0 (o_extend_rows b st o).
Proof.
  apply fold_inv. intros s p G. destruct (aget _ _) eqn:E; [eapply good2_extend_in; eassumption|].
  destruct b; [apply good2_copy_in, G | exact G].
Qed.

Lemma good2_extend_matrix n0 old s0 st o : good2 n0 old s0 st -> good2 n0 old s0 (o_extend_matrix_rows st o).
Proof.
  apply fold_inv. intros s p G. destruct (aget _ _) eqn:E; [eapply good2_extend_in; eassumption | apply good2_copy_in, G].
Qed.

Lemma good2_fill_taxa g T n0 old s0 st : good2 n0 old s0 st -> good2 n0 old s0 (o_fill_taxa_rows g T st).
Proof.
  apply fold_inv. intros [s sr] t G. simpl. destruct (ahas t sr); [exact G|].
  destruct g.
  - apply (good2_put _ _ _ _ _ t [] G).
  - pose proof (good2_alloc _ _ _ _ _ [] G) as G1.
    apply (good2_put _ _ _ _ _ t (hget (fst (alloc s [])) (snd (alloc s []))) G1).
Qed.

Lemma oitems_in T (sr : orows) p : In p (oitems T sr) -> In (snd p) (ids sr).
Proof.
  induction T as [|t T IH]; simpl; [tauto|]. destruct (aget t sr) as [r|] eqn:E; [|exact IH].
  intros [<-|H]; [apply (aget_ids t), E | apply IH, H].
Qed.

Lemma good2_mutate_fold n0 old s0 sr (F : store -> tid * rid -> row) : forall (l : list (tid * rid)) s,
  (forall p, In p l -> In (snd p) (ids sr)) -> good2 n0 old s0 (s, sr) ->
  good2 n0 old s0 (fold_left (fun s p => mutate s (snd p) (F s p)) l s, sr).
Proof.
  induction l as [|p l IH]; simpl; intros s I G; [exact G|].
  apply IH; [intros q Hq; apply I; auto|]. apply good2_mutate; [apply I; auto | exact G].
Qed.

Lemma good2_fill_store T v size app n0 old s0 s sr :
  good2 n0 old s0 (s, sr) -> good2 n0 old s0 (o_fill_store T v size app s sr, sr).
Proof.
  intros G. unfold o_fill_store.
  apply (good2_mutate_fold n0 old s0 sr (fun s p => pad v size app (hget s (snd p)))); [apply oitems_in | exact G].
Qed.

Lemma good2_select_store T idx n0 old s0 s cr :
  good2 n0 old s0 (s, cr) -> good2 n0 old s0 (o_select_store T idx s cr, cr).
Proof.
  intros G. unfold o_select_store.
  apply (good2_mutate_fold n0 old s0 cr (fun s p => select_from idx 0 (hget s (snd p)))); [apply oitems_in | exact G].
Qed.

(* fresh rows leave every older object alone *)
Lemma deepcopy_old : forall sr s (memo : list (rid * rid)) r,
  r < s_next s -> hget (fst (o_deepcopy_rows s memo sr)) r = hget s r.
Proof.
  induction sr as [|[t x] sr IH]; intros s memo r L; [reflexivity|]. simpl.
  destruct (aget x memo).
  - specialize (IH s memo r L). destruct (o_deepcopy_rows s memo sr). exact IH.
  - specialize (IH (fst (alloc s (hget s x))) ((x, snd (alloc s (hget s x))) :: memo) r).
    simpl in IH. destruct (o_deepcopy_rows _ _ sr). simpl in *. rewrite IH by lia.
    apply (hget_alloc s (hget s x) r). lia.
Qed.

Lemma install_old : forall rs s r, r < s_next s -> hget (fst (o_install_rows s rs)) r = hget s r.
Proof.
  induction rs as [|[t c] rs IH]; intros s r L; [reflexivity|]. simpl.
  specialize (IH (fst (alloc s c)) r). simpl in IH. destruct (o_install_rows _ rs). simpl in *.
  rewrite IH by lia. apply (hget_alloc s c r). lia.
Qed.

Lemma good2_fresh n0 s0 s s' out :
  n0 <= s_next s -> fresh_rows s s' out -> (forall r, r < n0 -> hget s' r = hget s0 r) -> good2 n0 [] s0 (s', out).
Proof. intros L F H. split; [eapply good_fresh; eassumption | intros r Lr _; apply H, Lr]. Qed.

(* ---- the world ---- *)
Lemma aget_app_keep {V} j (l : list (Z * V)) x v : aget j l = Some v -> aget j (l ++ [x]) = Some v.
Proof.
  induction l as [|[k u] l IH]; simpl; [discriminate|]. destruct (Z.eqb j k); [tauto | exact IH].
Qed.

Lemma mids_disjoint : forall ms j m mj mm r,
  NoDup (mids ms) -> aget j ms = Some mj -> aget m ms = Some mm -> j <> m ->
  In r (ids (om_rows mj)) -> ~ In r (ids (om_rows mm)).
Proof.
  induction ms as [|[k x] ms IH]; simpl; intros j m mj mm r N Hj Hm Ne Ij Im; [discriminate|].
  destruct (NoDup_app_inv _ _ N) as [N1 [N2 D]].
  destruct (Z.eqb_spec j k), (Z.eqb_spec m k).
  - lia.
  - inversion Hj; subst x. apply (D r Ij). apply (mids_aget m ms mm r Hm Im).
  - inversion Hm; subst x. apply (D r Im). apply (mids_aget j ms mj r Hj Ij).
  - apply (IH j m mj mm r N2 Hj Hm Ne Ij Im).
Qed.

Definition keeps (w w' : oworld) (j : mid) (mj : omatrix) : Prop :=
  aget j (ow_ms w') = Some mj /\ deref (ow_store w') (om_rows mj) = deref (ow_store w) (om_rows mj).

Lemma deref_ext s s' (sr : orows) : (forall r, In r (ids sr) -> hget s' r = hget s r) -> deref s' sr = deref s sr.
Proof.
  intros H. unfold deref. apply map_ext_in. intros [t r] I. simpl. f_equal. apply H.
  unfold ids. apply in_map_iff. exists (t, r). auto.
Qed.

Lemma keeps_refl w j mj : aget j (ow_ms w) = Some mj -> keeps w w j mj.
Proof. intros H. split; [exact H | reflexivity]. Qed.

Lemma keeps_oupd w m mm mm' s' j mj :
  sep w -> aget m (ow_ms w) = Some mm -> aget j (ow_ms w) = Some mj -> j <> m ->
  good2 (s_next (ow_store w)) (ids (om_rows mm)) (ow_store w) (s', om_rows mm') ->
  keeps w (oupd w s' m mm') j mj.
Proof.
  intros [N B] Hm Hj Ne [_ F]. split.
  - simpl. rewrite aget_aput_neq by exact Ne. exact Hj.
  - simpl. apply deref_ext. intros r I. apply F.
    + apply B. apply (mids_aget j (ow_ms w) mj r Hj I).
    + apply (mids_disjoint (ow_ms w) j m mj mm r N Hj Hm Ne I).
Qed.

Lemma keeps_oadd_new w s' mm j mj :
  sep w -> aget j (ow_ms w) = Some mj ->
  good2 (s_next (ow_store w)) [] (ow_store w) (s', om_rows mm) ->
  keeps w (oadd_new w s' mm) j mj.
Proof.
  intros [N B] Hj [_ F]. split.
  - simpl. apply aget_app_keep, Hj.
  - simpl. apply deref_ext. intros r I. apply F; [|intros []].
    apply B. apply (mids_aget j (ow_ms w) mj r Hj I).
Qed.

Definition oreceiver (o : oop) : option mid :=
  match o with
  | OBase b => receiver b
  | ORowAppend m _ _ | ORowExtend m _ _ | ORowSet m _ _ _ | ORowDel m _ _ | OSetItemRow m _ _ _ => Some m
  | OCopy _ => None
  end.

Section L.
Variable lower : lbl -> lbl.
Variable suffix : lbl -> Z -> lbl.
Variable locus : Z -> lbl.

Lemma sep_good2_start w m mm :
  sep w -> aget m (ow_ms w) = Some mm ->
  good2 (s_next (ow_store w)) (ids (om_rows mm)) (ow_store w) (ow_store w, om_rows mm).
Proof. intros S H. split; [apply (sep_good_start lower suffix locus w m mm S H) | intros r _ _; reflexivity]. Qed.

Lemma good2_binary f w m mm mo s' mm' :
  (forall n0 old s0 st o, good2 n0 old s0 st -> good2 n0 old s0 (f st o)) ->
  sep w -> aget m (ow_ms w) = Some mm ->
  o_binary f (ow_store w) mm mo = Ok (s', mm') ->
  good2 (s_next (ow_store w)) (ids (om_rows mm)) (ow_store w) (s', om_rows mm').
Proof.
  intros Hf S H E. unfold o_binary in E. destruct (negb _); [discriminate|].
  pose proof (Hf _ _ _ _ (om_rows mo) (sep_good2_start w m mm S H)) as G.
  destruct (f _ _) as [s2 sr2]. inversion E; subst. exact G.
Qed.

Lemma good2_concat_loop T ns0 nseqs n0 s0 : forall cms cidx s acc pos s' r,
  good2 n0 [] s0 (s, om_rows acc) ->
  o_concat_loop lower suffix locus T ns0 nseqs cms cidx s acc pos = Ok (s', r) ->
  good2 n0 [] s0 (s', om_rows r).
Proof.
  induction cms as [|cm rest IH]; intros cidx s acc pos s' r G E.
  - simpl in E. inversion E; subst. exact G.
  - cbn [o_concat_loop] in E.
    destruct (negb (Z.eqb (om_ns cm) ns0)); [discriminate|].
    destruct (negb (Z.eqb (zlen (om_rows cm)) (zlen T))); [discriminate|].
    destruct (negb (Z.eqb (zlen (om_rows cm)) nseqs)); [discriminate|].
    destruct T as [|t0 T']; [discriminate|].
    destruct (aget t0 (om_rows cm)) as [r0|]; [|discriminate].
    destruct (negb (forallb _ _)); [discriminate|].
    unfold o_binary in E. destruct (negb (Z.eqb (om_ns cm) (om_ns acc))); [discriminate|].
    pose proof (good2_extend_matrix n0 [] s0 (s, om_rows acc) (om_rows cm) G) as G1.
    destruct (o_extend_matrix_rows (s, om_rows acc) (om_rows cm)) as [s1 sr1].
    cbv beta iota zeta in E.
    destruct (free_name _ _ _ _ _ _ _) as [cs| |]; try discriminate E.
    unfold o_new_character_subset in E.
    destruct (has_key _ _ _); [discriminate E|].
    eapply IH; [|exact E]. simpl. exact G1.
Qed.

Lemma getitem_good2 T w m mm k s' mm' r :
  sep w -> aget m (ow_ms w) = Some mm ->
  o_getitem T (ow_store w) mm k = Ok (s', mm', r) ->
  good2 (s_next (ow_store w)) (ids (om_rows mm)) (ow_store w) (s', om_rows mm') /\ In r (ids (om_rows mm')).
Proof.
  intros S H E. pose proof (sep_good2_start w m mm S H) as G. unfold o_getitem in E.
  destruct (resolve_key T k) as [t| |]; try discriminate.
  destruct (aget t (om_rows mm)) as [r1|] eqn:A.
  - inversion E; subst. split; [exact G | apply (aget_ids t), A].
  - unfold o_new_sequence in E. destruct (ahas t (om_rows mm)); [discriminate|].
    destruct (negb (memb t T)); [discriminate|]. inversion E; subst. simpl. split.
    + apply (good2_put _ _ _ _ _ t [] G).
    + apply (aget_ids t). apply aget_aput_eq.
Qed.

Lemma rowop_keeps w m k f j mj :
  sep w -> aget j (ow_ms w) = Some mj -> j <> m -> keeps w (fst (o_rowop w m k f)) j mj.
Proof.
  intros S Hj Ne. unfold o_rowop, owith1. destruct (aget m (ow_ms w)) as [mm|] eqn:H; [|apply keeps_refl, Hj].
  destruct (o_getitem _ _ mm k) as [[[s' mm'] r]| |] eqn:E; simpl; try (apply keeps_refl, Hj).
  destruct (getitem_good2 _ w m mm k s' mm' r S H E) as [G I].
  destruct (apply_rowop f (hget s' r)); simpl; (eapply keeps_oupd; [exact S | exact H | exact Hj | exact Ne|]);
    [apply good2_mutate; assumption | exact G].
Qed.

Theorem o_step_keeps w o j mj :
  copying o = true -> sep w -> aget j (ow_ms w) = Some mj -> oreceiver o <> Some j ->
  keeps w (fst (o_step lower suffix locus w o)) j mj.
Proof.
  intros C S Hj R. pose proof (keeps_refl w j mj Hj) as K0.
  destruct o as [b|m k v|m k vs|m k i v|m k i|m k o t|m]; try discriminate C;
    try (apply rowop_keeps; [exact S | exact Hj | intros ->; apply R; reflexivity]).
  destruct b as [l|l|m idx|m l|m v size append|m|m v size append|m o|m o|m o|m o addnew|m o|m ts|m ts|m ts|m t vals|m k vals|m k|m l idx];
    simpl in R; simpl; unfold owith1, owith2, obad_id, olift, olift_new;
    try (assert (Ne : j <> m) by (intros ->; apply R; reflexivity)).
  - destruct (oget_all (ow_ms w) l) as [cms|]; [|exact K0].
    destruct (o_concatenate _ _ _ _ _ cms) as [[s' r]| |] eqn:E; simpl; try exact K0.
    apply keeps_oadd_new; [exact S | exact Hj|]. unfold o_concatenate in E. destruct cms as [|c0 rest]; [discriminate|].
    eapply good2_concat_loop; [|exact E]. simpl. split; [|intros r0 _ _; reflexivity].
    split; [simpl; lia|]. split; [constructor|]. split; intros r0 [].
  - destruct (oget_all (ow_ms w) l) as [cms|]; [|exact K0].
    destruct (concatenate _ _ _ _ _) as [vm| |]; simpl; try exact K0.
    unfold o_install. pose proof (install_fresh (m_rows vm) (ow_store w)) as F.
    pose proof (install_old (m_rows vm) (ow_store w)) as O.
    destruct (o_install_rows (ow_store w) (m_rows vm)) as [s' sr]. simpl.
    apply keeps_oadd_new; [exact S | exact Hj|]. simpl. eapply good2_fresh; [|exact F | exact O]. lia.
  - destruct (aget m (ow_ms w)) as [mm|] eqn:H; [|exact K0]. simpl.
    unfold o_export. pose proof (sep_good_start lower suffix locus w m mm S H) as G0.
    pose proof (deepcopy_fresh (om_rows mm) (ow_store w) [] (proj1 (proj2 G0)) (fun _ _ => eq_refl)) as F.
    pose proof (deepcopy_old (om_rows mm) (ow_store w) []) as O.
    revert F O. destruct (o_deepcopy_rows (ow_store w) [] (om_rows mm)) as [s1 cr]. intros F O. simpl in F, O |- *.
    apply keeps_oadd_new; [exact S | exact Hj|]. simpl.
    apply good2_select_store. eapply good2_fresh; [|exact F | exact O]. lia.
  - destruct (aget m (ow_ms w)) as [mm|] eqn:H; [|exact K0].
    destruct (find_sub lower l (om_subs mm)) as [idx|]; [|exact K0]. simpl.
    unfold o_export. pose proof (sep_good_start lower suffix locus w m mm S H) as G0.
    pose proof (deepcopy_fresh (om_rows mm) (ow_store w) [] (proj1 (proj2 G0)) (fun _ _ => eq_refl)) as F.
    pose proof (deepcopy_old (om_rows mm) (ow_store w) []) as O.
    revert F O. destruct (o_deepcopy_rows (ow_store w) [] (om_rows mm)) as [s1 cr]. intros F O. simpl in F, O |- *.
    apply keeps_oadd_new; [exact S | exact Hj|]. simpl.
    apply good2_select_store. eapply good2_fresh; [|exact F | exact O]. lia.
  - destruct (aget m (ow_ms w)) as [mm|] eqn:H; [|exact K0]. unfold o_fill. simpl.
    eapply keeps_oupd; [exact S | exact H | exact Hj | exact Ne|].
    apply good2_fill_store. apply (sep_good2_start w m mm S H).
  - destruct (aget m (ow_ms w)) as [mm|] eqn:H; [|exact K0].
    pose proof (good2_fill_taxa (ow_generic w) (otaxa_of w (om_ns mm)) _ _ _ _ (sep_good2_start w m mm S H)) as G.
    destruct (o_fill_taxa_rows _ _ _) as [s' sr]. simpl. eapply keeps_oupd; [exact S | exact H | exact Hj | exact Ne | exact G].
  - destruct (aget m (ow_ms w)) as [mm|] eqn:H; [|exact K0]. unfold o_pack.
    pose proof (good2_fill_taxa (ow_generic w) (otaxa_of w (om_ns mm)) _ _ _ _ (sep_good2_start w m mm S H)) as G.
    destruct (o_fill_taxa_rows _ _ _) as [s1 sr]. unfold o_fill. simpl.
    eapply keeps_oupd; [exact S | exact H | exact Hj | exact Ne|]. simpl. apply good2_fill_store. exact G.
  - destruct (aget m (ow_ms w)) as [mm|] eqn:H; [|exact K0]. destruct (aget o (ow_ms w)) as [mo|]; [|exact K0].
    destruct (o_binary _ _ mm mo) as [[s' mm']| |] eqn:E; simpl; try exact K0.
    eapply keeps_oupd; [exact S | exact H | exact Hj | exact Ne|]. eapply (good2_binary o_add_rows); eauto. intros; apply good2_add; assumption.
  - destruct (aget m (ow_ms w)) as [mm|] eqn:H; [|exact K0]. destruct (aget o (ow_ms w)) as [mo|]; [|exact K0].
    destruct (o_binary _ _ mm mo) as [[s' mm']| |] eqn:E; simpl; try exact K0.
    eapply keeps_oupd; [exact S | exact H | exact Hj | exact Ne|]. eapply (good2_binary o_replace_rows); eauto. intros; apply good2_replace; assumption.
  - destruct (aget m (ow_ms w)) as [mm|] eqn:H; [|exact K0]. destruct (aget o (ow_ms w)) as [mo|]; [|exact K0].
    destruct (o_binary _ _ mm mo) as [[s' mm']| |] eqn:E; simpl; try exact K0.
    eapply keeps_oupd; [exact S | exact H | exact Hj | exact Ne|]. eapply (good2_binary o_update_rows); eauto. intros; apply good2_update; assumption.
  - destruct (aget m (ow_ms w)) as [mm|] eqn:H; [|exact K0]. destruct (aget o (ow_ms w)) as [mo|]; [|exact K0].
    destruct (o_binary _ _ mm mo) as [[s' mm']| |] eqn:E; simpl; try exact K0.
    eapply keeps_oupd; [exact S | exact H | exact Hj | exact Ne|]. eapply (good2_binary (o_extend_rows addnew)); eauto. intros; apply good2_extend; assumption.
  - destruct (aget m (ow_ms w)) as [mm|] eqn:H; [|exact K0]. destruct (aget o (ow_ms w)) as [mo|]; [|exact K0].
    destruct (o_binary _ _ mm mo) as [[s' mm']| |] eqn:E; simpl; try exact K0.
    eapply keeps_oupd; [exact S | exact H | exact Hj | exact Ne|]. eapply (good2_binary o_extend_matrix_rows); eauto. intros; apply good2_extend_matrix; assumption.
  - destruct (aget m (ow_ms w)) as [mm|] eqn:H; [|exact K0].
    pose proof (good_remove _ _ _ ts _ (sep_good_start lower suffix locus w m mm S H)) as G.
    destruct (o_remove_rows (om_rows mm) ts) as [rs e]. simpl.
    eapply keeps_oupd; [exact S | exact H | exact Hj | exact Ne|]. split; [exact G | intros r _ _; reflexivity].
  - destruct (aget m (ow_ms w)) as [mm|] eqn:H; [|exact K0]. simpl.
    eapply keeps_oupd; [exact S | exact H | exact Hj | exact Ne|].
    split; [apply good_discard, (sep_good_start lower suffix locus w m mm S H) | intros r _ _; reflexivity].
  - destruct (aget m (ow_ms w)) as [mm|] eqn:H; [|exact K0]. simpl.
    eapply keeps_oupd; [exact S | exact H | exact Hj | exact Ne|].
    split; [apply good_keep, (sep_good_start lower suffix locus w m mm S H) | intros r _ _; reflexivity].
  - destruct (aget m (ow_ms w)) as [mm|] eqn:H; [|exact K0]. unfold o_new_sequence.
    destruct (ahas t (om_rows mm)); [exact K0|]. destruct (negb (memb t _)); [exact K0|]. simpl.
    eapply keeps_oupd; [exact S | exact H | exact Hj | exact Ne|]. simpl. apply (good2_put _ _ _ _ _ t vals (sep_good2_start w m mm S H)).
  - destruct (aget m (ow_ms w)) as [mm|] eqn:H; [|exact K0]. unfold o_setitem_vals.
    destruct (resolve_key _ k) as [t| |]; try exact K0. destruct (negb (memb t _)); [exact K0|]. simpl.
    eapply keeps_oupd; [exact S | exact H | exact Hj | exact Ne|]. simpl. apply (good2_put _ _ _ _ _ t vals (sep_good2_start w m mm S H)).
  - destruct (aget m (ow_ms w)) as [mm|] eqn:H; [|exact K0].
    destruct (o_getitem _ _ mm k) as [[[s' mm'] r]| |] eqn:E; simpl; try exact K0.
    eapply keeps_oupd; [exact S | exact H | exact Hj | exact Ne|]. eapply getitem_good2; eauto.
  - destruct (aget m (ow_ms w)) as [mm|] eqn:H; [|exact K0]. unfold o_new_character_subset.
    destruct (has_key lower l (om_subs mm)); [exact K0|]. simpl.
    eapply keeps_oupd; [exact S | exact H | exact Hj | exact Ne|]. simpl. apply (sep_good2_start w m mm S H).
Qed.

End L.

(* an in-place row operation m[k].<op> names ONE row: every other row of m keeps its object and its cells *)
Lemma aget_inj (sr : orows) t t' r : NoDup (ids sr) -> aget t sr = Some r -> aget t' sr = Some r -> t = t'.
Proof.
  induction sr as [|[k x] sr IH]; simpl; intros N H H'; [discriminate|].
  inversion N as [|? ? Hx N']; subst.
  destruct (Z.eqb_spec t k), (Z.eqb_spec t' k); subst.
  - reflexivity.
  - inversion H; subst. exfalso. apply Hx. apply (aget_ids t' sr r H').
  - inversion H'; subst. exfalso. apply Hx. apply (aget_ids t sr r H).
  - apply IH; assumption.
Qed.

Theorem rowop_names_one_row w m k f mm t t' r' :
  sep w -> aget m (ow_ms w) = Some mm -> resolve_key (otaxa_of w (om_ns mm)) k = Ok t -> t' <> t ->
  aget t' (om_rows mm) = Some r' ->
  exists mm', aget m (ow_ms (fst (o_rowop w m k f))) = Some mm' /\ aget t' (om_rows mm') = Some r' /\
              hget (ow_store (fst (o_rowop w m k f))) r' = hget (ow_store w) r'.
Proof.
  intros S H R Ne A'. pose proof (sep_good_start (fun x => x) (fun l _ => l) (fun i => i) w m mm S H) as [_ [N [B _]]].
  simpl in N, B.
  unfold o_rowop, owith1. rewrite H. unfold o_getitem. rewrite R.
  destruct (aget t (om_rows mm)) as [r|] eqn:A.
  - assert (r' <> r) by (intros ->; apply Ne; apply (aget_inj (om_rows mm) t' t r N A' A)).
    destruct (apply_rowop f (hget (ow_store w) r)); simpl; exists mm; rewrite aget_aput_eq;
      (split; [reflexivity|]); (split; [exact A'|]); [apply hget_mutate; assumption | reflexivity].
  - unfold o_new_sequence. unfold ahas. rewrite A.
    destruct (negb (memb t (otaxa_of w (om_ns mm)))); [simpl; exists mm; auto|].
    assert (L : r' < s_next (ow_store w)) by (apply B, (aget_ids t'), A').
    cbn [alloc fst snd].
    destruct (apply_rowop f _); simpl; eexists; rewrite aget_aput_eq; (split; [reflexivity|]); simpl;
      rewrite (aget_aput_neq t' t) by exact Ne; (split; [exact A'|]).
    + rewrite hget_mutate by lia. apply (hget_alloc (ow_store w) [] r'). lia.
    + apply (hget_alloc (ow_store w) [] r'). lia.
Qed.
