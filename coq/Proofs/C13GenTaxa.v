(* C13 (translator tie): _parse_taxa_block as compiled (calling the compiled _parse_title_statement,
   _parse_dimensions_statement, _new_taxon_namespace, _parse_taxlabels_statement) is the model's parse_taxa_block
   on well-formed reader states. *)
From Coq Require Import ZArith List Bool Lia.
From Coq Require String. Import String.StringSyntax.
From DV Require Import Model.PyPrims Model.C13Model Model.C13GenPrims Gen.Routes Proofs.C13GenStmts
  Proofs.C13GenObjects Proofs.C13GenWf.
Import ListNotations.

Section S.
Variable T : Type.
Variables lower upper : str -> str.
Variable c : nscfg.

Local Arguments fetch : simpl never.
Local Arguments next_token : simpl never.
Local Arguments require_next_token : simpl never.
Local Arguments require_next_token_ucase : simpl never.
Local Arguments skip_to_semicolon : simpl never.
Local Arguments str_eqb : simpl never.
Local Arguments s2z : simpl never.

Notation gst := (gst T).
Notation wfs := (wfs c).

Lemma require_ucase_some : forall z z', require_next_token_ucase upper z = Ok z' -> z_cur z' = Some (cur_text z').
Proof.
  unfold require_next_token_ucase, fetch. intros z z'.
  destruct (z_toks z) as [|t r]; [destruct (z_end z)|]; cbn; intros H; inversion H; reflexivity.
Qed.

(* a namespace handle obtained while the route's namespace is attached is namespace 0 *)
Definition att_ok (o : option nat) : Prop := forall i, o = Some i -> c_attached c = true -> i = O.

Lemma g_taxa_loop_eq : forall tls reg fuel k g tok tns,
  wfs k g -> nsok k tns -> att_ok tns ->
  (do r <- g_parse_taxa_block_loop1 T lower upper c fuel (mkRs k g tls reg) (Some tok) tns ;; Ok (fst (fst r)))
  = (do r <- taxa_loop lower upper c fuel k g tok tns ;; let '(k', g') := r in Ok (mkRs k' g' tls reg)).
Proof.
  intros tls reg; induction fuel as [|f IH]; intros k g tok tns WF N AT; [reflexivity|].
  cbn [g_parse_taxa_block_loop1 taxa_loop].
  change (o_eq (Some tok) (s2z "END") || o_eq (Some tok) (s2z "ENDBLOCK")) with (str_eqb tok K_END || str_eqb tok K_ENDBLOCK).
  destruct (str_eqb tok K_END || str_eqb tok K_ENDBLOCK); cbn [negb]; [reflexivity|].
  unfold tk_require_next_token_ucase, tk_lift, st_z, st_set_z. cbn [r_k r_g r_tls r_tlreg].
  destruct (require_next_token_ucase upper (k_z k)) as [z1| |] eqn:R1; cbn [bind]; try reflexivity.
  rewrite (require_ucase_some _ _ R1).
  change (o_eq (Some (cur_text z1)) (s2z "TITLE")) with (str_eqb (cur_text z1) K_TITLE).
  (* TITLE *)
  assert (E1 : forall (X : Type) (K : gst * option str * option nat -> res X),
    (do r10 <- (if str_eqb (cur_text z1) K_TITLE
                then do r2 <- g_parse_title_statement T upper (S f) (mkRs (set_z k z1) g tls reg) ;;
                     let '(v_token, s) := r2 in
                     do r1 <- g_new_taxon_namespace T c (S f) s v_token ;; let '(v_ns, s0) := r1 in Ok (s0, v_token, v_ns)
                else Ok (mkRs (set_z k z1) g tls reg, Some (cur_text z1), tns)) ;; K r10)
    = (do r1 <- (if str_eqb (cur_text z1) K_TITLE
                 then do r <- parse_title upper (k_z (set_z k z1)) ;;
                      let '(title, z2) := r in
                      let '(i, k2, g2) := new_tns c (set_z (set_z k z1) z2) g (Some title) in
                      Ok (title, k2, g2, Some i)
                 else Ok (cur_text z1, set_z k z1, g, tns)) ;;
       let '(token2, k2, g2, tns2) := r1 in K (mkRs k2 g2 tls reg, Some token2, tns2))).
  { intros X K. destruct (str_eqb (cur_text z1) K_TITLE); [|reflexivity].
    rewrite g_parse_title_statement_eq. unfold st_z, st_set_z. cbn [r_k r_g r_tls r_tlreg].
    destruct (parse_title upper (k_z (set_z k z1))) as [[title z2]| |]; cbn [bind fst snd]; try reflexivity.
    rewrite g_new_taxon_namespace_eq. unfold ifc_new_taxon_namespace, st_set_kg. cbn [r_k r_g r_tls r_tlreg].
    destruct (new_tns c (set_z (set_z k z1) z2) g (Some title)) as [[i k2] g2]. reflexivity. }
  rewrite E1; clear E1. rewrite !bind_assoc. cbv zeta.
  match goal with |- bind ?A _ = _ => destruct A as [[[[token2 k2] g2] tns2]| |] eqn:EA end;
    cbn [bind]; try reflexivity.
  assert (W2 : wfs k2 g2 /\ nsok k2 tns2 /\ att_ok tns2).
  { destruct (str_eqb (cur_text z1) K_TITLE).
    - destruct (parse_title upper (k_z (set_z k z1))) as [[title z2]|e|]; cbn [bind] in EA; try discriminate.
      destruct (new_tns c (set_z (set_z k z1) z2) g (Some title)) as [[i k2'] g2'] eqn:E4.
      inversion EA; subst.
      destruct (new_tns_wf c _ _ _ _ _ _ (wfs_mono c k g (set_z (set_z k z1) z2) g WF (Nat.le_refl _) eq_refl) E4) as [A1 [A2 [_ A4]]].
      split; [exact A1 | split; [apply nsok_some; exact A2 | intros j EJ; inversion EJ; subst; exact A4]].
    - inversion EA; subst. split; [exact (wfs_mono c _ _ (set_z k z1) g2 WF (Nat.le_refl _) eq_refl) | split; assumption]. }
  destruct W2 as [W2 [N2 AT2]]. clear EA.
  change (o_eq (Some token2) (s2z "DIMENSIONS")) with (str_eqb token2 K_DIMENSIONS).
  change (o_eq (Some token2) (s2z "TAXLABELS")) with (str_eqb token2 K_TAXLABELS).
  (* DIMENSIONS *)
  assert (E2 : forall (X : Type) (K : gst -> res X),
    (do r9 <- (if str_eqb token2 K_DIMENSIONS
               then do r3 <- g_parse_dimensions_statement T upper (S f) (mkRs k2 g2 tls reg) ;; let '(_, s) := r3 in Ok s
               else Ok (mkRs k2 g2 tls reg)) ;; K r9)
    = (do k3 <- (if str_eqb token2 K_DIMENSIONS
                 then do r <- parse_dimensions upper (S f) (k_z k2) (k_ntax k2) ;;
                      let '(n, z3) := r in Ok (set_z (set_ntax k2 n) z3)
                 else Ok k2) ;; K (mkRs k3 g2 tls reg))).
  { intros X K. destruct (str_eqb token2 K_DIMENSIONS); [|reflexivity].
    rewrite g_parse_dimensions_statement_eq. unfold st_z, st_set_k, rd_ntax. cbn [r_k r_g r_tls r_tlreg].
    destruct (parse_dimensions upper (S f) (k_z k2) (k_ntax k2)) as [[n z3]| |]; reflexivity. }
  rewrite E2; clear E2. rewrite !bind_assoc.
  match goal with |- bind ?A _ = _ => destruct A as [k3| |] eqn:EB end;
    cbn [bind]; try reflexivity.
  assert (L3 : nlen k3 = nlen k2).
  { destruct (str_eqb token2 K_DIMENSIONS).
    - destruct (parse_dimensions upper (S f) (k_z k2) (k_ntax k2)) as [[n z3]|e|]; cbn [bind] in EB; try discriminate.
      inversion EB; subst. reflexivity.
    - inversion EB; subst. reflexivity. }
  clear EB.
  assert (W3 : wfs k3 g2) by (apply (wfs_mono c k2 g2); [exact W2 | lia | reflexivity]).
  assert (N3 : nsok k3 tns2) by (apply (nsok_mono k2); [exact N2 | lia]).
  (* TAXLABELS *)
  destruct (str_eqb token2 K_TAXLABELS); cbn [bind]; [|apply IH; assumption].
  assert (LBL : forall i k4 g4, wfs k4 g4 -> (i < nlen k4)%nat -> (c_attached c = true -> i = O) ->
    (do r <- (do r8__ <- (do r6__ <- tk_process_and_clear T (mkRs k4 g4 tls reg) ;; let '(_, s0) := r6__ in
                          do r5__ <- g_parse_taxlabels_statement T lower upper c (S f) s0 (Some i) ;; let '(_, s1) := r5__ in
                          Ok (s1, Some i)) ;;
              let '(s2, v_ns) := r8__ in
              g_parse_taxa_block_loop1 T lower upper c f s2 (Some token2) v_ns) ;; Ok (fst (fst r)))
    = (do r <- (do k5 <- parse_taxlabels lower c (S f) (set_z k4 (clear_comments (k_z k4))) i ;;
                taxa_loop lower upper c f k5 g4 token2 (Some i)) ;;
       let '(k', g') := r in Ok (mkRs k' g' tls reg))).
  { intros i k4 g4 W4 V4 A4. unfold tk_process_and_clear, st_set_z, st_z. cbn [bind r_k r_g r_tls r_tlreg].
    rewrite (g_parse_taxlabels_eq_at T lower upper c (set_z k4 (clear_comments (k_z k4))) g4 tls reg i V4 A4 (S f)).
    unfold ifc_parse_taxlabels, st_set_k. cbn [r_k r_g r_tls r_tlreg on_get].
    destruct (parse_taxlabels lower c (S f) (set_z k4 (clear_comments (k_z k4))) i) as [k5| |] eqn:E8; cbn [bind]; try reflexivity.
    apply parse_taxlabels_len in E8. rewrite set_z_len in E8.
    apply IH; [apply (wfs_mono c k4 g4); [exact W4 | lia | reflexivity] | apply nsok_some; lia |
               intros j EJ; inversion EJ; subst; exact A4]. }
  destruct tns2 as [i|]; cbn [on_is_none bind].
  - etransitivity; [|etransitivity; [exact (LBL i k3 g2 W3 (N3 i eq_refl) (AT2 i eq_refl))|]]; reflexivity.
  - rewrite g_new_taxon_namespace_eq. unfold ifc_new_taxon_namespace, st_set_kg. cbn [r_k r_g r_tls r_tlreg].
    destruct (new_tns c k3 g2 None) as [[i k4] g4] eqn:E7. cbn [bind r_k r_g r_tls r_tlreg on_get].
    destruct (new_tns_wf c _ _ _ _ _ _ W3 E7) as [A1 [A2 [_ A4]]].
    etransitivity; [|etransitivity; [exact (LBL i k4 g4 A1 A2 A4)|]]; reflexivity.
Qed.

Theorem g_parse_taxa_block_eq : forall fuel (s : gst),
  wfr T c s ->
  g_parse_taxa_block T lower upper c fuel s = ifc_parse_taxa_block T lower upper c fuel s.
Proof.
  intros fuel [k g tls reg] WF. unfold wfr in WF. cbn [r_k r_g] in WF.
  unfold g_parse_taxa_block, ifc_parse_taxa_block, parse_taxa_block, tk_set_allow_eof, tk_skip_to_semicolon, zstep,
    st_z, st_set_z, st_set_kg. cbn [r_k r_g r_tls r_tlreg].
  destruct (skip_to_semicolon fuel (k_z k)) as [z1| |]; cbn [bind]; try reflexivity.
  assert (W1 : wfs (set_z k z1) g) by (apply (wfs_mono c k g); [exact WF | rewrite set_z_len; lia | reflexivity]).
  pose proof (g_taxa_loop_eq tls reg fuel (set_z k z1) g [] None W1 (nsok_none _) (fun i E => ltac:(discriminate))) as L.
  match type of L with (bind ?G _) = _ =>
    match goal with |- context [g_parse_taxa_block_loop1 T lower upper c fuel ?s0 ?t0 ?n0] =>
      change (g_parse_taxa_block_loop1 T lower upper c fuel s0 t0 n0) with G end;
    destruct G as [[[s' t'] n']| |] end;
    destruct (taxa_loop lower upper c fuel (set_z k z1) g [] None) as [[k2 g2]| |]; cbn [bind fst snd] in *;
    cbv beta iota in L; try discriminate L; try (injection L as ->; reflexivity); try reflexivity.
  injection L as ->. cbn [r_k r_g r_tls r_tlreg].
  destruct (skip_to_semicolon fuel (k_z k2)); reflexivity.
Qed.

End S.
