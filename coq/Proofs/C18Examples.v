(* C18 - concrete witnesses: non-vacuity of the specifications and the refuted clause *)
From Coq Require Import QArith List Bool Arith Lia.
From DV Require Import Model.C18Model Proofs.C18Lists Proofs.C18Tree Proofs.C18Monad Proofs.C18BD Proofs.C18Coal Proofs.C18CC.
Import ListNotations.
Open Scope nat_scope.

(* a walk with a birth, a death, total extinction + restart, then three births: N = 3, b = 1, d = 1/2 *)
Definition ex_P : bdp := mkBdp 1%Q (1#2)%Q 0%Q 0%Q 3.
Definition ex_script : list draw :=
  [DExp (1#2)%Q; DUnit 0%Q; DGauss 0%Q; DGauss 0%Q; DGauss 0%Q; DGauss 0%Q;   (* birth: 2 lineages *)
   DExp (1#4)%Q; DUnit (5#12)%Q;                                              (* death of the first *)
   DExp 1%Q; DUnit (3#4)%Q;                                                   (* death of the last: restart *)
   DExp (3#4)%Q; DUnit 0%Q; DGauss 0%Q; DGauss 0%Q; DGauss 0%Q; DGauss 0%Q;
   DExp (1#8)%Q; DUnit (11#12)%Q;                                             (* death, one lineage left *)
   DExp 2%Q; DUnit (1#8)%Q; DGauss 0%Q; DGauss 0%Q; DGauss 0%Q; DGauss 0%Q;
   DExp (1#2)%Q; DUnit (1#2)%Q; DGauss 0%Q; DGauss 0%Q; DGauss 0%Q; DGauss 0%Q;
   DPerm [1; 0]; DPerm [2; 0; 1]].

Example bd_example_done :
  exists t ns' r, bd_sim false false ex_P [LO 0; LT true 1] ex_script = Done (t, ns') r
                  /\ length (leaf_ids t) = 3 /\ fst r = [] /\ ns' = [LO 0; LT true 1; LT true 2].
Proof. vm_compute. eexists _, _, _. split; [reflexivity|]. repeat split. Qed.

(* the clause "N distinct taxa" fails for the current code on a case-insensitive namespace holding
   the label t1: the fresh label T1 is looked up with require_taxon and returns the taxon t1 again *)
Definition dup_script : list draw :=
  [DExp 1%Q; DUnit 0%Q; DGauss 0%Q; DGauss 0%Q; DGauss 0%Q; DGauss 0%Q; DPerm [0]; DPerm [0; 1]].

Lemma bd_taxa_refuted_proved :
  exists P ns script t ns' r,
    1 <= p_n P /\ bd_sim false false P ns script = Done (t, ns') r /\ ~ NoDup (leaf_taxa t).
Proof.
  exists (mkBdp 1%Q 0%Q 0%Q 0%Q 2), [LT false 1], dup_script.
  vm_compute. eexists _, _, _. split; [lia|]. split; [reflexivity|].
  intro H. inversion H as [|? ? Hn _]; subst. apply Hn. simpl. auto.
Qed.

(* with the repaired site (a new taxon is always created) the same run gives distinct taxa *)
Example bd_taxa_repaired_example :
  exists t ns' r, bd_sim true false (mkBdp 1%Q 0%Q 0%Q 0%Q 2) [LT false 1] dup_script = Done (t, ns') r
                  /\ leaf_taxa t = [Some 0; Some 1] /\ ns' = [LT false 1; LT true 1].
Proof. vm_compute. eexists _, _, _. split; [reflexivity|]. split; reflexivity. Qed.

Example kingman_example_done :
  exists t r, kingman_sim 4 2%Q [DExp 11%Q; DSample [2; 1]; DExp 8%Q; DSample [1; 2]; DExp (9#8)%Q; DSample [0; 1]] = Done t r
              /\ gleaf_taxa t = [Some 0; Some 3; Some 2; Some 1].
Proof. vm_compute. eexists _, _. split; reflexivity. Qed.

Example kscript_example : kscript_ok 4 [DExp 11%Q; DSample [2; 1]; DExp 8%Q; DSample [1; 2]; DExp (9#8)%Q; DSample [0; 1]].
Proof. simpl. repeat split; lia. Qed.

Example pb_example_done :
  exists t r, pb_sim 3 2%Q [DExp 1%Q; DIndex 0; DExp (1#2)%Q; DIndex 1; DExp (1#4)%Q] = Done t r
              /\ leaf_taxa t = [Some 0; Some 1; Some 2].
Proof. vm_compute. eexists _, _. split; reflexivity. Qed.

(* contained coalescent: species (A:1, B:1) with one gene each; the two lineages can only meet in
   the root population, after each has spent the full length of its species edge *)
Definition ex_A : stree := SN 1 (Some [0]) (Some 1%Q) 1%Q [].
Definition ex_species : stree := SN 0 None None 1%Q [ex_A; SN 2 (Some [1]) (Some 1%Q) 2%Q []].

Example cc_example_done :
  exists g r h, cc_sim ex_species [DExp (1#2)%Q; DSample [0; 1]] = Done g r /\ joins g 0 1 h /\
                Qle (up_len ex_A 0) h /\ fst r = [].
Proof.
  vm_compute. eexists _, _, _. split; [reflexivity|]. split; [|split; [|reflexivity]].
  - eapply (j_here _ _ _ 0 1); [reflexivity|reflexivity|discriminate|left; reflexivity|left; reflexivity].
  - discriminate.
Qed.
