(* C11: translated methods = model - part F: matrix []=, DataSet *)
From Coq Require Import String.
From Coq Require Import List Bool Arith ZArith Lia.
From DV Require Import Model.PyPrims Model.C11Model Model.C11Prims Gen.Containers Proofs.C11Base Proofs.C11GenA Proofs.C11GenB
  Proofs.C11GenD Proofs.C11GenE Proofs.C11Ops.
Import ListNotations.
Open Scope nat_scope.

Lemma upd_overflow : forall A (l : list A) i x, length l <= i -> upd l i x = l.
Proof.
  intros A l. induction l as [|y r IH]; intros [|i] x H; simpl in *; try reflexivity; try lia.
  rewrite IH by lia. reflexivity.
Qed.

Section WithLower.
Variable lower : lbl -> lbl.

(* ---- CharacterMatrix._resolve_key / __setitem__ ---- *)
Theorem gen_resolve_key : forall st m k,
  py_CharacterMatrix__resolve_key lower st m k = (st, row_key lower st (m_ns (getmat st m)) k).
Proof.
  intros st m k. unfold py_CharacterMatrix__resolve_key, row_key. destruct k as [x|l|i].
  - reflexivity.
  - unfold ns_get_taxon. destruct (first_match lower st (m_ns (getmat st m)) (ns_cs st (m_ns (getmat st m))) l); reflexivity.
  - destruct (Z.abs i <? Z.of_nat (length (members st (m_ns (getmat st m)))))%Z; [|reflexivity].
    unfold ns_getitem, py_list_getitem. destruct (norm_index (length (members st (m_ns (getmat st m)))) i); reflexivity.
Qed.

Theorem step_SetRow_gen : forall st m k,
  valid_mat st m && match k with KeyTaxon x => valid_taxon st x | _ => true end = true ->
  step lower st (SetRow m k) = obs_unit (py_CharacterMatrix___setitem__ lower st m k tt).
Proof.
  intros st m k V. cbn [step]. rewrite V. unfold py_CharacterMatrix___setitem__. rewrite gen_resolve_key.
  assert (NR : forall e, row_key lower st (m_ns (getmat st m)) k = Err e -> e <> OtherErr).
  { intros e H. unfold row_key in H. destruct k as [x|l|i].
    - discriminate.
    - destruct (first_match lower st (m_ns (getmat st m)) (ns_cs st (m_ns (getmat st m))) l); [discriminate|]. injection H as H. subst. discriminate.
    - destruct (Z.abs i <? Z.of_nat (length (members st (m_ns (getmat st m)))))%Z.
      + destruct (norm_index (length (members st (m_ns (getmat st m)))) i); [discriminate|]. injection H as H. subst. discriminate.
      + injection H as H. subst. discriminate. }
  destruct (row_key lower st (m_ns (getmat st m)) k) as [x|e|] eqn:RK; cbn [bindR].
  - destruct (negb (memb x (members st (m_ns (getmat st m))))); reflexivity.
  - specialize (NR e eq_refl). unfold obs_unit. cbn [fst snd out_of]. destruct e; try reflexivity. contradiction.
  - reflexivity.
Qed.

(* ---- DataSet ---- *)
Lemma set_ds_same : forall st d, set_ds st d (getds st d) = st.
Proof.
  intros st d. unfold set_ds. assert (E : upd (s_dss st) d (getds st d) = s_dss st).
  { destruct (nth_error (s_dss st) d) eqn:K.
    - apply upd_same. rewrite K. f_equal. symmetry. apply getds_some. exact K.
    - apply upd_overflow. apply nth_error_None. exact K. }
  rewrite E. destruct st. reflexivity.
Qed.

Lemma set_ds_nss_same : forall st d, set_ds_nss st d (d_nss (getds st d)) = st.
Proof. intros. unfold set_ds_nss. cbv zeta. destruct (getds st d) as [a b c e] eqn:G. cbn [d_att d_nss d_lists d_mats]. rewrite <- G. apply set_ds_same. Qed.

Lemma ds_add_ns_gen : forall st d n,
  (if negb (memb n (d_nss (getds st d))) then set_ds_nss st d (oset_add n (d_nss (getds st d))) else st) = ds_add_ns st d n.
Proof.
  intros. unfold ds_add_ns, oset_add, add_uniq. cbv zeta. destruct (memb n (d_nss (getds st d))) eqn:M; cbn [negb].
  - symmetry. apply set_ds_nss_same.
  - reflexivity.
Qed.

Theorem gen_DataSet_attach : forall st d n,
  py_DataSet_attach_taxon_namespace st d (Some n) = (ds_attach st d n, Ok (d_att (getds (ds_attach st d n) d))).
Proof.
  intros st d n. unfold py_DataSet_attach_taxon_namespace, py_DataSet_add_taxon_namespace, ds_attach. cbv iota.
  rewrite <- (ds_add_ns_gen st d n). destruct (negb (memb n (d_nss (getds st d)))); reflexivity.
Qed.

Theorem step_Attach_gen : forall st d n,
  valid_ds st d && valid_ns st n = true ->
  step lower st (Attach d n) = obs_unit (py_DataSet_attach_taxon_namespace st d (Some n)).
Proof. intros st d n V. cbn [step]. rewrite V, gen_DataSet_attach. reflexivity. Qed.

Theorem gen_DataSet_add_tree_list : forall st d l,
  py_DataSet_add_tree_list st d l = (ds_add_list st d l, Ok l).
Proof.
  intros st d l. unfold py_DataSet_add_tree_list, ds_add_list.
  pose proof (ds_add_ns_gen st d (l_ns (getlist st l))) as Q.
  destruct (negb (memb (l_ns (getlist st l)) (d_nss (getds st d)))); cbv zeta; rewrite <- Q; reflexivity.
Qed.

Theorem gen_DataSet_add_char_matrix : forall st d m,
  py_DataSet_add_char_matrix st d m = (ds_add_mat st d m, Ok m).
Proof.
  intros st d m. unfold py_DataSet_add_char_matrix, ds_add_mat.
  pose proof (ds_add_ns_gen st d (m_ns (getmat st m))) as Q.
  destruct (negb (memb (m_ns (getmat st m)) (d_nss (getds st d)))); cbv zeta; rewrite <- Q; reflexivity.
Qed.

Theorem step_DsAdd_gen : forall st d o,
  valid_ds st d = true ->
  match o with ObjNs n => valid_ns st n | ObjList l => valid_list st l | ObjMat m => valid_mat st m end = true ->
  step lower st (DsAdd d o) = obs_unit (py_DataSet_add st d o).
Proof.
  intros st d o V W. cbn [step]. rewrite V. unfold py_DataSet_add. destruct o as [n|l|m]; rewrite W.
  - reflexivity.
  - rewrite gen_DataSet_add_tree_list. reflexivity.
  - rewrite gen_DataSet_add_char_matrix. reflexivity.
Qed.

End WithLower.
