(* C12, second wave: statements about the shallow routes as they appear in Props/C12.v; witnesses *)
From Coq Require Import ZArith List Bool Lia.
From DV Require Import Model.PyPrims Model.C12Model Model.C12Spec2 Model.C12Shallow Proofs.C12Heap Proofs.C12Inv Proofs.C12Copy
  Proofs.C12Wf Proofs.C12Proofs Proofs.C12Iso Proofs.C12Wf2 Proofs.C12IsoTop Proofs.C12Fun Proofs.C12Wf3 Proofs.C12AnnTop
  Proofs.C12FunTop Proofs.C12Image Proofs.C12ImageTop Proofs.C12ShallowProofs.
Import ListNotations.
Open Scope Z_scope.

Theorem shallow_copy_depth_l : forall nf fuel h root tmpl ob s' y,
  hget h root = Some ob -> wf_heap h (shallow_shares h (obody ob) tmpl) = true -> wf_heap2 h = true -> wf_heap3 h = true ->
  template_ok tmpl = true -> is_annk (okind ob) = true -> (length h < fuel)%nat ->
  shallow_copy nf fuel h root tmpl = Ok (s', R y) ->
  y = hlen h /\ (forall o, o < hlen h -> hget (sh s') o = hget h o)
  /\ kind_at (sh s') y = Some (okind ob)
  /\ Forall (FieldOK h s' y (obody ob) (hlen h + 1)) tmpl
  /\ exists c2 done,
       (forall p, In p c2 -> In p (sc s')) /\ In (root, y) c2
       /\ AnnState s' y done /\ map fst done = refs_of (ann_items h ob) /\ (forall p, In p done -> In p c2)
       /\ (forall a b, In (a, b) c2 -> b <> y ->
             0 <= a < hlen h /\ hlen h < b < hlen (sh s') /\
             exists oa ob', hget h a = Some oa /\ hget (sh s') b = Some ob' /\ ocls oa = ocls ob' /\ okind oa = okind ob'
               /\ (forall k' v', In (k', v') (obody ob') ->
                     rebuilt (okind oa) k' \/ exists k v, In (k, v) (obody oa) /\ vrel (hlen h) c2 k k' /\ vrel (hlen h) c2 v v')
               /\ (forall k v, In (k, v) (obody oa) ->
                     not_carried (okind oa) k \/ exists k' v', In (k', v') (obody ob') /\ vrel (hlen h) c2 k k' /\ vrel (hlen h) c2 v v')).
Proof.
  intros nf fuel h root tmpl ob s' y G WF WF2 WF3 TOK AK Hf H.
  destruct (shallow_copy_spec h nf fuel root tmpl ob G WF WF2 WF3 TOK AK Hf s' y H) as [A [B [_ [C [D E]]]]].
  auto.
Qed.

Theorem shallow_copy_shares_l : forall nf fuel h root tmpl ob s' y,
  hget h root = Some ob -> wf_heap h (shallow_shares h (obody ob) tmpl) = true -> wf_heap2 h = true -> wf_heap3 h = true ->
  template_ok tmpl = true -> is_annk (okind ob) = true -> (length h < fuel)%nat ->
  shallow_copy nf fuel h root tmpl = Ok (s', R y) ->
  (forall o, reach (sh s') y o ->
     hlen h <= o < hlen (sh s') \/
     exists b, (In b (shallow_shares h (obody ob) tmpl) \/ is_atomic h b = true) /\ reach h b o)
  /\ (forall b, In b (shallow_shares h (obody ob) tmpl) -> reach (sh s') y b /\ reach h root b).
Proof.
  intros nf fuel h root tmpl ob s' y G WF WF2 WF3 TOK AK Hf H.
  exact (shallow_copy_shares h nf fuel root tmpl ob G WF WF2 WF3 TOK AK Hf s' y H).
Qed.

Theorem shallow_copy_frame_l : forall nf fuel h root tmpl ob s' y,
  hget h root = Some ob -> wf_heap h (shallow_shares h (obody ob) tmpl) = true -> wf_heap2 h = true -> wf_heap3 h = true ->
  template_ok tmpl = true -> is_annk (okind ob) = true -> (length h < fuel)%nat ->
  shallow_copy nf fuel h root tmpl = Ok (s', R y) ->
  (forall news ws, (forall w, In w ws -> hlen h <= fst w) ->
     (forall o, reach h root o <-> reach (write_all (sh s' ++ news) ws) root o)
     /\ (forall o, reach h root o -> hget (write_all (sh s' ++ news) ws) o = hget h o))
  /\ (forall news ws,
        (forall w, In w ws -> fst w < hlen h /\
            ~ exists b, (In b (shallow_shares h (obody ob) tmpl) \/ is_atomic h b = true) /\ reach h b (fst w)) ->
        (forall o, reach (sh s') y o <-> reach (write_all (sh s' ++ news) ws) y o)
        /\ (forall o, reach (sh s') y o -> hget (write_all (sh s' ++ news) ws) o = hget (sh s') o))
  /\ (forall b nb, In b (shallow_shares h (obody ob) tmpl) -> b <> root -> ~ In b (shallow_conts (obody ob) tmpl) ->
        hget (write_all (sh s') [(b, nb)]) b = Some nb
        /\ reach (write_all (sh s') [(b, nb)]) y b /\ reach (write_all (sh s') [(b, nb)]) root b).
Proof.
  intros nf fuel h root tmpl ob s' y G WF WF2 WF3 TOK AK Hf H.
  exact (shallow_copy_frame h nf fuel root tmpl ob G WF WF2 WF3 TOK AK Hf s' y H).
Qed.

(* TaxonNamespace(ns) / copy.copy(ns): a new namespace; what it shares with ns is exactly what the taxa (and
   atomic objects) reach; every taxon of ns is a taxon of the copy, as the very same object *)
Theorem ns_copy_shares_l : forall nf h ns fuel s' y,
  wf_heap h (ns_taxa h ns) = true -> wf_heap2 h = true -> wf_heap3 h = true -> wf_heap3s h = true ->
  root_seeds_ok h (ns_taxa h ns) ns = true -> memz ns (owned_list h) = false ->
  0 <= ns < hlen h -> (length h < fuel)%nat ->
  ns_copy nf fuel h ns = Ok (s', R y) ->
  (forall o, o < hlen h -> hget (sh s') o = hget h o)
  /\ (forall o, reach (sh s') y o ->
        hlen h <= o < hlen (sh s') \/ exists b, (In b (ns_taxa h ns) \/ is_atomic h b = true) /\ reach h b o)
  /\ (forall b o, In b (ns_taxa h ns) -> reach h ns b -> reach h b o -> reach (sh s') y o /\ reach (sh s') ns o).
Proof.
  intros nf h ns fuel s' y WF WF2 WF3 WF3S RS NO Hr Hf E. unfold ns_copy in E.
  destruct (deepcopy_fresh_disjoint_l nf h _ ns fuel s' y WF Hr Hf E) as [OLD [_ FR]].
  split; [exact OLD|]. split; [exact FR|].
  exact (seeded_shares_every_seed_l nf h _ ns fuel s' y WF WF2 WF3 WF3S RS NO Hr Hf E).
Qed.

(* ---- witnesses ------------------------------------------------------------------------------------- *)

(* a TreeList-shaped object: label, namespace, flags, one member tree, ONE COMMENT, an extra attribute
   "popsize" (P 500) and an annotation bound to it *)
Definition sh_heap : heap :=
  [ mkObj 20 KAnnotable [(NM_LABEL, P 0); (NM_TNS, R 1); (NM_AUTOMIG, P 1); (NM_TREETYPE, P 300); (NM_TREES, R 2);
                         (NM_COMMENTS, R 3); (P 500, P 1005); (NM_ANN, R 5)];
    mkObj 21 KNamespace [(NM_TAXA, R 4)];
    mkObj 0 KList [(pidx 0, R 6)];
    mkObj 0 KList [(pidx 0, P 400)];
    mkObj 0 KList [];
    mkObj 4 KAnnSet [(NM_ILIST, R 7); (NM_ISET, R 8); (NM_TARGET, R 0)];
    mkObj 22 KAnnotable [];
    mkObj 0 KList [(pidx 0, R 9)];
    mkObj 2 KSet [(R 9, PNone)];
    mkObj 23 KAnnotable [(NM_VALUE, R 10); (NM_ISATTR, PTrue); (P 501, P 500)];
    mkObj 3 KTuple [(pidx 0, R 0); (pidx 1, P 500)] ].

Lemma sh_heap_hyps :
  wf_heap sh_heap (root_shares sh_heap 0 treelist_template) = true /\ wf_heap2 sh_heap = true /\ wf_heap3 sh_heap = true
  /\ memz 0 (owned_list sh_heap) = false /\ template_ok treelist_template = true
  /\ root_shares sh_heap 0 treelist_template = [1; 6].
Proof. vm_compute. repeat split; reflexivity. Qed.

Lemma sh_heap_runs : exists s', shallow_copy false 12 sh_heap 0 treelist_template = Ok (s', R 11) /\ hlen (sh s') = 20.
Proof. eexists. split; vm_compute; reflexivity. Qed.

(* "all member objects are references": the comments of the source are not in the copy *)
Lemma sh_heap_drops_comments : exists s' c c',
  shallow_copy false 12 sh_heap 0 treelist_template = Ok (s', R 11)
  /\ bget (body_of (init_st false sh_heap []) 0) NM_COMMENTS = Some (R c) /\ body_of (init_st false sh_heap []) c <> []
  /\ bget (body_of s' 11) NM_COMMENTS = Some (R c') /\ body_of s' c' = [].
Proof. eexists. exists 3, 19. split; [vm_compute; reflexivity|]. split; [reflexivity|]. split; [discriminate|]. split; reflexivity. Qed.

(* the copy's attribute-bound annotation is bound to an attribute the copy does not have *)
Lemma sh_heap_dangling : exists s' a2 t name,
  shallow_copy false 12 sh_heap 0 treelist_template = Ok (s', R 11)
  /\ AnnState s' 11 [(9, a2)]
  /\ bget (body_of s' a2) NM_ISATTR = Some PTrue /\ bget (body_of s' a2) NM_VALUE = Some (R t)
  /\ body_of s' t = [(pidx 0, R 11); (pidx 1, name)]
  /\ bget (body_of s' 11) name = None
  /\ bget (body_of (init_st false sh_heap []) 0) name = Some (P 1005).
Proof.
  eexists. exists 12, 14, (P 500). split; [vm_compute; reflexivity|]. split.
  - exists 15, 16, 17. repeat split; reflexivity.
  - repeat split; reflexivity.
Qed.
