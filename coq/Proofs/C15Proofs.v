(* C15: the generated stack / queue machines of Node compute the structural specifications.
   Everything here is about the definitions of Gen/Traversals.v (generated from the source),
   instantiated with the object graph of located nodes (any representation E of edges). *)
From Coq Require Import ZArith List Bool Arith Lia Permutation.
From DV Require Import Model.PyPrims Model.Tree Model.C15Prims Gen.Traversals Model.C15Model Proofs.C15Base.
Import ListNotations.
Open Scope nat_scope.

Lemma run_stack_list0 {O X : Type} (step : list X -> sres (list X) O) (cost : X -> nat) (outp : X -> list O) ks :
  Forall (fun x => forall fuel stack,
              run step (cost x + fuel) (stack ++ [x]) = gprepend (outp x) (run step fuel stack)) ks ->
  forall fuel stack,
    run step (fold_right (fun x a => cost x + a) 0 ks + fuel) (stack ++ rev ks)
    = gprepend (flat_map outp ks) (run step fuel stack).
Proof.
  intros H fuel stack.
  pose proof (run_stack_list step (fun s => s) (fun x => x) cost outp ks H fuel stack) as R.
  rewrite map_id in R. exact R.
Qed.

Lemma run_stack_list1 {O X Y : Type} (step : list Y -> sres (list Y) O) (inj : X -> Y)
      (cost : X -> nat) (outp : X -> list O) ks :
  Forall (fun x => forall fuel stack,
              run step (cost x + fuel) (stack ++ [inj x]) = gprepend (outp x) (run step fuel stack)) ks ->
  forall fuel stack,
    run step (fold_right (fun x a => cost x + a) 0 ks + fuel) (stack ++ rev (map inj ks))
    = gprepend (flat_map outp ks) (run step fuel stack).
Proof. intros H fuel stack. exact (run_stack_list step (fun s => s) inj cost outp ks H fuel stack). Qed.

Lemma flat_map_if_map {A B} (g : A -> B) (f : B -> bool) l :
  flat_map (fun x => if f (g x) then [g x] else []) l = map g (filter (fun x => f (g x)) l).
Proof. induction l as [|x r IH]; simpl; [reflexivity|]. rewrite IH. destruct (f (g x)); reflexivity. Qed.

Ltac gsimp := cbn [gnode gedge attr_child_nodes attr_parent_node attr_edge attr_head_node attr_age obj_is LGE LG] in *.

Section Machines.
  Context {E : Type} (eo : lnode -> E) (hd : E -> lnode) (age : lnode -> Z).
  Notation G := (LGE E eo hd age).

  (* ------------------------------------------------------------------ pre-order *)
  Lemma pre_node (ff : option (lnode -> bool)) (self : lnode) : forall n fuel stack,
    run (Node_preorder_iter_step G ff self) (lsize n + fuel) (stack ++ [n])
    = gprepend (filter (pyf ff) (lpre n)) (run (Node_preorder_iter_step G ff self) fuel stack).
  Proof.
    induction n as [n IH] using lnode_ind. intros fuel stack.
    rewrite lsize_unfold. rewrite Nat.add_succ_l, run_S.
    unfold Node_preorder_iter_step at 1.
    rewrite py_is_empty_snoc, py_pop_last_snoc. cbv beta iota zeta. simpl negb. cbv iota.
    change (match ff with None => true | Some g => g n end) with (pyf ff n).
    unfold py_extend, py_reversed. rewrite map_rev, map_id.
    change (attr_child_nodes G n) with (l_kids n).
    rewrite lpre_unfold. simpl filter. unfold fsize.
    destruct (pyf ff n); rewrite (run_stack_list0 _ lsize (fun k => filter (pyf ff) (lpre k)) _ IH),
      gprepend_app, filter_flat_map; reflexivity.
  Qed.

  Theorem preorder_iter_run (ff : option (lnode -> bool)) (n : lnode) fuel :
    lsize n < fuel -> Node_preorder_iter G fuel ff n = GDone (filter (pyf ff) (lpre n)).
  Proof.
    intro H. unfold Node_preorder_iter. cbv zeta.
    replace fuel with (lsize n + (fuel - lsize n)) by lia.
    change [n] with ([] ++ [n]). rewrite pre_node.
    destruct (fuel - lsize n) eqn:Ef; [lia|].
    rewrite run_S. unfold Node_preorder_iter_step. simpl. rewrite app_nil_r. reflexivity.
  Qed.

  (* ------------------------------------------------------------------ post-order *)
  Lemma post_node (ff : option (lnode -> bool)) (self : lnode) : forall n fuel stack,
    run (Node_postorder_iter_step G ff self) (2 * lsize n + fuel) (stack ++ [(n, false)])
    = gprepend (filter (pyf ff) (lpost n)) (run (Node_postorder_iter_step G ff self) fuel stack).
  Proof.
    induction n as [n IH] using lnode_ind. intros fuel stack.
    rewrite lsize_unfold.
    replace (2 * S (fsize (l_kids n)) + fuel)
      with (S (fold_right (fun k a => 2 * lsize k + a) 0 (l_kids n) + S fuel)).
    2:{ assert (Hs : forall q, fold_right (fun k a => 2 * lsize k + a) 0 q = 2 * fsize q).
        { induction q as [|k r IHq]; simpl; [reflexivity|]. simpl in IHq. rewrite IHq. lia. }
        rewrite Hs. lia. }
    rewrite run_S. unfold Node_postorder_iter_step at 1.
    rewrite py_is_empty_snoc, py_pop_last_snoc. cbv beta iota zeta. simpl negb. cbv iota.
    unfold py_extend, py_reversed, py_append. rewrite map_rev.
    change (attr_child_nodes G n) with (l_kids n).
    rewrite (run_stack_list1 _ (fun k => (k, false)) (fun k => 2 * lsize k)
                             (fun k => filter (pyf ff) (lpost k)) _ IH).
    rewrite run_S. unfold Node_postorder_iter_step at 1.
    rewrite py_is_empty_snoc, py_pop_last_snoc. cbv beta iota zeta. simpl negb. cbv iota.
    change (match ff with None => true | Some g => g n end) with (pyf ff n).
    rewrite lpost_unfold, filter_app, filter_flat_map. simpl filter.
    destruct (pyf ff n); rewrite !gprepend_app; simpl; rewrite ?app_nil_r; reflexivity.
  Qed.

  Theorem postorder_iter_run (ff : option (lnode -> bool)) (n : lnode) fuel :
    2 * lsize n < fuel -> Node_postorder_iter G fuel ff n = GDone (filter (pyf ff) (lpost n)).
  Proof.
    intro H. unfold Node_postorder_iter. cbv zeta.
    replace fuel with (2 * lsize n + (fuel - 2 * lsize n)) by lia.
    change [(n, false)] with ([] ++ [(n, false)]). rewrite post_node.
    destruct (fuel - 2 * lsize n) eqn:Ef; [lia|].
    rewrite run_S. unfold Node_postorder_iter_step. simpl. rewrite app_nil_r. reflexivity.
  Qed.

  (* ------------------------------------------------------------------ level-order *)
  Lemma level_queue (ff : option (lnode -> bool)) (self : lnode) : forall (q acc : list lnode) fuel,
    run (Node_levelorder_iter_step G ff self) (length q + fuel) (q ++ acc)
    = gprepend (filter (pyf ff) q) (run (Node_levelorder_iter_step G ff self) fuel (acc ++ flat_map l_kids q)).
  Proof.
    induction q as [|x r IH]; intros acc fuel.
    - simpl. rewrite app_nil_r, gprepend_nil. reflexivity.
    - simpl length. rewrite Nat.add_succ_l, run_S. unfold Node_levelorder_iter_step at 1.
      rewrite <- app_comm_cons, py_len_pos_cons. cbv beta iota zeta. simpl py_pop_first. cbv iota.
      change (match ff with None => true | Some g => g x end) with (pyf ff x).
      unfold py_extend, Node_child_nodes, py_list.
      change (attr_child_nodes G x) with (l_kids x).
      simpl filter. simpl flat_map.
      destruct (pyf ff x); rewrite <- app_assoc, IH, gprepend_app, <- (app_assoc acc); reflexivity.
  Qed.

  Lemma height_kid c t : In c (t_kids t) -> height c < height t.
  Proof.
    destruct t as [i x l e ks]. simpl t_kids. simpl height. intro H.
    assert (height c <= fold_right (fun k n => Nat.max (height k) n) 0 ks).
    { induction ks as [|k r IH]; [destruct H|]. simpl. destruct H as [->|H]; [lia|]. specialize (IH H). lia. }
    lia.
  Qed.

  Lemma height_pos t : 0 < height t.
  Proof. destruct t; simpl; lia. Qed.

  Lemma l_kids_height n k : In k (l_kids n) -> height (here k) < height (here n).
  Proof. intro H. apply height_kid. rewrite <- l_kids_here. apply in_map. exact H. Qed.

  Lemma level_forest (ff : option (lnode -> bool)) (self : lnode) : forall H q fuel,
    Forall (fun k => height (here k) <= H) q -> fsize q < fuel ->
    run (Node_levelorder_iter_step G ff self) fuel q = GDone (filter (pyf ff) (levels H q)).
  Proof.
    induction H as [|H IH]; intros q fuel Hh Hf.
    - destruct q as [|k r].
      + destruct fuel; [lia|]. reflexivity.
      + inversion Hh as [|? ? Hk _]; subst. pose proof (height_pos (here k)). lia.
    - rewrite (fsize_flat_map_kids q) in Hf.
      replace fuel with (length q + (fuel - length q)) by lia.
      pose proof (level_queue ff self q [] (fuel - length q)) as Q. rewrite app_nil_r in Q. rewrite Q. clear Q. simpl app.
      rewrite (IH (flat_map l_kids q) (fuel - length q)); [| |lia].
      + simpl levels. rewrite filter_app. reflexivity.
      + apply Forall_forall. intros k Hk. apply in_flat_map in Hk. destruct Hk as [p [Hp Hk]].
        rewrite Forall_forall in Hh. specialize (Hh p Hp). apply l_kids_height in Hk. lia.
  Qed.

  Theorem levelorder_iter_run (ff : option (lnode -> bool)) (n : lnode) fuel :
    lsize n <= fuel -> Node_levelorder_iter G fuel ff n = GDone (filter (pyf ff) (llevel n)).
  Proof.
    intro Hf. unfold Node_levelorder_iter. cbv zeta.
    change (match ff with None => true | Some g => g n end) with (pyf ff n).
    unfold Node_child_nodes, py_list. change (attr_child_nodes G n) with (l_kids n).
    unfold llevel. destruct (height (here n)) as [|h] eqn:Eh; [pose proof (height_pos (here n)); lia|].
    simpl levels. rewrite app_nil_r.
    rewrite (level_forest ff n h (l_kids n) fuel).
    - simpl filter. destruct (pyf ff n); reflexivity.
    - apply Forall_forall. intros k Hk. apply l_kids_height in Hk. lia.
    - rewrite lsize_unfold in Hf. lia.
  Qed.

  (* ------------------------------------------------------------------ leaves *)
  Lemma lleaves_post n : lleaves n = filter l_is_leaf (lpost n).
  Proof.
    induction n as [n IH] using lnode_ind.
    rewrite lleaves_unfold, lpost_unfold, filter_app, filter_flat_map.
    rewrite <- (flat_map_ext_Forall _ _ _ IH). simpl filter. unfold l_is_leaf.
    destruct (l_kids n) as [|k r]; [reflexivity|].
    change (py_is_empty (k :: r)) with false. cbv iota. rewrite app_nil_r. reflexivity.
  Qed.

  Lemma lleaves_pre n : lleaves n = filter l_is_leaf (lpre n).
  Proof.
    induction n as [n IH] using lnode_ind.
    rewrite lleaves_unfold, lpre_unfold. simpl filter. rewrite filter_flat_map.
    rewrite <- (flat_map_ext_Forall _ _ _ IH). unfold l_is_leaf.
    destruct (l_kids n) as [|k r]; reflexivity.
  Qed.

  Lemma gflat_map_singleton {O} (g : gres O) : gflat_map (fun x => x :: []) g = g.
  Proof. destruct g; simpl; rewrite ?flat_map_singleton; reflexivity. Qed.

  Theorem leaf_iter_run (ff : option (lnode -> bool)) (n : lnode) fuel :
    2 * lsize n < fuel -> Node_leaf_iter G fuel ff n = GDone (filter (pyf ff) (lleaves n)).
  Proof.
    intro Hf. unfold Node_leaf_iter.
    destruct ff as [g|]; cbv zeta; rewrite gflat_map_singleton, postorder_iter_run by exact Hf;
      rewrite lleaves_post, filter_filter; f_equal; apply filter_ext; intro x;
      unfold pyf, Node_is_leaf, l_is_leaf; gsimp;
      destruct (py_is_empty (l_kids x)); simpl; rewrite ?orb_false_r; reflexivity.
  Qed.

  (* ------------------------------------------------------------------ internal-node variants *)
  Definition internal_keep (excl : bool) (ff : option (lnode -> bool)) (x : lnode) : bool :=
    (if excl then l_has_parent x else true) && l_is_internal x && pyf ff x.

  Lemma internal_lambda_ok (excl : bool) (ff : option (lnode -> bool)) x (hp em : bool) :
    hp = py_is_some (l_parent x) -> em = py_is_empty (l_kids x) ->
    internal_keep excl ff x =
    match excl, ff with
    | true, Some g => (hp && (negb em && g x)) || false
    | true, None => (true && (hp && negb em)) || false
    | false, Some g => (true && (negb em && g x)) || false
    | false, None => (true && (true && negb em)) || false
    end.
  Proof.
    intros -> ->. unfold internal_keep, l_has_parent, l_is_internal, pyf.
    destruct excl, ff as [g|], (py_is_some (l_parent x)), (py_is_empty (l_kids x)); simpl;
      try destruct (g x); reflexivity.
  Qed.

  Theorem preorder_internal_run (ff : option (lnode -> bool)) excl (n : lnode) fuel :
    lsize n < fuel ->
    Node_preorder_internal_node_iter G fuel ff excl n = GDone (filter (internal_keep excl ff) (lpre n)).
  Proof.
    intro Hf. unfold Node_preorder_internal_node_iter.
    destruct excl, ff as [g|]; cbv zeta; rewrite preorder_iter_run by exact Hf; f_equal;
      apply filter_ext; intro x; rewrite (internal_lambda_ok _ _ x _ _ eq_refl eq_refl); reflexivity.
  Qed.

  Theorem postorder_internal_run (ff : option (lnode -> bool)) excl (n : lnode) fuel :
    2 * lsize n < fuel ->
    Node_postorder_internal_node_iter G fuel ff excl n = GDone (filter (internal_keep excl ff) (lpost n)).
  Proof.
    intro Hf. unfold Node_postorder_internal_node_iter.
    destruct excl, ff as [g|]; cbv zeta; rewrite postorder_iter_run by exact Hf; f_equal;
      apply filter_ext; intro x; rewrite (internal_lambda_ok _ _ x _ _ eq_refl eq_refl); reflexivity.
  Qed.

  (* every node below (or at) k is at least as deep as k: only a real seed has no parent *)
  Lemma lpre_depth n : Forall (fun m => l_depth n <= l_depth m) (lpre n).
  Proof.
    induction n as [n IH] using lnode_ind. rewrite lpre_unfold. constructor; [lia|].
    apply Forall_forall. intros m Hm. apply in_flat_map in Hm. destruct Hm as [k [Hk Hm]].
    rewrite Forall_forall in IH. specialize (IH k Hk). rewrite Forall_forall in IH. specialize (IH m Hm).
    pose proof (l_kids_parent n) as P. rewrite Forall_forall in P. destruct (P k Hk) as [_ D]. lia.
  Qed.

  Lemma lpost_lpre_perm n : Permutation (lpost n) (lpre n).
  Proof.
    induction n as [n IH] using lnode_ind. rewrite lpost_unfold, lpre_unfold.
    apply Permutation_trans with (n :: flat_map lpost (l_kids n)).
    - apply Permutation_sym, Permutation_cons_append.
    - constructor. induction IH as [|k r Hk _ IHr]; simpl; [constructor|]. apply Permutation_app; assumption.
  Qed.

  Lemma has_parent_depth m : l_has_parent m = negb (Nat.eqb (l_depth m) 0).
  Proof. destruct m as [t [|[p j] up]]; reflexivity. Qed.

  (* start node is a real seed: exclude_seed_node drops exactly the start node *)
  Lemma internal_keep_seed (ff : option (lnode -> bool)) t :
    filter (internal_keep true ff) (lpre (t, [])) =
    filter (internal_keep false ff) (flat_map lpre (l_kids (t, []))).
  Proof.
    rewrite lpre_unfold. simpl filter. unfold internal_keep at 1. simpl l_has_parent. simpl andb. cbv iota.
    apply filter_ext_in. intros m Hm. apply in_flat_map in Hm. destruct Hm as [k [Hk Hm]].
    pose proof (lpre_depth k) as D. rewrite Forall_forall in D. specialize (D m Hm).
    pose proof (l_kids_parent (t, [])) as P. rewrite Forall_forall in P. destruct (P k Hk) as [_ Dk].
    unfold internal_keep. rewrite has_parent_depth.
    destruct (l_depth m); [simpl in Dk; lia|]. reflexivity.
  Qed.

  (* start node has a parent: it is not "the seed" the lambda tests for, nothing is dropped *)
  Lemma internal_keep_subtree (ff : option (lnode -> bool)) n :
    l_has_parent n = true ->
    filter (internal_keep true ff) (lpre n) = filter (internal_keep false ff) (lpre n).
  Proof.
    intro Hp. apply filter_ext_in. intros m Hm.
    pose proof (lpre_depth n) as D. rewrite Forall_forall in D. specialize (D m Hm).
    unfold internal_keep. rewrite has_parent_depth in *.
    destruct (l_depth n); [discriminate|]. destruct (l_depth m); [lia|]. reflexivity.
  Qed.

  (* ------------------------------------------------------------------ children *)
  Theorem child_node_iter_run (ff : option (lnode -> bool)) (n : lnode) fuel :
    Node_child_node_iter G fuel ff n = GDone (filter (pyf ff) (l_kids n)).
  Proof.
    unfold Node_child_node_iter. f_equal.
    change (attr_child_nodes G n) with (l_kids n).
    exact (flat_map_if_filter (pyf ff) (l_kids n)).
  Qed.

  Theorem child_edge_iter_run (fe : option (E -> bool)) (n : lnode) fuel :
    Node_child_edge_iter G fuel fe n = GDone (map eo (filter (fun k => pyf fe (eo k)) (l_kids n))).
  Proof.
    unfold Node_child_edge_iter. f_equal.
    exact (flat_map_if_map eo (pyf fe) (l_kids n)).
  Qed.

  (* ------------------------------------------------------------------ ancestors *)
  Lemma anc_run (ff : option (lnode -> bool)) incl (self : lnode) : forall up t fuel,
    length up + 2 <= fuel ->
    run (Node_ancestor_iter_step G ff incl self) fuel (Some (t, up)) = GDone (filter (pyf ff) (lanc up)).
  Proof.
    induction up as [|[p j] r IH]; intros t fuel Hf.
    - destruct fuel as [|[|fuel]]; simpl in Hf; try lia. reflexivity.
    - destruct fuel as [|fuel]; simpl in Hf; [lia|].
      rewrite run_S. unfold Node_ancestor_iter_step at 1. cbv beta iota zeta.
      change (attr_parent_node G (t, (p, j) :: r)) with (Some (p, r)). cbv iota.
      change (match ff with None => true | Some g => g (p, r) end) with (pyf ff (p, r)).
      simpl lanc. simpl filter.
      destruct (pyf ff (p, r)); rewrite IH by lia; reflexivity.
  Qed.

  Theorem ancestor_iter_run (ff : option (lnode -> bool)) incl (n : lnode) fuel :
    l_depth n + 2 <= fuel ->
    Node_ancestor_iter G fuel ff incl n
    = GDone (filter (pyf ff) ((if incl then [n] else []) ++ lancestors n)).
  Proof.
    intro Hf. unfold Node_ancestor_iter. cbv zeta.
    change (match ff with None => true | Some g => g n end) with (pyf ff n).
    destruct n as [t up]. unfold lancestors. simpl snd. unfold l_depth in Hf. simpl in Hf.
    rewrite anc_run by lia.
    destruct incl; simpl; [destruct (pyf ff (t, up))|]; reflexivity.
  Qed.

  (* ------------------------------------------------------------------ in-order *)
  Theorem inorder_iter_run (ff : option (lnode -> bool)) : forall (n : lnode) fuel,
    height (here n) <= fuel -> Node_inorder_iter G fuel ff n = linorder (pyf ff) n.
  Proof.
    induction n as [n IH] using lnode_ind. intros fuel Hf.
    destruct fuel as [|fuel]; [pose proof (height_pos (here n)); lia|].
    rewrite linorder_unfold. simpl Node_inorder_iter.
    change (attr_child_nodes G n) with (l_kids n).
    change (match ff with None => true | Some g => g n end) with (pyf ff n).
    rewrite py_len_eq0.
    destruct (l_kids n) as [|a [|b [|c r]]] eqn:Ek.
    - simpl. destruct (pyf ff n); reflexivity.
    - reflexivity.
    - assert (Ha : height (here a) <= fuel).
      { assert (In a (l_kids n)) as Hi by (rewrite Ek; left; reflexivity). apply l_kids_height in Hi. lia. }
      assert (Hb : height (here b) <= fuel).
      { assert (In b (l_kids n)) as Hi by (rewrite Ek; right; left; reflexivity). apply l_kids_height in Hi. lia. }
      inversion IH as [|? ? IHa IH2]; subst. inversion IH2 as [|? ? IHb _]; subst.
      change (py_is_empty [a; b]) with false. change (Z.eqb (py_len [a; b]) 2) with true. cbv iota.
      change (py_index [a; b] 0) with (Some a). change (py_index [a; b] 1) with (Some b). cbv iota.
      rewrite !gflat_map_singleton, IHa, IHb by assumption.
      destruct (pyf ff n); [reflexivity|]. rewrite gprepend_nil. reflexivity.
    - change (py_is_empty (a :: b :: c :: r)) with false. cbv iota.
      replace (Z.eqb (py_len (a :: b :: c :: r)) 2) with false; [reflexivity|].
      symmetry. apply Z.eqb_neq. unfold py_len. simpl length. lia.
  Qed.

  Lemma linorder_binary (f : lnode -> bool) : forall n,
    is_binary (here n) = true -> linorder f n = GDone (filter f (linorder_list n)).
  Proof.
    induction n as [n IH] using lnode_ind. intro Hb.
    rewrite linorder_unfold, linorder_list_unfold.
    pose proof (l_kids_here n) as Hk. destruct n as [[i x l e ks] up]. simpl here in *. simpl t_kids in Hk.
    destruct (l_kids (T i x l e ks, up)) as [|a [|b [|c r]]]; simpl in Hk; subst ks; simpl in Hb; try discriminate.
    - reflexivity.
    - apply andb_true_iff in Hb. destruct Hb as [Ba Bb].
      inversion IH as [|? ? IHa IH2]; subst. inversion IH2 as [|? ? IHb _]; subst.
      rewrite (IHa Ba), (IHb Bb). simpl. rewrite filter_app. simpl filter.
      destruct (f (T i x l e [here a; here b], up)); reflexivity.
  Qed.

  Lemma linorder_not_binary (f : lnode -> bool) : forall n,
    is_binary (here n) = false -> exists out, linorder f n = GRaise out TypeErr.
  Proof.
    induction n as [n IH] using lnode_ind. intro Hb.
    rewrite linorder_unfold.
    pose proof (l_kids_here n) as Hk. destruct n as [[i x l e ks] up]. simpl here in *. simpl t_kids in Hk.
    destruct (l_kids (T i x l e ks, up)) as [|a [|b [|c r]]]; simpl in Hk; subst ks; simpl in Hb; try discriminate.
    - eexists; reflexivity.
    - inversion IH as [|? ? IHa IH2]; subst. inversion IH2 as [|? ? IHb _]; subst.
      destruct (is_binary (here a)) eqn:Ba.
      + rewrite (linorder_binary f a Ba). simpl in Hb. destruct (IHb Hb) as [o Eo]. rewrite Eo.
        simpl. eexists; reflexivity.
      + destruct (IHa eq_refl) as [o Eo]. rewrite Eo. simpl. eexists; reflexivity.
    - eexists; reflexivity.
  Qed.
End Machines.
