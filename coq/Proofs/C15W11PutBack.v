(* C15 wave 11: the put-back step  kids = n.child_nodes(); edits; n.set_child_nodes(kids)  (SKids n es true).

   The edits of Model/C15World.v add only NEW nodes (EAppend / EInsert run Node() first: new_node refuses an id
   the store already has), and otherwise reorder / drop (EPop, EReverse, EClear).  Part 1: what the step does
   to the store.  Part 2 (C15W11PutBack, below): winv is preserved when n sits in a live tree; the children
   the caller dropped leave the live tree with their subtrees (they keep a stale parent pointer to n: they
   are orphans, which winv does not track). *)
From Coq Require Import ZArith List Bool Arith Lia.
From DV Require Import Model.PyPrims Model.Tree Model.C15Prims Model.C15WorldPrims
     Gen.Traversals Gen.TraversalsObj Model.C15Model Model.C15World
     Proofs.C15Base Proofs.C15Proofs Proofs.C15Apply Proofs.C15Order Proofs.C15Edges Proofs.C15Final
     Proofs.C15WorldProofs Proofs.C15Refused Proofs.C15W9Sim Proofs.C15W9Store Proofs.C15W10Build Proofs.C15W10Steps.
Import ListNotations.
Open Scope Z_scope.

(* ---- the edit phase ---- *)
(* s0: the store before the step, K: n's children there, l: the caller's copy, s: the store now *)
Definition einv (s0 : store) (K : list Z) (l : Z) (s : store) : Prop :=
  sok s /\ ext s0 s /\ priv s l /\
  (exists c, list_of s l = Some c /\ NoDup c /\ forall y, In y c -> dom s y /\ (In y K \/ ~ dom s0 y)) /\
  (forall y, dom s y -> ~ dom s0 y -> kids_of s y = [] /\ parent_of s y = None).

Lemma l_put_more s l c s1 : l_put l c s = Ok (tt, s1) ->
  list_of s1 l = Some c /\ forall y, node_of s1 y = node_of s y.
Proof.
  unfold l_put. destruct (list_of s l); [|discriminate]. intro H. inversion H; subst s1. split; [|reflexivity].
  unfold list_of, set_lists. simpl. rewrite alookup_aset, Z.eqb_refl. reflexivity.
Qed.

Lemma einv_put s0 K l s c' s1 : einv s0 K l s ->
  NoDup c' -> (forall y, In y c' -> dom s y /\ (In y K \/ ~ dom s0 y)) ->
  l_put l c' s = Ok (tt, s1) -> einv s0 K l s1.
Proof.
  intros [So [E [P [_ Fr]]]] N I H.
  destruct (l_put_priv s l c' s1 So P H) as [So1 [E1 [P1 _]]].
  destruct (l_put_more s l c' s1 H) as [L1 N1].
  assert (D1 : forall y, dom s1 y <-> dom s y) by (intro y; unfold dom; rewrite N1; tauto).
  split; [exact So1|split; [exact (ext_trans _ _ _ E E1)|split; [exact P1|split]]].
  - exists c'. split; [exact L1|split; [exact N|]]. intros y Hy. destruct (I y Hy) as [A B]. split; [apply D1; exact A|exact B].
  - intros y Dy Fy. apply D1 in Dy. destruct E1 as [_ E1]. destruct (E1 y Dy) as [_ [Ky Py]]. rewrite Ky, Py. exact (Fr y Dy Fy).
Qed.

Lemma new_node_lists s x s1 l c : new_node x s = Ok (tt, s1) -> list_of s l = Some c -> list_of s1 l = Some c.
Proof.
  unfold new_node. destruct (node_of s x); [discriminate|]. intros H L. inversion H; subst s1.
  unfold list_of. simpl. rewrite alookup_app. fold (list_of s l). rewrite L. reflexivity.
Qed.

Lemma einv_new s0 K l s x s1 : einv s0 K l s -> new_node x s = Ok (tt, s1) ->
  einv s0 K l s1 /\ dom s1 x /\ ~ dom s0 x /\ (forall y, dom s y -> dom s1 y) /\
  exists c, list_of s1 l = Some c /\ list_of s l = Some c /\ ~ In x c.
Proof.
  intros [So [E [P [[c [Lc [Nc Ic]]] Fr]]]] H.
  destruct (new_node_inv s x s1 So H) as [Fx [So1 [E1 [_ [D1 [Kx [Px PP]]]]]]].
  pose proof (new_node_lists s x s1 l c H Lc) as L1.
  assert (F0 : ~ dom s0 x).
  { intro D0. apply Fx. destruct E as [_ E]. exact (proj1 (E x D0)). }
  split; [|split; [apply D1; right; reflexivity|split; [exact F0|split; [intros y Dy; apply D1; left; exact Dy|]]]].
  - split; [exact So1|split; [exact (ext_trans _ _ _ E E1)|split; [exact (PP l P)|split]]].
    + exists c. split; [exact L1|split; [exact Nc|]]. intros y Hy. destruct (Ic y Hy) as [A B].
      split; [apply D1; left; exact A|exact B].
    + intros y Dy Fy. apply D1 in Dy. destruct Dy as [Dy|Ey].
      * destruct E1 as [_ E1]. destruct (E1 y Dy) as [_ [Ky Py]]. rewrite Ky, Py. exact (Fr y Dy Fy).
      * subst y. split; assumption.
  - exists c. split; [exact L1|split; [exact Lc|]]. intro Hx. exact (Fx (proj1 (Ic x Hx))).
Qed.

Lemma pop_sub {A} (c : list A) : forall i y, In y (firstn i c ++ skipn (S i) c) -> In y c.
Proof.
  induction c as [|h r IH]; intros i y H.
  - destruct i; simpl in H; exact H.
  - destruct i as [|j]; simpl in H; [right; exact H|]. destruct H as [H|H]; [left; exact H|right; exact (IH j y H)].
Qed.

Lemma pop_NoDup {A} (c : list A) : forall i, NoDup c -> NoDup (firstn i c ++ skipn (S i) c).
Proof.
  induction c as [|h r IH]; intros i N.
  - destruct i; simpl; constructor.
  - inversion N as [|? ? Hh Nr]; subst. destruct i as [|j]; simpl; [exact Nr|].
    constructor; [|exact (IH j Nr)]. intro F. exact (Hh (pop_sub r j h F)).
Qed.

Lemma insert_in {A} (x : A) c i y : In y (firstn i c ++ x :: skipn i c) <-> y = x \/ In y c.
Proof.
  rewrite in_app_iff. simpl. rewrite <- (firstn_skipn i c) at 3. rewrite in_app_iff. intuition congruence.
Qed.

Lemma insert_NoDup {A} (x : A) c i : NoDup c -> ~ In x c -> NoDup (firstn i c ++ x :: skipn i c).
Proof.
  intros N Hx. rewrite <- (firstn_skipn i c) in N, Hx.
  destruct (NoDup_app_inv _ _ N) as [Na [Nb Dis]].
  apply NoDup_app_intro; [exact Na|constructor; [intro F; apply Hx; apply in_or_app; right; exact F|exact Nb]|].
  intros y Hy F. destruct F as [F|F]; [subst y; apply Hx; apply in_or_app; left; exact Hy|exact (Dis y Hy F)].
Qed.

Lemma apply_edit_einv s0 K l e s s1 : einv s0 K l s -> apply_edit l e s = Ok (tt, s1) -> einv s0 K l s1.
Proof.
  intros P H. destruct e as [x|i x|i| |]; simpl in H.
  - apply mbind_inv in H. destruct H as [[] [sa [Ha H]]].
    destruct (einv_new _ _ _ _ _ _ P Ha) as [Pa [Dx [F0 [_ [c [Lc [_ Hx]]]]]]].
    unfold l_append in H. apply mbind_inv in H. destruct H as [c1 [sb [Hb H]]].
    pose proof (l_contents_inv _ _ _ _ Hb). subst sb. unfold l_contents in Hb. rewrite Lc in Hb. inversion Hb; subst c1. clear Hb.
    destruct Pa as [Q1 [Q2 [Q3 [[c2 [Lc2 [Nc Ic]]] Q5]]]]. rewrite Lc in Lc2. inversion Lc2; subst c2. clear Lc2.
    apply (einv_put s0 K l sa (c ++ [x]) s1); [split; [exact Q1|split; [exact Q2|split; [exact Q3|split; [exists c; auto|exact Q5]]]]| | |exact H].
    + apply NoDup_app_intro; [exact Nc|constructor; [intros []|constructor]|]. intros y Hy [F|[]]. subst y. exact (Hx Hy).
    + intros y Hy. apply in_app_or in Hy. destruct Hy as [Hy|[Hy|[]]]; [exact (Ic y Hy)|]. subst y. split; [exact Dx|right; exact F0].
  - apply mbind_inv in H. destruct H as [[] [sa [Ha H]]].
    destruct (einv_new _ _ _ _ _ _ P Ha) as [Pa [Dx [F0 [_ [c [Lc [_ Hx]]]]]]].
    apply mbind_inv in H. destruct H as [c1 [sb [Hb H]]].
    pose proof (l_contents_inv _ _ _ _ Hb). subst sb. unfold l_contents in Hb. rewrite Lc in Hb. inversion Hb; subst c1. clear Hb.
    destruct Pa as [Q1 [Q2 [Q3 [[c2 [Lc2 [Nc Ic]]] Q5]]]]. rewrite Lc in Lc2. inversion Lc2; subst c2. clear Lc2.
    apply (einv_put s0 K l sa (firstn i c ++ x :: skipn i c) s1); [split; [exact Q1|split; [exact Q2|split; [exact Q3|split; [exists c; auto|exact Q5]]]]| | |exact H].
    + apply insert_NoDup; assumption.
    + intros y Hy. apply insert_in in Hy. destruct Hy as [Hy|Hy]; [|exact (Ic y Hy)]. subst y. split; [exact Dx|right; exact F0].
  - apply mbind_inv in H. destruct H as [c1 [sb [Hb H]]].
    pose proof (l_contents_inv _ _ _ _ Hb). subst sb. pose proof P as [_ [_ [_ [[c [Lc [Nc Ic]]] _]]]].
    unfold l_contents in Hb. rewrite Lc in Hb. inversion Hb; subst c1. clear Hb.
    change (l_put l (firstn i c ++ skipn (S i) c) s = Ok (tt, s1)) in H.
    apply (einv_put s0 K l s (firstn i c ++ skipn (S i) c) s1 P); [apply pop_NoDup; exact Nc| |exact H].
    intros y Hy. apply Ic. exact (pop_sub c i y Hy).
  - apply mbind_inv in H. destruct H as [c1 [sb [Hb H]]].
    pose proof (l_contents_inv _ _ _ _ Hb). subst sb. pose proof P as [_ [_ [_ [[c [Lc [Nc Ic]]] _]]]].
    unfold l_contents in Hb. rewrite Lc in Hb. inversion Hb; subst c1. clear Hb.
    apply (einv_put s0 K l s (rev c) s1 P); [apply NoDup_rev; exact Nc| |exact H].
    intros y Hy. apply Ic. apply in_rev. exact Hy.
  - unfold l_clear in H. apply (einv_put s0 K l s [] s1 P); [constructor|intros y []|exact H].
Qed.

Lemma apply_edits_einv s0 K l : forall es s s1, einv s0 K l s -> apply_edits l es s = Ok (tt, s1) -> einv s0 K l s1.
Proof.
  induction es as [|e r IH]; intros s s1 P H; simpl in H.
  - unfold ret in H. inversion H; subst. exact P.
  - apply mbind_inv in H. destruct H as [[] [sa [Ha H]]]. exact (IH sa s1 (apply_edit_einv _ _ _ _ _ _ P Ha) H).
Qed.

(* child_nodes() hands out a copy holding n's children *)
Lemma child_nodes_contents s n l s1 : sok s -> Node_child_nodes_obj n s = Ok (l, s1) ->
  dom s n /\ list_of s1 l = Some (kids_of s n) /\ forall y, node_of s1 y = node_of s y.
Proof.
  intros [S1 [S2 S3]] H. unfold Node_child_nodes_obj in H.
  apply mbind_inv in H. destruct H as [v1 [sa [Ha H]]].
  unfold o_child_list in Ha. destruct (node_of s n) as [rn|] eqn:En; [|discriminate]. inversion Ha; subst v1 sa. clear Ha.
  apply mbind_inv in H. destruct H as [v2 [sb [Hb H]]].
  unfold l_copy in Hb. destruct (list_of s (n_kids rn)) as [c0|] eqn:Ec; [|discriminate]. inversion Hb; subst v2 sb. clear Hb.
  unfold ret in H. inversion H; subst l s1. clear H.
  split; [unfold dom; rewrite En; discriminate|split; [|reflexivity]].
  unfold kids_of. rewrite En, Ec. unfold list_of. simpl. rewrite alookup_app. fold (list_of s (s_next s)).
  destruct (list_of s (s_next s)) eqn:E; [apply S2 in E; lia|]. simpl. rewrite Z.eqb_refl. reflexivity.
Qed.

(* ---- set_child_nodes ---- *)
Lemma clear_spec s n s1 : sok s -> Node_clear_child_nodes_obj n s = Ok (tt, s1) ->
  sok s1 /\ s_trees s1 = s_trees s /\ (forall y, dom s1 y <-> dom s y) /\ kids_of s1 n = [] /\
  (forall y, y <> n -> kids_of s1 y = kids_of s y) /\ (forall y, parent_of s1 y = parent_of s y) /\
  (forall l, priv s l -> list_of s1 l = list_of s l).
Proof.
  intros [S1 [S2 S3]] H. unfold Node_clear_child_nodes_obj in H.
  apply mbind_inv in H. destruct H as [v1 [sa [Ha H]]].
  unfold o_child_list in Ha. destruct (node_of s n) as [rn|] eqn:En; [|discriminate]. inversion Ha; subst v1 sa. clear Ha.
  unfold l_clear, l_put in H. destruct (list_of s (n_kids rn)) as [c0|] eqn:Ec; [|discriminate]. inversion H; subst s1. clear H.
  set (s1 := set_lists s _).
  assert (N : forall y, node_of s1 y = node_of s y) by reflexivity.
  assert (L : forall l', list_of s1 l' = if Z.eqb l' (n_kids rn) then Some [] else list_of s l').
  { intro l'. unfold list_of, s1, set_lists. simpl. apply alookup_aset. }
  split; [|split; [reflexivity|split; [intro y; unfold dom; rewrite N; tauto|split; [|split; [|split]]]]].
  - split; [|split].
    + intros y r. rewrite N. intro Hy. destruct (S1 y r Hy) as [A B]. split; [exact A|]. rewrite L.
      destruct (Z.eqb (n_kids r) (n_kids rn)); [discriminate|exact B].
    + intros l' c'. rewrite L. destruct (Z.eqb l' (n_kids rn)) eqn:E; [|apply S2].
      apply Z.eqb_eq in E. subst l'. intros _. exact (S2 _ c0 Ec).
    + intros a b ra rb. rewrite !N. apply S3.
  - unfold kids_of. rewrite N, En, L, Z.eqb_refl. reflexivity.
  - intros y Hy. unfold kids_of. rewrite N. destruct (node_of s y) as [r|] eqn:Ey; [|reflexivity]. rewrite L.
    destruct (Z.eqb (n_kids r) (n_kids rn)) eqn:E; [|reflexivity]. apply Z.eqb_eq in E. exfalso. apply Hy.
    exact (S3 y n r rn Ey En E).
  - intro y. unfold parent_of. rewrite N. reflexivity.
  - intros l [_ P2]. rewrite L. destruct (Z.eqb l (n_kids rn)) eqn:E; [|reflexivity]. apply Z.eqb_eq in E.
    exfalso. exact (P2 n rn En (eq_sym E)).
Qed.

Lemma add_child_ok_inv i k s r : Node_add_child_obj i k s = Ok r -> k <> i /\ parent_of s i <> Some k /\ dom s i.
Proof.
  unfold Node_add_child_obj. destruct (Z.eqb k i) eqn:E; simpl; [discriminate|]. apply Z.eqb_neq in E.
  unfold mbind at 1. unfold o_get_parent, parent_of, dom. destruct (node_of s i) as [ri|]; [|discriminate].
  destruct (opt_is (n_parent ri) k) eqn:O; simpl; [discriminate|]. intros _.
  split; [exact E|split; [|discriminate]]. intro F. rewrite F in O. simpl in O. rewrite Z.eqb_refl in O. discriminate.
Qed.

Lemma put_loop n : forall rest done s s1, sok s -> kids_of s n = done -> NoDup (done ++ rest) ->
  (forall y, In y rest -> dom s y) ->
  mfor rest (fun nd => mbind (Node_add_child_obj n nd) (fun _ => ret tt)) s = Ok (tt, s1) ->
  sok s1 /\ s_trees s1 = s_trees s /\ (forall y, dom s1 y <-> dom s y) /\ kids_of s1 n = done ++ rest /\
  (forall y, y <> n -> kids_of s1 y = kids_of s y) /\
  (forall y, In y rest -> parent_of s1 y = Some n) /\ (forall y, ~ In y rest -> parent_of s1 y = parent_of s y).
Proof.
  induction rest as [|k r IH]; intros done s s1 So Kd N D H; simpl in H.
  - unfold ret in H. inversion H; subst s1. rewrite app_nil_r.
    split; [exact So|split; [reflexivity|split; [tauto|split; [exact Kd|split; [reflexivity|split; [intros y []|reflexivity]]]]]].
  - apply mbind_inv in H. destruct H as [[] [sa [Ha H]]].
    apply mbind_inv in Ha. destruct Ha as [v [sa' [Ha Hr]]]. unfold ret in Hr. inversion Hr; subst sa'. clear Hr.
    destruct (add_child_ok_inv _ _ _ _ Ha) as [A1 [A2 A3]].
    assert (Hin : ~ In k (kids_of s n)).
    { rewrite Kd. intro F. apply NoDup_app_inv in N. destruct N as [_ [_ Dis]]. exact (Dis k F (or_introl eq_refl)). }
    destruct (add_child_spec s n k So A3 (D k (or_introl eq_refl)) A1 A2 Hin)
      as [sa' [E2 [So2 [T2 [_ [D2 [KO2 [KI2 [PO2 PK2]]]]]]]]].
    rewrite E2 in Ha. inversion Ha; subst v sa'. clear Ha.
    assert (N' : NoDup ((done ++ [k]) ++ r)) by (rewrite <- app_assoc; exact N).
    destruct (IH (done ++ [k]) sa s1 So2) as [So1 [T1 [D1 [K1 [KO1 [PI1 PO1]]]]]];
      [rewrite KI2, Kd; reflexivity|exact N'| |exact H|].
    { intros y Hy. apply D2. apply D. right. exact Hy. }
    assert (Hkr : ~ In k r).
    { apply NoDup_app_inv in N'. destruct N' as [_ [_ Dis]]. intro F. apply (Dis k); [apply in_or_app; right; left; reflexivity|exact F]. }
    split; [exact So1|split; [congruence|split; [intro y; rewrite D1; apply D2|split; [rewrite K1, <- app_assoc; reflexivity|split; [|split]]]]].
    + intros y Hy. rewrite (KO1 y Hy). exact (KO2 y Hy).
    + intros y [Hy|Hy]; [subst y; rewrite (PO1 k Hkr); exact PK2|exact (PI1 y Hy)].
    + intros y Hy. rewrite PO1; [|intro F; apply Hy; right; exact F]. apply PO2. intro F. apply Hy. left. symmetry. exact F.
Qed.

Lemma set_child_nodes_spec s n l c s1 : sok s -> priv s l -> list_of s l = Some c -> NoDup c ->
  (forall y, In y c -> dom s y) -> Node_set_child_nodes_obj n l s = Ok (tt, s1) ->
  sok s1 /\ s_trees s1 = s_trees s /\ (forall y, dom s1 y <-> dom s y) /\ kids_of s1 n = c /\
  (forall y, y <> n -> kids_of s1 y = kids_of s y) /\
  (forall y, In y c -> parent_of s1 y = Some n) /\ (forall y, ~ In y c -> parent_of s1 y = parent_of s y).
Proof.
  intros So P Lc Nc Dc H. unfold Node_set_child_nodes_obj in H.
  apply mbind_inv in H. destruct H as [[] [sa [Ha H]]].
  destruct (clear_spec s n sa So Ha) as [Soa [Ta [Da [Kn [KOa [POa LLa]]]]]].
  apply mbind_inv in H. destruct H as [c1 [sb [Hb H]]].
  pose proof (l_contents_inv _ _ _ _ Hb). subst sb. unfold l_contents in Hb. rewrite (LLa l P), Lc in Hb. inversion Hb; subst c1. clear Hb.
  destruct (put_loop n c [] sa s1 Soa Kn Nc) as [So1 [T1 [D1 [K1 [KO1 [PI1 PO1]]]]]]; [intros y Hy; apply Da; exact (Dc y Hy)|exact H|].
  split; [exact So1|split; [congruence|split; [intro y; rewrite D1; apply Da|split; [exact K1|split; [|split; [exact PI1|]]]]]].
  - intros y Hy. rewrite (KO1 y Hy). exact (KOa y Hy).
  - intros y Hy. rewrite (PO1 y Hy). apply POa.
Qed.

(* ---- the whole step on the store ---- *)
Theorem put_back_store_effect s n es s1 : sok s -> NoDup (kids_of s n) -> (forall y, In y (kids_of s n) -> dom s y) ->
  do_step (SKids n es true) s = Ok (tt, s1) ->
  exists c, sok s1 /\ s_trees s1 = s_trees s /\ dom s n /\ NoDup c /\
    (forall y, In y c -> In y (kids_of s n) \/ ~ dom s y) /\
    (forall y, dom s y -> dom s1 y) /\
    kids_of s1 n = c /\
    (forall y, dom s y -> y <> n -> kids_of s1 y = kids_of s y) /\
    (forall y, In y c -> dom s1 y /\ parent_of s1 y = Some n) /\
    (forall y, dom s y -> ~ In y c -> parent_of s1 y = parent_of s y) /\
    (forall y, In y c -> ~ dom s y -> kids_of s1 y = []).
Proof.
  intros So NK DK H. simpl in H.
  apply mbind_inv in H. destruct H as [l [sa [Ha H]]].
  destruct (child_nodes_spec s n l sa So Ha) as [Soa [Ea [Pa _]]].
  destruct (child_nodes_contents s n l sa So Ha) as [Dn [La Na]].
  apply mbind_inv in H. destruct H as [[] [sb [Hb H]]].
  assert (E0 : einv s (kids_of s n) l sa).
  { split; [exact Soa|split; [exact Ea|split; [exact Pa|split]]].
    - exists (kids_of s n). split; [exact La|split; [exact NK|]]. intros y Hy. split; [|left; exact Hy].
      destruct Ea as [_ Ea]. exact (proj1 (Ea y (DK y Hy))).
    - intros y Dy Fy. exfalso. apply Fy. unfold dom in *. rewrite <- Na. exact Dy. }
  destruct (apply_edits_einv s (kids_of s n) l es sa sb E0 Hb) as [Sob [[Tb Eb] [Pb [[c [Lc [Nc Ic]]] Frb]]]].
  destruct (set_child_nodes_spec sb n l c s1 Sob Pb Lc Nc (fun y Hy => proj1 (Ic y Hy)) H)
    as [So1 [T1 [D1 [K1 [KO1 [PI1 PO1]]]]]].
  exists c. split; [exact So1|split; [congruence|split; [exact Dn|split; [exact Nc|split; [|split; [|split; [exact K1|split; [|split; [|split]]]]]]]]].
  - intros y Hy. exact (proj2 (Ic y Hy)).
  - intros y Dy. apply D1. exact (proj1 (Eb y Dy)).
  - intros y Dy Hy. rewrite (KO1 y Hy). exact (proj1 (proj2 (Eb y Dy))).
  - intros y Hy. split; [apply D1; exact (proj1 (Ic y Hy))|exact (PI1 y Hy)].
  - intros y Dy Hy. rewrite (PO1 y Hy). exact (proj2 (proj2 (Eb y Dy))).
  - intros y Hy Fy. assert (y <> n) by (intro E; subst y; exact (Fy Dn)). rewrite (KO1 y H0).
    exact (proj1 (Frb y (proj1 (Ic y Hy)) Fy)).
Qed.

(* ---- the live tree after the step ---- *)
Definition pick (ks : list tree) (y : Z) : tree :=
  match find (fun k => Z.eqb (t_id k) y) ks with Some k => k | None => leafx y end.

Lemma pick_cases ks y : (exists k, In k ks /\ t_id k = y /\ pick ks y = k) \/
                        (~ In y (map t_id ks) /\ pick ks y = leafx y).
Proof.
  unfold pick. destruct (find (fun k => Z.eqb (t_id k) y) ks) as [k|] eqn:E.
  - left. apply find_some in E. destruct E as [A B]. apply Z.eqb_eq in B. exists k. auto.
  - right. split; [|reflexivity]. intro F. apply in_map_iff in F. destruct F as [k [Ek Hk]].
    pose proof (find_none _ _ E k Hk) as B. simpl in B. apply Z.eqb_neq in B. exact (B Ek).
Qed.

Lemma pick_id ks y : t_id (pick ks y) = y.
Proof. destruct (pick_cases ks y) as [[k [_ [E P]]]|[_ P]]; rewrite P; [exact E|reflexivity]. Qed.

Lemma ids_leafx y : ids (leafx y) = [y].
Proof. unfold leafx. rewrite ids_unfold. reflexivity. Qed.

Lemma in_ids_pick ks y z : In z (ids (pick ks y)) ->
  (exists k, In k ks /\ t_id k = y /\ In z (ids k)) \/ (z = y /\ ~ In y (map t_id ks)).
Proof.
  destruct (pick_cases ks y) as [[k [A [E P]]]|[A P]]; rewrite P.
  - intro H. left. exists k. auto.
  - rewrite ids_leafx. intros [H|[]]. right. split; [symmetry; exact H|exact A].
Qed.

Lemma forest_unique ks : NoDup (flat_map ids ks) -> forall k k' z, In k ks -> In k' ks ->
  In z (ids k) -> In z (ids k') -> k = k'.
Proof.
  induction ks as [|h r IH]; intros N k k' z Hk Hk' Hz Hz'; [destruct Hk|]. simpl in N.
  destruct (NoDup_app_inv _ _ N) as [_ [Nr Dis]].
  destruct Hk as [Hk|Hk], Hk' as [Hk'|Hk'].
  - congruence.
  - subst h. exfalso. apply (Dis z Hz). apply in_flat_map. exists k'. auto.
  - subst h. exfalso. apply (Dis z Hz'). apply in_flat_map. exists k. auto.
  - exact (IH Nr k k' z Hk Hk' Hz Hz').
Qed.

Section Rekid.
  Variables (n : Z) (c : list Z).

  Fixpoint rekid (t : tree) : tree :=
    match t with
    | T i a b cc ks => if Z.eqb i n then T i a b cc (map (pick ks) c) else T i a b cc (map rekid ks)
    end.

  Lemma rekid_id t : t_id (rekid t) = t_id t.
  Proof. destruct t; simpl. destruct (Z.eqb _ _); reflexivity. Qed.

  Variables s s1 : store.
  Hypothesis Dn : dom s n.
  Hypothesis Nc : NoDup c.
  Hypothesis Ic : forall y, In y c -> In y (kids_of s n) \/ ~ dom s y.
  Hypothesis PK : forall y, In y (kids_of s n) -> parent_of s y = Some n.
  Hypothesis KN : kids_of s1 n = c.
  Hypothesis KO : forall y, dom s y -> y <> n -> kids_of s1 y = kids_of s y.
  Hypothesis PC : forall y, In y c -> parent_of s1 y = Some n.
  Hypothesis PO : forall y, dom s y -> ~ In y c -> parent_of s1 y = parent_of s y.
  Hypothesis KF : forall y, In y c -> ~ dom s y -> kids_of s1 y = [].

  Definition fresh (z : Z) : Prop := In z c /\ ~ dom s z.

  (* the children of n after the step: kept subtrees in the caller's order, new nodes as leaves *)
  Lemma pick_forest ks : NoDup (flat_map ids ks) -> (forall z, In z (flat_map ids ks) -> dom s z) ->
    forall c', NoDup c' -> (forall y, In y c' -> In y (map t_id ks) \/ ~ dom s y) ->
    NoDup (flat_map ids (map (pick ks) c')).
  Proof.
    intros N D. induction c' as [|y r IH]; intros Nc' I'; simpl; [constructor|].
    inversion Nc' as [|? ? Hy Nr]; subst.
    apply NoDup_app_intro.
    - destruct (pick_cases ks y) as [[k [A [E P]]]|[A P]]; rewrite P.
      + exact (NoDup_flat_map_in ids ks k N A).
      + rewrite ids_leafx. constructor; [intros []|constructor].
    - apply IH; [exact Nr|]. intros y' Hy'. apply I'. right. exact Hy'.
    - intros z Hz F. apply in_flat_map in F. destruct F as [t' [Ht' Hz']]. apply in_map_iff in Ht'.
      destruct Ht' as [y' [Et' Hy']]. subst t'.
      assert (Hne : y <> y') by (intro E; subst y'; exact (Hy Hy')).
      apply in_ids_pick in Hz. apply in_ids_pick in Hz'.
      destruct Hz as [[k [A [E Z1]]]|[E A]], Hz' as [[k' [A' [E' Z2]]]|[E' A']].
      + pose proof (forest_unique ks N k k' z A A' Z1 Z2). subst k'. congruence.
      + subst z. destruct (I' y' (or_intror Hy')) as [B|B]; [exact (A' B)|]. apply B. apply D. apply in_flat_map. exists k. auto.
      + subst z. destruct (I' y (or_introl eq_refl)) as [B|B]; [exact (A B)|]. apply B. apply D. apply in_flat_map. exists k'. auto.
      + congruence.
  Qed.

  Lemma rekid_forest ks : NoDup (flat_map ids ks) -> (forall z, In z (flat_map ids ks) -> dom s z) ->
    (forall k, In k ks -> NoDup (ids (rekid k))) ->
    (forall k z, In k ks -> In z (ids (rekid k)) -> In z (ids k) \/ (fresh z /\ In n (ids k))) ->
    NoDup (flat_map ids (map rekid ks)).
  Proof.
    induction ks as [|k r IH]; intros N D NK MK; simpl; [constructor|]. simpl in N.
    destruct (NoDup_app_inv _ _ N) as [_ [Nr Dis]].
    apply NoDup_app_intro.
    - apply NK. left. reflexivity.
    - apply IH; [exact Nr| | |].
      + intros z Hz. apply D. simpl. apply in_or_app. right. exact Hz.
      + intros k' Hk'. apply NK. right. exact Hk'.
      + intros k' z Hk'. apply MK. right. exact Hk'.
    - intros z Hz F. apply in_flat_map in F. destruct F as [t' [Ht' Hz']]. apply in_map_iff in Ht'.
      destruct Ht' as [k' [Et' Hk']]. subst t'.
      assert (Sub : forall w, In w (ids k') -> In w (flat_map ids r)).
      { intros w Hw. apply in_flat_map. exists k'. auto. }
      apply (MK k z (or_introl eq_refl)) in Hz. apply (MK k' z (or_intror Hk')) in Hz'.
      destruct Hz as [Z1|[[_ Fz] Z1]], Hz' as [Z2|[[_ Fz'] Z2]].
      + exact (Dis z Z1 (Sub z Z2)).
      + apply Fz'. apply D. simpl. apply in_or_app. left. exact Z1.
      + apply Fz. apply D. simpl. apply in_or_app. right. exact (Sub z Z2).
      + exact (Dis n Z1 (Sub n Z2)).
  Qed.

  Lemma rekid_ok : forall t, grep s t -> (forall y, In y (ids t) -> dom s y) -> NoDup (ids t) ->
    grep s1 (rekid t) /\ NoDup (ids (rekid t)) /\
    (forall z, In z (ids (rekid t)) -> In z (ids t) \/ (fresh z /\ In n (ids t))).
  Proof.
    induction t as [i a b cc ks IH] using tree_ind'. intros G D N.
    inversion G as [? ? ? ? ? Gk GF]; subst. rewrite Forall_forall in GF, IH.
    rewrite ids_unfold in N. inversion N as [|? ? Hi Nk]; subst.
    assert (Di : dom s i) by (apply D; rewrite ids_unfold; left; reflexivity).
    assert (Dk : forall z, In z (flat_map ids ks) -> dom s z) by (intros z Hz; apply D; rewrite ids_unfold; right; exact Hz).
    cbn [rekid]. destruct (Z.eqb i n) eqn:E.
    - apply Z.eqb_eq in E. subst i.
      assert (I' : forall y, In y c -> In y (map t_id ks) \/ ~ dom s y) by (intros y Hy; rewrite <- Gk; exact (Ic y Hy)).
      assert (M : forall z, In z (flat_map ids (map (pick ks) c)) -> In z (flat_map ids ks) \/ fresh z).
      { intros z Hz. apply in_flat_map in Hz. destruct Hz as [t' [Ht' Hz]]. apply in_map_iff in Ht'.
        destruct Ht' as [y [Et' Hy]]. subst t'. apply in_ids_pick in Hz. destruct Hz as [[k [A [Ey Z1]]]|[Ez A]].
        - left. apply in_flat_map. exists k. auto.
        - right. subst z. split; [exact Hy|]. destruct (I' y Hy) as [B|B]; [contradiction|exact B]. }
      split; [|split].
      + constructor.
        * rewrite KN, map_map. rewrite (map_ext _ _ (pick_id ks)), map_id. reflexivity.
        * rewrite Forall_forall. intros t' Ht'. apply in_map_iff in Ht'. destruct Ht' as [y [Et' Hy]]. subst t'.
          rewrite pick_id. split; [exact (PC y Hy)|].
          destruct (pick_cases ks y) as [[k [A [Ey P]]]|[A P]]; rewrite P.
          -- destruct (GF k A) as [_ Gk'].
             assert (Sub : forall z, In z (ids k) -> In z (flat_map ids ks)) by (intros z Hz; apply in_flat_map; exists k; auto).
             apply (grep_frame s s1 k Gk').
             ++ intros z Hz. apply KO; [apply Dk; exact (Sub z Hz)|]. intro F. subst z. exact (Hi (Sub n Hz)).
             ++ intros z Hz. assert (Hzk : In z (ids k)) by (rewrite ids_head; right; exact Hz).
                apply PO; [apply Dk; exact (Sub z Hzk)|]. intro F.
                destruct (I' z F) as [B|B]; [|apply B; apply Dk; exact (Sub z Hzk)].
                apply in_map_iff in B. destruct B as [k' [Ek' Hk']].
                assert (k' = k).
                { apply (forest_unique ks Nk k' k z Hk' A); [rewrite ids_head; left; exact Ek'|exact Hzk]. }
                subst k'. pose proof (NoDup_flat_map_in ids ks k Nk A) as Nk1. rewrite ids_head in Nk1.
                inversion Nk1 as [|? ? Hh _]. apply Hh. rewrite Ek'. exact Hz.
          -- destruct (I' y Hy) as [B|B]; [contradiction|]. unfold leafx. constructor; [exact (KF y Hy B)|constructor].
      + rewrite ids_unfold. constructor.
        * intro F. destruct (M n F) as [B|[_ B]]; [exact (Hi B)|exact (B Dn)].
        * exact (pick_forest ks Nk Dk c Nc I').
      + intros z. rewrite !ids_unfold. intros [Hz|Hz]; [left; left; exact Hz|].
        destruct (M z Hz) as [B|B]; [left; right; exact B|right; split; [exact B|left; reflexivity]].
    - apply Z.eqb_neq in E.
      assert (IHk : forall k, In k ks -> grep s1 (rekid k) /\ NoDup (ids (rekid k)) /\
                (forall z, In z (ids (rekid k)) -> In z (ids k) \/ (fresh z /\ In n (ids k)))).
      { intros k Hk. apply (IH k Hk); [exact (proj2 (GF k Hk))| |exact (NoDup_flat_map_in ids ks k Nk Hk)].
        intros y Hy. apply Dk. apply in_flat_map. exists k. auto. }
      assert (M : forall z, In z (flat_map ids (map rekid ks)) -> In z (flat_map ids ks) \/ (fresh z /\ In n (flat_map ids ks))).
      { intros z Hz. apply in_flat_map in Hz. destruct Hz as [t' [Ht' Hz]]. apply in_map_iff in Ht'.
        destruct Ht' as [k [Et' Hk]]. subst t'. destruct (proj2 (proj2 (IHk k Hk)) z Hz) as [B|[B1 B2]].
        - left. apply in_flat_map. exists k. auto.
        - right. split; [exact B1|]. apply in_flat_map. exists k. auto. }
      split; [|split].
      + constructor.
        * rewrite (KO i Di E), Gk, map_map. apply map_ext. intro k. symmetry. apply rekid_id.
        * rewrite Forall_forall. intros t' Ht'. apply in_map_iff in Ht'. destruct Ht' as [k [Et' Hk]]. subst t'.
          rewrite rekid_id. split; [|exact (proj1 (IHk k Hk))].
          destruct (GF k Hk) as [Pk _]. rewrite PO; [exact Pk| |].
          -- apply Dk. apply in_flat_map. exists k. split; [exact Hk|]. rewrite ids_head. left. reflexivity.
          -- intro F. destruct (Ic _ F) as [B|B].
             ++ apply PK in B. rewrite Pk in B. inversion B. exact (E H0).
             ++ apply B. apply Dk. apply in_flat_map. exists k. split; [exact Hk|]. rewrite ids_head. left. reflexivity.
      + rewrite ids_unfold. constructor.
        * intro F. destruct (M i F) as [B|[[_ B] _]]; [exact (Hi B)|exact (B Di)].
        * apply (rekid_forest ks Nk Dk); [intros k Hk; exact (proj1 (proj2 (IHk k Hk)))|].
          intros k z Hk. exact (proj2 (proj2 (IHk k Hk)) z).
      + intros z. rewrite !ids_unfold. intros [Hz|Hz]; [left; left; exact Hz|].
        destruct (M z Hz) as [B|[B1 B2]]; [left; right; exact B|right; split; [exact B1|right; exact B2]].
  Qed.
End Rekid.

(* ---- the step preserves winv ---- *)
(* what winv says about a node of a live tree *)
Lemma live_node_facts s n : winv s -> in_live_tree s n ->
  dom s n /\ NoDup (kids_of s n) /\
  forall y, In y (kids_of s n) -> dom s y /\ parent_of s y = Some n /\ y <> n.
Proof.
  intros [So [F [T [L N]]]] [seed [Hseed Hn]].
  rewrite T in Hseed. apply in_map_iff in Hseed. destruct Hseed as [t0 [Et0 Ht0]]. subst seed.
  rewrite Forall_forall in L, N.
  destruct (live_wf_store s t0 (L t0 Ht0) (N t0 Ht0)) as [_ EI]. rewrite EI in Hn. clear EI.
  destruct (L t0 Ht0) as [G0 [P0 D0]].
  destruct (subtree_exists n t0 Hn) as [u [Su Eu]].
  pose proof (subtree_grep s u t0 Su G0) as Gu.
  pose proof (subtree_NoDup u t0 Su (N t0 Ht0)) as Nu.
  pose proof (subtree_ids u t0 Su) as Iu.
  destruct u as [i a b cc ks]. simpl in Eu. subst i.
  inversion Gu as [? ? ? ? ? Gk GF]; subst. rewrite ids_unfold in Nu. inversion Nu as [|? ? Hi Nk]; subst.
  split; [exact (D0 n Hn)|split; [rewrite Gk; exact (NoDup_kid_ids ks Nk)|]].
  intros y Hy. rewrite Gk in Hy. split; [|split].
  - apply D0. apply Iu. rewrite ids_unfold. right. exact (kid_ids_sub ks y Hy).
  - apply in_map_iff in Hy. destruct Hy as [k [Ek Hk]]. subst y. rewrite Forall_forall in GF. exact (proj1 (GF k Hk)).
  - intro E. subst y. exact (Hi (kid_ids_sub ks n Hy)).
Qed.

(* kids = n.child_nodes(); append / insert NEW nodes, pop, reverse, clear; n.set_child_nodes(kids), for a node n
   of a live tree: every live tree is still a well-formed tree.  In n's tree the children of n are now the
   kept children (with their subtrees) in the caller's order and the new nodes as leaves. *)
Theorem step_put_back_preserves s n es s1 : winv s -> in_live_tree s n ->
  do_step (SKids n es true) s = Ok (tt, s1) -> winv s1.
Proof.
  intros W Hl H. destruct (live_node_facts s n W Hl) as [_ [NK FK]].
  destruct W as [So [F [T [L N]]]]. rewrite Forall_forall in L, N.
  destruct (put_back_store_effect s n es s1 So NK (fun y Hy => proj1 (FK y Hy)) H)
    as [c [So1 [T1 [Dn [Nc [Ic [DD [KN [KO [PC [PO KF]]]]]]]]]]].
  assert (PK : forall y, In y (kids_of s n) -> parent_of s y = Some n) by (intros y Hy; exact (proj1 (proj2 (FK y Hy)))).
  assert (PC' : forall y, In y c -> parent_of s1 y = Some n) by (intros y Hy; exact (proj2 (PC y Hy))).
  pose proof (rekid_ok n c s s1 Dn Nc Ic PK KN KO PC' PO KF) as RK.
  split; [exact So1|]. exists (map (rekid n c) F). split; [|split].
  - rewrite T1, T, map_map. apply map_ext. intro t. symmetry. apply rekid_id.
  - rewrite Forall_forall. intros t' Ht'. apply in_map_iff in Ht'. destruct Ht' as [t [Et Ht]]. subst t'.
    destruct (L t Ht) as [G [P D]]. destruct (RK t G D (N t Ht)) as [G1 [N1 M1]].
    assert (Dr : dom s (t_id t)) by (apply D; rewrite ids_head; left; reflexivity).
    split; [exact G1|split].
    + rewrite rekid_id. rewrite PO; [exact P|exact Dr|].
      intro Fc. destruct (Ic _ Fc) as [B|B]; [apply PK in B; rewrite P in B; discriminate|exact (B Dr)].
    + intros y Hy. destruct (M1 y Hy) as [B|[[B _] _]]; [exact (DD y (D y B))|exact (proj1 (PC y B))].
  - rewrite Forall_forall. intros t' Ht'. apply in_map_iff in Ht'. destruct Ht' as [t [Et Ht]]. subst t'.
    destruct (L t Ht) as [G [P D]]. exact (proj1 (proj2 (RK t G D (N t Ht)))).
Qed.

(* a node whose parent pointer names a node that does not list it is in no live tree *)
Lemma stale_parent_not_live s d p : winv s -> parent_of s d = Some p -> ~ In d (kids_of s p) -> ~ in_live_tree s d.
Proof.
  intros [So [F [T [L N]]]] Pd Kd [seed [Hseed Hn]].
  rewrite T in Hseed. apply in_map_iff in Hseed. destruct Hseed as [t0 [Et0 Ht0]]. subst seed.
  rewrite Forall_forall in L, N.
  destruct (live_wf_store s t0 (L t0 Ht0) (N t0 Ht0)) as [_ EI]. rewrite EI in Hn. clear EI.
  destruct (L t0 Ht0) as [G0 [P0 D0]].
  destruct (subtree_exists d t0 Hn) as [u [Su Eu]].
  destruct (subtree_parent2 s u t0 Su G0 (N t0 Ht0)) as [E|[q [Pq [_ [Kq _]]]]].
  - subst u. rewrite Eu in P0. rewrite P0 in Pd. discriminate.
  - rewrite Eu in Pq, Kq. rewrite Pq in Pd. inversion Pd; subst q. exact (Kd Kq).
Qed.

(* the children the caller dropped: they are in no live tree any more; they keep their own children and a
   stale parent pointer to n (set_child_nodes -> clear_child_nodes does not reset it) *)
Theorem put_back_dropped_children s n es s1 : winv s -> in_live_tree s n ->
  do_step (SKids n es true) s = Ok (tt, s1) ->
  forall d, In d (kids_of s n) -> ~ In d (kids_of s1 n) ->
    ~ in_live_tree s1 d /\ dom s1 d /\ parent_of s1 d = Some n /\ kids_of s1 d = kids_of s d.
Proof.
  intros W Hl H d Hd Hnd. pose proof (step_put_back_preserves s n es s1 W Hl H) as W1.
  destruct (live_node_facts s n W Hl) as [_ [NK FK]]. destruct W as [So _].
  destruct (put_back_store_effect s n es s1 So NK (fun y Hy => proj1 (FK y Hy)) H)
    as [c [So1 [T1 [Dn [Nc [Ic [DD [KN [KO [PC [PO KF]]]]]]]]]]].
  destruct (FK d Hd) as [Dd [Pd Hdn]]. rewrite KN in Hnd.
  assert (P1 : parent_of s1 d = Some n) by (rewrite (PO d Dd Hnd); exact Pd).
  split; [|split; [exact (DD d Dd)|split; [exact P1|exact (KO d Dd Hdn)]]].
  apply (stale_parent_not_live s1 d n W1 P1). rewrite KN. exact Hnd.
Qed.

(* the children the caller kept or added are the children of n afterwards, in the caller's order *)
Theorem put_back_children s n es s1 : winv s -> in_live_tree s n ->
  do_step (SKids n es true) s = Ok (tt, s1) ->
  NoDup (kids_of s1 n) /\
  forall y, In y (kids_of s1 n) -> parent_of s1 y = Some n /\
    ((In y (kids_of s n) /\ kids_of s1 y = kids_of s y) \/ (~ dom s y /\ kids_of s1 y = [])).
Proof.
  intros W Hl H. destruct (live_node_facts s n W Hl) as [_ [NK FK]]. destruct W as [So _].
  destruct (put_back_store_effect s n es s1 So NK (fun y Hy => proj1 (FK y Hy)) H)
    as [c [So1 [T1 [Dn [Nc [Ic [DD [KN [KO [PC [PO KF]]]]]]]]]]].
  rewrite KN. split; [exact Nc|]. intros y Hy. split; [exact (proj2 (PC y Hy))|].
  destruct (Ic y Hy) as [B|B]; [left|right; split; [exact B|exact (KF y Hy B)]].
  split; [exact B|]. destruct (FK y B) as [Dy [_ Hyn]]. exact (KO y Dy Hyn).
Qed.

(* ---- covered steps and reachable worlds, extended with the put-back step ---- *)
Definition covered_ext (s : store) (st : step) : Prop :=
  match st with
  | SKids n _ true => in_live_tree s n       (* copy edited (new nodes added / reordered / dropped) and put back *)
  | _ => covered s st
  end.

Theorem covered_ext_step_preserves s st s' : winv s -> covered_ext s st -> step_to s st s' -> winv s'.
Proof.
  intros W C H. destruct st as [n es [|]|n|k0 n|? ?|n x|n|t|k p n];
    try exact (covered_step_preserves s _ s' W C H).
  unfold step_to in H. destruct (do_step (SKids n es true) s) as [[[] s1]| |] eqn:E; try contradiction. subst s'.
  exact (step_put_back_preserves s n es s1 W C E).
Qed.

Inductive reachable_ext : store -> Prop :=
| reach_ext_built ts s : NoDup (flat_map ids ts) -> build_world ts empty_store = Ok (tt, s) -> reachable_ext s
| reach_ext_step s st s' : reachable_ext s -> covered_ext s st -> step_to s st s' -> reachable_ext s'.

Lemma covered_covered_ext s st : covered s st -> covered_ext s st.
Proof. destruct st as [n es [|]|n|k0 n|? ?|n x|n|t|k p n]; simpl; tauto. Qed.

Theorem reachable_reachable_ext s : reachable s -> reachable_ext s.
Proof.
  induction 1 as [ts s N E|s st s' _ IH C H]; [exact (reach_ext_built ts s N E)|].
  exact (reach_ext_step s st s' IH (covered_covered_ext s st C) H).
Qed.

Theorem reachable_ext_winv s : reachable_ext s -> winv s.
Proof.
  induction 1 as [ts s N E|s st s' _ IH C H].
  - destruct (build_world_winv ts N) as [s0 [E0 W]]. rewrite E0 in E. inversion E; subst. exact W.
  - exact (covered_ext_step_preserves s st s' IH C H).
Qed.

Theorem reachable_ext_world_wf s : reachable_ext s -> world_wf s = true.
Proof. intro R. exact (winv_world_wf s (reachable_ext_winv s R)). Qed.

Theorem traversals_on_reachable_worlds_ext s : reachable_ext s ->
  forall seed, In seed (s_trees s) ->
    let f := S (length (s_nodes s)) in
    wf_store s f seed = true /\
    structural_orders s f seed /\
    (exists x, loc (store_tree s f seed, []) x /\ l_id x = seed /\
               (2 * size (here x) + l_depth x + 2 <= store_fuel s)%nat).
Proof.
  intros R seed Hs. cbv zeta. pose proof (world_wf_probes s seed (reachable_ext_world_wf s R) Hs) as Ws.
  split; [exact Ws|split; [exact (wf_store_structural_orders _ _ _ Ws)|exact (seed_is_located_with_probe_fuel _ _ _ Ws)]].
Qed.

(* the hypotheses are satisfiable: two put-back steps on the built tree 0(1(3),2); the first adds 7 and 8,
   reorders and drops 2, the second (at the inner node 1) drops 3 and adds 9 *)
Example reachable_ext_example :
  exists s, reachable_ext s /\ s_trees s = [0] /\
    ids (store_tree s (S (length (s_nodes s))) 0) = [0; 8; 7; 1; 9] /\
    ~ in_live_tree s 2 /\ ~ in_live_tree s 3 /\ parent_of s 2 = Some 0 /\ parent_of s 3 = Some 1.
Proof.
  destruct (build_world [ex_reach_tree] empty_store) as [[[] s0]| |] eqn:E0; [|vm_compute in E0; discriminate..].
  assert (R0 : reachable_ext s0).
  { apply (reach_ext_built [ex_reach_tree]); [|exact E0]. vm_compute. repeat constructor; simpl; intuition discriminate. }
  vm_compute in E0. inversion E0; subst s0. clear E0.
  match type of R0 with reachable_ext ?s => set (s0 := s) in * end.
  destruct (do_step (SKids 0 [EAppend 7; EPop 1; EReverse; EInsert 0 8] true) s0) as [[[] s1]| |] eqn:E1; [|vm_compute in E1; discriminate..].
  assert (R1 : reachable_ext s1).
  { apply (reach_ext_step s0 (SKids 0 [EAppend 7; EPop 1; EReverse; EInsert 0 8] true)); [exact R0| |unfold step_to; rewrite E1; reflexivity].
    exists 0. split; vm_compute; tauto. }
  vm_compute in E1. inversion E1; subst s1. clear E1.
  match type of R1 with reachable_ext ?s => set (s1 := s) in * end.
  destruct (do_step (SKids 1 [EClear; EAppend 9] true) s1) as [[[] s2]| |] eqn:E2; [|vm_compute in E2; discriminate..].
  assert (R2 : reachable_ext s2).
  { apply (reach_ext_step s1 (SKids 1 [EClear; EAppend 9] true)); [exact R1| |unfold step_to; rewrite E2; reflexivity].
    exists 0. split; vm_compute; tauto. }
  assert (D2 : ~ in_live_tree s2 2 /\ ~ in_live_tree s2 3).
  { split.
    - apply (stale_parent_not_live s2 2 0 (reachable_ext_winv s2 R2)); vm_compute in E2; inversion E2; subst s2; vm_compute; [reflexivity|intuition discriminate].
    - apply (stale_parent_not_live s2 3 1 (reachable_ext_winv s2 R2)); vm_compute in E2; inversion E2; subst s2; vm_compute; [reflexivity|intuition discriminate]. }
  exists s2. split; [exact R2|]. destruct D2 as [A B]. vm_compute in E2. inversion E2; subst s2. clear E2.
  split; [reflexivity|split; [vm_compute; reflexivity|split; [exact A|split; [exact B|split; vm_compute; reflexivity]]]].
Qed.

(* ---- the side condition "n is in a live tree" cannot simply be dropped for arbitrary stores that pass the
   executable check: an orphan that still lists a live node as a child steals it ---- *)
Definition ex_orphan_store : store :=
  mkS [(0, mkN 0 None); (1, mkN 1 (Some 0)); (5, mkN 2 None)] [(0, [1]); (1, []); (2, [1])] 3 [0] [].

Theorem put_back_on_any_node_preserves_wf_refuted :
  ~ (forall s n es s', world_wf s = true -> do_step (SKids n es true) s = Ok (tt, s') -> world_wf s' = true).
Proof.
  intro H. specialize (H ex_orphan_store 5 []).
  destruct (do_step (SKids 5 [] true) ex_orphan_store) as [[[] s']| |] eqn:E; [|vm_compute in E; discriminate..].
  vm_compute in E. inversion E; subst s'. clear E.
  specialize (H _ eq_refl eq_refl). vm_compute in H. discriminate.
Qed.

(* the same at the level of the invariant: the store is sound (sok) and its live tree 0(1) is held, the
   orphan 5 lists the live node 1; 5.set_child_nodes(5.child_nodes()) re-parents 1 *)
Lemma winv_ex_orphan : winv ex_orphan_store.
Proof.
  split.
  - split; [|split].
    + intros x r. unfold node_of, ex_orphan_store. simpl.
      destruct (Z.eqb x 0); [intro H; inversion H; subst r; simpl; split; [lia|discriminate]|].
      destruct (Z.eqb x 1); [intro H; inversion H; subst r; simpl; split; [lia|discriminate]|].
      destruct (Z.eqb x 5); [intro H; inversion H; subst r; simpl; split; [lia|discriminate]|discriminate].
    + intros l c. unfold list_of, ex_orphan_store. simpl.
      destruct (Z.eqb l 0) eqn:E0; [intros _; apply Z.eqb_eq in E0; lia|].
      destruct (Z.eqb l 1) eqn:E1; [intros _; apply Z.eqb_eq in E1; lia|].
      destruct (Z.eqb l 2) eqn:E2; [intros _; apply Z.eqb_eq in E2; lia|discriminate].
    + intros x y rx ry. unfold node_of, ex_orphan_store. simpl.
      destruct (Z.eqb x 0) eqn:X0; [|destruct (Z.eqb x 1) eqn:X1; [|destruct (Z.eqb x 5) eqn:X5; [|discriminate]]];
      (destruct (Z.eqb y 0) eqn:Y0; [|destruct (Z.eqb y 1) eqn:Y1; [|destruct (Z.eqb y 5) eqn:Y5; [|discriminate]]]);
      intros A B; inversion A; inversion B; subst rx ry; simpl; intro; try discriminate;
      repeat match goal with H : Z.eqb _ _ = true |- _ => apply Z.eqb_eq in H end; lia.
  - exists [T 0 None None None [leafx 1]]. split; [reflexivity|split].
    + constructor; [|constructor]. split; [|split].
      * constructor; [reflexivity|]. constructor; [|constructor]. split; [reflexivity|]. constructor; [reflexivity|constructor].
      * reflexivity.
      * intros y Hy. vm_compute in Hy. destruct Hy as [Hy|[Hy|[]]]; subst y; vm_compute; discriminate.
    + constructor; [|constructor]. vm_compute. repeat constructor; simpl; intuition discriminate.
Qed.

Theorem put_back_on_orphan_preserves_winv_refuted :
  ~ (forall s n es s', winv s -> do_step (SKids n es true) s = Ok (tt, s') -> winv s').
Proof.
  intro H. specialize (H ex_orphan_store 5 []).
  destruct (do_step (SKids 5 [] true) ex_orphan_store) as [[[] s']| |] eqn:E; [|vm_compute in E; discriminate..].
  specialize (H _ winv_ex_orphan eq_refl). apply winv_world_wf in H.
  vm_compute in E. inversion E; subst s'. clear E. vm_compute in H. discriminate.
Qed.

(* the model's edits refuse to add a node that already exists (Node() makes a NEW object): the side condition
   "every node the edited list adds is new" is part of do_step succeeding *)
Example put_back_adding_an_existing_node_is_not_a_step :
  forall s', ~ step_to ex_orphan_store (SKids 0 [EAppend 5] true) s'.
Proof. intros s' H. vm_compute in H. exact H. Qed.
