(* C08Gen: Node.extract_subtree as generated (Gen/Extract.v) - the loop body in normal form, and the
   basic facts about `img`. *)
From Coq Require Import ZArith List Bool Lia.
From DV Require Import Model.PyPrims Model.Tree Model.Heap Model.HeapOps Model.C15Prims Model.MutPrims Gen.Mutators
     Model.C03GenInst Model.C08GenPrims Gen.Extract Model.C08GenInst Proofs.C03Base.
Import ListNotations.
Open Scope Z_scope.

(* ---------------------------------------------------------------- img *)
Fixpoint imgs (on : bool) (lo : Z) (s : xstate) (n : Z) (ns : list Z) (ks : list tree) {struct ks} : Prop :=
  match ns, ks with
  | [], [] => True
  | c :: ns', k :: ks' => c < n /\ parent (xh s) c = Some n /\ img on lo s c k /\ imgs on lo s n ns' ks'
  | _, _ => False
  end.

Lemma img_eq on lo s n i x l e ks :
  img on lo s n (T i x l e ks) <->
  lo <= n /\ taxon (xh s) n = x /\ label (xh s) n = l /\ elen (xh s) n = e /\ (on = true -> xsource s n = Some i) /\
  imgs on lo s n (kids (xh s) n) ks.
Proof.
  simpl.
  assert (H : forall ks0 ns,
    (fix all (ns : list Z) (ks : list tree) {struct ks} : Prop :=
       match ns, ks with
       | [], [] => True
       | c :: ns', k :: ks' => c < n /\ parent (xh s) c = Some n /\ img on lo s c k /\ all ns' ks'
       | _, _ => False
       end) ns ks0 <-> imgs on lo s n ns ks0).
  { induction ks0 as [|k r IH]; intros [|c ns]; simpl; try tauto. rewrite IH. tauto. }
  rewrite H. tauto.
Qed.

(* the states agree on every node between lo and hi *)
Definition same_on (lo hi : Z) (s s' : xstate) : Prop :=
  forall j, lo <= j <= hi -> get (xh s') j = get (xh s) j /\ xsource s' j = xsource s j.

Lemma same_on_sub lo hi lo' hi' s s' : lo <= lo' -> hi' <= hi -> same_on lo hi s s' -> same_on lo' hi' s s'.
Proof. intros L1 L2 H j Hj. apply H. lia. Qed.

Lemma same_on_trans lo hi s1 s2 s3 : same_on lo hi s1 s2 -> same_on lo hi s2 s3 -> same_on lo hi s1 s3.
Proof.
  intros A B j Hj. destruct (A j Hj) as [A1 A2]. destruct (B j Hj) as [B1 B2]. split; congruence.
Qed.

Lemma same_on_refl lo hi s : same_on lo hi s s.
Proof. intros j _. split; reflexivity. Qed.

Lemma fld_parent h h' j : get h' j = get h j -> parent h' j = parent h j.
Proof. unfold parent. intros ->. reflexivity. Qed.
Lemma fld_kids h h' j : get h' j = get h j -> kids h' j = kids h j.
Proof. unfold kids. intros ->. reflexivity. Qed.
Lemma fld_elen h h' j : get h' j = get h j -> elen h' j = elen h j.
Proof. unfold elen. intros ->. reflexivity. Qed.
Lemma fld_taxon h h' j : get h' j = get h j -> taxon h' j = taxon h j.
Proof. unfold taxon. intros ->. reflexivity. Qed.
Lemma fld_label h h' j : get h' j = get h j -> label h' j = label h j.
Proof. unfold label. intros ->. reflexivity. Qed.

Lemma img_lo on lo s : forall v n, img on lo s n v -> lo <= n.
Proof. intros [i x l e ks] n H. apply img_eq in H. tauto. Qed.

Lemma img_frame on lo s s' : forall v n, same_on lo n s s' -> img on lo s n v -> img on lo s' n v.
Proof.
  induction v as [i x l e ks IH] using tree_ind'. intros n F H.
  apply img_eq in H. destruct H as [Hlo [Hx [Hl [He [Hs Hk]]]]]. apply img_eq.
  destruct (F n ltac:(lia)) as [Fg Fs].
  rewrite (fld_taxon _ _ _ Fg), (fld_label _ _ _ Fg), (fld_elen _ _ _ Fg), (fld_kids _ _ _ Fg), Fs.
  repeat split; try assumption.
  revert Hk. generalize (kids (xh s) n) as ns. clear Hx Hl He Hs Fg Fs.
  induction IH as [|k r Hk0 _ IHr]; intros [|c ns]; simpl; try tauto.
  intros [Hc [Hp [Hi Hr]]]. split; [exact Hc|]. pose proof (img_lo _ _ _ _ _ Hi) as Hcl. split.
  - destruct (F c ltac:(lia)) as [Fc _]. rewrite (fld_parent _ _ _ Fc). exact Hp.
  - split; [|apply IHr; exact Hr]. apply Hk0; [|exact Hi]. eapply same_on_sub; [| |exact F]; lia.
Qed.

Lemma imgs_frame on lo s s' n : forall ks ns, same_on lo (n - 1) s s' -> imgs on lo s n ns ks -> imgs on lo s' n ns ks.
Proof.
  induction ks as [|k r IH]; intros [|c ns] F; simpl; try tauto.
  intros [Hc [Hp [Hi Hr]]]. split; [exact Hc|]. pose proof (img_lo _ _ _ _ _ Hi) as Hcl. split.
  - destruct (F c ltac:(lia)) as [Fc _]. rewrite (fld_parent _ _ _ Fc). exact Hp.
  - split; [|apply IH; assumption]. eapply img_frame; [|exact Hi]. eapply same_on_sub; [| |exact F]; lia.
Qed.

Lemma img_weaken on lo lo' s : lo' <= lo -> forall v n, img on lo s n v -> img on lo' s n v.
Proof.
  intro L. induction v as [i x l e ks IH] using tree_ind'. intros n H.
  apply img_eq in H. destruct H as [Hlo [Hx [Hl [He [Hs Hk]]]]]. apply img_eq.
  repeat split; try assumption; [lia|].
  revert Hk. generalize (kids (xh s) n) as ns.
  induction IH as [|k r Hk0 _ IHr]; intros [|c ns]; simpl; try tauto.
  intros [Hc [Hp [Hi Hr]]]. repeat split; auto.
Qed.

(* only the parent pointer and the edge length of the root change *)
Lemma img_root on lo s s' c i x l e p' e' ks :
  img on lo s c (T i x l e ks) ->
  same_on lo (c - 1) s s' ->
  get (xh s') c = mkCell p' (kids (xh s) c) e' (taxon (xh s) c) (label (xh s) c) ->
  xsource s' c = xsource s c ->
  img on lo s' c (T i x l e' ks).
Proof.
  intros H F G Hs. apply img_eq in H. destruct H as [Hlo [Hx [Hl [He [Hsrc Hk]]]]]. apply img_eq.
  unfold taxon, label, elen, kids. rewrite G. simpl. rewrite Hs.
  repeat split; try assumption. eapply imgs_frame; eassumption.
Qed.

(* ---------------------------------------------------------------- the loop body in normal form *)
Record xpar : Type := mkP {
  p_self : Z; p_on : bool; p_fn : option (xstate -> Z -> bool); p_sup : bool; p_lf : bool; p_intl : bool }.

(* is_excluded_nodes, start_node_to_match, nd1, start_node, memo *)
Definition lst : Type := (bool * option Z * option Z * option Z * list (Z * Z))%type.

Definition cta_of (memo : list (Z * Z)) (ks : list Z) : list Z :=
  flat_map (fun k => match py_dict_get Z.eqb k memo with Some n => [n] | None => [] end) ks.

Definition x_excl (P : xpar) (s : xstate) (nd0 : Z) : bool :=
  match p_fn P with
  | Some f => (if negb (py_is_empty (kids (xh s) nd0)) then p_intl P else p_lf P) && negb (f s nd0)
  | None => false
  end.

(* the four statements after the edge-length bookkeeping of the merge branch *)
Definition merge_tail (P : xpar) (nd0 c : Z) (L : lst) (s : xstate) : mres xstate (lctl lst) :=
  let '(iex, mt, nd1, st, memo) := L in
  match parent (xh s) nd0 with
  | Some p => MOk (LNext (iex, (if Z.eqb nd0 (p_self P) then Some p else mt), nd1, st, py_dict_set Z.eqb nd0 c memo)) s
  | None => MOk (LBreak (iex, mt, nd1, Some c, memo)) s
  end.

Definition merge (P : xpar) (nd0 c : Z) (L : lst) (s : xstate) : mres xstate (lctl lst) :=
  let '(iex, mt, nd1, st, memo) := L in
  match elen (xh s) nd0 with
  | Some a =>
    match elen (xh s) c with
    | Some b => merge_tail P nd0 c L (xlift (set_elen c (Some (b + a))) s)
    | None => merge_tail P nd0 c L (xlift (set_elen c (Some a)) s)
    end
  | None =>
    match nd1 with
    | Some m => merge_tail P nd0 c L (xlift (set_elen m (elen (xh s) c)) s)
    | None => MErr AttrErr s
    end
  end.

Definition add_children (n : Z) (cta : list Z) (s : xstate) : mres xstate (lctl unit) :=
  mfor (fun ch (_ : unit) s =>
          match Node_add_child HXG n ch s with
          | MOk _ s => MOk (LNext tt) s
          | MErr e s => MErr e s
          | MFuel => MFuel
          end) cta tt s.

Definition create (P : xpar) (nd0 : Z) (cta : list Z) (L : lst) (s : xstate) : mres xstate (lctl lst) :=
  let '(iex, mt, nd1, st, memo) := L in
  let n := next (xh s) in
  let s := xlift (alloc None None None) s in
  let s := xlift (set_label n (label (xh s) nd0)) s in
  let s := xlift (set_taxon n (taxon (xh s) nd0)) s in
  let s := xlift (set_elen n (elen (xh s) nd0)) s in
  let s := mkX (xh s) (xsrc s) ((n, elabel s nd0) :: xel s) in
  match add_children n cta s with
  | MOk _ s =>
    let st' := if (match mt with Some m => Z.eqb nd0 m | None => false end) then Some n else st in
    let memo' := py_dict_set Z.eqb nd0 n memo in
    MOk (LNext (iex, mt, Some n, st', memo'))
        (if p_on P then mkX (xh s) ((n, nd0) :: xsrc s) (xel s) else s)
  | MErr e s => MErr e s
  | MFuel => MFuel
  end.

Definition xbody (P : xpar) (nd0 : Z) (L : lst) (s : xstate) : mres xstate (lctl lst) :=
  let '(iex, mt, nd1, st, memo) := L in
  if x_excl P s nd0 then MOk (LNext (true, mt, nd1, st, memo)) s else
  let ks := kids (xh s) nd0 in
  let cta := cta_of memo ks in
  match cta with
  | [] =>
    if negb (py_is_empty ks) then
      match parent (xh s) nd0 with
      | Some p => MOk (LNext (iex, (if Z.eqb nd0 (p_self P) then Some p else mt), nd1, st, memo)) s
      | None => MErr OtherErr s
      end
    else create P nd0 cta L s
  | [c] => if p_sup P then merge P nd0 c L s else create P nd0 cta L s
  | _ => create P nd0 cta L s
  end.

Definition xloop_end {S : Type} (r : mres S (lctl lst)) : mres S Z :=
  match r with
  | MOk c s =>
    let '(_, _, _, st, _) := lctl_val c in
    match st with Some n => MOk n s | None => MErr ValueErr s end
  | MErr e s => MErr e s
  | MFuel => MFuel
  end.

Lemma inner_loop (memo : list (Z * Z)) (s : xstate) : forall ks ohc cta,
  mfor (fun (ch_nd0 : Z) '(_, children_to_add) (s0 : xstate) =>
          match py_dict_get Z.eqb ch_nd0 memo with
          | Some ch_nd1 => MOk (LNext (true, children_to_add ++ [ch_nd1])) s0
          | None => MOk (LNext (true, children_to_add)) s0
          end) ks (ohc, cta) s
  = MOk (LNext (ohc || negb (py_is_empty ks), cta ++ cta_of memo ks)) s.
Proof.
  induction ks as [|k r IH]; intros ohc cta.
  - simpl. rewrite orb_false_r, app_nil_r. reflexivity.
  - simpl mfor. unfold cta_of. simpl flat_map. destruct (py_dict_get Z.eqb k memo) as [n|].
    + rewrite IH. rewrite orb_true_r. simpl. rewrite <- app_assoc. reflexivity.
    + rewrite IH. rewrite orb_true_r. reflexivity.
Qed.

Lemma mfor_ext {S X V} (b1 b2 : X -> V -> S -> mres S (lctl V)) :
  (forall x v s, b1 x v s = b2 x v s) -> forall l v s, mfor b1 l v s = mfor b2 l v s.
Proof.
  intro H. induction l as [|x r IH]; intros v s; [reflexivity|]. simpl. rewrite H.
  destruct (b2 x v s) as [[v'|v'] s'|e s'|]; try reflexivity. apply IH.
Qed.

Lemma py_len_two {A} (a b : A) r : (py_len (a :: b :: r) =? 1) = false.
Proof. unfold py_len. simpl length. apply Z.eqb_neq. lia. Qed.

(* ---------------------------------------------------------------- the generated method = the loop of xbody *)
Ltac xsimp := cbn [mst mnode medge mg_eqb rd_parent wr_parent rd_kids wr_kids rd_edge rd_taxon rd_head rd_length
                   wr_length rd_seed wr_seed rd_rooted wr_rooted new_node xg rd_label wr_label wr_taxon rd_elabel
                   wr_elabel wr_xsource x_postorder_nodes_of HX HXG] in *.

Ltac crush := repeat first [ reflexivity
  | match goal with |- context [match ?x with _ => _ end] => destruct x eqn:? end ].

Lemma xloop_end_eq (R : mres xstate (lctl lst)) :
  match R with
  | MOk (LNext dv_v) s => let '(is_excluded_nodes, start_node_to_match, nd1, start_node, memo) := dv_v in
    match start_node with Some start_node => MOk start_node s | None => MErr ValueErr s end
  | MOk (LBreak dv_v) s => let '(is_excluded_nodes, start_node_to_match, nd1, start_node, memo) := dv_v in
    match start_node with Some start_node => MOk start_node s | None => MErr ValueErr s end
  | MErr dv_e s => MErr dv_e s
  | MFuel => MFuel
  end = xloop_end R.
Proof.
  destruct R as [[v|v] s'|e s'|]; [| |reflexivity|reflexivity];
    destruct v as [[[[a b] c] d] e]; cbn [xloop_end lctl_val]; destruct d; reflexivity.
Qed.

Theorem gen_body_eq (P : xpar) (s : xstate) :
  Node_extract_subtree HX (p_self P) (p_on P) (p_fn P) (p_sup P) (p_lf P) (p_intl P) s =
  match abs_at (xh s) (p_self P) with
  | Some t => xloop_end (mfor (xbody P) (post_ids t) (false, Some (p_self P), None, None, []) s)
  | None => MFuel
  end.
Proof.
  unfold Node_extract_subtree. xsimp. cbv zeta.
  destruct (abs_at (xh s) (p_self P)) as [t|]; [|reflexivity].
  match goal with |- context [mfor ?b (post_ids t) _ s] => rewrite (mfor_ext b (xbody P)) end.
  - apply xloop_end_eq.
  - intros nd0 [[[[iex mt] nd1] st] memo] s1.
    unfold Node__get_edge, Node__get_parent_node. xsimp. cbv zeta.
    rewrite !inner_loop. cbn [lctl_val orb app]. unfold xbody, x_excl.
    assert (Hb : forall b : bool, (if b then true else false) = b) by (intros []; reflexivity).
    rewrite !Hb.
    destruct (cta_of memo (kids (xh s1) nd0)) as [|c [|c2 r]] eqn:Ecta.
    + cbn [py_is_empty negb andb].
      change (py_len (@nil Z) =? 1) with false. cbn [andb].
      unfold create, add_children. cbv zeta. xsimp. crush.
    + cbn [py_is_empty negb andb].
      change (py_len [c] =? 1) with true. change (py_index [c] 0) with (Some c). cbn [andb].
      unfold create, merge, merge_tail, add_children. cbv zeta. xsimp. crush.
    + cbn [py_is_empty negb andb]. rewrite py_len_two. cbn [andb].
      unfold create, add_children. cbv zeta. xsimp. crush.
Qed.
