(* C03 proofs: Edge.invert at the root, the inversion chain of reseed_at, re-rooting. *)
From Coq Require Import ZArith List Bool Lia Permutation.
From DV Require Import Model.PyPrims Model.Tree Model.Heap Model.HeapOps Model.C03Spec
  Proofs.C03Base Proofs.C03Abs Proofs.C03Local Proofs.C03Prims.
Import ListNotations.
Open Scope Z_scope.

Lemma hfold_app f a b h : hfold f (a ++ b) h = hbind (hfold f a h) (hfold f b).
Proof.
  revert h. induction a as [|x r IH]; intro h; simpl; [reflexivity|].
  destruct (f x h) as [h1|e h1|]; simpl; auto.
Qed.

Lemma wr_top h t : Wr h t <-> Wr h (plug CTop t).
Proof. reflexivity. Qed.

(* ---------- inverting the edge between the root p and its child ci ---------- *)

Lemma edge_invert_root h p x l e lft ci xc lc ec kc rgt :
  Wr h (T p x l e (lft ++ T ci xc lc ec kc :: rgt)) ->
  exists h', edge_invert ci h = HOk h' /\
    Wr h' (T ci xc lc e (kc ++ [T p x l ec (lft ++ rgt)])) /\ pres h h' /\ grows h h'.
Proof.
  intro W. pose proof W as W0.
  destruct (wr_focus h CTop p x l e _ W) as [Hp [Gp [Fk [N1 [N2 [_ [_ [N5 N6]]]]]]]].
  destruct W0 as [_ [ND _]]. pose proof (focus_facts _ _ _ _ _ _ _ ND) as F.
  apply Forall_app in Fk. destruct Fk as [_ Fk]. inversion Fk as [|? ? Rc _]; subst.
  set (tc := T ci xc lc ec kc) in *.
  assert (Pc : parent h ci = Some p) by (apply (rep_parent h (Some p) tc Rc)).
  assert (Pp : parent h p = None) by (unfold parent; rewrite Gp; reflexivity).
  assert (Kp : kids h p = map t_id lft ++ ci :: map t_id rgt).
  { unfold kids. rewrite Gp, map_app. reflexivity. }
  assert (Dcp : ci <> p). { intro E. apply (fn_p_tc _ _ _ _ F). rewrite <- E. apply (ids_root tc). }
  destruct (remove_child_plain_wf h CTop p x l e lft tc rgt W) as [h2 [E2 [W2 [R2 [A2 [G2 P2]]]]]].
  simpl t_id in E2. simpl plug in W2.
  unfold edge_invert. rewrite Pc, Pp, Kp.
  replace (memz ci (map t_id lft ++ ci :: map t_id rgt)) with true
    by (symmetry; apply memz_In, in_app_iff; right; left; reflexivity).
  simpl negb. cbv iota. rewrite E2. simpl hbind.
  destruct (wr_focus h2 CTop p x l e _ W2) as [_ [Gp2 _]].
  assert (Kp2 : kids h2 p = map t_id (lft ++ rgt)) by (unfold kids; rewrite Gp2; reflexivity).
  rewrite Kp2.
  replace (memz ci (map t_id (lft ++ rgt))) with false.
  2:{ symmetry. apply memz_false. rewrite map_app, in_app_iff. intros [H|H].
      - apply map_id_in_flat in H. exact (fn_tc_lft _ _ _ _ F ci (ids_root tc) H).
      - apply map_id_in_flat in H. exact (fn_tc_rgt _ _ _ _ F ci (ids_root tc) H). }
  (* attach the old root below the old child *)
  assert (W2c : Wr h2 (plug CTop tc)).
  { split; [exact R2|split; [exact (fn_tc _ _ _ _ F)|]].
    intros j Hj. destruct P2 as [P2 _]. rewrite P2. apply N5. rewrite flat_map_app. apply in_app_iff. right.
    change (In j (ids tc ++ flat_map ids rgt)). apply in_app_iff. left. exact Hj. }
  destruct W2 as [Rp2 [Np2 Bp2]].
  destruct (add_child_attach h2 CTop ci xc lc ec kc None (T p x l e (lft ++ rgt)) W2c Rp2 Np2)
    as [h3 [E3 [W3 [A3 [G3 P3]]]]].
  { intros j Hj H. simpl plug in H. rewrite (ids_eq p x l e (lft ++ rgt)), flat_map_app in Hj.
    destruct Hj as [<-|Hj]; [exact (fn_p_tc _ _ _ _ F H)|].
    apply in_app_iff in Hj. destruct Hj as [Hj|Hj];
      [exact (fn_tc_lft _ _ _ _ F j H Hj)|exact (fn_tc_rgt _ _ _ _ F j H Hj)]. }
  { exact Bp2. }
  simpl t_id in E3. rewrite E3. simpl hbind. simpl plug in W3.
  (* the two lengths *)
  assert (Lc : elen h3 ci = ec).
  { destruct W3 as [R3 _]. apply (rep_elen h3 None _ R3). }
  assert (Lp : elen h3 p = e).
  { destruct W3 as [R3 _]. apply rep_eq in R3. destruct R3 as [_ [_ F3]].
    apply Forall_app in F3. destruct F3 as [_ F3]. inversion F3 as [|? ? R3p _]; subst.
    apply (rep_elen h3 (Some ci) _ R3p). }
  rewrite Lc, Lp. eexists. split; [reflexivity|].
  pose proof (set_elen_wf h3 (CNode CTop ci xc lc ec kc []) p x l e (lft ++ rgt) ec W3) as W4.
  simpl plug in W4.
  pose proof (set_elen_wf _ CTop ci xc lc ec _ e W4) as W5. simpl plug in W5.
  split; [exact W5|split].
  - eapply pres_trans; [exact P2|]. eapply pres_trans; [exact P3|]. repeat split.
  - eapply grows_trans; [exact G2|]. eapply grows_trans; [exact G3|]. unfold set_elen. frame_solve.
Qed.

(* ---------- the inversion chain ---------- *)

Definition olist {A} (o : option A) : list A := match o with Some a => [a] | None => [] end.

(* what hangs above the hole once the hole's parent has taken the length lk of the hole's edge *)
Fixpoint up (c : ctx) (lk : option Z) : option tree :=
  match c with
  | CTop => None
  | CNode c' i x l e lft rgt => Some (T i x l lk (lft ++ rgt ++ olist (up c' e)))
  end.

Fixpoint root_len (c : ctx) (d : option Z) : option Z :=
  match c with CTop => d | CNode c' i x l e _ _ => root_len c' e end.

Definition reroot (c : ctx) (s : tree) : tree :=
  match s with T si xs ls es ks => T si xs ls (root_len c es) (ks ++ olist (up c es)) end.

(* the nodes whose edges get inverted, innermost first = what HeapOps.chain computes *)
Fixpoint cpath (c : ctx) (d : Z) : list Z :=
  match c with CTop => [] | CNode c' i _ _ _ _ _ => d :: cpath c' i end.

Lemma reroot_id c s : t_id (reroot c s) = t_id s.
Proof. destruct s. reflexivity. Qed.

Lemma chain_ctx_fuel h c : forall s fuel,
  Wr h (plug c s) -> (length (cpath c (t_id s)) < fuel)%nat ->
  chain fuel h (t_id s) = Some (cpath c (t_id s)).
Proof.
  induction c as [|c' IH i x l e lft rgt]; intros s fuel W Hf.
  - destruct fuel as [|n]; [simpl in Hf; lia|]. simpl.
    destruct W as [R _]. simpl in R. rewrite (rep_parent h None s R). reflexivity.
  - destruct fuel as [|n]; [simpl in Hf; lia|]. simpl.
    pose proof W as [R _]. apply rep_plug in R. destruct R as [_ R]. simpl cpar in R.
    rewrite (rep_parent h (Some i) s R).
    simpl plug in W. specialize (IH (T i x l e (lft ++ s :: rgt)) n W). simpl t_id in IH.
    rewrite IH; [reflexivity|]. simpl in Hf. lia.
Qed.

Lemma cpath_in c s : forall j, In j (cpath c (t_id s)) -> In j (ids (plug c s)).
Proof.
  revert s. induction c as [|c' IH i x l e lft rgt]; intros s j Hj; simpl in *; [destruct Hj|].
  destruct Hj as [<-|Hj].
  - apply in_plug. left. rewrite ids_focus. right. apply in_app_iff. right. apply in_app_iff. left. apply ids_root.
  - apply (IH (T i x l e (lft ++ s :: rgt))). exact Hj.
Qed.

Lemma cpath_sub c : forall d j, In j (cpath c d) -> j = d \/ In j (cids c).
Proof.
  induction c as [|c' IH i x l e lft rgt]; intros d j H; simpl in *; [destruct H|].
  destruct H as [<-|H]; [left; reflexivity|]. right.
  destruct (IH i j H) as [->|H']; [left; reflexivity|].
  right. rewrite !in_app_iff. right. right. exact H'.
Qed.

Lemma cpath_nodup c : forall s, NoDup (ids (plug c s)) -> NoDup (cpath c (t_id s)).
Proof.
  induction c as [|c' IH i x l e lft rgt]; intros s N; simpl; [constructor|].
  constructor.
  - intro H. simpl plug in N. apply nodup_plug in N. destruct N as [N1 [N2 N3]].
    pose proof (focus_facts _ _ _ _ _ _ _ N1) as F.
    destruct (cpath_sub c' i (t_id s) H) as [E|H'].
    + apply (fn_p_tc _ _ _ _ F). rewrite <- E. apply ids_root.
    + apply (N3 (t_id s)); [|exact H'].
      rewrite ids_focus. right. apply in_app_iff. right. apply in_app_iff. left. apply ids_root.
  - apply (IH (T i x l e (lft ++ s :: rgt))). exact N.
Qed.

Lemma chain_ctx h c s : Wr h (plug c s) -> chain (fuel_of h) h (t_id s) = Some (cpath c (t_id s)).
Proof.
  intro W. apply chain_ctx_fuel; [exact W|]. unfold fuel_of.
  destruct W as [R [N _]].
  assert (H2 : (length (cpath c (t_id s)) <= length (map fst (cells h)))%nat).
  { apply NoDup_incl_length; [apply cpath_nodup, N|]. intros j Hj. apply has_in.
    eapply rep_has; [exact R|]. apply cpath_in, Hj. }
  rewrite map_length in H2. lia.
Qed.

Lemma invert_chain c : forall h s,
  Wr h (plug c s) ->
  exists h', hfold edge_invert (rev (cpath c (t_id s))) h = HOk h' /\ Wr h' (reroot c s) /\ pres h h' /\ grows h h'.
Proof.
  induction c as [|c' IH i x l e lft rgt]; intros h s W.
  - simpl. exists h. destruct s. simpl. rewrite app_nil_r.
    split; [reflexivity|split; [exact W|split; [apply pres_refl|apply grows_refl]]].
  - simpl cpath. simpl rev. rewrite hfold_app. simpl plug in W.
    destruct (IH h (T i x l e (lft ++ s :: rgt)) W) as [h1 [E1 [W1 [P1 G1]]]].
    simpl t_id in E1. rewrite E1. simpl hbind.
    destruct s as [si xs ls es ks]. simpl t_id.
    simpl reroot in W1. rewrite <- app_assoc in W1. simpl in W1.
    destruct (edge_invert_root h1 i x l (root_len c' e) lft si xs ls es ks (rgt ++ olist (up c' e)) W1)
      as [h2 [E2 [W2 [P2 G2]]]].
    simpl hfold. rewrite E2. simpl hbind. exists h2. split; [reflexivity|].
    split; [|split; [eapply pres_trans; eauto|eapply grows_trans; eauto]].
    exact W2.
Qed.

(* the core of reseed_at: chain, then "new_seed_node._parent_node = None; self.seed_node = new_seed_node" *)
Lemma reseed_core h c s :
  WFt h (plug c s) ->
  exists h1, hfold edge_invert (rev (cpath c (t_id s))) h = HOk h1 /\
    let h2 := set_seed_node (t_id s) (set_parent (t_id s) None h1) in
    WFt h2 (reroot c s) /\ next h2 = next h /\ rooted h2 = rooted h /\ grows h h2.
Proof.
  intros [W S]. destruct (invert_chain c h s W) as [h1 [E1 [W1 [[P1 [P2 P3]] G1]]]].
  exists h1. split; [exact E1|]. intro h2.
  pose proof W1 as [R1 [N1 B1]].
  assert (Pr : parent h1 (t_id s) = None).
  { rewrite <- (reroot_id c s). apply (rep_parent h1 None _ R1). }
  assert (E : h2 = set_parent (t_id s) None (set_seed (t_id s) (set_parent (t_id s) None h1))).
  { unfold h2, set_seed_node, set_parent_node.
    assert (Q : parent (set_seed (t_id s) (set_parent (t_id s) None h1)) (t_id s) = None).
    { unfold parent. rewrite get_set_seed, get_set_parent, Z.eqb_refl. reflexivity. }
    rewrite Q. reflexivity. }
  assert (A : same_off [t_id s] h1 h2) by (rewrite E; unfold set_parent; frame_solve).
  assert (G : grows h1 h2) by (rewrite E; unfold set_parent; frame_solve).
  assert (Gs : get h2 (t_id s) = get h1 (t_id s)).
  { rewrite E. rewrite get_set_parent, Z.eqb_refl. unfold kids, elen, taxon, label.
    rewrite !get_set_seed, !get_set_parent, !Z.eqb_refl. simpl.
    symmetry. rewrite (get_eta h1 (t_id s)), Pr. reflexivity. }
  split; [split|split; [|split]].
  - split; [|split; [exact N1|]].
    + apply (rep_frame h1 h2 None _); [| |exact R1].
      * intros j Hj. destruct (Z.eq_dec j (t_id s)) as [->|D]; [exact Gs|].
        apply A. intros [H|[]]. congruence.
      * intros j _. apply G.
    + intros j Hj. rewrite E. simpl. apply B1, Hj.
  - rewrite reroot_id, E. reflexivity.
  - rewrite E. simpl. exact P1.
  - rewrite E. simpl. exact P2.
  - eapply grows_trans; eauto.
Qed.
