(* C05: generated consensus_tree (selection part) equals the model *)
From Coq Require Import ZArith QArith Qabs Qreduction List Bool Lia Permutation Setoid.
From DV Require Import Model.PyPrims Gen.BitFns Gen.Consts Model.C05Model Model.C05Spec Model.C05GenPrims Gen.SplitDist
     Proofs.C05Lists Proofs.C05Freq Proofs.C05Consensus Proofs.C05GenDist.
Import ListNotations.
Open Scope Z_scope.

Lemma Qle_bool_congr a b t : (a == b)%Q -> Qle_bool a t = Qle_bool b t.
Proof.
  intro E. destruct (Qle_bool a t) eqn:A; destruct (Qle_bool b t) eqn:B; try reflexivity.
  - apply Qle_bool_iff in A. rewrite E in A. apply Qle_bool_iff in A. congruence.
  - apply Qle_bool_iff in B. rewrite <- E in B. apply Qle_bool_iff in B. congruence.
Qed.

Lemma almost_one_gen x :
  py_fle (py_fabs (py_fsub x (1 # 1)%Q)) (944473296573929 # 9444732965739290427392)%Q = almost_one x.
Proof.
  unfold py_fle, py_fabs, py_fsub, almost_one, almost_one_tol, qminus.
  apply Qle_bool_congr. rewrite Qred_correct. reflexivity.
Qed.

Lemma cond_passes mf f :
  (py_is_none mf
   || (py_fle (py_float_of_opt mf) f
       || (py_fle (py_fabs (py_fsub (py_float_of_opt mf) (1 # 1)%Q)) (944473296573929 # 9444732965739290427392)%Q
           && py_fle (py_fabs (py_fsub f (1 # 1)%Q)) (944473296573929 # 9444732965739290427392)%Q)))%bool
  = passes mf f.
Proof.
  destruct mf as [m|]; [|reflexivity].
  simpl py_is_none. simpl py_float_of_opt. rewrite !almost_one_gen. reflexivity.
Qed.

Lemma fold_append_if {A B} (p : A -> bool) (h : A -> B) ks : forall acc,
  fold_left (fun acc k => if p k then acc ++ [h k] else acc) ks acc = acc ++ map h (filter p ks).
Proof.
  induction ks as [|k ks IH]; intro acc; simpl; [now rewrite app_nil_r|].
  rewrite IH. destruct (p k); simpl; [now rewrite <- app_assoc | reflexivity].
Qed.

Lemma filter_map_fst {V} (p : Z -> bool) (l : list (Z * V)) :
  filter p (map fst l) = map fst (filter (fun kv => p (fst kv)) l).
Proof. induction l as [|[k v] r IH]; simpl; [reflexivity|]. destruct (p k); simpl; now rewrite IH. Qed.

Lemma filter_ext_in {A} (f g : A -> bool) l : (forall x, In x l -> f x = g x) -> filter f l = filter g l.
Proof.
  induction l as [|x r IH]; intro H; simpl; [reflexivity|].
  rewrite (H x (or_introl eq_refl)), IH; [reflexivity | intros; apply H; now right].
Qed.

(* the candidate loop of consensus_tree over a table with distinct keys *)
Lemma candidates_loop mf tbl : NoDup (keys tbl) ->
  fold_left (fun acc s => if passes mf (aget_d s 0%Q tbl) then acc ++ [(aget_d s 0%Q tbl, s)] else acc)
            (map fst tbl) []
  = map (fun kv => (snd kv, fst kv)) (filter (fun kv => passes mf (snd kv)) tbl).
Proof.
  intro ND. rewrite (fold_append_if (fun s => passes mf (aget_d s 0%Q tbl)) (fun s => (aget_d s 0%Q tbl, s))).
  simpl app. rewrite filter_map_fst, map_map.
  rewrite (filter_ext_in (fun kv => passes mf (aget_d (fst kv) 0%Q tbl)) (fun kv => passes mf (snd kv))).
  - apply map_ext_in. intros [k v] I. apply filter_In in I. destruct I as [I _]. simpl.
    now rewrite (aget_d_in_nodup tbl k v 0%Q ND I).
  - intros [k v] I. simpl. now rewrite (aget_d_in_nodup tbl k v 0%Q ND I).
Qed.

Lemma resolve_rooting_gen (d : sd) (r : option bool) :
  (if py_is_none r
   then (if is_all_rooted d then Some true else if is_all_strictly_unrooted d then Some false else r)
   else r) = resolve_rooting d r.
Proof. destruct r as [b|]; simpl; [reflexivity|]. destruct (is_all_rooted d), (is_all_strictly_unrooted d); reflexivity. Qed.

Theorem gen_consensus_tree_eq c x all bits mf rarg b :
  NoDup (keys (counts (x_sd x))) ->
  (forall tbl, freqs (x_sd x) = Some tbl -> NoDup (keys tbl)) ->
  x_sd (fst (gen_consensus_tree c x all bits mf rarg b)) = fst (consensus (x_sd x) all bits mf rarg) /\
  snd (gen_consensus_tree c x all bits mf rarg b)
  = (snd (fst (fst (snd (consensus (x_sd x) all bits mf rarg)))),
     snd (fst (snd (consensus (x_sd x) all bits mf rarg)))).
Proof.
  intros ND NDt. unfold gen_consensus_tree.
  rewrite !gen_is_all_counted_trees_rooted_eq.
  (* the rooting resolution leaves self unchanged *)
  assert (R : (let '(self, is_rooted) :=
                   if py_is_none rarg
                   then let '(self, r1) := (x, is_all_rooted (x_sd x)) in
                        let '(is_rooted, self) :=
                            if r1 then (Some true, self)
                            else let '(self, r2) := gen_is_all_counted_trees_strictly_unrooted c self in
                                 (if r2 then Some false else rarg, self) in
                        (self, is_rooted)
                   else (x, rarg) in (self, is_rooted)) = (x, resolve_rooting (x_sd x) rarg)).
  { rewrite <- resolve_rooting_gen. destruct rarg as [rb|]; simpl py_is_none; cbv iota; [reflexivity|].
    destruct (is_all_rooted (x_sd x)); [reflexivity|].
    rewrite gen_is_all_counted_trees_strictly_unrooted_eq.
    destruct (is_all_strictly_unrooted (x_sd x)); reflexivity. }
  cbv zeta in R |- *.
  match goal with |- context [let '(self, is_rooted) := ?E in _] =>
    replace E with (x, resolve_rooting (x_sd x) rarg) by (symmetry; etransitivity; [|exact R]; destruct E; reflexivity)
  end.
  cbv iota beta.
  destruct (gen_get_split_frequencies_eq c x ND) as [E1 E2].
  destruct (gen_get_split_frequencies c x) as [x' fo]. simpl in E1, E2. subst fo.
  rewrite consensus_unfold. cbn [fst snd].
  assert (NT : NoDup (keys (snd (get_freqs (x_sd x))))).
  { destruct (get_freqs_cases (x_sd x)) as [G | [tbl [F [_ G]]]]; rewrite G; simpl.
    - unfold freq_table. destruct (total (x_sd x) =? 0); unfold keys; rewrite map_map; exact ND.
    - now apply NDt. }
  split.
  - rewrite E1. destruct (py_is_none (freqs (x_sd x)) || negb (counted_for_freqs (x_sd x) =? total (x_sd x))) eqn:B.
    + reflexivity.
    + unfold get_freqs. apply orb_false_iff in B. destruct B as [B1 B2].
      destruct (freqs (x_sd x)); [|discriminate]. rewrite B2. reflexivity.
  - unfold py_from_split_bitmasks. f_equal.
    + unfold py_for, py_dict_keys, py_odict_get, py_append.
      erewrite fold_left_ext_in; [rewrite (candidates_loop mf _ NT)|]; [reflexivity|].
      intros acc s _. rewrite cond_passes. reflexivity.
    + unfold py_for, py_dict_keys, py_odict_get, py_append.
      erewrite fold_left_ext_in; [rewrite (candidates_loop mf _ NT)|]; [reflexivity|].
      intros acc s _. rewrite cond_passes. reflexivity.
Qed.
