(* C02 metadata: assembly of the round trip for trees carrying rooting state, weight, annotations
   and comments; non-vacuity examples; refutation witnesses. *)
From Coq Require Import ZArith List Bool Lia Arith.
From DV Require Import Model.PyPrims Gen.CharClasses Model.Tokenizer Model.Newick Model.C02Spec
     Model.C02Meta Model.C02MetaSpec
     Proofs.C02Tok Proofs.C02Escape Proofs.C02Lex Proofs.C02Parse Proofs.C02Resolve Proofs.C02Main
     Proofs.C02MetaLex Proofs.C02MetaParse.
Import ListNotations.
Open Scope Z_scope.

(* ---- strings ---- *)
Lemma lstrip_id s : match s with c :: _ => py_isspace c = false | [] => True end -> lstrip s = s.
Proof. destruct s as [|c s]; [reflexivity|]. intro H. simpl. rewrite H. reflexivity. Qed.

Lemma py_strip_id c s : py_isspace c = false -> py_isspace (last (c :: s) c) = false -> py_strip (c :: s) = c :: s.
Proof.
  intros H1 H2. unfold py_strip. rewrite (lstrip_id (c :: s)) by exact H1.
  remember (c :: s) as z eqn:Ez.
  assert (E : z = removelast z ++ [last z c]) by (apply app_removelast_last; subst z; discriminate).
  remember (removelast z) as R eqn:ER. remember (last z c) as a eqn:Ea. clear ER Ea Ez.
  rewrite E. rewrite rev_app_distr. cbn [rev app]. rewrite lstrip_id by exact H2.
  cbn [rev]. rewrite rev_involutive. reflexivity.
Qed.

Lemma split_no_sep sep s : forallb (fun c => negb (c =? sep)) s = true -> split_on sep s = [s].
Proof.
  induction s as [|c s IH]; intro H; [reflexivity|]. simpl in H. apply andb_true_iff in H. destruct H as [Hc Hs].
  apply negb_true_iff in Hc. cbn [split_on]. rewrite Hc, (IH Hs). reflexivity.
Qed.

Lemma split_app sep a b : forallb (fun c => negb (c =? sep)) a = true ->
  split_on sep (a ++ sep :: b) = a :: split_on sep b.
Proof.
  induction a as [|c a IH]; intro H.
  - simpl. rewrite Z.eqb_refl. reflexivity.
  - simpl in H. apply andb_true_iff in H. destruct H as [Hc Hs]. apply negb_true_iff in Hc.
    simpl app. cbn [split_on]. rewrite Hc, (IH Hs). reflexivity.
Qed.

Section CMain.
Variable L : Type.
Variable render_len : L -> str.
Variable parse_len : str -> option L.
Variable lower : str -> str.
Variable wdiv : L -> L -> option L.
Variable RA : Type.
Variable parse_md : str -> list RA.
Hypothesis len_roundtrip : forall x, parse_len (render_len x) = Some x.
Hypothesis len_plain : forall x, render_len x <> [] /\ forallb numeral_char (render_len x) = true.
Hypothesis len_weight : forall x, forallb weight_char (render_len x) = true.
Hypothesis parse_blank : forall s, parse_len (SPACE :: s) = parse_len s.
Variable mo : mt_opts.
Variable dw : L.

Local Notation o := (mo_rt mo).
Local Notation ro := (rt_ropts (mo_rt mo)).
Local Notation mro := (mo_ropts L mo dw).
Local Notation mwo := (mo_wopts mo).

Notation ntree := (ntree L).
Notation ptree := (ptree L).
Notation ctree := (ctree L).
Notation mtree := (mtree L).
Notation strip := (strip L).
Notation cm := (cm L mo).
Notation tcm := (tcm L mo).
Notation cwf := (cwf L mo).
Notation cwtoks := (cwtoks L render_len mo).
Notation cbody_toks := (cbody_toks L render_len mo).
Notation trail := (trail L mo).
Notation cexpect := (cexpect L mo).
Notation cexpect_list := (cexpect_list L mo).
Notation ctaxa := (ctaxa L mo).
Notation PC := (process_comments RA parse_md (mo_ex mo)).

(* ---- fuel ---- *)
Lemma ckids_len p ks : (forall k, In k ks -> cwf k = true -> (2 * csize L k <= length (cwtoks k) + 1)%nat) ->
  forallb cwf ks = true ->
  (2 * csizes L ks + 1 <= length (ckids_toks L render_len mo p ks))%nat.
Proof.
  revert p. induction ks as [|k ks IH]; intros p Hk Hwf.
  - simpl. lia.
  - simpl in Hwf. apply andb_true_iff in Hwf. destruct Hwf as [H1 H2].
    rewrite (ckids_cons L render_len mo). rewrite csizes_cons. cbn [length]. rewrite app_length.
    pose proof (Hk k (or_introl eq_refl) H1). pose proof (IH (trail k) (fun k0 Hi => Hk k0 (or_intror Hi)) H2). lia.
Qed.

Lemma cwtoks_len : forall t, cwf t = true -> (2 * csize L t <= length (cwtoks t) + 1)%nat.
Proof.
  induction t as [tx lb ln m ks IH] using ctree_ind'. intro Hwf.
  destruct ks as [|k ks].
  - destruct (cwtoks_head L render_len lower mo _ Hwf) as [s [q [c [rest [Ew _]]]]]. rewrite Ew. simpl. lia.
  - pose proof (cwf_unfold L mo _ _ _ _ _ Hwf) as [_ [_ [_ Hk]]]. simpl in Hk. apply andb_true_iff in Hk. destruct Hk as [Hk Hks].
    pose proof (Forall_inv IH) as IHk. pose proof (Forall_inv_tail IH) as IHks. cbv beta in IHk.
    rewrite cwtoks_internal. rewrite csize_eq, csizes_cons. cbn [length]. rewrite !app_length.
    specialize (IHk Hk).
    assert (A : (2 * csizes L ks + 1 <= length (ckids_toks L render_len mo (trail k) ks))%nat).
    { apply ckids_len; [| exact Hks]. intros k0 Hi. rewrite Forall_forall in IHks. apply IHks. exact Hi. }
    lia.
Qed.

(* ---- the end of the statement ---- *)
Lemma HK_semi_c : HKt L parse_len lower mo [SEMI] [] (EndEof []) 0 K_final.
Proof.
  intros cs isint lp nd f2 seen2 m2 Hf. destruct f2 as [|f2]; [lia|].
  destruct nd as [a b c d]. cbn. reflexivity.
Qed.

(* ---- _process_tree_comments on the comments written in front of the statement ---- *)
Lemma PC_cons c r : PC (c :: r) = (fst (PC [c]) ++ fst (PC r), snd (PC [c]) ++ snd (PC r)).
Proof.
  cbn [process_comments]. destruct (PC r) as [a k]. cbn [fst snd].
  destruct (mo_ex mo && starts_with [AMP] c)%bool.
  - destruct (parse_md c) as [|x l]; cbn [fst snd app]; rewrite ?app_nil_r; reflexivity.
  - reflexivity.
Qed.

Lemma ptc_plain : forall cs a, forallb (tree_comment_ok (mo_sw mo)) cs = true ->
  ptc_loop L parse_len wdiv RA parse_md mro cs a
  = Ok (mkTacc L RA (ta_rooting L RA a) (ta_weight L RA a) (ta_anns L RA a ++ fst (PC cs)) (ta_comments L RA a ++ snd (PC cs))).
Proof.
  induction cs as [|c cs IH]; intros a H.
  - cbn. rewrite !app_nil_r. destruct a; reflexivity.
  - cbn [forallb] in H. apply andb_true_iff in H. destruct H as [Hc Hcs].
    unfold tree_comment_ok in Hc. rewrite !andb_true_iff, !negb_true_iff in Hc. destruct Hc as [[_ H1] H2].
    cbn [ptc_loop]. rewrite H1.
    change (mr_store_tree_weights L mro) with (mo_sw mo). rewrite H2.
    change (mr_extract_comment_metadata L mro) with (mo_ex mo).
    destruct (PC [c]) as [an k] eqn:E1.
    rewrite (IH _ Hcs). cbn [ta_rooting ta_weight ta_anns ta_comments].
    rewrite (PC_cons c cs). rewrite E1. cbn [fst snd]. rewrite <- !app_assoc. reflexivity.
Qed.

Lemma parse_weight_text w q : weight_value L wdiv w = Some q ->
  parse_weight L parse_len wdiv (SPACE :: render_weight L render_len w) = Ok q.
Proof.
  assert (NS : forall x, forallb (fun c => negb (c =? SLASH)) (render_len x) = true).
  { intro x. apply forallb_forall. intros c Hc. pose proof (len_weight x) as H. rewrite forallb_forall in H.
    specialize (H c Hc). unfold weight_char in H. rewrite !andb_true_iff in H. tauto. }
  destruct w as [x|n d]; cbn [weight_value render_weight]; intro Hq.
  - injection Hq as <-. unfold parse_weight.
    rewrite split_no_sep by (cbn [forallb]; rewrite NS; reflexivity).
    rewrite parse_blank, len_roundtrip. reflexivity.
  - unfold parse_weight.
    change (SPACE :: render_len n ++ SLASH :: render_len d) with ((SPACE :: render_len n) ++ SLASH :: render_len d).
    rewrite split_app by (cbn [forallb]; rewrite NS; reflexivity).
    rewrite split_no_sep by apply NS.
    rewrite parse_blank, !len_roundtrip, Hq. reflexivity.
Qed.

Lemma weight_text_strip w : py_strip (weight_text L render_len w) = weight_text L render_len w.
Proof.
  unfold weight_text. simpl app. apply py_strip_id; [reflexivity|].
  set (s := render_weight L render_len w).
  assert (Hs : forall c, In c s -> py_isspace c = false).
  { intros c Hc. unfold s in Hc.
    assert (A : forall x c, In c (render_len x) -> py_isspace c = false).
    { intros x c0 H0. pose proof (len_weight x) as H. rewrite forallb_forall in H. specialize (H c0 H0).
      unfold weight_char in H. rewrite !andb_true_iff in H. destruct H as [_ H]. apply negb_true_iff in H. exact H. }
    destruct w as [x|n d]; cbn [render_weight] in Hc.
    - apply (A x c Hc).
    - apply in_app_iff in Hc. destruct Hc as [Hc|[Hc|Hc]]; [apply (A n c Hc) | subst c; reflexivity | apply (A d c Hc)]. }
  assert (Hl : forall (s : str) d, (forall c, In c s -> py_isspace c = false) -> py_isspace d = false -> py_isspace (last s d) = false).
  { clear. induction s as [|x s IH]; intros d H Hd; [exact Hd|]. destruct s as [|y s]; [apply H; left; reflexivity|].
    change (last (x :: y :: s) d) with (last (y :: s) d). apply IH; [intros c Hc; apply H; right; exact Hc | exact Hd]. }
  change (last (38 :: 87 :: 32 :: s) 38) with (last (32 :: s) 38).
  destruct s as [|y s'] eqn:Es.
  - exfalso. unfold s in Es. destruct w as [x|n d]; cbn [render_weight] in Es.
    + destruct (len_plain x) as [Hne _]. congruence.
    + destruct (len_plain n) as [Hne _]. destruct (render_len n); [congruence | discriminate].
  - change (last (32 :: y :: s') 38) with (last (y :: s') 38). apply Hl; [exact Hs | reflexivity].
Qed.

Lemma process_prologue (t : mtree) :
  forallb (tree_comment_ok (mo_sw mo)) (tcm t) = true -> weight_ok L wdiv mo t = true ->
  process_tree_comments_m L parse_len wdiv RA parse_md mro (prologue_comments L render_len mo t)
  = Ok (expected_rooting o (mt_rooted L t), expected_weight L wdiv mo dw t, fst (PC (tcm t)), snd (PC (tcm t))).
Proof.
  intros Htc Hw. unfold process_tree_comments_m, prologue_comments.
  (* the tail: weight comment and the plain comments *)
  assert (TAILW : forall a, ta_weight L RA a = None ->
    ptc_loop L parse_len wdiv RA parse_md mro (weight_comments L render_len mo t ++ tcm t) a
    = Ok (mkTacc L RA (ta_rooting L RA a)
            (if mo_sw mo then match mt_weight L t with
                              | Some w => Some (match weight_value L wdiv w with Some q => q | None => dw end)
                              | None => None end else None)
            (ta_anns L RA a ++ fst (PC (tcm t))) (ta_comments L RA a ++ snd (PC (tcm t))))).
  { intros a Ha. unfold weight_comments, weight_ok in *.
    destruct (mo_sw mo) eqn:Esw.
    - destruct (mt_weight L t) as [w|].
      + destruct (weight_value L wdiv w) as [q|] eqn:Eq; [|discriminate].
        simpl app. cbn [ptc_loop]. rewrite weight_text_strip.
        assert (R : mem_str (weight_text L render_len w) reader_rooting_comments = false).
        { unfold weight_text. unfold mem_str, reader_rooting_comments. cbn. reflexivity. }
        rewrite R. change (mr_store_tree_weights L mro) with (mo_sw mo). rewrite Esw.
        assert (P : existsb (fun p => starts_with p (weight_text L render_len w)) reader_weight_prefixes = true) by reflexivity.
        rewrite P. cbn [andb]. unfold weight_text. cbn [skipn app].
        change 32 with SPACE. rewrite (parse_weight_text w q Eq). cbn [bind].
        rewrite ptc_plain by (rewrite Esw; exact Htc). cbn [ta_rooting ta_weight ta_anns ta_comments]. reflexivity.
      + simpl app. rewrite ptc_plain by (rewrite Esw; exact Htc). rewrite Ha. reflexivity.
    - simpl app. rewrite ptc_plain by (rewrite Esw; exact Htc). rewrite Ha. reflexivity. }
  unfold rooting_comments, expected_rooting, expected_weight.
  destruct (rt_sr o).
  - simpl app. rewrite TAILW by reflexivity. cbn [bind ta_rooting ta_weight ta_anns ta_comments app].
    change (mr_store_tree_weights L mro) with (mo_sw mo).
    destruct (mo_sw mo); [destruct (mt_weight L t)|]; reflexivity.
  - destruct (mt_rooted L t) as [[|]|]; simpl app; cbn [ptc_loop].
    + change (mem_str (py_strip [38; 82]) reader_rooting_comments) with true. cbv iota.
      rewrite TAILW by reflexivity. cbn [bind ta_rooting ta_weight ta_anns ta_comments app].
      change (mr_store_tree_weights L mro) with (mo_sw mo).
      change (py_strip [38; 82]) with [38; 82].
      destruct (mo_sw mo); [destruct (mt_weight L t)|]; reflexivity.
    + change (mem_str (py_strip [38; 85]) reader_rooting_comments) with true. cbv iota.
      rewrite TAILW by reflexivity. cbn [bind ta_rooting ta_weight ta_anns ta_comments app].
      change (mr_store_tree_weights L mro) with (mo_sw mo).
      change (py_strip [38; 85]) with [38; 85].
      destruct (mo_sw mo); [destruct (mt_weight L t)|]; reflexivity.
    + rewrite TAILW by reflexivity. cbn [bind ta_rooting ta_weight ta_anns ta_comments app].
      change (mr_store_tree_weights L mro) with (mo_sw mo).
      destruct (mo_sw mo); [destruct (mt_weight L t)|]; reflexivity.
Qed.

(* ---- the statement ---- *)
Lemma hdc_sub t : cm t = [] -> hdc (cwtoks t) = [] \/ exists k ks tx lb ln m, t = CNd tx lb ln m (k :: ks).
Proof.
  intro H. destruct t as [tx lb ln m [|k ks]]; [left | right; eauto 8].
  cbn [C02MetaLex.cwtoks]. unfold C02MetaLex.cbody_toks, tag_toks. rewrite H.
  destruct (c_len L (CNd tx lb ln m [])); destruct (tag_of L o (strip (CNd tx lb ln m []))) as [lq|]; cbn; try reflexivity.
  destruct (tag_q o lq); reflexivity.
Qed.

Lemma hdc_root (t : mtree) : cwf (mt_root L t) = true -> root_ok L mo t = true -> hdc (cwtoks (mt_root L t)) = [].
Proof.
  intros Hwf Hr. unfold root_ok in Hr. destruct (mt_root L t) as [tx lb ln m [|k ks]] eqn:Er.
  - cbn [is_cleaf c_kids is_nil negb orb] in Hr. apply andb_true_iff in Hr. destruct Hr as [_ Hr].
    destruct (cm (CNd tx lb ln m [])) eqn:Ec; [|discriminate].
    destruct (hdc_sub _ Ec) as [H|[k [ks [a [b [c [d H]]]]]]]; [exact H | discriminate].
  - rewrite cwtoks_internal. reflexivity.
Qed.

Lemma cparen_leafb t : (if negb (is_cleaf L t) then 1 else 0) = 0 + cparen L t.
Proof. destruct t as [tx lb ln m [|k ks]]; reflexivity. Qed.

Notation parse_tree_statement_m := (parse_tree_statement_m L parse_len lower wdiv RA parse_md mro).
Notation read_newick_m := (read_newick_m L parse_len lower wdiv RA parse_md).

Lemma statement_parse_m (t : mtree) F :
  cwf (mt_root L t) = true -> forallb (tree_comment_ok (mo_sw mo)) (tcm t) = true ->
  root_ok L mo t = true -> weight_ok L wdiv mo t = true ->
  NoDup (map lower (ctaxa (mt_root L t))) ->
  (cneed L (mt_root L t) <= F)%nat -> (2 <= F)%nat ->
  parse_tree_statement_m F
    (init_pstate (add_comments (prologue_comments L render_len mo t)
                               (cwtoks (mt_root L t) ++ [Tc [SEMI] false (trail (mt_root L t))]), EndEof [])
                 (new_mapper lower [] false false))
  = Ok (Some (mkMR (expected_rooting o (mt_rooted L t)) (expected_weight L wdiv mo dw t)
                   (fst (PC (tcm t))) (snd (PC (tcm t)))
                   (process_ptree L RA parse_md (mo_ex mo) (fst (cexpect (mt_root L t) 0)))),
        K_final (seen_after 0 (length (ctaxa (mt_root L t))) [])
                (add_taxa lower (new_mapper lower [] false false) (ctaxa (mt_root L t)))).
Proof.
  intros Hwf Htc Hroot Hw Hnd HF H2. set (m0 := new_mapper lower [] false false). set (root := mt_root L t) in *.
  destruct (cwtoks_head L render_len lower mo root Hwf) as [s [q [c1 [rest [Ew Hcur]]]]].
  pose proof (hdc_root t Hwf Hroot) as Hc1. fold root in Hc1. rewrite Ew in Hc1. cbn [hdc t_comments Tc] in Hc1. subst c1.
  pose proof (Pnode_all L render_len parse_len lower len_roundtrip mo root F [SEMI] false [] (EndEof []) 0 false [] m0 [] None K_final Hwf HF
                (Minv_new lower) (fun x (H : In x []) => match H with end)) as HP.
  rewrite app_nil_r in HP. specialize (HP Hnd (or_introl eq_refl) HK_semi_c).
  destruct (Hcur [] (EndEof []) 0 false [] m0 (rest ++ [Tc [SEMI] false (trail root)])) as [C1 [C2 [C3 C4]]].
  unfold C02Meta.parse_tree_statement_m. rewrite Ew in *. simpl app in *.
  unfold add_comments. cbn [t_text t_quoted t_comments t_eof Tc]. rewrite app_nil_r.
  change (pull_comments (init_pstate (mkTok s q (prologue_comments L render_len mo t) false :: rest ++ [Tc [SEMI] false (trail root)], EndEof []) m0))
    with (@nil str, mkPS None false [] (mkTok s q (prologue_comments L render_len mo t) false :: rest ++ [Tc [SEMI] false (trail root)]) (EndEof []) 0 false [] m0).
  destruct F as [|[|F]]; try lia.
  change (cur_is (Sc [] s (rest ++ [Tc [SEMI] false (trail root)]) (EndEof []) 0 false [] m0) SEMI)
    with (match s with [x] => x =? SEMI | _ => false end) in C3.
  rewrite (skip_first F s q _ _ (EndEof []) m0 C3). cbn [bind].
  change (ps_eof (St s (rest ++ [Tc [SEMI] false (trail root)]) (EndEof []) 0 false [] m0)) with false. cbv iota.
  change (cur_is (St s (rest ++ [Tc [SEMI] false (trail root)]) (EndEof []) 0 false [] m0) LPAREN)
    with (cur_is (Sc [] s (rest ++ [Tc [SEMI] false (trail root)]) (EndEof []) 0 false [] m0) LPAREN).
  rewrite C4. rewrite (process_prologue t Htc Hw). cbn [bind].
  change (mr_base L mro) with ro.
  change (set_seen_map (set_complete (set_nesting (St s (rest ++ [Tc [SEMI] false (trail root)]) (EndEof []) 0 false [] m0)
                                                  (if negb (is_cleaf L root) then 1 else 0)) false) []
                       (ps_map (set_nesting (St s (rest ++ [Tc [SEMI] false (trail root)]) (EndEof []) 0 false [] m0)
                                            (if negb (is_cleaf L root) then 1 else 0))))
    with (Sc [] s (rest ++ [Tc [SEMI] false (trail root)]) (EndEof []) (if negb (is_cleaf L root) then 1 else 0) false [] m0).
  rewrite cparen_leafb.
  cbn [ST0 hdc t_text t_comments Tc] in HP. rewrite HP. cbn [bind]. reflexivity.
Qed.

Theorem newick_meta_roundtrip_expect : forall (t : mtree),
  cwf (mt_root L t) = true -> forallb (tree_comment_ok (mo_sw mo)) (tcm t) = true ->
  root_ok L mo t = true -> weight_ok L wdiv mo t = true ->
  NoDup (map lower (ctaxa (mt_root L t))) ->
  read_newick_m mro [] (cwrite_tree_list L render_len mwo [t])
  = Ok ([mkMR (expected_rooting o (mt_rooted L t)) (expected_weight L wdiv mo dw t)
              (fst (PC (tcm t))) (snd (PC (tcm t)))
              (process_ptree L RA parse_md (mo_ex mo) (fst (cexpect (mt_root L t) 0)))],
        ctaxa (mt_root L t)).
Proof.
  intros t Hwf Htc Hroot Hw Hnd. unfold C02Meta.read_newick_m.
  change (ro_preserve_underscores (mr_base L mro)) with (rt_pu o).
  change (ro_case_sensitive_taxon_labels (mr_base L mro)) with false.
  assert (Hbf : forallb bracket_free (tcm t) = true).
  { apply forallb_forall. intros c Hc. rewrite forallb_forall in Htc. specialize (Htc c Hc).
    unfold tree_comment_ok in Htc. rewrite !andb_true_iff in Htc. tauto. }
  rewrite (tokenize_cwrite_tree L render_len len_plain mo len_weight t Hwf Hbf Hroot). cbn [fst snd].
  set (root := mt_root L t) in *.
  set (toks := add_comments (prologue_comments L render_len mo t) (cwtoks root ++ [Tc [SEMI] false (trail root)])).
  assert (Hlen : length toks = S (length (cwtoks root))).
  { unfold toks. destruct (cwtoks_head L render_len lower mo root Hwf) as [s [q [c [rest [Ew _]]]]]. rewrite Ew. simpl. rewrite app_length. simpl. lia. }
  pose proof (cwtoks_len root Hwf) as Hl.
  assert (HF : (cneed L root <= reader_fuel toks)%nat) by (unfold cneed, reader_fuel; lia).
  assert (H2 : (2 <= reader_fuel toks)%nat) by (unfold reader_fuel; lia).
  remember (reader_fuel toks) as F eqn:EF. clear EF. subst toks.
  destruct F as [|[|F]]; try lia.
  cbn [C02Meta.tree_iter_m].
  pose proof (statement_parse_m t (S (S F)) Hwf Htc Hroot Hw Hnd HF H2) as SP. fold root in SP.
  rewrite SP. cbn [bind app].
  unfold C02Meta.parse_tree_statement_m, K_final.
  cbn [pull_comments ps_comments set_tok ps_cur ps_eof ps_toks ps_end skip_semicolons cur_is orb andb negb bind].
  cbn [ps_eof set_tok]. cbv iota. cbn [bind fst snd ps_map]. unfold set_tok. cbn [ps_map].
  rewrite (add_taxa_ns lower). reflexivity.
Qed.

(* ---- the taxon numbers name the written taxa ---- *)
Lemma resolve_cexpect_gen ns : forall t i,
  snd (cexpect t i) = snd (expect L o (strip t) i) /\
  resolve L ns (fst (cexpect t i)) = resolve L ns (fst (expect L o (strip t) i)).
Proof.
  induction t as [tx lb ln m ks IH] using ctree_ind'. intro i.
  assert (KS : forall i, snd (cexpect_list ks i) = snd (expect_list L o (map strip ks) i) /\
                         resolve_list L ns (fst (cexpect_list ks i)) = resolve_list L ns (fst (expect_list L o (map strip ks) i))).
  { clear i. induction IH as [|k r Hk Hr IHr]; intro i; [split; reflexivity|].
    cbn [C02MetaSpec.cexpect_list map expect_list]. destruct (Hk i) as [A1 A2].
    destruct (cexpect k i) as [p j]. destruct (expect L o (strip k) i) as [p' j']. cbn [fst snd] in *. subst j'.
    destruct (IHr j) as [B1 B2].
    destruct (cexpect_list r j) as [ps j2]. destruct (expect_list L o (map strip r) j) as [ps' j2']. cbn [fst snd] in *.
    split; [exact B1|]. cbn [resolve_list]. rewrite A2, B2. reflexivity. }
  rewrite (cexpect_unfold L mo). cbn [C02Meta.strip]. rewrite (expect_unfold L o).
  destruct (KS i) as [K1 K2].
  destruct (cexpect_list ks i) as [pks j]. destruct (expect_list L o (map strip ks) i) as [pks' j']. cbn [fst snd] in *. subst j'.
  unfold cown, cexp_label. cbn [C02Meta.strip].
  destruct (own_taxa L o (Nd tx lb ln (map strip ks))); cbn [fst snd]; (split; [reflexivity|]);
    rewrite !resolve_unfold, K2; reflexivity.
Qed.

Lemma resolve_cexpect t : wf_tree L o (strip t) = true ->
  resolve L (ctaxa t) (fst (cexpect t 0)) = Some (norm L (strip t)).
Proof.
  intro Hwf. destruct (resolve_cexpect_gen (ctaxa t) t 0) as [_ H]. rewrite H.
  apply resolve_expect. exact Hwf.
Qed.

(* ---- documents whose comments all stay comments ---- *)
Lemma PC_plain cs : forallb (plain_comment (mo_ex mo)) cs = true -> PC cs = ([], cs).
Proof.
  induction cs as [|c cs IH]; intro H; [reflexivity|].
  cbn [forallb] in H. apply andb_true_iff in H. destruct H as [Hc Hcs].
  cbn [process_comments]. rewrite (IH Hcs). unfold plain_comment in Hc. apply negb_true_iff in Hc. rewrite Hc. reflexivity.
Qed.

Lemma process_plain : forall t i, plain_tree L mo t = true ->
  process_ptree L RA parse_md (mo_ex mo) (fst (cexpect t i)) = as_plain (fst (cexpect t i)).
Proof.
  induction t as [tx lb ln m ks IH] using ctree_ind'. intros i Hp.
  cbn [plain_tree] in Hp. apply andb_true_iff in Hp. destruct Hp as [Hc Hk].
  assert (KS : forall l, Forall (fun t : ctree => forall i, plain_tree L mo t = true ->
                    process_ptree L RA parse_md (mo_ex mo) (fst (cexpect t i)) = as_plain (fst (cexpect t i))) l ->
               forallb (plain_tree L mo) l = true ->
               forall i, map (process_ptree L RA parse_md (mo_ex mo)) (fst (cexpect_list l i)) = map as_plain (fst (cexpect_list l i))).
  { clear. induction 1 as [|k r Hk0 Hr IHr]; intros Hk i; [reflexivity|].
    simpl in Hk. apply andb_true_iff in Hk. destruct Hk as [Hk1 Hk2].
    cbn [C02MetaSpec.cexpect_list]. specialize (Hk0 i Hk1).
    destruct (cexpect k i) as [p j]. cbn [fst] in Hk0. specialize (IHr Hk2 j).
    destruct (cexpect_list r j) as [ps j2]. cbn [fst map] in *. rewrite Hk0, IHr. reflexivity. }
  specialize (KS ks IH Hk).
  rewrite (cexpect_unfold L mo). specialize (KS i). destruct (cexpect_list ks i) as [pks j]. cbn [fst] in KS.
  destruct (cown L mo (CNd tx lb ln m ks)); cbn [fst process_ptree as_plain];
    unfold C02MetaSpec.cm; rewrite (PC_plain _ Hc), KS; reflexivity.
Qed.

End CMain.

(* ------------------------------------------------------------------------------------------------ *)
(* the exported statements                                                                           *)

Lemma newick_meta_roundtrip_l :
  forall (L : Type) (render_len : L -> str) (parse_len : str -> option L) (lower : str -> str)
         (wdiv : L -> L -> option L) (RA : Type) (parse_md : str -> list RA),
    (forall x, parse_len (render_len x) = Some x) ->
    (forall x, render_len x <> [] /\ forallb numeral_char (render_len x) = true) ->
    (forall x, forallb weight_char (render_len x) = true) ->
    (forall s, parse_len (SPACE :: s) = parse_len s) ->
  forall (mo : mt_opts) (dw : L) (t : mtree L),
    mwf L wdiv mo t = true ->
    NoDup (map lower (taxa_order L (mo_rt mo) (strip L (mt_root L t)))) ->
    let ns := taxa_order L (mo_rt mo) (strip L (mt_root L t)) in
    let p := fst (cexpect L mo (mt_root L t) 0) in
    let pc := process_comments RA parse_md (mo_ex mo) (tcm L mo t) in
    read_newick_m L parse_len lower wdiv RA parse_md (mo_ropts L mo dw) []
                  (cwrite_tree_list L render_len (mo_wopts mo) [t])
      = Ok ([mkMR (mt_rooted L t) (expected_weight L wdiv mo dw t) (fst pc) (snd pc)
                  (process_ptree L RA parse_md (mo_ex mo) p)], ns)
    /\ resolve L ns p = Some (norm L (strip L (mt_root L t)))
    /\ (plain_mtree L mo t = true ->
        fst pc = [] /\ snd pc = tcm L mo t /\ process_ptree L RA parse_md (mo_ex mo) p = as_plain p).
Proof.
  intros L render_len parse_len lower wdiv RA parse_md H1 H2 H3 H4 mo dw t Hwf Hnd ns p pc.
  unfold mwf in Hwf. rewrite !andb_true_iff in Hwf. destruct Hwf as [[[[Hc Htc] Hr] Hw] Hroot].
  split; [|split].
  - unfold ns, p, pc.
    rewrite (newick_meta_roundtrip_expect L render_len parse_len lower wdiv RA parse_md H1 H2 H3 H4 mo dw t Hc Htc Hr Hw Hnd).
    rewrite (expected_rooting_consistent _ _ Hroot). reflexivity.
  - apply (resolve_cexpect L mo). unfold cwf in Hc. apply andb_true_iff in Hc. tauto.
  - intro Hp. unfold plain_mtree in Hp. apply andb_true_iff in Hp. destruct Hp as [P1 P2].
    unfold pc. rewrite (PC_plain RA parse_md mo _ P1). repeat split.
    apply (process_plain L RA parse_md mo). exact P2.
Qed.

(* ---------- non-vacuity and refutation witnesses ---------- *)
(* float() accepts blanks around the numeral *)
Definition parse_num_ws (s : str) : option str :=
  parse_num ((fix go (s : str) : str := match s with c :: r => if c =? SPACE then go r else s | [] => [] end) s).

Lemma parse_num_ws_blank s : parse_num_ws (SPACE :: s) = parse_num_ws s.
Proof. reflexivity. Qed.

(* a symbolic quotient *)
Definition sym_div (a b : str) : option str := if str_eqb b [48] then None else Some (a ++ SLASH :: b).

Definition no_md (c : str) : list unit := [].

Definition mo_ex1 : mt_opts := mkMtOpts rt_default true true false true.

Definition nm (a b : list str) : nmeta := mkNmeta [] [] a b.

(* [&R] [&W 1/2] [tc][t d](('a (':1[n2],b[e3])x:3[n1][e1],d[n4])r[n0][e0]; *)
Definition ex_ctree : ctree str :=
  CNd None (Some [114]) None (nm [[110; 48]] [[101; 48]])
    [CNd None (Some [120]) (Some [51]) (nm [[110; 49]] [[101; 49]])
       [CNd (Some [97; 32; 40]) None (Some [49]) (nm [[110; 50]] []) [];
        CNd (Some [98]) None None (nm [] [[101; 51]]) []];
     CNd (Some [100]) None None (nm [[110; 52]] []) []].

Definition ex_mtree : mtree str := mkMtree (Some true) (Some (WFrac [49] [50])) [] [[116; 99]; [116; 32; 100]] ex_ctree.

Example ex_mtree_wf : mwf str sym_div mo_ex1 ex_mtree = true /\ plain_mtree str mo_ex1 ex_mtree = true.
Proof. vm_compute. auto. Qed.

Example ex_mtree_roundtrip :
  read_newick_m str parse_num_ws (fun s => s) sym_div unit no_md (mo_ropts str mo_ex1 [49; 46; 48]) []
                (cwrite_tree_list str (fun x => x) (mo_wopts mo_ex1) [ex_mtree])
  = Ok ([mkMR (Some true) (Some [49; 47; 50]) [] [[116; 99]; [116; 32; 100]]
              (as_plain (fst (cexpect str mo_ex1 ex_ctree 0)))],
        [[97; 32; 40]; [98]; [100]]).
Proof. vm_compute. reflexivity. Qed.

(* a bracket inside a comment text is lost: "[x[y]z]" is read as the comment "xyz" *)
Definition bracket_mtree : mtree str :=
  mkMtree None None [] [[120; 91; 121; 93; 122]]
          (CNd None None None (nm [] []) [CNd (Some [97]) None None (nm [] []) []; CNd (Some [98]) None None (nm [] []) []]).

Lemma comment_bracket_refuted_l :
  mwf str sym_div mo_ex1 bracket_mtree = false /\
  exists p,
  read_newick_m str parse_num_ws (fun s => s) sym_div unit no_md (mo_ropts str mo_ex1 [49; 46; 48]) []
                (cwrite_tree_list str (fun x => x) (mo_wopts mo_ex1) [bracket_mtree])
  = Ok ([mkMR None (Some [49; 46; 48]) [] [[120; 121; 122]] p], [[97]; [98]]).
Proof. split; [vm_compute; reflexivity|]. eexists. vm_compute. reflexivity. Qed.

(* a single-node tree: the node's comment is captured with the label token and delivered as a comment
   of the TREE ("[tc]a[nc];" reads as tree comments tc, nc and a node without comments) *)
Definition single_mtree : mtree str :=
  mkMtree None None [] [[116; 99]] (CNd (Some [97]) None None (nm [[110; 99]] []) []).

Lemma single_node_comments_refuted_l :
  mwf str sym_div mo_ex1 single_mtree = false /\
  read_newick_m str parse_num_ws (fun s => s) sym_div unit no_md (mo_ropts str mo_ex1 [49; 46; 48]) []
                (cwrite_tree_list str (fun x => x) (mo_wopts mo_ex1) [single_mtree])
  = Ok ([mkMR None (Some [49; 46; 48]) [] [[116; 99]; [110; 99]] (MPN (Some 0%nat) None None [] [] [])], [[97]]).
Proof. split; vm_compute; reflexivity. Qed.

(* a single-node tree whose label is written quoted, with a tree comment: "[tc]'a(';" - the quote
   after the comment is read as an ordinary character and the statement is not a tree any more *)
Definition single_quoted_mtree : mtree str :=
  mkMtree None None [] [[116; 99]] (CNd (Some [97; 40]) None None (nm [] []) []).

Lemma single_node_quoted_refuted_l :
  mwf str sym_div mo_ex1 single_quoted_mtree = false /\
  read_newick_m str parse_num_ws (fun s => s) sym_div unit no_md (mo_ropts str mo_ex1 [49; 46; 48]) []
                (cwrite_tree_list str (fun x => x) (mo_wopts mo_ex1) [single_quoted_mtree])
  = Err ParseErr.
Proof. split; vm_compute; reflexivity. Qed.

(* a tree comment that reads as a rooting or weight comment is taken for one *)
Definition rooting_comment_mtree : mtree str :=
  mkMtree (Some false) None [] [[32; 38; 82]; [38; 119; 32; 51]]
          (CNd None None None (nm [] []) [CNd (Some [97]) None None (nm [] []) []; CNd (Some [98]) None None (nm [] []) []]).

Lemma tree_comment_directive_refuted_l :
  mwf str sym_div mo_ex1 rooting_comment_mtree = false /\
  exists p,
  read_newick_m str parse_num_ws (fun s => s) sym_div unit no_md (mo_ropts str mo_ex1 [49; 46; 48]) []
                (cwrite_tree_list str (fun x => x) (mo_wopts mo_ex1) [rooting_comment_mtree])
  = Ok ([mkMR (Some true) (Some [51]) [] [] p], [[97]; [98]]).
Proof. split; [vm_compute; reflexivity|]. eexists. vm_compute. reflexivity. Qed.

(* ---------- the enumerated options alone: rooting token and store_tree_weights ---------- *)
(* With the writer's defaults suppress_annotations = suppress_item_comments = True no comment text is
   written besides the rooting and weight tokens, both of which end in a blank: the domain is the one of
   newick_roundtrip (incl. single-node trees with quoted labels) plus weight_ok. *)
Lemma mwf_default_comments : forall (L : Type) (wdiv : L -> L -> option L) (mo : mt_opts) (t : mtree L),
  mo_sa mo = true -> mo_sic mo = true ->
  mwf L wdiv mo t = wf_tree L (mo_rt mo) (strip L (mt_root L t)) && weight_ok L wdiv mo t
                    && rooting_consistent (mo_rt mo) (mt_rooted L t).
Proof.
  intros L wdiv mo t Hsa Hsic.
  assert (CM : forall c, node_comment_texts L (mo_wopts mo) c = []).
  { intro c. unfold node_comment_texts, item_annotation_texts, item_comment_texts, mo_wopts.
    cbn [mw_suppress_annotations mw_suppress_item_comments]. rewrite Hsa, Hsic. reflexivity. }
  assert (TC : tcm L mo t = []).
  { unfold tcm, tree_comment_texts, item_annotation_texts, item_comment_texts, mo_wopts.
    cbn [mw_suppress_annotations mw_suppress_item_comments]. rewrite Hsa, Hsic. reflexivity. }
  assert (CO : forall c, comments_ok L mo c = true).
  { induction c as [tx lb ln m ks IH] using ctree_ind'. cbn [comments_ok]. rewrite CM. cbn [forallb andb].
    apply forallb_forall. intros k Hk. rewrite Forall_forall in IH. apply IH. exact Hk. }
  unfold mwf, cwf, root_ok, cm. rewrite TC, CM, CO. cbn [forallb is_nil andb]. rewrite orb_true_r, !andb_true_r. reflexivity.
Qed.

Definition mo_weights : mt_opts := mkMtOpts rt_default true true true true.

(* [&R] [&W 1/2] 'a(';  - a single-node tree with a quoted label, rooted, weight 1/2 *)
Definition single_quoted_weighted : mtree str :=
  mkMtree (Some true) (Some (WFrac [49] [50])) [] [] (CNd (Some [97; 40]) None None (nm [] []) []).

Example single_quoted_weighted_ok :
  mwf str sym_div mo_weights single_quoted_weighted = true /\
  cwrite_tree_list str (fun x => x) (mo_wopts mo_weights) [single_quoted_weighted]
  = [91; 38; 82; 93; 32; 91; 38; 87; 32; 49; 47; 50; 93; 32; 39; 97; 40; 39; 59; 10] /\
  read_newick_m str parse_num_ws (fun s => s) sym_div unit no_md (mo_ropts str mo_weights [49; 46; 48]) []
                (cwrite_tree_list str (fun x => x) (mo_wopts mo_weights) [single_quoted_weighted])
  = Ok ([mkMR (Some true) (Some [49; 47; 50]) [] [] (MPN (Some 0%nat) None None [] [] [])], [[97; 40]]).
Proof. repeat split; vm_compute; reflexivity. Qed.
