(* C10: umbrella of the C10 proof files + what the invariant says, spelled out,
   + non-vacuity examples on a concrete reachable world (vacated index, duplicate labels,
   case variants, membership order different from bit order). *)
From Coq Require Import ZArith List Bool Lia Permutation Sorted.
From DV Require Import Model.PyPrims Model.C10Model.
From DV Require Export Proofs.C10Lists Proofs.C10Inv Proofs.C10Bits Proofs.C10Lookup Proofs.C10Round.
Import ListNotations.
Open Scope Z_scope.

(* the invariant is exactly these clauses *)
Lemma Inv_unfold_l (n : ns) :
  Inv n <->
  NoDup (taxa n)
  /\ (forall t, In t (taxa n) <-> exists i, alookup t (acc n) = Some i)
  /\ (forall t i, alookup t (acc n) = Some i -> 0 <= i < count n)
  /\ (forall t1 t2 i, alookup t1 (acc n) = Some i -> alookup t2 (acc n) = Some i -> t1 = t2)
  /\ (forall t i, alookup i (rev n) = Some t <-> alookup t (acc n) = Some i)
  /\ (forall t m, alookup t (bm n) = Some m ->
        exists i, alookup t (acc n) = Some i /\ m = Z.shiftl 1 i)
  /\ 0 <= count n.
Proof.
  split.
  - intros [A B C D E F G]. exact (conj A (conj B (conj C (conj D (conj E (conj F G)))))).
  - intros (A & B & C & D & E & F & G). constructor; assumption.
Qed.

Lemma inv_initial_l (mut cs : bool) (lab : list (tid * lbl)) (nxt : tid) :
  Inv (w_ns (mkW (mkNs [] [] [] 0 [] mut cs) lab nxt))
  /\ forall t, In t (taxa (w_ns (mkW (mkNs [] [] [] 0 [] mut cs) lab nxt))) -> t < nxt.
Proof. split; [apply Inv_empty| intros t []]. Qed.

Lemma case_world_inv_l (c : case) : Inv (w_ns (case_world c)).
Proof. apply Inv_empty. Qed.

(* the invariant, spelled out, in every state reachable from an empty namespace *)
Lemma ops_inv_reach_l (lower : lbl -> lbl) (mut cs : bool) (lab : list (tid * lbl)) (nxt : tid)
      (ops : list op) :
  let n := w_ns (run_world lower (mkW (mkNs [] [] [] 0 [] mut cs) lab nxt) ops) in
  NoDup (taxa n)
  /\ (forall t, In t (taxa n) <-> exists i, alookup t (acc n) = Some i)
  /\ (forall t i, alookup t (acc n) = Some i -> 0 <= i < count n)
  /\ (forall t1 t2 i, alookup t1 (acc n) = Some i -> alookup t2 (acc n) = Some i -> t1 = t2)
  /\ (forall t i, alookup i (rev n) = Some t <-> alookup t (acc n) = Some i)
  /\ (forall t m, alookup t (bm n) = Some m ->
        exists i, alookup t (acc n) = Some i /\ m = Z.shiftl 1 i)
  /\ 0 <= count n.
Proof. intros n. apply Inv_unfold_l. apply ops_inv_l. apply Inv_empty. Qed.

Lemma ops_wf_unfold_l (lower : lbl -> lbl) (w : world) :
  (ops_wf lower w [] <-> True)
  /\ forall o r, ops_wf lower w (o :: r) <->
       (match o with
        | AddTaxon t => t < w_next w
        | AddTaxa ts => forall t, In t ts -> t < w_next w
        | _ => True
        end)
       /\ ops_wf lower (fst (step lower w o)) r.
Proof. split; [reflexivity| intros o r; reflexivity]. Qed.

Lemma trace_unfold_l (lower : lbl -> lbl) (w : world) :
  trace lower w [] = [w]
  /\ forall o r, trace lower w (o :: r) = w :: trace lower (fst (step lower w o)) r.
Proof. split; reflexivity. Qed.

(* ------------------------------------------------------------------ *)
(* Non-vacuity: a concrete history.  Label ids: 0="A" 1="B" 2="a" 3="b" 7="zz". *)

Definition ex_lower (l : lbl) : lbl := if l =? 0 then 2 else if l =? 1 then 3 else l.
Definition ex_w0 : world := mkW ns_empty [(0, 1)] 1.     (* one free Taxon object "B" *)
Definition ex_ops1 : list op := [NewTaxon 0; NewTaxon 2; NewTaxon 2].
Definition ex_ops2 : list op :=
  [AddTaxon 0; NewTaxon 3; RemoveTaxon 2; NewTaxon 2; Sort false; TaxonBitmask 3; Relabel 4 0].
Definition ex_w1 : world := run_world ex_lower ex_w0 ex_ops1.
Definition ex_w : world := run_world ex_lower ex_w1 ex_ops2.

(* members in order with their accession index: index 1 is vacated, order <> bit order *)
Example ex_state : observe ex_w = [(1, 0); (0, 3); (3, 2); (5, 5); (4, 4)]
  /\ map (label_of ex_w) (taxa (w_ns ex_w)) = [0; 1; 2; 2; 0].
Proof. vm_compute. split; reflexivity. Qed.

Example ex_w0_winv : WInv ex_w0.
Proof. split; [apply Inv_empty| intros t []]. Qed.

Example ex_ops_wf : ops_wf ex_lower ex_w0 (ex_ops1 ++ ex_ops2).
Proof. vm_compute. repeat split. Qed.

Example ex_w_reached : ex_w = run_world ex_lower ex_w0 (ex_ops1 ++ ex_ops2).
Proof. vm_compute. reflexivity. Qed.

Example ex_w_winv : WInv ex_w.
Proof. rewrite ex_w_reached. apply ops_winv_l; [apply ex_w0_winv| apply ex_ops_wf]. Qed.

Example ex_w1_winv : WInv ex_w1.
Proof.
  apply ops_winv_l; [apply ex_w0_winv|]. vm_compute. repeat split.
Qed.

(* hypotheses of bit_stable_run hold for taxon 3 (index 2) over ex_ops2, which adds,
   removes another taxon, sorts, memoises a bitmask and relabels *)
Example ex_bit_stable_hyps :
  WInv ex_w1 /\ ops_wf ex_lower ex_w1 ex_ops2
  /\ (forall w', In w' (trace ex_lower ex_w1 ex_ops2) -> In 3 (taxa (w_ns w')))
  /\ alookup 3 (acc (w_ns ex_w1)) = Some 2.
Proof.
  split; [apply ex_w1_winv|]. split; [vm_compute; repeat split|]. split; [|reflexivity].
  intros w' H. vm_compute in H.
  repeat (destruct H as [H|H]; [subst w'; vm_compute; repeat (first [left; reflexivity | right])|]).
  contradiction.
Qed.

Example ex_bit_stable_concl :
  alookup 3 (acc (w_ns ex_w)) = Some 2
  /\ exists n', taxon_bitmask (w_ns ex_w) 3 = Ok (n', Z.shiftl 1 2).
Proof.
  destruct ex_bit_stable_hyps as (W & F & M & A).
  apply (bit_stable_run_l ex_lower ex_w1 ex_ops2 3 2 W F M A ex_w).
  vm_compute. do 7 right. left. reflexivity.
Qed.

(* lookups: case-insensitive "A" matches A, a, a, A(relabelled) in membership order;
   case-sensitive "a" matches the two duplicates; "zz" matches nothing *)
Example ex_lookups :
  lookup_all ex_lower ex_w 0 None = [1; 3; 5; 4]
  /\ lookup_all ex_lower ex_w 2 (Some true) = [3; 5]
  /\ lookup_all ex_lower ex_w 7 None = []
  /\ is_mut (w_ns ex_w) = true.
Proof. vm_compute. repeat split; reflexivity. Qed.

Example ex_require_existing : step ex_lower ex_w (RequireTaxon 2 (Some true)) = (ex_w, OTax (Some 3)).
Proof.
  destruct (require_taxon_spec_l ex_lower ex_w 2 (Some true)) as (H & _). apply (H 3 [5]). reflexivity.
Qed.

Example ex_require_new :
  exists w', step ex_lower ex_w (RequireTaxon 7 None) = (w', OTax (Some 6))
    /\ observe w' = [(1, 0); (0, 3); (3, 2); (5, 5); (4, 4); (6, 6)].
Proof. eexists. split; vm_compute; reflexivity. Qed.

(* removal by label: first match only vs. all matches *)
Example ex_remove_first :
  observe (fst (step ex_lower ex_w (RemoveLabel 0 (Some false) true))) = [(0, 3); (3, 2); (5, 5); (4, 4)]
  /\ observe (fst (step ex_lower ex_w (RemoveLabel 0 (Some false) false))) = [(0, 3)].
Proof. vm_compute. split; reflexivity. Qed.

(* Newick rendering: m = 0b000101 names the members with bits 0 and 2 (labels A, a),
   although they sit at list positions 0 and 2 only by accident of this order; the
   right group lists the others in membership order *)
Example ex_newick_hyps : 5 <> 0 /\ 5 <> all_taxa_bitmask (w_ns ex_w).
Proof. split; vm_compute; discriminate. Qed.

Example ex_newick : snd (step ex_lower ex_w (NewickGroups 5)) = OGroups [0; 2] [1; 2; 0]
  /\ snd (step ex_lower ex_w (NewickGroups 40)) = OGroups [1; 2] [0; 2; 0].
Proof. vm_compute. split; reflexivity. Qed.

(* round trip on the duplicate-free member list [4; 1; 3]: mask 0b10101, back: by bit *)
Example ex_roundtrip_hyps : NoDup [4; 1; 3] /\ incl [4; 1; 3] (taxa (w_ns ex_w)).
Proof.
  split.
  - repeat constructor; simpl; intuition discriminate.
  - intros x H. vm_compute. simpl in H. intuition.
Qed.

Example ex_roundtrip :
  exists w1, step ex_lower ex_w (TaxaBitmask [4; 1; 3]) = (w1, OInt 21)
             /\ step ex_lower w1 (BitmaskTaxa 21) = (w1, OTaxa [1; 3; 4]).
Proof. eexists. split; vm_compute; reflexivity. Qed.

(* a vacated bit is a KeyError, not a wrong taxon *)
Example ex_vacated_bit : snd (step ex_lower ex_w (BitmaskTaxa 2)) = OErr KeyErr.
Proof. vm_compute. reflexivity. Qed.

(* immutable namespace *)
Example ex_immutable :
  let w := fst (step ex_lower ex_w (SetMutable false)) in
  is_mut (w_ns w) = false
  /\ step ex_lower w (RequireTaxon 7 None) = (w, OErr TypeErr)
  /\ step ex_lower w (NewTaxon 7) = (w, OErr TypeErr)
  /\ observe (fst (step ex_lower w (RemoveTaxon 0))) = [(1, 0); (3, 2); (5, 5); (4, 4)].
Proof. vm_compute. repeat split; reflexivity. Qed.

(* deep copy: fresh identities, same bits, same labels *)
Example ex_deepcopy :
  let w' := fst (step ex_lower ex_w DeepCopy) in
  observe w' = [(6, 0); (7, 3); (8, 2); (9, 5); (10, 4)]
  /\ map (label_of w') (taxa (w_ns w')) = [0; 1; 2; 2; 0]
  /\ map (dc_ren ex_w) (taxa (w_ns ex_w)) = [6; 7; 8; 9; 10].
Proof. vm_compute. repeat split; reflexivity. Qed.
