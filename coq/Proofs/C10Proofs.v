(* C10 lemmas about Model/C10Model.v *)
From Coq Require Import ZArith List Bool Lia.
From DV Require Import Model.PyPrims Model.C10Model.
Import ListNotations.
Open Scope Z_scope.

Section P.
Variable lower : lbl -> lbl.

Lemma findall_spec_l (w : world) (l : lbl) (cs : option bool) :
  step lower w (FindAll l cs)
  = (w, OTaxa (filter (matches lower w (use_cs (w_ns w) cs) l) (taxa (w_ns w)))).
Proof. reflexivity. Qed.

End P.
