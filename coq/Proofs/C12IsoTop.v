(* C12: the content theorem, from the executable well-formedness checks *)
From Coq Require Import ZArith List Bool Lia.
From DV Require Import Model.PyPrims Model.C12Model Proofs.C12Heap Proofs.C12Inv Proofs.C12Copy Proofs.C12Wf
  Proofs.C12Proofs Proofs.C12Iso Proofs.C12Wf2.
Import ListNotations.
Open Scope Z_scope.

Lemma not_owned_of_list : forall h root, memz root (owned_list h) = false -> ~ owned h root.
Proof.
  intros h root E O. apply owned_in_list in O. apply memz_In in O. congruence.
Qed.

(* The recorded correspondence c = sc s' of a successful copy:
   - relates the root to the copy;
   - every recorded pair (a, b): a is a source object, b a NEW object of the same class and kind; every
     entry of b is a rebuilt one (annotation-set containers) or related to an entry of a, and every
     entry of a that is carried over has a related entry in b with a related value;
   - no object is the copy of two sources. *)
Theorem deepcopy_bisimulation_l : forall nf h seeds root fuel s' y,
  wf_heap h seeds = true -> wf_heap2 h = true -> memz root (owned_list h) = false ->
  0 <= root < hlen h -> (length h < fuel)%nat ->
  run_seeded nf fuel h seeds root = Ok (s', R y) ->
  vrel (hlen h) (sc s') (R root) (R y)
  /\ (forall a b, In (a, b) (sc s') ->
        0 <= a < hlen h /\ hlen h <= b < hlen (sh s') /\
        exists oa ob, hget h a = Some oa /\ hget (sh s') b = Some ob /\ ocls oa = ocls ob /\ okind oa = okind ob
          /\ (forall k' v', In (k', v') (obody ob) ->
                rebuilt (okind oa) k' \/
                exists k v, In (k, v) (obody oa) /\ vrel (hlen h) (sc s') k k' /\ vrel (hlen h) (sc s') v v')
          /\ (forall k v, In (k, v) (obody oa) ->
                not_carried (okind oa) k \/
                exists k' v', In (k', v') (obody ob) /\ vrel (hlen h) (sc s') k k' /\ vrel (hlen h) (sc s') v v'))
  /\ (forall a a' b, In (a, b) (sc s') -> In (a', b) (sc s') -> a = a').
Proof.
  intros nf h seeds root fuel s' y WF WF2 NO Hr Hf E.
  destruct (wf_heap_parts _ _ WF) as [Hc [Hs [Hi [Hn Hk]]]].
  exact (run_bisim h seeds (closedb_spec h Hc) (ann_items_ok_spec h seeds Hi) (bound_names_ok_spec h Hn)
           (attr_keys_ok_spec h Hk) (wf2_listkeys h WF2) (wf2_noalias h WF2) (wf2_taxa h WF2) (wf2_bound h WF2)
           (wf2_ilist h WF2) (wf2_ilist2 h WF2) (wf2_nodup h WF2)
           nf fuel root s' y Hs (init_inv h seeds nf WF) Hr (not_owned_of_list h root NO) Hf (U_init h seeds nf) E).
Qed.
