(* C07 (wave 6): the edge split of Tree.reroot_at_midpoint, statement level -> specification level.

   Gen/Midpoint.v (rose-tree level) uses ONE operation for the pointer block of the method,
   C07GenMidPrims.op_split_block = C07Model.split_edge.  The same statements are compiled one by one
   over the heap into Gen/Mutators.v Tree_reroot_at_midpoint__edge_split (= C03Split.mid_split,
   Proofs/C03GenSplit.v).  Here: on every well-formed heap whose abstraction is t, the GENERATED heap
   block completes, returns the node the constructor created (id `next h`), leaves a well-formed heap,
   and the abstraction of that heap is exactly the tree op_split_block returns - so the operation
   the rose-tree translation relies on is what the compiled statements do.  Then the whole MidEdge
   branch (generated block, then reseed_at) and the whole method (HeapOps.reroot_at_midpoint with the
   generated block inside) at heap level. *)
From Coq Require Import ZArith List Bool Lia Permutation.
From DV Require Import Model.PyPrims Model.Tree.
From DV Require Import Model.Heap Model.HeapOps Model.C03Spec Proofs.C03Base Proofs.C03Abs Proofs.C03Local
     Proofs.C03Prims Proofs.C03Suppress Proofs.C03Reseed Proofs.C03Ops Proofs.C03Ops2 Proofs.C03Hist Proofs.C03More Proofs.C03Midpoint.
From DV Require Import Model.MutPrims Gen.Mutators Model.C03GenInst Model.C03Split Proofs.C03GenSplit.
From DV Require Model.C07Model Model.C07GenMidPrims Proofs.C07Ops Proofs.C07Mid Proofs.C07Thms Proofs.C07Link Proofs.C07LinkOps Proofs.C07LinkEdge
     Proofs.C07LinkMid.
From DV Require Import Model.C07Spec.
Import ListNotations.
Open Scope Z_scope.

(* the six statements on a well-formed heap: the subtree s hanging from ot is re-hung below a new
   node, which becomes the LAST child of ot *)
Lemma mid_split_spec hl tl h c ot x l e lft s rgt :
  WFt h (plug c (T ot x l e (lft ++ s :: rgt))) ->
  exists h',
    mid_split ot (t_id s) hl tl h = HOk h' /\
    WFt h' (plug c (T ot x l e (lft ++ rgt ++
              [T (next h) None None tl [T (t_id s) (t_taxon s) (t_label s) hl (t_kids s)]]))) /\
    rooted h' = rooted h /\ next h' = next h + 1.
Proof.
  intros [W S]. unfold mid_split.
  destruct (remove_child_plain_wf h c ot x l e lft s rgt W) as [h1 [E1 [W1 [R1 [_ [_ [P1 [P1r P1s]]]]]]]].
  destruct (detached_facts h c ot x l e lft s rgt W) as [Ns [Ds Bs]].
  rewrite E1. simpl hbind. cbv zeta.
  remember (plug c (T ot x l e (lft ++ rgt))) as main eqn:Emain.
  set (ns := next h1) in *.
  destruct (alloc_wf h1 main None None None W1) as [W2 [R2n Nn]]. fold ns in R2n, Nn.
  set (h2 := alloc None None None h1) in *.
  assert (A2 : same_off [ns] h1 h2) by (unfold h2, ns; frame_solve).
  assert (G2 : grows h1 h2) by (unfold h2; frame_solve).
  assert (N2 : next h2 = ns + 1) by reflexivity.
  assert (Bs1 : forall j, In j (ids s) -> j < ns).
  { intros j Hj. rewrite P1. apply Bs, Hj. }
  assert (R2s : rep h2 None s).
  { apply (rep_frame_off [ns] h1 h2 None s A2 G2); [|exact R1].
    intros j Hj [<-|[]]. specialize (Bs1 _ Hj). lia. }
  assert (Wn : Wr h2 (plug CTop (T ns None None None []))).
  { simpl plug. split; [exact R2n|split].
    - rewrite ids_eq. simpl. constructor; [intros []|constructor].
    - intros j Hj. rewrite ids_eq in Hj. simpl in Hj. destruct Hj as [<-|[]]. lia. }
  destruct (add_child_attach h2 CTop ns None None None [] None s Wn R2s Ns) as [h3 [E3 [W3 [A3 [G3 [P3 [P3r P3s]]]]]]].
  { intros j Hj H. simpl plug in H. rewrite ids_eq in H. simpl in H. destruct H as [<-|[]].
    specialize (Bs1 _ Hj). lia. }
  { intros j Hj. specialize (Bs1 _ Hj). lia. }
  rewrite E3. simpl hbind. simpl plug in W3. simpl app in W3.
  assert (W3m : Wr h3 main).
  { apply (wr_frame [ns; t_id s] h2 h3 main W2 A3 G3).
    intros j Hj [<-|[<-|[]]]; [exact (Nn Hj)|]. exact (Ds _ (ids_root s) Hj). }
  destruct s as [ci xs ls es ks]. simpl t_id in *. cbn [t_taxon t_label t_kids].
  pose proof (set_elen_wf h3 (CNode CTop ns None None None [] []) ci xs ls es ks hl W3) as W4.
  simpl plug in W4. simpl app in W4.
  set (h4 := set_elen ci hl h3) in *.
  assert (W4m : Wr h4 main).
  { apply (wr_frame [ci] h3 h4 main W3m); [unfold h4, set_elen; frame_solve|unfold h4, set_elen; frame_solve|].
    intros j Hj [<-|[]]. exact (Ds _ (ids_root (T ci xs ls es ks)) Hj). }
  remember (T ci xs ls hl ks) as s' eqn:Es'.
  assert (Is' : forall j, In j (ids (T ns None None None [s'])) -> j = ns \/ In j (ids (T ci xs ls es ks))).
  { intros j Hj. rewrite ids_eq in Hj. simpl in Hj. rewrite app_nil_r in Hj.
    destruct Hj as [<-|Hj]; [left; reflexivity|right]. subst s'. rewrite ids_eq in *. exact Hj. }
  destruct W4 as [R4 [N4 B4]]. rewrite Emain in W4m.
  destruct (add_child_attach h4 c ot x l e (lft ++ rgt) None (T ns None None None [s']) W4m R4 N4)
    as [h5 [E5 [W5 [_ [_ [P5 [P5r P5s]]]]]]].
  { intros j Hj. rewrite <- Emain. destruct (Is' j Hj) as [->|Hj']; [exact Nn|exact (Ds j Hj')]. }
  { exact B4. }
  simpl t_id in E5. rewrite E5. simpl hbind.
  pose proof (set_elen_wf h5 (CNode c ot x l e (lft ++ rgt) []) ns None None None [s'] tl W5) as W6.
  assert (En : ns = next h) by (unfold ns; exact P1).
  eexists. split; [reflexivity|].
  split; [|split].
  - split.
    + simpl plug in W6. rewrite <- app_assoc in W6. rewrite <- En. exact W6.
    + simpl seed. rewrite P5s. unfold h4. simpl seed. rewrite P3s. unfold h2. simpl seed.
      rewrite P1s, <- S. rewrite !plug_id. reflexivity.
  - simpl rooted. rewrite P5r. unfold h4. simpl rooted. rewrite P3r. unfold h2. simpl rooted. exact P1r.
  - simpl next. rewrite P5. unfold h4. simpl next. rewrite P3. unfold h2. simpl next. lia.
Qed.

(* C07Model.split_edge through a context *)
Lemma split_edge_ctx fresh hl tl c ot x l e lft ci xs ls es ks rgt :
  NoDup (ids (plug c (T ot x l e (lft ++ T ci xs ls es ks :: rgt)))) ->
  C07Model.split_edge ci fresh tl hl (plug c (T ot x l e (lft ++ T ci xs ls es ks :: rgt)))
  = Some (plug c (T ot x l e (lft ++ rgt ++ [T fresh None None tl [T ci xs ls hl ks]]))).
Proof.
  intro N. set (s := T ci xs ls es ks) in *. set (S := T ot x l e (lft ++ s :: rgt)) in *.
  assert (NS : NoDup (ids S)) by (eapply C07LinkEdge.nodup_plug_sub; eauto).
  destruct (C07LinkEdge.nodup_node_kids _ _ _ _ _ _ _ NS) as [Hn1 Hlft]. unfold s in Hn1, Hlft. cbn [t_id] in Hn1, Hlft.
  assert (HinS : In ci (ids S)).
  { unfold S. rewrite C07Mid.ids_node. right. rewrite flat_map_app. apply in_or_app. right. cbn [flat_map].
    apply in_or_app. left. unfold s. rewrite C07Mid.ids_node. left. reflexivity. }
  apply C07LinkOps.split_edge_plug.
  - unfold S. rewrite C07LinkOps.split_edge_kids by assumption. unfold s at 1. cbn [t_id]. rewrite Z.eqb_refl. reflexivity.
  - unfold S. cbn [t_id]. congruence.
  - eapply C07LinkOps.plug_notin_cids; eauto.
Qed.

(* a non-root node of the abstraction, as a focus *)
Lemma focus_nonroot h t ci H :
  WF h -> abs h = Some t -> C07Model.find_node ci t = Some H -> ci <> t_id t ->
  exists c ot x l e lft xs ls es ks rgt,
    t = plug c (T ot x l e (lft ++ T ci xs ls es ks :: rgt)) /\ parent h ci = Some ot.
Proof.
  intros Wf A HF Hne. pose proof (WF_abs_t h t Wf A) as Wt.
  pose proof Wt as [[R0 [N B]] _].
  destruct (C07Ops.find_node_in ci t H HF) as [HHin HHid].
  assert (Hin : In ci (ids t)) by (unfold ids; rewrite <- HHid; apply in_map; assumption).
  destruct (C07LinkEdge.ctx_of_nonroot t ci Hin Hne) as [c [ot [x [l [e [lft [s [rgt [Et Es]]]]]]]]]. subst t.
  pose proof R0 as R. change (plug c (T ot x l e (lft ++ s :: rgt))) with (plug (CNode c ot x l e lft rgt) s) in R.
  apply rep_plug in R. destruct R as [_ Rs].
  destruct s as [ci' xs ls es ks]. cbn [t_id] in Es. subst ci'.
  exists c, ot, x, l, e, lft, xs, ls, es, ks, rgt. split; [reflexivity|].
  exact (rep_parent h _ _ Rs).
Qed.

(* statement level -> specification level, for the GENERATED block *)
Theorem gen_split_block_spec h t ci H hl tl :
  WF h -> abs h = Some t -> C07Model.find_node ci t = Some H -> ci <> t_id t ->
  exists ot h' t',
    parent h ci = Some ot /\
    Tree_reroot_at_midpoint__edge_split HG ot ci hl tl h = MOk (next h) h' /\
    WF h' /\ abs h' = Some t' /\ rooted h' = rooted h /\ next h' = next h + 1 /\
    C07Model.split_edge ci (next h) tl hl t = Some t'.
Proof.
  intros Wf A HF Hne. pose proof (WF_abs_t h t Wf A) as Wt.
  destruct (focus_nonroot h t ci H Wf A HF Hne) as [c [ot [x [l [e [lft [xs [ls [es [ks [rgt [-> Pc]]]]]]]]]]]].
  pose proof Wt as [[_ [N _]] _].
  destruct (mid_split_spec hl tl h c ot x l e lft (T ci xs ls es ks) rgt Wt) as [h' [E' [W' [Rr Nx]]]].
  cbn [t_id t_taxon t_label t_kids] in E', W'.
  exists ot, h'. eexists. split; [exact Pc|].
  split. { rewrite gen_mid_split, E'. reflexivity. }
  split; [eapply WFt_WF; exact W'|]. split; [apply abs_WFt; exact W'|]. split; [exact Rr|]. split; [exact Nx|].
  apply split_edge_ctx. exact N.
Qed.

(* ... stated with the operation Gen/Midpoint.v uses for the block: whatever node references the
   rose-tree program holds for tail and head (head with the identity ci), the tree op_split_block
   returns is the abstraction of the heap the compiled statements leave, and the node it returns is
   the one they return *)
Theorem gen_split_block_is_op_l h t ci H hl tl tailn headn tid :
  WF h -> abs h = Some t -> C07Model.find_node ci t = Some H -> ci <> t_id t ->
  C07GenMidPrims.nid tailn = Ok tid -> C07GenMidPrims.nid headn = Ok ci ->
  exists ot h' t',
    parent h ci = Some ot /\
    Tree_reroot_at_midpoint__edge_split HG ot ci hl tl h = MOk (next h) h' /\
    WF h' /\ abs h' = Some t' /\
    C07GenMidPrims.op_split_block (next h) (C07GenMidPrims.mkG t (rooted h)) tailn headn hl tl
    = Ok (C07GenMidPrims.mkG t' (rooted h'), Some [T (next h) None None tl []]).
Proof.
  intros Wf A HF Hne Ht Hh.
  destruct (gen_split_block_spec h t ci H hl tl Wf A HF Hne) as [ot [h' [t' [Pc [E [W' [A' [Rr [_ HS]]]]]]]]].
  exists ot, h', t'. split; [exact Pc|]. split; [exact E|]. split; [exact W'|]. split; [exact A'|].
  unfold C07GenMidPrims.op_split_block, C07GenMidPrims.op_split_edge. rewrite Ht, Hh.
  cbn [bind C07GenMidPrims.g_tree C07GenMidPrims.g_rooted]. rewrite HS, Rr. reflexivity.
Qed.

(* the whole else-branch of the method: the compiled block, then self.reseed_at(new_seed_node, ...)
   (HeapOps.reseed_at through the interface of Gen/Mutators.v) - against the two operations of
   Gen/Midpoint.v *)
Theorem gen_mid_edge_branch_l su h t ci H hl tl tailn headn tid :
  WF h -> abs h = Some t -> C07Model.find_node ci t = Some H -> ci <> t_id t ->
  C07GenMidPrims.nid tailn = Ok tid -> C07GenMidPrims.nid headn = Ok ci ->
  exists ot h1 h2 t2 r2,
    parent h ci = Some ot /\
    Tree_reroot_at_midpoint__edge_split HG ot ci hl tl h = MOk (next h) h1 /\
    x_reseed_at HG (next h) false false su h1 = MOk tt h2 /\
    WF h2 /\ abs h2 = Some t2 /\
    (do sn <- C07GenMidPrims.op_split_block (next h) (C07GenMidPrims.mkG t (rooted h)) tailn headn hl tl ;;
     C07GenMidPrims.op_reseed_at (fst sn) (snd sn) false su false)
    = Ok (C07GenMidPrims.mkG t2 r2).
Proof.
  intros Wf A HF Hne Ht Hh. pose proof (WF_abs_t h t Wf A) as Wt.
  destruct (focus_nonroot h t ci H Wf A HF Hne) as [c [ot [x [l [e [lft [xs [ls [es [ks [rgt [-> Pc]]]]]]]]]]]].
  pose proof Wt as [[_ [N _]] _].
  destruct (mid_split_spec hl tl h c ot x l e lft (T ci xs ls es ks) rgt Wt) as [h1 [E1 [W1 [Rr Nx]]]].
  cbn [t_id t_taxon t_label t_kids] in E1, W1.
  set (Nn := T (next h) None None tl [T ci xs ls hl ks]) in *.
  set (c' := CNode c ot x l e (lft ++ rgt) []).
  assert (EP : plug c (T ot x l e (lft ++ rgt ++ [Nn])) = plug c' Nn).
  { unfold c'. cbn [plug]. rewrite <- app_assoc. reflexivity. }
  rewrite EP in W1.
  assert (Hk : t_kids Nn <> [] \/ su = false) by (left; discriminate).
  destruct (reseed_at_wf false false su h1 c' Nn W1 Hk) as [h2 [E2 [W2 _]]].
  cbn [t_id Nn] in E2.
  pose proof W1 as [[_ [N1 _]] _].
  assert (HFn : C07Model.find_node (next h) (plug c' Nn) = Some Nn) by (apply (C07LinkOps.find_node_plug c' Nn N1)).
  assert (HR : C07Model.rot (t_len (plug c' Nn)) (next h) (plug c' Nn) [] = Some (reroot c' Nn))
    by (apply (C07Link.rot_plug c' Nn N1)).
  pose proof (C07LinkOps.model_reseed (plug c' Nn) (rooted h) (next h) false false su Nn (reroot c' Nn) HFn Hk HR) as HM.
  rewrite C07LinkOps.not_rooted_eq, C07Link.spec_encode_eq in W2.
  exists ot, h1, h2. eexists. eexists.
  split; [exact Pc|]. split. { rewrite gen_mid_split, E1. reflexivity. }
  split. { cbn [x_reseed_at HG]. rewrite E2. reflexivity. }
  split; [eapply WFt_WF; exact W2|]. split; [apply abs_WFt; exact W2|].
  unfold C07GenMidPrims.op_split_block, C07GenMidPrims.op_split_edge. rewrite Ht, Hh.
  cbn [bind C07GenMidPrims.g_tree C07GenMidPrims.g_rooted].
  rewrite (split_edge_ctx (next h) hl tl c ot x l e lft ci xs ls es ks rgt N). fold Nn. rewrite EP.
  cbn [bind fst snd]. unfold C07GenMidPrims.op_reseed_at. cbn [C07GenMidPrims.nid bind t_id Nn C07GenMidPrims.g_tree C07GenMidPrims.g_rooted].
  rewrite HM. cbn [bind]. rewrite Rr. reflexivity.
Qed.

(* the whole method at heap level, with the GENERATED block inside: well-formed result, rooted,
   same unrooted tree (C07LinkMid.heap_reroot_at_midpoint_l through C03GenSplit) *)
Theorem heap_midpoint_generated_split_l tx1 tx2 ub su cb h t h' :
  WF h -> abs h = Some t -> (2 <= length (t_kids t))%nat -> NoDup (leaf_taxa t) ->
  reroot_at_midpoint_with (Tree_reroot_at_midpoint__edge_split HG) tx1 tx2 ub su cb h = HOk h' ->
  WF h' /\ rooted h' = Some true /\
  exists t', abs h' = Some t'
    /\ Permutation (leaf_taxa t) (leaf_taxa t')
    /\ (forall S, is_usplit t S <-> is_usplit t' S)
    /\ total_length t' = total_length t
    /\ (forall a b, dist a b t' = dist a b t).
Proof.
  rewrite reroot_at_midpoint_gen_split. apply C07LinkMid.heap_reroot_at_midpoint_l.
Qed.

(* non-vacuity of the hypotheses of the three theorems above *)
Example gen_split_block_hyps :
  WF (of_tree exs_tree None) /\ abs (of_tree exs_tree None) = Some exs_tree /\
  (exists H, C07Model.find_node 4 exs_tree = Some H) /\ 4 <> t_id exs_tree /\
  C07GenMidPrims.nid (Some [exs_tree]) = Ok 0 /\
  (2 <= length (t_kids exs_tree))%nat /\ NoDup (leaf_taxa exs_tree) /\
  exists h', reroot_at_midpoint_with (Tree_reroot_at_midpoint__edge_split HG) 10 13 true true true
               (of_tree exs_tree None) = HOk h'.
Proof.
  assert (N : NoDup (ids exs_tree)) by (vm_compute; repeat constructor; simpl; intuition discriminate).
  split; [apply of_tree_WF, N|]. split; [apply abs_WFt, of_tree_WFt, N|].
  split; [eexists; vm_compute; reflexivity|]. split; [discriminate|]. split; [reflexivity|].
  split; [simpl; lia|]. split; [repeat constructor; simpl; intuition discriminate|].
  eexists. vm_compute. reflexivity.
Qed.
