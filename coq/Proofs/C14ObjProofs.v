(* C14: several PhylogeneticDistanceMatrix objects - independence invariant, frame theorem, clone.

   world_ok w  : every matrix object of w is fully formed (each container attribute refers to an allocated
                 container of the right kind) and NO CONTAINER IS REFERRED TO TWICE: not by two objects, not by
                 two attributes of one object (wk_sep).
   It holds in the empty world and is preserved by every operation (apply_mop_ok), hence in every reachable
   world (reachable_ok).  Consequences: an operation called on one object changes neither the attributes nor the
   value (abs_obj: the tables dereferenced, on which every query is computed) of any other object (mop_frame);
   compile_from_tree on object i makes the value of i the value-level compile_from_tree (compile_tree_on_object);
   clone yields a new object with the value of the original (clone_value). *)
From Coq Require Import ZArith List Bool Lia.
From DV Require Import Model.PyPrims Model.Tree Model.C14Model Model.C14Hist Model.C14ObjPrims Model.C14ObjModel.
From DV Require Import Proofs.C14Dict.
Import ListNotations.
Open Scope Z_scope.

Definition kind_ok (a : cattr) (v : cell) : Prop :=
  match a, v with
  | AMapped, CSet _ => True
  | APairs, CPairs _ => True
  | ADist, CTbl _ | ASteps, CTbl _ | AEdges, CTbl _ | AMrca, CTbl _ => True
  | _, _ => False
  end.

Record world_ok (w : world) : Prop := {
  wk_oid : forall j o, dget j (w_objs w) = Some o -> 0 <= j < w_onext w;
  wk_attr : forall j o a, dget j (w_objs w) = Some o ->
            exists c v, get_c a o = Some c /\ 0 <= c < w_next w /\ hget w c = Some v /\ kind_ok a v;
  wk_sep : forall j k oj ok a b c,
           dget j (w_objs w) = Some oj -> dget k (w_objs w) = Some ok ->
           get_c a oj = Some c -> get_c b ok = Some c -> j = k /\ a = b
}.

Lemma world_empty_ok : world_ok world_empty.
Proof. split; simpl; intros; discriminate. Qed.

Lemma attr_range w k ok b c : world_ok w -> dget k (w_objs w) = Some ok -> get_c b ok = Some c -> 0 <= c < w_next w.
Proof.
  intros W H G. destruct (wk_attr w W k ok b H) as [c' [v [G' [R _]]]]. rewrite G in G'. inversion G'. subst. exact R.
Qed.

(* ---- heap lookups ---- *)
Lemma hfind_app_fresh c nb h : (forall c' v, In (c', v) nb -> c < c') -> hfind c (nb ++ h) = hfind c h.
Proof.
  induction nb as [|[c1 v1] r IH]; intro F; simpl; [reflexivity|].
  destruct (Z.eqb_spec c c1) as [E|E].
  - exfalso. specialize (F c1 v1 (or_introl eq_refl)). lia.
  - apply IH. intros c' v I. apply (F c' v). right. exact I.
Qed.

Lemma dset_dset {V} k (x y : V) d : dset k x (dset k y d) = dset k x d.
Proof.
  induction d as [|[k' v'] r IH]; simpl.
  - rewrite Z.eqb_refl. reflexivity.
  - destruct (Z.eqb k k') eqn:E; simpl.
    + rewrite Z.eqb_refl. reflexivity.
    + rewrite E, IH. reflexivity.
Qed.

(* ---- generic preservation lemmas ---- *)

(* new bindings at unallocated identities *)
Lemma extend_ok w nb n' :
  world_ok w -> (forall c v, In (c, v) nb -> w_next w <= c) -> w_next w <= n' ->
  world_ok (mkW (nb ++ w_heap w) n' (w_objs w) (w_onext w)).
Proof.
  intros W F N. split; simpl.
  - apply (wk_oid w W).
  - intros j o a H. destruct (wk_attr w W j o a H) as [c [v [G [R [Hg K]]]]].
    exists c, v. split; [exact G|]. split; [lia|]. split; [|exact K].
    unfold hget. simpl. rewrite hfind_app_fresh; [exact Hg|].
    intros c' v' I. specialize (F c' v' I). lia.
  - apply (wk_sep w W).
Qed.

Lemma extend_hget w w' nb c : w_heap w' = nb ++ w_heap w ->
  (forall c' v, In (c', v) nb -> w_next w <= c') -> c < w_next w -> hget w' c = hget w c.
Proof.
  intros E F L. unfold hget. rewrite E. apply hfind_app_fresh. intros c' v I. specialize (F c' v I). lia.
Qed.

(* object i is created or replaced by o' *)
Lemma install_ok w i o' on' :
  world_ok w -> w_onext w <= on' -> 0 <= i < on' ->
  (forall a, exists c v, get_c a o' = Some c /\ 0 <= c < w_next w /\ hget w c = Some v /\ kind_ok a v) ->
  (forall a b c, get_c a o' = Some c -> get_c b o' = Some c -> a = b) ->
  (forall k ok a b c, k <> i -> dget k (w_objs w) = Some ok -> get_c a o' = Some c -> get_c b ok = Some c -> False) ->
  world_ok (mkW (w_heap w) (w_next w) (dset i o' (w_objs w)) on').
Proof.
  intros W N I A B C. split; simpl.
  - intros j o H. rewrite dget_dset in H. destruct (Z.eqb_spec j i) as [E|E].
    + subst. exact I.
    + pose proof (wk_oid w W j o H). lia.
  - intros j o a H. rewrite dget_dset in H. destruct (Z.eqb_spec j i) as [E|E].
    + inversion H. subst. apply A.
    + apply (wk_attr w W j o a H).
  - intros j k oj ok a b c Hj Hk Ga Gb. rewrite dget_dset in Hj, Hk.
    destruct (Z.eqb_spec j i) as [Ej|Ej]; destruct (Z.eqb_spec k i) as [Ek|Ek].
    + inversion Hj. inversion Hk. subst. split; [reflexivity | eapply B; eauto].
    + inversion Hj. subst. exfalso. eapply C; eauto.
    + inversion Hk. subst. exfalso. eapply C; [exact Ej | exact Hj | exact Gb | exact Ga].
    + eapply (wk_sep w W); eauto.
Qed.

(* an in-place operation on a container owned by object i *)
Lemma mutate_owned_ok w i o a c v :
  world_ok w -> dget i (w_objs w) = Some o -> get_c a o = Some c -> kind_ok a v -> world_ok (mutate c v w).
Proof.
  intros W H G K. split; simpl.
  - apply (wk_oid w W).
  - intros j oj b Hj. destruct (wk_attr w W j oj b Hj) as [c' [v' [G' [R [Hg K']]]]].
    unfold hget, mutate. simpl. destruct (Z.eqb_spec c' c) as [E|E].
    + subst c'. destruct (wk_sep w W j i oj o b a c Hj H G' G) as [-> ->].
      exists c, v. rewrite Z.eqb_refl. auto.
    + exists c', v'. destruct (Z.eqb_spec c' c); [contradiction|]. auto.
  - apply (wk_sep w W).
Qed.

Lemma mutate_hget_other w c v c' : c' <> c -> hget (mutate c v w) c' = hget w c'.
Proof. intro N. unfold hget, mutate. simpl. destruct (Z.eqb_spec c' c); [contradiction | reflexivity]. Qed.

Lemma mutate_hget_same w c v : hget (mutate c v w) c = Some v.
Proof. unfold hget, mutate. simpl. rewrite Z.eqb_refl. reflexivity. Qed.

(* scalars of object i replaced *)
Lemma rescalar_ok w i o o' :
  world_ok w -> dget i (w_objs w) = Some o -> (forall a, get_c a o' = get_c a o) -> world_ok (put_obj i o' w).
Proof.
  intros W H S. unfold put_obj.
  apply install_ok; try assumption; try lia.
  - apply (wk_oid w W i o H).
  - intro a. rewrite S. apply (wk_attr w W i o a H).
  - intros a b c Ga Gb. rewrite S in Ga, Gb. destruct (wk_sep w W i i o o a b c H H Ga Gb) as [_ E]. exact E.
  - intros k ok a b c N Hk Ga Gb. rewrite S in Ga. destruct (wk_sep w W i k o ok a b c H Hk Ga Gb) as [E _]. congruence.
Qed.

(* ---- value of an object depends on its own containers only ---- *)
Lemma abs_obj_ext w w' o :
  (forall a c, get_c a o = Some c -> hget w' c = hget w c) -> abs_obj w' o = abs_obj w o.
Proof.
  intro H. unfold abs_obj, cell_set, cell_pairs, cell_tbl.
  pose proof (H AMapped) as H1. pose proof (H APairs) as H2. pose proof (H ADist) as H3.
  pose proof (H ASteps) as H4. pose proof (H AMrca) as H5. simpl in H1, H2, H3, H4, H5.
  destruct (ob_mapped o) as [c1|]; [rewrite (H1 c1 eq_refl)|reflexivity].
  destruct (hget w c1) as [[l1| |]|]; try reflexivity. cbn [bind].
  destruct (ob_pairs o) as [c2|]; [rewrite (H2 c2 eq_refl)|reflexivity].
  destruct (hget w c2) as [[| l2|]|]; try reflexivity. cbn [bind].
  destruct (ob_dist o) as [c3|]; [rewrite (H3 c3 eq_refl)|reflexivity].
  destruct (hget w c3) as [[| | l3]|]; try reflexivity. cbn [bind].
  destruct (ob_steps o) as [c4|]; [rewrite (H4 c4 eq_refl)|reflexivity].
  destruct (hget w c4) as [[| | l4]|]; try reflexivity. cbn [bind].
  destruct (ob_mrca o) as [c5|]; [rewrite (H5 c5 eq_refl)|reflexivity].
  reflexivity.
Qed.

(* ---- clear ---- *)
Definition fresh6 (c : cid) : list (cid * cell) :=
  [(c + 5, CTbl []); (c + 4, CTbl []); (c + 3, CTbl []); (c + 2, CTbl []); (c + 1, CPairs []); (c, CSet [])].

Definition cleared (c : cid) : obj :=
  mkObj 0 0 0 (Some c) (Some (c + 1)) (Some (c + 2)) (Some (c + 3)) (Some (c + 4)) (Some (c + 5)).

Lemma fresh6_keys c c' v : In (c', v) (fresh6 c) -> c <= c'.
Proof. unfold fresh6. simpl. intros [H|[H|[H|[H|[H|[H|[]]]]]]]; inversion H; lia. Qed.

Lemma o_clear_eq i w o : wobj w i = Ok o ->
  o_clear i w = Ok (mkW (fresh6 (w_next w) ++ w_heap w) (w_next w + 6) (dset i (cleared (w_next w)) (w_objs w)) (w_onext w)).
Proof. intro H. unfold o_clear. rewrite H. reflexivity. Qed.

Lemma wobj_some w i o : wobj w i = Ok o <-> dget i (w_objs w) = Some o.
Proof. unfold wobj. destruct (dget i (w_objs w)); split; intro H; inversion H; reflexivity. Qed.

Lemma wobj_err w i : (exists o, wobj w i = Ok o) \/ wobj w i = Err OtherErr.
Proof. unfold wobj. destruct (dget i (w_objs w)); [left; eauto | right; reflexivity]. Qed.

(* the six containers of `cleared c` in a heap that starts with fresh6 c *)
Lemma cleared_formed c h n objs on a : 0 <= c -> c + 6 <= n ->
  exists c' v, get_c a (cleared c) = Some c' /\ 0 <= c' < n /\
               hget (mkW (fresh6 c ++ h) n objs on) c' = Some v /\ kind_ok a v /\ v = empty_of a.
Proof.
  intros P N. unfold hget. cbn [w_heap fresh6 app].
  destruct a; cbn [get_c cleared ob_mapped ob_pairs ob_dist ob_steps ob_edges ob_mrca];
    eexists; eexists; (split; [reflexivity|]); (split; [lia|]); cbn [hfind];
    repeat match goal with |- context [Z.eqb ?x ?y] => destruct (Z.eqb_spec x y); try lia end;
    (split; [reflexivity|]); split; simpl; auto.
Qed.

Lemma cleared_inj c a b x : get_c a (cleared c) = Some x -> get_c b (cleared c) = Some x -> a = b.
Proof. destruct a; destruct b; simpl; intros H1 H2; inversion H1; inversion H2; try reflexivity; lia. Qed.

Lemma cleared_ge c a x : get_c a (cleared c) = Some x -> c <= x.
Proof. destruct a; simpl; intro H; inversion H; lia. Qed.

Lemma next_nonneg w : world_ok w -> forall i o, dget i (w_objs w) = Some o -> 0 <= w_next w.
Proof. intros W i o H. destruct (wk_attr w W i o AMapped H) as [c [v [_ [R _]]]]. lia. Qed.

Lemma o_clear_ok i w w' : world_ok w -> o_clear i w = Ok w' -> world_ok w'.
Proof.
  intros W H. destruct (wobj_err w i) as [[o Ho]|E]; [|unfold o_clear in H; rewrite E in H; discriminate].
  rewrite (o_clear_eq i w o Ho) in H. inversion H. subst w'. clear H.
  apply wobj_some in Ho.
  pose proof (next_nonneg w W i o Ho) as NN.
  assert (W1 : world_ok (mkW (fresh6 (w_next w) ++ w_heap w) (w_next w + 6) (w_objs w) (w_onext w))).
  { apply extend_ok; [exact W | apply fresh6_keys | lia]. }
  apply (install_ok _ i (cleared (w_next w)) (w_onext w) W1); simpl; try lia.
  - apply (wk_oid w W i o Ho).
  - intro a. destruct (cleared_formed (w_next w) (w_heap w) (w_next w + 6) (w_objs w) (w_onext w) a NN ltac:(lia))
      as [c' [v [G [R [Hg [K _]]]]]]. exists c', v. auto.
  - apply cleared_inj.
  - intros k ok a b c N Hk Ga Gb. apply cleared_ge in Ga. pose proof (attr_range w k ok b c W Hk Gb). lia.
Qed.

Lemma o_clear_frame i w w' j oj : world_ok w -> o_clear i w = Ok w' -> j <> i -> dget j (w_objs w) = Some oj ->
  dget j (w_objs w') = Some oj /\ abs_obj w' oj = abs_obj w oj.
Proof.
  intros W H N Hj. destruct (wobj_err w i) as [[o Ho]|E]; [|unfold o_clear in H; rewrite E in H; discriminate].
  rewrite (o_clear_eq i w o Ho) in H. inversion H. subst w'. clear H. simpl. split.
  - rewrite dget_dset_other by congruence. exact Hj.
  - apply abs_obj_ext. intros a c G. apply (extend_hget w _ (fresh6 (w_next w))); [reflexivity | apply fresh6_keys|].
    pose proof (attr_range w j oj a c W Hj G). lia.
Qed.

(* the cleared object is empty *)
Lemma o_clear_value i w w' : world_ok w -> o_clear i w = Ok w' -> abs w' i = Ok pdm_empty.
Proof.
  intros W H. destruct (wobj_err w i) as [[o Ho]|E]; [|unfold o_clear in H; rewrite E in H; discriminate].
  rewrite (o_clear_eq i w o Ho) in H. inversion H. subst w'. clear H.
  apply wobj_some in Ho. pose proof (next_nonneg w W i o Ho) as NN.
  unfold abs, wobj. cbn [w_objs]. rewrite dget_dset_same. cbn [bind].
  unfold abs_obj, cell_set, cell_pairs, cell_tbl, hget.
  cbn [cleared ob_mapped ob_pairs ob_dist ob_steps ob_mrca ob_tl ob_ne w_heap fresh6 app hfind].
  repeat match goal with |- context [Z.eqb ?x ?y] => destruct (Z.eqb_spec x y); try lia end.
  reflexivity.
Qed.

(* ---- new ---- *)
Lemma o_new_eq w :
  o_new w = Ok (mkW (fresh6 (w_next w) ++ w_heap w) (w_next w + 6)
                    (dset (w_onext w) (cleared (w_next w)) (w_objs w)) (w_onext w + 1), w_onext w).
Proof.
  unfold o_new, st_new, o_init, o_clear, wobj. cbn [w_objs w_next w_heap w_onext].
  rewrite dget_dset_same. cbn [bind]. rewrite dset_dset. reflexivity.
Qed.

Definition nonneg (w : world) : Prop := 0 <= w_next w /\ 0 <= w_onext w.

Lemma o_new_ok w w' n : world_ok w -> nonneg w -> o_new w = Ok (w', n) -> world_ok w' /\ nonneg w'.
Proof.
  intros W [N1 N2] H. rewrite o_new_eq in H. inversion H. subst. clear H. split; [|split; simpl; lia].
  assert (W1 : world_ok (mkW (fresh6 (w_next w) ++ w_heap w) (w_next w + 6) (w_objs w) (w_onext w))).
  { apply extend_ok; [exact W | apply fresh6_keys | lia]. }
  apply (install_ok _ (w_onext w) (cleared (w_next w)) (w_onext w + 1) W1); simpl; try lia.
  - intro a. destruct (cleared_formed (w_next w) (w_heap w) (w_next w + 6) (w_objs w) (w_onext w) a N1 ltac:(lia))
      as [c' [v [G [R [Hg [K _]]]]]]. exists c', v. auto.
  - apply cleared_inj.
  - intros k ok a b c N Hk Ga Gb. apply cleared_ge in Ga. pose proof (attr_range w k ok b c W Hk Gb). lia.
Qed.

Lemma o_new_frame w w' n j oj : world_ok w -> o_new w = Ok (w', n) -> dget j (w_objs w) = Some oj ->
  dget j (w_objs w') = Some oj /\ abs_obj w' oj = abs_obj w oj.
Proof.
  intros W H Hj. rewrite o_new_eq in H. inversion H. subst. clear H. simpl. split.
  - rewrite dget_dset_other; [exact Hj|]. pose proof (wk_oid w W j oj Hj). lia.
  - apply abs_obj_ext. intros a c G. apply (extend_hget w _ (fresh6 (w_next w))); [reflexivity | apply fresh6_keys|].
    pose proof (attr_range w j oj a c W Hj G). lia.
Qed.

(* ---- fill ---- *)
Definition filled (ns : Z) (p : pdm) (o : obj) : obj :=
  mkObj ns (p_tree_length p) (p_num_edges p) (ob_mapped o) (ob_pairs o) (ob_dist o) (ob_steps o) (ob_edges o) (ob_mrca o).

Lemma o_fill_eq i ns p w o cm cp cd cs cr :
  wobj w i = Ok o -> ob_mapped o = Some cm -> ob_pairs o = Some cp -> ob_dist o = Some cd ->
  ob_steps o = Some cs -> ob_mrca o = Some cr ->
  o_fill i ns p w =
  Ok (put_obj i (filled ns p o)
        (mutate cr (CTbl (p_mrca p)) (mutate cs (CTbl (p_steps p)) (mutate cd (CTbl (p_dist p))
          (mutate cp (CPairs (p_pairs p)) (mutate cm (CSet (p_mapped p)) w)))))).
Proof.
  intros H1 H2 H3 H4 H5 H6. unfold o_fill, attr. rewrite H1. cbn [bind get_c]. rewrite H2, H3, H4, H5, H6. cbn [bind].
  unfold put_obj, mutate, filled. cbn [w_heap w_next w_objs w_onext]. rewrite H2, H3, H4, H5, H6. reflexivity.
Qed.

Lemma formed_attrs w i o : world_ok w -> dget i (w_objs w) = Some o ->
  exists cm cp cd cs ce cr, ob_mapped o = Some cm /\ ob_pairs o = Some cp /\ ob_dist o = Some cd /\
                            ob_steps o = Some cs /\ ob_edges o = Some ce /\ ob_mrca o = Some cr.
Proof.
  intros W H.
  destruct (wk_attr w W i o AMapped H) as [cm [? [G1 _]]]. destruct (wk_attr w W i o APairs H) as [cp [? [G2 _]]].
  destruct (wk_attr w W i o ADist H) as [cd [? [G3 _]]]. destruct (wk_attr w W i o ASteps H) as [cs [? [G4 _]]].
  destruct (wk_attr w W i o AEdges H) as [ce [? [G5 _]]]. destruct (wk_attr w W i o AMrca H) as [cr [? [G6 _]]].
  simpl in *. exists cm, cp, cd, cs, ce, cr. repeat split; assumption.
Qed.

Lemma o_fill_props i ns p w w' : world_ok w -> o_fill i ns p w = Ok w' ->
  world_ok w' /\
  (forall j oj, j <> i -> dget j (w_objs w) = Some oj -> dget j (w_objs w') = Some oj /\ abs_obj w' oj = abs_obj w oj) /\
  abs w' i = Ok (mkPdm (p_tree_length p) (p_num_edges p) (p_dist p) (p_steps p) (p_mrca p) (p_mapped p) (p_pairs p) []).
Proof.
  intros W H. destruct (wobj_err w i) as [[o Ho]|E]; [|unfold o_fill in H; rewrite E in H; discriminate].
  pose proof Ho as Hd. apply wobj_some in Hd.
  destruct (formed_attrs w i o W Hd) as [cm [cp [cd [cs [ce [cr [A1 [A2 [A3 [A4 [A5 A6]]]]]]]]]]].
  rewrite (o_fill_eq i ns p w o cm cp cd cs cr Ho A1 A2 A3 A4 A6) in H. inversion H. subst w'. clear H.
  set (w1 := mutate cm (CSet (p_mapped p)) w).
  set (w2 := mutate cp (CPairs (p_pairs p)) w1).
  set (w3 := mutate cd (CTbl (p_dist p)) w2).
  set (w4 := mutate cs (CTbl (p_steps p)) w3).
  set (w5 := mutate cr (CTbl (p_mrca p)) w4).
  assert (W1 : world_ok w1) by (apply (mutate_owned_ok w i o AMapped); simpl; auto).
  assert (W2 : world_ok w2) by (apply (mutate_owned_ok w1 i o APairs); simpl; auto).
  assert (W3 : world_ok w3) by (apply (mutate_owned_ok w2 i o ADist); simpl; auto).
  assert (W4 : world_ok w4) by (apply (mutate_owned_ok w3 i o ASteps); simpl; auto).
  assert (W5 : world_ok w5) by (apply (mutate_owned_ok w4 i o AMrca); simpl; auto).
  (* the five containers are pairwise distinct *)
  assert (D : forall a b x, get_c a o = Some x -> get_c b o = Some x -> a = b).
  { intros a b x Ga Gb. destruct (wk_sep w W i i o o a b x Hd Hd Ga Gb) as [_ E]. exact E. }
  assert (N12 : cm <> cp) by (intro E; subst; specialize (D AMapped APairs cp A1 A2); discriminate).
  assert (N13 : cm <> cd) by (intro E; subst; specialize (D AMapped ADist cd A1 A3); discriminate).
  assert (N14 : cm <> cs) by (intro E; subst; specialize (D AMapped ASteps cs A1 A4); discriminate).
  assert (N16 : cm <> cr) by (intro E; subst; specialize (D AMapped AMrca cr A1 A6); discriminate).
  assert (N23 : cp <> cd) by (intro E; subst; specialize (D APairs ADist cd A2 A3); discriminate).
  assert (N24 : cp <> cs) by (intro E; subst; specialize (D APairs ASteps cs A2 A4); discriminate).
  assert (N26 : cp <> cr) by (intro E; subst; specialize (D APairs AMrca cr A2 A6); discriminate).
  assert (N34 : cd <> cs) by (intro E; subst; specialize (D ADist ASteps cs A3 A4); discriminate).
  assert (N36 : cd <> cr) by (intro E; subst; specialize (D ADist AMrca cr A3 A6); discriminate).
  assert (N46 : cs <> cr) by (intro E; subst; specialize (D ASteps AMrca cr A4 A6); discriminate).
  split; [|split].
  - apply (rescalar_ok w5 i o); [exact W5 | exact Hd | intro a; destruct a; reflexivity].
  - intros j oj N Hj. unfold put_obj. simpl. split; [rewrite dget_dset_other by congruence; exact Hj|].
    apply abs_obj_ext. intros a c G.
    assert (forall b x, get_c b o = Some x -> c <> x).
    { intros b x Gb E. subst x. destruct (wk_sep w W j i oj o a b c Hj Hd G Gb) as [E _]. contradiction. }
    unfold hget. simpl.
    destruct (Z.eqb_spec c cr); [exfalso; eapply (H AMrca); eauto|].
    destruct (Z.eqb_spec c cs); [exfalso; eapply (H ASteps); eauto|].
    destruct (Z.eqb_spec c cd); [exfalso; eapply (H ADist); eauto|].
    destruct (Z.eqb_spec c cp); [exfalso; eapply (H APairs); eauto|].
    destruct (Z.eqb_spec c cm); [exfalso; eapply (H AMapped); eauto|].
    reflexivity.
  - unfold abs, wobj, put_obj. cbn [w_objs]. rewrite dget_dset_same. cbn [bind].
    unfold abs_obj, cell_set, cell_pairs, cell_tbl, filled, hget.
    cbn [ob_mapped ob_pairs ob_dist ob_steps ob_mrca ob_tl ob_ne]. rewrite A1, A2, A3, A4, A6.
    subst w5 w4 w3 w2 w1. unfold mutate. cbn [w_heap hfind].
    repeat match goal with |- context [Z.eqb ?x ?y] => destruct (Z.eqb_spec x y); try congruence end.
    reflexivity.
Qed.

(* ---- compile on an object ---- *)
Lemma o_compile_props i w w' (comp : res pdm) p :
  world_ok w ->
  (do w1 <- o_clear i w ;; do q <- comp ;; o_fill i 1 q w1) = Ok w' -> comp = Ok p ->
  world_ok w' /\
  (forall j oj, j <> i -> dget j (w_objs w) = Some oj -> dget j (w_objs w') = Some oj /\ abs_obj w' oj = abs_obj w oj) /\
  abs w' i = Ok (mkPdm (p_tree_length p) (p_num_edges p) (p_dist p) (p_steps p) (p_mrca p) (p_mapped p) (p_pairs p) []).
Proof.
  intros W H C. destruct (o_clear i w) as [w1| |] eqn:E1; try discriminate. cbn [bind] in H.
  rewrite C in H. cbn [bind] in H.
  pose proof (o_clear_ok i w w1 W E1) as W1.
  destruct (o_fill_props i 1 p w1 w' W1 H) as [W' [F V]].
  split; [exact W'|]. split; [|exact V].
  intros j oj N Hj. destruct (o_clear_frame i w w1 j oj W E1 N Hj) as [Hj1 V1].
  destruct (F j oj N Hj1) as [Hj2 V2]. split; [exact Hj2 | congruence].
Qed.

(* ---- clone ---- *)
Definition clone_heap (c : cid) (vm vp : cell) (Td Ts Te Tm : tbl Z) : list (cid * cell) :=
  [(c + 5, CTbl (copy_rows Tm [])); (c + 4, CTbl (copy_rows Te [])); (c + 3, CTbl (copy_rows Ts []));
   (c + 2, CTbl (copy_rows Td [])); (c + 7, vp); (c + 6, vm);
   (c + 5, CTbl []); (c + 4, CTbl []); (c + 3, CTbl []); (c + 2, CTbl []); (c + 1, CPairs []); (c, CSet [])].

Definition cloned (so : obj) (c : cid) : obj :=
  mkObj (ob_ns so) (ob_tl so) (ob_ne so) (Some (c + 6)) (Some (c + 7)) (Some (c + 2)) (Some (c + 3)) (Some (c + 4)) (Some (c + 5)).

Lemma clone_heap_keys c vm vp Td Ts Te Tm c' v : In (c', v) (clone_heap c vm vp Td Ts Te Tm) -> c <= c'.
Proof.
  unfold clone_heap. simpl. intros [H|[H|[H|[H|[H|[H|[H|[H|[H|[H|[H|[H|[]]]]]]]]]]]]]; inversion H; lia.
Qed.

Lemma cloned_inj so c a b x : get_c a (cloned so c) = Some x -> get_c b (cloned so c) = Some x -> a = b.
Proof. destruct a; destruct b; simpl; intros H1 H2; inversion H1; inversion H2; try reflexivity; lia. Qed.

Lemma cloned_ge so c a x : get_c a (cloned so c) = Some x -> c <= x.
Proof. destruct a; simpl; intro H; inversion H; lia. Qed.

(* clone on a well-formed world: the explicit result *)
Lemma o_clone_eq i w so : world_ok w -> dget i (w_objs w) = Some so ->
  exists lm lp Td Ts Te Tm cm cp cd cs ce cr,
    ob_mapped so = Some cm /\ ob_pairs so = Some cp /\ ob_dist so = Some cd /\ ob_steps so = Some cs /\
    ob_edges so = Some ce /\ ob_mrca so = Some cr /\
    hget w cm = Some (CSet lm) /\ hget w cp = Some (CPairs lp) /\ hget w cd = Some (CTbl Td) /\
    hget w cs = Some (CTbl Ts) /\ hget w ce = Some (CTbl Te) /\ hget w cr = Some (CTbl Tm) /\
    o_clone i w = Ok (mkW (clone_heap (w_next w) (CSet lm) (CPairs lp) Td Ts Te Tm ++ w_heap w) (w_next w + 8)
                          (dset (w_onext w) (cloned so (w_next w)) (w_objs w)) (w_onext w + 1), w_onext w).
Proof.
  intros W H.
  destruct (wk_attr w W i so AMapped H) as [cm [vm [G1 [_ [H1 K1]]]]].
  destruct (wk_attr w W i so APairs H) as [cp [vp [G2 [_ [H2 K2]]]]].
  destruct (wk_attr w W i so ADist H) as [cd [vd [G3 [_ [H3 K3]]]]].
  destruct (wk_attr w W i so ASteps H) as [cs [vs [G4 [_ [H4 K4]]]]].
  destruct (wk_attr w W i so AEdges H) as [ce [ve [G5 [_ [H5 K5]]]]].
  destruct (wk_attr w W i so AMrca H) as [cr [vr [G6 [_ [H6 K6]]]]].
  destruct vm as [lm| |]; try contradiction. destruct vp as [|lp|]; try contradiction.
  destruct vd as [| |Td]; try contradiction. destruct vs as [| |Ts]; try contradiction.
  destruct ve as [| |Te]; try contradiction. destruct vr as [| |Tm]; try contradiction.
  exists lm, lp, Td, Ts, Te, Tm, cm, cp, cd, cs, ce, cr. simpl in G1, G2, G3, G4, G5, G6.
  repeat (split; [assumption|]).
  unfold o_clone, attr, wobj. rewrite H. cbn [bind get_c]. rewrite G1, G2, G3, G4, G5, G6. cbn [bind].
  rewrite H1, H2, H3, H4, H5, H6. reflexivity.
Qed.

Lemma o_clone_ok i w w' n : world_ok w -> nonneg w -> o_clone i w = Ok (w', n) -> world_ok w' /\ nonneg w'.
Proof.
  intros W [N1 N2] H.
  destruct (wobj_err w i) as [[so Ho]|E]; [|unfold o_clone in H; rewrite E in H; discriminate].
  apply wobj_some in Ho.
  destruct (o_clone_eq i w so W Ho) as [lm [lp [Td [Ts [Te [Tm [cm [cp [cd [cs [ce [cr
     [A1 [A2 [A3 [A4 [A5 [A6 [H1 [H2 [H3 [H4 [H5 [H6 E]]]]]]]]]]]]]]]]]]]]]]]].
  rewrite E in H. inversion H. subst w' n. clear H E. split; [|split; simpl; lia].
  set (nb := clone_heap (w_next w) (CSet lm) (CPairs lp) Td Ts Te Tm).
  assert (W1 : world_ok (mkW (nb ++ w_heap w) (w_next w + 8) (w_objs w) (w_onext w))).
  { apply extend_ok; [exact W | apply clone_heap_keys | lia]. }
  apply (install_ok _ (w_onext w) (cloned so (w_next w)) (w_onext w + 1) W1); simpl; try lia.
  - intro a. unfold hget. subst nb. cbn [w_heap clone_heap app].
    destruct a; cbn [get_c cloned ob_mapped ob_pairs ob_dist ob_steps ob_edges ob_mrca];
      eexists; eexists; (split; [reflexivity|]); (split; [lia|]); cbn [hfind];
      repeat match goal with |- context [Z.eqb ?x ?y] => destruct (Z.eqb_spec x y); try lia end;
      (split; [reflexivity|]); simpl; auto.
  - apply cloned_inj.
  - intros k ok a b c N Hk Ga Gb. apply cloned_ge in Ga. pose proof (attr_range w k ok b c W Hk Gb). lia.
Qed.

Lemma o_clone_frame i w w' n j oj : world_ok w -> o_clone i w = Ok (w', n) -> dget j (w_objs w) = Some oj ->
  dget j (w_objs w') = Some oj /\ abs_obj w' oj = abs_obj w oj.
Proof.
  intros W H Hj.
  destruct (wobj_err w i) as [[so Ho]|E]; [|unfold o_clone in H; rewrite E in H; discriminate].
  apply wobj_some in Ho.
  destruct (o_clone_eq i w so W Ho) as [lm [lp [Td [Ts [Te [Tm [cm [cp [cd [cs [ce [cr
     [A1 [A2 [A3 [A4 [A5 [A6 [H1 [H2 [H3 [H4 [H5 [H6 E]]]]]]]]]]]]]]]]]]]]]]]].
  rewrite E in H. inversion H. subst w' n. clear H E. simpl. split.
  - rewrite dget_dset_other; [exact Hj|]. pose proof (wk_oid w W j oj Hj). lia.
  - apply abs_obj_ext. intros a c G. apply (extend_hget w _ (clone_heap (w_next w) (CSet lm) (CPairs lp) Td Ts Te Tm)); [reflexivity | apply clone_heap_keys|].
    pose proof (attr_range w j oj a c W Hj G). lia.
Qed.

(* copying a well-formed table row by row into an empty dict gives the table back *)
Lemma dset_new_app {V} k (v : V) d : ~ In k (dkeys d) -> dset k v d = d ++ [(k, v)].
Proof.
  induction d as [|[k' v'] r IH]; simpl; intro N; [reflexivity|].
  destruct (Z.eqb_spec k k') as [E|E]; [exfalso; apply N; left; congruence|].
  rewrite IH; [reflexivity|]. intro I. apply N. right. exact I.
Qed.

Lemma copy_fold_app {V W} (f : W -> V) (l : list (Z * W)) : forall acc : dict V,
  NoDup (dkeys acc ++ map fst l) ->
  fold_left (fun r kv => dset (fst kv) (f (snd kv)) r) l acc = acc ++ map (fun kv => (fst kv, f (snd kv))) l.
Proof.
  induction l as [|[k v] r IH]; intros acc N; simpl.
  - rewrite app_nil_r. reflexivity.
  - simpl in N. rewrite dset_new_app.
    + rewrite IH.
      * rewrite <- app_assoc. reflexivity.
      * unfold dkeys. rewrite map_app. simpl. rewrite <- app_assoc. exact N.
    + intro I. apply NoDup_remove_2 in N. apply N. apply in_or_app. left. exact I.
Qed.

Lemma copy_row_id (row : dict Z) : NoDup (dkeys row) -> copy_row row = row.
Proof.
  intro N. unfold copy_row. rewrite (copy_fold_app (fun v => v)); [|exact N]. simpl.
  induction row as [|[k v] r IH]; simpl; [reflexivity|]. f_equal. apply IH. inversion N. assumption.
Qed.

Lemma copy_rows_id (T : tbl Z) : wf_tbl T -> copy_rows T [] = T.
Proof.
  intros [N R]. unfold copy_rows. rewrite (copy_fold_app copy_row); [|exact N]. simpl.
  assert (forall k r, In (k, r) T -> NoDup (dkeys r)).
  { intros k r I. apply (R k). apply In_dget; assumption. }
  clear N R. induction T as [|[k row] r IH]; simpl; [reflexivity|]. f_equal.
  - f_equal. apply copy_row_id. apply (H k). left. reflexivity.
  - apply IH. intros k' r' I. apply (H k'). right. exact I.
Qed.

Definition wf3 (p : pdm) : Prop := wf_tbl (p_dist p) /\ wf_tbl (p_steps p) /\ wf_tbl (p_mrca p).

Lemma o_clone_value i w w' n p : world_ok w -> nonneg w -> o_clone i w = Ok (w', n) -> abs w i = Ok p -> wf3 p ->
  n = w_onext w /\ dget n (w_objs w) = None /\ abs w' n = Ok p.
Proof.
  intros W [N1 N2] H A [F1 [F2 F3]].
  destruct (wobj_err w i) as [[so Ho]|E]; [|unfold o_clone in H; rewrite E in H; discriminate].
  pose proof Ho as Hd. apply wobj_some in Hd.
  destruct (o_clone_eq i w so W Hd) as [lm [lp [Td [Ts [Te [Tm [cm [cp [cd [cs [ce [cr
     [A1 [A2 [A3 [A4 [A5 [A6 [H1 [H2 [H3 [H4 [H5 [H6 E]]]]]]]]]]]]]]]]]]]]]]]].
  rewrite E in H. inversion H. subst w' n. clear H E.
  split; [reflexivity|]. split.
  { destruct (dget (w_onext w) (w_objs w)) as [o'|] eqn:D; [|reflexivity].
    pose proof (wk_oid w W _ _ D). lia. }
  unfold abs in A. rewrite Ho in A. cbn [bind] in A. unfold abs_obj, cell_set, cell_pairs, cell_tbl in A.
  rewrite A1, A2, A3, A4, A6, H1, H2, H3, H4, H6 in A. cbn [bind] in A. inversion A. subst p. clear A.
  simpl in F1, F2, F3.
  unfold abs, wobj. cbn [w_objs]. rewrite dget_dset_same. cbn [bind].
  unfold abs_obj, cell_set, cell_pairs, cell_tbl, hget.
  cbn [cloned ob_mapped ob_pairs ob_dist ob_steps ob_mrca ob_tl ob_ne w_heap clone_heap app hfind].
  repeat match goal with |- context [Z.eqb ?x ?y] => destruct (Z.eqb_spec x y); try lia end.
  cbn [bind]. rewrite !copy_rows_id by assumption. reflexivity.
Qed.

(* ---- all operations ---- *)
Lemma apply_mop_ok op w w' : world_ok w -> nonneg w -> apply_mop op w = Ok w' -> world_ok w' /\ nonneg w'.
Proof.
  intros W NN H. destruct op as [|i|i t|i d|i|]; simpl in H.
  - destruct (o_new w) as [[w1 n]| |] eqn:E; try discriminate. inversion H. subst. eapply o_new_ok; eauto.
  - destruct (o_clone i w) as [[w1 n]| |] eqn:E; try discriminate. inversion H. subst. eapply o_clone_ok; eauto.
  - unfold o_compile_tree in H. destruct (compile_from_tree t) as [p| |] eqn:C.
    + destruct (o_compile_props i w w' (Ok p) p W H eq_refl) as [W' _]. split; [exact W'|].
      destruct (o_clear i w) as [w1| |] eqn:E1; try discriminate. cbn [bind] in H.
      unfold o_clear in E1. destruct (wobj w i); try discriminate. inversion E1. subst w1.
      unfold o_fill in H. cbn [bind] in H.
      repeat match type of H with bind ?x _ = _ => destruct x; try discriminate; cbn [bind] in H end.
      inversion H. destruct NN. split; simpl; lia.
    + destruct (o_clear i w); discriminate.
    + destruct (o_clear i w); discriminate.
  - unfold o_compile_dict in H. destruct (compile_from_dict d) as [p| |] eqn:C.
    + destruct (o_compile_props i w w' (Ok p) p W H eq_refl) as [W' _]. split; [exact W'|].
      destruct (o_clear i w) as [w1| |] eqn:E1; try discriminate. cbn [bind] in H.
      unfold o_clear in E1. destruct (wobj w i); try discriminate. inversion E1. subst w1.
      unfold o_fill in H. cbn [bind] in H.
      repeat match type of H with bind ?x _ = _ => destruct x; try discriminate; cbn [bind] in H end.
      inversion H. destruct NN. split; simpl; lia.
    + destruct (o_clear i w); discriminate.
    + destruct (o_clear i w); discriminate.
  - split; [eapply o_clear_ok; eauto|]. unfold o_clear in H. destruct (wobj w i); try discriminate.
    inversion H. destruct NN. split; simpl; lia.
  - inversion H. subst. auto.
Qed.

Lemma nonneg_empty : nonneg world_empty.
Proof. split; simpl; lia. Qed.

Lemma run_mops_ok ops : forall w w', world_ok w -> nonneg w -> run_mops ops w = Ok w' -> world_ok w' /\ nonneg w'.
Proof.
  induction ops as [|op r IH]; intros w w' W NN H; simpl in H.
  - inversion H. subst. auto.
  - destruct (apply_mop op w) as [w1| |] eqn:E; try discriminate. cbn [bind] in H.
    destruct (apply_mop_ok op w w1 W NN E) as [W1 NN1]. eapply IH; eauto.
Qed.

Lemma reachable_ok ops w : run_mops ops world_empty = Ok w -> world_ok w.
Proof. intro H. eapply run_mops_ok; [apply world_empty_ok | apply nonneg_empty | exact H]. Qed.

(* the frame theorem *)
Lemma mop_frame op w w' j oj : world_ok w -> apply_mop op w = Ok w' ->
  dget j (w_objs w) = Some oj -> target op <> Some j ->
  dget j (w_objs w') = Some oj /\ abs w' j = abs w j.
Proof.
  intros W H Hj T.
  assert (G : dget j (w_objs w') = Some oj /\ abs_obj w' oj = abs_obj w oj).
  { destruct op as [|i|i t|i d|i|]; simpl in H, T.
    - destruct (o_new w) as [[w1 n]| |] eqn:E; try discriminate. inversion H. subst. eapply o_new_frame; eauto.
    - destruct (o_clone i w) as [[w1 n]| |] eqn:E; try discriminate. inversion H. subst. eapply o_clone_frame; eauto.
    - unfold o_compile_tree in H. destruct (compile_from_tree t) as [p| |] eqn:C.
      + destruct (o_compile_props i w w' (Ok p) p W H eq_refl) as [_ [F _]]. apply F; [intro E; apply T; subst; reflexivity | exact Hj].
      + destruct (o_clear i w); discriminate.
      + destruct (o_clear i w); discriminate.
    - unfold o_compile_dict in H. destruct (compile_from_dict d) as [p| |] eqn:C.
      + destruct (o_compile_props i w w' (Ok p) p W H eq_refl) as [_ [F _]]. apply F; [intro E; apply T; subst; reflexivity | exact Hj].
      + destruct (o_clear i w); discriminate.
      + destruct (o_clear i w); discriminate.
    - eapply o_clear_frame; eauto. intro E; apply T; subst; reflexivity.
    - inversion H. subst. auto. }
  destruct G as [G1 G2]. split; [exact G1|].
  unfold abs, wobj. rewrite G1, Hj. cbn [bind]. exact G2.
Qed.

Lemma compile_tree_on_object i t w w' p : world_ok w ->
  apply_mop (MTree i t) w = Ok w' -> compile_from_tree t = Ok p ->
  abs w' i = Ok (mkPdm (p_tree_length p) (p_num_edges p) (p_dist p) (p_steps p) (p_mrca p) (p_mapped p) (p_pairs p) []).
Proof.
  intros W H C. simpl in H. unfold o_compile_tree in H.
  destruct (o_compile_props i w w' (compile_from_tree t) p W H C) as [_ [_ V]]. exact V.
Qed.

Lemma compile_tree_on_object_err i t w e : compile_from_tree t = Err e -> (exists o, dget i (w_objs w) = Some o) ->
  apply_mop (MTree i t) w = Err e.
Proof.
  intros C [o H]. simpl. unfold o_compile_tree, o_clear, wobj. rewrite H. cbn [bind]. rewrite C. reflexivity.
Qed.

Lemma reachable_nonneg ops w : run_mops ops world_empty = Ok w -> nonneg w.
Proof. intro H. eapply run_mops_ok; [apply world_empty_ok | apply nonneg_empty | exact H]. Qed.

(* a concrete history: a matrix, its clone, the original recompiled on a pruned tree *)
Definition ex_t1 : tree :=
  T 0 None None None [T 1 None None (Some 1024) [T 2 (Some 0) None (Some 1024) []; T 3 (Some 1) None (Some 2048) []];
                      T 4 None None (Some 1024) [T 5 (Some 2) None (Some 3072) []; T 6 (Some 3) None (Some 1024) []]].
Definition ex_t2 : tree :=
  T 0 None None None [T 1 None None (Some 1024) [T 2 (Some 0) None (Some 1024) []; T 3 (Some 1) None (Some 2048) []];
                      T 5 (Some 2) None (Some 4096) []].
Definition ex_ops : list mop := [MNew; MTree 0 ex_t1; MClone 0; MTree 0 ex_t2].

Lemma ex_history :
  exists w p1 p2, run_mops ex_ops world_empty = Ok w /\
    compile_from_tree ex_t1 = Ok p1 /\ compile_from_tree ex_t2 = Ok p2 /\
    abs w 1 = Ok (mkPdm (p_tree_length p1) (p_num_edges p1) (p_dist p1) (p_steps p1) (p_mrca p1) (p_mapped p1) (p_pairs p1) []) /\
    abs w 0 = Ok (mkPdm (p_tree_length p2) (p_num_edges p2) (p_dist p2) (p_steps p2) (p_mrca p2) (p_mapped p2) (p_pairs p2) []) /\
    length (p_pairs p1) = 6%nat /\ length (p_pairs p2) = 3%nat /\
    mean_pairwise_distance p1 None true false <> mean_pairwise_distance p2 None true false.
Proof.
  destruct (run_mops ex_ops world_empty) as [w| |] eqn:E; [|vm_compute in E; discriminate|vm_compute in E; discriminate].
  destruct (compile_from_tree ex_t1) as [p1| |] eqn:E1; [|vm_compute in E1; discriminate|vm_compute in E1; discriminate].
  destruct (compile_from_tree ex_t2) as [p2| |] eqn:E2; [|vm_compute in E2; discriminate|vm_compute in E2; discriminate].
  exists w, p1, p2. vm_compute in E, E1, E2. inversion E. inversion E1. inversion E2. subst.
  repeat split; try reflexivity. vm_compute. discriminate.
Qed.

(* ---- the forms exported by Props/C14.v ---- *)
Lemma multi_object_independence_top :
  forall (ops : list mop) (w : world), run_mops ops world_empty = Ok w ->
  (forall j o a, dget j (w_objs w) = Some o ->
     exists c v, get_c a o = Some c /\ 0 <= c < w_next w /\ hget w c = Some v /\ kind_ok a v) /\
  (forall j k oj ok a b c,
     dget j (w_objs w) = Some oj -> dget k (w_objs w) = Some ok ->
     get_c a oj = Some c -> get_c b ok = Some c -> j = k /\ a = b).
Proof. intros ops w H. pose proof (reachable_ok ops w H) as W. exact (conj (wk_attr w W) (wk_sep w W)). Qed.

Lemma multi_object_frame_top :
  forall (ops : list mop) (w : world) (op : mop) (w' : world) (j : oid) (oj : obj),
  run_mops ops world_empty = Ok w -> apply_mop op w = Ok w' ->
  dget j (w_objs w) = Some oj -> target op <> Some j ->
  dget j (w_objs w') = Some oj /\ abs w' j = abs w j.
Proof. intros ops w op w' j oj H. exact (mop_frame op w w' j oj (reachable_ok ops w H)). Qed.

Lemma compile_from_tree_on_object_top :
  forall (ops : list mop) (w w' : world) (i : oid) (t : tree) (p : pdm),
  run_mops ops world_empty = Ok w -> apply_mop (MTree i t) w = Ok w' -> compile_from_tree t = Ok p ->
  abs w' i = Ok (mkPdm (p_tree_length p) (p_num_edges p) (p_dist p) (p_steps p) (p_mrca p) (p_mapped p) (p_pairs p) []).
Proof. intros ops w w' i t p H. exact (compile_tree_on_object i t w w' p (reachable_ok ops w H)). Qed.

Lemma clone_has_value_of_original_top :
  forall (ops : list mop) (w w' : world) (i n : oid) (p : pdm),
  run_mops ops world_empty = Ok w -> o_clone i w = Ok (w', n) -> abs w i = Ok p ->
  (NoDup (dkeys (p_dist p)) /\ forall k r, dget k (p_dist p) = Some r -> NoDup (dkeys r)) ->
  (NoDup (dkeys (p_steps p)) /\ forall k r, dget k (p_steps p) = Some r -> NoDup (dkeys r)) ->
  (NoDup (dkeys (p_mrca p)) /\ forall k r, dget k (p_mrca p) = Some r -> NoDup (dkeys r)) ->
  n = w_onext w /\ dget n (w_objs w) = None /\ abs w' n = Ok p.
Proof.
  intros ops w w' i n p H C A F1 F2 F3.
  exact (o_clone_value i w w' n p (reachable_ok ops w H) (reachable_nonneg ops w H) C A (conj F1 (conj F2 F3))).
Qed.
