(* C04: the well-formedness check on the tree as given implies the side conditions (on the
   normalised tree) under which Proofs/C04Enc.v relates the stateful model to the pure one *)
From Coq Require Import ZArith List Bool Lia Permutation.
From DV Require Import Model.PyPrims Model.Tree Model.C04Model Proofs.C04Lists Proofs.C04Loops Proofs.C04Enc
  Proofs.C04Main Proofs.C04Redraw.
Import ListNotations.
Open Scope Z_scope.

Lemma nodupb_NoDup l : nodupb l = true -> NoDup l.
Proof.
  induction l as [|x r IH]; simpl; intro H; [constructor|].
  apply andb_true_iff in H. destruct H as [H1 H2]. constructor; [|apply IH, H2].
  apply memz_false. destruct (memz x r); [discriminate|reflexivity].
Qed.

(* subsequences *)
Inductive sub {A} : list A -> list A -> Prop :=
| sub_nil : sub [] []
| sub_skip x l1 l2 : sub l1 l2 -> sub l1 (x :: l2)
| sub_keep x l1 l2 : sub l1 l2 -> sub (x :: l1) (x :: l2).

Lemma sub_refl {A} (l : list A) : sub l l.
Proof. induction l; constructor; assumption. Qed.

Lemma sub_nil_l {A} (l : list A) : sub [] l.
Proof. induction l; constructor; assumption. Qed.

Lemma sub_app {A} (a b c d : list A) : sub a b -> sub c d -> sub (a ++ c) (b ++ d).
Proof.
  induction 1 as [|x l1 l2 H IH|x l1 l2 H IH]; simpl; intro Hc;
    [exact Hc | apply sub_skip, IH, Hc | apply sub_keep, IH, Hc].
Qed.

Lemma sub_In {A} (a b : list A) x : sub a b -> In x a -> In x b.
Proof. induction 1; simpl; intro Hi; [assumption | right; auto | destruct Hi; [left; assumption | right; auto]]. Qed.

Lemma sub_NoDup {A} (a b : list A) : sub a b -> NoDup b -> NoDup a.
Proof.
  induction 1 as [|x l1 l2 H IH|x l1 l2 H IH]; intro N.
  - constructor.
  - inversion N; subst. auto.
  - inversion N as [|? ? Hx Hr]; subst. constructor; [|auto]. intro Hi. apply Hx. eapply sub_In; eassumption.
Qed.

Lemma sub_trans {A} (a b c : list A) : sub a b -> sub b c -> sub a c.
Proof.
  intros H1 H2. revert a H1. induction H2 as [|x l1 l2 H IH|x l1 l2 H IH]; intros a H1.
  - exact H1.
  - constructor. apply IH, H1.
  - inversion H1; subst; constructor; apply IH; assumption.
Qed.

Lemma sub_flat_map {A B} (f g : A -> list B) ks :
  Forall (fun k => sub (f k) (g k)) ks -> sub (flat_map f ks) (flat_map g ks).
Proof. induction 1; simpl; [constructor | apply sub_app; assumption]. Qed.

(* node ids in post-order *)
Definition pids (t : tree) : list Z := map t_id (postorder t).

Lemma pids_node i x l e ks : pids (T i x l e ks) = flat_map pids ks ++ [i].
Proof.
  unfold pids. cbn [postorder]. rewrite map_app. cbn [map t_id]. f_equal.
  induction ks as [|k r IH]; simpl; [reflexivity|]. rewrite map_app, IH. reflexivity.
Qed.

Lemma pnodes_pids acc b t : map fst (pnodes acc b t) = pids t.
Proof.
  revert b. induction t as [i x l e ks IH] using tree_ind'. intro b.
  rewrite pids_node. cbn [pnodes]. rewrite map_app. cbn [map fst]. f_equal.
  induction IH as [|k r Hk Hr IHr]; simpl; [reflexivity|]. rewrite map_app, Hk, IHr. reflexivity.
Qed.

Lemma pids_set_len t e : pids (set_len t e) = pids t.
Proof. destruct t. cbn [set_len]. rewrite !pids_node. reflexivity. Qed.

Lemma pids_suppress t : sub (pids (suppress t)) (pids t).
Proof.
  induction t as [i x l e ks IH] using tree_ind'. rewrite suppress_unfold.
  destruct ks as [|k [|k2 r]].
  - apply sub_refl.
  - rewrite pids_set_len, pids_node. cbn [flat_map]. rewrite app_nil_r.
    inversion IH as [|? ? Hk _]; subst.
    replace (pids (suppress k)) with (pids (suppress k) ++ []) by apply app_nil_r.
    apply sub_app; [exact Hk | apply sub_nil_l].
  - rewrite !pids_node. apply sub_app; [|apply sub_refl].
    rewrite flat_map_concat_map, map_map, <- flat_map_concat_map.
    apply sub_flat_map. exact IH.
Qed.

Lemma pids_collapse t t' d : collapse_basal t = (t', d) -> sub (pids t') (pids t).
Proof.
  destruct t as [i x l e ks]. unfold collapse_basal.
  destruct ks as [|c0 [|c1 [|c2 r]]]; try (intro H; inversion H; subst; apply sub_refl).
  destruct (Nat.leb 2 (nkids c1)) eqn:E1; [|destruct (Nat.leb 2 (nkids c0)) eqn:E0]; intro H; inversion H; subst; clear H.
  - rewrite !pids_node. cbn [flat_map]. rewrite app_nil_r, pids_set_len.
    destruct c1 as [i1 x1 l1 e1 ks1]. cbn [t_kids]. rewrite pids_node.
    rewrite <- !app_assoc. apply sub_app; [apply sub_refl|].
    apply sub_app; [apply sub_refl|]. constructor. apply sub_refl.
  - rewrite !pids_node. cbn [flat_map]. rewrite app_nil_r, flat_map_app. cbn [flat_map]. rewrite app_nil_r, pids_set_len.
    destruct c0 as [i0 x0 l0 e0 ks0]. cbn [t_kids]. rewrite pids_node.
    rewrite <- !app_assoc. apply sub_app; [apply sub_refl|]. constructor. apply sub_refl.
  - apply sub_refl.
Qed.

Lemma pids_normalise s : sub (pids (fst (normalise s))) (pids (fst s)).
Proof.
  destruct s as [t r]. unfold normalise, basal_step. cbn [fst snd].
  destruct (negb (is_true r) && Nat.eqb (nkids t) 2).
  - destruct (collapse_basal t) as [t' [d|]] eqn:E; cbn [fst snd].
    + eapply sub_trans; [apply pids_suppress | eapply pids_collapse, E].
    + apply pids_suppress.
  - apply pids_suppress.
Qed.

(* leafset masks are not touched by the normalisation *)
Lemma lor_all_app a b : lor_all (a ++ b) = Z.lor (lor_all a) (lor_all b).
Proof. induction a as [|x r IH]; unfold lor_all in *; simpl; [reflexivity|]. rewrite IH, Z.lor_assoc. reflexivity. Qed.

Lemma lmask_suppress acc t : lmask acc (suppress t) = lmask acc t.
Proof.
  induction t as [i x l e ks IH] using tree_ind'. rewrite suppress_unfold.
  destruct ks as [|k [|k2 r]].
  - reflexivity.
  - rewrite lmask_set_len. inversion IH as [|? ? Hk _]; subst. rewrite Hk.
    rewrite lmask_node by discriminate. unfold lor_all. simpl. rewrite Z.lor_0_r. reflexivity.
  - rewrite !lmask_node by discriminate. f_equal. rewrite map_map. apply map_ext_in.
    intros k' Hk'. rewrite Forall_forall in IH. apply IH, Hk'.
Qed.

Lemma lmask_kids acc t : (2 <= nkids t)%nat -> lmask acc t = lor_all (map (lmask acc) (t_kids t)).
Proof.
  destruct t as [i x l e ks]. unfold nkids. cbn [t_kids]. intro H. apply lmask_node.
  destruct ks; simpl in H; [lia|discriminate].
Qed.

Lemma lmask_collapse acc t t' d : collapse_basal t = (t', d) -> lmask acc t' = lmask acc t.
Proof.
  destruct t as [i x l e ks]. unfold collapse_basal.
  destruct ks as [|c0 [|c1 [|c2 r]]]; try (intro H; inversion H; subst; reflexivity).
  destruct (Nat.leb 2 (nkids c1)) eqn:E1; [|destruct (Nat.leb 2 (nkids c0)) eqn:E0]; intro H; inversion H; subst; clear H.
  - apply Nat.leb_le in E1. rewrite !lmask_node by discriminate. cbn [map]. unfold lor_all at 1 2. cbn [fold_right].
    fold (lor_all (map (lmask acc) (t_kids c1))). rewrite lmask_set_len, (lmask_kids acc c1 E1), Z.lor_0_r. reflexivity.
  - apply Nat.leb_le in E0. rewrite (lmask_node acc i x l e [c0; c1]) by discriminate.
    rewrite lmask_node by (destruct (t_kids c0); discriminate).
    rewrite map_app, lor_all_app. cbn [map]. unfold lor_all at 2 3. cbn [fold_right].
    rewrite lmask_set_len, (lmask_kids acc c0 E0), !Z.lor_0_r. reflexivity.
  - reflexivity.
Qed.

Lemma lmask_normalise acc s : lmask acc (fst (normalise s)) = lmask acc (fst s).
Proof.
  destruct s as [t r]. unfold normalise, basal_step. cbn [fst snd].
  destruct (negb (is_true r) && Nat.eqb (nkids t) 2).
  - destruct (collapse_basal t) as [t' [d|]] eqn:E; cbn [fst snd].
    + rewrite lmask_suppress. eapply lmask_collapse, E.
    + apply lmask_suppress.
  - apply lmask_suppress.
Qed.

Theorem well_formed_wf acc s : well_formed acc s = true -> wf acc s.
Proof.
  unfold well_formed. rewrite !andb_true_iff. intros [[K F] N]. repeat split.
  - exact K.
  - unfold frozen_ok. rewrite lmask_normalise. apply Z.eqb_neq. destruct (Z.eqb (lmask acc (fst s)) 0); [discriminate|reflexivity].
  - unfold ids_ok. rewrite pnodes_pids. eapply sub_NoDup; [apply pids_normalise|]. apply nodupb_NoDup. exact N.
Qed.
