(* C03Gen: Tree.suppress_unifurcations() as generated (loop body compiled from the source; the
   post-order node list is read once at loop entry, as in HeapOps.v) = HeapOps.suppress_unifurcations,
   as long as no visited node is its own child at the moment it is visited. *)
From Coq Require Import ZArith List Bool Lia.
From DV Require Import Model.PyPrims Model.Tree Model.Heap Model.HeapOps Model.C15Prims Model.MutPrims Gen.Mutators
     Model.C03GenInst Proofs.C03Base Proofs.C03GenPrims Proofs.C03GenNode Proofs.C03GenHeq Proofs.C03GenRemove
     Proofs.C03GenEdge Proofs.C03GenTree.
Import ListNotations.
Open Scope Z_scope.

Ltac hsimpy := cbn [mst mnode medge mg_eqb rd_parent wr_parent rd_kids wr_kids rd_edge rd_head rd_length
                    wr_length rd_seed wr_seed rd_rooted wr_rooted new_node x_reseed_at x_suppress_unifurcations
                    x_encode_bipartitions x_postorder_nodes HG] in *.

Lemma su_loop_generic (body : Z -> list (Z * Z)%type -> heap -> mres heap (lctl (list (Z * Z)%type))) :
  (forall nd acc h, memz nd (kids h nd) = false ->
                    exists acc' : list (Z * Z)%type, body nd acc h = lift (LNext acc') (su_step nd h)) ->
  forall l acc h, su_steps_ok l h ->
                  exists c : lctl (list (Z * Z)%type), mfor body l acc h = lift c (hfold su_step l h).
Proof.
  intros Hb. induction l as [|nd r IH]; intros acc h Hok.
  - exists (LNext acc). reflexivity.
  - destruct Hok as [Hn Hr]. simpl mfor. simpl hfold.
    destruct (Hb nd acc h Hn) as [acc' ->].
    destruct (su_step nd h) as [h'|e h'|]; simpl; [apply IH; exact Hr| |]; exists (LNext acc); reflexivity.
Qed.

Lemma gen_set_seed_node_exact i h :
  parent h i = None -> Tree__set_seed_node HG i h = MOk tt (set_seed_node i h).
Proof. intro Hp. apply (proj2 (gen_set_seed_node i h)). rewrite Hp. exact I. Qed.

(* what follows the edge-length update, for a node nd with the single child ch *)
Ltac fin acc := first [exists acc; reflexivity | eexists; reflexivity].

Ltac su_tail acc ch Hk Hne :=
  rewrite ?parent_set_elen, ?kids_set_elen;
  match goal with |- context [match parent ?hh ?nd with _ => _ end] =>
    let q := fresh "q" in
    let Ep := fresh "Ep" in
    destruct (parent hh nd) as [q|] eqn:Ep;
    [ rewrite py_list_index_of, ?kids_set_elen;
      match goal with |- context [index_of nd (kids ?h0 q)] =>
        let pos := fresh "pos" in
        let Ei := fresh "Ei" in
        destruct (index_of nd (kids h0 q)) as [pos|] eqn:Ei; [|fin acc];
        rewrite gen_remove_plain_lift;
        match goal with |- context [remove_child_plain q nd ?h1] =>
          let h2 := fresh "h2" in
          let e := fresh "e" in
          let Er := fresh "Er" in
          let Hq := fresh "Hq" in
          destruct (remove_child_plain q nd h1) as [h2|e h2|] eqn:Er; simpl lift; simpl hbind; cbv iota beta;
          [ assert (Hq : nd <> q)
              by (let E := fresh "E" in intro E; subst q; rewrite Hk in Ei; simpl in Ei;
                  destruct (Z.eqb_spec nd ch); [apply Hne; assumption|discriminate]);
            rewrite (kids_remove_plain q nd h1 h2 nd Er Hq), ?kids_set_elen, Hk;
            change (py_index [ch] 0) with (Some ch); cbv iota;
            match goal with |- context [Node_insert_child HG q (Z.of_nat pos) ch ?h3] =>
              let v := fresh "v" in
              destruct (gen_insert_child_eq q pos ch h3) as [v ->]
            end;
            fin acc
          | fin acc
          | fin acc ]
        end
      end
    | rewrite ?kids_set_elen, ?Hk; change (py_index [ch] 0) with (Some ch); cbv iota;
      rewrite ?kids_set_parent, ?kids_set_elen, ?Hk; change (py_index [ch] 0) with (Some ch); cbv iota;
      rewrite gen_set_seed_node_exact by (rewrite parent_set_parent, Z.eqb_refl; reflexivity);
      fin acc ]
  end.

Theorem gen_suppress_unifurcations h :
  (forall t, abs_at h (seed h) = Some t -> su_steps_ok (post_ids t) h) ->
  to_hres (Tree_suppress_unifurcations__update_bipartitions_False HG h) = suppress_unifurcations h.
Proof.
  intro Hok. unfold Tree_suppress_unifurcations__update_bipartitions_False, suppress_unifurcations, with_sub.
  hsimpy. cbv zeta.
  destruct (abs_at h (seed h)) as [t|]; [|reflexivity].
  specialize (Hok t eq_refl).
  match goal with |- context [mfor ?b _ _ _] => pose proof (su_loop_generic b) as L end.
  assert (Hbody : forall l acc h0, su_steps_ok l h0 -> exists c, _) by (apply L; clear L Hok;
    intros nd acc h0 Hn; cbv beta; unfold su_step, Node__get_edge; hsimpy; cbv zeta;
    destruct (kids h0 nd) as [|ch [|x r]] eqn:Hk;
    [ fin acc
    | assert (Hne : nd <> ch)
        by (intro E; subst ch; unfold memz in Hn; simpl in Hn; rewrite Z.eqb_refl in Hn; discriminate);
      change (Z.eqb (py_len [ch]) 1) with true; cbv iota;
      change (py_index [ch] 0) with (Some ch); cbv iota;
      unfold add_len_none;
      destruct (elen h0 nd) as [L0|];
      [ rewrite ?Hk; change (py_index [ch] 0) with (Some ch); cbv iota;
        destruct (elen h0 ch) as [la|]; cbv iota;
        [ rewrite ?Hk; change (py_index [ch] 0) with (Some ch); cbv iota; su_tail acc ch Hk Hne
        | rewrite ?Hk; change (py_index [ch] 0) with (Some ch); cbv iota; su_tail acc ch Hk Hne ]
      | su_tail acc ch Hk Hne ]
    | rewrite py_len_ge2 by lia; fin acc ]).
  destruct (Hbody (post_ids t) [] h Hok) as [c E].
  match goal with |- context [mfor ?b ?l ?a ?s] => change (mfor b l a s) with (mfor b (post_ids t) [] h) end.
  rewrite E. destruct (hfold su_step (post_ids t) h); reflexivity.
Qed.
