(* C03 proofs: the local-update rule (an operation that rewrites the cells of one focused subtree
   keeps the whole tree well formed), disjointness facts of a focus, frame tactics. *)
From Coq Require Import ZArith List Bool Lia Permutation.
From DV Require Import Model.PyPrims Model.Tree Model.Heap Proofs.C03Base Proofs.C03Abs.
Import ListNotations.
Open Scope Z_scope.

(* ---------- frame bookkeeping for nested setters ---------- *)

Lemma same_off_step S i f h h1 : In i S -> same_off S h h1 -> same_off S h (upd_cell i f h1).
Proof.
  intros Hi A j Hj. rewrite get_upd_cell. destruct (Z.eqb j i) eqn:E.
  - apply Z.eqb_eq in E. subst. contradiction.
  - apply A, Hj.
Qed.

Lemma same_off_alloc S x l e h h1 : In (next h1) S -> same_off S h h1 -> same_off S h (alloc x l e h1).
Proof.
  intros Hi A j Hj. rewrite get_alloc. destruct (Z.eqb j (next h1)) eqn:E.
  - apply Z.eqb_eq in E. subst. contradiction.
  - apply A, Hj.
Qed.

Lemma same_off_seed S i h h1 : same_off S h h1 -> same_off S h (set_seed i h1).
Proof. intros A j Hj. apply A, Hj. Qed.
Lemma same_off_rooted S r h h1 : same_off S h h1 -> same_off S h (set_rooted r h1).
Proof. intros A j Hj. apply A, Hj. Qed.

Lemma grows_step i f h h1 : grows h h1 -> grows h (upd_cell i f h1).
Proof. intro G. eapply grows_trans; [exact G|apply grows_upd_cell]. Qed.
Lemma grows_alloc x l e h h1 : grows h h1 -> grows h (alloc x l e h1).
Proof.
  intros [G1 G2]. split; [|simpl; lia]. intros j Hj. rewrite has_alloc, (G1 j Hj). apply orb_true_r.
Qed.
Lemma grows_seed i h h1 : grows h h1 -> grows h (set_seed i h1).
Proof. intros [G1 G2]. split; [exact G1|exact G2]. Qed.
Lemma grows_rooted r h h1 : grows h h1 -> grows h (set_rooted r h1).
Proof. intros [G1 G2]. split; [exact G1|exact G2]. Qed.

Ltac in_list := simpl; tauto.

Ltac frame_solve :=
  repeat first
    [ apply same_off_refl | apply grows_refl
    | apply same_off_seed | apply same_off_rooted | apply grows_seed | apply grows_rooted
    | (apply same_off_step; [in_list|]) | (apply same_off_alloc; [in_list|])
    | apply grows_step | apply grows_alloc ].

Lemma seed_upd_cell i f h : seed (upd_cell i f h) = seed h.
Proof. reflexivity. Qed.
Lemma next_upd_cell i f h : next (upd_cell i f h) = next h.
Proof. reflexivity. Qed.
Lemma rooted_upd_cell i f h : rooted (upd_cell i f h) = rooted h.
Proof. reflexivity. Qed.

(* ---------- accessors of a represented root ---------- *)

Lemma rep_parent h par t : rep h par t -> parent h (t_id t) = par.
Proof. intro R. unfold parent. rewrite (rep_root_cell _ _ _ R). reflexivity. Qed.
Lemma rep_kids h par t : rep h par t -> kids h (t_id t) = map t_id (t_kids t).
Proof. intro R. unfold kids. rewrite (rep_root_cell _ _ _ R). reflexivity. Qed.
Lemma rep_elen h par t : rep h par t -> elen h (t_id t) = t_len t.
Proof. intro R. unfold elen. rewrite (rep_root_cell _ _ _ R). reflexivity. Qed.
Lemma rep_taxon h par t : rep h par t -> taxon h (t_id t) = t_taxon t.
Proof. intro R. unfold taxon. rewrite (rep_root_cell _ _ _ R). reflexivity. Qed.
Lemma rep_label h par t : rep h par t -> label h (t_id t) = t_label t.
Proof. intro R. unfold label. rewrite (rep_root_cell _ _ _ R). reflexivity. Qed.

(* ---------- the local-update rule ---------- *)

Lemma nodup_plug c s :
  NoDup (ids (plug c s)) <->
  NoDup (ids s) /\ NoDup (cids c) /\ (forall j, In j (ids s) -> In j (cids c) -> False).
Proof.
  rewrite <- NoDup_app_iff. split; apply Permutation_NoDup; [|apply Permutation_sym]; apply ids_plug.
Qed.

Lemma in_plug c s j : In j (ids (plug c s)) <-> In j (ids s) \/ In j (cids c).
Proof.
  rewrite <- in_app_iff. split; apply Permutation_in; [|apply Permutation_sym]; apply ids_plug.
Qed.

Lemma local_update_r S h h' c s s' :
  Wr h (plug c s) ->
  same_off S h h' -> grows h h' ->
  (forall j, In j S -> ~ In j (cids c)) ->
  t_id s' = t_id s ->
  rep h' (cpar c None) s' ->
  NoDup (ids s') ->
  (forall j, In j (ids s') -> ~ In j (cids c)) ->
  (forall j, In j (ids s') -> j < next h') ->
  Wr h' (plug c s').
Proof.
  intros [R [N B]] A G D Ei R' N' D' B'.
  apply rep_plug in R. destruct R as [Rc Rs]. apply nodup_plug in N. destruct N as [N1 [N2 N3]].
  split; [|split].
  - apply rep_plug. split; [|exact R']. rewrite Ei.
    eapply repc_frame_off; eauto. intros j Hj Hs. eapply D; eauto.
  - apply nodup_plug. split; [exact N'|split; [exact N2|]]. intros j H1 H2. eapply D'; eauto.
  - intros j Hj. apply in_plug in Hj. destruct Hj as [Hj|Hj]; [auto|].
    destruct G as [_ G]. assert (j < next h) by (apply B, in_plug; right; exact Hj). lia.
Qed.

Lemma local_update S h h' c s s' :
  WFt h (plug c s) ->
  same_off S h h' -> grows h h' -> seed h' = seed h ->
  (forall j, In j S -> ~ In j (cids c)) ->
  t_id s' = t_id s ->
  rep h' (cpar c None) s' ->
  NoDup (ids s') ->
  (forall j, In j (ids s') -> ~ In j (cids c)) ->
  (forall j, In j (ids s') -> j < next h') ->
  WFt h' (plug c s').
Proof.
  intros [W Sd] A G Es D Ei R' N' D' B'. split.
  - eapply local_update_r; eauto.
  - rewrite Es, <- Sd, !plug_id, Ei; reflexivity.
Qed.

(* common case: the new subtree only uses ids of the old one *)
Lemma local_update_incl_r S h h' c s s' :
  Wr h (plug c s) ->
  same_off S h h' -> grows h h' ->
  (forall j, In j S -> In j (ids s)) ->
  t_id s' = t_id s ->
  rep h' (cpar c None) s' ->
  NoDup (ids s') ->
  (forall j, In j (ids s') -> In j (ids s)) ->
  Wr h' (plug c s').
Proof.
  intros W A G D Ei R' N' I'.
  pose proof W as [_ [N B]]. apply nodup_plug in N. destruct N as [N1 [N2 N3]].
  apply (local_update_r S h h' c s s' W A G); auto.
  - intros j Hj Hc. eapply N3; eauto.
  - intros j Hj Hc. eapply N3; eauto.
  - intros j Hj. destruct G as [_ G]. assert (j < next h) by (apply B, in_plug; left; auto). lia.
Qed.

Lemma local_update_incl S h h' c s s' :
  WFt h (plug c s) ->
  same_off S h h' -> grows h h' -> seed h' = seed h ->
  (forall j, In j S -> In j (ids s)) ->
  t_id s' = t_id s ->
  rep h' (cpar c None) s' ->
  NoDup (ids s') ->
  (forall j, In j (ids s') -> In j (ids s)) ->
  WFt h' (plug c s').
Proof.
  intros [W Sd] A G Es D Ei R' N' I'. split.
  - eapply local_update_incl_r; eauto.
  - rewrite Es, <- Sd, !plug_id, Ei; reflexivity.
Qed.

(* ---------- disjointness facts of a focus  T p .. (lft ++ tc :: rgt) ---------- *)

Lemma ids_focus p x l e lft tc rgt :
  ids (T p x l e (lft ++ tc :: rgt)) = p :: flat_map ids lft ++ ids tc ++ flat_map ids rgt.
Proof. rewrite ids_eq, flat_map_app. reflexivity. Qed.

Record focus_nd (p : Z) (lft : list tree) (tc : tree) (rgt : list tree) : Prop := {
  fn_p_lft : ~ In p (flat_map ids lft);
  fn_p_tc : ~ In p (ids tc);
  fn_p_rgt : ~ In p (flat_map ids rgt);
  fn_lft : NoDup (flat_map ids lft);
  fn_tc : NoDup (ids tc);
  fn_rgt : NoDup (flat_map ids rgt);
  fn_tc_lft : forall j, In j (ids tc) -> ~ In j (flat_map ids lft);
  fn_tc_rgt : forall j, In j (ids tc) -> ~ In j (flat_map ids rgt);
  fn_lft_rgt : forall j, In j (flat_map ids lft) -> ~ In j (flat_map ids rgt)
}.

Lemma focus_facts p x l e lft tc rgt :
  NoDup (ids (T p x l e (lft ++ tc :: rgt))) -> focus_nd p lft tc rgt.
Proof.
  rewrite ids_focus. intro N. apply NoDup_cons_iff in N. destruct N as [Np N].
  rewrite !in_app_iff in Np.
  apply NoDup_app_iff in N. destruct N as [N1 [N D1]].
  apply NoDup_app_iff in N. destruct N as [N2 [N3 D2]].
  constructor.
  - tauto.
  - tauto.
  - tauto.
  - exact N1.
  - exact N2.
  - exact N3.
  - intros j Hj Hl. apply (D1 j Hl). apply in_app_iff. left. exact Hj.
  - intros j Hj Hr. eapply D2; eauto.
  - intros j Hl Hr. apply (D1 j Hl). apply in_app_iff. right. exact Hr.
Qed.

Lemma NoDup_kids_ids (ks : list tree) : NoDup (flat_map ids ks) -> NoDup (map t_id ks).
Proof.
  induction ks as [|k r IH]; simpl; intro N; [constructor|].
  apply NoDup_app_iff in N. destruct N as [N1 [N2 D]]. constructor; [|auto].
  intro H. eapply D; [apply ids_root|]. apply map_id_in_flat. exact H.
Qed.

Lemma notin_map_of_flat (ks : list tree) j : ~ In j (flat_map ids ks) -> ~ In j (map t_id ks).
Proof. intros H H'. apply H. apply map_id_in_flat. exact H'. Qed.

Lemma nodup_root i x l e ks :
  NoDup (ids (T i x l e ks)) -> ~ In i (flat_map ids ks) /\ NoDup (flat_map ids ks).
Proof. rewrite ids_eq. intro N. apply NoDup_cons_iff in N. exact N. Qed.

Lemma nodup_kid (ks : list tree) k : NoDup (flat_map ids ks) -> In k ks -> NoDup (ids k).
Proof.
  intros N Hk. apply in_split in Hk. destruct Hk as [a [b ->]].
  rewrite flat_map_app in N. simpl in N. apply NoDup_app_iff in N. destruct N as [_ [N _]].
  apply NoDup_app_iff in N. tauto.
Qed.
