(* C02: the taxon numbers delivered by the reader name the written taxa:
   resolve (taxa_order t) (expect t 0) = norm t *)
From Coq Require Import ZArith List Bool Lia Arith.
From DV Require Import Model.PyPrims Gen.CharClasses Model.Tokenizer Model.Newick Model.C02Spec
     Proofs.C02Lex Proofs.C02Parse.
Import ListNotations.

Section Resolve.
Variable L : Type.
Variable o : rt_opts.

Notation ntree := (ntree L).
Notation ptree := (ptree L).

Fixpoint resolve_list (ns : list str) (ks : list ptree) : option (list ntree) :=
  match ks with
  | [] => Some []
  | k :: r => match resolve L ns k, resolve_list ns r with
              | Some a, Some b => Some (a :: b)
              | _, _ => None
              end
  end.

Lemma resolve_unfold ns tx lb ln cm ks :
  resolve L ns (PN tx lb ln cm ks) =
  match (match tx with Some i => option_map Some (nth_error ns i) | None => Some None end) with
  | None => None
  | Some txl => match resolve_list ns ks with
                | None => None
                | Some nks => Some (Nd txl lb ln nks)
                end
  end.
Proof.
  cbn [resolve].
  assert (E : forall ks,
     (fix go (ks : list ptree) : option (list ntree) :=
        match ks with
        | [] => Some []
        | k :: r => match resolve L ns k, go r with
                    | Some a, Some b => Some (a :: b)
                    | _, _ => None
                    end
        end) ks = resolve_list ns ks).
  { induction ks0 as [|k r IH]; [reflexivity|]. cbn [resolve_list]. rewrite IH. reflexivity. }
  rewrite E. reflexivity.
Qed.

Definition Rnode (t : ntree) : Prop :=
  forall pre Y, wf_tree L o t = true ->
    resolve L (pre ++ taxa_order L o t ++ Y) (fst (expect L o t (length pre))) = Some (norm L t).

Lemma resolve_expect_gen : forall t, Rnode t.
Proof.
  induction t as [tx lb ln ks IH] using ntree_ind'. intros pre Y Hwf.
  pose proof (wf_unfold L o _ _ _ _ Hwf) as [_ [Hshape Hks]].
  rewrite (expect_unfold L o), (taxa_order_unfold L o).
  (* the children *)
  assert (KS : forall pre Y, resolve_list (pre ++ flat_map (taxa_order L o) ks ++ Y) (fst (expect_list L o ks (length pre)))
                             = Some (map (norm L) ks)).
  { clear Hshape Hwf. induction ks as [|k r IHr]; intros pre0 Y0; [reflexivity|].
    simpl in Hks. apply andb_true_iff in Hks. destruct Hks as [Hk Hr].
    pose proof (Forall_inv IH) as Ik. pose proof (Forall_inv_tail IH) as Ir. cbv beta in Ik.
    cbn [expect_list flat_map map].
    pose proof (expect_count L o k (length pre0)) as Hc.
    destruct (expect L o k (length pre0)) as [p j] eqn:Ep. simpl in Hc. subst j.
    specialize (IHr Ir Hr (pre0 ++ taxa_order L o k) Y0).
    rewrite app_length in IHr.
    destruct (expect_list L o r (length pre0 + length (taxa_order L o k))) as [ps j2]. cbn [fst] in *.
    cbn [resolve_list].
    specialize (Ik pre0 (flat_map (taxa_order L o) r ++ Y0) Hk). rewrite Ep in Ik. cbn [fst] in Ik.
    rewrite <- !app_assoc. rewrite Ik.
    rewrite <- !app_assoc in IHr. rewrite IHr. reflexivity. }
  pose proof (expect_list_count L o ks (length pre)) as Hcnt.
  specialize (KS pre (own_taxa L o (Nd tx lb ln ks) ++ Y)).
  destruct (expect_list L o ks (length pre)) as [pks j]. simpl in Hcnt. subst j. cbn [fst] in KS.
  rewrite <- !app_assoc.
  unfold own_taxa, exp_label, tag_is_taxon in *. cbn [norm].
  destruct (is_nil ks) eqn:Ek; cbn [orb] in *.
  - (* leaf *)
    destruct tx as [l|]; cbn [fst]; rewrite resolve_unfold.
    + replace (pre ++ flat_map (taxa_order L o) ks ++ [l] ++ Y) with ((pre ++ flat_map (taxa_order L o) ks) ++ l :: Y)
        by (rewrite <- !app_assoc; reflexivity).
      rewrite nth_error_app2 by (rewrite app_length; lia).
      rewrite app_length. replace (length pre + length (flat_map (taxa_order L o) ks) - (length pre + length (flat_map (taxa_order L o) ks)))%nat with O by lia.
      cbn [nth_error option_map]. rewrite <- !app_assoc. simpl app in KS |- *. rewrite KS. reflexivity.
    + simpl app in KS |- *. rewrite KS. reflexivity.
  - destruct (rt_it o) eqn:Eit.
    + (* internal, taxon mode: the label is absent *)
      destruct lb; [discriminate|].
      destruct tx as [l|]; cbn [fst]; rewrite resolve_unfold.
      * replace (pre ++ flat_map (taxa_order L o) ks ++ [l] ++ Y) with ((pre ++ flat_map (taxa_order L o) ks) ++ l :: Y)
          by (rewrite <- !app_assoc; reflexivity).
        rewrite nth_error_app2 by (rewrite app_length; lia).
        rewrite app_length. replace (length pre + length (flat_map (taxa_order L o) ks) - (length pre + length (flat_map (taxa_order L o) ks)))%nat with O by lia.
        cbn [nth_error option_map]. rewrite <- !app_assoc. simpl app in KS |- *. rewrite KS. reflexivity.
      * simpl app in KS |- *. rewrite KS. reflexivity.
    + (* internal, label mode: the taxon is absent *)
      destruct tx; [discriminate|]. cbn [fst]. rewrite resolve_unfold. simpl app in KS |- *. rewrite KS. reflexivity.
Qed.

Theorem resolve_expect : forall t, wf_tree L o t = true ->
  resolve L (taxa_order L o t) (fst (expect L o t 0)) = Some (norm L t).
Proof.
  intros t Hwf. pose proof (resolve_expect_gen t [] [] Hwf) as H. simpl in H. rewrite app_nil_r in H. exact H.
Qed.

End Resolve.
