(* C03 proofs: reroot_at_midpoint for ANY pair of taxon ids: never out of fuel, every exception is
   raised before the heap is changed, a completed call leaves a well-formed heap. *)
From Coq Require Import ZArith List Bool Lia Permutation.
From DV Require Import Model.PyPrims Model.Tree Model.Heap Model.HeapOps Model.C03Spec
  Proofs.C03Base Proofs.C03Abs Proofs.C03Local Proofs.C03Prims Proofs.C03Collapse Proofs.C03Suppress
  Proofs.C03Reseed Proofs.C03Order Proofs.C03Ops Proofs.C03Ops2 Proofs.C03PruneLoops Proofs.C03Hist Proofs.C03More.
Import ListNotations. Open Scope Z_scope.

(* ---------- ancs: the path from a live node to the root ---------- *)

Lemma ancs_ctx_fuel h c : forall s fuel,
  Wr h (plug c s) -> (length (cpath c (t_id s)) < fuel)%nat ->
  ancs fuel h (t_id s) = Some (cpath c (t_id s) ++ [croot c (t_id s)]).
Proof.
  induction c as [|c' IH i x l e lft rgt]; intros s fuel W Hf.
  - destruct fuel as [|n]; [simpl in Hf; lia|]. simpl.
    destruct W as [R _]. simpl in R. rewrite (rep_parent h None s R). reflexivity.
  - destruct fuel as [|n]; [simpl in Hf; lia|]. simpl.
    pose proof W as [R _]. apply rep_plug in R. destruct R as [_ R]. simpl cpar in R.
    rewrite (rep_parent h (Some i) s R).
    simpl plug in W. specialize (IH (T i x l e (lft ++ s :: rgt)) n W). simpl t_id in IH.
    rewrite IH; [reflexivity|]. simpl in Hf. lia.
Qed.

Lemma ancs_ctx h c s :
  Wr h (plug c s) -> ancs (fuel_of h) h (t_id s) = Some (cpath c (t_id s) ++ [croot c (t_id s)]).
Proof.
  intro W. apply ancs_ctx_fuel; [exact W|]. unfold fuel_of.
  destruct W as [R [N _]].
  assert (H2 : (length (cpath c (t_id s)) <= length (map fst (cells h)))%nat).
  { apply NoDup_incl_length; [apply cpath_nodup, N|]. intros j Hj. apply has_in.
    eapply rep_has; [exact R|]. apply cpath_in, Hj. }
  rewrite map_length in H2. lia.
Qed.

(* for a live node: ancs succeeds, lists live nodes only, and contains the root *)
Lemma ancs_live h t x :
  Wr h t -> In x (ids t) ->
  exists a, ancs (fuel_of h) h x = Some a /\ (forall j, In j a -> In j (ids t)) /\ In (t_id t) a.
Proof.
  intros W Hx. destruct (find_ctx t x Hx) as [c [s [-> Es]]]. subst x.
  exists (cpath c (t_id s) ++ [croot c (t_id s)]). split; [apply ancs_ctx, W|split].
  - intros j Hj. apply in_app_iff in Hj. destruct Hj as [Hj|[<-|[]]].
    + apply cpath_in, Hj.
    + rewrite <- plug_id. apply ids_root.
  - apply in_app_iff. right. left. symmetry. apply plug_id.
Qed.

(* ---------- first_common / upto ---------- *)

Lemma first_common_some x l1 l2 : In x l1 -> In x l2 -> first_common l1 l2 <> None.
Proof.
  induction l1 as [|y r IH]; simpl; [intros []|]. intros H1 H2.
  destruct (memz y l2) eqn:M; [discriminate|].
  destruct H1 as [->|H1]; [|apply IH; assumption].
  apply memz_In in H2. congruence.
Qed.

Lemma upto_sub m l : forall j, In j (upto m l) -> In j l.
Proof.
  induction l as [|y r IH]; simpl; [intros j []|]. intros j Hj.
  destruct (Z.eqb y m); [destruct Hj|]. destruct Hj as [<-|Hj]; [left; reflexivity|right; apply IH, Hj].
Qed.

(* ---------- the going-up loop ---------- *)

Lemma mid_loop_cases h t : Wr h t -> forall path plen,
  (forall j, In j path -> In j (ids t)) ->
  mid_loop h path plen = MidTypeErr \/ mid_loop h path plen = MidNone \/
  (exists b, mid_loop h path plen = MidNode b /\ In b (ids t)) \/
  (exists tg hl, mid_loop h path plen = MidEdge tg hl /\ In tg (ids t)).
Proof.
  intros W. induction path as [|cur r IH]; intros plen Hp; simpl.
  - right. left. reflexivity.
  - destruct (elen h cur) as [l|]; [|left; reflexivity].
    destruct (plen <? l).
    + right. right. right. exists cur, plen. split; [reflexivity|apply Hp; left; reflexivity].
    + destruct (l <? plen).
      * apply IH. intros j Hj. apply Hp. right. exact Hj.
      * destruct (parent h cur) as [p|] eqn:Pc.
        -- right. right. left. exists p. split; [reflexivity|].
           eapply live_parent; [exact W| |exact Pc]. apply Hp. left. reflexivity.
        -- right. left. reflexivity.
Qed.

(* ---------- the tail: self.is_rooted = True; update_bipartitions when requested ---------- *)

Lemma mid_tail_wf (ub cb : bool) h1 t1 :
  WFt h1 t1 ->
  exists h', (let h2 := set_rooted (Some true) h1 in
              if ub then encode_structural false cb h2 else HOk h2) = HOk h' /\ WF h'.
Proof.
  intro W1. pose proof (WFt_set_rooted (Some true) h1 _ W1) as W2. cbv zeta. destruct ub.
  - destruct (encode_structural_wf false cb _ _ W2) as [h' [E [W' _]]].
    exists h'. split; [exact E|eapply WFt_WF, W'].
  - eexists. split; [reflexivity|eapply WFt_WF, W2].
Qed.

(* ---------- breaking the edge above a live non-root node ---------- *)

Lemma mid_edge_wf su hl tl h c ot x l e lft s rgt :
  WFt h (plug c (T ot x l e (lft ++ s :: rgt))) ->
  exists h' t',
    (hdo h1 <- remove_child_plain ot (t_id s) h ;;
     let ns := next h1 in
     let h2 := alloc None None None h1 in
     hdo h3 <- add_child ns (t_id s) h2 ;;
     let h4 := set_elen (t_id s) (Some hl) h3 in
     hdo h5 <- add_child ot ns h4 ;;
     let h6 := set_elen ns (Some tl) h5 in
     reseed_at ns false false su h6) = HOk h' /\ WFt h' t'.
Proof.
  intros [W S].
  (* old_tail.remove_child(target) *)
  destruct (remove_child_plain_wf h c ot x l e lft s rgt W) as [h1 [E1 [W1 [R1 [_ [_ [P1 [P1r P1s]]]]]]]].
  destruct (detached_facts h c ot x l e lft s rgt W) as [Ns [Ds Bs]].
  rewrite E1. simpl hbind. cbv zeta.
  remember (plug c (T ot x l e (lft ++ rgt))) as main eqn:Emain.
  (* the new node *)
  set (ns := next h1) in *.
  destruct (alloc_wf h1 main None None None W1) as [W2 [R2n Nn]]. fold ns in R2n, Nn.
  set (h2 := alloc None None None h1) in *.
  assert (A2 : same_off [ns] h1 h2) by (unfold h2, ns; frame_solve).
  assert (G2 : grows h1 h2) by (unfold h2; frame_solve).
  assert (N2 : next h2 = ns + 1) by reflexivity.
  assert (Bs1 : forall j, In j (ids s) -> j < ns).
  { intros j Hj. rewrite P1. apply Bs, Hj. }
  assert (R2s : rep h2 None s).
  { apply (rep_frame_off [ns] h1 h2 None s A2 G2); [|exact R1].
    intros j Hj [<-|[]]. specialize (Bs1 _ Hj). lia. }
  assert (Wn : Wr h2 (plug CTop (T ns None None None []))).
  { simpl plug. split; [exact R2n|split].
    - rewrite ids_eq. simpl. constructor; [intros []|constructor].
    - intros j Hj. rewrite ids_eq in Hj. simpl in Hj. destruct Hj as [<-|[]]. lia. }
  (* new_seed_node.add_child(target) *)
  destruct (add_child_attach h2 CTop ns None None None [] None s Wn R2s Ns) as [h3 [E3 [W3 [A3 [G3 [P3 [P3r P3s]]]]]]].
  { intros j Hj H. simpl plug in H. rewrite ids_eq in H. simpl in H. destruct H as [<-|[]].
    specialize (Bs1 _ Hj). lia. }
  { intros j Hj. specialize (Bs1 _ Hj). lia. }
  rewrite E3. simpl hbind. simpl plug in W3. simpl app in W3.
  assert (W3m : Wr h3 main).
  { apply (wr_frame [ns; t_id s] h2 h3 main W2 A3 G3).
    intros j Hj [<-|[<-|[]]]; [exact (Nn Hj)|]. exact (Ds _ (ids_root s) Hj). }
  (* target.edge.length = head_len *)
  destruct s as [ci xs ls es ks]. simpl t_id in *.
  pose proof (set_elen_wf h3 (CNode CTop ns None None None [] []) ci xs ls es ks (Some hl) W3) as W4.
  simpl plug in W4. simpl app in W4.
  set (h4 := set_elen ci (Some hl) h3) in *.
  assert (W4m : Wr h4 main).
  { apply (wr_frame [ci] h3 h4 main W3m); [unfold h4, set_elen; frame_solve|unfold h4, set_elen; frame_solve|].
    intros j Hj [<-|[]]. exact (Ds _ (ids_root (T ci xs ls es ks)) Hj). }
  (* old_tail.add_child(new_seed_node) *)
  remember (T ci xs ls (Some hl) ks) as s' eqn:Es'.
  assert (Is' : forall j, In j (ids (T ns None None None [s'])) -> j = ns \/ In j (ids (T ci xs ls es ks))).
  { intros j Hj. rewrite ids_eq in Hj. simpl in Hj. rewrite app_nil_r in Hj.
    destruct Hj as [<-|Hj]; [left; reflexivity|right]. subst s'. rewrite ids_eq in *. exact Hj. }
  destruct W4 as [R4 [N4 B4]]. rewrite Emain in W4m.
  destruct (add_child_attach h4 c ot x l e (lft ++ rgt) None (T ns None None None [s']) W4m R4 N4)
    as [h5 [E5 [W5 [_ [_ [P5 [P5r P5s]]]]]]].
  { intros j Hj. rewrite <- Emain. destruct (Is' j Hj) as [->|Hj']; [exact Nn|exact (Ds j Hj')]. }
  { exact B4. }
  simpl t_id in E5. rewrite E5. simpl hbind.
  (* new_seed_node.edge.length = tail_len *)
  pose proof (set_elen_wf h5 (CNode c ot x l e (lft ++ rgt) []) ns None None None [s'] (Some tl) W5) as W6.
  assert (W6' : WFt (set_elen ns (Some tl) h5)
                    (plug (CNode c ot x l e (lft ++ rgt) []) (T ns None None (Some tl) [s']))).
  { split; [exact W6|]. simpl seed. rewrite P5s. unfold h4. simpl seed. rewrite P3s. unfold h2. simpl seed.
    rewrite P1s, <- S. simpl plug. rewrite !plug_id. reflexivity. }
  destruct (reseed_at_any false false su _ _ _ W6') as [h' [t' [E [W' _]]]].
  simpl t_id in E. exists h', t'. split; [exact E|exact W'].
Qed.

(* ---------- everything after the midpoint search ---------- *)

Definition mid_ok (r : hres) (h : heap) : Prop :=
  (exists h', r = HOk h' /\ WF h') \/ (exists e, r = HErr e h /\ In e [AttrErr; TypeErr; AssertErr]).

Lemma mid_body_finishes (ub su cb : bool) h t up1 plen :
  WFt h t -> (forall j, In j up1 -> In j (ids t)) ->
  mid_ok
    (hdo h1 <-
       match mid_loop h up1 plen with
       | MidTypeErr => HErr TypeErr h
       | MidNone => HErr AssertErr h
       | MidNode b => reseed_at b false false su h
       | MidEdge target head_len =>
         match elen h target, parent h target with
         | Some tl, Some old_tail =>
           let tail_len := tl - head_len in
           hdo h1 <- remove_child_plain old_tail target h ;;
           let ns := next h1 in
           let h2 := alloc None None None h1 in
           hdo h3 <- add_child ns target h2 ;;
           let h4 := set_elen target (Some head_len) h3 in
           hdo h5 <- add_child old_tail ns h4 ;;
           let h6 := set_elen ns (Some tail_len) h5 in
           reseed_at ns false false su h6
         | _, _ => HErr TypeErr h
         end
       end ;;
     let h2 := set_rooted (Some true) h1 in
     if ub then encode_structural false cb h2 else HOk h2) h.
Proof.
  intros W Hp. pose proof W as [W0 S].
  destruct (mid_loop_cases h t W0 up1 plen Hp) as [E|[E|[[b [E Hb]]|[tg [hl [E Htg]]]]]]; rewrite E.
  - right. exists TypeErr. split; [reflexivity|simpl; tauto].
  - right. exists AssertErr. split; [reflexivity|simpl; tauto].
  - left. destruct (find_ctx t b Hb) as [c [s [-> Es]]]. subst b.
    destruct (reseed_at_any false false su h c s W) as [h1 [t1 [E1 [W1 _]]]].
    rewrite E1. simpl hbind. apply (mid_tail_wf ub cb h1 t1 W1).
  - destruct (elen h tg) as [el|]; [|right; exists TypeErr; split; [reflexivity|simpl; tauto]].
    destruct (parent h tg) as [ot|] eqn:Pt; [|right; exists TypeErr; split; [reflexivity|simpl; tauto]].
    left. destruct (find_ctx t tg Htg) as [c [s [-> Es]]]. subst tg.
    pose proof W0 as [R _]. apply rep_plug in R. destruct R as [_ Rs].
    rewrite (rep_parent h _ s Rs) in Pt.
    destruct c as [|c' q x l e lft rgt]; simpl in Pt; [discriminate|]. inversion Pt; subst q.
    simpl plug in W.
    destruct (mid_edge_wf su hl (el - hl) h c' ot x l e lft s rgt W) as [h1 [t1 [E1 W1]]].
    cbv zeta in E1 |- *. rewrite E1. simpl hbind. apply (mid_tail_wf ub cb h1 t1 W1).
Qed.

(* ---------- reroot_at_midpoint ---------- *)

Theorem reroot_at_midpoint_finishes tx1 tx2 ub su cb h :
  WF h ->
  (exists h', reroot_at_midpoint tx1 tx2 ub su cb h = HOk h' /\ WF h') \/
  (exists e, reroot_at_midpoint tx1 tx2 ub su cb h = HErr e h /\ In e [AttrErr; TypeErr; AssertErr]).
Proof.
  intros [t W]. pose proof W as [W0 S]. fold (mid_ok (reroot_at_midpoint tx1 tx2 ub su cb h) h).
  unfold reroot_at_midpoint. rewrite (with_sub_seed h t _ W).
  set (hits := filter _ (leaf_ids t)).
  assert (Hh : forall j, In j hits -> In j (ids t)).
  { intros j Hj. unfold hits in Hj. apply filter_In in Hj. apply (proj1 (leaf_ids_sub t)), Hj. }
  destruct hits as [|s0 [|s1 rest]].
  - right. exists AttrErr. split; [reflexivity|simpl; tauto].
  - right. exists AttrErr. split; [reflexivity|simpl; tauto].
  - destruct (ancs_live h t s0 W0 (Hh s0 (or_introl eq_refl))) as [a0 [E0 [L0 Rt0]]].
    destruct (ancs_live h t s1 W0 (Hh s1 (or_intror (or_introl eq_refl)))) as [a1 [E1 [L1 Rt1]]].
    rewrite E0, E1.
    destruct (dist_from_root h s0 a0) as [d0|e0|]; try (right; exists TypeErr; split; [reflexivity|simpl; tauto]).
    destruct (dist_from_root h s1 a1) as [d1|e1|]; try (right; exists TypeErr; split; [reflexivity|simpl; tauto]).
    destruct (d0 <? d1).
    + destruct (first_common a1 a0) as [mrca|] eqn:Fc;
        [|exfalso; exact (first_common_some _ _ _ Rt1 Rt0 Fc)].
      apply (mid_body_finishes ub su cb h t _ _ W).
      intros j Hj. apply L1. eapply upto_sub, Hj.
    + destruct (first_common a0 a1) as [mrca|] eqn:Fc;
        [|exfalso; exact (first_common_some _ _ _ Rt0 Rt1 Fc)].
      apply (mid_body_finishes ub su cb h t _ _ W).
      intros j Hj. apply L0. eapply upto_sub, Hj.
Qed.
