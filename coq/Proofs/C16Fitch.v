(* C16 - one character: the Fitch set/score against assignments and the Sankoff cost. *)
From Coq Require Import ZArith List Bool Lia.
From DV Require Import Model.PyPrims Model.Tree Model.C16Model.
Import ListNotations.
Open Scope Z_scope.

(* ---------- induction over fully bifurcating trees ---------- *)
Lemma binary_ind (P : tree -> Prop) :
  (forall i x l e, P (T i x l e [])) ->
  (forall i x l e a b, binary a -> binary b -> P a -> P b -> P (T i x l e [a; b])) ->
  forall t, binary t -> P t.
Proof.
  intros Hl Hn t. induction t as [i x l e ks IH] using tree_ind'. intro B.
  destruct ks as [|a [|b [|c r]]]; simpl in B; try contradiction.
  - apply Hl.
  - inversion IH as [|? ? Pa IH2]; subst. inversion IH2 as [|? ? Pb _]; subst.
    destruct B as [Ba Bb]. apply Hn; auto.
Qed.

Lemma binaryb_spec t : binaryb t = true <-> binary t.
Proof.
  induction t as [i x l e ks IH] using tree_ind'.
  destruct ks as [|a [|b [|c r]]]; simpl; try tauto; try (split; [discriminate|contradiction]).
  inversion IH as [|? ? Pa IH2]; subst. inversion IH2 as [|? ? Pb _]; subst.
  rewrite andb_true_iff. tauto.
Qed.

Lemma fitch1_leaf ls i x l e : fitch1 ls (T i x l e []) = (ls x, 0).
Proof. reflexivity. Qed.

Lemma fitch1_node2 ls i x l e a b :
  fitch1 ls (T i x l e [a; b]) = fcomb (fitch1 ls a) (fitch1 ls b).
Proof. reflexivity. Qed.

(* ---------- bit facts ---------- *)
Definition notin (F s : Z) : Z := if Z.testbit F s then 0 else 1.

Lemma land0_disjoint a b s : Z.land a b = 0 -> Z.testbit a s && Z.testbit b s = false.
Proof. intro E. rewrite <- Z.land_spec, E. apply Z.bits_0. Qed.

Lemma pos_has_bit a : 0 < a -> Z.testbit a (Z.log2 a) = true.
Proof. apply Z.bit_log2. Qed.

Lemma testbit_range F n s : 0 < F < 2 ^ Z.of_nat n -> Z.testbit F s = true -> 0 <= s < Z.of_nat n.
Proof.
  intros [Hp Hlt] Hb. split.
  - destruct (Z_lt_le_dec s 0) as [N|N]; [|exact N]. rewrite Z.testbit_neg_r in Hb by exact N. discriminate.
  - destruct (Z_lt_le_dec s (Z.of_nat n)) as [N|N]; [exact N|].
    assert (L : Z.log2 F < Z.of_nat n) by (apply Z.log2_lt_pow2; assumption).
    rewrite Z.bits_above_log2 in Hb; [discriminate|lia|lia].
Qed.

Lemma set_range_land a b n : 0 < a < 2 ^ Z.of_nat n -> 0 < b < 2 ^ Z.of_nat n -> Z.land a b <> 0 ->
  0 < Z.land a b < 2 ^ Z.of_nat n.
Proof.
  intros [A1 A2] [B1 B2] NZ.
  assert (P : 0 <= Z.land a b) by (apply Z.land_nonneg; lia).
  assert (P' : 0 < Z.land a b) by lia. split; [exact P'|].
  apply Z.log2_lt_pow2; [exact P'|].
  assert (L := Z.log2_land a b ltac:(lia) ltac:(lia)).
  assert (La : Z.log2 a < Z.of_nat n) by (apply Z.log2_lt_pow2; assumption). lia.
Qed.

Lemma set_range_lor a b n : 0 < a < 2 ^ Z.of_nat n -> 0 < b < 2 ^ Z.of_nat n ->
  0 < Z.lor a b < 2 ^ Z.of_nat n.
Proof.
  intros [A1 A2] [B1 B2].
  assert (P : 0 <= Z.lor a b) by (apply Z.lor_nonneg; lia).
  assert (NZ : Z.lor a b <> 0) by (intro E; apply Z.lor_eq_0_iff in E; lia).
  assert (P' : 0 < Z.lor a b) by lia. split; [exact P'|].
  apply Z.log2_lt_pow2; [exact P'|].
  rewrite Z.log2_lor by lia.
  assert (La : Z.log2 a < Z.of_nat n) by (apply Z.log2_lt_pow2; assumption).
  assert (Lb : Z.log2 b < Z.of_nat n) by (apply Z.log2_lt_pow2; assumption). lia.
Qed.

(* ---------- assignments on binary nodes ---------- *)
Lemma fits_leaf_inv ls A i x l e : fits ls A (T i x l e []) ->
  exists s, A = AT s [] /\ Z.testbit (ls x) s = true.
Proof. destruct A as [s aks]. simpl. intros [-> H]. eauto. Qed.

Lemma fits_node2_inv ls A i x l e a b : fits ls A (T i x l e [a; b]) ->
  exists s al ar, A = AT s [al; ar] /\ fits ls al a /\ fits ls ar b.
Proof.
  destruct A as [s aks]. simpl.
  destruct aks as [|al [|ar [|z r]]]; simpl; try tauto.
  intros [H1 [H2 _]]. eauto 6.
Qed.

Lemma fits_node2 ls s al ar i x l e a b : fits ls al a -> fits ls ar b ->
  fits ls (AT s [al; ar]) (T i x l e [a; b]).
Proof. simpl. tauto. Qed.

Lemma changes_node2 s al ar :
  changes (AT s [al; ar]) = neq01 s (a_state al) + changes al + (neq01 s (a_state ar) + changes ar).
Proof. simpl. lia. Qed.

Lemma in_range_node2 n s al ar : in_range n (AT s [al; ar]) <-> 0 <= s < n /\ in_range n al /\ in_range n ar.
Proof. simpl. tauto. Qed.

Lemma leaves_ok_node2 n ls i x l e a b :
  leaves_ok n ls (T i x l e [a; b]) <-> leaves_ok n ls a /\ leaves_ok n ls b.
Proof. simpl. tauto. Qed.

Lemma notin_step F s u : notin F u + neq01 s u >= notin F s.
Proof.
  unfold notin, neq01. destruct (Z.eqb_spec s u) as [->|N].
  - destruct (Z.testbit F u); lia.
  - destruct (Z.testbit F u), (Z.testbit F s); lia.
Qed.

Lemma notin_01 F s : 0 <= notin F s <= 1.
Proof. unfold notin. destruct (Z.testbit F s); lia. Qed.

Lemma notin_lor Fa Fb s : Z.land Fa Fb = 0 -> notin Fa s + notin Fb s = 1 + notin (Z.lor Fa Fb) s.
Proof.
  intro E. pose proof (land0_disjoint Fa Fb s E) as D. revert D.
  unfold notin. rewrite Z.lor_spec.
  destruct (Z.testbit Fa s), (Z.testbit Fb s); simpl; intro D; try discriminate; lia.
Qed.

Lemma notin_land Fa Fb s :
  (notin (Z.land Fa Fb) s = 0 -> notin Fa s + notin Fb s = 0) /\
  (notin (Z.land Fa Fb) s = 1 -> notin Fa s + notin Fb s >= 1).
Proof.
  unfold notin. rewrite Z.land_spec.
  destruct (Z.testbit Fa s), (Z.testbit Fb s); simpl; split; intro; lia.
Qed.

Lemma notin_true F s : Z.testbit F s = true -> notin F s = 0.
Proof. unfold notin. intros ->. reflexivity. Qed.

Lemma notin_false F s : Z.testbit F s = false -> notin F s = 1.
Proof. unfold notin. intros ->. reflexivity. Qed.

(* ---------- Fitch score is a lower bound for every assignment ---------- *)
Lemma fitch_lower ls t : binary t -> forall A, fits ls A t ->
  changes A >= fitch_score ls t + notin (fitch_set ls t) (a_state A).
Proof.
  intro B. pattern t. revert t B. apply binary_ind; [intros i x l e | intros i x l e a b Ba Bb IHa IHb]; intros A F.
  - apply fits_leaf_inv in F. destruct F as [s [-> Hs]].
    unfold fitch_score, fitch_set. rewrite fitch1_leaf. simpl. unfold notin. rewrite Hs. lia.
  - apply fits_node2_inv in F. destruct F as [s [al [ar [-> [Fl Fr]]]]].
    specialize (IHa al Fl). specialize (IHb ar Fr).
    rewrite changes_node2. unfold fitch_score, fitch_set in *. rewrite fitch1_node2.
    destruct (fitch1 ls a) as [Fa fa]. destruct (fitch1 ls b) as [Fb fb].
    unfold fcomb. simpl fst in *. simpl snd in *. simpl a_state.
    destruct (Z.eqb_spec (Z.land Fa Fb) 0) as [E|E]; simpl fst; simpl snd.
    + pose proof (notin_lor Fa Fb s E) as D.
      pose proof (notin_step Fa s (a_state al)). pose proof (notin_step Fb s (a_state ar)). lia.
    + destruct (notin_land Fa Fb s) as [D0 D1].
      pose proof (notin_01 (Z.land Fa Fb) s).
      pose proof (notin_step Fa s (a_state al)). pose proof (notin_step Fb s (a_state ar)).
      pose proof (notin_01 Fa s). pose proof (notin_01 Fb s). lia.
Qed.

(* ---------- ... and is attained, for every root state of the Fitch set ---------- *)
Lemma fitch_upper n ls t : binary t -> leaves_ok n ls t ->
  0 < fitch_set ls t < 2 ^ Z.of_nat n /\
  forall s, Z.testbit (fitch_set ls t) s = true ->
    exists A, fits ls A t /\ in_range (Z.of_nat n) A /\ a_state A = s /\ changes A = fitch_score ls t.
Proof.
  intro B. pattern t. revert t B. apply binary_ind; [intros i x l e | intros i x l e a b Ba Bb IHa IHb]; intro L.
  - unfold fitch_score, fitch_set. rewrite fitch1_leaf. simpl in *. split; [exact L|].
    intros s Hs. exists (AT s []). simpl. repeat split; auto; try lia; eapply testbit_range; eauto.
  - apply leaves_ok_node2 in L. destruct L as [La Lb].
    destruct (IHa La) as [Ra Wa]. destruct (IHb Lb) as [Rb Wb]. clear IHa IHb.
    unfold fitch_score, fitch_set in *. rewrite fitch1_node2.
    destruct (fitch1 ls a) as [Fa fa]. destruct (fitch1 ls b) as [Fb fb].
    unfold fcomb. simpl fst in *. simpl snd in *.
    destruct (Z.eqb_spec (Z.land Fa Fb) 0) as [E|E]; simpl fst; simpl snd.
    + split; [apply set_range_lor; assumption|].
      intros s Hs. rewrite Z.lor_spec in Hs.
      pose proof (land0_disjoint Fa Fb s E) as D.
      assert (Rs : 0 <= s < Z.of_nat n).
      { apply orb_true_iff in Hs. destruct Hs as [Hs|Hs]; [apply (testbit_range Fa n s Ra Hs) | apply (testbit_range Fb n s Rb Hs)]. }
      destruct (Z.testbit Fa s) eqn:Ta.
      * (* s in Fa, hence not in Fb: the right child takes some state of Fb *)
        simpl in D.
        destruct (Wa s Ta) as [al [F1 [R1 [S1 C1]]]].
        destruct (Wb (Z.log2 Fb) (pos_has_bit Fb (proj1 Rb))) as [ar [F2 [R2 [S2 C2]]]].
        exists (AT s [al; ar]). split; [apply fits_node2; assumption|].
        split; [apply in_range_node2; auto|]. split; [reflexivity|].
        rewrite changes_node2, S1, S2, C1, C2.
        assert (N : s <> Z.log2 Fb) by (intro Q; rewrite Q in D; rewrite pos_has_bit in D by apply Rb; discriminate).
        unfold neq01. rewrite Z.eqb_refl. destruct (Z.eqb_spec s (Z.log2 Fb)); [contradiction|lia].
      * simpl in Hs.
        destruct (Wb s Hs) as [ar [F2 [R2 [S2 C2]]]].
        destruct (Wa (Z.log2 Fa) (pos_has_bit Fa (proj1 Ra))) as [al [F1 [R1 [S1 C1]]]].
        exists (AT s [al; ar]). split; [apply fits_node2; assumption|].
        split; [apply in_range_node2; auto|]. split; [reflexivity|].
        rewrite changes_node2, S1, S2, C1, C2.
        assert (N : s <> Z.log2 Fa) by (intro Q; rewrite Q in Ta; rewrite pos_has_bit in Ta by apply Ra; discriminate).
        unfold neq01. rewrite Z.eqb_refl. destruct (Z.eqb_spec s (Z.log2 Fa)); [contradiction|lia].
    + split; [apply set_range_land; assumption|].
      intros s Hs. rewrite Z.land_spec in Hs. apply andb_true_iff in Hs. destruct Hs as [Ta Tb].
      destruct (Wa s Ta) as [al [F1 [R1 [S1 C1]]]].
      destruct (Wb s Tb) as [ar [F2 [R2 [S2 C2]]]].
      exists (AT s [al; ar]). split; [apply fits_node2; assumption|].
      split; [apply in_range_node2; repeat split; auto; eapply testbit_range; eauto|].
      split; [reflexivity|].
      rewrite changes_node2, S1, S2, C1, C2. unfold neq01. rewrite Z.eqb_refl. lia.
Qed.

Lemma fitch_is_minimum_l n ls t : binary t -> leaves_ok n ls t ->
  (forall A, fits ls A t -> changes A >= fitch_score ls t) /\
  (exists A, fits ls A t /\ in_range (Z.of_nat n) A /\ changes A = fitch_score ls t).
Proof.
  intros B L. split.
  - intros A F. pose proof (fitch_lower ls t B A F) as H. unfold notin in H.
    destruct (Z.testbit _ _); lia.
  - destruct (fitch_upper n ls t B L) as [R W].
    destruct (W _ (pos_has_bit _ (proj1 R))) as [A [F [IR [_ C]]]]. eauto.
Qed.

(* ---------- Z + infinity ---------- *)
Lemma ele_refl a : ele a a.
Proof. destruct a; simpl; auto; lia. Qed.

Lemma ele_trans a b c : ele a b -> ele b c -> ele a c.
Proof. destruct a, b, c; simpl; auto; try lia; try tauto. Qed.

Lemma ele_antisym a b : ele a b -> ele b a -> a = b.
Proof. destruct a, b; simpl; try tauto. intros. f_equal. lia. Qed.

Lemma emin_le_l a b : ele (emin a b) a.
Proof. destruct a, b; simpl; auto; lia. Qed.

Lemma emin_le_r a b : ele (emin a b) b.
Proof. destruct a, b; simpl; auto; lia. Qed.

Lemma emin_glb c a b : ele c a -> ele c b -> ele c (emin a b).
Proof. destruct a, b, c; simpl; auto; lia. Qed.

Lemma emin_cases a b : emin a b = a \/ emin a b = b.
Proof. destruct a, b; simpl; auto. destruct (Z.min_spec z z0) as [[_ ->]|[_ ->]]; auto. Qed.

Lemma eplus_mono a b c d : ele a b -> ele c d -> ele (eplus a c) (eplus b d).
Proof. destruct a, b, c, d; simpl; auto; try lia; try tauto. Qed.

Lemma emin_upto_ub n g u : 0 <= u < Z.of_nat n -> ele (emin_upto n g) (g u).
Proof.
  induction n as [|k IH]; intro R; [lia|]. simpl emin_upto.
  destruct (Z.eq_dec u (Z.of_nat k)) as [->|N].
  - apply emin_le_r.
  - eapply ele_trans; [apply emin_le_l|]. apply IH. lia.
Qed.

Lemma emin_upto_lb n g c : (forall u, 0 <= u < Z.of_nat n -> ele c (g u)) -> ele c (emin_upto n g).
Proof.
  induction n as [|k IH]; intro H; simpl emin_upto.
  - destruct c; simpl; auto.
  - apply emin_glb; [apply IH; intros; apply H; lia | apply H; lia].
Qed.

Lemma emin_upto_attained n g z : emin_upto n g = Fin z -> exists u, 0 <= u < Z.of_nat n /\ g u = Fin z.
Proof.
  induction n as [|k IH]; simpl emin_upto; intro E; [discriminate|].
  destruct (emin_cases (emin_upto k g) (g (Z.of_nat k))) as [Q|Q]; rewrite Q in E.
  - destruct (IH E) as [u [R G]]. exists u. split; [lia|exact G].
  - exists (Z.of_nat k). split; [lia|exact E].
Qed.

(* cost of a child as seen from its parent in state s *)
Definition seen n ls k s := emin_upto n (fun u => eplus (cost n ls k u) (Fin (neq01 s u))).

Lemma cost_leaf n ls i x l e s : cost n ls (T i x l e []) s = if Z.testbit (ls x) s then Fin 0 else Inf.
Proof. reflexivity. Qed.

Lemma cost_node2 n ls i x l e a b s :
  cost n ls (T i x l e [a; b]) s = eplus (seen n ls a s) (eplus (seen n ls b s) (Fin 0)).
Proof. reflexivity. Qed.

(* ---------- Sankoff cost = minimum over assignments with the given root state ---------- *)
Lemma sankoff_lower n ls t : binary t -> forall A, fits ls A t -> in_range (Z.of_nat n) A ->
  ele (cost n ls t (a_state A)) (Fin (changes A)).
Proof.
  intro B. pattern t. revert t B. apply binary_ind; [intros i x l e | intros i x l e a b Ba Bb IHa IHb]; intros A F R.
  - apply fits_leaf_inv in F. destruct F as [s [-> Hs]]. rewrite cost_leaf. simpl a_state. rewrite Hs. simpl. lia.
  - apply fits_node2_inv in F. destruct F as [s [al [ar [-> [Fl Fr]]]]].
    apply in_range_node2 in R. destruct R as [Rs [Rl Rr]].
    specialize (IHa al Fl Rl). specialize (IHb ar Fr Rr).
    rewrite cost_node2, changes_node2. simpl a_state.
    assert (Sl : 0 <= a_state al < Z.of_nat n) by (destruct al; simpl in *; tauto).
    assert (Sr : 0 <= a_state ar < Z.of_nat n) by (destruct ar; simpl in *; tauto).
    assert (Ha : ele (seen n ls a s) (Fin (changes al + neq01 s (a_state al)))).
    { eapply ele_trans; [apply (emin_upto_ub n _ (a_state al) Sl)|].
      change (Fin (changes al + neq01 s (a_state al))) with (eplus (Fin (changes al)) (Fin (neq01 s (a_state al)))).
      apply eplus_mono; [exact IHa|apply ele_refl]. }
    assert (Hb : ele (seen n ls b s) (Fin (changes ar + neq01 s (a_state ar)))).
    { eapply ele_trans; [apply (emin_upto_ub n _ (a_state ar) Sr)|].
      change (Fin (changes ar + neq01 s (a_state ar))) with (eplus (Fin (changes ar)) (Fin (neq01 s (a_state ar)))).
      apply eplus_mono; [exact IHb|apply ele_refl]. }
    destruct (seen n ls a s), (seen n ls b s); simpl in *; try tauto; lia.
Qed.

Lemma sankoff_attained n ls t : binary t -> forall s c, 0 <= s < Z.of_nat n -> cost n ls t s = Fin c ->
  exists A, fits ls A t /\ in_range (Z.of_nat n) A /\ a_state A = s /\ changes A = c.
Proof.
  intro B. pattern t. revert t B. apply binary_ind; [intros i x l e | intros i x l e a b Ba Bb IHa IHb]; intros s c R E.
  - rewrite cost_leaf in E. destruct (Z.testbit (ls x) s) eqn:Hs; [|discriminate]. inversion E; subst.
    exists (AT s []). simpl. auto.
  - rewrite cost_node2 in E.
    destruct (seen n ls a s) as [ca|] eqn:Ea; [|discriminate].
    destruct (seen n ls b s) as [cb|] eqn:Eb; [|discriminate].
    simpl in E. inversion E; subst. clear E.
    apply emin_upto_attained in Ea. destruct Ea as [u [Ru Gu]].
    apply emin_upto_attained in Eb. destruct Eb as [v [Rv Gv]].
    destruct (cost n ls a u) as [cu|] eqn:Cu; [|discriminate].
    destruct (cost n ls b v) as [cv|] eqn:Cv; [|discriminate].
    simpl in Gu, Gv. inversion Gu; subst. inversion Gv; subst.
    destruct (IHa u cu Ru Cu) as [al [F1 [R1 [S1 C1]]]].
    destruct (IHb v cv Rv Cv) as [ar [F2 [R2 [S2 C2]]]].
    exists (AT s [al; ar]). split; [apply fits_node2; assumption|].
    split; [apply in_range_node2; auto|]. split; [reflexivity|].
    rewrite changes_node2, S1, S2, C1, C2. lia.
Qed.

(* ---------- the Fitch invariant against the Sankoff cost ---------- *)
Lemma seen_value n ls k F f s :
  0 < F < 2 ^ Z.of_nat n ->
  (forall u, 0 <= u < Z.of_nat n ->
     (Z.testbit F u = true -> cost n ls k u = Fin f) /\
     (Z.testbit F u = false -> ele (Fin (f + 1)) (cost n ls k u))) ->
  0 <= s < Z.of_nat n ->
  seen n ls k s = Fin (f + notin F s).
Proof.
  intros RF H Rs. unfold seen. apply ele_antisym.
  - (* attained *)
    destruct (Z.testbit F s) eqn:Ts.
    + eapply ele_trans; [apply (emin_upto_ub n _ s Rs)|]. simpl.
      rewrite (proj1 (H s Rs) Ts). unfold notin, neq01. rewrite Ts, Z.eqb_refl. simpl. lia.
    + pose proof (pos_has_bit F (proj1 RF)) as Tw.
      pose proof (testbit_range F n _ RF Tw) as Rw.
      eapply ele_trans; [apply (emin_upto_ub n _ (Z.log2 F) Rw)|]. simpl.
      rewrite (proj1 (H _ Rw) Tw). unfold notin, neq01. rewrite Ts.
      destruct (Z.eqb_spec s (Z.log2 F)); simpl; lia.
  - apply emin_upto_lb. intros u Ru.
    destruct (H u Ru) as [H1 H2].
    destruct (Z.testbit F u) eqn:Tu.
    + rewrite (H1 eq_refl). simpl. unfold notin, neq01.
      destruct (Z.eqb_spec s u); [subst; rewrite Tu; lia|]. destruct (Z.testbit F s); lia.
    + specialize (H2 eq_refl). destruct (cost n ls k u); simpl in *; auto.
      unfold notin, neq01. destruct (Z.eqb_spec s u); destruct (Z.testbit F s); lia.
Qed.

Lemma fitch_invariant_l n ls t : binary t -> leaves_ok n ls t ->
  0 < fitch_set ls t < 2 ^ Z.of_nat n /\
  forall s, 0 <= s < Z.of_nat n ->
    (Z.testbit (fitch_set ls t) s = true -> cost n ls t s = Fin (fitch_score ls t)) /\
    (Z.testbit (fitch_set ls t) s = false -> ele (Fin (fitch_score ls t + 1)) (cost n ls t s)).
Proof.
  intro B. pattern t. revert t B. apply binary_ind; [intros i x l e | intros i x l e a b Ba Bb IHa IHb]; intro L.
  - unfold fitch_score, fitch_set. rewrite fitch1_leaf. simpl fst. simpl snd. split; [exact L|].
    intros s Rs. rewrite cost_leaf. split; intro Hs; rewrite Hs; simpl; auto.
  - apply leaves_ok_node2 in L. destruct L as [La Lb].
    destruct (IHa La) as [Ra Ia]. destruct (IHb Lb) as [Rb Ib]. clear IHa IHb.
    assert (Sa := fun s => seen_value n ls a _ _ s Ra Ia).
    assert (Sb := fun s => seen_value n ls b _ _ s Rb Ib).
    unfold fitch_score, fitch_set in *. rewrite fitch1_node2.
    destruct (fitch1 ls a) as [Fa fa]. destruct (fitch1 ls b) as [Fb fb].
    unfold fcomb. simpl fst in *. simpl snd in *.
    destruct (Z.eqb_spec (Z.land Fa Fb) 0) as [E|E]; simpl fst; simpl snd.
    + split; [apply set_range_lor; assumption|].
      intros s Rs. rewrite cost_node2, (Sa s Rs), (Sb s Rs). simpl.
      pose proof (notin_lor Fa Fb s E) as D.
      split; intro Hs; [apply notin_true in Hs | apply notin_false in Hs]; [f_equal|]; lia.
    + split; [apply set_range_land; assumption|].
      intros s Rs. rewrite cost_node2, (Sa s Rs), (Sb s Rs). simpl.
      destruct (notin_land Fa Fb s) as [D0 D1].
      split; intro Hs; [apply notin_true in Hs | apply notin_false in Hs]; [f_equal|]; lia.
Qed.

(* ---------- child order and root position (per character) ---------- *)
Lemma fcomb_comm a b : fcomb a b = fcomb b a.
Proof.
  unfold fcomb. rewrite (Z.land_comm (fst b) (fst a)), (Z.lor_comm (fst b) (fst a)).
  destruct (Z.eqb (Z.land (fst a) (fst b)) 0); f_equal; lia.
Qed.

Lemma swap_eq_fitch1 ls t t' : swap_eq t t' -> fitch1 ls t = fitch1 ls t'.
Proof.
  induction 1 as [i x l e i' l' e' | i x l e i' x' l' e' a b a' b' Ha IHa Hb IHb
                  | i x l e i' x' l' e' a b a' b' Ha IHa Hb IHb].
  - reflexivity.
  - rewrite !fitch1_node2, IHa, IHb. reflexivity.
  - rewrite !fitch1_node2, IHa, IHb. apply fcomb_comm.
Qed.

Lemma swap_eq_binary t t' : swap_eq t t' -> (binary t <-> binary t').
Proof.
  induction 1; simpl; tauto.
Qed.

Lemma land_lor_0 a b c : Z.land a (Z.lor b c) = 0 <-> Z.land a b = 0 /\ Z.land a c = 0.
Proof. rewrite Z.land_lor_distr_r. apply Z.lor_eq_0_iff. Qed.

(* the number of changes needed among three sets joined at a point does not depend on which two
   are combined first *)
Lemma root_move_score A B C fa fb fc :
  snd (fcomb (A, fa) (fcomb (B, fb) (C, fc))) = snd (fcomb (fcomb (A, fa) (B, fb)) (C, fc)).
Proof.
  unfold fcomb. simpl fst. simpl snd.
  destruct (Z.eqb_spec (Z.land B C) 0) as [E1|E1]; destruct (Z.eqb_spec (Z.land A B) 0) as [E2|E2];
    simpl fst; simpl snd.
  - (* B,C disjoint; A,B disjoint *)
    destruct (Z.eqb_spec (Z.land A (Z.lor B C)) 0) as [E3|E3];
      destruct (Z.eqb_spec (Z.land (Z.lor A B) C) 0) as [E4|E4]; simpl; try lia.
    + apply land_lor_0 in E3. destruct E3 as [_ E3].
      exfalso. apply E4. rewrite Z.land_comm. apply land_lor_0. split; rewrite Z.land_comm; assumption.
    + rewrite Z.land_comm in E4. apply land_lor_0 in E4. destruct E4 as [E4 _].
      exfalso. apply E3. apply land_lor_0. split; [assumption|rewrite Z.land_comm; assumption].
  - (* B,C disjoint; A,B meet *)
    destruct (Z.eqb_spec (Z.land A (Z.lor B C)) 0) as [E3|E3].
    + apply land_lor_0 in E3. tauto.
    + destruct (Z.eqb_spec (Z.land (Z.land A B) C) 0) as [E4|E4]; simpl; try lia.
      exfalso. apply E4. rewrite <- Z.land_assoc, E1. apply Z.land_0_r.
  - (* B,C meet; A,B disjoint *)
    destruct (Z.eqb_spec (Z.land (Z.lor A B) C) 0) as [E4|E4].
    + rewrite Z.land_comm in E4. apply land_lor_0 in E4. rewrite (Z.land_comm C B) in E4. tauto.
    + destruct (Z.eqb_spec (Z.land A (Z.land B C)) 0) as [E3|E3]; simpl; try lia.
      exfalso. apply E3. rewrite Z.land_assoc, E2. apply Z.land_0_l.
  - rewrite Z.land_assoc.
    destruct (Z.eqb (Z.land (Z.land A B) C) 0); simpl; lia.
Qed.

Lemma root_move_fitch ls i x l e j y lb f i' x' l' e' j' y' lb' f' L M R :
  fitch_score ls (T i x l e [L; T j y lb f [M; R]]) =
  fitch_score ls (T i' x' l' e' [T j' y' lb' f' [L; M]; R]).
Proof.
  unfold fitch_score. rewrite !fitch1_node2.
  destruct (fitch1 ls L) as [A fa]. destruct (fitch1 ls M) as [B fb]. destruct (fitch1 ls R) as [C fc].
  apply root_move_score.
Qed.

Lemma reroot_eq_score ls t t' : reroot_eq t t' -> fitch_score ls t = fitch_score ls t'.
Proof.
  induction 1.
  - unfold fitch_score. f_equal. apply swap_eq_fitch1. assumption.
  - apply root_move_fitch.
  - symmetry. assumption.
  - etransitivity; eassumption.
Qed.

Lemma reroot_eq_binary t t' : reroot_eq t t' -> (binary t <-> binary t').
Proof.
  induction 1.
  - apply swap_eq_binary. assumption.
  - simpl. tauto.
  - tauto.
  - tauto.
Qed.
