(* C18 - locality of the draws: a simulator's result depends only on the script entries it consumed
   (so two runs from generator states that agree on the consumed draws return identical results) *)
From Coq Require Import QArith List Bool Arith Lia.
From DV Require Import Model.C18Model Proofs.C18Lists Proofs.C18Monad Proofs.C18BD Proofs.C18FBD Proofs.C18CC.
Import ListNotations.
Open Scope nat_scope.

Definition framed {A} (m : M A) : Prop :=
  forall s c a s' c', m (s, c) = Done a (s', c') ->
    exists used, s = used ++ s' /\ forall t, m (used ++ t, c) = Done a (t, c').

Lemma framed_ret {A} (a : A) : framed (ret a).
Proof. intros s c b s' c' H. inversion H; subst. exists []. split; [reflexivity|]. intros t. reflexivity. Qed.

Lemma framed_raise {A} e : framed (@raise A e).
Proof. intros s c b s' c' H. discriminate. Qed.

Lemma framed_const_nofuel {A} : framed (fun _ : rs => @NoFuel A).
Proof. intros s c b s' c' H. discriminate. Qed.

Lemma framed_bnd {A B} (m : M A) (f : A -> M B) : framed m -> (forall a, framed (f a)) -> framed (bnd m f).
Proof.
  intros Hm Hf s c b s2 c2 H. apply bnd_Done in H. destruct H as (a & [s1 c1] & H1 & H2).
  destruct (Hm _ _ _ _ _ H1) as (u1 & -> & F1). destruct (Hf a _ _ _ _ _ H2) as (u2 & -> & F2).
  exists (u1 ++ u2). split; [rewrite app_assoc; reflexivity|].
  intros t. unfold bnd. rewrite <- app_assoc. rewrite F1. apply F2.
Qed.

Lemma framed_guard {A} (b : bool) (x : A) (m : M A) : framed m -> framed (fun r => if b then Done x r else m r).
Proof.
  intros Hm. destruct b; [|exact Hm]. intros s c a s' c' H. inversion H; subst. exists []. split; [reflexivity|]. intros t. reflexivity.
Qed.

Lemma framed_d_exp rate : framed (d_exp rate).
Proof.
  intros s c a s' c' H. destruct (d_exp_Done _ _ _ _ H) as (t & E & E'). simpl in E, E'. inversion E'; subst.
  exists [DExp a]. split; [reflexivity|]. intros t0. reflexivity.
Qed.
Lemma framed_expovariate rate : framed (expovariate rate).
Proof. unfold expovariate. destruct (Qeq_bool rate 0); [apply framed_raise|apply framed_d_exp]. Qed.
Lemma framed_d_unit : framed d_unit.
Proof.
  intros s c a s' c' H. destruct (d_unit_Done _ _ _ H) as (t & E & E'). simpl in E, E'. inversion E'; subst.
  exists [DUnit a]. split; [reflexivity|]. intros t0. reflexivity.
Qed.
Lemma framed_d_gauss mu sg : framed (d_gauss mu sg).
Proof.
  intros s c a s' c' H. unfold d_gauss in H. simpl in H. destruct s as [|[] t]; try discriminate. inversion H; subst.
  exists [DGauss q]. split; [reflexivity|]. intros t0. reflexivity.
Qed.
Lemma framed_d_perm n : framed (d_perm n).
Proof.
  intros s c a s' c' H. unfold d_perm in H. simpl in H. destruct s as [|[] t]; try discriminate.
  destruct (is_perm n p) eqn:E; [|discriminate]. inversion H; subst.
  exists [DPerm a]. split; [reflexivity|]. intros t0. unfold d_perm. simpl. rewrite E. reflexivity.
Qed.
Lemma framed_d_choice n : framed (d_choice n).
Proof.
  intros s c a s' c' H. unfold d_choice in H. simpl in H. destruct (n =? 0) eqn:E0; [discriminate|].
  destruct s as [|[] t]; try discriminate. destruct (i <? n) eqn:E; [|discriminate]. inversion H; subst.
  exists [DIndex a]. split; [reflexivity|]. intros t0. unfold d_choice. simpl. rewrite E0, E. reflexivity.
Qed.
Lemma framed_d_randint lo hi : framed (d_randint lo hi).
Proof.
  intros s c a s' c' H. unfold d_randint in H. simpl in H. destruct (hi <? lo) eqn:E0; [discriminate|].
  destruct s as [|[] t]; try discriminate. destruct ((lo <=? i) && (i <=? hi)) eqn:E; [|discriminate]. inversion H; subst.
  exists [DIndex a]. split; [reflexivity|]. intros t0. unfold d_randint. simpl. rewrite E0, E. reflexivity.
Qed.
Lemma framed_d_sample2 n : framed (d_sample2 n).
Proof.
  intros s c a s' c' H. unfold d_sample2 in H. simpl in H. destruct (n <? 2) eqn:E0; [discriminate|].
  destruct s as [|[] t]; try discriminate. destruct s as [|i [|j [|]]]; try discriminate.
  destruct ((i <? n) && (j <? n) && negb (i =? j)) eqn:E; [|discriminate]. inversion H; subst.
  exists [DSample [i; j]]. split; [reflexivity|]. intros t0. unfold d_sample2. simpl. rewrite E0, E. reflexivity.
Qed.

Lemma framed_left {A} (m : M A) : framed m -> forall r a r', m r = Done a r' -> left_ r' <= left_ r.
Proof.
  intros Hm [s c] a [s' c'] H. destruct (Hm _ _ _ _ _ H) as (u & -> & _). unfold left_. simpl. rewrite app_length. lia.
Qed.

(* ---------------- birth_death_tree ---------------- *)

Lemma framed_bd_body : forall P st, framed (bd_body P st).
Proof.
  intros P st. unfold bd_body. cbv zeta.
  apply framed_bnd; [unfold expovariate; destruct (Qeq_bool _ _); [apply framed_raise|apply framed_d_exp]|intros w].
  apply framed_bnd; [unfold weighted_index_choice; apply framed_bnd; [apply framed_d_unit|intros u; apply framed_ret]|intros oi].
  destruct oi as [i|]; [|apply framed_raise]. destruct (nth_error _ i) as [[nd b]|]; [|apply framed_raise].
  destruct b.
  - apply framed_bnd; [apply framed_d_gauss|intros g1]. apply framed_bnd; [apply framed_d_gauss|intros g2].
    apply framed_bnd; [apply framed_d_gauss|intros g3]. apply framed_bnd; [apply framed_d_gauss|intros g4]. apply framed_ret.
  - destruct (remove_first nd (s_ext st)); apply framed_ret.
Qed.

Lemma framed_bd_loop : forall fuel P st, framed (bd_loop fuel P st).
Proof.
  induction fuel as [|f IH]; intros P st; simpl.
  - apply (framed_guard _ st (fun _ => NoFuel)). apply framed_const_nofuel.
  - apply (framed_guard _ st (bnd (bd_body P st) (bd_loop f P))). apply framed_bnd; [apply framed_bd_body|intros; apply IH].
Qed.

(* more fuel than draws consumed gives the same result *)
Lemma bd_loop_refuel : forall f P st r x r', bd_loop f P st r = Done x r' ->
  forall f', left_ r - left_ r' < f' -> bd_loop f' P st r = Done x r'.
Proof.
  induction f as [|f IH]; intros P st r x r' H f' Hf; simpl in H.
  - destruct (p_n P <=? length (s_ext st)) eqn:E; [|discriminate]. destruct f'; simpl; rewrite E; exact H.
  - destruct (p_n P <=? length (s_ext st)) eqn:E; [destruct f'; simpl; rewrite E; exact H|].
    apply bnd_Done in H. destruct H as (st1 & r1 & H1 & H2).
    pose proof (bd_body_shape _ _ _ _ _ H1) as (_ & _ & _ & _ & Hlt).
    pose proof (framed_left _ (framed_bd_loop f P st1) _ _ _ H2) as Hle.
    destruct f' as [|f']; [lia|]. simpl. rewrite E. unfold bnd. rewrite H1. apply (IH _ _ _ _ _ H2). lia.
Qed.

Lemma framed_prune_all : forall xs pr t, framed (prune_all xs pr t).
Proof.
  induction xs as [|x xs IH]; intros pr t; simpl; [apply framed_ret|].
  destruct (memb x pr); [apply IH|]. destruct (prune1 x t); [apply IH|apply framed_raise].
Qed.

Lemma framed_taxa_block : forall fn cs ns t, framed (taxa_block fn cs ns t).
Proof.
  intros. unfold taxa_block. apply framed_bnd; [apply framed_d_perm|intros p1]. cbv zeta.
  apply framed_bnd; [apply framed_d_perm|intros p2].
  destruct (assign_taxa _ _ _ _ _ _ _) as [[m ns']|]; [apply framed_ret|apply framed_const_nofuel].
Qed.

Lemma framed_bd_finish : forall fn cs ns st, framed (bd_finish fn cs ns st).
Proof.
  intros. unfold bd_finish. apply framed_bnd; [apply framed_prune_all|intros; apply framed_taxa_block].
Qed.

Lemma framed_bd_run : forall fn cs P ns, framed (bd_run fn cs P ns).
Proof.
  intros fn cs P ns s c a s' c' H. unfold bd_run in H. simpl fst in H.
  set (F0 := S (length s)) in *.
  assert (Hfr : framed (bnd (bd_loop F0 P (bd_init P)) (bd_finish fn cs ns))).
  { apply framed_bnd; [apply framed_bd_loop|intros; apply framed_bd_finish]. }
  destruct (Hfr _ _ _ _ _ H) as (used & -> & Fr). exists used. split; [reflexivity|].
  intros t. unfold bd_run. simpl fst. specialize (Fr t). apply bnd_Done in Fr. destruct Fr as (st1 & r1 & L1 & L2).
  pose proof (framed_left _ (framed_bd_finish fn cs ns st1) _ _ _ L2) as Hle. unfold left_ in Hle. simpl in Hle.
  unfold bnd. rewrite (bd_loop_refuel _ _ _ _ _ _ L1); [exact L2|]. unfold left_. simpl. rewrite app_length. lia.
Qed.

(* ---------------- fast_birth_death_tree ---------------- *)

Lemma framed_fbd_body : forall P st, framed (fbd_body P st).
Proof.
  intros P st. unfold fbd_body. cbv zeta. destruct (Qeq_bool _ _); [apply framed_raise|].
  apply framed_bnd; [apply framed_d_exp|intros w].
  apply framed_bnd; [apply framed_d_randint|intros i].
  apply framed_bnd; [apply framed_d_unit|intros u].
  destruct (nth_error _ i) as [nd|]; [|apply framed_raise].
  destruct (Qltb u _); [apply framed_ret|]. destruct (remove_nth i (f_ext st)); apply framed_ret.
Qed.

Lemma framed_fbd_loop : forall fuel P st, framed (fbd_loop fuel P st).
Proof.
  induction fuel as [|f IH]; intros P st; simpl.
  - apply (framed_guard _ _ (fun _ => NoFuel)). apply framed_const_nofuel.
  - apply (framed_guard _ _ (bnd (fbd_body P st) (fbd_loop f P))). apply framed_bnd; [apply framed_fbd_body|intros; apply IH].
Qed.

Lemma fbd_loop_refuel : forall f P st r x r', fbd_loop f P st r = Done x r' ->
  forall f', left_ r - left_ r' < f' -> fbd_loop f' P st r = Done x r'.
Proof.
  induction f as [|f IH]; intros P st r x r' H f' Hf; simpl in H.
  - destruct (p_n P <=? length (f_ext st)) eqn:E; [|discriminate]. destruct f'; simpl; rewrite E; exact H.
  - destruct (p_n P <=? length (f_ext st)) eqn:E; [destruct f'; simpl; rewrite E; exact H|].
    apply bnd_Done in H. destruct H as (st1 & r1 & H1 & H2).
    pose proof (fbd_body_shape _ _ _ _ _ H1) as (_ & _ & _ & _ & _ & Hlt).
    pose proof (framed_left _ (framed_fbd_loop f P st1) _ _ _ H2) as Hle.
    destruct f' as [|f']; [lia|]. simpl. rewrite E. unfold bnd. rewrite H1. apply (IH _ _ _ _ _ H2). lia.
Qed.

Lemma framed_fbd_run : forall fn cs P ns, framed (fbd_run fn cs P ns).
Proof.
  intros fn cs P ns s c a s' c' H. unfold fbd_run in H. simpl fst in H.
  set (F0 := S (length s)) in *.
  set (fin := fun st : fst_ => bnd (prune_all (f_dead st) [] (f_tr st)) (fun t1 => taxa_block fn cs ns (suppress t1))) in *.
  assert (Hfin : forall st, framed (fin st)).
  { intros st. unfold fin. apply framed_bnd; [apply framed_prune_all|intros; apply framed_taxa_block]. }
  assert (Hfr : framed (bnd (fbd_loop F0 P fbd_init) fin)).
  { apply framed_bnd; [apply framed_fbd_loop|exact Hfin]. }
  destruct (Hfr _ _ _ _ _ H) as (used & -> & Fr). exists used. split; [reflexivity|].
  intros t. unfold fbd_run. simpl fst. fold fin. specialize (Fr t). apply bnd_Done in Fr. destruct Fr as (st1 & r1 & L1 & L2).
  pose proof (framed_left _ (Hfin st1) _ _ _ L2) as Hle. unfold left_ in Hle. simpl in Hle.
  unfold bnd. rewrite (fbd_loop_refuel _ _ _ _ _ _ L1); [exact L2|]. unfold left_. simpl. rewrite app_length. lia.
Qed.

(* ---------------- pure birth, coalescent ---------------- *)

Lemma framed_pb_loop : forall fuel N b t next, framed (pb_loop fuel N b t next).
Proof.
  induction fuel as [|f IH]; intros N b t next; simpl.
  - apply (framed_guard _ (t, next) (fun _ => NoFuel)). apply framed_const_nofuel.
  - apply (framed_guard _ (t, next) (bnd (expovariate (pb_rate (length (leaf_ids t)) b))
        (fun w => bnd (d_choice (length (leaf_ids t)))
           (fun i => pb_loop f N b (set_kids (nth i (leaf_ids t) 0) [bleaf next 0; bleaf (S next) 0] (add_len_set (leaf_ids t) w t)) (S (S next)))))).
    apply framed_bnd; [apply framed_expovariate|intros w]. apply framed_bnd; [apply framed_d_choice|intros i]. apply IH.
Qed.

Lemma framed_pb_run : forall N b, framed (pb_run N b).
Proof.
  intros. unfold pb_run.
  apply framed_bnd; [apply framed_pb_loop|intros t]. cbv zeta. apply framed_bnd; [apply framed_expovariate|intros w].
  destruct (_ <=? _); [apply framed_ret|apply framed_raise].
Qed.

Lemma framed_coal_loop : forall fuel pop nodes rem, framed (coal_loop fuel pop nodes rem).
Proof.
  induction fuel as [|f IH]; intros pop nodes rem; simpl.
  - apply (framed_guard _ (nodes, rem) (fun _ => NoFuel)). apply framed_const_nofuel.
  - match goal with |- framed (fun r => if ?b then Done ?x r else ?m r) => apply (framed_guard b x m) end.
    apply framed_bnd; [apply framed_d_exp|intros e]. cbv zeta.
    destruct (match rem with Some rm => Qle_bool (e * time_units pop) rm | None => true end); [|apply framed_ret].
    apply framed_bnd; [apply framed_d_sample2|intros [i j]]. apply IH.
Qed.

Lemma framed_coalesce_nodes : forall pop period nodes, framed (coalesce_nodes pop period nodes).
Proof.
  intros. unfold coalesce_nodes. destruct nodes as [|n0 nr]; [apply framed_ret|].
  apply framed_bnd; [apply framed_coal_loop|intros [nodes' rem']].
  destruct rem' as [rm|]; [destruct (Qltb 0 rm)|]; apply framed_ret.
Qed.

Lemma framed_kingman_run : forall N pop, framed (kingman_run N pop).
Proof.
  intros. unfold kingman_run. cbv zeta. apply framed_bnd; [apply framed_coalesce_nodes|intros res].
  destruct res; [apply framed_raise|apply framed_ret].
Qed.

Lemma framed_edge_coal : forall s p, framed (edge_coal s p).
Proof. intros s [nodes|]; simpl; [apply framed_coalesce_nodes|apply framed_raise]. Qed.

Lemma framed_cc_pool : forall s, framed (cc_pool s).
Proof.
  induction s as [i g l p ks IH] using stree_ind2. rewrite cc_pool_unfold.
  apply framed_bnd.
  - induction ks as [|k r IHk]; simpl; [apply framed_ret|]. inversion IH as [|? ? Pk Pr]; subst.
    apply framed_bnd; [exact Pk|intros p0]. apply framed_bnd; [apply framed_edge_coal|intros u].
    apply framed_bnd; [apply IHk; exact Pr|intros b; apply framed_ret].
  - intros rest. destruct g; [apply framed_ret|]. destruct ks; apply framed_ret.
Qed.

Lemma framed_cc_run : forall s, framed (cc_run s).
Proof.
  intros s. unfold cc_run. apply framed_bnd; [apply framed_cc_pool|intros p0].
  destruct p0 as [nodes|]; [|apply framed_raise].
  apply framed_bnd.
  - destruct (1 <? length nodes); [apply framed_coalesce_nodes|apply framed_ret].
  - intros final. destruct final; [apply framed_raise|apply framed_ret].
Qed.

(* ---------------- all simulators ---------------- *)

Theorem draws_local_proved : forall (s : simcall) (script : list draw) res rest calls,
  run_sim s script = Done res (rest, calls) ->
  exists used, script = used ++ rest /\
               forall rest', run_sim s (used ++ rest') = Done res (rest', calls).
Proof.
  intros s script res rest calls H. destruct s as [fn cs P ns|fn cs P ns|N b|N pop|S]; simpl in H.
  - unfold bd_sim in *. destruct (bd_run fn cs P ns (script, [])) as [[t ns'] [s' c']| | | |] eqn:E; try discriminate.
    inversion H; subst. destruct (framed_bd_run fn cs P ns _ _ _ _ _ E) as (used & -> & F). exists used. split; [reflexivity|].
    intros rest'. simpl. unfold bd_sim. rewrite F. reflexivity.
  - unfold fbd_sim in *. destruct (fbd_run fn cs P ns (script, [])) as [[t ns'] [s' c']| | | |] eqn:E; try discriminate.
    inversion H; subst. destruct (framed_fbd_run fn cs P ns _ _ _ _ _ E) as (used & -> & F). exists used. split; [reflexivity|].
    intros rest'. simpl. unfold fbd_sim. rewrite F. reflexivity.
  - unfold pb_sim in *. destruct (pb_run N b (script, [])) as [t [s' c']| | | |] eqn:E; try discriminate.
    inversion H; subst. destruct (framed_pb_run N b _ _ _ _ _ E) as (used & -> & F). exists used. split; [reflexivity|].
    intros rest'. simpl. unfold pb_sim. rewrite F. reflexivity.
  - unfold kingman_sim in *. destruct (kingman_run N pop (script, [])) as [t [s' c']| | | |] eqn:E; try discriminate.
    inversion H; subst. destruct (framed_kingman_run N pop _ _ _ _ _ E) as (used & -> & F). exists used. split; [reflexivity|].
    intros rest'. simpl. unfold kingman_sim. rewrite F. reflexivity.
  - unfold cc_sim in *. destruct (cc_run S (script, [])) as [t [s' c']| | | |] eqn:E; try discriminate.
    inversion H; subst. destruct (framed_cc_run S _ _ _ _ _ E) as (used & -> & F). exists used. split; [reflexivity|].
    intros rest'. simpl. unfold cc_sim. rewrite F. reflexivity.
Qed.
