(* C06: TreeArray.read_from_files as GENERATED from the current source (Gen/TreeArrayGen.v:
   gen_read_from_files, the burn-in counter loop over the (file index, tree) pairs of the yielder)
   equals the hand model (Model/C06Read.v), hence on the output of the yielder for any list of
   sources - tree-less ones anywhere - it is "drop the first tree_offset trees of EACH source";
   the SumTrees pipeline with a burn-in assembled from the generated functions is schedule
   independent *)
From Coq Require Import ZArith List Bool Lia Permutation.
From DV Require Import Model.PyPrims Model.C06Model Model.C06Queue Model.C06GenPrims Model.C06Read Gen.TreeArrayGen
     Proofs.C06Lemmas Proofs.C06Proofs Proofs.C06Sched Proofs.C06GenProofs Proofs.C06QueueProofs Proofs.C06GenSched
     Proofs.C06ReadProofs.
Import ListNotations.
Open Scope Z_scope.

Lemma gen_read_loop_eq : forall ys t off csi cto,
  gen_read_from_files_loop ys t off csi cto = read_loop true t off csi cto ys.
Proof.
  induction ys as [|[fi x] ys IH]; intros t off csi cto; [reflexivity|].
  cbn [gen_read_from_files_loop read_loop]. unfold oz_is.
  destruct (oz_eqb csi (Some fi)); cbn [negb].
  - destruct cto as [k|]; [|reflexivity].
    destruct (k >=? off).
    + rewrite gen_add_tree_eq. unfold add_tree_v.
      destruct (add_tree_r t x None) as [t' [e|]]; [reflexivity | apply IH].
    + apply IH.
  - destruct (0 >=? off).
    + rewrite gen_add_tree_eq. unfold add_tree_v.
      destruct (add_tree_r t x None) as [t' [e|]]; [reflexivity | apply IH].
    + apply IH.
Qed.

Lemma gen_read_from_files_eq t off ys : gen_read_from_files t off ys = read_from_files_v true t off ys.
Proof. unfold gen_read_from_files, read_from_files_v. apply gen_read_loop_eq. Qed.

(* the generated read_from_files on what the yielder delivers for the sources = the generated add_tree
   over the sources minus their first tree_offset trees *)
Lemma gen_read_from_files_per_source t off srcs :
  gen_read_from_files t off (yield_from 0 srcs) = gen_add_all t (concat (drop_burnin off srcs)).
Proof. rewrite gen_read_from_files_eq, read_from_files_per_source, add_all_v_true, gen_add_all_eq. reflexivity. Qed.

(* a worker process: one call read_from_files(files=[source], tree_offset=off) per fetched source *)
Fixpoint gen_read_each (t : tarr) (off : Z) (srcs : list (list trec)) : tarr * option terr :=
  match srcs with
  | [] => (t, None)
  | s :: r => match gen_read_from_files t off (yield_from 0 [s]) with
              | (t', None) => gen_read_each t' off r
              | (t', Some e) => (t', Some e)
              end
  end.

Lemma gen_read_each_eq off : forall srcs t, gen_read_each t off srcs = read_each_v true t off srcs.
Proof.
  induction srcs as [|s srcs IH]; intro t; [reflexivity|].
  cbn [gen_read_each read_each_v]. rewrite gen_read_from_files_eq.
  destruct (read_from_files_v true t off (yield_from 0 [s])) as [t' [e|]]; [reflexivity | apply IH].
Qed.

Definition gen_worker_result_b (c : cfg) (off : Z) (s : sched) (files : list (list trec)) (w : nat) : tarr * option terr :=
  gen_read_each (gen_worker_array c) off (worker_files s files w).

Definition gen_parallel_b (c : cfg) (off : Z) (s : sched) (files : list (list trec)) : tarr * option terr :=
  gen_collate c (map (gen_worker_result_b c off s files) (s_arrival s)).

Definition gen_serial_b (c : cfg) (off : Z) (files : list (list trec)) : tarr * option terr :=
  gen_read_from_files (gen_serial_array c) off (yield_from 0 files).

Lemma gen_serial_b_eq c off files : gen_serial_b c off files = gen_serial c (drop_burnin off files).
Proof. unfold gen_serial_b, gen_serial. apply gen_read_from_files_per_source. Qed.

Lemma gen_parallel_b_eq c off s files : gen_parallel_b c off s files = gen_parallel c s (drop_burnin off files).
Proof.
  unfold gen_parallel_b, gen_parallel. f_equal. apply map_ext. intro w.
  unfold gen_worker_result_b, gen_worker_result.
  rewrite gen_read_each_eq, read_each_per_source, add_all_v_true, gen_add_all_eq.
  unfold drop_burnin. rewrite worker_files_map. reflexivity.
Qed.

Lemma in_concat_drop_burnin off (x : trec) : forall files, In x (concat (drop_burnin off files)) -> In x (concat files).
Proof.
  induction files as [|f files IH]; [intros []|].
  cbn [drop_burnin map concat]. fold (drop_burnin off files). intro I.
  apply in_app_or in I. apply in_or_app. destruct I as [I|I].
  - left. rewrite <- (firstn_skipn (Z.to_nat off) f). apply in_or_app. right. exact I.
  - right. apply IH. exact I.
Qed.

Lemma burnin_schedule_irrelevant_generated_l :
  forall (c : cfg) (rooted : bool) (off : Z) (s : sched) (files : list (list trec)),
  (c_rooting c = None \/ c_rooting c = Some rooted) ->
  Forall (fun x => tr_rooted x = rooted /\ (c_ign_ages c = false -> tr_ages_err x = None)) (concat files) ->
  sched_ok s (length files) ->
  exists m t, gen_parallel_b c off s files = (m, None) /\ gen_serial_b c off files = (t, None) /\ ta_equiv m t.
Proof.
  intros c rooted off s files Hc F S. rewrite gen_parallel_b_eq, gen_serial_b_eq.
  apply schedule_irrelevant_generated_l with (rooted := rooted); [exact Hc | | unfold drop_burnin; rewrite map_length; exact S].
  rewrite Forall_forall in *. intros x I. apply F. eapply in_concat_drop_burnin. exact I.
Qed.

(* non-trivial instance: three files, the middle one without trees, burn-in 1, two workers, the
   worker of the last file arrives first *)
Lemma burnin_schedule_example :
  exists m t,
    gen_parallel_b (mkCfg None false true false) 1 (mkSched 2 [0; 1; 1]%nat [1; 0]%nat) ex_sources = (m, None) /\
    gen_serial_b (mkCfg None false true false) 1 ex_sources = (t, None) /\
    length (ta_splits m) = 2%nat /\ length (ta_splits t) = 2%nat /\
    ta_splits m = rev (ta_splits t).
Proof. eexists. eexists. vm_compute. repeat split; reflexivity. Qed.

(* the generated loop is NOT the one that restarts the counter when the file index equals the number of
   sources started so far: on the example the two differ (C06ReadProofs.restart_on_count_of_started_sources_wrong) *)
Lemma gen_read_from_files_example :
  exists t, gen_read_from_files ex_array 1 (yield_from 0 ex_sources) = (t, None) /\ length (ta_splits t) = 2%nat.
Proof. eexists. vm_compute. split; reflexivity. Qed.

(* the wiring of SumTrees around read_from_files, read off sumtrees.py by the translator: quiet mode
   (log_frequency 0) IS tree_array.read_from_files(files=tree_sources, tree_offset=tree_offset); serial mode
   hands it all sources and the burn-in, a worker process one fetched source per call and the same burn-in *)
Lemma source_burnin_wiring_l : source_burnin_reaches_read_from_files = true.
Proof. reflexivity. Qed.
