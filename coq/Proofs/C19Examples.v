(* C19: concrete instances - the hypotheses of the theorems are satisfiable, the statements say
   something on real data *)
From Coq Require Import ZArith List Bool Lia.
From DV Require Import Model.PyPrims Model.C19Model Proofs.C19Alist Proofs.C19Rows Proofs.C19Cols Proofs.C19Concat Proofs.C19Proofs Proofs.C19Step.
Import ListNotations.
Open Scope Z_scope.

(* labels: 2k and 2k+1 are the two spellings (lower / upper case) of one name;
   "%s_%03d" keeps the case of its label: suffix (2k+1) i = suffix (2k) i + 1; "locus%03d" gives 500 + 2 i *)
Definition ex_lower (l : lbl) : lbl := if Z.even l then l else l - 1.
Definition ex_suffix (l : lbl) (i : Z) : lbl :=
  2 * (1000 * (Z.abs (ex_lower l) + 1) + i) + (if Z.even l then 0 else 1).
Definition ex_locus (i : Z) : lbl := 500 + 2 * i.

Lemma ex_suffix_inj : forall l i j, ex_lower (ex_suffix l i) = ex_lower (ex_suffix l j) -> i = j.
Proof.
  intros l i j. unfold ex_lower, ex_suffix.
  assert (E : forall x, Z.even (2 * x) = true) by (intros x; rewrite Z.even_mul; reflexivity).
  assert (O : forall x, Z.even (2 * x + 1) = false) by (intros x; rewrite Z.even_add, E; reflexivity).
  destruct (Z.even l); rewrite ?Z.add_0_r, ?E, ?O; lia.
Qed.

Definition ex_m0 : matrix := mkM 0 (Some 10) [(1, [0; 1]); (0, [1; 1])] [].
Definition ex_m1 : matrix := mkM 0 (Some 11) [(0, [2; 0]); (1, [0; 0])] [(10, [0])].
Definition ex_m2 : matrix := mkM 0 None [(1, [3])] [].
Definition ex_m3 : matrix := mkM 1 (Some 10) [(100, [1; 0])] [].
Definition ex_w : world := mkW [(0, [0; 1]); (1, [100])] [(0, ex_m0); (1, ex_m1); (2, ex_m2); (3, ex_m3)] 4.
Definition ex_taxa := taxa_of ex_w.
Notation ex_step := (step ex_lower ex_suffix ex_locus).

Ltac nodup := repeat constructor; simpl; intuition lia.

Example ex_w_wf : wf_world ex_w.
Proof.
  split.
  - intros n T H. simpl in H.
    destruct (Z.eqb n 0); [inversion H; nodup|]. destruct (Z.eqb n 1); [inversion H; nodup | discriminate].
  - intros j m H. simpl in H.
    destruct (Z.eqb j 0); [inversion H; subst; split; [nodup | intros x Hx; simpl in *; intuition lia]|].
    destruct (Z.eqb j 1); [inversion H; subst; split; [nodup | intros x Hx; simpl in *; intuition lia]|].
    destruct (Z.eqb j 2); [inversion H; subst; split; [nodup | intros x Hx; simpl in *; intuition lia]|].
    destruct (Z.eqb j 3); [inversion H; subst; split; [nodup | intros x Hx; simpl in *; intuition lia] | discriminate].
Qed.

(* same label up to case twice, the same object twice: names a, A_002, a_003 *)
Example ex_concat :
  concatenate ex_lower ex_suffix ex_locus ex_taxa [ex_m0; ex_m1; ex_m0]
  = Ok (mkM 0 None [(1, [0; 1; 0; 0; 0; 1]); (0, [1; 1; 2; 0; 1; 1])]
            [(10, [0; 1]); (ex_suffix 11 2, [2; 3]); (ex_suffix 10 3, [4; 5])]).
Proof. vm_compute. reflexivity. Qed.

Example ex_concat_hyps :
  (forall n, NoDup (ex_taxa n)) /\
  Forall (fun cm => NoDup (map fst (m_rows cm)) /\ incl (map fst (m_rows cm)) (ex_taxa (m_ns cm))) [ex_m0; ex_m1; ex_m0].
Proof.
  split; [intros n; apply (taxa_of_NoDup ex_w n ex_w_wf)|].
  assert (W := proj2 ex_w_wf).
  constructor; [exact (W 0 ex_m0 eq_refl)|]. constructor; [exact (W 1 ex_m1 eq_refl)|].
  constructor; [exact (W 0 ex_m0 eq_refl) | constructor].
Qed.

(* partial taxon overlap and a foreign namespace are refused *)
Example ex_concat_partial : concatenate ex_lower ex_suffix ex_locus ex_taxa [ex_m0; ex_m2] = Err ValueErr.
Proof. vm_compute. reflexivity. Qed.
Example ex_concat_foreign : concatenate ex_lower ex_suffix ex_locus ex_taxa [ex_m0; ex_m3] = Err ValueErr.
Proof. vm_compute. reflexivity. Qed.
Example ex_concat_empty : concatenate ex_lower ex_suffix ex_locus ex_taxa [] = Err IndexErr.
Proof. reflexivity. Qed.

(* HISTORY: on the input of ex_concat the old loop spins (any fuel), the present one answers *)
Example ex_old_loop : forall fuel, old_free_name ex_lower ex_suffix fuel [(10, [0; 1])] 11 11 11 2 = OutOfFuel.
Proof. intros fuel. apply old_loop_guard_fixed. reflexivity. Qed.
Example ex_new_loop : free_name ex_lower ex_suffix (free_name_fuel [(10, [0; 1])]) [(10, [0; 1])] 11 11 2 = Ok (ex_suffix 11 2).
Proof. vm_compute. reflexivity. Qed.

Example ex_export :
  export_character_indices [0; 1] (mkM 0 (Some 10) [(1, [5; 6; 7; 8]); (0, [1; 2; 3; 4])] [(10, [0])]) [3; 0; 9; -1; 3]
  = mkM 0 (Some 10) [(1, [5; 8]); (0, [1; 4])] [].
Proof. vm_compute. reflexivity. Qed.

Example ex_fill :
  fill [0; 1] (mkM 0 None [(1, [5]); (0, [1; 2; 3])] []) 9 None false
  = (mkM 0 None [(1, [9; 9; 5]); (0, [1; 2; 3])] [], 3).
Proof. vm_compute. reflexivity. Qed.

Example ex_pack :
  pack [0; 1; 2] (mkM 0 None [(1, [5]); (0, [1; 2; 3])] []) (-1) None true
  = (mkM 0 None [(1, [5; -1; -1]); (0, [1; 2; 3]); (2, [-1; -1; -1])] [], 3).
Proof. vm_compute. reflexivity. Qed.

Example ex_rowops :
  add_sequences ex_m2 ex_m0 = Ok (mkM 0 None [(1, [3]); (0, [1; 1])] []) /\
  replace_sequences ex_m0 ex_m2 = Ok (mkM 0 (Some 10) [(1, [3]); (0, [1; 1])] []) /\
  update_sequences ex_m2 ex_m0 = Ok (mkM 0 None [(1, [0; 1]); (0, [1; 1])] []) /\
  extend_sequences ex_m2 ex_m0 false = Ok (mkM 0 None [(1, [3; 0; 1])] []) /\
  extend_matrix ex_m2 ex_m0 = Ok (mkM 0 None [(1, [3; 0; 1]); (0, [1; 1])] []) /\
  add_sequences ex_m0 ex_m3 = Err ValueErr.
Proof. vm_compute. repeat split. Qed.

Example ex_remove :
  remove_rows (m_rows ex_m0) [0] = ([(1, [0; 1])], None) /\
  remove_rows (m_rows ex_m0) [0; 5; 1] = ([(1, [0; 1])], Some KeyErr) /\
  remove_rows (m_rows ex_m0) [0; 0] = ([(1, [0; 1])], Some KeyErr) /\
  discard_rows (m_rows ex_m0) [0; 0; 5] = [(1, [0; 1])] /\
  keep_rows (m_rows ex_m0) [0; 5] = [(0, [1; 1])].
Proof. vm_compute. repeat split. Qed.

(* a step that changes its receiver only *)
Example ex_step_frame :
  fst (ex_step ex_w (ExtendMatrix 2 0))
  = mkW (w_nss ex_w) [(0, ex_m0); (1, ex_m1); (2, mkM 0 None [(1, [3; 0; 1]); (0, [1; 1])] []); (3, ex_m3)] 4.
Proof. vm_compute. reflexivity. Qed.

Example ex_step_foreign : ex_step ex_w (UpdateSeqs 0 3) = (ex_w, OErr ValueErr).
Proof. vm_compute. reflexivity. Qed.

(* a matrix extended by itself: every sequence doubled (CharacterDataSequence.extend materialises
   its argument; before repair 99e94739 these two calls did not return) *)
Example self_extend_doubles :
  fst (ex_step ex_w (ExtendMatrix 0 0))
  = mkW (w_nss ex_w) [(0, mkM 0 (Some 10) [(1, [0; 1; 0; 1]); (0, [1; 1; 1; 1])] []); (1, ex_m1); (2, ex_m2); (3, ex_m3)] 4 /\
  ex_step ex_w (ExtendSeqs 0 0 false) = ex_step ex_w (ExtendMatrix 0 0).
Proof. vm_compute. split; reflexivity. Qed.
