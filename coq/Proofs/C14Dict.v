(* C14: lemmas about the Python-dict model (association lists) and dict-of-dict tables *)
From Coq Require Import ZArith List Bool Lia.
From DV Require Import Model.PyPrims Model.Tree Model.C14Model.
Import ListNotations.
Open Scope Z_scope.

Lemma dget_dset_same {V} k (v : V) d : dget k (dset k v d) = Some v.
Proof.
  induction d as [|[k' v'] r IH]; simpl.
  - rewrite Z.eqb_refl. reflexivity.
  - destruct (Z.eqb k k') eqn:E; simpl; rewrite ?E, ?Z.eqb_refl; auto.
Qed.

Lemma dget_dset_other {V} k k' (v : V) d : k <> k' -> dget k' (dset k v d) = dget k' d.
Proof.
  intro N. induction d as [|[k2 v2] r IH]; simpl.
  - destruct (Z.eqb k' k) eqn:E; [apply Z.eqb_eq in E; congruence | reflexivity].
  - destruct (Z.eqb k k2) eqn:E; simpl.
    + apply Z.eqb_eq in E. subst k2.
      destruct (Z.eqb k' k) eqn:E2; [apply Z.eqb_eq in E2; congruence | reflexivity].
    + rewrite IH. reflexivity.
Qed.

Lemma dget_dset {V} k k' (v : V) d :
  dget k' (dset k v d) = if Z.eqb k' k then Some v else dget k' d.
Proof.
  destruct (Z.eqb k' k) eqn:E.
  - apply Z.eqb_eq in E. subst. apply dget_dset_same.
  - apply dget_dset_other. intro H. subst. rewrite Z.eqb_refl in E. discriminate.
Qed.

Lemma dmem_In {V} k (d : dict V) : dmem k d = true <-> In k (dkeys d).
Proof.
  unfold dmem, dkeys. induction d as [|[k' v'] r IH]; simpl.
  - split; [discriminate | tauto].
  - destruct (Z.eqb k k') eqn:E.
    + apply Z.eqb_eq in E. subst. split; auto.
    + split.
      * intro H. right. apply IH. exact H.
      * intros [H|H]; [subst; rewrite Z.eqb_refl in E; discriminate | apply IH; exact H].
Qed.

Lemma dmem_false_In {V} k (d : dict V) : dmem k d = false <-> ~ In k (dkeys d).
Proof.
  rewrite <- dmem_In. destruct (dmem k d); split; intro H.
  - discriminate.
  - exfalso. apply H. reflexivity.
  - discriminate.
  - reflexivity.
Qed.

Lemma dmem_dget {V} k (d : dict V) : dmem k d = true <-> exists v, dget k d = Some v.
Proof.
  unfold dmem. destruct (dget k d); split; intro H; eauto; try discriminate. destruct H. discriminate.
Qed.

Lemma dkeys_dset_mem {V} k (v : V) d : dmem k d = true -> dkeys (dset k v d) = dkeys d.
Proof.
  unfold dmem, dkeys. induction d as [|[k' v'] r IH]; simpl; [discriminate|].
  destruct (Z.eqb k k') eqn:E; simpl.
  - apply Z.eqb_eq in E. subst. reflexivity.
  - intro H. rewrite IH; auto.
Qed.

Lemma dkeys_dset_new {V} k (v : V) d : dmem k d = false -> dkeys (dset k v d) = dkeys d ++ [k].
Proof.
  unfold dmem, dkeys. induction d as [|[k' v'] r IH]; simpl; [reflexivity|].
  destruct (Z.eqb k k') eqn:E; simpl; [discriminate|].
  intro H. rewrite IH; auto.
Qed.

Lemma dmem_dset {V} k k' (v : V) d : dmem k' (dset k v d) = (Z.eqb k' k || dmem k' d).
Proof.
  unfold dmem. rewrite dget_dset. destruct (Z.eqb k' k); reflexivity.
Qed.

Lemma NoDup_snoc {A} (l : list A) x : NoDup l -> ~ In x l -> NoDup (l ++ [x]).
Proof.
  intros N H. induction N as [|y l Hy N IH]; simpl.
  - constructor; [intros []|constructor].
  - constructor.
    + rewrite in_app_iff. intros [H1|[H1|[]]]; [tauto|]. subst. apply H. left. reflexivity.
    + apply IH. intro H1. apply H. right. exact H1.
Qed.

Lemma NoDup_dkeys_dset {V} k (v : V) d : NoDup (dkeys d) -> NoDup (dkeys (dset k v d)).
Proof.
  intro N. destruct (dmem k d) eqn:E.
  - rewrite dkeys_dset_mem; auto.
  - rewrite dkeys_dset_new; auto. apply dmem_false_In in E.
    apply NoDup_snoc; auto.
Qed.

Lemma In_dget {V} (d : dict V) k v : NoDup (dkeys d) -> In (k, v) d -> dget k d = Some v.
Proof.
  unfold dkeys. induction d as [|[k' v'] r IH]; simpl; intros N H; [tauto|].
  inversion N as [|? ? Hn N']; subst.
  destruct H as [H|H].
  - inversion H; subst. rewrite Z.eqb_refl. reflexivity.
  - destruct (Z.eqb k k') eqn:E.
    + apply Z.eqb_eq in E. subst. exfalso. apply Hn. change k' with (fst (k', v)). apply in_map. exact H.
    + apply IH; auto.
Qed.

Lemma dget_In {V} (d : dict V) k v : dget k d = Some v -> In (k, v) d.
Proof.
  induction d as [|[k' v'] r IH]; simpl; [discriminate|].
  destruct (Z.eqb k k') eqn:E.
  - apply Z.eqb_eq in E. subst. intro H. inversion H. left. reflexivity.
  - intro H. right. auto.
Qed.

(* ---------- tables ---------- *)
Definition wf_tbl {V} (T : tbl V) : Prop :=
  NoDup (dkeys T) /\ forall k r, dget k T = Some r -> NoDup (dkeys r).

Lemma tget2_row_absent {V} x y (T : tbl V) : dmem x T = false -> tget2 x y T = None.
Proof. unfold tget2, dmem. destruct (dget x T); [discriminate | reflexivity]. Qed.

Lemma tget2_some_row {V} x y (T : tbl V) v : tget2 x y T = Some v -> dmem x T = true.
Proof. unfold tget2, dmem. destruct (dget x T); [reflexivity | discriminate]. Qed.

Lemma tset2_spec {V} a b (v : V) T :
  dmem a T = true ->
  exists T', tset2 a b v T = Ok T' /\ dkeys T' = dkeys T /\
             (forall x, dmem x T' = dmem x T) /\
             forall x y, tget2 x y T' = if Z.eqb x a && Z.eqb y b then Some v else tget2 x y T.
Proof.
  intro M. unfold tset2. pose proof M as M'. apply dmem_dget in M'. destruct M' as [r Hr]. rewrite Hr.
  eexists. split; [reflexivity|]. split; [apply dkeys_dset_mem; exact M|]. split.
  - intro x. rewrite dmem_dset. destruct (Z.eqb x a) eqn:E; [|reflexivity].
    apply Z.eqb_eq in E. subst. simpl. symmetry. exact M.
  - intros x y. unfold tget2. rewrite dget_dset. destruct (Z.eqb x a) eqn:E; simpl; [|reflexivity].
    apply Z.eqb_eq in E. subst. rewrite Hr. apply dget_dset.
Qed.

Lemma tset2_wf {V} a b (v : V) T T' : wf_tbl T -> tset2 a b v T = Ok T' -> wf_tbl T'.
Proof.
  intros [N R] H. unfold tset2 in H. destruct (dget a T) as [r|] eqn:Hr; [|discriminate].
  inversion H; subst. split.
  - apply NoDup_dkeys_dset. exact N.
  - intros k r'. rewrite dget_dset. destruct (Z.eqb k a).
    + intro E. inversion E. apply NoDup_dkeys_dset. eapply R. exact Hr.
    + apply R.
Qed.

Lemma new_row_spec {V} a (v : V) T :
  dmem a T = false ->
  dkeys (dset a [(a, v)] T) = dkeys T ++ [a] /\
  (forall x, dmem x (dset a [(a, v)] T) = (Z.eqb x a || dmem x T)) /\
  forall x y, tget2 x y (dset a [(a, v)] T) = if Z.eqb x a then (if Z.eqb y a then Some v else None) else tget2 x y T.
Proof.
  intro M. split; [apply dkeys_dset_new; exact M|]. split; [intro x; apply dmem_dset|].
  intros x y. unfold tget2. rewrite dget_dset. destruct (Z.eqb x a); [|reflexivity]. simpl.
  destruct (Z.eqb y a); reflexivity.
Qed.

Lemma new_row_wf {V} a (v : V) T : wf_tbl T -> wf_tbl (dset a [(a, v)] T).
Proof.
  intros [N R]. split; [apply NoDup_dkeys_dset; exact N|].
  intros k r. rewrite dget_dset. destruct (Z.eqb k a).
  - intro E. inversion E. simpl. constructor; [intros []|constructor].
  - apply R.
Qed.

(* ---------- _mirror_lookups ---------- *)
Lemma mirror_row_spec {V} t1 : forall (row : dict V) (T : tbl V),
  NoDup (dkeys row) -> wf_tbl T ->
  (forall k v, In (k, v) row -> dmem k T = true) ->
  exists T', mirror_row t1 row T = Ok T' /\ dkeys T' = dkeys T /\ wf_tbl T' /\
             forall x y, tget2 x y T' =
                         if Z.eqb y t1 then match dget x row with Some v => Some v | None => tget2 x y T end
                         else tget2 x y T.
Proof.
  unfold mirror_row. induction row as [|[k v] r IH]; intros T N W H.
  - simpl. exists T. repeat split; auto; try apply W. intros x y. destruct (Z.eqb y t1); reflexivity.
  - simpl. assert (M : dmem k T = true) by (apply (H k v); left; reflexivity). rewrite M.
    destruct (tset2_spec k t1 v T M) as [T1 [E1 [K1 [D1 G1]]]]. rewrite E1.
    simpl in N. inversion N as [|? ? Hn N']; subst.
    destruct (IH T1 N' (tset2_wf _ _ _ _ _ W E1)) as [T' [E' [K' [W' G']]]].
    { intros k2 v2 Hin. rewrite D1. apply (H k2 v2). right. exact Hin. }
    exists T'. split; [exact E'|]. split; [congruence|]. split; [exact W'|].
    intros x y. rewrite G'. rewrite !G1.
    destruct (Z.eqb y t1) eqn:Ey; [|rewrite andb_false_r; reflexivity].
    rewrite andb_true_r. destruct (Z.eqb x k) eqn:Ex.
    + apply Z.eqb_eq in Ex. subst x.
      assert (dget k r = None) as ->; [|reflexivity].
      destruct (dget k r) eqn:Ed; [|reflexivity]. exfalso. apply Hn.
      apply dget_In in Ed. change k with (fst (k, v0)). apply in_map. exact Ed.
    + reflexivity.
Qed.

Definition mirror_inv {V} (T : tbl V) (done : list Z) (Tc : tbl V) : Prop :=
  dkeys Tc = dkeys T /\ wf_tbl Tc /\
  forall x y, tget2 x y Tc = match tget2 x y T with
                             | Some v => Some v
                             | None => if memb y done then tget2 y x T else None
                             end.

Lemma memb_app x l1 l2 : memb x (l1 ++ l2) = memb x l1 || memb x l2.
Proof. unfold memb. apply existsb_app. Qed.

Lemma memb_In x l : memb x l = true <-> In x l.
Proof.
  unfold memb. rewrite existsb_exists. split.
  - intros [y [H E]]. apply Z.eqb_eq in E. subst. exact H.
  - intro H. exists x. split; [exact H | apply Z.eqb_refl].
Qed.

Lemma mirror_tbl_spec {V} (T : tbl V) :
  wf_tbl T ->
  (forall x y v, tget2 x y T = Some v -> dmem y T = true) ->
  (forall x y, x <> y -> tget2 x y T <> None -> tget2 y x T = None) ->
  exists T', mirror_tbl T = Ok T' /\ dkeys T' = dkeys T /\ wf_tbl T' /\
             forall x y, tget2 x y T' = match tget2 x y T with Some v => Some v | None => tget2 y x T end.
Proof.
  intros W H1 H2. unfold mirror_tbl.
  assert (G : forall ks done Tc, mirror_inv T done Tc -> (forall k, In k ks -> dmem k T = true) ->
              exists T', fold_left (fun r t1 => do T' <- r ;; match dget t1 T' with
                                                               | Some row => mirror_row t1 row T'
                                                               | None => Err KeyErr end) ks (Ok Tc) = Ok T'
                         /\ mirror_inv T (done ++ ks) T').
  { induction ks as [|k ks IH]; intros done Tc I Hk.
    - simpl. exists Tc. rewrite app_nil_r. auto.
    - simpl. destruct I as [K [Wc Gc]].
      assert (Mk : dmem k Tc = true).
      { apply dmem_In. rewrite K. apply dmem_In. apply Hk. left. reflexivity. }
      pose proof Mk as Mk'. apply dmem_dget in Mk'. destruct Mk' as [row Hrow]. rewrite Hrow.
      assert (Hget : forall x, dget x row = tget2 k x Tc) by (intro x; unfold tget2; rewrite Hrow; reflexivity).
      destruct (mirror_row_spec k row Tc) as [T1 [E1 [K1 [W1 G1]]]].
      { destruct Wc as [_ R]. eapply R. exact Hrow. }
      { exact Wc. }
      { intros k2 v2 Hin. apply dmem_In. rewrite K. apply dmem_In.
        apply In_dget in Hin; [|destruct Wc as [_ R]; eapply R; exact Hrow].
        rewrite Hget, Gc in Hin. destruct (tget2 k k2 T) eqn:E.
        - eapply H1. exact E.
        - destruct (memb k2 done); [|discriminate]. eapply tget2_some_row. exact Hin. }
      rewrite E1.
      destruct (IH (done ++ [k]) T1) as [T' [E' I']].
      { split; [congruence|]. split; [exact W1|].
        intros x y. rewrite G1. destruct (Z.eqb y k) eqn:Ey.
        - apply Z.eqb_eq in Ey. subst y. rewrite Hget. rewrite !Gc.
          rewrite memb_app. simpl. rewrite Z.eqb_refl, orb_true_r.
          destruct (Z.eq_dec x k) as [->|Nx].
          + destruct (tget2 k k T); [reflexivity|]. destruct (memb k done); reflexivity.
          + destruct (tget2 k x T) eqn:Ekx.
            * assert (tget2 x k T = None) as -> by (apply H2; [congruence|rewrite Ekx; discriminate]). reflexivity.
            * destruct (tget2 x k T) eqn:Exk.
              -- destruct (memb x done); reflexivity.
              -- destruct (memb x done); destruct (memb k done); reflexivity.
        - rewrite Gc. rewrite memb_app. simpl. rewrite Ey. rewrite !orb_false_r. reflexivity. }
      { intros k0 Hin. apply Hk. right. exact Hin. }
      exists T'. split; [exact E'|]. rewrite <- app_assoc in I'. exact I'. }
  destruct (G (dkeys T) [] T) as [T' [E [K [W' G']]]].
  - split; [reflexivity|]. split; [exact W|]. intros x y. simpl. destruct (tget2 x y T); reflexivity.
  - intros k Hin. apply dmem_In. exact Hin.
  - exists T'. split; [exact E|]. split; [exact K|]. split; [exact W'|].
    intros x y. rewrite G'. simpl. destruct (tget2 x y T); [reflexivity|].
    destruct (memb y (dkeys T)) eqn:M; [reflexivity|].
    symmetry. apply tget2_row_absent. apply dmem_false_In. intro Hin. apply memb_In in Hin. congruence.
Qed.

Lemma dget_app {V} k (l1 l2 : dict V) :
  dget k (l1 ++ l2) = match dget k l1 with Some v => Some v | None => dget k l2 end.
Proof. induction l1 as [|[k' v'] r IH]; simpl; [reflexivity|]. destruct (Z.eqb k k'); [reflexivity | exact IH]. Qed.

Lemma dkeys_app {V} (l1 l2 : dict V) : dkeys (l1 ++ l2) = dkeys l1 ++ dkeys l2.
Proof. unfold dkeys. apply map_app. Qed.

