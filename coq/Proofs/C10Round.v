(* C10: taxa -> bitmask -> taxa round trip; the fuel of bitmask_taxa_list suffices. *)
From Coq Require Import ZArith List Bool Lia Permutation Sorted.
From DV Require Import Model.PyPrims Model.C10Model Proofs.C10Lists Proofs.C10Inv Proofs.C10Bits.
Import ListNotations.
Open Scope Z_scope.

Definition acc_index (n : ns) (t : tid) : Z :=
  match alookup t (acc n) with Some i => i | None => -1 end.

(* ---------- generic list facts ---------- *)

Lemma Forall2_map_l {A B C} (P : B -> C -> Prop) (f : A -> B) (l : list A) (L : list C) :
  Forall2 (fun a c => P (f a) c) l L -> Forall2 P (map f l) L.
Proof. induction 1; simpl; constructor; assumption. Qed.

Lemma Forall2_impl {A B} (P Q : A -> B -> Prop) (l : list A) (L : list B) :
  (forall a b, P a b -> Q a b) -> Forall2 P l L -> Forall2 Q l L.
Proof. intros H. induction 1; constructor; auto. Qed.

Lemma Forall2_In_l {A B} (P : A -> B -> Prop) (l : list A) (L : list B) a :
  Forall2 P l L -> In a l -> exists b, In b L /\ P a b.
Proof.
  induction 1 as [|x y l' L' Hxy H IH]; simpl; [contradiction|].
  intros [E|E]; [subst; exists y; auto|]. destruct (IH E) as (b & Hb & Pb). exists b. auto.
Qed.

Lemma Forall2_In_r {A B} (P : A -> B -> Prop) (l : list A) (L : list B) b :
  Forall2 P l L -> In b L -> exists a, In a l /\ P a b.
Proof.
  induction 1 as [|x y l' L' Hxy H IH]; simpl; [contradiction|].
  intros [E|E]; [subst; exists x; auto|]. destruct (IH E) as (a & Ha & Pa). exists a. auto.
Qed.

Lemma Forall2_map_eq {A B} (f : B -> A) (l : list A) (L : list B) :
  Forall2 (fun a b => f b = a) l L -> map f L = l.
Proof. induction 1; simpl; congruence. Qed.

Lemma StronglySorted_map_succ (l : list Z) :
  StronglySorted Z.lt l -> StronglySorted Z.lt (map Z.succ l).
Proof.
  induction 1 as [|x l H IH F]; simpl; constructor; [assumption|].
  rewrite Forall_forall in *. intros y Hy. apply in_map_iff in Hy. destruct Hy as (z & E & Hz).
  subst. apply F in Hz. lia.
Qed.

Lemma StronglySorted_lt_NoDup (l : list Z) : StronglySorted Z.lt l -> NoDup l.
Proof.
  induction 1 as [|x l H IH F]; constructor; [|assumption].
  intros Hx. rewrite Forall_forall in F. apply F in Hx. lia.
Qed.

Lemma StronglySorted_map_inv {A} (f : A -> Z) (l : list A) :
  StronglySorted Z.lt (map f l) -> StronglySorted (fun a b => f a < f b) l.
Proof.
  induction l as [|x l IH]; simpl; intros H; [constructor|].
  inversion H as [|? ? H1 H2]; subst. constructor; [apply IH; exact H1|].
  rewrite Forall_forall in *. intros y Hy. apply H2. apply in_map. exact Hy.
Qed.

(* ---------- taxa_bitmask ---------- *)

Definition has_idx (ac : list (tid * Z)) (k : Z) (S : list tid) : bool :=
  existsb (fun t => match alookup t ac with Some i => Z.eqb i k | None => false end) S.

Lemma has_idx_true ac k S :
  has_idx ac k S = true <-> exists t, In t S /\ alookup t ac = Some k.
Proof.
  unfold has_idx. rewrite existsb_exists. split.
  - intros (t & Ht & E). exists t. split; [exact Ht|]. destruct (alookup t ac); [|discriminate].
    apply Z.eqb_eq in E. congruence.
  - intros (t & Ht & E). exists t. split; [exact Ht|]. rewrite E. apply Z.eqb_refl.
Qed.

Lemma taxa_bitmask_spec n S b : Inv n -> incl S (taxa n) -> 0 <= b ->
  exists n' b', taxa_bitmask n S b = Ok (n', b') /\ same_core n n' /\ Inv n' /\ 0 <= b'
    /\ forall k, 0 <= k -> Z.testbit b' k = Z.testbit b k || has_idx (acc n) k S.
Proof.
  revert n b. induction S as [|t r IH]; intros n b I Hi Hb.
  - exists n, b. simpl. split; [reflexivity|]. split; [apply same_core_refl|]. split; [exact I|].
    split; [exact Hb|]. intros k _. rewrite orb_false_r. reflexivity.
  - assert (Mt : In t (taxa n)) by (apply Hi; left; reflexivity).
    destruct (taxon_bitmask_member n t I Mt) as (n1 & i & T & A).
    destruct (taxon_bitmask_spec _ _ _ _ I T) as (I1 & C1 & _).
    pose proof (inv_range _ I _ _ A) as Ri.
    assert (Ea : acc n1 = acc n) by apply C1.
    destruct (IH n1 (Z.lor b (Z.shiftl 1 i)) I1) as (n' & b' & E & C & I' & Hb' & Hk).
    { destruct C1 as (Et & _). rewrite Et. intros x Hx. apply Hi. right. exact Hx. }
    { apply Z.lor_nonneg. split; [exact Hb|]. pose proof (shiftl1_pos i). lia. }
    exists n', b'. cbn [taxa_bitmask]. rewrite T. split; [exact E|].
    split; [eapply same_core_trans; eauto|]. split; [exact I'|]. split; [exact Hb'|].
    intros k Hk0. rewrite (Hk k Hk0), Z.lor_spec, shiftl1_testbit by lia. rewrite Ea.
    unfold has_idx at 2. cbn [existsb]. rewrite A. rewrite orb_assoc. reflexivity.
Qed.

(* ---------- bitmask_taxa_list ---------- *)

Lemma shiftr1_bound m f : 0 <= m < 2 ^ (Z.of_nat (S f)) -> 0 <= Z.shiftr m 1 < 2 ^ (Z.of_nat f).
Proof.
  intros H. rewrite Z.shiftr_div_pow2 by lia. change (2 ^ 1) with 2.
  rewrite Nat2Z.inj_succ, Z.pow_succ_r in H by lia.
  split; [apply Z.div_pos; lia| apply Z.div_lt_upper_bound; lia].
Qed.

Lemma btl_unfold n f m idx got :
  bitmask_taxa_list n (S f) m idx got =
  if Z.eqb m 0 then Ok got
  else if Z.testbit m 0 then
    match alookup idx (rev n) with
    | None => Err KeyErr
    | Some t => bitmask_taxa_list n f (Z.shiftr m 1) (idx + 1) (got ++ [t])
    end
  else bitmask_taxa_list n f (Z.shiftr m 1) (idx + 1) got.
Proof. reflexivity. Qed.

Lemma btl_fuel n f : forall m idx got, 0 <= m < 2 ^ (Z.of_nat f) ->
  bitmask_taxa_list n (S f) m idx got <> OutOfFuel.
Proof.
  induction f as [|f IH]; intros m idx got H.
  - assert (m = 0) by (change (2 ^ Z.of_nat 0) with 1 in H; lia). subst. simpl. discriminate.
  - rewrite btl_unfold. destruct (Z.eqb m 0); [discriminate|].
    pose proof (shiftr1_bound m f H) as H'.
    destruct (Z.testbit m 0).
    + destruct (alookup idx (rev n)); [apply IH; exact H'| discriminate].
    + apply IH; exact H'.
Qed.

Lemma bits_fuel_bound m : 0 <= m -> 0 <= m < 2 ^ (Z.of_nat (S (Z.to_nat (Z.log2 m)))).
Proof.
  intros H. split; [exact H|]. rewrite Nat2Z.inj_succ, Z2Nat.id by apply Z.log2_nonneg.
  destruct (Z.eq_dec m 0) as [E|E]; [subst; reflexivity|]. apply Z.log2_spec. lia.
Qed.

Theorem bitmask_taxa_list_fuel_l n m idx got : 0 <= m ->
  bitmask_taxa_list n (bits_fuel m) m idx got <> OutOfFuel.
Proof. intros H. unfold bits_fuel. apply btl_fuel. apply bits_fuel_bound. exact H. Qed.

Lemma btl_spec n f : forall m idx got, 0 <= m < 2 ^ (Z.of_nat f) ->
  (forall k, 0 <= k -> Z.testbit m k = true -> exists t, alookup (idx + k) (rev n) = Some t) ->
  exists ks L, bitmask_taxa_list n (S f) m idx got = Ok (got ++ L)
    /\ StronglySorted Z.lt ks
    /\ (forall k, In k ks <-> 0 <= k /\ Z.testbit m k = true)
    /\ Forall2 (fun k t => alookup (idx + k) (rev n) = Some t) ks L.
Proof.
  induction f as [|f IH]; intros m idx got H Hlive.
  - assert (m = 0) by (change (2 ^ Z.of_nat 0) with 1 in H; lia). subst.
    exists [], []. simpl. rewrite app_nil_r. split; [reflexivity|]. split; [constructor|].
    split; [|constructor]. intros k. rewrite Z.bits_0. split; [contradiction| intros [_ E]; discriminate].
  - rewrite btl_unfold. destruct (Z.eqb_spec m 0) as [E0|E0].
    + subst. exists [], []. rewrite app_nil_r. split; [reflexivity|]. split; [constructor|].
      split; [|constructor]. intros k. rewrite Z.bits_0. split; [contradiction| intros [_ E]; discriminate].
    + pose proof (shiftr1_bound m f H) as H'.
      assert (Hbit : forall k, 0 <= k -> Z.testbit (Z.shiftr m 1) k = Z.testbit m (Z.succ k)).
      { intros k Hk. rewrite Z.shiftr_spec by exact Hk. f_equal; lia. }
      assert (Hlive' : forall k, 0 <= k -> Z.testbit (Z.shiftr m 1) k = true ->
                                 exists t, alookup (idx + 1 + k) (rev n) = Some t).
      { intros k Hk B. rewrite Hbit in B by exact Hk. destruct (Hlive (Z.succ k)) as [t Ht]; [lia| exact B|].
        exists t. rewrite <- Ht. f_equal; lia. }
      assert (Hin : forall ks' (b0 : bool), Z.testbit m 0 = b0 ->
                 (forall k, In k ks' <-> 0 <= k /\ Z.testbit (Z.shiftr m 1) k = true) ->
                 forall k, In k ((if b0 then [0] else []) ++ map Z.succ ks') <-> 0 <= k /\ Z.testbit m k = true).
      { intros ks' b0 B0 Hks k. rewrite in_app_iff, in_map_iff. split.
        - intros [Hk|(k' & Ek & Hk')].
          + destruct b0; [|contradiction]. destruct Hk as [Hk|[]]. subst. split; [lia| exact B0].
          + subst k. apply Hks in Hk'. destruct Hk' as [Hk1 Hk2]. split; [lia|].
            rewrite <- Hbit by exact Hk1. exact Hk2.
        - intros [Hk B]. destruct (Z.eq_dec k 0) as [Ek|Ek].
          + subst k. left. rewrite B in B0. subst b0. left. reflexivity.
          + right. exists (Z.pred k). split; [lia|]. apply Hks. split; [lia|].
            rewrite Hbit by lia. rewrite Z.succ_pred. exact B. }
      assert (Hsort : forall ks' (b0 : bool), StronglySorted Z.lt ks' -> (forall k, In k ks' -> 0 <= k) ->
                 StronglySorted Z.lt ((if b0 then [0] else []) ++ map Z.succ ks')).
      { intros ks' b0 Hs Hpos. destruct b0; simpl; [|apply StronglySorted_map_succ; exact Hs].
        constructor; [apply StronglySorted_map_succ; exact Hs|]. rewrite Forall_forall.
        intros y Hy. apply in_map_iff in Hy. destruct Hy as (z & Ez & Hz). apply Hpos in Hz. lia. }
      assert (Hf2 : forall ks' L', Forall2 (fun k t => alookup (idx + 1 + k) (rev n) = Some t) ks' L' ->
                 Forall2 (fun k t => alookup (idx + k) (rev n) = Some t) (map Z.succ ks') L').
      { intros ks' L' F. apply Forall2_map_l. eapply Forall2_impl; [|exact F]. cbv beta.
        intros a b0 Hab. rewrite <- Hab. f_equal; lia. }
      destruct (Z.testbit m 0) eqn:B0.
      * destruct (Hlive 0) as [t0 Ht0]; [lia| exact B0|]. rewrite Z.add_0_r in Ht0. rewrite Ht0.
        destruct (IH (Z.shiftr m 1) (idx + 1) (got ++ [t0]) H' Hlive') as (ks' & L' & E & Hs & Hks & F).
        exists ((if true then [0] else []) ++ map Z.succ ks'), (t0 :: L').
        split; [rewrite E, <- app_assoc; reflexivity|].
        split; [apply (Hsort ks' true); [exact Hs| intros k Hk; apply Hks in Hk; tauto]|].
        split; [apply (Hin ks' true); [reflexivity| exact Hks]|].
        simpl. constructor; [rewrite Z.add_0_r; exact Ht0| apply Hf2; exact F].
      * destruct (IH (Z.shiftr m 1) (idx + 1) got H' Hlive') as (ks' & L' & E & Hs & Hks & F).
        exists ((if false then [0] else []) ++ map Z.succ ks'), L'.
        split; [exact E|].
        split; [apply (Hsort ks' false); [exact Hs| intros k Hk; apply Hks in Hk; tauto]|].
        split; [apply (Hin ks' false); [reflexivity| exact Hks]|].
        simpl. apply Hf2; exact F.
Qed.

(* every set bit of m is the index of a live member => the taxa named by m, ordered by bit *)
Theorem bitmask_taxa_list_members_l n m : Inv n -> 0 <= m ->
  (forall k, 0 <= k -> Z.testbit m k = true -> exists t, alookup k (rev n) = Some t) ->
  exists L, bitmask_taxa_list n (bits_fuel m) m 0 [] = Ok L
    /\ (forall t, In t L <-> exists k, alookup t (acc n) = Some k /\ Z.testbit m k = true)
    /\ StronglySorted (fun a c => acc_index n a < acc_index n c) L
    /\ NoDup L.
Proof.
  intros I Hm Hlive. unfold bits_fuel.
  destruct (btl_spec n (S (Z.to_nat (Z.log2 m))) m 0 [] (bits_fuel_bound m Hm) Hlive)
    as (ks & L & E & Hs & Hks & F).
  exists L. split; [exact E|].
  assert (F' : Forall2 (fun k t => acc_index n t = k) ks L).
  { eapply Forall2_impl; [|exact F]. cbv beta. intros k t H. change (0 + k) with k in H.
    apply (inv_rev _ I) in H. unfold acc_index. rewrite H. reflexivity. }
  assert (Emap : map (acc_index n) L = ks) by (apply Forall2_map_eq; exact F').
  split; [|split].
  - intros t. split.
    + intros Ht. destruct (Forall2_In_r _ _ _ _ F Ht) as (k & Hk & Hr). change (0 + k) with k in Hr.
      exists k. split; [apply (inv_rev _ I); exact Hr| apply Hks; exact Hk].
    + intros (k & A & B). pose proof (inv_range _ I _ _ A) as R.
      assert (Hk : In k ks) by (apply Hks; split; [lia| exact B]).
      destruct (Forall2_In_l _ _ _ _ F Hk) as (t' & Ht' & Hr). change (0 + k) with k in Hr.
      apply (inv_rev _ I) in A. assert (t' = t) by congruence. subst. exact Ht'.
  - apply StronglySorted_map_inv. rewrite Emap. exact Hs.
  - apply (NoDup_map_inv (acc_index n)). rewrite Emap. apply StronglySorted_lt_NoDup. exact Hs.
Qed.

(* ---------- 4. round trip ---------- *)

Theorem taxa_bitmask_roundtrip_l n S : Inv n -> NoDup S -> incl S (taxa n) ->
  exists n' b L,
    taxa_bitmask n S 0 = Ok (n', b) /\ same_core n n' /\ Inv n' /\ 0 <= b
    /\ (forall k, 0 <= k -> (Z.testbit b k = true <-> exists t, In t S /\ alookup t (acc n) = Some k))
    /\ bitmask_taxa_list n' (bits_fuel b) b 0 [] = Ok L
    /\ Permutation L S
    /\ StronglySorted (fun a c => acc_index n a < acc_index n c) L.
Proof.
  intros I Hd Hi.
  destruct (taxa_bitmask_spec n S 0 I Hi (Z.le_refl 0)) as (n' & b & E & C & I' & Hb & Hk).
  assert (Ea : acc n' = acc n) by apply C.
  assert (Hbits : forall k, 0 <= k -> (Z.testbit b k = true <-> exists t, In t S /\ alookup t (acc n) = Some k)).
  { intros k Hk0. rewrite (Hk k Hk0), Z.bits_0. cbn [orb]. apply has_idx_true. }
  destruct (bitmask_taxa_list_members_l n' b I' Hb) as (L & EL & HL & Hs & HdL).
  { intros k Hk0 B. apply Hbits in B; [|exact Hk0]. destruct B as (t & _ & A). exists t.
    apply (inv_rev _ I'). rewrite Ea. exact A. }
  exists n', b, L. repeat (split; [assumption|]). split.
  - apply NoDup_Permutation; [exact HdL| exact Hd|]. intros t. rewrite HL, Ea. split.
    + intros (k & A & B). pose proof (inv_range _ I _ _ A) as R. apply Hbits in B; [|lia].
      destruct B as (t' & Ht' & A'). assert (t' = t) by (apply (inv_inj _ I t' t k A' A)). subst. exact Ht'.
    + intros Ht. destruct (Inv_member_index n t I (Hi t Ht)) as (k & A & R & _).
      exists k. split; [exact A|]. apply Hbits; [lia|]. eauto.
  - unfold acc_index in *. rewrite Ea in Hs. exact Hs.
Qed.

Section WithLower.
Variable lower : lbl -> lbl.

(* the same, as two consecutive operations on the namespace *)
Theorem taxa_bitmask_roundtrip_steps_l (w : world) (S : list tid) :
  Inv (w_ns w) -> NoDup S -> incl S (taxa (w_ns w)) ->
  exists w1 b L,
    step lower w (TaxaBitmask S) = (w1, OInt b)
    /\ step lower w1 (BitmaskTaxa b) = (w1, OTaxa L)
    /\ Permutation L S
    /\ StronglySorted (fun a c => acc_index (w_ns w) a < acc_index (w_ns w) c) L
    /\ same_core (w_ns w) (w_ns w1) /\ w_lab w1 = w_lab w /\ w_next w1 = w_next w.
Proof.
  intros I Hd Hi.
  destruct (taxa_bitmask_roundtrip_l (w_ns w) S I Hd Hi) as (n' & b & L & E & C & I' & Hb & _ & EL & P & Hs).
  exists (set_ns w n'), b, L. cbn [step]. rewrite E. split; [reflexivity|].
  cbn [w_ns set_ns]. rewrite EL. repeat split; try assumption; apply C.
Qed.

End WithLower.
