(* C14, wave 10: the hypotheses of the non-strict NJ theorems are satisfiable by a matrix that is NOT
   strictly resolved: the polytomous tree ((A:1,B:2,C:3):2,D:1,E:2) of Proofs/C14NjPoly.v *)
From Coq Require Import ZArith QArith List Bool Lia Lqa.
From DV Require Import Model.PyPrims Model.Tree Model.C14Model Model.C14Spec Model.C14Spec2 Model.C14Spec3
     Proofs.C14Dict Proofs.C14Pdm Proofs.C14Clu Proofs.C14Proofs Proofs.C14Nj Proofs.C14Tq
     Proofs.C14Split Proofs.C14SplitTree Proofs.C14NjUniq Proofs.C14NjPoly Proofs.C14W10Q Proofs.C14W10R.
Import ListNotations.
Open Scope Z_scope.

Lemma ex_poly_nonstrict_hyps :
  exists p, compile_from_tree ex_poly = Ok p /\
    good_leaves ex_poly /\ t_kids ex_poly <> [] /\ nonneg_lengths ex_poly /\
    NoDup [0; 1; 2; 3; 4] /\ [0; 1; 2; 3; 4] <> [] /\
    (forall a, In a [0; 1; 2; 3; 4] <-> In (Some a) (leaf_taxa ex_poly)) /\
    mcomplete (qtable p true) [0; 1; 2; 3; 4] /\ msymmetric (qtable p true) [0; 1; 2; 3; 4] /\
    mfour_point_ns (qtable p true) [0; 1; 2; 3; 4] /\ mtriangle (qtable p true) [0; 1; 2; 3; 4] /\
    mnonneg (qtable p true) [0; 1; 2; 3; 4] /\
    ~ mfour_point_strict (qtable p true) [0; 1; 2; 3; 4].
Proof.
  destruct ex_poly_ok as [G [Nn _]].
  pose proof ex_poly_runs as R.
  destruct (compile_from_tree ex_poly) as [p| |] eqn:E; [|discriminate R|discriminate R].
  exists p. split; [reflexivity|]. split; [exact G|].
  assert (Hk : t_kids ex_poly <> []) by (simpl; discriminate).
  split; [exact Hk|]. split; [exact Nn|].
  assert (ND : NoDup [0; 1; 2; 3; 4]) by (repeat (constructor; [simpl; intuition discriminate|]); constructor).
  split; [exact ND|]. split; [discriminate|].
  assert (Hio : forall a, In a [0; 1; 2; 3; 4] <-> In (Some a) (leaf_taxa ex_poly)).
  { intro a. simpl. split.
    - intuition (subst; auto 10).
    - intros H. repeat (destruct H as [H|H]; [inversion H; auto 10|]). destruct H. }
  split; [exact Hio|].
  assert (Hin : forall a, In a [0; 1; 2; 3; 4] -> In (Some a) (leaf_taxa ex_poly)) by (intros a Ha; apply Hio; exact Ha).
  destruct (tree_matrix_facts ex_poly p [0; 1; 2; 3; 4] G Hk Nn E Hin) as [C [S [Pos [Tri HD]]]].
  split; [exact C|]. split; [exact S|].
  split; [exact (tree_matrix_four_point_ns ex_poly p [0; 1; 2; 3; 4] G Hk Nn E Hin)|].
  split; [exact Tri|]. split; [exact Pos|].
  intro FS.
  assert (I0 : In 0 [0; 1; 2; 3; 4]) by (simpl; auto). assert (I1 : In 1 [0; 1; 2; 3; 4]) by (simpl; auto).
  assert (I2 : In 2 [0; 1; 2; 3; 4]) by (simpl; auto). assert (I3 : In 3 [0; 1; 2; 3; 4]) by (simpl; auto).
  pose proof (FS 0 1 2 3 I0 I1 I2 I3 ltac:(lia) ltac:(lia) ltac:(lia) ltac:(lia) ltac:(lia) ltac:(lia)) as F.
  destruct (HD 0 1 I0 I1 ltac:(lia)) as [q01 [E01 V01]]. destruct (HD 2 3 I2 I3 ltac:(lia)) as [q23 [E23 V23]].
  destruct (HD 0 2 I0 I2 ltac:(lia)) as [q02 [E02 V02]]. destruct (HD 1 3 I1 I3 ltac:(lia)) as [q13 [E13 V13]].
  destruct (HD 0 3 I0 I3 ltac:(lia)) as [q03 [E03 V03]]. destruct (HD 1 2 I1 I2 ltac:(lia)) as [q12 [E12 V12]].
  vm_compute in E01, E23, E02, E13, E03, E12.
  inversion E01; subst q01. inversion E23; subst q23. inversion E02; subst q02.
  inversion E13; subst q13. inversion E03; subst q03. inversion E12; subst q12.
  unfold fp3 in F. destruct F as [[A B]|[[A B]|[A B]]]; lra.
Qed.
