(* C08Gen: Node.extract_subtree as generated (Gen/Extract.v, on the heap instance HX) computes what
   C08Model.extract_subtree computes: the visit of self and the theorem. *)
From Coq Require Import ZArith List Bool Lia.
From DV Require Import Model.PyPrims Model.Tree Model.Heap Model.HeapOps Model.C15Prims Model.MutPrims Gen.Mutators
     Model.C03GenInst Model.C08GenPrims Gen.Extract Model.C08GenInst Proofs.C03Base Proofs.C03Abs
     Proofs.C08GenBase Proofs.C08GenSteps Proofs.C08GenSim.
From DV Require Model.C08Model.
Import ListNotations.
Open Scope Z_scope.

(* what C08Model.extract_subtree returns from the final state of its fold *)
Definition model_result (M : C08Model.xs) : C08Model.xres :=
  match C08Model.x_err M with
  | Some e => C08Model.XErr e
  | None => match C08Model.x_start M with Some r => C08Model.XOk r | None => C08Model.XErr C08Model.EValue end
  end.

(* the generated method against the model: the returned node is the root of an image of the model's
   result built from new nodes only, the source is untouched; SeedNodeDeletionException and ValueError
   are raised in the same cases (core.exc_enum maps SeedNodeDeletionException to OtherErr) *)
Definition xrel (on : bool) (h0 : heap) (r : mres xstate Z) (m : C08Model.xres) : Prop :=
  match m with
  | C08Model.XOk v =>
    exists n s', r = MOk n s' /\ img on (next h0) s' n v /\ parent (xh s') n = None /\ n < next (xh s') /\ src_ok h0 s'
  | C08Model.XErr C08Model.ESeedDel => exists s', r = MErr OtherErr s' /\ src_ok h0 s'
  | C08Model.XErr C08Model.EValue => exists s', r = MErr ValueErr s' /\ src_ok h0 s'
  | C08Model.XErr _ => False
  end.

Lemma mfor_single {S X V} (body : X -> V -> S -> mres S (lctl V)) x v s :
  mfor body [x] v s =
  match body x v s with
  | MOk (LNext v') s' => MOk (LNext v') s'
  | MOk (LBreak v') s' => MOk (LBreak v') s'
  | MErr e s' => MErr e s'
  | MFuel => MFuel
  end.
Proof. reflexivity. Qed.

Section Root.
Variable h0 : heap.
Variable t : tree.
Variable P : xpar.
Variable flt : C08Model.xfilter.
Variable par : option Z.
Hypothesis Hflt : filter_ok h0 t P flt.

Lemma root_step i x l e ks s iex memo mm :
  i = p_self P -> i < next h0 -> In i (ids t) ->
  get h0 i = mkCell par (map t_id ks) e x l ->
  src_ok h0 s ->
  cta_rel (p_on P) s (next h0) (next (xh s)) (cta_of memo (map t_id ks))
          (C08Model.omap_list (fun ch => C08Model.lookup (t_id ch) mm) ks) ->
  xrel (p_on P) h0
       (xloop_end (mfor (xbody P) [i] (iex, Some (p_self P), lastn (next h0) s, None, memo) s))
       (model_result (C08Model.x_step flt (p_sup P) (p_self P) (py_is_some par) (mstate mm (p_self P)) (T i x l e ks))).
Proof.
  intros Hself Hib Hin Hc0 Hsrc Hrel.
  assert (Hcell : get (xh s) i = mkCell par (map t_id ks) e x l) by (rewrite (Hsrc i Hib); exact Hc0).
  assert (Hkids : kids (xh s) i = map t_id ks) by (unfold kids; rewrite Hcell; reflexivity).
  assert (Hpar : parent (xh s) i = par) by (unfold parent; rewrite Hcell; reflexivity).
  destruct (cta_rel_bounds _ _ _ _ _ _ Hrel) as [Hab Hbd].
  pose proof (x_excl_ok h0 t P flt s (T i x l e ks) Hflt Hin (Hsrc i Hib) Hkids) as Hx. cbn [t_id] in Hx.
  assert (Hes : (i =? p_self P) = true) by (apply Z.eqb_eq; exact Hself).
  assert (Hes' : (p_self P =? i) = true) by (apply Z.eqb_eq; symmetry; exact Hself).
  rewrite mfor_single. unfold xbody. rewrite Hx.
  unfold C08Model.x_step. cbn [mstate C08Model.x_brk C08Model.x_err orb].
  destruct (C08Model.x_excluded flt (T i x l e ks)).
  { cbn [xloop_end lctl_val model_result mstate C08Model.x_err C08Model.x_start xrel]. exists s. split; [reflexivity|exact Hsrc]. }
  cbv zeta. rewrite Hkids.
  cbn [mstate C08Model.x_memo C08Model.x_start C08Model.x_match C08Model.x_brk C08Model.x_err t_kids t_id t_len].
  rewrite Hes. cbn [andb].
  set (cta := cta_of memo (map t_id ks)) in *.
  set (vs := C08Model.omap_list (fun ch => C08Model.lookup (t_id ch) mm) ks) in *.
  assert (Hcreate :
    xrel (p_on P) h0
      (xloop_end match create P i cta (iex, Some (p_self P), lastn (next h0) s, None, memo) s with
                 | MOk (LNext v') s' => MOk (LNext v') s'
                 | MOk (LBreak v') s' => MOk (LBreak v') s'
                 | MErr e0 s' => MErr e0 s'
                 | MFuel => MFuel
                 end)
      (model_result (C08Model.x_create (p_self P) (mstate mm (p_self P)) (T i x l e ks) vs))).
  { destruct (create_ok P i par (map t_id ks) e x l cta vs (next h0) iex (Some (p_self P)) (lastn (next h0) s) None memo s Hcell Hib Hrel)
      as [s' [Hrun [Hnx [Himg [Hp' Hfr]]]]].
    rewrite Hrun, Hes. cbn [xloop_end lctl_val].
    unfold C08Model.x_create, model_result, mstate.
    cbn [C08Model.x_memo C08Model.x_match C08Model.x_start C08Model.x_brk C08Model.x_err t_id t_taxon t_label t_len].
    rewrite Hes'. cbn [xrel].
    exists (next (xh s)), s'. split; [reflexivity|]. split; [exact Himg|]. split; [exact Hp'|]. split; [lia|].
    intros j Hj. destruct (Hfr j Hj) as [-> _]. apply Hsrc. exact Hj. }
  destruct cta as [|c [|c2 r]]; destruct vs as [|v [|v2 rv]]; try (simpl in Hrel; tauto); try exact Hcreate.
  - (* no child was retained *)
    unfold is_leaf. cbn [t_kids]. destruct ks as [|k0 kr].
    + cbn [map py_is_empty negb]. exact Hcreate.
    + cbn [map py_is_empty negb]. rewrite Hpar. destruct par as [p|]; cbn [py_is_some negb].
      * cbn [xloop_end lctl_val model_result C08Model.x_err C08Model.x_start xrel]. exists s. split; [reflexivity|exact Hsrc].
      * cbn [xloop_end model_result C08Model.x_err xrel]. exists s. split; [reflexivity|exact Hsrc].
  - (* exactly one *)
    destruct (p_sup P); [|exact Hcreate].
    assert (Hc : next h0 <= c < next (xh s)) by (apply Hbd; left; reflexivity).
    assert (Hnd1 : lastn (next h0) s = Some (next (xh s) - 1)).
    { unfold lastn. destruct (Z.eqb_spec (next (xh s)) (next h0)); [lia|reflexivity]. }
    destruct (merge_ok P i par (map t_id ks) e x l c v (next h0) iex (Some (p_self P)) (lastn (next h0) s) None memo s Hcell Hib Hrel Hnd1)
      as [s' [Hrun [Hnx [Himg [Hp' [Hfr Hxs]]]]]].
    assert (Hsrc' : src_ok h0 s') by (intros j Hj; rewrite (Hfr j Hj); apply Hsrc; exact Hj).
    rewrite Hrun. unfold merge_tail. unfold parent. rewrite (Hfr i Hib), Hcell. cbn [c_parent].
    destruct par as [p|]; cbn [py_is_some negb].
    + rewrite Hes. cbn [xloop_end lctl_val model_result C08Model.x_err C08Model.x_start xrel].
      exists s'. split; [reflexivity|exact Hsrc'].
    + cbn [xloop_end lctl_val model_result C08Model.x_err C08Model.x_start xrel t_len].
      exists c, s'. split; [reflexivity|]. split; [exact Himg|]. split; [exact Hp'|]. split; [lia|exact Hsrc'].
Qed.

End Root.

Theorem gen_extract_subtree h0 par t P flt xs0 xe0 :
  rep h0 par t -> NoDup (ids t) -> (forall i, In i (ids t) -> i < next h0) ->
  filter_ok h0 t P flt -> p_self P = t_id t ->
  xrel (p_on P) h0
    (Node_extract_subtree HX (p_self P) (p_on P) (p_fn P) (p_sup P) (p_lf P) (p_intl P) (mkX h0 xs0 xe0))
    (C08Model.extract_subtree flt (p_sup P) (py_is_some par) t).
Proof.
  intros R ND Hlt Hflt Hself.
  rewrite gen_body_eq. cbn [xh]. rewrite Hself, (abs_at_rep h0 par t R ND).
  destruct t as [i x l e ks]. cbn [t_id] in *.
  apply rep_eq in R. destruct R as [_ [Hcell Hreps]].
  rewrite ids_eq in ND, Hlt. apply NoDup_cons_iff in ND. destruct ND as [Hni NDk].
  set (s0 := mkX h0 xs0 xe0).
  assert (Hl0 : lastn (next h0) s0 = None) by (unfold lastn, s0; cbn [xh]; rewrite Z.eqb_refl; reflexivity).
  assert (Hsrc0 : src_ok h0 s0) by (intros j _; reflexivity).
  assert (Hsubs : Forall (sub_ok h0 (T i x l e ks) P flt (py_is_some par)) ks)
    by (apply Forall_forall; intros u _; apply sub_ok_all; exact Hflt).
  destruct (forest_of_subs h0 (T i x l e ks) P flt (py_is_some par) ks Hsubs i s0 false [] [] Hreps)
    as [s1 [iex1 [memo1 [mm1 [Hrun1 [Hfold1 [Hn1 [Hfr1 [_ Hrel1]]]]]]]]]; auto.
  { intros j Hj. split; [intros ->; rewrite Hself in Hj; exact (Hni Hj)|].
    split; [apply Hlt; right; exact Hj|rewrite ids_eq; right; exact Hj]. }
  { cbn [xh s0]. lia. }
  assert (Hsrc1 : src_ok h0 s1).
  { intros j Hj. destruct (Hfr1 j Hj) as [-> _]. reflexivity. }
  rewrite post_ids_node, mfor_app.
  replace (false, Some i, @None Z, @None Z, @nil (Z * Z)) with (false, Some (p_self P), lastn (next h0) s0, @None Z, @nil (Z * Z))
    by (rewrite Hl0, Hself; reflexivity).
  rewrite Hrun1.
  unfold C08Model.extract_subtree. cbv zeta.
  change (postorder (T i x l e ks)) with (flat_map postorder ks ++ [T i x l e ks]).
  rewrite fold_left_app. cbn [t_id].
  change (C08Model.mkxs [] None (Some i) false None) with (mstate [] i).
  rewrite <- Hself. rewrite Hfold1. cbn [fold_left].
  apply (root_step h0 (T i x l e ks) P flt par Hflt (p_self P) x l e ks s1 iex1 memo1 mm1); auto.
  - rewrite Hself. apply Hlt. left. reflexivity.
  - rewrite ids_eq, Hself. left. reflexivity.
  - rewrite Hself. exact Hcell.
Qed.
