(* C14 translator tie: the generated compile_from_tree (Gen/Pdm.v) equals the hand model's
   compile_from_tree, up to the ghost log of the hand model (which the source does not have). *)
From Coq Require Import ZArith List Bool Lia.
From DV Require Import Model.PyPrims Model.Tree Model.C14Model Model.C14Spec Model.C14GenPrims Gen.Pdm
  Proofs.C14Dict Proofs.C14Pdm Proofs.C14Mrca Proofs.C14GenBase Proofs.C14GenMirror.
Import ListNotations.
Open Scope Z_scope.

(* the object state of the generated code carries the log it started with *)
Definition with_log (L : list (Z * Z)) (s : pdm) : pdm :=
  mkPdm (p_tree_length s) (p_num_edges s) (p_dist s) (p_steps s) (p_mrca s) (p_mapped s) (p_pairs s) L.

(* an entry of node.desc_paths in the generated code / in the hand model *)
Definition ent := (node * (Z * Z * unit))%type.
Definition pent_of (d : ent) : pent :=
  mkPent (node_id (fst d)) (node_taxon (fst d)) (fst (fst (snd d))) (snd (fst (snd d))).

Lemma nid_pent_of (d : list ent) : map nid d = map pe_id (map pent_of d).
Proof. rewrite map_map. reflexivity. Qed.

Section Comp.
Variables (G : node) (none_key : Z) (L : list (Z * Z)).
Notation wl := (with_log L).

Ltac red_pdm :=
  cbn [p_tree_length p_num_edges p_dist p_steps p_mrca p_mapped p_pairs p_log
       set_tree_length set_num_edges set_dist set_steps set_mrca set_mapped set_pairs with_log].

(* ---------- innermost body: one pair (desc1, desc2) ---------- *)
Lemma for1_eq h nd c1 desc1 a c2 (x : ent) dpn v1 i e1 s b :
  heap_get nd h = Ok dpn -> nd_get desc1 dpn = Some v1 ->
  node_taxon (fst x) = Some b ->
  node_ref_opt none_key (py_parent_node G c1) = i ->
  pe_len e1 = fst (fst v1) -> pe_steps e1 = snd (fst v1) ->
  PDM_compile_from_tree_for1 G none_key h nd c1 desc1 a c2 x (wl s)
  = rmap wl (apply_op (OPair i a e1 (pent_of x) (len0 c2)) s).
Proof.
  destruct x as [desc2 [[l2 s2] u2]]. cbn [fst snd]. intros Hh Hd Hb Hi Hl Hs.
  unfold PDM_compile_from_tree_for1. rewrite Hh. cbn [bind]. unfold nd_getitem. rewrite Hd. cbn [bind].
  rewrite Hb, Hi. cbn [tax_key].
  cbn [apply_op pent_of pe_tax pe_len pe_steps fst snd]. rewrite Hb, Hl, Hs. red_pdm.
  destruct (tset2 a b i (p_mrca s)) as [m|e|]; cbn [bind rmap]; try reflexivity. red_pdm.
  change (match node_edge_length c2 with Some v => v | None => 0 end) with (len0 c2).
  destruct (tset2 a b (fst (fst v1) + l2 + len0 c2) (p_dist s)) as [d|e|]; cbn [bind rmap]; try reflexivity. red_pdm.
  destruct (tset2 a b (snd (fst v1) + s2 + 1) (p_steps s)) as [st|e|]; cbn [bind rmap]; reflexivity.
Qed.

(* ---------- loops that only update the object ---------- *)
Lemma run_ops_one o s : run_ops [o] s = apply_op o s.
Proof. rewrite run_ops_cons. destruct (apply_op o s); reflexivity. Qed.

Lemma py_for_run {A} (l : list A) (body : A -> pdm -> res pdm) (F : A -> list op) :
  (forall x s, In x l -> body x (wl s) = rmap wl (run_ops (F x) s)) ->
  forall s, py_for l body (wl s) = rmap wl (run_ops (flat_map F l) s).
Proof.
  induction l as [|x l IH]; intros H s; [reflexivity|].
  rewrite py_for_cons. cbn [flat_map]. rewrite run_ops_app. rewrite (H x s (or_introl eq_refl)).
  destruct (run_ops (F x) s) as [s1|e|]; cbn [rmap bind]; try reflexivity.
  apply IH. intros y s' Hy. apply H. right. exact Hy.
Qed.

Lemma flat_map_single {A B} (f : A -> B) l : flat_map (fun x => [f x]) l = map f l.
Proof. induction l as [|x l IH]; cbn; [reflexivity | rewrite IH; reflexivity]. Qed.

(* node.desc_paths of a finished child in the heap *)
Definition kid_ok (h : heap) (c : tree) : Prop :=
  exists dp : list ent, nd_get c h = Some dp /\ map pent_of dp = paths c.

Definition leaf_ok (t : tree) : Prop := forall e, In e (paths t) -> pe_tax e <> None.

(* for desc2, (...) in c2.desc_paths.items() *)
Lemma for2_eq h nd c1 desc1 a c2 dpn v1 i e1 s :
  heap_get nd h = Ok dpn -> nd_get desc1 dpn = Some v1 ->
  kid_ok h c2 -> leaf_ok c2 ->
  node_ref_opt none_key (py_parent_node G c1) = i ->
  pe_len e1 = fst (fst v1) -> pe_steps e1 = snd (fst v1) ->
  PDM_compile_from_tree_for2 G none_key h nd c1 desc1 a c2 (wl s)
  = rmap wl (run_ops (map (fun e2 => OPair i a e1 e2 (len0 c2)) (paths c2)) s).
Proof.
  intros Hh Hd [dp2 [H2 P2]] LO Hi Hl Hs. unfold PDM_compile_from_tree_for2.
  rewrite (heap_get_some _ _ _ H2). cbn [bind]. rewrite bind_ok_r. unfold nd_items.
  rewrite <- P2, map_map, <- flat_map_single.
  apply py_for_run. intros x s' Hx. rewrite run_ops_one.
  destruct (node_taxon (fst x)) as [b|] eqn:Eb.
  - eapply for1_eq; eassumption.
  - exfalso. apply (LO (pent_of x)); [rewrite <- P2; apply in_map; exact Hx | exact Eb].
Qed.

(* the 8 statements under `if desc1.taxon not in self._taxon_phylogenetic_distances` *)
Lemma dset_dset {V} k (v w : V) d : dset k v (dset k w d) = dset k v d.
Proof.
  induction d as [|[k' v'] r IH]; cbn [dset].
  - rewrite Z.eqb_refl. reflexivity.
  - destruct (Z.eqb k k') eqn:E; cbn [dset]; rewrite ?E, ?Z.eqb_refl; [reflexivity|]. rewrite IH. reflexivity.
Qed.

Lemma tset2_fresh_row {V} a (v : V) T : tset2 a a v (dset a [] T) = Ok (dset a [(a, v)] T).
Proof. unfold tset2. rewrite dget_dset_same. cbn [dset]. rewrite dset_dset. reflexivity. Qed.

(* for c2 in children[cidx1+1:] *)
Lemma rest_eq h nd c1 desc1 a rest dpn v1 i e1 s :
  heap_get nd h = Ok dpn -> nd_get desc1 dpn = Some v1 ->
  (forall c2, In c2 rest -> kid_ok h c2 /\ leaf_ok c2) ->
  node_ref_opt none_key (py_parent_node G c1) = i ->
  pe_len e1 = fst (fst v1) -> pe_steps e1 = snd (fst v1) ->
  py_for rest (PDM_compile_from_tree_for2 G none_key h nd c1 desc1 a) (wl s)
  = rmap wl (run_ops (flat_map (fun c2 => map (fun e2 => OPair i a e1 e2 (len0 c2)) (paths c2)) rest) s).
Proof.
  intros Hh Hd HK Hi Hl Hs. apply py_for_run. intros c2 s' Hc. destruct (HK c2 Hc) as [K LO].
  eapply for2_eq; eassumption.
Qed.

(* body of `for desc1, (...) in c1.desc_paths.items()` *)
Lemma for3_eq dflt nd ks cidx1 c1 (x : ent) s h dpn i :
  nd_get nd h = Some dpn ->
  (forall c2, In c2 (py_slice_from ks (cidx1 + 1)) -> kid_ok h c2 /\ leaf_ok c2 /\ node_id c2 <> node_id nd) ->
  node_ref_opt none_key (py_parent_node G c1) = i ->
  PDM_compile_from_tree_for3 G none_key dflt nd ks cidx1 c1 x (wl s, h)
  = rmap (fun s' => (wl s', heap_set nd (nd_set (fst x) ((fst (fst (snd x)) + len0 c1, snd (fst (snd x)) + 1), dflt) dpn) h))
         (run_ops (blk i c1 (py_slice_from ks (cidx1 + 1)) (pent_of x)) s).
Proof.
  destruct x as [desc1 [[l1 s1] u1]]. cbn [fst snd]. intros Hn HK Hi.
  unfold PDM_compile_from_tree_for3. rewrite (heap_get_some _ _ _ Hn). cbn [bind].
  change (match node_edge_length c1 with Some v => v | None => 0 end) with (len0 c1).
  set (v1 := ((l1 + len0 c1, s1 + 1), dflt)).
  set (h' := heap_set nd (nd_set desc1 v1 dpn) h).
  unfold blk. change (pe_tax (pent_of (desc1, (l1, s1, u1)))) with (node_taxon desc1).
  change (pe_id (pent_of (desc1, (l1, s1, u1)))) with (node_id desc1).
  destruct (node_taxon desc1) as [a|] eqn:Ea; [|reflexivity].
  rewrite run_ops_cons.
  assert (Hh' : heap_get nd h' = Ok (nd_set desc1 v1 dpn)).
  { apply heap_get_some. unfold h', heap_set. apply nd_get_set_same. }
  assert (HK' : forall c2, In c2 (py_slice_from ks (cidx1 + 1)) -> kid_ok h' c2 /\ leaf_ok c2).
  { intros c2 Hc. destruct (HK c2 Hc) as [[dp2 [E2 P2]] [LO N2]]. split; [|exact LO].
    exists dp2. split; [|exact P2]. unfold h', heap_set. rewrite nd_get_set_other; [exact E2 | exact N2]. }
  pose (e1 := bump (len0 c1) (pent_of (desc1, ((l1, s1), u1)))).
  cbn [apply_op]. red_pdm.
  destruct (dmem a (p_dist s)) eqn:M; cbn [negb bind].
  - match goal with |- bind ?p _ = _ =>
      replace p with (rmap wl (run_ops (flat_map (fun c2 => map (fun e2 => OPair i a e1 e2 (len0 c2)) (paths c2))
                                                 (py_slice_from ks (cidx1 + 1))) s))
        by (symmetry; exact (rest_eq h' nd c1 desc1 a _ _ v1 i e1 s Hh' (nd_get_set_same _ _ _) HK' Hi eq_refl eq_refl))
    end.
    destruct (run_ops _ s); reflexivity.
  - red_pdm. rewrite !tset2_fresh_row. cbn [bind]. red_pdm.
    match goal with |- context [py_for _ _ ?g] =>
      change g with (wl (mkPdm (p_tree_length s) (p_num_edges s) (dset a [(a, 0)] (p_dist s)) (dset a [(a, 0)] (p_steps s))
                               (dset a [(a, node_id desc1)] (p_mrca s)) (add_once a (p_mapped s)) (p_pairs s) (p_log s)))
    end.
    match goal with |- bind (py_for ?l0 ?f0 (wl ?s0)) _ = _ =>
      replace (py_for l0 f0 (wl s0))
        with (rmap wl (run_ops (flat_map (fun c2 => map (fun e2 => OPair i a e1 e2 (len0 c2)) (paths c2))
                                         (py_slice_from ks (cidx1 + 1))) s0))
        by (symmetry; exact (rest_eq h' nd c1 desc1 a _ _ v1 i e1 s0 Hh' (nd_get_set_same _ _ _) HK' Hi eq_refl eq_refl))
    end.
    destruct (run_ops _ _); reflexivity.
Qed.

(* ---------- loops that also update the heap: simulation ---------- *)
Definition sim (Q : heap -> Prop) (rm : res pdm) (rg : res (pdm * heap)) : Prop :=
  match rm with
  | Ok s' => exists h', rg = Ok (wl s', h') /\ Q h'
  | Err e => rg = Err e
  | OutOfFuel => rg = OutOfFuel
  end.

Lemma sim_bind (Q Q' : heap -> Prop) rm rg km kg :
  sim Q rm rg -> (forall s' h', Q h' -> sim Q' (km s') (kg (wl s', h'))) -> sim Q' (bind rm km) (bind rg kg).
Proof.
  unfold sim at 1. destruct rm as [s'|e|]; intros H K.
  - destruct H as [h' [-> Hq]]. cbn [bind]. apply K. exact Hq.
  - subst rg. reflexivity.
  - subst rg. reflexivity.
Qed.

Lemma sim_weaken (Q Q' : heap -> Prop) rm rg : (forall h, Q h -> Q' h) -> sim Q rm rg -> sim Q' rm rg.
Proof.
  intros W. unfold sim. destruct rm; auto. intros [h' [E Hq]]. exists h'. split; [exact E | apply W; exact Hq].
Qed.

Lemma bump_pent_of c1 (desc1 : node) l1 s1 (u1 dflt : unit) :
  pent_of (desc1, ((l1 + len0 c1, s1 + 1), dflt)) = bump (len0 c1) (pent_of (desc1, ((l1, s1), u1))).
Proof. reflexivity. Qed.

Definition kids_rest_ok (nd : node) (h : heap) (rest : list tree) : Prop :=
  forall c2, In c2 rest -> kid_ok h c2 /\ leaf_ok c2 /\ node_id c2 <> node_id nd.

Lemma kids_rest_frame nd h h' I rest : kids_rest_ok nd h rest -> frame I h h' ->
  (forall c2, In c2 rest -> ~ In (node_id c2) I) -> kids_rest_ok nd h' rest.
Proof.
  intros K F D c2 Hc. destruct (K c2 Hc) as [[dp [E P]] [LO N]]. split; [|split; assumption].
  exists dp. split; [|exact P]. rewrite (F c2 (D c2 Hc)). exact E.
Qed.

(* for desc1, (...) in c1.desc_paths.items() *)
Lemma for3_loop dflt nd ks cidx1 c1 i rest :
  py_slice_from ks (cidx1 + 1) = rest ->
  node_ref_opt none_key (py_parent_node G c1) = i ->
  forall (ents : list ent) s h dpn,
  nd_get nd h = Some dpn ->
  kids_rest_ok nd h rest ->
  NoDup (map nid dpn ++ map nid ents) ->
  sim (fun h' => exists dpn' : list ent, nd_get nd h' = Some dpn' /\
                 map pent_of dpn' = map pent_of dpn ++ map (bump (len0 c1)) (map pent_of ents) /\
                 frame [node_id nd] h h')
      (run_ops (flat_map (blk i c1 rest) (map pent_of ents)) s)
      (py_for ents (PDM_compile_from_tree_for3 G none_key dflt nd ks cidx1 c1) (wl s, h)).
Proof.
  intros <- Hi. induction ents as [|x ents IH]; intros s h dpn Hn HK N.
  - cbn. exists h. split; [reflexivity|]. exists dpn. rewrite app_nil_r. split; [exact Hn|]. split; [reflexivity | apply frame_refl].
  - rewrite py_for_cons. cbn [map flat_map]. rewrite run_ops_app.
    assert (HK0 : forall c2, In c2 (py_slice_from ks (cidx1 + 1)) -> kid_ok h c2 /\ leaf_ok c2 /\ node_id c2 <> node_id nd) by exact HK.
    rewrite (for3_eq dflt nd ks cidx1 c1 x s h dpn i Hn HK0 Hi).
    destruct x as [desc1 [[l1 s1] u1]]. cbn [fst snd].
    destruct (run_ops (blk i c1 _ _) s) as [s1'|e|]; cbn [rmap bind]; try reflexivity.
    set (v1 := ((l1 + len0 c1, s1 + 1), dflt)).
    assert (Fr : nd_get desc1 dpn = None).
    { apply nd_get_none. cbn [map] in N. apply NoDup_remove_2 in N. intro Hin. apply N. apply in_or_app. left. exact Hin. }
    rewrite (nd_set_new _ _ _ Fr).
    set (h1 := heap_set nd (dpn ++ [(desc1, v1)]) h).
    assert (F1 : frame [node_id nd] h h1) by apply frame_set.
    eapply sim_weaken; [|apply (IH s1' h1 (dpn ++ [(desc1, v1)]))].
    + intros h' [dpn' [E' [P' F']]]. exists dpn'. split; [exact E'|]. split.
      * rewrite P'. rewrite map_app. cbn [map]. unfold v1. rewrite (bump_pent_of c1 desc1 l1 s1 u1 dflt).
        rewrite <- app_assoc. reflexivity.
      * eapply frame_trans; eassumption.
    + unfold h1, heap_set. apply nd_get_set_same.
    + eapply kids_rest_frame; [exact HK | exact F1|]. intros c2 Hc [E|[]]. destruct (HK c2 Hc) as [_ [_ N2]]. congruence.
    + rewrite map_app. cbn [map]. rewrite <- app_assoc. exact N.
Qed.

(* body of `for cidx1, c1 in enumerate(children)` *)
Lemma for4_sim dflt nd ks pre c1 r i :
  ks = pre ++ c1 :: r ->
  node_ref_opt none_key (py_parent_node G c1) = i ->
  forall s h dpn,
  nd_get nd h = Some dpn -> kid_ok h c1 -> node_id c1 <> node_id nd ->
  kids_rest_ok nd h r ->
  NoDup (map nid dpn ++ map pe_id (paths c1)) ->
  sim (fun h' => exists dpn' : list ent, nd_get nd h' = Some dpn' /\
                 map pent_of dpn' = map pent_of dpn ++ map (bump (len0 c1)) (paths c1) /\
                 frame [node_id nd; node_id c1] h h')
      (run_ops (flat_map (blk i c1 r) (paths c1)) s)
      (PDM_compile_from_tree_for4 G none_key dflt nd ks (Z.of_nat (length pre), c1) (wl s, h)).
Proof.
  intros Eks Hi s h dpn Hn [dp1 [E1 P1]] N1 HK N.
  unfold PDM_compile_from_tree_for4. rewrite (heap_get_some _ _ _ E1). cbn [bind]. unfold nd_items.
  assert (Sl : py_slice_from ks (Z.of_nat (length pre) + 1) = r) by (rewrite Eks; apply py_slice_after).
  pose proof (for3_loop dflt nd ks (Z.of_nat (length pre)) c1 i r Sl Hi dp1 s h dpn Hn HK) as H3.
  rewrite P1 in H3. rewrite (nid_pent_of dp1), P1 in H3. specialize (H3 N).
  rewrite <- (bind_ok_r (run_ops _ s)).
  eapply sim_bind; [exact H3|]. intros s' h' [dpn' [E' [P' F']]]. cbn.
  exists (heap_del c1 h'). split; [reflexivity|]. exists dpn'. split; [|split; [exact P'|]].
  - rewrite nd_get_del_other; [exact E' | congruence].
  - eapply frame_trans; [eapply frame_mono; [|exact F'] | eapply frame_mono; [|apply frame_del]].
    + intros z [<-|[]]. left. reflexivity.
    + intros z [<-|[]]. right. left. reflexivity.
Qed.

Definition node_paths' (l : list tree) : list pent := flat_map (fun c => map (bump (len0 c)) (paths c)) l.
Definition kid_pids (l : list tree) : list Z := flat_map (fun c => map pe_id (paths c)) l.

Lemma pe_id_node_paths' l : map pe_id (node_paths' l) = kid_pids l.
Proof.
  unfold node_paths', kid_pids. rewrite map_flat_map. apply flat_map_ext. intro c. rewrite map_map. reflexivity.
Qed.

(* for cidx1, c1 in enumerate(children) *)
Lemma kids_loop dflt nd ks i :
  (forall c, In c ks -> node_ref_opt none_key (py_parent_node G c) = i /\ leaf_ok c /\ node_id c <> node_id nd) ->
  NoDup (map t_id ks) -> NoDup (kid_pids ks) ->
  forall cur pre s h dpn, ks = pre ++ cur ->
  nd_get nd h = Some dpn -> map nid dpn = kid_pids pre ->
  (forall c, In c cur -> kid_ok h c) ->
  sim (fun h' => exists dpn' : list ent, nd_get nd h' = Some dpn' /\
                 map pent_of dpn' = map pent_of dpn ++ node_paths' cur /\
                 frame (node_id nd :: map t_id ks) h h')
      (run_ops (node_ops i (combine cur (map paths cur))) s)
      (py_for (combine (map Z.of_nat (seq (length pre) (length cur))) cur)
              (PDM_compile_from_tree_for4 G none_key dflt nd ks) (wl s, h)).
Proof.
  intros HC ND NP. induction cur as [|c1 r IH]; intros pre s h dpn Eks Hn Hd HK.
  - cbn. exists h. split; [reflexivity|]. exists dpn. rewrite app_nil_r. split; [exact Hn|]. split; [reflexivity | apply frame_refl].
  - rewrite node_ops_kids, run_ops_app. cbn [length seq map combine]. rewrite py_for_cons.
    assert (Hc1 : In c1 ks) by (rewrite Eks; apply in_elt).
    destruct (HC c1 Hc1) as [Hi [LO1 N1]].
    assert (Dr : forall c2, In c2 r -> node_id c2 <> node_id c1).
    { intros c2 Hc2 E. rewrite Eks, map_app in ND. apply NoDup_app_r in ND. cbn [map] in ND.
      inversion ND as [|? ? Hx _]; subst. apply Hx. unfold node_id in E. rewrite <- E. apply in_map. exact Hc2. }
    assert (HKr : kids_rest_ok nd h r).
    { intros c2 Hc2. assert (In c2 ks) by (rewrite Eks; apply in_or_app; right; right; exact Hc2).
      destruct (HC c2 H) as [_ [LO2 N2]]. split; [apply HK; right; exact Hc2 | split; assumption]. }
    assert (NF : NoDup (map nid dpn ++ map pe_id (paths c1))).
    { rewrite Hd. rewrite Eks in NP. unfold kid_pids in *. rewrite flat_map_app in NP. cbn [flat_map] in NP.
      rewrite app_assoc in NP. exact (NoDup_app_l _ _ NP). }
    eapply sim_bind.
    + apply (for4_sim dflt nd ks pre c1 r i Eks Hi s h dpn Hn (HK c1 (or_introl eq_refl)) N1 HKr NF).
    + intros s' h' [dpn' [E' [P' F']]].
      replace (S (length pre)) with (length (pre ++ [c1])) by (rewrite app_length; cbn [length]; lia).
      eapply sim_weaken; [|apply (IH (pre ++ [c1]) s' h' dpn')].
      * intros h2 [dpn2 [E2 [P2 F2]]]. exists dpn2. split; [exact E2|]. split.
        -- rewrite P2, P'. unfold node_paths'. cbn [flat_map]. rewrite <- app_assoc. reflexivity.
        -- eapply frame_trans; [eapply frame_mono; [|exact F'] | exact F2].
           intros z [<-|[<-|[]]]; [left; reflexivity|]. right. apply (in_map t_id) in Hc1. exact Hc1.
      * rewrite <- app_assoc. exact Eks.
      * exact E'.
      * rewrite nid_pent_of, P', map_app, <- nid_pent_of, Hd. rewrite map_map.
        unfold kid_pids. rewrite flat_map_app. cbn [flat_map]. rewrite app_nil_r. reflexivity.
      * intros c2 Hc2. destruct (HKr c2 Hc2) as [[dp2 [E2 P2]] [_ N2]]. exists dp2. split; [|exact P2].
        rewrite F'; [exact E2|]. intros [E|[E|[]]]; [congruence|]. apply (Dr c2 Hc2). congruence.
Qed.

(* ---------- one node of the post-order loop, its children done ---------- *)
Definition node_model (i : Z) (e : option Z) (ks : list tree) (s1 : pdm) : res pdm :=
  let s2 := count_edge e s1 in
  match ks with [] => Ok s2 | _ => run_ops (node_ops i (combine ks (map paths ks))) s2 end.

Lemma bind_ok_pair {A B} (r : res (A * B)) : (do st <- r ;; let '(a, b) := st in Ok (a, b)) = r.
Proof. destruct r as [[a b]|e|]; reflexivity. Qed.

Lemma node_sim i x lb e ks s1 h1 :
  (forall c, In c ks -> node_ref_opt none_key (py_parent_node G c) = i /\ leaf_ok c /\ node_id c <> i) ->
  NoDup (map t_id ks) -> NoDup (kid_pids ks) ->
  (forall c, In c ks -> kid_ok h1 c) ->
  sim (fun h' => kid_ok h' (T i x lb e ks) /\ frame (i :: map t_id ks) h1 h')
      (node_model i e ks s1)
      (PDM_compile_from_tree_for5 G none_key tt (T i x lb e ks) (wl s1, h1)).
Proof.
  intros HC ND NP HK. set (nd := T i x lb e ks).
  unfold PDM_compile_from_tree_for5. change (node_edge_length nd) with e. change (node_child_nodes nd) with ks.
  assert (Cnt : forall K : pdm -> res (pdm * heap),
    (do sum_1 <- py_except_type_error (py_add_opt (p_tree_length (wl s1)) e) (p_tree_length (wl s1)) ;;
     K (set_num_edges (set_tree_length (wl s1) sum_1) (p_num_edges (set_tree_length (wl s1) sum_1) + 1)))
    = K (wl (count_edge e s1))).
  { intro K. destruct e; reflexivity. }
  cbv zeta.
  match goal with |- sim _ _ (bind _ ?K0) =>
    let K1 := eval pattern (wl (count_edge e s1)) in (K0 0) in idtac end || idtac.
  (* bring the goal into the shape of Cnt *)
  match goal with |- sim ?Q ?M (bind ?R ?K0) =>
    change (sim Q M (bind R (fun sum_1 => (fun self : pdm =>
      if Z.eqb (py_len ks) 0
      then Ok (self, heap_set nd [(nd, ((0, 0), tt))] h1)
      else do st_21 <- py_for (py_enumerate ks) (PDM_compile_from_tree_for4 G none_key tt nd ks) (self, heap_set nd [] h1) ;;
           let '(self0, heap_0) := st_21 in Ok (self0, heap_0))
      (set_num_edges (set_tree_length (wl s1) sum_1) (p_num_edges (set_tree_length (wl s1) sum_1) + 1)))))
  end.
  rewrite Cnt. unfold node_model. cbv zeta. set (s2 := count_edge e s1).
  destruct ks as [|k r].
  - cbn [py_len length Z.of_nat Z.eqb]. eexists. split; [reflexivity|]. split.
    + exists [(nd, ((0, 0), tt))]. split; [unfold heap_set; apply nd_get_set_same | reflexivity].
    + exact (frame_set nd _ h1).
  - replace (Z.eqb (py_len (k :: r)) 0) with false
      by (symmetry; apply Z.eqb_neq; unfold py_len; cbn [length]; lia).
    rewrite bind_ok_pair. rewrite py_enumerate_eq.
    set (h := heap_set nd [] h1).
    assert (F0 : frame [i] h1 h) by apply (frame_set nd).
    pose proof (kids_loop tt nd (k :: r) i) as KL.
    assert (HC' : forall c, In c (k :: r) ->
              node_ref_opt none_key (py_parent_node G c) = i /\ leaf_ok c /\ node_id c <> node_id nd) by exact HC.
    specialize (KL HC' ND NP (k :: r) [] s2 h [] eq_refl).
    eapply sim_weaken; [|apply KL].
    + intros h' [dpn' [E' [P' F']]]. split.
      * exists dpn'. split; [exact E'|]. rewrite P'. unfold nd. rewrite paths_node. reflexivity.
      * eapply frame_trans; [eapply frame_mono; [|exact F0] | exact F'].
        intros z [<-|[]]. left. reflexivity.
    + unfold h, heap_set. apply nd_get_set_same.
    + reflexivity.
    + intros c Hc. destruct (HK c Hc) as [dp [E P]]. exists dp. split; [|exact P].
      rewrite (F0 c); [exact E|]. intros [E'|[]]. destruct (HC c Hc) as [_ [_ N]]. apply N. symmetry. exact E'.
Qed.

(* ---------- the post-order loop ---------- *)
Definition comp_kids : list tree -> pdm -> res (list (list pent) * pdm) :=
  fix go (ks : list tree) (s : pdm) : res (list (list pent) * pdm) :=
    match ks with
    | [] => Ok ([], s)
    | k :: r =>
      do p_s' <- comp k s ;;
      do ps_s'' <- go r (snd p_s') ;;
      Ok (fst p_s' :: fst ps_s'', snd ps_s'')
    end.

Lemma comp_node i x lb e ks s :
  comp (T i x lb e ks) s =
  do pss_s1 <- comp_kids ks s ;;
  let s2 := count_edge e (snd pss_s1) in
  match ks with
  | [] => Ok ([mkPent i x 0 0], s2)
  | _ => let cps := combine ks (fst pss_s1) in
         do s3 <- run_ops (node_ops i cps) s2 ;; Ok (node_paths cps, s3)
  end.
Proof. reflexivity. Qed.

Lemma comp_fst t s ps s' : comp t s = Ok (ps, s') -> ps = paths t.
Proof.
  rewrite comp_correct. unfold comp_spec. destruct (run_ops (all_ops t) s); cbn [rmap]; intro H; inversion H. reflexivity.
Qed.

Lemma comp_kids_fst ks : forall s pss s', comp_kids ks s = Ok (pss, s') -> pss = map paths ks.
Proof.
  induction ks as [|k r IH]; intros s pss s' H; cbn [comp_kids] in H.
  - inversion H. reflexivity.
  - destruct (comp k s) as [[p s1]|e|] eqn:E; cbn [bind] in H; try discriminate.
    apply comp_fst in E. subst p. cbn [snd fst] in H.
    destruct (comp_kids r s1) as [[ps s2]|e|] eqn:E2; cbn [bind] in H; try discriminate.
    apply IH in E2. subst ps. inversion H. reflexivity.
Qed.

Lemma comp_kids_cons k r s :
  rmap snd (comp_kids (k :: r) s) = do s1 <- rmap snd (comp k s) ;; rmap snd (comp_kids r s1).
Proof.
  cbn [comp_kids]. destruct (comp k s) as [[p s1]|e|]; cbn [bind rmap snd]; try reflexivity.
  destruct (comp_kids r s1) as [[ps s2]|e|]; reflexivity.
Qed.

Lemma comp_snd_node i x lb e ks s :
  rmap snd (comp (T i x lb e ks) s) = do s1 <- rmap snd (comp_kids ks s) ;; node_model i e ks s1.
Proof.
  rewrite comp_node. destruct (comp_kids ks s) as [[pss s1]|e0|] eqn:E; cbn [bind rmap snd fst]; try reflexivity.
  apply comp_kids_fst in E. subst pss. unfold node_model. cbv zeta.
  destruct ks as [|k r]; [reflexivity|].
  destruct (run_ops _ (count_edge e s1)); reflexivity.
Qed.

Definition PRs (t : tree) : Prop :=
  forall n c, In n (preorder t) -> In c (t_kids n) -> node_ref_opt none_key (py_parent_node G c) = t_id n.
Definition kids_leaf_ok (t : tree) : Prop := forall c, In c (t_kids t) -> leaf_ok c.

Lemma leaf_ok_kids c : leaf_ok c -> kids_leaf_ok c.
Proof.
  destruct c as [i x lb e ks]. intros LO k Hk e' He'. cbn [t_kids] in Hk. destruct ks as [|k0 r]; [destruct Hk|].
  apply (LO (bump (len0 k) e')). rewrite paths_node. apply in_flat_map. exists k. split; [exact Hk|].
  apply in_map. exact He'.
Qed.

Lemma PRs_kid i x lb e ks c : PRs (T i x lb e ks) -> In c ks -> PRs c.
Proof. intros P Hc n c' Hn Hc'. apply P; [|exact Hc']. eapply preorder_kid; eassumption. Qed.

Definition tree_ok (t : tree) : Prop :=
  NoDup (ids t) -> kids_leaf_ok t -> PRs t ->
  forall s h, sim (fun h' => kid_ok h' t /\ frame (ids t) h h') (rmap snd (comp t s))
                  (py_for (postorder t) (PDM_compile_from_tree_for5 G none_key tt) (wl s, h)).

Lemma in_ids_kid ks c : In c ks -> In (t_id c) (flat_map ids ks).
Proof. intro H. apply in_flat_map. exists c. split; [exact H|]. apply in_ids_preorder, preorder_self. Qed.

Lemma kids_sim ks : Forall tree_ok ks -> NoDup (flat_map ids ks) ->
  (forall c, In c ks -> leaf_ok c /\ PRs c) ->
  forall s h, sim (fun h' => (forall c, In c ks -> kid_ok h' c) /\ frame (flat_map ids ks) h h')
                  (rmap snd (comp_kids ks s))
                  (py_for (flat_map postorder ks) (PDM_compile_from_tree_for5 G none_key tt) (wl s, h)).
Proof.
  induction 1 as [|k r Hk _ IH]; intros N HC s h.
  - cbn. exists h. split; [reflexivity|]. split; [intros c []|apply frame_refl].
  - cbn [flat_map]. rewrite py_for_app, comp_kids_cons. cbn [flat_map] in N.
    destruct (HC k (or_introl eq_refl)) as [LOk PRk].
    eapply sim_bind.
    + apply (Hk (NoDup_app_l _ _ N) (leaf_ok_kids k LOk) PRk s h).
    + intros s1 h1 [K1 F1]. eapply sim_weaken; [|apply (IH (NoDup_app_r _ _ N))].
      * intros h2 [K2 F2]. split.
        -- intros c [<-|Hc]; [|apply K2; exact Hc]. destruct K1 as [dp [E P]]. exists dp. split; [|exact P].
           rewrite F2; [exact E|]. apply (NoDup_app_disj _ _ _ N). apply in_ids_preorder, preorder_self.
        -- eapply frame_trans; eapply frame_mono; [|exact F1| |exact F2]; intros z Hz; apply in_or_app; auto.
      * intros c Hc. apply HC. right. exact Hc.
Qed.

Lemma nodup_kid_ids ks : NoDup (flat_map ids ks) -> NoDup (map t_id ks).
Proof.
  induction ks as [|k r IH]; intro N; [constructor|]. cbn [flat_map map] in *. constructor.
  - intro Hin. apply in_map_iff in Hin. destruct Hin as [c [E Hc]].
    apply (NoDup_app_disj _ _ (t_id k) N); [apply in_ids_preorder, preorder_self|]. rewrite <- E. apply in_ids_kid. exact Hc.
  - apply IH. exact (NoDup_app_r _ _ N).
Qed.

Theorem tree_sim : forall t, tree_ok t.
Proof.
  induction t as [i x lb e ks IH] using tree_ind'. intros N KL PR s h.
  rewrite ids_node in N. inversion N as [|? ? Hi N']; subst.
  cbn [postorder]. rewrite py_for_app, comp_snd_node.
  eapply sim_bind.
  - apply (kids_sim ks IH N'). intros c Hc. split; [apply KL; exact Hc | eapply PRs_kid; eassumption].
  - intros s1 h1 [K1 F1]. rewrite py_for_cons. change (py_for [] ?b) with (fun s : pdm * heap => Ok s).
    rewrite bind_ok_r.
    eapply sim_weaken; [|apply node_sim].
    + intros h2 [K2 F2]. split; [exact K2|]. rewrite ids_node.
      eapply frame_trans; eapply frame_mono; [|exact F1| |exact F2].
      * intros z Hz. right. exact Hz.
      * intros z [<-|Hz]; [left; reflexivity|]. right. apply in_map_iff in Hz. destruct Hz as [c [<- Hc]].
        apply in_ids_kid. exact Hc.
    + intros c Hc. split; [|split].
      * apply (PR (T i x lb e ks) c); [apply preorder_self | exact Hc].
      * apply KL. exact Hc.
      * intro E. apply Hi. unfold node_id in E. rewrite <- E. apply in_ids_kid. exact Hc.
    + apply nodup_kid_ids. exact N'.
    + apply paths_ids_nodup_kids; [|exact N']. apply Forall_forall. intros c _. apply paths_ids_nodup.
    + exact K1.
Qed.

End Comp.

(* ---------- the whole method ---------- *)
Lemma mirror_with_log L s : mirror (with_log L s) = rmap (with_log L) (mirror s).
Proof.
  unfold mirror. cbn [p_dist p_steps p_mrca with_log p_tree_length p_num_edges p_mapped p_pairs p_log].
  destruct (mirror_tbl (p_dist s)); cbn [bind rmap]; try reflexivity.
  destruct (mirror_tbl (p_steps s)); cbn [bind rmap]; try reflexivity.
  destruct (mirror_tbl (p_mrca s)); reflexivity.
Qed.

Lemma PRs_root G none_key : NoDup (ids G) -> PRs G none_key G.
Proof.
  intros N n c Hn Hc. destruct (py_parent_in_spec G n c N Hn Hc) as [p [E Hp]].
  unfold py_parent_node, node_id. rewrite E. exact Hp.
Qed.

Lemma facts_closed {V} (vw : view V) t s : view_ok vw -> run_facts t s -> good_leaves t -> t_kids t <> [] ->
  dkeys (vtab vw s) = dkeys (p_dist s) -> closed_tbl (vtab vw s).
Proof.
  intros VO RF G Hk K.
  assert (C : forall x y, tget2 x y (vtab vw s) =
                          if has x t then (if Z.eqb y x then match pfind x t with Some e => Some (vg vw (pe_id e)) | None => None end
                                           else ocell vw x y t) else None).
  { intros x y. pose proof (rf_cell t s RF V vw x y VO) as E. rewrite (tres_char vw x y t Hk) in E.
    unfold cell in E. destruct (has x t); inversion E; reflexivity. }
  assert (Dm : forall x, dmem x (vtab vw s) = has x t).
  { intro x. rewrite (dmem_keys_eq _ (p_dist s)) by exact K.
    pose proof (rf_cell t s RF Z viewD x x viewD_ok) as E. rewrite (tres_char viewD x x t Hk) in E.
    unfold cell in E. cbn [vtab viewD] in E. destruct (has x t); inversion E; reflexivity. }
  intros x y v H. rewrite Dm. rewrite C in H. destruct (has x t) eqn:Hx; [|discriminate].
  destruct (Z.eqb y x) eqn:Eyx; [apply Z.eqb_eq in Eyx; subst; exact Hx|].
  destruct (ord x y t) eqn:O; [eapply ord_has_y; exact O|].
  rewrite ocell_ord_false in H by exact O. discriminate.
Qed.

Theorem gen_compile_from_tree_eq t none_key self :
  good_leaves t -> NoDup (ids t) ->
  PDM_compile_from_tree t none_key self t = rmap (with_log (p_log self)) (compile_from_tree t).
Proof.
  intros GL N. set (L := p_log self).
  assert (LO : t_kids t <> [] -> leaf_ok t).
  { intros _ e He Hn. destruct (good_paths_some t e GL He) as [a [Ha _]]. congruence. }
  assert (KL : kids_leaf_ok t).
  { destruct (t_kids t) eqn:Ek; [intros c Hc; rewrite Ek in Hc; destruct Hc|].
    apply leaf_ok_kids, LO. discriminate. }
  pose proof (tree_sim t none_key L t N KL (PRs_root t none_key N) pdm_empty heap_empty) as S.
  unfold PDM_compile_from_tree. cbv zeta.
  change (set_num_edges (set_tree_length (py_clear self) 0) 0) with (with_log L pdm_empty).
  change (py_postorder_node_iter t) with (postorder t).
  unfold compile_from_tree.
  destruct (comp t pdm_empty) as [[ps s']|e|] eqn:E; cbn [rmap snd sim] in S; cbn [bind].
  - destruct S as [h' [ES _]].
    match goal with |- bind ?p _ = _ => replace p with (@Ok (pdm * heap) (with_log L s', h')) by (symmetry; exact ES) end.
    cbn [bind]. rewrite bind_ok_r. cbn [snd].
    rewrite <- mirror_with_log. 
    rewrite comp_correct in E. unfold comp_spec in E.
    destruct (run_ops (all_ops t) pdm_empty) as [s0|e0|] eqn:R; cbn [rmap] in E; try discriminate.
    inversion E; subst ps s'. clear E.
    destruct (t_kids t) eqn:Ek.
    + destruct t as [i x lb e ks]. cbn [t_kids] in Ek. subst ks. cbn in R. inversion R; subst s0.
      apply gen_mirror_lookups_eq; cbn; try (split; [constructor | intros; discriminate]); intros x0 y v H; discriminate.
    + assert (Hk : t_kids t <> []) by (rewrite Ek; discriminate).
      destruct (run_tree t GL Hk) as [s1 [R1 RF]]. rewrite R in R1. inversion R1; subst s1.
      pose proof (rf_inv t s0 RF) as I. destruct I as [K1 [K2 [W1 [W2 W3]]]].
      apply gen_mirror_lookups_eq; cbn [with_log bump_counts p_dist p_steps p_mrca]; try assumption.
      * exact (facts_closed viewD t s0 viewD_ok RF GL Hk eq_refl).
      * exact (facts_closed viewS t s0 viewS_ok RF GL Hk K1).
      * exact (facts_closed viewM t s0 viewM_ok RF GL Hk K2).
  - match goal with |- bind ?p _ = _ => replace p with (@Err (pdm * heap) e) by (symmetry; exact S) end. reflexivity.
  - match goal with |- bind ?p _ = _ => replace p with (@OutOfFuel (pdm * heap)) by (symmetry; exact S) end. reflexivity.
Qed.
