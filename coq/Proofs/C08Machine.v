(* C08 - the library's lazy post-order iterator (the machine generated from the source in
   Gen/Traversals.v) interleaved with a loop body that mutates the tree yields the post-order of
   the tree AT LOOP ENTRY and ends in the tree the list-loop of the transcription computes. *)
From Coq Require Import ZArith List Bool Lia Arith.
From DV Require Import Model.PyPrims Model.Tree Model.C15Prims Gen.Traversals Proofs.C15Base.
From DV Require Import Model.C08Model Model.C08Loop Proofs.C08Base Proofs.C08InPlace Proofs.C08Prune Proofs.C08Dist Proofs.C08Final Proofs.C08More Proofs.C08Child Proofs.C08Lazy.
Import ListNotations.
Open Scope Z_scope.

Lemma pre_nil r : pre [] r = r.
Proof. destruct r as [[F o]|]; reflexivity. Qed.

Lemma pre_pre a b r : pre a (pre b r) = pre (a ++ b) r.
Proof. destruct r as [[F o]|]; simpl; [rewrite app_assoc|]; reflexivity. Qed.

Lemma is_empty_snoc {A} (l : list A) x : py_is_empty (l ++ [x]) = false.
Proof. destruct l; reflexivity. Qed.

Lemma run_true body n F st a :
  lazy_run body (S n) F (st ++ [(a, true)]) = pre [a] (lazy_run body n (body F a) st).
Proof.
  cbn [lazy_run]. unfold Node_postorder_iter_step. rewrite is_empty_snoc. cbn [negb].
  rewrite py_pop_last_snoc. reflexivity.
Qed.

Lemma run_false body n F st a :
  lazy_run body (S n) F (st ++ [(a, false)]) =
  lazy_run body n F ((st ++ [(a, true)]) ++
                     map (fun c => (c, false)) (rev (match findF a F with Some m => map t_id (t_kids m) | None => [] end))).
Proof.
  cbn [lazy_run]. unfold Node_postorder_iter_step. rewrite is_empty_snoc. cbn [negb].
  rewrite py_pop_last_snoc. cbn [fold_left]. rewrite pre_nil. reflexivity.
Qed.

Lemma run_empty body n F : lazy_run body (S n) F [] = Some (F, []).
Proof. reflexivity. Qed.

(* ---- reading a node that sits intact in the forest ---- *)
Lemma find_self : forall t n, NoDup (ids t) -> In n (preorder t) -> find (t_id n) t = Some n.
Proof.
  induction t as [i x l e ks IH] using tree_ind'. intros n Hnd Hn. simpl find.
  rewrite preorder_T in Hn. destruct Hn as [<-|Hn]; [simpl; rewrite Z.eqb_refl; reflexivity|].
  destruct (NoDup_ids_kids _ _ _ _ _ Hnd) as [Hk Hi].
  apply in_flat_map in Hn. destruct Hn as [k [Hkk Hn]].
  destruct (Z.eqb_spec i (t_id n)) as [E|_].
  - exfalso. apply Hi. rewrite E. unfold idsF. apply in_flat_map. exists k. split; [exact Hkk | apply preorder_in_ids; exact Hn].
  - rewrite (first_some_kid (find (t_id n)) (t_id n) ks k Hk Hkk (preorder_in_ids k n Hn)).
    + rewrite Forall_forall in IH. exact (IH k Hkk n (NoDup_idsF_kid _ _ Hk Hkk) Hn).
    + intros y Hy. clear -Hy. induction y as [j a b c ys IHy] using tree_ind'. rewrite ids_T in Hy. simpl.
      destruct (Z.eqb_spec j (t_id n)) as [E|_]; [exfalso; apply Hy; left; exact E|].
      apply first_some_none. intros z Hz. rewrite Forall_forall in IHy. apply IHy; [exact Hz|].
      intro H. apply Hy. right. unfold idsF. apply in_flat_map. exists z. split; assumption.
Qed.

Lemma find_notin a : forall t, ~ In a (ids t) -> find a t = None.
Proof.
  induction t as [j x l e ys IHy] using tree_ind'. intro Hy. rewrite ids_T in Hy. simpl.
  destruct (Z.eqb_spec j a) as [E|_]; [exfalso; apply Hy; left; exact E|].
  apply first_some_none. intros z Hz. rewrite Forall_forall in IHy. apply IHy; [exact Hz|].
  intro H. apply Hy. right. unfold idsF. apply in_flat_map. exists z. split; assumption.
Qed.

Lemma findF_self F n : NoDup (idsF F) -> In n (preF F) -> findF (t_id n) F = Some n.
Proof.
  intros Hnd Hn. unfold preF in Hn. apply in_flat_map in Hn. destruct Hn as [t [Ht Hn]]. unfold findF.
  rewrite (first_some_kid (find (t_id n)) (t_id n) F t Hnd Ht (preorder_in_ids t n Hn) (find_notin (t_id n))).
  exact (find_self t n (NoDup_idsF_kid _ _ Hnd Ht) Hn).
Qed.

(* ---- a body step leaves disjoint subtrees alone, and keeps ids distinct ---- *)
Definition nodup_pres (f : tree -> list tree) : Prop := forall n, NoDup (ids n) -> NoDup (idsF (f n)).

Lemma idsF_updF_sub f (Hf : ids_shrink f) a : forall F x, In x (idsF (updF f a F)) -> In x (idsF F).
Proof.
  assert (G : forall t x, In x (idsF (upd f a t)) -> In x (ids t)).
  { induction t as [i y l e ks IH] using tree_ind'. intros x Hx. rewrite upd_T in Hx.
    destruct (Z.eqb i a); [exact (Hf _ _ Hx)|].
    rewrite idsF_single, ids_T in Hx. rewrite ids_T. destruct Hx as [Hx|Hx]; [left; exact Hx|right].
    unfold idsF in *. rewrite flat_map_flat_map in Hx. apply in_flat_map in Hx. destruct Hx as [k [Hk Hx]].
    apply in_flat_map. exists k. split; [exact Hk|]. rewrite Forall_forall in IH. exact (IH k Hk x Hx). }
  intros F x Hx. unfold idsF, updF in *. rewrite flat_map_flat_map in Hx. apply in_flat_map in Hx.
  destruct Hx as [k [Hk Hx]]. apply in_flat_map. exists k. split; [exact Hk | exact (G k x Hx)].
Qed.

Lemma NoDup_upd f (Hf : ids_shrink f) (Hn : nodup_pres f) a : forall t, NoDup (ids t) -> NoDup (idsF (upd f a t)).
Proof.
  induction t as [i y l e ks IH] using tree_ind'. intro Hnd. rewrite upd_T.
  destruct (Z.eqb i a); [exact (Hn _ Hnd)|].
  rewrite idsF_single, ids_T. destruct (NoDup_ids_kids _ _ _ _ _ Hnd) as [Hk Hi]. constructor.
  - intro H. apply Hi. exact (idsF_updF_sub f Hf a ks i H).
  - clear Hi Hnd. induction ks as [|k r IHr]; [constructor|].
    inversion IH as [|? ? Pk Pr]; subst. rewrite idsF_cons in Hk. simpl flat_map. rewrite idsF_app.
    apply NoDup_app_intro.
    + apply Pk. exact (NoDup_app_l _ _ Hk).
    + apply IHr; [exact Pr | exact (NoDup_app_r _ _ Hk)].
    + intros x H1 H2. apply (NoDup_app_disj _ _ x Hk).
      * pose proof (idsF_updF_sub f Hf a [k] x) as S. unfold updF in S. rewrite flat_map_single, idsF_single in S. exact (S H1).
      * exact (idsF_updF_sub f Hf a r x H2).
Qed.

Lemma NoDup_updF f (Hf : ids_shrink f) (Hn : nodup_pres f) a : forall F, NoDup (idsF F) -> NoDup (idsF (updF f a F)).
Proof.
  induction F as [|k r IH]; intro H; [constructor|]. rewrite idsF_cons in H.
  unfold updF. simpl flat_map. rewrite idsF_app. apply NoDup_app_intro.
  - apply NoDup_upd; [exact Hf | exact Hn | exact (NoDup_app_l _ _ H)].
  - apply IH. exact (NoDup_app_r _ _ H).
  - intros x H1 H2. apply (NoDup_app_disj _ _ x H).
    + pose proof (idsF_updF_sub f Hf a [k] x) as S. unfold updF in S. rewrite flat_map_single, idsF_single in S. exact (S H1).
    + exact (idsF_updF_sub f Hf a r x H2).
Qed.

Lemma NoDup_foldF f (Hf : ids_shrink f) (Hn : nodup_pres f) L : forall F, NoDup (idsF F) -> NoDup (idsF (foldF f L F)).
Proof.
  induction L as [|a r IH]; intros F H; [exact H|]. unfold foldF in *. simpl. apply IH. apply NoDup_updF; assumption.
Qed.

(* replacing the subtree s leaves every subtree disjoint from it where it is *)
Lemma frame_upd g (s m : tree) : (forall x, In x (ids m) -> ~ In x (ids s)) ->
  forall t, NoDup (ids t) -> In s (preorder t) -> In m (preorder t) -> In m (preF (upd g (t_id s) t)).
Proof.
  intro D. induction t as [i y l e ks IH] using tree_ind'. intros Hnd Hs Hm. rewrite upd_T.
  destruct (NoDup_ids_kids _ _ _ _ _ Hnd) as [Hk Hi].
  destruct (Z.eqb_spec i (t_id s)) as [E|Hne].
  - exfalso. assert (s = T i y l e ks) by (apply (node_by_id (T i y l e ks)); [exact Hnd | exact Hs | apply preorder_self | symmetry; exact E]).
    subst s. apply (D (t_id m)); [apply t_id_in_ids | apply preorder_in_ids; exact Hm].
  - unfold preF. rewrite flat_map_single, preorder_T.
    rewrite preorder_T in Hs. destruct Hs as [Es|Hs]; [exfalso; apply Hne; rewrite <- Es; reflexivity|].
    apply in_flat_map in Hs. destruct Hs as [ks0 [Hks0 Hs]].
    rewrite preorder_T in Hm. destruct Hm as [Em|Hm].
    + exfalso. subst m. apply (D (t_id s)); [|apply t_id_in_ids].
      apply (ids_sub_kid i y l e ks ks0 (t_id s) Hks0). apply preorder_in_ids. exact Hs.
    + right. apply in_flat_map in Hm. destruct Hm as [km [Hkm Hm]].
      rewrite flat_map_flat_map. apply in_flat_map. exists km. split; [exact Hkm|].
      destruct (in_dec Z.eq_dec (t_id s) (ids km)) as [Hin|Hout].
      * assert (km = ks0) by (apply (kid_unique (t_id s) ks); [exact Hk | exact Hkm | exact Hks0 | exact Hin | apply preorder_in_ids; exact Hs]).
        subst km. rewrite Forall_forall in IH. exact (IH ks0 Hks0 (NoDup_idsF_kid _ _ Hk Hks0) Hs Hm).
      * rewrite upd_notin by exact Hout. simpl. rewrite app_nil_r. exact Hm.
Qed.

Lemma frame_updF g (s m : tree) F : (forall x, In x (ids m) -> ~ In x (ids s)) ->
  NoDup (idsF F) -> In s (preF F) -> In m (preF F) -> In m (preF (updF g (t_id s) F)).
Proof.
  intros D Hnd Hs Hm. unfold preF in *. apply in_flat_map in Hs. destruct Hs as [ts [Hts Hs]].
  apply in_flat_map in Hm. destruct Hm as [tm [Htm Hm]].
  unfold updF. rewrite flat_map_flat_map. apply in_flat_map. exists tm. split; [exact Htm|].
  destruct (in_dec Z.eq_dec (t_id s) (ids tm)) as [Hin|Hout].
  - assert (tm = ts) by (apply (kid_unique (t_id s) F); [exact Hnd | exact Htm | exact Hts | exact Hin | apply preorder_in_ids; exact Hs]).
    subst tm. exact (frame_upd g s m D ts (NoDup_idsF_kid _ _ Hnd Hts) Hs Hm).
  - rewrite upd_notin by exact Hout. simpl. rewrite app_nil_r. exact Hm.
Qed.

(* the loop over the block of s = one replacement of s *)
Lemma block_fold f (Hf : ids_shrink f) (s : tree) : forall t, NoDup (ids t) -> In s (preorder t) ->
  foldF f (post_ids s) [t] = upd (fun _ => recf f s) (t_id s) t.
Proof.
  induction t as [i y l e ks IH] using tree_ind'. intros Hnd Hs.
  destruct (NoDup_ids_kids _ _ _ _ _ Hnd) as [Hk Hi].
  rewrite preorder_T in Hs. destruct Hs as [Es|Hs].
  - subst s. rewrite upd_at_root. apply post_fold; assumption.
  - apply in_flat_map in Hs. destruct Hs as [k [Hkk Hs]].
    assert (Sub : forall a, In a (post_ids s) -> In a (ids k)).
    { intros a Ha. apply post_ids_in in Ha. exact (ids_sub_node k s a Hs Ha). }
    rewrite upd_T. destruct (Z.eqb_spec i (t_id s)) as [E|_].
    { exfalso. apply Hi. rewrite E. unfold idsF. apply in_flat_map. exists k. split; [exact Hkk | apply preorder_in_ids; exact Hs]. }
    rewrite foldF_root.
    2:{ intro H. apply Hi. unfold idsF. apply in_flat_map. exists k. split; [exact Hkk | exact (Sub i H)]. }
    f_equal. f_equal.
    destruct (in_split k ks Hkk) as [A [B EAB]]. subst ks. rewrite idsF_app, idsF_cons in Hk.
    change (A ++ k :: B) with (A ++ [k] ++ B). rewrite !foldF_app_forest, !flat_map_app'.
    rewrite (foldF_notin f (post_ids s) A).
    2:{ intros a Ha H. apply (NoDup_app_disj _ _ a Hk H). apply in_or_app. left. exact (Sub a Ha). }
    rewrite (foldF_notin f (post_ids s) B).
    2:{ intros a Ha H. apply (NoDup_app_r _ _) in Hk. apply (NoDup_app_disj _ _ a Hk (Sub a Ha) H). }
    rewrite Forall_forall in IH.
    rewrite (IH k Hkk (NoDup_app_l _ _ (NoDup_app_r _ _ Hk)) Hs).
    rewrite flat_map_single.
    rewrite (flat_map_ext_in (upd (fun _ => recf f s) (t_id s)) (fun a => [a]) A), flat_map_singleton.
    2:{ intros a Ha. apply upd_notin. intro H. apply (NoDup_app_disj _ _ (t_id s) Hk).
        - unfold idsF. apply in_flat_map. exists a. split; assumption.
        - apply in_or_app. left. apply preorder_in_ids. exact Hs. }
    rewrite (flat_map_ext_in (upd (fun _ => recf f s) (t_id s)) (fun a => [a]) B), flat_map_singleton.
    2:{ intros a Ha. apply upd_notin. intro H. apply (NoDup_app_r _ _) in Hk. apply (NoDup_app_disj _ _ (t_id s) Hk).
        - apply preorder_in_ids. exact Hs.
        - unfold idsF. apply in_flat_map. exists a. split; assumption. }
    reflexivity.
Qed.

Lemma block_foldF f (Hf : ids_shrink f) (s : tree) F : NoDup (idsF F) -> In s (preF F) ->
  foldF f (post_ids s) F = updF (fun _ => recf f s) (t_id s) F.
Proof.
  intros Hnd Hs. unfold preF in Hs. apply in_flat_map in Hs. destruct Hs as [t [Ht Hs]].
  destruct (in_split t F Ht) as [A [B EAB]]. subst F. rewrite idsF_app, idsF_cons in Hnd.
  assert (Sub : forall a, In a (post_ids s) -> In a (ids t)).
  { intros a Ha. apply post_ids_in in Ha. exact (ids_sub_node t s a Hs Ha). }
  change (A ++ t :: B) with (A ++ [t] ++ B). rewrite !foldF_app_forest. unfold updF. rewrite !flat_map_app'.
  rewrite (foldF_notin f (post_ids s) A).
  2:{ intros a Ha H. apply (NoDup_app_disj _ _ a Hnd H). apply in_or_app. left. exact (Sub a Ha). }
  rewrite (foldF_notin f (post_ids s) B).
  2:{ intros a Ha H. apply (NoDup_app_r _ _) in Hnd. apply (NoDup_app_disj _ _ a Hnd (Sub a Ha) H). }
  rewrite (block_fold f Hf s t (NoDup_app_l _ _ (NoDup_app_r _ _ Hnd)) Hs), flat_map_single.
  rewrite (flat_map_ext_in (upd (fun _ => recf f s) (t_id s)) (fun a => [a]) A), flat_map_singleton.
  2:{ intros a Ha. apply upd_notin. intro H. apply (NoDup_app_disj _ _ (t_id s) Hnd).
      - unfold idsF. apply in_flat_map. exists a. split; assumption.
      - apply in_or_app. left. apply preorder_in_ids. exact Hs. }
  rewrite (flat_map_ext_in (upd (fun _ => recf f s) (t_id s)) (fun a => [a]) B), flat_map_singleton.
  2:{ intros a Ha. apply upd_notin. intro H. apply (NoDup_app_r _ _) in Hnd. apply (NoDup_app_disj _ _ (t_id s) Hnd).
      - apply preorder_in_ids. exact Hs.
      - unfold idsF. apply in_flat_map. exists a. split; assumption. }
  reflexivity.
Qed.

Section Machine.
  Variables (f : tree -> list tree) (body : list tree -> Z -> list tree) (root : Z).
  Hypothesis Hf : ids_shrink f.
  Hypothesis Hn : nodup_pres f.
  (* below the seed the loop body is the pointer-level update `upd f`; at the seed it is arbitrary *)
  Hypothesis Hb : forall F a, a <> root -> body F a = updF f a F.

  Definition block_ok (s : tree) : Prop :=
    ~ In root (ids s) ->
    forall F st n, NoDup (idsF F) -> In s (preF F) ->
    lazy_run body (2 * size s + n) F (st ++ [(t_id s, false)]) =
    pre (post_ids s) (lazy_run body n (foldF f (post_ids s) F) st).

  Lemma kids_ok : forall ks, Forall block_ok ks -> ~ In root (idsF ks) ->
    forall F st n, NoDup (idsF F) -> (forall k, In k ks -> In k (preF F)) -> NoDup (idsF ks) ->
    lazy_run body (2 * sizes ks + n) F (st ++ map (fun k => (t_id k, false)) (rev ks)) =
    pre (flat_map post_ids ks) (lazy_run body n (foldF f (flat_map post_ids ks) F) st).
  Proof.
    induction ks as [|k r IH]; intros HK Hr F st n HF Hin Hks.
    - simpl. rewrite app_nil_r, pre_nil. reflexivity.
    - inversion HK as [|? ? Kk Kr]; subst. rewrite idsF_cons in Hr, Hks.
      simpl rev. rewrite map_app. simpl map. rewrite app_assoc.
      replace (2 * sizes (k :: r) + n)%nat with (2 * size k + (2 * sizes r + n))%nat by (rewrite sizes_cons; lia).
      rewrite Kk; [| intro H; apply Hr; apply in_or_app; left; exact H | exact HF | apply Hin; left; reflexivity].
      set (F1 := foldF f (post_ids k) F).
      assert (HF1 : NoDup (idsF F1)) by (apply NoDup_foldF; assumption).
      assert (Hin1 : forall k', In k' r -> In k' (preF F1)).
      { intros k' Hk'. unfold F1. rewrite (block_foldF f Hf k F HF (Hin k (or_introl eq_refl))).
        apply frame_updF; [| exact HF | apply Hin; left; reflexivity | apply Hin; right; exact Hk'].
        intros x Hx Hxk. apply (NoDup_app_disj _ _ x Hks Hxk). unfold idsF. apply in_flat_map. exists k'. split; assumption. }
      rewrite (IH Kr (fun H => Hr (in_or_app _ _ _ (or_intror H))) F1 st n HF1 Hin1 (NoDup_app_r _ _ Hks)).
      rewrite pre_pre. simpl flat_map. unfold F1. rewrite <- foldF_app_list. reflexivity.
  Qed.

  Lemma stack_kids st i ks :
    (st ++ [(i, true)]) ++ map (fun c : Z => (c, false)) (rev (map t_id ks)) =
    (st ++ [(i, true)]) ++ map (fun k => (t_id k, false)) (rev ks).
  Proof. rewrite <- map_rev, map_map. reflexivity. Qed.

  Lemma all_block_ok : forall s, block_ok s.
  Proof.
    induction s as [i x l e ks IH] using tree_ind'. intros Hroot F st n HF Hs.
    rewrite ids_T in Hroot.
    replace (2 * size (T i x l e ks) + n)%nat with (S (2 * sizes ks + S n))%nat by (rewrite size_eq; lia).
    simpl t_id. rewrite run_false.
    pose proof (findF_self F _ HF Hs) as Fi. simpl t_id in Fi. rewrite Fi. simpl t_kids. rewrite stack_kids.
    assert (HNs : NoDup (ids (T i x l e ks))).
    { unfold preF in Hs. apply in_flat_map in Hs. destruct Hs as [t [Ht Hs]].
      exact (NoDup_ids_sub t _ (NoDup_idsF_kid _ _ HF Ht) Hs). }
    destruct (NoDup_ids_kids _ _ _ _ _ HNs) as [Hk Hi].
    rewrite (kids_ok ks IH (fun H => Hroot (or_intror H)) F (st ++ [(i, true)]) (S n) HF).
    - rewrite run_true, pre_pre, post_ids_T. f_equal.
      rewrite Hb by (intro E; apply Hroot; left; exact E).
      rewrite foldF_app_list. reflexivity.
    - intros k Hkk. unfold preF in *. apply in_flat_map in Hs. destruct Hs as [t [Ht Hs]].
      apply in_flat_map. exists t. split; [exact Ht|].
      apply (preorder_trans t (T i x l e ks) k Hs). apply kid_in_preorder. exact Hkk.
    - exact Hk.
  Qed.

  (* the whole loop, started as the library starts it: stack = [(seed, False)] *)
  Theorem lazy_loop_is_list_loop t : t_id t = root -> NoDup (ids t) ->
    lazy_run body (2 * size t + 1) [t] [(t_id t, false)] =
    Some (body (foldF f (flat_map post_ids (t_kids t)) [t]) root, post_ids t).
  Proof.
    intros Er Hnd. destruct t as [i x l e ks]. simpl t_id in *. rewrite <- Er. simpl t_kids.
    destruct (NoDup_ids_kids _ _ _ _ _ Hnd) as [Hk Hi].
    assert (HF : NoDup (idsF [T i x l e ks])) by (rewrite idsF_single; exact Hnd).
    replace (2 * size (T i x l e ks) + 1)%nat with (S (2 * sizes ks + 2))%nat by (rewrite size_eq; lia).
    change [(i, false)] with ([] ++ [(i, false)]). rewrite run_false.
    assert (Fi : findF i [T i x l e ks] = Some (T i x l e ks)).
    { apply (findF_self [T i x l e ks] (T i x l e ks) HF). unfold preF. rewrite flat_map_single. apply preorder_self. }
    rewrite Fi. simpl t_kids. rewrite stack_kids.
    rewrite (kids_ok ks).
    - change (2%nat) with (S 1). rewrite run_true, pre_pre. cbn [lazy_run].
      unfold Node_postorder_iter_step. cbn [py_is_empty negb fold_left pre]. rewrite post_ids_T, app_nil_r. reflexivity.
    - apply Forall_forall. intros k _. apply all_block_ok.
    - rewrite <- Er. exact Hi.
    - exact HF.
    - intros k Hkk. unfold preF. rewrite flat_map_single. apply kid_in_preorder. exact Hkk.
    - exact Hk.
  Qed.
End Machine.

(* ---- the two mutating loops of the anchored code ---- *)

Lemma su_nodup_pres : nodup_pres su_f.
Proof.
  intros n Hnd. unfold su_f. destruct n as [i x l e ks]. simpl t_kids.
  destruct ks as [|c [|c2 r]]; rewrite idsF_single; try exact Hnd.
  rewrite ids_set_len. destruct (NoDup_ids_kids _ _ _ _ _ Hnd) as [Hk _]. rewrite idsF_single in Hk. exact Hk.
Qed.

Lemma p1_nodup_pres lf intn taxa : nodup_pres (p1_f lf intn taxa).
Proof.
  intros n Hnd. unfold p1_f. destruct (p1_cond lf intn taxa n); [constructor | rewrite idsF_single; exact Hnd].
Qed.

Lemma su_body_upd F a : su_body F a = updF su_f a F.
Proof.
  destruct F as [|t [|t2 r]]; try reflexivity. unfold su_body, updF. rewrite flat_map_single.
  pose proof (fst_su_fold [a] (t, [])) as E. cbn [fold_left fst] in E. rewrite E.
  destruct t as [i x l e ks]. rewrite upd_T. unfold sut. simpl t_id.
  destruct (Z.eqb i a); [rewrite su_f_root; reflexivity | reflexivity].
Qed.

Theorem lazy_suppress_unifurcations_loop t : NoDup (ids t) ->
  lazy_run su_body (2 * size t + 1) [t] [(t_id t, false)] = Some ([fst (su_run t)], post_ids t).
Proof.
  intro Hnd.
  rewrite (lazy_loop_is_list_loop su_f su_body (t_id t) su_shrink su_nodup_pres (fun F a _ => su_body_upd F a) t eq_refl Hnd).
  f_equal. f_equal. unfold su_run. rewrite fst_su_fold. simpl fst.
  destruct t as [i x l e ks]. destruct (NoDup_ids_kids _ _ _ _ _ Hnd) as [Hk Hi]. simpl t_kids. simpl t_id.
  rewrite post_ids_T, fold_left_app.
  rewrite (sut_fold_below (flat_map post_ids ks) (T i x l e ks)); [|simpl; intro H; apply postF_in in H; exact (Hi H)].
  rewrite foldF_root; [|intro H; apply postF_in in H; exact (Hi H)].
  unfold su_body. pose proof (fst_su_fold [i] (T i x l e (foldF su_f (flat_map post_ids ks) ks), [])) as E.
  cbn [fold_left fst] in E. rewrite E. reflexivity.
Qed.

(* Tree.prune_taxa, first loop: the step at the seed never changes the tree (it either raises or
   does nothing), below the seed it is `upd p1_f` *)
Theorem lazy_prune_taxa_loop lf intn taxa t : NoDup (ids t) ->
  lazy_run (p1_body lf intn taxa (t_id t)) (2 * size t + 1) [t] [(t_id t, false)] =
  Some ([ires_tree (prune_phase1 lf intn taxa t) t], post_ids t).
Proof.
  intro Hnd.
  rewrite (lazy_loop_is_list_loop (p1_f lf intn taxa) _ (t_id t) (p1_shrink lf intn taxa) (p1_nodup_pres lf intn taxa)).
  - unfold p1_body. rewrite Z.eqb_refl. f_equal. f_equal. rewrite (phase1_eq lf intn taxa t Hnd). cbv zeta.
    destruct t as [i x l e ks]. destruct (NoDup_ids_kids _ _ _ _ _ Hnd) as [Hk Hi]. simpl t_kids.
    rewrite foldF_root; [|intro H; apply postF_in in H; exact (Hi H)].
    rewrite (post_fold_kids _ (p1_shrink lf intn taxa) ks Hk). simpl set_kids.
    destruct (p1_cond lf intn taxa (T i x l e (flat_map (recf (p1_f lf intn taxa)) ks))); reflexivity.
  - intros F a Ha. unfold p1_body. destruct (Z.eqb_spec a (t_id t)); [contradiction | reflexivity].
  - reflexivity.
  - exact Hnd.
Qed.
