(* C03 proofs: the Node/Edge-level primitives keep well-formedness (rep-level triples). *)
From Coq Require Import ZArith List Bool Lia Permutation.
From DV Require Import Model.PyPrims Model.Tree Model.Heap Proofs.C03Base Proofs.C03Abs Proofs.C03Local.
Import ListNotations.
Open Scope Z_scope.

Ltac eqb_neq a b := replace (Z.eqb a b) with false by (symmetry; apply Z.eqb_neq; auto; congruence).

Lemma eqb_neq_l a b : a <> b -> Z.eqb a b = false.
Proof. apply Z.eqb_neq. Qed.
Lemma eqb_neq_r a b : a <> b -> Z.eqb b a = false.
Proof. intro. apply Z.eqb_neq. auto. Qed.

(* ---------- remove_child (plain) ---------- *)

Definition pres (h h' : heap) : Prop :=
  next h' = next h /\ rooted h' = rooted h /\ seed h' = seed h.

Lemma pres_refl h : pres h h.
Proof. repeat split. Qed.
Lemma pres_trans a b c : pres a b -> pres b c -> pres a c.
Proof. intros [A1 [A2 A3]] [B1 [B2 B3]]. repeat split; congruence. Qed.

Lemma WFt_of_Wr h h' t t' : WFt h t -> Wr h' t' -> t_id t' = t_id t -> seed h' = seed h -> WFt h' t'.
Proof. intros [_ S] W E Es. split; [exact W|congruence]. Qed.

Lemma remove_child_plain_wf h c p x l e lft tc rgt :
  Wr h (plug c (T p x l e (lft ++ tc :: rgt))) ->
  exists h', remove_child_plain p (t_id tc) h = HOk h' /\
    Wr h' (plug c (T p x l e (lft ++ rgt))) /\
    rep h' None tc /\
    same_off [p; t_id tc] h h' /\ grows h h' /\ pres h h'.
Proof.
  destruct tc as [ci xc lc ec kc]. set (tc := T ci xc lc ec kc). simpl t_id.
  intro W. pose proof W as [R [N B]].
  apply rep_plug in R. destruct R as [Rc Rs]. apply nodup_plug in N. destruct N as [N1 [N2 N3]].
  pose proof (focus_facts _ _ _ _ _ _ _ N1) as F.
  pose proof Rs as Rs0. apply rep_eq in Rs. destruct Rs as [Hp [Gp Fk]].
  rewrite map_app in Gp. simpl in Gp.
  apply Forall_app in Fk. destruct Fk as [Fl Fr]. inversion Fr as [|? ? Rtc Fr']; subst.
  assert (Dcp : ci <> p). { intro E. apply (fn_p_tc _ _ _ _ F). rewrite <- E. apply (ids_root tc). }
  assert (Kp : kids h p = map t_id lft ++ ci :: map t_id rgt) by (unfold kids; rewrite Gp; reflexivity).
  assert (Ncl : ~ In ci (map t_id lft)).
  { apply notin_map_of_flat. apply (fn_tc_lft _ _ _ _ F). apply (ids_root tc). }
  unfold remove_child_plain. rewrite Kp.
  replace (memz ci (map t_id lft ++ ci :: map t_id rgt)) with true
    by (symmetry; apply memz_In, in_app_iff; right; left; reflexivity).
  eexists. split; [reflexivity|].
  set (h1 := set_parent ci None h).
  assert (Kp1 : kids h1 p = map t_id lft ++ ci :: map t_id rgt).
  { unfold kids, h1. rewrite get_set_parent, (eqb_neq_r _ _ Dcp). exact (f_equal c_kids Gp). }
  rewrite Kp1, remove_first_app_notin by exact Ncl.
  set (h' := set_kids p (map t_id lft ++ map t_id rgt) h1).
  assert (SO : same_off [p; ci] h h') by (unfold h', h1, set_kids, set_parent; frame_solve).
  assert (GR : grows h h') by (unfold h', h1, set_kids, set_parent; frame_solve).
  split; [|split; [|split; [exact SO|split; [exact GR|repeat split]]]].
  - eapply (local_update_incl_r [p; ci]); eauto.
    + intros j [<-|[<-|[]]].
      * apply (ids_root (T p x l e (lft ++ tc :: rgt))).
      * rewrite ids_focus. right. apply in_app_iff. right. apply in_app_iff. left. apply (ids_root tc).
    + apply rep_eq. split; [|split].
      * apply GR. exact Hp.
      * unfold h'. rewrite get_set_kids, Z.eqb_refl. unfold h1, parent, elen, taxon, label.
        rewrite !get_set_parent, !(eqb_neq_r _ _ Dcp), Gp, map_app. reflexivity.
      * apply Forall_app. split; eapply Forall_rep_frame_off; eauto.
        -- intros j Hj [<-|[<-|[]]]; [apply (fn_p_lft _ _ _ _ F Hj)|].
           eapply (fn_tc_lft _ _ _ _ F); [apply (ids_root tc)|exact Hj].
        -- intros j Hj [<-|[<-|[]]]; [apply (fn_p_rgt _ _ _ _ F Hj)|].
           eapply (fn_tc_rgt _ _ _ _ F); [apply (ids_root tc)|exact Hj].
    + rewrite ids_eq, flat_map_app. constructor.
      * rewrite in_app_iff. intros [H|H]; [apply (fn_p_lft _ _ _ _ F H)|apply (fn_p_rgt _ _ _ _ F H)].
      * apply NoDup_app_iff. split; [apply (fn_lft _ _ _ _ F)|split; [apply (fn_rgt _ _ _ _ F)|]].
        intros j H1 H2. eapply (fn_lft_rgt _ _ _ _ F); eauto.
    + intros j Hj. rewrite (ids_eq p x l e (lft ++ rgt)) in Hj. rewrite ids_focus.
      destruct Hj as [Hj|Hj]; [left; exact Hj|right]. rewrite flat_map_app in Hj. rewrite !in_app_iff in *. tauto.
  - apply rep_eq in Rtc. destruct Rtc as [Hc [Gc Fc]].
    pose proof (nodup_root _ _ _ _ _ (fn_tc _ _ _ _ F)) as [Nc1 Nc2].
    apply rep_eq. split; [|split].
    + apply GR. exact Hc.
    + unfold h'. rewrite get_set_kids, (eqb_neq_l _ _ Dcp). unfold h1. rewrite get_set_parent, Z.eqb_refl.
      unfold kids, elen, taxon, label. rewrite Gc. reflexivity.
    + eapply Forall_rep_frame_off; eauto.
      intros j Hj [<-|[<-|[]]]; [|exact (Nc1 Hj)].
      apply (fn_p_tc _ _ _ _ F). unfold tc. rewrite ids_eq. right. exact Hj.
Qed.

(* ---------- rewriting the cell of a focused node ---------- *)

Lemma wr_focus_notin h c s : Wr h (plug c s) -> forall j, In j (ids s) -> ~ In j (cids c).
Proof. intros [_ [N _]] j Hj Hc. apply nodup_plug in N. destruct N as [_ [_ D]]. eapply D; eauto. Qed.

Lemma focus_update_r S h h' c p x l e ks x' l' e' ks' :
  Wr h (plug c (T p x l e ks)) ->
  same_off S h h' -> grows h h' ->
  (forall j, In j S -> ~ In j (cids c)) ->
  get h' p = mkCell (cpar c None) (map t_id ks') e' x' l' ->
  Forall (rep h' (Some p)) ks' ->
  NoDup (flat_map ids ks') -> ~ In p (flat_map ids ks') ->
  (forall j, In j (flat_map ids ks') -> ~ In j (cids c)) ->
  (forall j, In j (flat_map ids ks') -> j < next h') ->
  Wr h' (plug c (T p x' l' e' ks')).
Proof.
  intros W A G D Gp Fk N Np Dk Bk.
  pose proof (wr_focus_notin _ _ _ W) as Dp.
  pose proof W as [R [_ B]]. apply rep_plug in R. destruct R as [_ Rs]. apply rep_eq in Rs. destruct Rs as [Hp _].
  eapply (local_update_r S); eauto.
  - apply rep_eq. split; [apply G; exact Hp|split; [exact Gp|exact Fk]].
  - rewrite ids_eq. constructor; assumption.
  - intros j Hj. rewrite ids_eq in Hj. destruct Hj as [<-|Hj]; [|auto].
    apply Dp. apply (ids_root (T p x l e ks)).
  - intros j Hj. rewrite ids_eq in Hj. destruct Hj as [<-|Hj]; [|auto].
    destruct G as [_ G]. assert (p < next h); [|lia]. apply B, in_plug. left. apply (ids_root (T p x l e ks)).
Qed.

Lemma wr_focus h c p x l e ks :
  Wr h (plug c (T p x l e ks)) ->
  has h p = true /\ get h p = mkCell (cpar c None) (map t_id ks) e x l /\ Forall (rep h (Some p)) ks /\
  NoDup (flat_map ids ks) /\ ~ In p (flat_map ids ks) /\ ~ In p (cids c) /\
  (forall j, In j (flat_map ids ks) -> ~ In j (cids c)) /\
  (forall j, In j (flat_map ids ks) -> j < next h) /\ p < next h.
Proof.
  intro W. pose proof (wr_focus_notin _ _ _ W) as Dp. destruct W as [R [N B]].
  apply rep_plug in R. destruct R as [_ Rs]. apply rep_eq in Rs. destruct Rs as [Hp [Gp Fk]].
  apply nodup_plug in N. destruct N as [N1 _]. apply nodup_root in N1. destruct N1 as [N1 N2].
  repeat split; auto.
  - apply Dp. apply (ids_root (T p x l e ks)).
  - intros j Hj. apply Dp. rewrite ids_eq. right. exact Hj.
  - intros j Hj. apply B, in_plug. left. rewrite ids_eq. right. exact Hj.
  - apply B, in_plug. left. apply (ids_root (T p x l e ks)).
Qed.

(* ---------- field updates ---------- *)

Lemma set_elen_wf h c p x l e ks v :
  Wr h (plug c (T p x l e ks)) -> Wr (set_elen p v h) (plug c (T p x l v ks)).
Proof.
  intro W. destruct (wr_focus _ _ _ _ _ _ _ W) as [Hp [Gp [Fk [N1 [N2 [N3 [N4 [N5 N6]]]]]]]].
  assert (A : same_off [p] h (set_elen p v h)) by (unfold set_elen; frame_solve).
  assert (G : grows h (set_elen p v h)) by (unfold set_elen; frame_solve).
  apply (focus_update_r [p] h _ c p x l e ks x l v ks W A G); auto.
  - intros j [<-|[]]. exact N3.
  - rewrite get_set_elen, Z.eqb_refl. unfold parent, kids, taxon, label. rewrite Gp. reflexivity.
  - eapply Forall_rep_frame_off; eauto. intros j Hj [<-|[]]. exact (N2 Hj).
Qed.

Lemma set_taxon_wf h c p x l e ks v :
  Wr h (plug c (T p x l e ks)) -> Wr (set_taxon p v h) (plug c (T p v l e ks)).
Proof.
  intro W. destruct (wr_focus _ _ _ _ _ _ _ W) as [Hp [Gp [Fk [N1 [N2 [N3 [N4 [N5 N6]]]]]]]].
  assert (A : same_off [p] h (set_taxon p v h)) by (unfold set_taxon; frame_solve).
  assert (G : grows h (set_taxon p v h)) by (unfold set_taxon; frame_solve).
  apply (focus_update_r [p] h _ c p x l e ks v l e ks W A G); auto.
  - intros j [<-|[]]. exact N3.
  - rewrite get_set_taxon, Z.eqb_refl. unfold parent, kids, elen, label. rewrite Gp. reflexivity.
  - eapply Forall_rep_frame_off; eauto. intros j Hj [<-|[]]. exact (N2 Hj).
Qed.

Lemma rep_reparent h h' par0 par' tc :
  rep h par0 tc -> NoDup (ids tc) ->
  (forall j, has h j = true -> has h' j = true) ->
  get h' (t_id tc) =
    mkCell par' (kids h (t_id tc)) (elen h (t_id tc)) (taxon h (t_id tc)) (label h (t_id tc)) ->
  (forall j, In j (ids tc) -> j <> t_id tc -> get h' j = get h j) ->
  rep h' par' tc.
Proof.
  destruct tc as [ci xc lc ec kc]. simpl t_id. intros R N G Gc Fr.
  apply nodup_root in N. destruct N as [N1 N2].
  apply rep_eq in R. destruct R as [Hc [Gc0 Fc]]. apply rep_eq. split; [auto|split].
  - rewrite Gc. unfold kids, elen, taxon, label. rewrite Gc0. reflexivity.
  - rewrite Forall_forall in *. intros k Hk. apply rep_frame with (h := h); auto.
    intros j Hj. apply Fr.
    + rewrite ids_eq. right. eapply flat_ids_in; eauto.
    + intro E. subst. apply N1. eapply flat_ids_in; eauto.
Qed.

(* ---------- attaching a detached component ---------- *)

Lemma insert_child_frame p n ci h :
  same_off [p; ci] h (insert_child p n ci h) /\ grows h (insert_child p n ci h) /\ pres h (insert_child p n ci h).
Proof.
  unfold insert_child.
  destruct (index_of ci (kids (set_parent ci (Some p) h) p)) as [cur|].
  - destruct (Nat.eqb cur n); unfold set_kids, set_parent; repeat split; frame_solve.
  - unfold set_kids, set_parent; repeat split; frame_solve.
Qed.

Lemma insert_at_map n (ci : Z) (ks : list tree) (tc : tree) :
  t_id tc = ci ->
  insert_at n ci (map t_id ks) = map t_id (firstn n ks ++ tc :: skipn n ks).
Proof.
  intro E. unfold insert_at. rewrite map_app. simpl. rewrite E, firstn_map, skipn_map. reflexivity.
Qed.

Lemma firstn_skipn_flat n (ks : list tree) j :
  In j (flat_map ids (firstn n ks)) \/ In j (flat_map ids (skipn n ks)) <-> In j (flat_map ids ks).
Proof.
  rewrite <- in_app_iff, <- flat_map_app, firstn_skipn. reflexivity.
Qed.

(* the component tc (any stale parent pointer par0) becomes the n-th child of the live node p *)
Lemma insert_child_attach h c p x l e ks n par0 tc :
  Wr h (plug c (T p x l e ks)) ->
  rep h par0 tc -> NoDup (ids tc) ->
  (forall j, In j (ids tc) -> ~ In j (ids (plug c (T p x l e ks)))) ->
  (forall j, In j (ids tc) -> j < next h) ->
  Wr (insert_child p n (t_id tc) h) (plug c (T p x l e (firstn n ks ++ tc :: skipn n ks))).
Proof.
  intros W Rt Nt Dt Bt.
  destruct (wr_focus _ _ _ _ _ _ _ W) as [Hp [Gp [Fk [N1 [N2 [N3 [N4 [N5 N6]]]]]]]].
  destruct tc as [ci xc lc ec kc]. remember (T ci xc lc ec kc) as tc eqn:Etc.
  assert (Eid : t_id tc = ci) by (subst; reflexivity). rewrite Eid.
  assert (Hroot : In ci (ids tc)) by (rewrite <- Eid; apply ids_root).
  assert (Dcp : ci <> p).
  { intro E. apply (Dt ci Hroot). apply in_plug. left. rewrite E. apply (ids_root (T p x l e ks)). }
  assert (Dck : ~ In ci (flat_map ids ks)).
  { intro H. apply (Dt ci Hroot). apply in_plug. left. rewrite ids_eq. right. exact H. }
  assert (Kp : kids h p = map t_id ks) by (unfold kids; rewrite Gp; reflexivity).
  destruct (insert_child_frame p n ci h) as [A [G _]].
  unfold insert_child in *. set (h1 := set_parent ci (Some p) h) in *.
  assert (Kp1 : kids h1 p = map t_id ks).
  { unfold kids, h1. rewrite get_set_parent, (eqb_neq_r _ _ Dcp). exact (f_equal c_kids Gp). }
  rewrite Kp1 in *. rewrite index_of_notin in * by (apply notin_map_of_flat; exact Dck).
  rewrite (insert_at_map n ci ks tc Eid) in *.
  set (ks' := firstn n ks ++ tc :: skipn n ks) in *.
  assert (Ik : forall j, In j (flat_map ids ks') <-> In j (ids tc) \/ In j (flat_map ids ks)).
  { intro j. unfold ks'. rewrite flat_map_app. simpl. rewrite !in_app_iff, <- (firstn_skipn_flat n ks j). tauto. }
  apply (focus_update_r [p; ci] h _ c p x l e ks x l e ks' W A G).
  - intros j [<-|[<-|[]]]; [exact N3|]. intro H. apply (Dt ci Hroot). apply in_plug. right. exact H.
  - rewrite get_set_kids, Z.eqb_refl. unfold h1, parent, elen, taxon, label.
    rewrite !get_set_parent, !(eqb_neq_r _ _ Dcp), Gp. reflexivity.
  - unfold ks'. apply Forall_app. split; [|constructor].
    + apply (Forall_rep_frame_off [p; ci] h _ (Some p) (firstn n ks) A G).
      * intros j Hj [<-|[<-|[]]]; [apply N2|apply Dck]; apply (firstn_skipn_flat n ks); left; exact Hj.
      * rewrite Forall_forall in *. intros k Hk. apply Fk. rewrite <- (firstn_skipn n ks). apply in_app_iff. left. exact Hk.
    + apply (rep_reparent h _ par0 (Some p) tc Rt Nt (proj1 G)).
      * rewrite Eid, get_set_kids, (eqb_neq_l _ _ Dcp). unfold h1. rewrite get_set_parent, Z.eqb_refl. reflexivity.
      * rewrite Eid. intros j Hj Dj. apply A. intros [<-|[<-|[]]]; [|congruence].
        apply (Dt p Hj). apply in_plug. left. apply (ids_root (T p x l e ks)).
    + apply (Forall_rep_frame_off [p; ci] h _ (Some p) (skipn n ks) A G).
      * intros j Hj [<-|[<-|[]]]; [apply N2|apply Dck]; apply (firstn_skipn_flat n ks); right; exact Hj.
      * rewrite Forall_forall in *. intros k Hk. apply Fk. rewrite <- (firstn_skipn n ks). apply in_app_iff. right. exact Hk.
  - unfold ks'. rewrite flat_map_app. simpl. rewrite <- (firstn_skipn n ks), flat_map_app in N1.
    apply NoDup_app_iff in N1. destruct N1 as [Na [Nb Dab]].
    apply NoDup_app_iff. split; [exact Na|split].
    + apply NoDup_app_iff. split; [exact Nt|split; [exact Nb|]].
      intros j H1 H2. apply (Dt j H1). apply in_plug. left. rewrite ids_eq. right.
      apply (firstn_skipn_flat n ks). right. exact H2.
    + intros j H1 H2. apply in_app_iff in H2. destruct H2 as [H2|H2]; [|eapply Dab; eauto].
      apply (Dt j H2). apply in_plug. left. rewrite ids_eq. right. apply (firstn_skipn_flat n ks). left. exact H1.
  - intro H. apply Ik in H. destruct H as [H|H]; [|exact (N2 H)].
    apply (Dt p H). apply in_plug. left. apply (ids_root (T p x l e ks)).
  - intros j Hj. apply Ik in Hj. destruct Hj as [Hj|Hj]; [|exact (N4 j Hj)].
    intro H. apply (Dt j Hj). apply in_plug. right. exact H.
  - intros j Hj. apply Ik in Hj. destruct G as [_ G]. destruct Hj as [Hj|Hj]; [specialize (Bt j Hj)|specialize (N5 j Hj)]; lia.
Qed.

Lemma add_child_is_insert p ci h :
  ci <> p -> parent h p <> Some ci -> ~ In ci (kids h p) ->
  add_child p ci h = HOk (insert_child p (length (kids h p)) ci h).
Proof.
  intros D1 D2 D3. unfold add_child, insert_child.
  rewrite (eqb_neq_l _ _ D1).
  replace (oz_eqb (parent h p) (Some ci)) with false.
  2:{ symmetry. destruct (oz_eqb (parent h p) (Some ci)) eqn:E; [|reflexivity]. apply oz_eqb_eq in E. contradiction. }
  assert (K : kids (set_parent ci (Some p) h) p = kids h p).
  { unfold kids. rewrite get_set_parent, (eqb_neq_r _ _ D1). reflexivity. }
  rewrite K. replace (memz ci (kids h p)) with false by (symmetry; apply memz_false; exact D3).
  rewrite index_of_notin by exact D3. rewrite insert_at_beyond by lia. reflexivity.
Qed.

Lemma add_child_attach h c p x l e ks par0 tc :
  Wr h (plug c (T p x l e ks)) ->
  rep h par0 tc -> NoDup (ids tc) ->
  (forall j, In j (ids tc) -> ~ In j (ids (plug c (T p x l e ks)))) ->
  (forall j, In j (ids tc) -> j < next h) ->
  exists h', add_child p (t_id tc) h = HOk h' /\ Wr h' (plug c (T p x l e (ks ++ [tc]))) /\
             same_off [p; t_id tc] h h' /\ grows h h' /\ pres h h'.
Proof.
  intros W Rt Nt Dt Bt.
  destruct (wr_focus _ _ _ _ _ _ _ W) as [Hp [Gp [Fk [N1 [N2 [N3 [N4 [N5 N6]]]]]]]].
  assert (Kp : kids h p = map t_id ks) by (unfold kids; rewrite Gp; reflexivity).
  assert (In1 : forall j, In j (ids (T p x l e ks)) -> In j (ids (plug c (T p x l e ks)))).
  { intros j Hj. apply in_plug. left. exact Hj. }
  rewrite add_child_is_insert.
  - replace (length (kids h p)) with (length ks) by (rewrite Kp, map_length; reflexivity).
    eexists. split; [reflexivity|]. destruct (insert_child_frame p (length ks) (t_id tc) h) as [A [G P]].
    split; [|auto].
    pose proof (insert_child_attach h c p x l e ks (length ks) par0 tc W Rt Nt Dt Bt) as W'.
    rewrite firstn_all, skipn_all in W'. exact W'.
  - intro E. apply (Dt _ (ids_root tc)). apply In1. rewrite E. apply (ids_root (T p x l e ks)).
  - unfold parent. rewrite Gp. simpl. intro E. apply (Dt _ (ids_root tc)). apply in_plug. right.
    destruct c as [|c' i ? ? ? lft rgt]; simpl in E; [discriminate|]. inversion E; subst. left. reflexivity.
  - rewrite Kp. intro H. apply (Dt _ (ids_root tc)). apply In1. rewrite ids_eq. right. apply map_id_in_flat. exact H.
Qed.

(* allocation leaves a well-formed tree alone and yields a detached single node *)
Lemma alloc_wf h t x l e :
  Wr h t -> Wr (alloc x l e h) t /\ rep (alloc x l e h) None (T (next h) x l e []) /\ ~ In (next h) (ids t).
Proof.
  intros [R [N B]].
  assert (Nn : ~ In (next h) (ids t)) by (intro H; specialize (B _ H); lia).
  assert (A : same_off [next h] h (alloc x l e h)) by frame_solve.
  assert (G : grows h (alloc x l e h)) by frame_solve.
  split; [split; [|split]|split].
  - eapply rep_frame_off; eauto. intros j Hj [<-|[]]. exact (Nn Hj).
  - exact N.
  - intros i Hi. specialize (B i Hi). simpl. lia.
  - apply rep_eq. split; [|split; [|constructor]].
    + rewrite has_alloc, Z.eqb_refl. reflexivity.
    + rewrite get_alloc, Z.eqb_refl. reflexivity.
  - exact Nn.
Qed.

Lemma new_child_wf h c p x l e ks xn ln en :
  Wr h (plug c (T p x l e ks)) ->
  exists h', new_child p xn ln en h = HOk h' /\
    Wr h' (plug c (T p x l e (ks ++ [T (next h) xn ln en []]))) /\
    next h' = next h + 1 /\ rooted h' = rooted h /\ seed h' = seed h.
Proof.
  intro W. destruct (alloc_wf h _ xn ln en W) as [W1 [R1 Nn]].
  unfold new_child.
  destruct (add_child_attach (alloc xn ln en h) c p x l e ks None (T (next h) xn ln en []) W1 R1)
    as [h' [E [W' [_ [_ [P1 [P2 P3]]]]]]].
  - rewrite ids_eq. simpl. constructor; [intros []|constructor].
  - intros j Hj. rewrite ids_eq in Hj. simpl in Hj. destruct Hj as [<-|[]]. exact Nn.
  - intros j Hj. rewrite ids_eq in Hj. simpl in Hj. destruct Hj as [<-|[]]. simpl. lia.
  - exists h'. split; [exact E|split; [exact W'|]]. rewrite P1, P2, P3. simpl. auto.
Qed.

Lemma insert_new_child_wf h c p x l e ks n xn ln en :
  Wr h (plug c (T p x l e ks)) ->
  let h' := insert_new_child p n xn ln en h in
  Wr h' (plug c (T p x l e (firstn n ks ++ T (next h) xn ln en [] :: skipn n ks))) /\
  next h' = next h + 1 /\ rooted h' = rooted h /\ seed h' = seed h.
Proof.
  intro W. destruct (alloc_wf h _ xn ln en W) as [W1 [R1 Nn]]. unfold insert_new_child.
  destruct (insert_child_frame p n (next h) (alloc xn ln en h)) as [_ [_ [P1 [P2 P3]]]].
  split; [|rewrite P1, P2, P3; simpl; auto].
  apply (insert_child_attach (alloc xn ln en h) c p x l e ks n None (T (next h) xn ln en []) W1 R1).
  - rewrite ids_eq. simpl. constructor; [intros []|constructor].
  - intros j Hj. rewrite ids_eq in Hj. simpl in Hj. destruct Hj as [<-|[]]. exact Nn.
  - intros j Hj. rewrite ids_eq in Hj. simpl in Hj. destruct Hj as [<-|[]]. simpl. lia.
Qed.
