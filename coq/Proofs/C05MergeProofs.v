(* C05, wave 6: the object-level merge (Model/C05Merge.v) refines C05Model.update, leaves the source
   observably unchanged and every other object untouched; merge = fresh collection *)
From Coq Require Import ZArith QArith Qabs Qreduction List Bool Lia.
From DV Require Import Model.PyPrims Gen.BitFns Gen.Consts Model.C05Model Model.C05Spec Model.C05Merge
     Proofs.C05Lists Proofs.C05Freq Proofs.C05Stats.
Import ListNotations.
Open Scope Z_scope.

(* ---------------------------------------------------------------- heap and tables *)
Lemma oid_eqb_spec a b : oid_eqb a b = true <-> a = b.
Proof.
  destruct a as [[a1 a2] a3], b as [[b1 b2] b3]. unfold oid_eqb. cbn [fst snd].
  rewrite !andb_true_iff, Nat.eqb_eq, Bool.eqb_true_iff, Z.eqb_eq. split.
  - intros [[-> ->] ->]. reflexivity.
  - intro H. inversion H. tauto.
Qed.

Lemma hupd_same hp id v : hupd hp id v id = v.
Proof. unfold hupd. now rewrite (proj2 (oid_eqb_spec id id) eq_refl). Qed.
Lemma hupd_other hp id v k : k <> id -> hupd hp id v k = hp k.
Proof. intro H. unfold hupd. destruct (oid_eqb k id) eqn:E; [apply oid_eqb_spec in E; contradiction | reflexivity]. Qed.

Lemma abs_tbl_ext hp hp' t : (forall i, In i (ids t) -> hp' i = hp i) -> abs_tbl hp' t = abs_tbl hp t.
Proof.
  intro H. induction t as [|[k i] r IH]; simpl; [reflexivity|].
  rewrite H by (now left). rewrite IH; [reflexivity|]. intros j I. apply H. now right.
Qed.

Lemma abs_tbl_app hp a b : abs_tbl hp (a ++ b) = abs_tbl hp a ++ abs_tbl hp b.
Proof. unfold abs_tbl. apply map_app. Qed.

Lemma aget_abs hp t k : aget k (abs_tbl hp t) = option_map hp (aget k t).
Proof. induction t as [|[k' i] r IH]; simpl; [reflexivity|]. destruct (Z.eqb k k'); [reflexivity | exact IH]. Qed.

Lemma aupd_absent {V} k (d : V) f l : aget k l = None -> aupd k d f l = l ++ [(k, f d)].
Proof.
  induction l as [|[k' v] r IH]; simpl; [reflexivity|].
  destruct (Z.eqb k k'); [discriminate | intro H; now rewrite IH].
Qed.

Lemma nodup_snoc {A} (l : list A) x : NoDup l -> ~ In x l -> NoDup (l ++ [x]).
Proof.
  induction l as [|y r IH]; intros ND NI; simpl; [constructor; [intros [] | constructor]|].
  inversion ND as [|? ? Hn Hr]. subst. constructor.
  - intro I. apply in_app_iff in I. destruct I as [I|[I|[]]]; [contradiction | subst; apply NI; now left].
  - apply IH; [exact Hr | intro I; apply NI; now right].
Qed.

(* every entry of the dict (me, b) holds the list it created itself; one entry per key *)
Definition own (me : nat) (b : bool) (t : otbl) : Prop :=
  NoDup (keys t) /\ Forall (fun kv => snd kv = (me, b, fst kv)) t.

Lemma own_nil me b : own me b [].
Proof. split; constructor. Qed.

Lemma own_ids me b t i : own me b t -> In i (ids t) -> exists k, i = (me, b, k) /\ In k (keys t).
Proof.
  intros [_ F] I. unfold ids in I. apply in_map_iff in I. destruct I as [[k j] [E I]]. simpl in E. subst j.
  rewrite Forall_forall in F. specialize (F _ I). simpl in F. exists k. split; [exact F|].
  unfold keys. apply in_map_iff. exists (k, i). split; [reflexivity | exact I].
Qed.

Lemma own_aget me b t k id : own me b t -> aget k t = Some id -> id = (me, b, k).
Proof.
  intros [_ F]. induction t as [|[k' j] r IH]; simpl; [discriminate|].
  inversion F as [|? ? H1 H2]. subst. destruct (Z.eqb k k') eqn:E.
  - intro H. inversion H. subst. apply Z.eqb_eq in E. subst. exact H1.
  - now apply IH.
Qed.

Lemma aget_none_keys {V} k (t : list (Z * V)) : aget k t = None -> ~ In k (keys t).
Proof.
  induction t as [|[k' v] r IH]; simpl; [tauto|]. destruct (Z.eqb k k') eqn:E; [discriminate|].
  intros H [J|J]; [subst; now rewrite Z.eqb_refl in E | now apply IH].
Qed.

(* writing the object (me, b, k) changes the table's abstraction at key k only *)
Lemma abs_write hp t me b k v : own me b t -> aget k t <> None ->
  abs_tbl (hupd hp (me, b, k) v) t = aupd k [] (fun _ => v) (abs_tbl hp t).
Proof.
  intros [ND F]. induction t as [|[k' j] r IH]; simpl; [congruence|]. intro A.
  inversion ND as [|? ? Hn Hr]. inversion F as [|? ? H1 H2]. subst. simpl in H1. subst j.
  destruct (Z.eqb k k') eqn:E.
  - apply Z.eqb_eq in E. subst k'. rewrite hupd_same. f_equal. apply abs_tbl_ext.
    intros i I. destruct (own_ids me b r i (conj Hr H2) I) as [k2 [-> I2]].
    apply hupd_other. intro X. inversion X. subst. contradiction.
  - rewrite hupd_other by (intro X; inversion X; subst; now rewrite Z.eqb_refl in E). f_equal. now apply IH.
Qed.

Lemma aupd_const_eq {V} k d (f g : V -> V) l : (forall v, aget k l = Some v -> f v = g v) -> (aget k l = None -> f d = g d) ->
  aupd k d f l = aupd k d g l.
Proof.
  induction l as [|[k' v] r IH]; simpl; intros H1 H2.
  - now rewrite H2.
  - destruct (Z.eqb k k'); [now rewrite H1 | rewrite IH; auto].
Qed.

(* d[k] += xs *)
Lemma extend_spec hp me b t k xs hp' t' :
  own me b t -> tbl_extend hp me b t k xs = (hp', t') ->
  abs_tbl hp' t' = aupd k [] (fun l => l ++ xs) (abs_tbl hp t)
  /\ own me b t'
  /\ (forall x, x <> (me, b, k) -> hp' x = hp x).
Proof.
  intros O E. unfold tbl_extend, tbl_touch in E. destruct (aget k t) as [id|] eqn:A.
  - inversion E. subst. clear E. pose proof (own_aget _ _ _ _ _ O A) as ->.
    split; [|split; [exact O | intros x H; now apply hupd_other]].
    rewrite (abs_write hp t' me b k _ O) by congruence.
    apply aupd_const_eq.
    + intros v G. rewrite aget_abs, A in G. simpl in G. now inversion G.
    + intro G. rewrite aget_abs, A in G. discriminate.
  - inversion E. subst. clear E. split; [|split].
    + rewrite abs_tbl_app. cbn [abs_tbl map fst snd]. rewrite !hupd_same.
      rewrite aupd_absent by (rewrite aget_abs, A; reflexivity). cbn [app]. f_equal.
      apply abs_tbl_ext. intros i I. destruct (own_ids me b t i O I) as [k2 [-> I2]].
      rewrite !hupd_other; [reflexivity | |]; intro X; inversion X; subst; now apply (aget_none_keys k t A).
    + destruct O as [ND F]. split.
      * unfold keys. rewrite map_app. simpl. apply nodup_snoc; [exact ND | now apply (aget_none_keys k t A)].
      * apply Forall_app. split; [exact F | constructor; [reflexivity | constructor]].
    + intros x H. rewrite !hupd_other by exact H. reflexivity.
Qed.

(* ---------------------------------------------------------------- sources: nothing observable changes *)
Definition tbl_equiv (T T' : list (Z * list (option Q))) : Prop :=
  exists extra, T' = T ++ extra /\ Forall (fun kv => snd kv = []) extra.

Lemma tbl_equiv_refl T : tbl_equiv T T.
Proof. exists []. rewrite app_nil_r. split; [reflexivity | constructor]. Qed.

Lemma tbl_equiv_trans A B C : tbl_equiv A B -> tbl_equiv B C -> tbl_equiv A C.
Proof.
  intros [e1 [E1 F1]] [e2 [E2 F2]]. exists (e1 ++ e2). subst. rewrite app_assoc. split; [reflexivity|].
  apply Forall_app. split; assumption.
Qed.

Lemma aget_app_l {V} k (a b : list (Z * V)) : aget k (a ++ b) = match aget k a with Some v => Some v | None => aget k b end.
Proof. induction a as [|[k' v] r IH]; simpl; [reflexivity|]. destruct (Z.eqb k k'); [reflexivity | exact IH]. Qed.

Lemma tbl_equiv_get T T' k : tbl_equiv T T' -> aget_d k [] T' = aget_d k [] T.
Proof.
  intros [e [-> F]]. unfold aget_d. rewrite aget_app_l. destruct (aget k T); [reflexivity|].
  induction e as [|[k' v] r IH]; simpl; [reflexivity|]. inversion F as [|? ? Hv Hr]. subst. simpl in Hv.
  destruct (Z.eqb k k'); [now subst | now apply IH].
Qed.

Lemma calc_summaries_app a b : calc_summaries (a ++ b) = calc_summaries a ++ calc_summaries b.
Proof.
  induction a as [|[s l] r IH]; simpl; [reflexivity|].
  destruct l as [|x l']; [exact IH|]. destruct (all_some (x :: l')) as [xs|]; [|exact IH].
  destruct (summarize xs); try exact IH. simpl. now rewrite IH.
Qed.

Lemma tbl_equiv_summaries T T' : tbl_equiv T T' -> calc_summaries T' = calc_summaries T.
Proof.
  intros [e [-> F]]. rewrite calc_summaries_app.
  replace (calc_summaries e) with (@nil (Z * summary)); [now rewrite app_nil_r|].
  induction e as [|[k v] r IH]; [reflexivity|]. inversion F as [|? ? Hv Hr]. subst. simpl in Hv. subst v. simpl. now apply IH.
Qed.

(* reading d[k] of a defaultdict(list): nothing observable changes, a missing key appears with [] *)
Lemma touch_spec hp me b t k hp' t' id :
  own me b t -> tbl_touch hp me b t k = (hp', t', id) ->
  tbl_equiv (abs_tbl hp t) (abs_tbl hp' t')
  /\ hp' id = aget_d k [] (abs_tbl hp t)
  /\ own me b t'
  /\ (forall x, x <> (me, b, k) -> hp' x = hp x)
  /\ (forall x, In x (ids t) -> hp' x = hp x).
Proof.
  intros O E. unfold tbl_touch in E. destruct (aget k t) as [i|] eqn:A.
  - inversion E. subst. split; [apply tbl_equiv_refl|].
    split; [unfold aget_d; rewrite aget_abs, A; reflexivity|]. split; [exact O|]. split; reflexivity.
  - inversion E. subst. clear E.
    assert (Old : forall x, In x (ids t) -> hupd hp (me, b, k) [] x = hp x).
    { intros x I. destruct (own_ids me b t x O I) as [k2 [-> I2]]. apply hupd_other.
      intro X; inversion X; subst; now apply (aget_none_keys k t A). }
    split; [|split; [|split; [|split]]].
    + exists [(k, [])]. rewrite abs_tbl_app. cbn [abs_tbl map fst snd]. rewrite hupd_same. split; [|repeat constructor].
      f_equal. now apply abs_tbl_ext.
    + rewrite hupd_same. unfold aget_d. rewrite aget_abs, A. reflexivity.
    + destruct O as [ND F]. split.
      * unfold keys. rewrite map_app. simpl. apply nodup_snoc; [exact ND | now apply (aget_none_keys k t A)].
      * apply Forall_app. split; [exact F | constructor; [reflexivity | constructor]].
    + intros x H. now apply hupd_other.
    + exact Old.
Qed.

(* a write to (me, b, k) is invisible in every other dict *)
Lemma other_tbl hp hp' me b k me' b' t :
  (forall x, x <> (me, b, k) -> hp' x = hp x) -> own me' b' t -> (me', b') <> (me, b) ->
  abs_tbl hp' t = abs_tbl hp t.
Proof.
  intros H O NE. apply abs_tbl_ext. intros i I. destruct (own_ids me' b' t i O I) as [k2 [-> _]].
  apply H. intro X. inversion X. subst. now apply NE.
Qed.

(* ---------------------------------------------------------------- the update loop *)
Definition ustep (E A : list (Z * list (option Q)))
           (acc : list (Z * Q) * list (Z * list (option Q)) * list (Z * list (option Q))) (kv : Z * Q) :=
  let '(cnt, el, ag) := acc in
  let s := fst kv in
  (aupd s 0%Q (fun x => qplus x (snd kv)) cnt,
   aupd s [] (fun l => l ++ aget_d s [] E) el,
   aupd s [] (fun l => l ++ aget_d s [] A) ag).

Lemma ustep_ext E A E' A' kvs : (forall s, aget_d s [] E' = aget_d s [] E) -> (forall s, aget_d s [] A' = aget_d s [] A) ->
  forall acc, fold_left (ustep E' A') kvs acc = fold_left (ustep E A) kvs acc.
Proof.
  intros HE HA. induction kvs as [|kv r IH]; intro acc; simpl; [reflexivity|].
  rewrite IH. f_equal. destruct acc as [[cnt el] ag]. unfold ustep. now rewrite HE, HA.
Qed.

Theorem hupdate_keys_spec i j : i <> j -> forall kvs hp cnt de da oe oa hp' cnt' de' da' oe' oa',
  own i true de -> own i false da -> own j true oe -> own j false oa ->
  hupdate_keys i j kvs hp cnt de da oe oa = (hp', cnt', de', da', oe', oa') ->
  (cnt', abs_tbl hp' de', abs_tbl hp' da')
  = fold_left (ustep (abs_tbl hp oe) (abs_tbl hp oa)) kvs (cnt, abs_tbl hp de, abs_tbl hp da)
  /\ tbl_equiv (abs_tbl hp oe) (abs_tbl hp' oe') /\ tbl_equiv (abs_tbl hp oa) (abs_tbl hp' oa')
  /\ own i true de' /\ own i false da' /\ own j true oe' /\ own j false oa'
  /\ (forall x, fst (fst x) <> i -> fst (fst x) <> j -> hp' x = hp x).
Proof.
  intro NE. induction kvs as [|kv rest IH]; intros hp cnt de da oe oa hp' cnt' de' da' oe' oa' O1 O2 O3 O4 E.
  - simpl in E. inversion E. subst. simpl. repeat split; try apply tbl_equiv_refl; try assumption; try apply O1; try apply O2; try apply O3; try apply O4.
  - cbn [hupdate_keys] in E. set (s := fst kv) in *.
    destruct (tbl_touch hp j true oe s) as [[hp1 oe1] idr] eqn:T1.
    destruct (tbl_extend hp1 i true de s (hp1 idr)) as [hp2 de1] eqn:T2.
    destruct (tbl_touch hp2 j false oa s) as [[hp3 oa1] ida] eqn:T3.
    destruct (tbl_extend hp3 i false da s (hp3 ida)) as [hp4 da1] eqn:T4.
    destruct (touch_spec _ _ _ _ _ _ _ _ O3 T1) as [Q1 [V1 [O3' [F1 F1']]]].
    assert (NEij : forall b b' : bool, (i, b) <> (j, b')) by (intros b b' X; inversion X; contradiction).
    assert (NEji : forall b b' : bool, (j, b) <> (i, b')) by (intros b b' X; inversion X; subst; contradiction).
    assert (NEb : forall m : nat, (m, true) <> (m, false)) by (intros m X; inversion X).
    assert (NEb' : forall m : nat, (m, false) <> (m, true)) by (intros m X; inversion X).
    (* step 1 leaves de, da, oa *)
    assert (D1 : abs_tbl hp1 de = abs_tbl hp de) by (apply (other_tbl hp hp1 j true s i true de F1 O1), NEij).
    assert (A1 : abs_tbl hp1 da = abs_tbl hp da) by (apply (other_tbl hp hp1 j true s i false da F1 O2), NEij).
    assert (B1 : abs_tbl hp1 oa = abs_tbl hp oa) by (apply (other_tbl hp hp1 j true s j false oa F1 O4), NEb').
    destruct (extend_spec _ _ _ _ _ _ _ _ O1 T2) as [X2 [O1' F2]].
    assert (E2 : abs_tbl hp2 oe1 = abs_tbl hp1 oe1) by (apply (other_tbl hp1 hp2 i true s j true oe1 F2 O3'), NEji).
    assert (A2 : abs_tbl hp2 da = abs_tbl hp1 da) by (apply (other_tbl hp1 hp2 i true s i false da F2 O2), NEb').
    assert (B2 : abs_tbl hp2 oa = abs_tbl hp1 oa) by (apply (other_tbl hp1 hp2 i true s j false oa F2 O4), NEji).
    destruct (touch_spec _ _ _ _ _ _ _ _ O4 T3) as [Q3 [V3 [O4' [F3 F3']]]].
    assert (D3 : abs_tbl hp3 de1 = abs_tbl hp2 de1) by (apply (other_tbl hp2 hp3 j false s i true de1 F3 O1'), NEij).
    assert (E3 : abs_tbl hp3 oe1 = abs_tbl hp2 oe1) by (apply (other_tbl hp2 hp3 j false s j true oe1 F3 O3'), NEb).
    assert (A3 : abs_tbl hp3 da = abs_tbl hp2 da) by (apply (other_tbl hp2 hp3 j false s i false da F3 O2), NEij).
    destruct (extend_spec _ _ _ _ _ _ _ _ O2 T4) as [X4 [O2' F4]].
    assert (D4 : abs_tbl hp4 de1 = abs_tbl hp3 de1) by (apply (other_tbl hp3 hp4 i false s i true de1 F4 O1'), NEb).
    assert (E4 : abs_tbl hp4 oe1 = abs_tbl hp3 oe1) by (apply (other_tbl hp3 hp4 i false s j true oe1 F4 O3'), NEji).
    assert (B4 : abs_tbl hp4 oa1 = abs_tbl hp3 oa1) by (apply (other_tbl hp3 hp4 i false s j false oa1 F4 O4'), NEji).
    destruct (IH _ _ _ _ _ _ _ _ _ _ _ _ O1' O2' O3' O4' E) as [R1 [R2 [R3 [R4 [R5 [R6 [R7 R8]]]]]]].
    assert (Qoe : tbl_equiv (abs_tbl hp oe) (abs_tbl hp4 oe1)) by (rewrite E4, E3, E2; exact Q1).
    assert (Qoa : tbl_equiv (abs_tbl hp oa) (abs_tbl hp4 oa1)) by (rewrite B4, <- B1, <- B2; exact Q3).
    split; [|split; [|split; [|split; [exact R4 | split; [exact R5 | split; [exact R6 | split; [exact R7|]]]]]]].
    + rewrite R1. rewrite (ustep_ext (abs_tbl hp oe) (abs_tbl hp oa) (abs_tbl hp4 oe1) (abs_tbl hp4 oa1))
        by (intro k; now apply tbl_equiv_get).
      cbn [fold_left]. f_equal. unfold ustep. fold s. f_equal; [f_equal|].
      * rewrite D4, D3, X2, D1, V1. reflexivity.
      * rewrite X4, A3, A2, A1, V3, B2, B1. reflexivity.
    + eapply tbl_equiv_trans; [exact Qoe | exact R2].
    + eapply tbl_equiv_trans; [exact Qoa | exact R3].
    + intros x Hi Hj. rewrite (R8 x Hi Hj).
      assert (N1 : forall b, x <> (i, b, s)) by (intros b X; subst x; now apply Hi).
      assert (N2 : forall b, x <> (j, b, s)) by (intros b X; subst x; now apply Hj).
      rewrite (F4 x (N1 false)), (F3 x (N2 false)), (F2 x (N1 true)), (F1 x (N2 true)). reflexivity.
Qed.

(* ---------------------------------------------------------------- update: refinement, source, frame *)
Definition hsd_ok (d : hsd) : Prop := own (h_self d) true (h_elens d) /\ own (h_self d) false (h_nages d).

(* everything observable of a distribution that a merge must leave alone *)
Definition src_same (a b : sd) : Prop :=
  total b = total a /\ sum_w b = sum_w a /\ rootings b = rootings a /\ counts b = counts a /\
  freqs b = freqs a /\ counted_for_freqs b = counted_for_freqs a /\
  tbl_equiv (elens a) (elens b) /\ tbl_equiv (nages a) (nages b).

Lemma update_as_fold d o :
  update d o = let '(cnt, el, ag) := fold_left (ustep (elens o) (nages o)) (counts o) (counts d, elens d, nages d) in
               mkSd (total d + total o) (qplus (sum_w d) (sum_w o)) (union_rootings (rootings d) (rootings o))
                    cnt el ag (freqs d) (counted_for_freqs d).
Proof. reflexivity. Qed.

Theorem hupdate_refines hp d o hp' d' o' :
  h_self d <> h_self o -> hsd_ok d -> hsd_ok o ->
  hupdate hp d o = (hp', d', o') ->
  abs hp' d' = update (abs hp d) (abs hp o)
  /\ src_same (abs hp o) (abs hp' o')
  /\ hsd_ok d' /\ hsd_ok o' /\ h_self d' = h_self d /\ h_self o' = h_self o
  /\ (forall x, fst (fst x) <> h_self d -> fst (fst x) <> h_self o -> hp' x = hp x).
Proof.
  intros NE [Od1 Od2] [Oo1 Oo2] E. unfold hupdate in E.
  destruct (hupdate_keys (h_self d) (h_self o) (h_counts o) hp (h_counts d) (h_elens d) (h_nages d) (h_elens o) (h_nages o))
    as [[[[[hp1 cnt] de] da] oe] oa] eqn:K.
  inversion E. subst hp' d' o'. clear E.
  destruct (hupdate_keys_spec _ _ NE _ _ _ _ _ _ _ _ _ _ _ _ _ Od1 Od2 Oo1 Oo2 K) as [R1 [R2 [R3 [R4 [R5 [R6 [R7 R8]]]]]]].
  split; [|split; [|split; [|split; [|split; [|split]]]]]; try reflexivity; try (split; assumption); try exact R8.
  - rewrite update_as_fold. unfold abs.
    cbn [counts elens nages total sum_w rootings freqs counted_for_freqs h_total h_sumw h_rootings h_counts h_freqs h_counted_for h_elens h_nages].
    rewrite <- R1. reflexivity.
  - unfold src_same, abs. cbn [counts elens nages total sum_w rootings freqs counted_for_freqs h_total h_sumw h_rootings h_counts h_freqs h_counted_for h_elens h_nages].
    repeat split; try reflexivity; assumption.
Qed.

(* the observable consequences of src_same: frequencies and both summary tables are literally equal *)
Theorem src_same_observables a b : src_same a b ->
  get_freqs b = (let '(d, t) := get_freqs a in
                 (mkSd (total d) (sum_w d) (rootings d) (counts d) (elens b) (nages b) (freqs d) (counted_for_freqs d), t))
  /\ snd (get_freqs b) = snd (get_freqs a)
  /\ calc_summaries (elens b) = calc_summaries (elens a)
  /\ calc_summaries (nages b) = calc_summaries (nages a)
  /\ (forall s, aget_d s [] (elens b) = aget_d s [] (elens a))
  /\ (forall s, aget_d s [] (nages b) = aget_d s [] (nages a)).
Proof.
  intros [H1 [H2 [H3 [H4 [H5 [H6 [H7 H8]]]]]]].
  assert (G : get_freqs b = (let '(d, t) := get_freqs a in
                 (mkSd (total d) (sum_w d) (rootings d) (counts d) (elens b) (nages b) (freqs d) (counted_for_freqs d), t))).
  { destruct b as [bt bw br bc be ba bf bcf]. cbn [total sum_w rootings counts freqs counted_for_freqs elens nages] in *. subst.
    unfold get_freqs, calc_freqs, freq_table, normalization_weight.
    cbn [total sum_w rootings counts freqs counted_for_freqs elens nages].
    destruct (freqs a) as [tbl|] eqn:Fa; [destruct (negb (counted_for_freqs a =? total a))|]; cbn; try reflexivity.
    now rewrite Fa. }
  split; [exact G|]. split; [rewrite G; destruct (get_freqs a); reflexivity|].
  split; [now apply tbl_equiv_summaries|]. split; [now apply tbl_equiv_summaries|].
  split; intro s; now apply tbl_equiv_get.
Qed.

(* ---------------------------------------------------------------- count_splits_on_tree *)
Lemma hcount_recs_spec c me w : forall rs hp cnt el ag hp' cnt' el' ag',
  own me true el -> own me false ag ->
  hcount_recs c me w rs hp cnt el ag = (hp', cnt', el', ag') ->
  (cnt', abs_tbl hp' el', abs_tbl hp' ag') = count_recs c w rs cnt (abs_tbl hp el) (abs_tbl hp ag)
  /\ own me true el' /\ own me false ag'
  /\ (forall x, fst (fst x) <> me -> hp' x = hp x).
Proof.
  induction rs as [|r rest IH]; intros hp cnt el ag hp' cnt' el' ag' O1 O2 E.
  - simpl in E. inversion E. subst. simpl. repeat split; try apply O1; try apply O2.
  - cbn [hcount_recs count_recs] in E |- *.
    destruct (if ignore_len c then (hp, el) else tbl_extend hp me true el (r_split r) [rec_len c r]) as [hp1 el1] eqn:T1.
    destruct (if ignore_ages c then (hp1, ag) else tbl_extend hp1 me false ag (r_split r) [r_age r]) as [hp2 ag1] eqn:T2.
    assert (S1 : abs_tbl hp1 el1 = (if ignore_len c then abs_tbl hp el
                                    else aupd (r_split r) [] (fun l => l ++ [rec_len c r]) (abs_tbl hp el))
                 /\ own me true el1 /\ abs_tbl hp1 ag = abs_tbl hp ag /\ (forall x, fst (fst x) <> me -> hp1 x = hp x)).
    { destruct (ignore_len c).
      - inversion T1. subst. repeat split; try apply O1.
      - destruct (extend_spec _ _ _ _ _ _ _ _ O1 T1) as [X [O F]]. split; [exact X|]. split; [exact O|]. split.
        + apply (other_tbl hp hp1 me true (r_split r) me false ag F O2). intro Y. inversion Y.
        + intros x H. apply F. intro Y. subst x. now apply H. }
    destruct S1 as [S1 [O1' [S1a F1]]].
    assert (S2 : abs_tbl hp2 ag1 = (if ignore_ages c then abs_tbl hp ag
                                    else aupd (r_split r) [] (fun l => l ++ [r_age r]) (abs_tbl hp ag))
                 /\ own me false ag1 /\ abs_tbl hp2 el1 = abs_tbl hp1 el1 /\ (forall x, fst (fst x) <> me -> hp2 x = hp1 x)).
    { destruct (ignore_ages c).
      - inversion T2. subst. repeat split; try apply O2. exact S1a.
      - destruct (extend_spec _ _ _ _ _ _ _ _ O2 T2) as [X [O F]]. split; [rewrite X, S1a; reflexivity|]. split; [exact O|]. split.
        + apply (other_tbl hp1 hp2 me false (r_split r) me true el1 F O1'). intro Y. inversion Y.
        + intros x H. apply F. intro Y. subst x. now apply H. }
    destruct S2 as [S2 [O2' [S2a F2]]].
    destruct (IH _ _ _ _ _ _ _ _ O1' O2' E) as [R1 [R2 [R3 R4]]].
    split; [|split; [exact R2 | split; [exact R3|]]].
    + rewrite R1, S2a, S1, S2. destruct (ignore_len c), (ignore_ages c); reflexivity.
    + intros x H. rewrite (R4 x H), (F2 x H). now apply F1.
Qed.

Theorem hcount_refines c hp d t hp' d' :
  hsd_ok d -> hcount c hp d t = (hp', d') ->
  abs hp' d' = fst (count_tree c (abs hp d) t)
  /\ hsd_ok d' /\ h_self d' = h_self d
  /\ (forall x, fst (fst x) <> h_self d -> hp' x = hp x).
Proof.
  intros [O1 O2] E. unfold hcount in E.
  destruct (hcount_recs c (h_self d) (weight_to_use c t) (t_recs t) hp (h_counts d) (h_elens d) (h_nages d))
    as [[[hp1 cnt] el] ag] eqn:K.
  inversion E. subst hp' d'. clear E.
  destruct (hcount_recs_spec _ _ _ _ _ _ _ _ _ _ _ _ O1 O2 K) as [R1 [R2 [R3 R4]]].
  split; [|split; [split; assumption | split; [reflexivity | exact R4]]].
  unfold count_tree, abs. cbn [counts elens nages total sum_w rootings freqs counted_for_freqs h_total h_sumw h_rootings h_counts h_freqs h_counted_for h_elens h_nages].
  rewrite <- R1. reflexivity.
Qed.

(* ---------------------------------------------------------------- worlds and histories *)
Definition wok (w : mworld) : Prop :=
  forall i d, nth_error (mw_dists w) i = Some d -> h_self d = i /\ hsd_ok d.

Lemma nth_set_same {A} (l : list A) i x d : nth_error l i = Some d -> nth_error (set_nth l i x) i = Some x.
Proof. revert i. induction l as [|y r IH]; intros [|i] H; simpl in *; try discriminate; [reflexivity | now apply IH]. Qed.

Lemma nth_set_other {A} (l : list A) i k x : k <> i -> nth_error (set_nth l i x) k = nth_error l k.
Proof.
  revert i k. induction l as [|y r IH]; intros [|i] [|k] H; simpl; try reflexivity; try congruence.
  apply IH. congruence.
Qed.

Lemma abs_frame hp hp' d : hsd_ok d -> (forall x, fst (fst x) = h_self d -> hp' x = hp x) -> abs hp' d = abs hp d.
Proof.
  intros [O1 O2] F. unfold abs. f_equal; apply abs_tbl_ext; intros i I.
  - destruct (own_ids _ _ _ _ O1 I) as [k [-> _]]. now apply F.
  - destruct (own_ids _ _ _ _ O2 I) as [k [-> _]]. now apply F.
Qed.

Lemma wok_empty : wok mw_empty.
Proof. intros [|i] d H; discriminate H. Qed.

(* one operation: the invariant is kept; the distribution operated on follows the functional model;
   the source of an update keeps everything observable; every other distribution is untouched *)
Theorem mstep_spec c w op : wok w ->
  let w' := mstep c w op in
  wok w' /\
  match op with
  | MNew => mabs w' (length (mw_dists w)) = sd_empty /\ forall k, (k < length (mw_dists w))%nat -> mabs w' k = mabs w k
  | MCount i t => (i < length (mw_dists w))%nat ->
                  mabs w' i = fst (count_tree c (mabs w i) t) /\ forall k, k <> i -> mabs w' k = mabs w k
  | MUpdate i j => i <> j -> (i < length (mw_dists w))%nat -> (j < length (mw_dists w))%nat ->
                   mabs w' i = update (mabs w i) (mabs w j) /\ src_same (mabs w j) (mabs w' j)
                   /\ forall k, k <> i -> k <> j -> mabs w' k = mabs w k
  end.
Proof.
  intros OK. destruct op as [|i t|i j]; cbn [mstep].
  - split.
    + intros k d H. cbn [mw_dists] in H. destruct (Nat.lt_ge_cases k (length (mw_dists w))) as [L|L].
      * rewrite nth_error_app1 in H by exact L. now apply OK.
      * rewrite nth_error_app2 in H by exact L. destruct (k - length (mw_dists w))%nat as [|m] eqn:M; simpl in H.
        -- inversion H. subst d. cbn. split; [lia | split; apply own_nil].
        -- destruct m; discriminate H.
    + unfold mabs. cbn [mw_dists mw_heap]. split.
      * rewrite nth_error_app2 by lia. rewrite Nat.sub_diag. reflexivity.
      * intros k L. rewrite nth_error_app1 by exact L. reflexivity.
  - destruct (nth_error (mw_dists w) i) as [d|] eqn:Di.
    + destruct (OK i d Di) as [Sd Od].
      destruct (hcount c (mw_heap w) d t) as [hp d'] eqn:H.
      destruct (hcount_refines c _ _ _ _ _ Od H) as [R1 [R2 [R3 R4]]].
      split.
      * intros k dk Hk. cbn [mw_dists] in Hk. destruct (Nat.eq_dec k i) as [->|Nk].
        -- rewrite (nth_set_same _ _ _ _ Di) in Hk. inversion Hk. subst dk. split; [congruence | exact R2].
        -- rewrite nth_set_other in Hk by exact Nk. now apply OK.
      * intros _. unfold mabs. cbn [mw_dists mw_heap]. split.
        -- rewrite (nth_set_same _ _ _ _ Di), Di. exact R1.
        -- intros k Nk. rewrite nth_set_other by exact Nk. destruct (nth_error (mw_dists w) k) as [dk|] eqn:Dk; [|reflexivity].
           destruct (OK k dk Dk) as [Sk Ok]. apply abs_frame; [exact Ok|]. intros x Hx. apply R4. congruence.
    + split; [exact OK|]. intro L. apply nth_error_None in Di. lia.
  - destruct (Nat.eqb i j) eqn:Eij.
    + split; [exact OK|]. intro N. apply Nat.eqb_eq in Eij. contradiction.
    + apply Nat.eqb_neq in Eij.
      destruct (nth_error (mw_dists w) i) as [d|] eqn:Di; [|split; [exact OK | intros _ L; apply nth_error_None in Di; lia]].
      destruct (nth_error (mw_dists w) j) as [o|] eqn:Dj; [|split; [exact OK | intros _ _ L; apply nth_error_None in Dj; lia]].
      destruct (OK i d Di) as [Sd Od]. destruct (OK j o Dj) as [So Oo].
      destruct (hupdate (mw_heap w) d o) as [[hp d'] o'] eqn:H.
      assert (NE : h_self d <> h_self o) by congruence.
      destruct (hupdate_refines _ _ _ _ _ _ NE Od Oo H) as [R1 [R2 [R3 [R4 [R5 [R6 R7]]]]]].
      assert (Dj' : nth_error (set_nth (mw_dists w) i d') j = Some o) by (rewrite nth_set_other by congruence; exact Dj).
      split.
      * intros k dk Hk. cbn [mw_dists] in Hk. destruct (Nat.eq_dec k j) as [->|Nj].
        -- rewrite (nth_set_same _ _ _ _ Dj') in Hk. inversion Hk. subst dk. split; [congruence | exact R4].
        -- rewrite nth_set_other in Hk by exact Nj. destruct (Nat.eq_dec k i) as [->|Ni].
           ++ rewrite (nth_set_same _ _ _ _ Di) in Hk. inversion Hk. subst dk. split; [congruence | exact R3].
           ++ rewrite nth_set_other in Hk by exact Ni. now apply OK.
      * intros _ _ _. unfold mabs. cbn [mw_dists mw_heap]. split; [|split].
        -- rewrite nth_set_other by exact Eij. rewrite (nth_set_same _ _ _ _ Di), Di, Dj. exact R1.
        -- rewrite (nth_set_same _ _ _ _ Dj'), Dj. exact R2.
        -- intros k Ni Nj. rewrite !nth_set_other by assumption.
           destruct (nth_error (mw_dists w) k) as [dk|] eqn:Dk; [|reflexivity].
           destruct (OK k dk Dk) as [Sk Ok]. apply abs_frame; [exact Ok|]. intros x Hx. apply R7; congruence.
Qed.

Theorem mrun_wok c ops : forall w, wok w -> wok (mrun c w ops).
Proof.
  induction ops as [|op r IH]; intros w OK; simpl; [exact OK|]. apply IH. exact (proj1 (mstep_spec c w op OK)).
Qed.

(* ---------------------------------------------------------------- merge = collecting all trees *)
From DV Require Import Proofs.C05Final.

Lemma fold_ustep_get E A s : forall kvs cnt el ag, NoDup (map fst kvs) ->
  aget_d s [] (snd (fst (fold_left (ustep E A) kvs (cnt, el, ag))))
  = (if existsb (Z.eqb s) (map fst kvs) then aget_d s [] el ++ aget_d s [] E else aget_d s [] el)
  /\ aget_d s [] (snd (fold_left (ustep E A) kvs (cnt, el, ag)))
  = (if existsb (Z.eqb s) (map fst kvs) then aget_d s [] ag ++ aget_d s [] A else aget_d s [] ag).
Proof.
  induction kvs as [|kv r IH]; intros cnt el ag ND; [split; reflexivity|].
  cbn [fold_left map existsb]. inversion ND as [|? ? Hn Hr]. subst.
  unfold ustep at 2 4. destruct (IH (aupd (fst kv) 0%Q (fun x => qplus x (snd kv)) cnt)
                                    (aupd (fst kv) [] (fun l => l ++ aget_d (fst kv) [] E) el)
                                    (aupd (fst kv) [] (fun l => l ++ aget_d (fst kv) [] A) ag) Hr) as [I1 I2].
  rewrite I1, I2. clear I1 I2.
  destruct (Z.eqb s (fst kv)) eqn:Es.
  - apply Z.eqb_eq in Es. subst s. cbn [orb].
    assert (X : existsb (Z.eqb (fst kv)) (map fst r) = false).
    { destruct (existsb (Z.eqb (fst kv)) (map fst r)) eqn:X; [|reflexivity]. apply existsb_exists in X.
      destruct X as [y [Iy Ey]]. apply Z.eqb_eq in Ey. subst y. contradiction. }
    rewrite X. split; unfold aget_d at 1; rewrite aget_aupd_same; reflexivity.
  - cbn [orb]. apply Z.eqb_neq in Es.
    split; (destruct (existsb (Z.eqb s) (map fst r)); unfold aget_d at 1 2; rewrite aget_aupd_other by congruence; reflexivity).
Qed.

Lemma values_of_app f s a b : values_of f s (a ++ b) = values_of f s a ++ values_of f s b.
Proof. unfold values_of. apply flat_map_app. Qed.

Lemma values_of_absent f s ts : (forall t, In t ts -> ~ In s (splits_of t)) -> values_of f s ts = [].
Proof.
  intro H. unfold values_of. induction ts as [|t r IH]; [reflexivity|]. cbn [flat_map].
  rewrite IH by (intros t0 I; apply H; now right).
  replace (filter (fun r0 => r_split r0 =? s) (t_recs t)) with (@nil brec); [reflexivity|].
  specialize (H t (or_introl eq_refl)). unfold splits_of in H.
  induction (t_recs t) as [|x l IHl]; [reflexivity|]. cbn [filter].
  destruct (r_split x =? s) eqn:E.
  - apply Z.eqb_eq in E. exfalso. apply H. left. exact E.
  - apply IHl. intro I. apply H. now right.
Qed.

(* a collection updated from two collections = a fresh collection filled with all their trees:
   tree count, weight sum, every frequency, and for every split the very list of edge lengths
   (node ages) in the order a fresh collection records them - hence every summary *)
Theorem merge_equals_fresh_l c ts1 ts2 :
  (forall t, In t (ts1 ++ ts2) -> NoDup (splits_of t)) ->
  let d1 := count_trees c sd_empty ts1 in
  let d2 := count_trees c sd_empty ts2 in
  let u := update (update sd_empty d1) d2 in
  let f := count_trees c sd_empty (ts1 ++ ts2) in
  total u = total f /\ (sum_w u == sum_w f)%Q /\
  (forall s, (snd (query u s) == exact_freq c (ts1 ++ ts2) s)%Q) /\
  (forall s, (snd (query f s) == exact_freq c (ts1 ++ ts2) s)%Q) /\
  (ignore_len c = false -> forall s, aget_d s [] (elens u) = aget_d s [] (elens f)) /\
  (ignore_ages c = false -> forall s, aget_d s [] (nages u) = aget_d s [] (nages f)).
Proof.
  intros ND d1 d2 u f.
  pose proof (rep_counted c ts1) as R1. pose proof (rep_counted c ts2) as R2. fold d1 in R1. fold d2 in R2.
  pose proof (rep_counted c (ts1 ++ ts2)) as Rf. fold f in Rf.
  destruct (update_any_representation_l c sd_empty d1 [] ts1 (rep_empty c) R1 cache_empty) as [Ra [Ca _]].
  destruct (update_any_representation_l c (update sd_empty d1) d2 _ ts2 Ra R2 Ca) as [Ru [Cu Qu]].
  cbn [app] in Ru, Qu. fold u in Ru, Cu, Qu.
  split; [rewrite (rep_total _ _ _ Ru), (rep_total _ _ _ Rf); reflexivity|].
  split; [rewrite (rep_sum _ _ _ Ru), (rep_sum _ _ _ Rf); reflexivity|].
  split; [intro s; rewrite Qu; now apply exact_freq_m_nodup|].
  split; [intro s; rewrite (query_val c f (ts1 ++ ts2) s Rf (counted_cache c (ts1 ++ ts2))); now apply exact_freq_m_nodup|].
  assert (KEY : forall (d : sd) ts s, Rep c d ts -> existsb (Z.eqb s) (map fst (counts d)) = false ->
                                      forall t, In t ts -> ~ In s (splits_of t)).
  { intros d ts s R X t It Is. assert (In s (keys (counts d))) by (apply (rep_keys _ _ _ R); exists t; tauto).
    assert (existsb (Z.eqb s) (map fst (counts d)) = true) by (apply existsb_exists; exists s; split; [assumption | apply Z.eqb_refl]).
    congruence. }
  split.
  - intros IL s.
    destruct (elens_exact_gen c ts1 IL sd_empty s) as [V1 _]; [constructor|]. fold d1 in V1.
    destruct (elens_exact_gen c ts2 IL sd_empty s) as [V2 _]; [constructor|]. fold d2 in V2.
    destruct (elens_exact_gen c (ts1 ++ ts2) IL sd_empty s) as [Vf _]; [constructor|]. fold f in Vf.
    cbn [elens sd_empty aget_d aget app] in V1, V2, Vf. rewrite Vf, values_of_app.
    unfold u. rewrite !update_as_fold.
    destruct (fold_left (ustep (elens d1) (nages d1)) (counts d1) (counts sd_empty, elens sd_empty, nages sd_empty)) as [[c1 e1] a1] eqn:F1.
    cbn [counts elens nages].
    pose proof (proj1 (fold_ustep_get (elens d1) (nages d1) s (counts d1) [] [] [] (rep_nodup _ _ _ R1))) as G1.
    cbn [counts elens nages sd_empty] in F1. rewrite F1 in G1. cbn [fst snd] in G1.
    pose proof (proj1 (fold_ustep_get (elens d2) (nages d2) s (counts d2) c1 e1 a1 (rep_nodup _ _ _ R2))) as G2.
    destruct (fold_left (ustep (elens d2) (nages d2)) (counts d2) (c1, e1, a1)) as [[c2 e2] a2]. cbn [fst snd] in G2.
    cbn [elens]. rewrite G2, G1, V1, V2. cbn [aget_d aget app].
    destruct (existsb (Z.eqb s) (map fst (counts d1))) eqn:X1; destruct (existsb (Z.eqb s) (map fst (counts d2))) eqn:X2;
      rewrite ?(values_of_absent _ s ts1 (KEY d1 ts1 s R1 X1)), ?(values_of_absent _ s ts2 (KEY d2 ts2 s R2 X2)), ?app_nil_r;
      reflexivity.
  - intros IA s.
    destruct (nages_exact_gen c ts1 IA sd_empty s) as [V1 _]; [constructor|]. fold d1 in V1.
    destruct (nages_exact_gen c ts2 IA sd_empty s) as [V2 _]; [constructor|]. fold d2 in V2.
    destruct (nages_exact_gen c (ts1 ++ ts2) IA sd_empty s) as [Vf _]; [constructor|]. fold f in Vf.
    cbn [nages sd_empty aget_d aget app] in V1, V2, Vf. rewrite Vf, values_of_app.
    unfold u. rewrite !update_as_fold.
    destruct (fold_left (ustep (elens d1) (nages d1)) (counts d1) (counts sd_empty, elens sd_empty, nages sd_empty)) as [[c1 e1] a1] eqn:F1.
    cbn [counts elens nages].
    pose proof (proj2 (fold_ustep_get (elens d1) (nages d1) s (counts d1) [] [] [] (rep_nodup _ _ _ R1))) as G1.
    cbn [counts elens nages sd_empty] in F1. rewrite F1 in G1. cbn [fst snd] in G1.
    pose proof (proj2 (fold_ustep_get (elens d2) (nages d2) s (counts d2) c1 e1 a1 (rep_nodup _ _ _ R2))) as G2.
    destruct (fold_left (ustep (elens d2) (nages d2)) (counts d2) (c1, e1, a1)) as [[c2 e2] a2]. cbn [fst snd] in G2.
    cbn [nages]. rewrite G2, G1, V1, V2. cbn [aget_d aget app].
    destruct (existsb (Z.eqb s) (map fst (counts d1))) eqn:X1; destruct (existsb (Z.eqb s) (map fst (counts d2))) eqn:X2;
      rewrite ?(values_of_absent _ s ts1 (KEY d1 ts1 s R1 X1)), ?(values_of_absent _ s ts2 (KEY d2 ts2 s R2 X2)), ?app_nil_r;
      reflexivity.
Qed.
