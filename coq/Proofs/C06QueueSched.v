(* C06: every complete execution of the marker hand-out protocol induces a schedule to which
   schedule_irrelevant applies *)
From Coq Require Import ZArith List Bool Arith Lia Permutation.
From DV Require Import Model.PyPrims Model.C06Model Model.C06Queue Proofs.C06Lemmas Proofs.C06Proofs
     Proofs.C06Sched Proofs.C06QueueProofs.
Import ListNotations.

Lemma Forall_firstn' {B} (P : B -> Prop) k l : Forall P l -> Forall P (firstn k l).
Proof.
  intro F. rewrite <- (firstn_skipn k l) in F. apply Forall_app in F. tauto.
Qed.

Lemma handout_then_collate_l : forall (c : cfg) (r : option bool) (files : list (list trec)) (n : nat)
                                      (acts : list act) (s : pst (list trec)),
  (c_rooting c = None \/ c_rooting c = r) ->
  Forall (ok_rec c r) (concat files) ->
  (1 <= n)%nat ->
  exec step_new (init_new files n) acts = Some s ->
  quiescent step_new s ->
  sched_ok (mkSched n (firstn (length files) (gets_of acts)) (p_results s)) (length files) /\
  (forall w x, nth_error (p_workers s) w = Some x ->
               w_recv x = worker_files (mkSched n (firstn (length files) (gets_of acts)) (p_results s)) files w) /\
  exists m t,
    parallel_collate c (mkSched n (firstn (length files) (gets_of acts)) (p_results s)) files = (m, None) /\
    serial c files = (t, None) /\ ta_equiv m t.
Proof.
  intros c r files n acts s Hc F Hn E Q.
  destruct (handout_protocol_total_l _ files n acts s Hn E) as (_ & _ & H). specialize (H Q).
  destruct H as (_ & _ & _ & _ & Lg & Fg & _ & Pr & Rv).
  assert (S : sched_ok (mkSched n (firstn (length files) (gets_of acts)) (p_results s)) (length files)).
  { unfold sched_ok. cbn [s_workers s_assign s_arrival]. repeat split.
    - exact Hn.
    - rewrite firstn_length. lia.
    - apply Forall_firstn'. exact Fg.
    - exact Pr. }
  split; [exact S|]. split; [exact Rv|].
  apply schedule_irrelevant_l with (r := r); assumption.
Qed.
