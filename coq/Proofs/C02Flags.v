(* C02: the suppressing writer options reduce to the default options on the erased tree. *)
From Coq Require Import ZArith List Bool Lia.
From DV Require Import Model.PyPrims Gen.CharClasses Model.Tokenizer Model.Newick Model.C02Spec Model.C02ListSpec Model.C02FlagsSpec
     Proofs.C02Lex Proofs.C02Main Proofs.C02ListMain.
Import ListNotations.
Open Scope Z_scope.

Section Flags.
Variable L : Type.
Variable render_len : L -> str.
Variable o : rt_opts.
Variable f : sflags.

Notation wo := (rt_wopts o).
Notation wf := (with_flags (rt_wopts o) f).

Lemma is_nil_map {A B} (g : A -> B) (l : list A) : is_nil (map g l) = is_nil l.
Proof. destruct l; reflexivity. Qed.

Lemma render_tag_erase (t : ntree L) : render_node_tag L wf t = render_node_tag L wo (erase L f t).
Proof.
  destruct t as [tx lb ln ks]. unfold render_node_tag, with_flags. cbn [erase].
  cbn [wo_suppress_leaf_taxon_labels wo_suppress_leaf_node_labels wo_suppress_internal_taxon_labels
       wo_suppress_internal_node_labels wo_taxon_token wo_preserve_spaces wo_unquoted_underscores rt_wopts].
  rewrite is_nil_map. destruct (is_nil ks).
  - destruct (sf_leaf_taxon f); destruct tx; reflexivity.
  - destruct (sf_internal_taxon f), (sf_internal_label f); destruct tx, lb as [[|c l]|]; reflexivity.
Qed.

Lemma write_node_erase : forall (t : ntree L) first,
  write_node L render_len wf first t = write_node L render_len wo first (erase L f t).
Proof.
  induction t as [tx lb ln ks IH] using ntree_ind'. intro first.
  assert (B : write_node_body L render_len wf (Nd tx lb ln ks) = write_node_body L render_len wo (erase L f (Nd tx lb ln ks))).
  { unfold write_node_body. rewrite render_tag_erase. cbn [erase n_len].
    change (wo_suppress_edge_lengths wf) with (sf_edge_lengths f). change (wo_suppress_edge_lengths wo) with false.
    destruct (sf_edge_lengths f); destruct ln; reflexivity. }
  destruct ks as [|k ks].
  - cbn [write_node erase map is_nil] in *. rewrite B. reflexivity.
  - cbn [erase map is_nil] in B |- *. cbn [write_node]. rewrite B.
    rewrite (Forall_inv IH). f_equal. f_equal. f_equal.
    pose proof (Forall_inv_tail IH) as Ir. clear - Ir. induction ks as [|k2 ks IHl]; [reflexivity|].
    cbn [flat_map map]. rewrite (Forall_inv Ir). rewrite IHl; [reflexivity | exact (Forall_inv_tail Ir)].
Qed.

Lemma write_tree_list_erase (ts : list (option bool * ntree L)) :
  write_tree_list L render_len wf ts
  = write_tree_list L render_len wo (map (fun rt => (fst rt, erase L f (snd rt))) ts).
Proof.
  unfold write_tree_list. rewrite flat_map_concat_map, (flat_map_concat_map _ (map _ ts)), map_map. f_equal.
  apply map_ext. intros [r t]. cbn [fst snd]. unfold write_tree. rewrite write_node_erase. reflexivity.
Qed.

End Flags.

(* the tree list round trip under suppressing writer options *)
Lemma treelist_roundtrip_suppressed_l :
  forall (L : Type) (render_len : L -> str) (parse_len : str -> option L) (lower : str -> str),
    (forall x, parse_len (render_len x) = Some x) ->
    (forall x, render_len x <> [] /\ forallb numeral_char (render_len x) = true) ->
  forall (o : rt_opts) (f : sflags) (r : option bool) (t : ntree L) (ts : list (option bool * ntree L)),
    let doc := map (fun rt => (fst rt, erase L f (snd rt))) ((r, t) :: ts) in
    forallb (fun rt => wf_tree L o (snd rt)) doc = true ->
    Forall (fun rt => NoDup (map lower (taxa_order L o (snd rt)))) doc ->
    Forall (fun rt => rooting_consistent o (fst rt) = true) doc ->
    case_consistent lower (doc_taxa L o doc) ->
    let ns := first_occurrences lower (doc_taxa L o doc) in
    read_newick L parse_len lower (rt_ropts o) [] (write_tree_list L render_len (with_flags (rt_wopts o) f) ((r, t) :: ts))
      = Ok (fst (expect_trees L lower o doc []), ns)
    /\ Forall2 (fun rt pr => pr_is_rooted pr = fst rt /\ pr_comments pr = [] /\
                             resolve L ns (pr_tree pr) = Some (norm L (snd rt)))
               doc (fst (expect_trees L lower o doc [])).
Proof.
  intros L render_len parse_len lower H1 H2 o f r t ts doc Hwf Hnd Hroot Hcc ns.
  rewrite write_tree_list_erase. subst doc ns. cbn [map fst snd] in *.
  apply (treelist_roundtrip_l L render_len parse_len lower H1 H2 o r (erase L f t) (map (fun rt => (fst rt, erase L f (snd rt))) ts)); assumption.
Qed.
