(* C09, wave 7: the generated object-level code (coq/Gen/CharObj.v, py/dv/gen_charobj.py) equals the model
   (Model/C09Obj.v): CharacterDataSequence(other) holds a NEW list with other's values; _write_char_block walks
   the matrix in namespace order. *)
From Coq Require Import ZArith List Bool Lia.
From DV Require Import Model.PyPrims Model.C09AlphaTypes Model.C09Model Model.C09Obj Gen.CharObj.
Import ListNotations.
Open Scope Z_scope.

Lemma gen_init_is_copy_l : forall (s : store) (ro : rid), ro <> s_next s ->
  snd (CharacterDataSequence_init_from_sequence s ro) = snd (new_from CopyValues s ro)
  /\ s_next (fst (CharacterDataSequence_init_from_sequence s ro)) = s_next (fst (new_from CopyValues s ro))
  /\ forall x, hget (fst (CharacterDataSequence_init_from_sequence s ro)) x = hget (fst (new_from CopyValues s ro)) x.
Proof.
  intros s ro H. unfold CharacterDataSequence_init_from_sequence, new_from, alloc, mutate, hget.
  cbn [fst snd s_heap s_next h_get].
  split; [reflexivity|]. split; [reflexivity|].
  intro x. rewrite Z.eqb_refl. cbn [app].
  destruct (Z.eqb_spec ro (s_next s)) as [E | _]; [contradiction|].
  destruct (Z.eqb x (s_next s)); reflexivity.
Qed.

Lemma gen_row_iter_is_matrix_l : forall ns rm,
  rows_by NexusWriter_write_char_block_row_iter ns rm = iter_rows ns rm.
Proof. intros ns rm. reflexivity. Qed.
