(* C05: concrete witnesses: the hypotheses of the theorems are satisfiable; refutations *)
From Coq Require Import ZArith QArith Qabs Qreduction List Bool Lia Lqa.
From DV Require Import Model.PyPrims Gen.BitFns Gen.Consts Model.C05Model Model.C05Spec
     Proofs.C05Lists Proofs.C05Freq Proofs.C05Consensus.
Import ListNotations.
Open Scope Z_scope.

(* four taxa A=1 B=2 C=4 D=8; rooted trees ((A,B),(C,D)) and ((A,C),(B,D)) as the library
   encodes them (postorder, root last), every edge of length 1 *)
Definition ex_tree (ss : list Z) (w : option Q) : tree_in :=
  mkTree (map (fun s => mkRec s (Some 1%Q) None) ss) w (Some true) 15.
Definition tAB (w : option Q) := ex_tree [1; 2; 3; 4; 8; 12; 15] w.
Definition tAC (w : option Q) := ex_tree [1; 4; 5; 2; 8; 10; 15] w.
Definition ex_cfg := mkCfg false true true None.
Definition ex_bits := [1; 2; 4; 8].

Example ex_tree_hyps :
  tree_compatible 15 true (tAB None) = true /\ NoDup (splits_of (tAB None)) /\
  tree_compatible 15 true (tAC None) = true /\ NoDup (splits_of (tAC None)).
Proof.
  repeat split; try reflexivity;
    (apply (NoDup_count_occ' Z.eq_dec); intros x I; simpl in I;
     repeat (destruct I as [I|I]; [subst; reflexivity|]); destruct I).
Qed.

(* weighted frequency: weights 3 and 1 -> 3/4 for {A,B}, not 1/2 *)
Example ex_weighted_freq :
  Qeq_bool (snd (query (count_trees ex_cfg sd_empty [tAB (Some 3%Q); tAC (Some 1%Q)]) 3)) (3 # 4) = true /\
  Qeq_bool (exact_freq ex_cfg [tAB (Some 3%Q); tAC (Some 1%Q)] 3) (3 # 4) = true.
Proof. split; vm_compute; reflexivity. Qed.

(* majority rule, threshold 2/3 met exactly by {A,B} and {C,D} (2 of 3 trees) *)
Example ex_majority :
  let d := count_trees ex_cfg sd_empty [tAB None; tAB None; tAC None] in
  snd (fst (fst (snd (consensus d 15 ex_bits (Some (2 # 3)%Q) None)))) = [12; 3].
Proof. vm_compute. reflexivity. Qed.

(* the default threshold: two conflicting pairs of splits at frequency exactly 1/2 all pass the
   filter; the (freq, mask) order decides: {C,D}=12 first, {B,D}=10 and {A,C}=5 conflict with
   it, {A,B}=3 is compatible.  The result is fully resolved although no split has a strict
   majority. *)
Example ex_default_tie :
  let d := count_trees ex_cfg sd_empty [tAB None; tAC None] in
  let '(_, (cands, acc, tr, r)) := consensus d 15 ex_bits (Some default_min_freq) None in
  map snd cands = [15; 8; 4; 2; 1; 12; 10; 5; 3] /\
  map (fun c => Qeq_bool (fst c) (1 # 2)) cands = [false; false; false; false; false; true; true; true; true] /\
  acc = [12; 3] /\ ct_clades tr = [15; 12; 3] /\ r = Some true.
Proof. vm_compute. repeat split; reflexivity. Qed.

(* the _almost_one clause: with weights 1 and 2^-30 and min_freq = 1 the splits {A,B}, {C,D} of
   frequency 2^30/(2^30+1) < 1 are accepted *)
Example ex_almost_one :
  let ts := [tAB (Some 1%Q); tAC (Some (1 # 1073741824)%Q)] in
  let d := count_trees ex_cfg sd_empty ts in
  snd (fst (fst (snd (consensus d 15 ex_bits (Some 1%Q) None)))) = [12; 3] /\
  qlt_bool (exact_freq ex_cfg ts 3) 1 = true /\ almost_one 1 = true.
Proof. vm_compute. repeat split; reflexivity. Qed.

(* TreeArray(use_tree_weights=False) when the flag is not forwarded *)
Definition ex_cfg_unweighted := mkCfg false true false None.
Example ex_treearray_unforwarded :
  exists a, ta_add_trees false ex_cfg_unweighted (ta_empty None) [tAB (Some 3%Q); tAC (Some 1%Q)] = Ok a /\
            Qeq_bool (snd (query (ta_sd a) 3)) (3 # 4) = true /\
            Qeq_bool (exact_freq ex_cfg_unweighted [tAB (Some 3%Q); tAC (Some 1%Q)] 3) (1 # 2) = true.
Proof. eexists. split; [vm_compute; reflexivity|]. split; vm_compute; reflexivity. Qed.

(* add_split_count changes a count without changing total_trees_counted: a cached table is
   then served stale (outside count/update/query histories) *)
Example ex_add_split_count_stale :
  let d := count_trees ex_cfg sd_empty [tAB None] in
  let d1 := fst (query d 5) in
  let d2 := add_split_count d1 5 1%Q in
  snd (query d2 5) = 0%Q /\ aget_d 5 0%Q (freq_table d2) = 1%Q.
Proof. vm_compute. split; reflexivity. Qed.

(* collapse: ((A,C),(B,D)) against 2x((A,B),(C,D)) + 1x((A,C),(B,D)), threshold 1/2 *)
Definition ex_target : stree :=
  SN 15 None [SN 5 (Some 1%Q) [SN 1 (Some 1%Q) []; SN 4 (Some 1%Q) []];
              SN 10 (Some 1%Q) [SN 2 (Some 1%Q) []; SN 8 (Some 2%Q) []]].
Example ex_collapse :
  let d := count_trees ex_cfg sd_empty [tAB None; tAB None; tAC None] in
  snd (collapse_tree d (Some true) (1 # 2)%Q ex_target)
  = Ok (SN 15 None [SN 1 (Some 2%Q) []; SN 4 (Some 2%Q) []; SN 2 (Some 2%Q) []; SN 8 (Some 3%Q) []]).
Proof. vm_compute. reflexivity. Qed.

(* a leaf below the threshold: the error branch *)
Example ex_collapse_error :
  snd (collapse_tree sd_empty (Some false) (1 # 2)%Q ex_target) = Err ValueErr.
Proof. vm_compute. reflexivity. Qed.
