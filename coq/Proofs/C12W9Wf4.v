(* C12, ninth wave: the RESULT heap of a successful seeded deep copy satisfies the executable hypothesis wf_heap4
   again - BOTH conjuncts, in boolean form:
     - every annotable object of the result heap (untouched source objects and all copies) has an exactly-shaped
       owned annotation set (boolean form of Proofs/C12ResultHeap.v: result_heap_exact_l), and
     - nodup_z (owned_conts (sh s')): no annotation set, _item_list or _item_set of the result heap belongs to two
       owners.  Old/old: hypothesis on the source heap; fresh/fresh: Inv3.own_cont plus the `target` attribute
       (an owned set points back to its owner); old/fresh (the mixed case): what an old owner holds is old (the
       source heap is closed), what a fresh owner holds is fresh (an old AnnotationSet / list / set cannot refer to a
       fresh object). *)
From Coq Require Import ZArith List Bool Lia.
From DV Require Import Model.PyPrims Model.C12Model Model.C12Spec2 Model.C12Spec3 Proofs.C12Heap Proofs.C12Inv
  Proofs.C12Copy Proofs.C12Wf Proofs.C12Proofs Proofs.C12Iso Proofs.C12Wf2 Proofs.C12IsoTop Proofs.C12Own Proofs.C12AnnDef
  Proofs.C12Own2 Proofs.C12Fun Proofs.C12Wf3 Proofs.C12AnnTop Proofs.C12FunTop Proofs.C12Image Proofs.C12ImageTop
  Proofs.C12IsoFull Proofs.C12IsoFullTop Proofs.C12FreshRec Proofs.C12ResultHeap.
Import ListNotations.
Open Scope Z_scope.

(* ---- completeness of the boolean checks ------------------------------------------------------------------ *)

Lemma nodup_z_complete : forall l, NoDup l -> nodup_z l = true.
Proof.
  induction l as [|a r IH]; intro ND; [reflexivity|]. inversion ND as [|? ? NI NR]; subst. simpl.
  rewrite (IH NR), andb_true_r. destruct (memz a r) eqn:M; [|reflexivity]. apply memz_In in M. contradiction.
Qed.

Lemma forallbi_intro : forall A (f : Z -> A -> bool) l i,
  (forall n x, nth_error l n = Some x -> f (i + Z.of_nat n) x = true) -> forallbi f i l = true.
Proof.
  induction l as [|a r IH]; intros i H; [reflexivity|]. simpl. apply andb_true_iff. split.
  - replace i with (i + Z.of_nat 0) by lia. apply H. reflexivity.
  - apply IH. intros n x N. replace (i + 1 + Z.of_nat n) with (i + Z.of_nat (S n)) by lia. apply H. exact N.
Qed.

Lemma body_eqb_refl : forall b, body_eqb b b = true.
Proof. induction b as [|[k v] r IH]; simpl; [reflexivity|]. rewrite !val_eqb_refl, IH. reflexivity. Qed.

Lemma nth_hget : forall (h : heap) n ob, nth_error h n = Some ob -> hget h (Z.of_nat n) = Some ob.
Proof.
  intros h n ob N. unfold hget. destruct (Z.of_nat n <? 0) eqn:E; [apply Z.ltb_lt in E; lia|]. rewrite Nat2Z.id. exact N.
Qed.

Lemma exact_owned_exact : forall h x ob, Exact h -> hget h x = Some ob -> is_annk (okind ob) = true ->
  owned_exact h x ob = true.
Proof.
  intros h x ob EX G AK. specialize (EX x ob G AK). unfold owned_exact. revert EX.
  destruct (bget (obody ob) NM_ANN) as [[p|sx]|]; intro EX; [contradiction| |reflexivity].
  destruct EX as [sxo [lx [zx [l [z [GS [BL [BZ [BT [CS [KS [GL [GZ [CL [KL [VL [CZ [KZ BZ']]]]]]]]]]]]]]]]]].
  assert (F : forallb (fun e : val * val => negb (is_prim (snd e))) (obody l) = true).
  { apply forallb_forall. intros [k v] I. simpl.
    destruct (VL v) as [o Eo]; [unfold values; apply in_map_iff; exists (k, v); split; [reflexivity | exact I]|].
    subst v. reflexivity. }
  rewrite GS, BL, BZ, BT, GL, GZ, CS, KS, CL, KL, CZ, KZ, BZ', body_eqb_refl, F, !Z.eqb_refl. reflexivity.
Qed.

(* ---- NoDup of a flat_map, by positions --------------------------------------------------------------------- *)

Lemma nodup_app_intro : forall (l1 l2 : list Z), NoDup l1 -> NoDup l2 -> (forall z, In z l1 -> In z l2 -> False) ->
  NoDup (l1 ++ l2).
Proof.
  induction l1 as [|a r IH]; intros l2 N1 N2 D; [exact N2|]. simpl. inversion N1 as [|? ? NI NR]; subst.
  constructor.
  - intro I. apply in_app_or in I. destruct I as [I|I]; [exact (NI I)|]. exact (D a (or_introl eq_refl) I).
  - apply IH; auto. intros z I1 I2. exact (D z (or_intror I1) I2).
Qed.

Lemma nodup_flat_map_idx : forall (f : obj -> list Z) (h : list obj),
  (forall n ob, nth_error h n = Some ob -> NoDup (f ob)) ->
  (forall n m a b z, nth_error h n = Some a -> nth_error h m = Some b -> In z (f a) -> In z (f b) -> n = m) ->
  NoDup (flat_map f h).
Proof.
  induction h as [|c r IH]; intros H1 H2; [constructor|]. simpl. apply nodup_app_intro.
  - exact (H1 0%nat c eq_refl).
  - apply IH.
    + intros n ob N. exact (H1 (S n) ob N).
    + intros n m a b z Na Nb Ia Ib. assert (X := H2 (S n) (S m) a b z Na Nb Ia Ib). lia.
  - intros z I1 I2. apply in_flat_map in I2. destruct I2 as [b [Ib I2]]. apply In_nth_error in Ib. destruct Ib as [m Nm].
    assert (X := H2 0%nat (S m) c b z eq_refl Nm I1 I2). discriminate.
Qed.

(* ---- what an owner contributes to owned_conts ------------------------------------------------------------------ *)

Definition gconts (h : heap) (ob : obj) : list Z :=
  if is_annk (okind ob)
  then match bget (obody ob) NM_ANN with
       | Some (R sx) =>
         sx :: match hget h sx with
               | Some sxo => refs_of (match bget (obody sxo) NM_ILIST with Some v => [v] | None => [] end)
                             ++ refs_of (match bget (obody sxo) NM_ISET with Some v => [v] | None => [] end)
               | None => []
               end
       | _ => []
       end
  else [].

Lemma owned_conts_gconts : forall h, owned_conts h = flat_map (gconts h) h.
Proof. reflexivity. Qed.

Lemma conts_inv : forall h x ob a, Exact h -> hget h x = Some ob -> In a (gconts h ob) ->
  exists sx sxo lx zx l z, is_annk (okind ob) = true /\ bget (obody ob) NM_ANN = Some (R sx) /\ hget h sx = Some sxo
    /\ okind sxo = KAnnSet /\ bget (obody sxo) NM_TARGET = Some (R x)
    /\ bget (obody sxo) NM_ILIST = Some (R lx) /\ bget (obody sxo) NM_ISET = Some (R zx)
    /\ hget h lx = Some l /\ hget h zx = Some z /\ okind l = KList /\ okind z = KSet
    /\ gconts h ob = [sx; lx; zx].
Proof.
  intros h x ob a EX G I. unfold gconts in *. destruct (is_annk (okind ob)) eqn:AK; [|destruct I].
  specialize (EX x ob G AK). revert I EX.
  destruct (bget (obody ob) NM_ANN) as [[p|sx]|]; intros I EX; [destruct EX | | destruct I].
  destruct EX as [sxo [lx [zx [l [z [GS [BL [BZ [BT [CS [KS [GL [GZ [CL [KL [VL [CZ [KZ BZ']]]]]]]]]]]]]]]]]].
  exists sx, sxo, lx, zx, l, z. rewrite GS, BL, BZ. simpl. auto 20.
Qed.

Lemma in_gconts : forall h o s so k l, is_annk (okind o) = true -> bget (obody o) NM_ANN = Some (R s) ->
  hget h s = Some so -> is_cont_key k -> bget (obody so) k = Some (R l) -> In l (gconts h o).
Proof.
  intros h o s so k l AK BA GS CK BK. unfold gconts. rewrite AK, BA, GS. right. apply in_or_app.
  destruct CK; subst k; [left|right]; rewrite BK; simpl; left; reflexivity.
Qed.

Lemma exact_set_kind : forall h x o s so, Exact h -> hget h x = Some o -> is_annk (okind o) = true ->
  bget (obody o) NM_ANN = Some (R s) -> hget h s = Some so -> okind so = KAnnSet.
Proof.
  intros h x o s so EX G AK BA GS. specialize (EX x o G AK). rewrite BA in EX.
  destruct EX as [sxo [lx [zx [l [z [GS' [_ [_ [_ [_ [KS _]]]]]]]]]]]. congruence.
Qed.

(* two owners never share a container *)
Definition ShareOK (h : heap) : Prop :=
  forall x1 x2 o1 o2 s1 s2 so1 so2 k1 k2 l,
    hget h x1 = Some o1 -> hget h x2 = Some o2 -> is_annk (okind o1) = true -> is_annk (okind o2) = true ->
    bget (obody o1) NM_ANN = Some (R s1) -> bget (obody o2) NM_ANN = Some (R s2) ->
    hget h s1 = Some so1 -> hget h s2 = Some so2 -> is_cont_key k1 -> is_cont_key k2 ->
    bget (obody so1) k1 = Some (R l) -> bget (obody so2) k2 = Some (R l) -> s1 = s2.

Lemma exact_nodup : forall h, Exact h -> ShareOK h -> NoDup (owned_conts h).
Proof.
  intros h EX SH. rewrite owned_conts_gconts. apply nodup_flat_map_idx.
  - intros n ob N. apply nth_hget in N.
    destruct (gconts h ob) as [|a0 r0] eqn:GE; [constructor|].
    assert (I : In a0 (gconts h ob)) by (rewrite GE; left; reflexivity).
    destruct (conts_inv h _ ob a0 EX N I)
      as [sx [sxo [lx [zx [l [z [AK [BA [GS [KS [BT [BL [BZ [GL [GZ [KL [KZ LE]]]]]]]]]]]]]]]]].
    rewrite <- GE, LE.
    assert (D1 : sx <> lx) by (intro; subst; congruence).
    assert (D2 : sx <> zx) by (intro; subst; congruence).
    assert (D3 : lx <> zx) by (intro; subst; congruence).
    constructor; [intros [X|[X|[]]]; congruence|]. constructor; [intros [X|[]]; congruence|].
    constructor; [intros []|constructor].
  - intros n m a b z Na Nb Ia Ib. apply nth_hget in Na. apply nth_hget in Nb.
    destruct (conts_inv h _ a z EX Na Ia)
      as [s1 [so1 [l1 [z1 [lo1 [zo1 [AK1 [BA1 [GS1 [KS1 [BT1 [BL1 [BZ1 [GL1 [GZ1 [KL1 [KZ1 LE1]]]]]]]]]]]]]]]]].
    destruct (conts_inv h _ b z EX Nb Ib)
      as [s2 [so2 [l2 [z2 [lo2 [zo2 [AK2 [BA2 [GS2 [KS2 [BT2 [BL2 [BZ2 [GL2 [GZ2 [KL2 [KZ2 LE2]]]]]]]]]]]]]]]]].
    rewrite LE1 in Ia. rewrite LE2 in Ib.
    assert (TG : s1 = s2 -> n = m).
    { intro E. subst s2. rewrite GS1 in GS2. inversion GS2; subst so2. rewrite BT1 in BT2. inversion BT2. lia. }
    apply TG. simpl in Ia, Ib.
    destruct Ia as [Ia|[Ia|[Ia|[]]]]; destruct Ib as [Ib|[Ib|[Ib|[]]]].
    all: try congruence.
    all: try (exfalso; congruence).
    + apply (SH (Z.of_nat n) (Z.of_nat m) a b s1 s2 so1 so2 NM_ILIST NM_ILIST z); auto;
        try (left; reflexivity); congruence.
    + apply (SH (Z.of_nat n) (Z.of_nat m) a b s1 s2 so1 so2 NM_ISET NM_ISET z); auto;
        try (right; reflexivity); congruence.
Qed.

(* ---- the result heap ------------------------------------------------------------------------------------------ *)

(* what a FRESH annotable object holds as annotation set / containers is fresh *)
Lemma fresh_owner_parts_fresh : forall nf h seeds root fuel s' y,
  wf_heap h seeds = true -> wf_heap2 h = true -> wf_heap3 h = true ->
  memz root (owned_list h) = false -> 0 <= root < hlen h -> (length h < fuel)%nat ->
  run_seeded nf fuel h seeds root = Ok (s', R y) ->
  forall x ob sy syo k l, hlen h <= x -> hget (sh s') x = Some ob -> is_annk (okind ob) = true ->
    bget (obody ob) NM_ANN = Some (R sy) -> hget (sh s') sy = Some syo -> is_cont_key k ->
    bget (obody syo) k = Some (R l) -> hlen h <= sy /\ hlen h <= l.
Proof.
  intros nf h seeds root fuel s' y WF WF2 WF3 NO Hr Hf E x ob sy syo k l Ge G AK BA GS CK BK.
  destruct (wf_heap_parts _ _ WF) as [Hc _]. assert (CL := closedb_spec h Hc).
  destruct (deepcopy_fresh_disjoint_l nf h seeds root fuel s' y WF Hr Hf E) as [OLD _].
  assert (K : kind_at (sh s') x = Some (okind ob)) by (unfold kind_at; rewrite G; reflexivity).
  destruct (run_seeded_fresh_recorded nf fuel h seeds root s' (R y) E x (okind ob) Ge K AK) as [a Iax].
  destruct (deepcopy_bisimulation_l nf h seeds root fuel s' y WF WF2 NO Hr Hf E) as [_ [PAIR _]].
  destruct (PAIR a x Iax) as [_ [_ [oa [ob0 [Ga [Gb [_ [KD _]]]]]]]].
  assert (ob0 = ob) by congruence. subst ob0.
  assert (AKa : is_annk (okind oa) = true) by (rewrite KD; exact AK).
  destruct (deepcopy_annotation_sets_l nf h seeds root fuel s' y WF WF2 WF3 NO Hr Hf E a x oa Iax Ga AKa)
    as [done [AS [_ DC]]].
  unfold AnnState, body_of in AS. rewrite G in AS. destruct done as [|p r].
  - congruence.
  - destruct AS as [sy0 [ly [zy [B0 [GS0 [GL GZ]]]]]].
    assert (sy0 = sy) by congruence. subst sy0. rewrite GS in GS0. inversion GS0; subst syo. clear GS0.
    assert (Ip : In p (sc s')) by (apply DC; left; reflexivity).
    destruct p as [pa pb]. destruct (PAIR pa pb Ip) as [_ [Rb _]].
    assert (Fs : hlen h <= sy).
    { destruct (Z_lt_le_dec sy (hlen h)) as [Lt|]; [|assumption]. exfalso. rewrite (OLD sy Lt) in GS.
      assert (V : vsrc h (R x)) by (refine (proj2 (CL sy _ NM_TARGET (R x) GS _)); simpl; auto).
      simpl in V. lia. }
    split; [exact Fs|].
    destruct CK as [CK|CK]; subst k; simpl in BK; inversion BK; subst l.
    + destruct (Z_lt_le_dec ly (hlen h)) as [Lt|]; [|assumption]. exfalso. rewrite (OLD ly Lt) in GL.
      assert (V : vsrc h (R pb)) by (refine (proj2 (CL ly _ (pidx 0) (R pb) GL _)); simpl; left; reflexivity).
      simpl in V. lia.
    + destruct (Z_lt_le_dec zy (hlen h)) as [Lt|]; [|assumption]. exfalso. rewrite (OLD zy Lt) in GZ.
      assert (V : vsrc h (R pb)) by (refine (proj1 (CL zy _ (R pb) PNone GZ _)); simpl; left; reflexivity).
      simpl in V. lia.
Qed.

Theorem result_heap_share_l : forall nf h seeds root fuel s' y,
  wf_heap h seeds = true -> wf_heap2 h = true -> wf_heap3 h = true -> wf_heap4 h = true ->
  memz root (owned_list h) = false -> 0 <= root < hlen h -> (length h < fuel)%nat ->
  run_seeded nf fuel h seeds root = Ok (s', R y) ->
  ShareOK (sh s').
Proof.
  intros nf h seeds root fuel s' y WF WF2 WF3 WF4 NO Hr Hf E.
  assert (EX' := result_heap_exact_l nf h seeds root fuel s' y WF WF2 WF3 WF4 NO Hr Hf E).
  destruct (wf_heap_parts _ _ WF) as [Hc _]. assert (CL := closedb_spec h Hc).
  destruct (deepcopy_fresh_disjoint_l nf h seeds root fuel s' y WF Hr Hf E) as [OLD _].
  destruct (run_inv23 nf h seeds root fuel s' y WF WF2 WF3 NO Hr Hf E) as [_ J3].
  assert (FR := fresh_owner_parts_fresh nf h seeds root fuel s' y WF WF2 WF3 NO Hr Hf E).
  assert (OLDF : forall x o s so k l0, x < hlen h -> hget (sh s') x = Some o -> bget (obody o) NM_ANN = Some (R s) ->
            hget (sh s') s = Some so -> bget (obody so) k = Some (R l0) ->
            hget h x = Some o /\ hget h s = Some so /\ l0 < hlen h).
  { intros x o s so k l0 Lt G BA GS BK. rewrite (OLD x Lt) in G. split; [exact G|].
    assert (V : vsrc h (R s)) by (refine (proj2 (CL x o NM_ANN (R s) G _)); apply bget_In; exact BA).
    simpl in V. rewrite (OLD s) in GS by lia. split; [exact GS|].
    assert (V2 : vsrc h (R l0)) by (refine (proj2 (CL s so k (R l0) GS _)); apply bget_In; exact BK).
    simpl in V2. lia. }
  intros x1 x2 o1 o2 s1 s2 so1 so2 k1 k2 l G1 G2 AK1 AK2 BA1 BA2 GS1 GS2 CK1 CK2 B1 B2.
  destruct (Z_lt_le_dec x1 (hlen h)) as [L1|F1]; destruct (Z_lt_le_dec x2 (hlen h)) as [L2|F2].
  - destruct (OLDF _ _ _ _ _ _ L1 G1 BA1 GS1 B1) as [G1' [GS1' _]].
    destruct (OLDF _ _ _ _ _ _ L2 G2 BA2 GS2 B2) as [G2' [GS2' _]].
    assert (I1 := in_gconts h o1 s1 so1 k1 l AK1 BA1 GS1' CK1 B1).
    assert (I2 := in_gconts h o2 s2 so2 k2 l AK2 BA2 GS2' CK2 B2).
    destruct (hget_nth _ _ _ G1') as [N1 P1]. destruct (hget_nth _ _ _ G2') as [N2 P2].
    assert (EQ := flat_map_nodup_idx (gconts h) h _ _ o1 o2 l (wf4_nodup h WF4) N1 N2 I1 I2).
    assert (x1 = x2) by lia. subst x2. congruence.
  - destruct (OLDF _ _ _ _ _ _ L1 G1 BA1 GS1 B1) as [_ [_ Lo]].
    destruct (FR x2 o2 s2 so2 k2 l F2 G2 AK2 BA2 GS2 CK2 B2) as [_ Hi]. lia.
  - destruct (OLDF _ _ _ _ _ _ L2 G2 BA2 GS2 B2) as [_ [_ Lo]].
    destruct (FR x1 o1 s1 so1 k1 l F1 G1 AK1 BA1 GS1 CK1 B1) as [_ Hi]. lia.
  - destruct (FR x1 o1 s1 so1 k1 l F1 G1 AK1 BA1 GS1 CK1 B1) as [Fs1 _].
    destruct (FR x2 o2 s2 so2 k2 l F2 G2 AK2 BA2 GS2 CK2 B2) as [Fs2 _].
    assert (KS1 := exact_set_kind _ _ _ _ _ EX' G1 AK1 BA1 GS1).
    assert (KS2 := exact_set_kind _ _ _ _ _ EX' G2 AK2 BA2 GS2).
    exact (own_cont _ _ J3 s1 s2 so1 so2 k1 k2 l Fs1 Fs2 GS1 GS2 KS1 KS2 CK1 CK2 B1 B2).
Qed.

Theorem result_heap_nodup_l : forall nf h seeds root fuel s' y,
  wf_heap h seeds = true -> wf_heap2 h = true -> wf_heap3 h = true -> wf_heap4 h = true ->
  memz root (owned_list h) = false -> 0 <= root < hlen h -> (length h < fuel)%nat ->
  run_seeded nf fuel h seeds root = Ok (s', R y) ->
  NoDup (owned_conts (sh s')).
Proof.
  intros nf h seeds root fuel s' y WF WF2 WF3 WF4 NO Hr Hf E. apply exact_nodup.
  - exact (result_heap_exact_l nf h seeds root fuel s' y WF WF2 WF3 WF4 NO Hr Hf E).
  - exact (result_heap_share_l nf h seeds root fuel s' y WF WF2 WF3 WF4 NO Hr Hf E).
Qed.

Theorem result_heap_wf4_l : forall nf h seeds root fuel s' y,
  wf_heap h seeds = true -> wf_heap2 h = true -> wf_heap3 h = true -> wf_heap4 h = true ->
  memz root (owned_list h) = false -> 0 <= root < hlen h -> (length h < fuel)%nat ->
  run_seeded nf fuel h seeds root = Ok (s', R y) ->
  wf_heap4 (sh s') = true.
Proof.
  intros nf h seeds root fuel s' y WF WF2 WF3 WF4 NO Hr Hf E.
  assert (EX' := result_heap_exact_l nf h seeds root fuel s' y WF WF2 WF3 WF4 NO Hr Hf E).
  unfold wf_heap4. apply andb_true_iff. split.
  - apply forallbi_intro. intros n ob N. apply nth_hget in N. rewrite Z.add_0_l.
    destruct (is_annk (okind ob)) eqn:AK; [|reflexivity]. simpl. exact (exact_owned_exact _ _ _ EX' N AK).
  - apply nodup_z_complete. exact (result_heap_nodup_l nf h seeds root fuel s' y WF WF2 WF3 WF4 NO Hr Hf E).
Qed.
