(* C19: concatenate - the free-name loop terminates; rows and recorded subsets of the result *)
From Coq Require Import ZArith List Bool Lia FinFun.
From DV Require Import Model.PyPrims Model.C19Model Proofs.C19Alist Proofs.C19Rows Proofs.C19Cols.
Import ListNotations.
Open Scope Z_scope.

Definition row_of (t : tid) (rs : rows) : row := match aget t rs with Some r => r | None => [] end.

Definition zsum (l : list Z) : Z := fold_right Z.add 0 l.

Definition wf_matrix (T : list tid) (m : matrix) : Prop :=
  NoDup (keys (m_rows m)) /\ incl (keys (m_rows m)) T.

Section L.
Variable lower : lbl -> lbl.
Variable suffix : lbl -> Z -> lbl.
Variable locus : Z -> lbl.

Notation has_key := (has_key lower).
Notation free_name := (free_name lower suffix).
Notation old_free_name := (old_free_name lower suffix).

Definition lkeys (ss : subsets) : list lbl := map (fun p => lower (fst p)) ss.

Lemma has_key_In l ss : has_key l ss = true <-> In (lower l) (lkeys ss).
Proof.
  unfold C19Model.has_key, lkeys. rewrite existsb_exists, in_map_iff. split.
  - intros [p [H E]]. apply Z.eqb_eq in E. exists p. split; assumption.
  - intros [p [E H]]. exists p. split; [exact H | apply Z.eqb_eq; exact E].
Qed.

Lemma has_key_app l a b : has_key l (a ++ b) = has_key l a || has_key l b.
Proof. unfold C19Model.has_key. apply existsb_app. Qed.

(* ---- the loop as written now ---- *)
Lemma free_name_no_err : forall fuel ss nl c i e, free_name fuel ss nl c i <> Err e.
Proof.
  induction fuel as [|f IH]; intros ss nl c i e; simpl; [discriminate|].
  destruct (has_key c ss); [apply IH | discriminate].
Qed.

Lemma free_name_out : forall fuel ss nl c i,
  free_name fuel ss nl c i = OutOfFuel ->
  ((0 < fuel)%nat -> has_key c ss = true) /\
  (forall k, 0 <= k < Z.of_nat fuel - 1 -> has_key (suffix nl (i + k)) ss = true).
Proof.
  induction fuel as [|f IH]; intros ss nl c i H; simpl in H.
  - split; [lia | intros k Hk; lia].
  - destruct (has_key c ss) eqn:E; [|discriminate].
    apply IH in H. destruct H as [H1 H2]. split; [reflexivity|].
    intros k Hk. destruct (Z.eq_dec k 0) as [K|K].
    + subst. rewrite Z.add_0_r. apply H1. lia.
    + replace (i + k) with (i + 1 + (k - 1)) by lia. apply H2. lia.
Qed.

Lemma free_name_ok : forall fuel ss nl c i r,
  free_name fuel ss nl c i = Ok r ->
  has_key r ss = false /\
  (r = c \/ exists j, i <= j /\ r = suffix nl j /\ has_key c ss = true /\
                      forall j', i <= j' < j -> has_key (suffix nl j') ss = true).
Proof.
  induction fuel as [|f IH]; intros ss nl c i r H; simpl in H; [discriminate|].
  destruct (has_key c ss) eqn:E.
  - apply IH in H. destruct H as [H1 H2]. split; [exact H1|]. right.
    destruct H2 as [H2|[j [Hj [Er [Hc Hall]]]]].
    + exists i. split; [lia|]. split; [exact H2|]. split; [reflexivity|]. intros j' Hj'. lia.
    + exists j. split; [lia|]. split; [exact Er|]. split; [reflexivity|].
      intros j' Hj'. destruct (Z.eq_dec j' i); [subst; exact Hc | apply Hall; lia].
  - inversion H; subst. split; [exact E | left; reflexivity].
Qed.

(* ---- HISTORY: the loop before the fix (F12) never leaves once entered ---- *)
Lemma old_loop_guard_fixed : forall fuel ss nl c lab i,
  has_key c ss = true -> old_free_name fuel ss nl c lab i = OutOfFuel.
Proof.
  induction fuel as [|f IH]; intros ss nl c lab i H; simpl; [reflexivity|].
  rewrite H. apply IH. exact H.
Qed.

Lemma old_loop_not_entered : forall fuel ss nl c lab i,
  has_key c ss = false -> old_free_name (S fuel) ss nl c lab i = Ok c.
Proof. intros. simpl. rewrite H. reflexivity. Qed.

Section Inj.
(* "%s_%03d" % (l, i) determines i, also after case folding *)
Hypothesis suffix_inj : forall l i j, lower (suffix l i) = lower (suffix l j) -> i = j.

Lemma pigeon ss nl :
  ~ (forall k, 0 <= k < Z.of_nat (S (length ss)) -> has_key (suffix nl (2 + k)) ss = true).
Proof.
  intros H.
  set (f := fun k : nat => lower (suffix nl (2 + Z.of_nat k))).
  assert (Inj : Injective f).
  { intros a b E. unfold f in E. apply suffix_inj in E. lia. }
  assert (ND : NoDup (map f (seq 0 (S (length ss))))) by (apply Injective_map_NoDup; [exact Inj | apply seq_NoDup]).
  assert (Inc : incl (map f (seq 0 (S (length ss)))) (lkeys ss)).
  { intros x Hx. apply in_map_iff in Hx. destruct Hx as [k [E Hk]]. apply in_seq in Hk. subst x.
    apply has_key_In. apply H. lia. }
  apply NoDup_incl_length in Inc; [|exact ND].
  rewrite map_length, seq_length in Inc. unfold lkeys in Inc. rewrite map_length in Inc. lia.
Qed.

Lemma free_name_terminates ss nl :
  exists r, free_name (free_name_fuel ss) ss nl nl 2 = Ok r.
Proof.
  destruct (free_name (free_name_fuel ss) ss nl nl 2) as [r|e|] eqn:E.
  - exists r. reflexivity.
  - exfalso. exact (free_name_no_err _ _ _ _ _ _ E).
  - exfalso. apply free_name_out in E. destruct E as [_ E]. apply (pigeon ss nl).
    intros k Hk. apply E. unfold free_name_fuel. lia.
Qed.

(* the number of loop iterations: the name found is the label itself or carries a counter
   of at most |subsets| + 2, i.e. the body ran at most |subsets| + 1 times *)
Lemma free_name_bound ss nl r :
  free_name (free_name_fuel ss) ss nl nl 2 = Ok r ->
  r = nl \/ exists j, 2 <= j <= 2 + Z.of_nat (length ss) /\ r = suffix nl j.
Proof.
  intros H. apply free_name_ok in H. destruct H as [_ [H|[j [Hj [Er [_ Hall]]]]]]; [left; exact H|].
  right. exists j. split; [|exact Er]. split; [exact Hj|].
  destruct (Z_le_gt_dec j (2 + Z.of_nat (length ss))) as [L|G]; [exact L|]. exfalso.
  apply (pigeon ss nl). intros k Hk. apply Hall. lia.
Qed.

End Inj.

(* ---- the loop over the matrices ---- *)
Definition base_label (cidx : Z) (cm : matrix) : lbl :=
  match m_label cm with None => locus cidx | Some b => b end.

Definition name_ok (taken : subsets) (base l : lbl) : Prop :=
  has_key l taken = false /\
  (l = base \/ exists i, 2 <= i /\ l = suffix base i /\ has_key base taken = true /\
                         forall j, 2 <= j < i -> has_key (suffix base j) taken = true).

Fixpoint names_ok (taken : subsets) (cidx pos : Z) (cms : list matrix) (new : subsets) : Prop :=
  match cms, new with
  | [], [] => True
  | cm :: cms', (l, idx) :: new' =>
    name_ok taken (base_label cidx cm) l /\
    idx = zrange pos (vector_size (m_rows cm)) /\
    names_ok (taken ++ [(l, idx)]) (cidx + 1) (pos + vector_size (m_rows cm)) cms' new'
  | _, _ => False
  end.

Definition cm_ok (T : list tid) (ns0 : nsid) (nseqs : Z) (cm : matrix) : Prop :=
  m_ns cm = ns0 /\ zlen (m_rows cm) = zlen T /\ zlen (m_rows cm) = nseqs /\
  exists t0 T' r0, T = t0 :: T' /\ aget t0 (m_rows cm) = Some r0 /\
    forall t r, In t T -> aget t (m_rows cm) = Some r -> zlen r = zlen r0.

Notation concat_loop := (concat_loop lower suffix locus).

Lemma concat_loop_ok T ns0 nseqs : forall cms cidx acc pos res,
  m_ns acc = ns0 ->
  concat_loop T ns0 nseqs cms cidx acc pos = Ok res ->
  Forall (cm_ok T ns0 nseqs) cms /\
  m_ns res = ns0 /\ m_label res = m_label acc /\
  m_rows res = fold_left extend_matrix_rows (map m_rows cms) (m_rows acc) /\
  exists new, m_subs res = m_subs acc ++ new /\ names_ok (m_subs acc) cidx pos cms new.
Proof.
  induction cms as [|cm rest IH]; intros cidx acc pos res Hns H.
  - simpl in H. inversion H; subst. repeat split; try constructor.
    exists []. split; [symmetry; apply app_nil_r | exact I].
  - cbn [C19Model.concat_loop] in H.
    destruct (Z.eqb_spec (m_ns cm) ns0) as [E1|E1]; cbn [negb] in H; [|discriminate].
    destruct (Z.eqb_spec (zlen (m_rows cm)) (zlen T)) as [E2|E2]; cbn [negb] in H; [|discriminate].
    destruct (Z.eqb_spec (zlen (m_rows cm)) nseqs) as [E3|E3]; cbn [negb] in H; [|discriminate].
    destruct T as [|t0 T']; [discriminate|].
    destruct (aget t0 (m_rows cm)) as [r0|] eqn:G0; [|discriminate].
    destruct (forallb (fun p => Z.eqb (zlen (snd p)) (zlen r0)) (items (t0 :: T') (m_rows cm))) eqn:FA;
      cbn [negb] in H; [|discriminate].
    unfold extend_matrix, same_ns in H. rewrite E1, Hns, Z.eqb_refl in H. cbn [negb] in H.
    cbv zeta in H. fold (base_label cidx cm) in H.
    set (acc1 := set_rows acc (extend_matrix_rows (m_rows acc) (m_rows cm))) in *.
    destruct (C19Model.free_name lower suffix (free_name_fuel (m_subs acc1)) (m_subs acc1) (base_label cidx cm) (base_label cidx cm) 2)
      as [cs| |] eqn:FN; try discriminate.
    unfold new_character_subset in H.
    destruct (has_key cs (m_subs acc1)) eqn:HK; [discriminate|].
    apply IH in H; [|exact Hns].
    destruct H as [HF [R1 [R2 [R3 [new [R4 R5]]]]]].
    split.
    { constructor; [|exact HF]. split; [exact E1|]. split; [exact E2|]. split; [exact E3|].
      exists t0, T', r0. split; [reflexivity|]. split; [exact G0|].
      intros t r Ht Hg. rewrite forallb_forall in FA.
      specialize (FA (t, r)). apply Z.eqb_eq. apply FA. apply items_In. split; assumption. }
    split; [exact R1|]. split; [exact R2|]. split; [exact R3|].
    cbn [m_subs set_subs set_rows acc1] in R4, R5 |- *.
    exists ((cs, zrange pos (vector_size (m_rows cm))) :: new).
    split; [rewrite R4, <- app_assoc; reflexivity|].
    cbn [names_ok]. split; [|split; [reflexivity | exact R5]].
    apply free_name_ok in FN. destruct FN as [F1 F2]. split; [exact HK|].
    destruct F2 as [F2|[j [Hj [Er [Hc Hall]]]]]; [left; exact F2|].
    right. exists j. repeat split; assumption.
Qed.

Lemma concat_loop_no_out_of_fuel T ns0 nseqs
  (suffix_inj : forall l i j, lower (suffix l i) = lower (suffix l j) -> i = j) :
  forall cms cidx acc pos, m_ns acc = ns0 -> concat_loop T ns0 nseqs cms cidx acc pos <> OutOfFuel.
Proof.
  induction cms as [|cm rest IH]; intros cidx acc pos Hns; [discriminate|].
  cbn [C19Model.concat_loop].
  destruct (Z.eqb_spec (m_ns cm) ns0) as [E1|E1]; cbn [negb]; [|discriminate].
  destruct (negb (Z.eqb (zlen (m_rows cm)) (zlen T))); [discriminate|].
  destruct (negb (Z.eqb (zlen (m_rows cm)) nseqs)); [discriminate|].
  destruct T as [|t0 T']; [discriminate|].
  destruct (aget t0 (m_rows cm)) as [r0|]; [|discriminate].
  destruct (negb (forallb (fun p => Z.eqb (zlen (snd p)) (zlen r0)) (items (t0 :: T') (m_rows cm)))); [discriminate|].
  unfold extend_matrix, same_ns. rewrite E1, Hns, Z.eqb_refl. cbn [negb]. cbv zeta.
  set (acc1 := set_rows acc (extend_matrix_rows (m_rows acc) (m_rows cm))).
  destruct (free_name_terminates suffix_inj (m_subs acc1) (match m_label cm with None => locus cidx | Some l => l end)) as [cs FN].
  rewrite FN. unfold new_character_subset.
  destruct (has_key cs (m_subs acc1)); [discriminate|].
  apply IH. exact Hns.
Qed.

(* per-position reading of names_ok *)
Lemma names_ok_nth : forall cms taken cidx pos new,
  names_ok taken cidx pos cms new ->
  length new = length cms /\
  forall k cm l idx, nth_error cms k = Some cm -> nth_error new k = Some (l, idx) ->
    name_ok (taken ++ firstn k new) (base_label (cidx + Z.of_nat k) cm) l /\
    idx = zrange (pos + zsum (map (fun c => vector_size (m_rows c)) (firstn k cms))) (vector_size (m_rows cm)).
Proof.
  induction cms as [|cm0 cms IH]; intros taken cidx pos new H.
  - destruct new; [|contradiction]. split; [reflexivity|]. intros k cm l idx Hk. destruct k; discriminate.
  - destruct new as [|[l0 idx0] new]; [contradiction|].
    cbn [names_ok] in H. destruct H as [H1 [H2 H3]].
    apply IH in H3. destruct H3 as [L H3]. split; [simpl; f_equal; exact L|].
    intros k cm l idx Hc Hn. destruct k as [|k]; simpl in Hc, Hn.
    + inversion Hc; inversion Hn; subst. simpl. rewrite app_nil_r, !Z.add_0_r. split; [exact H1 | reflexivity].
    + destruct (H3 k cm l idx Hc Hn) as [A B]. split.
      * simpl firstn. rewrite <- app_assoc in A. simpl in A.
        replace (cidx + Z.of_nat (S k)) with (cidx + 1 + Z.of_nat k) by lia. exact A.
      * rewrite B. simpl firstn. simpl map. unfold zsum. simpl fold_right. f_equal. unfold zsum. lia.
Qed.

Lemma names_ok_nodup : forall cms taken cidx pos new,
  names_ok taken cidx pos cms new -> NoDup (lkeys taken) -> NoDup (lkeys (taken ++ new)).
Proof.
  induction cms as [|cm0 cms IH]; intros taken cidx pos new H ND.
  - destruct new; [|contradiction]. rewrite app_nil_r. exact ND.
  - destruct new as [|[l0 idx0] new]; [contradiction|].
    cbn [names_ok] in H. destruct H as [[H1 _] [_ H3]].
    apply IH in H3.
    + rewrite <- app_assoc in H3. exact H3.
    + unfold lkeys. rewrite map_app. simpl. apply NoDup_app_snoc; [exact ND|].
      intro Hin. apply has_key_In in Hin. congruence.
Qed.

End L.

(* ---- rows of the result ---- *)
Lemma fold_extend_get : forall (rss : list rows) (s : rows) t,
  Forall (fun rs => NoDup (keys rs)) rss ->
  aget t (fold_left extend_matrix_rows rss s) =
  if ahas t s || existsb (ahas t) rss then Some (row_of t s ++ concat (map (row_of t) rss)) else None.
Proof.
  induction rss as [|rs rss IH]; intros s t HF; simpl.
  - unfold ahas, row_of. destruct (aget t s); simpl; [rewrite app_nil_r|]; reflexivity.
  - inversion HF as [|? ? ND HF']; subst. rewrite IH by exact HF'.
    assert (G := extend_rows_get true s rs t ND). rewrite <- extend_matrix_rows_eq in G.
    unfold ahas, row_of. rewrite G.
    destruct (aget t s) as [r|], (aget t rs) as [r'|]; simpl; try rewrite app_assoc; try reflexivity;
      try (rewrite app_nil_r; reflexivity).
Qed.

Lemma filter_none {A} (f : A -> bool) (l : list A) : (forall x, In x l -> f x = false) -> filter f l = [].
Proof.
  induction l as [|x l IH]; intros H; simpl; [reflexivity|].
  rewrite (H x) by (left; reflexivity). apply IH. intros y Hy. apply H. right. exact Hy.
Qed.

Lemma fold_extend_keys_same : forall (rss : list rows) (s : rows),
  Forall (fun rs => NoDup (keys rs) /\ incl (keys rs) (keys s)) rss ->
  keys (fold_left extend_matrix_rows rss s) = keys s.
Proof.
  induction rss as [|rs rss IH]; intros s HF; simpl; [reflexivity|].
  inversion HF as [|? ? [ND Inc] HF']; subst.
  assert (K : keys (extend_matrix_rows s rs) = keys s).
  { rewrite extend_matrix_rows_eq, extend_rows_keys by exact ND.
    replace (filter (fun t => negb (ahas t s)) (keys rs)) with (@nil Z); [apply app_nil_r|].
    symmetry. apply filter_none. intros x Hx.
    assert (Hs : ahas x s = true) by (apply ahas_In; apply Inc; exact Hx).
    rewrite Hs. reflexivity. }
  rewrite IH; [exact K|]. rewrite K. exact HF'.
Qed.

Lemma extend_from_empty (rs : rows) : NoDup (keys rs) -> keys (extend_matrix_rows [] rs) = keys rs.
Proof.
  intros ND. rewrite extend_matrix_rows_eq, extend_rows_keys by exact ND. simpl.
  apply filter_all_true. reflexivity.
Qed.

(* a well-formed matrix with as many sequences as its namespace has taxa has one for every taxon *)
Lemma all_taxa_present T m : NoDup T -> wf_matrix T m -> zlen (m_rows m) = zlen T ->
  forall t, In t T -> In t (keys (m_rows m)).
Proof.
  intros NT [ND Inc] L t Ht.
  refine (NoDup_length_incl ND _ Inc t Ht).
  unfold zlen in L. unfold keys. rewrite map_length. apply Nat2Z.inj in L.
  apply Nat.eq_le_incl. symmetry. exact L.
Qed.

Lemma concat_first_row_present T m t0 T' :
  NoDup T -> wf_matrix T m -> zlen (m_rows m) = zlen T -> T = t0 :: T' -> aget t0 (m_rows m) <> None.
Proof.
  intros NT W L E H. apply aget_None in H. apply H.
  apply (all_taxa_present T m NT W L). subst. left. reflexivity.
Qed.

Lemma vector_size_first (rs : rows) : rs <> [] ->
  exists t r, In t (keys rs) /\ aget t rs = Some r /\ vector_size rs = zlen r.
Proof.
  destruct rs as [|[t r] rs]; [congruence|]. intros _. exists t, r. simpl.
  rewrite Z.eqb_refl. split; [left; reflexivity | split; reflexivity].
Qed.
