(* C03 proofs: the invariant holds for both forms (before / after the repair) of the repaired
   sites: run_op_v v for every v.  With the repaired to_outgroup_position (v_outgroup_first) the coverage
   is covered3: EVERY live outgroup node, with or without suppression, and every pick of
   randomly_reorient - the exclusions of covered2 belong to the old form only. *)
From Coq Require Import ZArith List Bool Lia.
From DV Require Import Model.PyPrims Model.Tree Model.Heap Model.HeapOps
  Proofs.C03Base Proofs.C03Abs Proofs.C03PruneLoops Proofs.C03Hist Proofs.C03Hist2 Proofs.C03Outgroup.
Import ListNotations.
Open Scope Z_scope.

Lemma ends_wf_relabel a b r : ends_wf r -> ends_wf (relabel_err a b r).
Proof.
  intros [h' [W [E|[e E]]]]; subst r; exists h'; (split; [exact W|]); simpl.
  - left. reflexivity.
  - right. destruct (err_eqb e a); eexists; reflexivity.
Qed.

Lemma ends_wf_tail (ub su : bool) r :
  ends_wf r ->
  ends_wf (hbind r (fun h1 => hbind (if su then suppress_unifurcations h1 else HOk h1) (ub_tail_su ub su))).
Proof.
  intros [h' [W [E|[e E]]]]; subst r; simpl.
  - destruct (tail_outcome ub su h' (fun _ => False) [] W) as [[h2 [E2 W2]]|[e [h2 [_ [[] _]]]]].
    exists h2. split; [exact W2|left; exact E2].
  - exists h'. split; [exact W|right; exists e; reflexivity].
Qed.

(* coverage for the repaired to_outgroup_position *)
Definition covered3 (h : heap) (o : op) : Prop :=
  match o with
  | OToOutgroup og _ _ => live h og
  | ORandomlyReorient pick perms ub => randomly_reorient_r pick perms ub h <> HFuel
  | _ => covered2 h o
  end.

Definition covered_v (v : variants) (h : heap) (o : op) : Prop :=
  if v_outgroup_first v then covered3 h o else covered2 h o.

Lemma op_wf_variants_old v h o : WF h -> covered2 h o ->
  (forall og ub su, o <> OToOutgroup og ub su) -> (forall pick perms ub, o <> ORandomlyReorient pick perms ub) ->
  ends_wf (run_op_v v o h).
Proof.
  intros W C N1 N2. pose proof (op_wf2_l h o W C) as E.
  destruct o; try exact E; unfold run_op_v.
  - exfalso. eapply N1. reflexivity.
  - destruct (v_seed_guard v); [apply ends_wf_relabel|]; exact E.
  - assert (E' : ends_wf (if v_seed_guard v
                          then relabel_err AttrErr OtherErr (run_op (OPruneNodes nodes plwt ub su) h)
                          else run_op (OPruneNodes nodes plwt ub su) h)).
    { destruct (v_seed_guard v); [apply ends_wf_relabel|]; exact E. }
    cbv zeta. destruct (v_prune_nodes_tail v && negb plwt); [apply ends_wf_tail|]; exact E'.
  - destruct (v_seed_guard v); [apply ends_wf_relabel|]; exact E.
  - destruct (v_seed_guard v); [apply ends_wf_relabel|]; exact E.
  - exfalso. eapply N2. reflexivity.
Qed.

Theorem op_wf_variants_l v h o : WF h -> covered_v v h o -> ends_wf (run_op_v v o h).
Proof.
  intros W C. unfold covered_v in C. destruct (v_outgroup_first v) eqn:Hv.
  - destruct o; try (apply op_wf_variants_old; [exact W|exact C|discriminate|discriminate]).
    + unfold run_op_v. rewrite Hv. apply to_outgroup_r_ends; assumption.
    + unfold run_op_v. rewrite Hv. apply randomly_reorient_r_ends; assumption.
  - destruct o; try (apply op_wf_variants_old; [exact W|exact C|discriminate|discriminate]).
    + unfold run_op_v. rewrite Hv. exact (op_wf2_l h _ W C).
    + unfold run_op_v. rewrite Hv. exact (op_wf2_l h _ W C).
Qed.

Fixpoint valid_hist_v (v : variants) (ops : list op) (h : heap) : Prop :=
  match ops with
  | [] => True
  | o :: r =>
    covered_v v h o /\
    forall h', (run_op_v v o h = HOk h' \/ exists e, run_op_v v o h = HErr e h') -> valid_hist_v v r h'
  end.

Theorem history_wf_variants_l v ops : forall h,
  WF h -> valid_hist_v v ops h -> exists h', run_hist_v v ops h = Some h' /\ WF h'.
Proof.
  induction ops as [|o r IH]; intros h W V; simpl.
  - exists h. split; [reflexivity|exact W].
  - destruct V as [C V]. destruct (op_wf_variants_l v h o W C) as [h1 [W1 [E|[e E]]]].
    + rewrite E. apply IH; [exact W1|]. apply V. left. exact E.
    + rewrite E. apply IH; [exact W1|]. apply V. right. exists e. exact E.
Qed.

(* the unrepaired form is the plain interpreter *)
Lemma run_op_v_old o h : run_op_v (mkVariants false false false) o h = run_op o h.
Proof. destruct o; reflexivity. Qed.
