(* C01, second wave: idempotence characterisation, laminarity of normalised splits, tree-level
   compatibility for unrooted trees, unrooted iff without the side hypothesis on the seed. *)
From Coq Require Import ZArith List Bool Lia ZifyBool Permutation.
From DV Require Import Model.PyPrims Model.Tree Gen.BitFns Model.C01Model
  Proofs.C01Bits Proofs.C01Enc Proofs.C01Bip Proofs.C01Topo Proofs.C01From Proofs.C01Unrooted.
Import ListNotations.
Open Scope Z_scope.

(* ------------------------------------------------------------------------------------------ *)
(* (5) encode_idempotent: exactly when the first call is already a fixed point                 *)

Lemma encode_rooted_truth acc rooted t : is_true (r_rooted (encode acc rooted t)) = is_true rooted.
Proof.
  rewrite encode_spec. cbv zeta. cbn [r_rooted]. unfold pre_collapse.
  destruct (negb (is_true rooted) && (nkids t =? 2)) eqn:E; cbn [snd]; [| reflexivity].
  destruct (snd (collapse_basal t)); [| reflexivity].
  apply andb_true_iff in E. destruct E as [E _]. apply negb_true_iff in E. rewrite E. reflexivity.
Qed.

Lemma encode_fixed_point_iff_l acc rooted t :
  let r := encode acc rooted t in
  encode acc (r_rooted r) (r_tree r) = r <->
  (is_true rooted = true \/ nkids (r_tree r) <> 2 \/ snd (collapse_basal (r_tree r)) = false).
Proof.
  intro r. pose proof (encode_rooted_truth acc rooted t) as RT. fold r in RT.
  assert (UF : unif_free (r_tree r) = true) by (apply (encode_structure_l acc rooted t)).
  assert (RS : r = mkEnc (r_tree r) (r_rooted r)
                     (spec_edges acc (r_rooted r) (cmask acc (r_tree r)) (r_tree r))
                     (map snd (spec_edges acc (r_rooted r) (cmask acc (r_tree r)) (r_tree r)))).
  { unfold r at 1. rewrite (encode_spec acc rooted t). cbv zeta.
    replace (cmask acc (r_tree r)) with (cmask acc t).
    - unfold r. rewrite (encode_spec acc rooted t). cbv zeta. cbn [r_tree r_rooted]. reflexivity.
    - unfold cmask, r. rewrite leaf_taxa_result. reflexivity. }
  rewrite (encode_spec acc (r_rooted r) (r_tree r)). cbv zeta.
  split.
  - intro E.
    destruct (is_true rooted) eqn:R; [left; reflexivity | right].
    destruct (Z.eqb_spec (nkids (r_tree r)) 2) as [N2 | N2]; [right | left; exact N2].
    destruct (snd (collapse_basal (r_tree r))) eqn:C; [exfalso | reflexivity].
    apply (f_equal r_tree) in E. cbn [r_tree] in E.
    unfold pre_collapse in E. rewrite RT, N2 in E. change (2 =? 2) with true in E. cbn [negb andb fst] in E.
    pose proof (collapse_basal_nkids (r_tree r) C UF) as N3.
    rewrite (suppress_id _ (collapse_basal_unif_free _ UF)) in E. rewrite E in N3. lia.
  - intro H.
    assert (PC : pre_collapse (r_rooted r) (r_tree r) = (r_tree r, r_rooted r)).
    { unfold pre_collapse. rewrite RT. destruct H as [H | [H | H]].
      - rewrite H. reflexivity.
      - replace (nkids (r_tree r) =? 2) with false by lia. rewrite andb_false_r. reflexivity.
      - destruct (negb (is_true rooted) && (nkids (r_tree r) =? 2)); [| reflexivity].
        rewrite H, (collapse_basal_false _ H). reflexivity. }
    rewrite PC. cbn [fst snd]. rewrite (suppress_id _ UF). symmetry. exact RS.
Qed.

(* ------------------------------------------------------------------------------------------ *)
(* normalisation keeps a laminar pair laminar                                                  *)

Lemma norm_value S low m : lowest S low ->
  norm S m = if Z.testbit m low then Z.land (Z.lnot m) S else Z.land m S.
Proof.
  intro Hl. assert (SN : S <> 0).
  { destruct Hl as (_ & H & _). intro E. unfold mem in H. rewrite E, Z.bits_0 in H. discriminate. }
  unfold norm. destruct (lsb_pow2 S SN) as (k & Hk & E). assert (k = low) by (apply (lowest_unique S); assumption).
  subst k. rewrite E. apply normalize_eq. destruct Hl; assumption.
Qed.

Lemma norm_laminar S low a b : lowest S low -> msubset a S -> msubset b S ->
  laminar a b -> laminar (norm S a) (norm S b).
Proof.
  intros Hl SA SB L. pose proof Hl as (Hl0 & _ & _).
  rewrite (norm_value S low a Hl), (norm_value S low b Hl).
  assert (TA : forall i, 0 <= i -> Z.testbit a i = true -> Z.testbit S i = true) by (intros i Hi H; exact (SA i Hi H)).
  assert (TB : forall i, 0 <= i -> Z.testbit b i = true -> Z.testbit S i = true) by (intros i Hi H; exact (SB i Hi H)).
  unfold laminar, mdisjoint, msubset, mem in *.
  destruct (Z.testbit a low) eqn:Ea, (Z.testbit b low) eqn:Eb.
  - (* both complemented: nesting is reversed; disjointness is impossible *)
    destruct L as [L | [L | L]].
    + exfalso. exact (L low Hl0 Ea Eb).
    + right. right. intros i Hi. rewrite !Z.land_spec, !Z.lnot_spec by lia. intro H.
      apply andb_true_iff in H. destruct H as [H1 H2]. rewrite H2, andb_true_r. apply negb_true_iff in H1.
      apply negb_true_iff. destruct (Z.testbit a i) eqn:E; [| reflexivity]. rewrite (L i Hi E) in H1. discriminate.
    + right. left. intros i Hi. rewrite !Z.land_spec, !Z.lnot_spec by lia. intro H.
      apply andb_true_iff in H. destruct H as [H1 H2]. rewrite H2, andb_true_r. apply negb_true_iff in H1.
      apply negb_true_iff. destruct (Z.testbit b i) eqn:E; [| reflexivity]. rewrite (L i Hi E) in H1. discriminate.
  - destruct L as [L | [L | L]].
    + right. right. intros i Hi. rewrite !Z.land_spec, !Z.lnot_spec by lia. intro H.
      apply andb_true_iff in H. destruct H as [H1 H2]. rewrite H2, andb_true_r. apply negb_true_iff.
      destruct (Z.testbit a i) eqn:E; [| reflexivity]. exfalso. exact (L i Hi E H1).
    + exfalso. rewrite (L low Hl0 Ea) in Eb. discriminate.
    + left. intros i Hi. rewrite !Z.land_spec, !Z.lnot_spec by lia. intros H1 H2.
      apply andb_true_iff in H1, H2. destruct H1 as [H1 _], H2 as [H2 _]. rewrite (L i Hi H2) in H1. discriminate.
  - destruct L as [L | [L | L]].
    + right. left. intros i Hi. rewrite !Z.land_spec, !Z.lnot_spec by lia. intro H.
      apply andb_true_iff in H. destruct H as [H1 H2]. rewrite H2, andb_true_r. apply negb_true_iff.
      destruct (Z.testbit b i) eqn:E; [| reflexivity]. exfalso. exact (L i Hi H1 E).
    + left. intros i Hi. rewrite !Z.land_spec, !Z.lnot_spec by lia. intros H1 H2.
      apply andb_true_iff in H1, H2. destruct H1 as [H1 _], H2 as [H2 _]. rewrite (L i Hi H1) in H2. discriminate.
    + exfalso. rewrite (L low Hl0 Eb) in Ea. discriminate.
  - destruct L as [L | [L | L]]; [left | right; left | right; right]; intros i Hi; rewrite !Z.land_spec; intros.
    + apply andb_true_iff in H, H0. apply (L i Hi); tauto.
    + apply andb_true_iff in H. destruct H as [H1 H2]. rewrite (L i Hi H1), H2. reflexivity.
    + apply andb_true_iff in H. destruct H as [H1 H2]. rewrite (L i Hi H1), H2. reflexivity.
Qed.

(* the normalised splits of one tree: inside S, low clear, pairwise laminar *)
Section USet.
  Variable acc : Z -> Z.
  Hypothesis Hnn : forall x, 0 <= acc x.
  Hypothesis Hinj : forall x y, acc x = acc y -> x = y.

  Lemma uset_elem t y : leaves_ok t = true -> In y (uset acc t) ->
    msubset y (cmask acc t) /\ Z.testbit y (low_of acc t) = false /\ norm (cmask acc t) y = y.
  Proof.
    intros LK Hy. pose proof (leaves_ok_nonzero acc Hnn Hinj t LK) as SN.
    pose proof (low_of_lowest acc t SN) as Hl. pose proof Hl as (Hl0 & _ & _).
    unfold uset in Hy. apply in_map_iff in Hy. destruct Hy as (a & <- & _).
    unfold norm. destruct (lsb_pow2 _ SN) as (k & Hk & E). assert (k = low_of acc t) by (apply (lowest_unique (cmask acc t)); assumption).
    subst k. rewrite E. split; [| split].
    - apply msubset_land. apply normalize_subset_fill. exact Hl0.
    - apply normalize_low_clear. exact Hl0.
    - apply normalize_idem. exact Hl0.
  Qed.

  Lemma uset_laminar t a b : leaves_ok t = true -> In a (uset acc t) -> In b (uset acc t) -> laminar a b.
  Proof.
    intros LK Ha Hb. pose proof (leaves_ok_nonzero acc Hnn Hinj t LK) as SN.
    destruct (leaves_ok_parts t LK) as [_ ND].
    unfold uset in Ha, Hb. apply in_map_iff in Ha, Hb. destruct Ha as (a0 & <- & Ha), Hb as (b0 & <- & Hb).
    apply (norm_laminar _ (low_of acc t)); [apply low_of_lowest; exact SN | apply clades_sub; exact Ha | apply clades_sub; exact Hb |].
    apply (clades_laminar acc t Hnn Hinj ND); assumption.
  Qed.

  (* (3) Tree.is_compatible_with_bipartition on an unrooted encoded tree, for a bipartition built
     against the same tree mask (normalised: inside S, lowest bit clear) *)
  Lemma tree_compatible_unrooted_spec_l rooted t s :
    is_true rooted = false -> leaves_ok t = true ->
    let enc := enc_splits (encode acc rooted t) in
    let S := cmask acc t in
    Z.land S s = s -> Z.testbit s (low_of acc t) = false ->
    (tree_is_compatible_with enc S s = true <->
     forall b, In b enc -> (mdisjoint b s \/ msubset b s \/ msubset s b \/ Z.lor b s = S)).
  Proof.
    intros HR LK enc S Hs Hlow.
    pose proof (leaves_ok_nonzero acc Hnn Hinj t LK) as SN. fold S in SN.
    pose proof (low_of_lowest acc t SN) as (Hl0 & Hl1 & _). fold S in Hl1.
    assert (EU : forall b, In b enc <-> In b (uset acc t)) by (intro b; apply unrooted_splits_are_uset; assumption).
    assert (PC : forall b, In b enc ->
                 (py_is_compatible_bitmasks b s S = true <-> (mdisjoint b s \/ msubset b s \/ msubset s b \/ Z.lor b s = S))).
    { intros b Hb. apply EU in Hb. destruct (uset_elem t b LK Hb) as (BS & BL & _).
      rewrite (is_compatible_normalised b s S (low_of acc t) Hl0 Hl1 BL Hlow). unfold split_compatible.
      assert (Z.land S b = b) by (rewrite Z.land_comm; apply msubset_land; exact BS). rewrite H, Hs. reflexivity. }
    rewrite tree_compatible_unfold. split.
    - intros [Hin | Hall] b Hb.
      + destruct (uset_laminar t b s LK (proj1 (EU b) Hb) (proj1 (EU s) Hin)) as [L | [L | L]]; tauto.
      + apply (PC b Hb). apply Hall. exact Hb.
    - intro H. right. intros b Hb. apply (PC b Hb). apply H. exact Hb.
  Qed.

  (* ---------------------------------------------------------------------------------------- *)
  (* (4) unrooted iff without the hypothesis on the seed: compare ucanon of the suppressed trees *)

  Lemma unif_free_kids t : unif_free t = true -> t_kids t = [] \/ (2 <= length (t_kids t))%nat.
  Proof.
    destruct t as [i x l e ks]. cbn [unif_free t_kids]. intro H. apply andb_true_iff in H. destruct H as [H _].
    destruct ks as [|a [|b q]]; [left; reflexivity | simpl in H; discriminate | right; simpl; lia].
  Qed.

  Lemma leaves_ok_child i x l e ks c : ks <> [] -> leaves_ok (T i x l e ks) = true -> In c ks -> leaves_ok c = true.
  Proof.
    intros NE LK Hc. destruct (leaves_ok_parts _ LK) as [HT ND].
    destruct ks as [|k0 kr]; [congruence|]. rewrite leaf_taxa_node in HT, ND.
    unfold leaves_ok. apply andb_true_iff. split.
    - apply (forallb_flat_map_part _ _ _ _ HT Hc).
    - apply distinct_b_complete. apply (NoDup_flat_map_part _ _ _ ND Hc).
  Qed.

  Lemma single_bit_is_leaf t k : 0 <= k -> leaves_ok t = true -> unif_free t = true -> cmask acc t = 2 ^ k ->
    t_kids t = [].
  Proof.
    intros Hk LK UF CM. destruct (unif_free_kids t UF) as [E | L]; [exact E | exfalso].
    destruct t as [i x l e ks]. cbn [t_kids] in L. destruct ks as [|c [|d q]]; try (simpl in L; lia).
    assert (NE : c :: d :: q <> []) by discriminate.
    assert (Lc : leaves_ok c = true) by (apply (leaves_ok_child i x l e _ c NE LK); left; reflexivity).
    assert (Ld : leaves_ok d = true) by (apply (leaves_ok_child i x l e _ d NE LK); right; left; reflexivity).
    destruct (leaves_ok_parts _ LK) as [_ ND]. rewrite leaf_taxa_node in ND. cbn [flat_map] in ND.
    assert (DJ : mdisjoint (cmask acc c) (cmask acc d)).
    { unfold cmask. apply (masks_disjoint acc Hnn Hinj). intros y H1 H2. apply (NoDup_app_disjoint _ _ y ND H1).
      apply in_or_app. left. exact H2. }
    assert (Sc : msubset (cmask acc c) (2 ^ k)) by (rewrite <- CM; apply child_subset; left; reflexivity).
    assert (Sd : msubset (cmask acc d) (2 ^ k)) by (rewrite <- CM; apply child_subset; right; left; reflexivity).
    assert (B : forall m, m <> 0 -> msubset m (2 ^ k) -> Z.testbit m k = true).
    { intros m M0 Sm. destruct (Z.testbit m k) eqn:E; [reflexivity | exfalso]. apply M0. apply eq0_bits. intros j Hj.
      destruct (Z.testbit m j) eqn:Ej; [| reflexivity]. specialize (Sm j Hj Ej). unfold mem in Sm.
      rewrite Z.pow2_bits_eqb in Sm by lia. apply Z.eqb_eq in Sm. subst j. congruence. }
    apply (DJ k Hk); [apply B; [apply (leaves_ok_nonzero acc Hnn Hinj c Lc) | exact Sc]
                     | apply B; [apply (leaves_ok_nonzero acc Hnn Hinj d Ld) | exact Sd]].
  Qed.

  Lemma leaves_ok_suppress t : leaves_ok t = true -> leaves_ok (suppress t) = true.
  Proof. unfold leaves_ok. rewrite leaf_taxa_suppress. intro H. exact H. Qed.

  Lemma uset_suppress t : set_eq (uset acc (suppress t)) (uset acc t).
  Proof. apply uset_of_set_eq; [apply cmask_suppress | apply clades_suppress]. Qed.

  Lemma ucanon_leaf i x l e : ucanon acc (T i x l e []) = T 0 x None None [].
  Proof. reflexivity. Qed.

  Lemma usplits_iff_ucanon_full t1 t2 :
    leaves_ok t1 = true -> leaves_ok t2 = true -> cmask acc t1 = cmask acc t2 ->
    (set_eq (uset acc t1) (uset acc t2) <-> ucanon acc (suppress t1) = ucanon acc (suppress t2)).
  Proof.
    intros LK1 LK2 CM.
    pose proof (leaves_ok_suppress t1 LK1) as S1. pose proof (leaves_ok_suppress t2 LK2) as S2.
    pose proof (suppress_unif_free t1) as U1. pose proof (suppress_unif_free t2) as U2.
    assert (CMs : cmask acc (suppress t1) = cmask acc (suppress t2)) by (rewrite !cmask_suppress; exact CM).
    assert (EQ : set_eq (uset acc t1) (uset acc t2) <-> set_eq (uset acc (suppress t1)) (uset acc (suppress t2))).
    { split; intro E.
      - apply (set_eq_trans _ _ _ (uset_suppress t1)). apply (set_eq_trans _ _ _ E). apply set_eq_sym, uset_suppress.
      - apply (set_eq_trans _ _ _ (set_eq_sym _ _ (uset_suppress t1))). apply (set_eq_trans _ _ _ E (uset_suppress t2)). }
    rewrite EQ. clear EQ.
    assert (LEAF : forall a b, leaves_ok a = true -> leaves_ok b = true -> unif_free a = true -> unif_free b = true ->
                   cmask acc a = cmask acc b -> t_kids a = [] ->
                   (set_eq (uset acc a) (uset acc b) <-> ucanon acc a = ucanon acc b)).
    { intros a b La Lb Ua Ub Cab Ka. destruct a as [i x l e ks]. cbn [t_kids] in Ka. subst ks.
      destruct (leaves_ok_parts _ La) as [HT _]. cbn [leaf_taxa forallb] in HT. destruct x as [tx|]; [| discriminate].
      assert (CA : cmask acc (T i (Some tx) l e []) = 2 ^ acc tx).
      { rewrite (cmask_leaf acc). cbn [leaf_mask]. apply taxon_bitmask_pow2. apply Hnn. }
      assert (Kb : t_kids b = []) by (apply (single_bit_is_leaf b (acc tx)); [apply Hnn | assumption | assumption | congruence]).
      destruct b as [i' x' l' e' ks']. cbn [t_kids] in Kb. subst ks'.
      destruct (leaves_ok_parts _ Lb) as [HT' _]. cbn [leaf_taxa forallb] in HT'. destruct x' as [ty|]; [| discriminate].
      assert (tx = ty).
      { apply Hinj. rewrite CA in Cab. rewrite (cmask_leaf acc) in Cab. cbn [leaf_mask] in Cab.
        rewrite taxon_bitmask_pow2 in Cab by apply Hnn. apply Z.pow_inj_r in Cab; [exact Cab | lia | apply Hnn | apply Hnn]. }
      subst ty. rewrite !ucanon_leaf. split; [reflexivity|]. intros _.
      unfold uset. rewrite Cab. unfold clades. cbn [postorder flat_map app map]. rewrite <- Cab. intro m. reflexivity. }
    destruct (unif_free_kids _ U1) as [K1 | K1].
    { apply LEAF; assumption. }
    destruct (unif_free_kids _ U2) as [K2 | K2].
    { pose proof (LEAF _ _ S2 S1 U2 U1 (eq_sym CMs) K2) as LF. split; intro E.
      - symmetry. apply LF. apply set_eq_sym. exact E.
      - apply set_eq_sym. apply LF. symmetry. exact E. }
    apply (usplits_iff_ucanon acc Hnn Hinj); assumption.
  Qed.

  Lemma splits_iff_topology_unrooted_full_l r1 r2 t1 t2 :
    is_true r1 = false -> is_true r2 = false ->
    leaves_ok t1 = true -> leaves_ok t2 = true -> cmask acc t1 = cmask acc t2 ->
    (set_eq (enc_splits (encode acc r1 t1)) (enc_splits (encode acc r2 t2))
     <-> ucanon acc (suppress t1) = ucanon acc (suppress t2)).
  Proof.
    intros R1 R2 LK1 LK2 CM. rewrite <- (usplits_iff_ucanon_full t1 t2 LK1 LK2 CM).
    pose proof (unrooted_splits_are_uset acc r1 t1 Hnn Hinj R1 LK1) as A1.
    pose proof (unrooted_splits_are_uset acc r2 t2 Hnn Hinj R2 LK2) as A2.
    split; intro E.
    - apply (set_eq_trans _ _ _ (set_eq_sym _ _ A1)). apply (set_eq_trans _ _ _ E A2).
    - apply (set_eq_trans _ _ _ A1). apply (set_eq_trans _ _ _ E (set_eq_sym _ _ A2)).
  Qed.
End USet.
