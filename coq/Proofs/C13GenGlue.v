(* C13 (translator tie): the reader-level methods as compiled - NexusReader._read, NewickReader._read,
   DataReader.read_tree_lists - run on the fresh reader state of a route compute the model's nexus_read /
   newick_read.  What remains hand-written is the construction of that fresh state (the reader object over
   the document, the route's namespace as namespace 0, the target list as list 0) and which class
   dataio.get_reader(schema) instantiates. *)
From Coq Require Import ZArith List Bool Lia.
From DV Require Import Model.PyPrims Model.C13Model Model.C13GenPrims Gen.Routes Proofs.C13GenStmts
  Proofs.C13GenObjects Proofs.C13GenWf Proofs.C13GenTaxa Proofs.C13GenReader Proofs.C13GenYielder Proofs.C13GenNewick.
Import ListNotations.

Section S.
Variable T : Type.
Variables lower upper : str -> str.
Variable parse_tree : mapper -> tz -> res (option T * mapper * tz).
Variable set_label : T -> option str -> T.
Variable add_comments : T -> list str -> T.

Notation gst := (gst T).

(* dataio.get_reader(schema): the class whose _read runs *)
Definition reader_read_of (sch : schema) : reader_read_t T :=
  match sch with
  | Nexus => g_nexus_read T lower upper parse_tree set_label add_comments
  | Newick => g_newick_read T lower parse_tree
  end.

(* reader.attached_taxon_namespace as the entry points set it *)
Definition attached_ns (attached : bool) : option nat := if attached then Some O else None.

(* ---- NexusReader._read ---- *)
Lemma g_nexus_read_eq : forall fuel (s : gst) att et fac tlf saf gat,
  wfr T (mkNsCfg (negb (on_is_none att)) fac) s ->
  g_nexus_read T lower upper parse_tree set_label add_comments fuel s att et false tt fac (Some tlf) None saf gat
  = (do s' <- r_parse_nexus_stream T lower upper parse_tree set_label add_comments true
                (mkNsCfg (negb (on_is_none att)) fac) tlf et true fuel s ;; Ok (s', s')).
Proof.
  intros fuel s att et fac tlf saf gat WF. unfold g_nexus_read. cbn [opt_is_none bind otlf_get].
  rewrite g_parse_nexus_stream_eq by exact WF.
  destruct (r_parse_nexus_stream _ _ _ _ _ _ _ _ _ _ _ _ _) as [[k g tls reg]| |]; reflexivity.
Qed.

(* ---- NewickReader._read ---- *)
Lemma tl_extend_at : forall (ts : list T) (tls : list (tlval T)) tb,
  (tb < length tls)%nat ->
  tl_trees (nth tb (tl_extend T tls tb ts) (mkTl None [] [])) = tl_trees (nth tb tls (mkTl None [] [])) ++ ts
  /\ length (tl_extend T tls tb ts) = length tls.
Proof.
  induction ts as [|t ts IH]; intros tls tb H; cbn [tl_extend fold_left].
  - rewrite app_nil_r. split; reflexivity.
  - assert (L : length (tl_append T tls tb t) = length tls) by (unfold tl_append; apply list_set_len).
    destruct (IH (tl_append T tls tb t) tb) as [E1 E2]; [rewrite L; exact H|].
    unfold tl_extend in *. rewrite E1, E2. split; [|exact L].
    unfold tl_append, tl_at. rewrite list_set_get by exact H. cbn [tl_trees]. rewrite <- app_assoc. reflexivity.
Qed.

(* ---- the reader object of a route ---- *)
(* `reader.read_tree_lists(..)` on a fresh reader over document d: the COMPILED DataReader.read_tree_lists,
   dispatching to the compiled _read of the reader's class; `tl` are the trees of the target list *)
Definition route_run_ns (sch : schema) (ns0 : list str) (attached : bool) (tlf : tl_factory) (fuel : nat) (d : doc) (tl : list T)
  : res (list (list T) * list T) :=
  do r <- g_read_tree_lists T fuel
            (nexus_init T (mkCfg (mkNsCfg attached (FacFixed true)) tlf) ns0 d) (reader_read_of sch)
            (attached_ns attached) false false tt (FacFixed true) (Some tlf) None ;;
  let '(blocks, s) := r in
  Ok (blocks, match tlf with TLFixed => tl ++ rs_list0 T s | TLNew => tl end).
(* a new namespace (TreeList.get, Tree.get) *)
Definition route_run (sch : schema) := route_run_ns sch [].

(* the fresh store of a DataSet route: namespace 0 exists iff a namespace object was passed *)
Definition dataset_cfg (tns : option nat) : cfg :=
  match tns with
  | Some _ => mkCfg (mkNsCfg true (FacFixed false)) TLNew
  | None => mkCfg (mkNsCfg false FacNew) TLNew
  end.
(* `reader.read_dataset(..)` on a fresh reader: the COMPILED DataReader.read_dataset over the compiled _read *)
Definition route_dataset (sch : schema) (attached : bool) (fuel : nat) (d : doc) (ds_att tns : option nat) (et ec : bool)
  : res (list (list T)) :=
  do r <- g_read_dataset T fuel (nexus_init T (dataset_cfg tns) [] d) (reader_read_of sch)
            (attached_ns attached) false false tt ds_att tns et ec (Some tt) ;;
  let '(product, s) := r in Ok (rs_blocks T product).

(* ns0: the members of the route's namespace before the read (TreeList.read into an existing list) *)
Definition route_reader_ns (sch : schema) (ns0 : list str) : reader_obj T :=
  mkReader T false (route_run_ns sch ns0) (route_dataset sch).
Definition route_reader (sch : schema) : reader_obj T := route_reader_ns sch [].

Lemma route_run_ns_eq : forall sch ns0 attached tlf (d : doc) tl,
  route_run_ns sch ns0 attached tlf (doc_fuel d) d tl
  = match sch with
    | Nexus =>
      do s <- nexus_read T lower upper parse_tree set_label add_comments true true
                (mkCfg (mkNsCfg attached (FacFixed true)) tlf) ns0 d ;;
      Ok (rs_blocks T s, match tlf with TLFixed => tl ++ rs_list0 T s | TLNew => tl end)
    | Newick =>
      do r <- newick_read T lower parse_tree ns0 d ;;
      Ok ([fst r], match tlf with TLFixed => tl ++ fst r | TLNew => tl end)
    end.
Proof.
  intros sch ns0 attached tlf d tl. unfold route_run_ns, g_read_tree_lists, reader_read_of.
  destruct sch.
  - (* NEWICK *)
    unfold g_newick_read, ifc_ns_factory_of, ifc_ns_factory, ifc_tree_list_factory_of, ifc_tree_list_factory,
      ifc_new_mapper, ydrain, newick_read, nexus_init, core_init, regs_init, st_set_kg.
    cbn [c_fac c_ns c_tlfac has_ns0 bind r_k r_g r_tls r_tlreg g_labels g_reg nth on_get].
    destruct tlf; cbn [otlf_get length app nth tl_label bind r_k r_g r_tls r_tlreg on_get ns_taxa_at k_nss];
      rewrite g_newick_tree_iter_eq; cbn [k_z];
      destruct (newick_read_loop T parse_tree (doc_fuel d) (new_mapper lower ns0 false) (doc_tz d) []) as [[[ts m] z]| |];
      cbn [bind fst snd]; try reflexivity;
      unfold rs_blocks, rs_list0, ifc_product; cbn [r_tlreg r_tls map];
      destruct (tl_extend_at ts [mkTl None [] []] O (Nat.le_refl _)) as [E _]; rewrite E; reflexivity.
  - (* NEXUS *)
    assert (A : negb (on_is_none (attached_ns attached)) = attached) by (destruct attached; reflexivity).
    rewrite g_nexus_read_eq.
    + rewrite A. unfold nexus_read. cbn [c_ns c_tlfac].
      destruct (r_parse_nexus_stream _ _ _ _ _ _ _ _ _ _ _ _ _) as [s| |]; reflexivity.
    + rewrite A. apply nexus_init_wf. reflexivity.
Qed.

Lemma route_run_eq : forall sch attached tlf (d : doc) tl,
  route_run sch attached tlf (doc_fuel d) d tl
  = match sch with
    | Nexus =>
      do s <- nexus_read T lower upper parse_tree set_label add_comments true true
                (mkCfg (mkNsCfg attached (FacFixed true)) tlf) [] d ;;
      Ok (rs_blocks T s, match tlf with TLFixed => tl ++ rs_list0 T s | TLNew => tl end)
    | Newick =>
      do r <- newick_read T lower parse_tree [] d ;;
      Ok ([fst r], match tlf with TLFixed => tl ++ fst r | TLNew => tl end)
    end.
Proof. intros. apply route_run_ns_eq. Qed.

(* DataSet.get(.., exclude_chars=True) with (a = true) and without a taxon_namespace argument *)
Lemma route_dataset_eq : forall sch (a : bool) (d : doc),
  route_dataset sch false (doc_fuel d) d (attached_ns a) (attached_ns a) false true
  = dataset_get T lower upper parse_tree set_label add_comments true true sch a d.
Proof.
  intros sch a d. unfold route_dataset, g_read_dataset, dataset_get, read_blocks, reader_read_of.
  destruct sch.
  - (* NEWICK *)
    destruct a; unfold fac_const; cbn [attached_ns on_is_none negb on_same andb Nat.eqb bind dataset_cfg];
      unfold g_newick_read, ifc_ns_factory_of, ifc_ns_factory, ifc_tree_list_factory_of, ifc_tree_list_factory,
        ifc_new_mapper, ydrain, newick_read, nexus_init, core_init, regs_init, st_set_kg;
      cbn [c_fac c_ns c_tlfac c_attached has_ns0 bind r_k r_g r_tls r_tlreg g_labels g_reg nth on_get k_nss k_z k_ntax length app
           otlf_get tl_label ns_taxa_at];
      rewrite g_newick_tree_iter_eq; cbn [k_z];
      destruct (newick_read_loop T parse_tree (doc_fuel d) (new_mapper lower [] false) (doc_tz d) []) as [[[ts m] z]| |];
      cbn [bind fst snd]; try reflexivity;
      unfold rs_blocks, ifc_product; cbn [r_tlreg r_tls map];
      destruct (tl_extend_at ts [mkTl None [] []] O (Nat.le_refl _)) as [E _]; rewrite E; reflexivity.
  - (* NEXUS *)
    destruct a; unfold fac_const; cbn [attached_ns on_is_none negb on_same andb Nat.eqb bind dataset_cfg].
    + rewrite (g_nexus_read_eq (doc_fuel d) _ (Some O) false (FacFixed false) TLNew (Some tt) (Some tt)).
      * unfold nexus_read, cfg_yield. cbn [c_ns c_tlfac on_is_none negb].
        destruct (r_parse_nexus_stream _ _ _ _ _ _ _ _ _ _ _ _ _) as [s| |]; reflexivity.
      * cbn [on_is_none negb]. apply nexus_init_wf. reflexivity.
    + rewrite (g_nexus_read_eq (doc_fuel d) _ None false FacNew TLNew (Some tt) (Some tt)).
      * unfold nexus_read, cfg_dataset. cbn [c_ns c_tlfac on_is_none negb].
        destruct (r_parse_nexus_stream _ _ _ _ _ _ _ _ _ _ _ _ _) as [s| |]; reflexivity.
      * cbn [on_is_none negb]. apply nexus_init_wf. reflexivity.
Qed.

End S.
