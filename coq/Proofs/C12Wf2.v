(* C12: Prop forms of Model.wf_heap2 *)
From Coq Require Import ZArith List Bool Lia.
From DV Require Import Model.PyPrims Model.C12Model Proofs.C12Heap Proofs.C12Inv Proofs.C12Wf Proofs.C12Iso.
Import ListNotations.
Open Scope Z_scope.

Lemma nodup_keys_spec : forall b, nodup_keys b = true -> NoDup (map fst b).
Proof.
  induction b as [|[k v] r IH]; simpl; intros H; [constructor|].
  apply andb_true_iff in H. destruct H as [H1 H2]. constructor; [|apply IH; exact H2].
  intros I. apply in_map_iff in I. destruct I as [[k' v'] [E I]]. simpl in E. subst k'.
  apply negb_true_iff in H1. assert (X : existsb (fun e => val_eqb k (fst e)) r = true).
  { apply existsb_exists. exists (k, v'). split; [exact I | apply val_eqb_refl]. }
  congruence.
Qed.

Lemma owned_in_list : forall h sx, owned h sx -> In sx (owned_list h).
Proof.
  intros h sx [x [ob [G [AK B]]]]. unfold owned_list. apply in_flat_map. exists ob.
  split; [eapply hget_In; exact G|]. rewrite AK, B. left. reflexivity.
Qed.

Section Wf2.
Variable h : heap.
Hypothesis WF2 : wf_heap2 h = true.

Lemma wf2_parts :
  forallb (fun ob => nodup_keys (obody ob)) h = true
  /\ forallb (fun ob => match okind ob with KList | KTuple => list_keys_ok (obody ob) | _ => true end) h = true
  /\ noalias_ok h = true /\ taxa_ok h = true /\ bound_pairs_ok h = true /\ ilists_ok h = true.
Proof.
  unfold wf_heap2 in WF2.
  apply andb_true_iff in WF2. destruct WF2 as [W5 W6].
  apply andb_true_iff in W5. destruct W5 as [W4 W5].
  apply andb_true_iff in W4. destruct W4 as [W3 W4].
  apply andb_true_iff in W3. destruct W3 as [W2 W3].
  apply andb_true_iff in W2. destruct W2 as [W1 W2]. auto 10.
Qed.

Lemma wf2_nodup : forall o ob, hget h o = Some ob -> NoDup (map fst (obody ob)).
Proof.
  intros o ob G. destruct wf2_parts as [W _]. rewrite forallb_forall in W.
  apply nodup_keys_spec. apply W. eapply hget_In. exact G.
Qed.

Lemma wf2_listkeys : forall o ob n e, hget h o = Some ob -> (okind ob = KList \/ okind ob = KTuple) ->
  nth_error (obody ob) n = Some e -> fst e = pidx (Z.of_nat n).
Proof.
  intros o ob n e G K N. destruct wf2_parts as [_ [W _]]. rewrite forallb_forall in W.
  specialize (W ob (hget_In _ _ _ G)).
  assert (L : list_keys_ok (obody ob) = true) by (destruct K as [K|K]; rewrite K in W; exact W).
  unfold list_keys_ok in L. assert (X := forallbi_spec _ _ _ _ L n e N). simpl in X. apply val_eqb_eq in X. exact X.
Qed.

Lemma wf2_noalias : forall o ob k v, hget h o = Some ob -> In (k, v) (obody ob) ->
  ~ (is_annk (okind ob) = true /\ k = NM_ANN) -> ~ owned_ref h k /\ ~ owned_ref h v.
Proof.
  intros o ob k v G I N. destruct wf2_parts as [_ [_ [W _]]]. unfold noalias_ok in W.
  rewrite forallb_forall in W. specialize (W ob (hget_In _ _ _ G)). rewrite forallb_forall in W.
  specialize (W (k, v) I). simpl in W. apply orb_true_iff in W. destruct W as [W|W].
  - apply andb_true_iff in W. destruct W as [W1 W2]. apply val_eqb_eq in W2. exfalso. apply N. auto.
  - apply andb_true_iff in W. destruct W as [W1 W2]. apply negb_true_iff in W1, W2.
    assert (X : forall w, is_owned_ref (owned_list h) w = false -> ~ owned_ref h w).
    { intros [p|a] E; simpl; [tauto|]. intros O. apply owned_in_list in O. simpl in E.
      apply memz_In in O. congruence. }
    split; apply X; assumption.
Qed.

Lemma kind_eqb_eq : forall a b, kind_eqb a b = true -> a = b.
Proof. intros [] []; simpl; intros; try discriminate; reflexivity. Qed.

Lemma wf2_taxa : forall x ob lt, hget h x = Some ob -> okind ob = KNamespace ->
  bget (obody ob) NM_TAXA = Some (R lt) ->
  exists lo, hget h lt = Some lo /\ okind lo = KList /\ ocls lo = CLS_LIST.
Proof.
  intros x ob lt G K B. destruct wf2_parts as [_ [_ [_ [W _]]]]. unfold taxa_ok in W.
  rewrite forallb_forall in W. specialize (W ob (hget_In _ _ _ G)). rewrite K, B in W.
  destruct (hget h lt) as [lo|]; [|discriminate]. apply andb_true_iff in W. destruct W as [W1 W2].
  exists lo. split; [reflexivity|]. split; [apply kind_eqb_eq; exact W1 | apply Z.eqb_eq; exact W2].
Qed.

Lemma wf2_bound : forall x ob a ao t tob owner rest,
  hget h x = Some ob -> In (R a) (ann_items h ob) -> hget h a = Some ao ->
  bget (obody ao) NM_VALUE = Some (R t) -> hget h t = Some tob ->
  (okind tob = KTuple \/ okind tob = KList) ->
  values (obody tob) = owner :: rest -> owner = R x ->
  okind tob = KTuple /\ ocls tob = CLS_TUPLE /\ length (obody tob) = 2%nat.
Proof.
  intros x ob a ao t tob owner rest G I Ga Bv Gt Kt Vs Eo.
  destruct wf2_parts as [_ [_ [_ [_ [W _]]]]]. unfold bound_pairs_ok in W.
  assert (Hx := hget_Some_range _ _ _ G).
  unfold hget in G. destruct (x <? 0) eqn:Ex; [discriminate|]. apply Z.ltb_ge in Ex.
  assert (F : forallb (bound_pair_ok h x) (refs_of (ann_items h ob)) = true).
  { assert (F := forallbi_spec _ _ _ _ W _ _ G). replace (0 + Z.of_nat (Z.to_nat x)) with x in F by lia. exact F. }
  rewrite forallb_forall in F. specialize (F a (In_refs_of _ _ I)).
  unfold bound_pair_ok in F. rewrite Ga, Bv, Gt, Vs in F. subst owner. rewrite val_eqb_refl in F. simpl in F.
  assert (X : kind_eqb (okind tob) KTuple && (ocls tob =? CLS_TUPLE) && Nat.eqb (length (obody tob)) 2 = true).
  { destruct Kt as [Kt|Kt]; rewrite Kt in F; rewrite ?Kt; exact F. }
  apply andb_true_iff in X. destruct X as [X X3]. apply andb_true_iff in X. destruct X as [X1 X2].
  split; [apply kind_eqb_eq; exact X1|]. split; [apply Z.eqb_eq; exact X2 | apply Nat.eqb_eq; exact X3].
Qed.

Lemma ilist_kind_spec : forall sxo lx l, ilist_kind_ok h sxo = true ->
  bget (obody sxo) NM_ILIST = Some (R lx) -> hget h lx = Some l -> okind l = KList.
Proof.
  intros sxo lx l W B G. unfold ilist_kind_ok in W. rewrite B, G in W. apply kind_eqb_eq. exact W.
Qed.

Lemma wf2_ilist : forall x ob sx sxo lx l, hget h x = Some ob -> is_annk (okind ob) = true ->
  bget (obody ob) NM_ANN = Some (R sx) -> hget h sx = Some sxo ->
  bget (obody sxo) NM_ILIST = Some (R lx) -> hget h lx = Some l -> okind l = KList.
Proof.
  intros x ob sx sxo lx l G AK B Gs BL GL. destruct wf2_parts as [_ [_ [_ [_ [_ W]]]]]. unfold ilists_ok in W.
  rewrite forallb_forall in W. specialize (W ob (hget_In _ _ _ G)). apply andb_true_iff in W. destruct W as [W _].
  rewrite AK, B, Gs in W. eapply ilist_kind_spec; eassumption.
Qed.

Lemma wf2_ilist2 : forall x ob lx l, hget h x = Some ob -> okind ob = KAnnSet ->
  bget (obody ob) NM_ILIST = Some (R lx) -> hget h lx = Some l -> okind l = KList.
Proof.
  intros x ob lx l G K BL GL. destruct wf2_parts as [_ [_ [_ [_ [_ W]]]]]. unfold ilists_ok in W.
  rewrite forallb_forall in W. specialize (W ob (hget_In _ _ _ G)). apply andb_true_iff in W. destruct W as [_ W].
  rewrite K in W. eapply ilist_kind_spec; eassumption.
Qed.

End Wf2.
