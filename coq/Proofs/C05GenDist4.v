(* C05: generated calc_split_*_summaries and their cached getters *)
From Coq Require Import ZArith QArith Qabs Qreduction List Bool Lia Permutation.
From DV Require Import Model.PyPrims Gen.BitFns Gen.Consts Model.C05Model Model.C05Spec Model.C05GenPrims Gen.SplitDist
     Proofs.C05Lists Proofs.C05Freq Proofs.C05Stats Proofs.C05GenStats Proofs.C05GenDist.
Import ListNotations.
Open Scope Z_scope.

Definition gs_table (t : list (Z * summary)) : list (Z * gsummary) := map (fun kv => (fst kv, gs_of (snd kv))) t.

Lemma all_some_nonempty l xs : l <> [] -> all_some l = Some xs -> xs <> [].
Proof.
  destruct l as [|o r]; [congruence|]. intros _. simpl. destruct o; [|discriminate].
  destruct (all_some r); [|discriminate]. intro E. inversion E. discriminate.
Qed.

(* what one loop iteration does to the table under construction *)
Definition item_step (acc : list (Z * gsummary)) (kv : Z * list (option Q)) : list (Z * gsummary) :=
  match snd kv with
  | [] => acc
  | _ => match all_some (snd kv) with
         | Some xs => match summarize xs with
                      | Ok sm => py_dict_set acc (fst kv) (gs_of sm)
                      | _ => acc
                      end
         | None => acc
         end
  end.

Section SummLoop.
  Variable get : sdx -> option (list (Z * gsummary)).
  Variable set : sdx -> option (list (Z * gsummary)) -> sdx.
  Hypothesis get_set : forall x v, get (set x v) = v.
  Hypothesis set_set : forall x a b, set (set x a) b = set x b.
  Variable body : Z * list (option Q) -> sdx -> res sdx.
  Hypothesis Hb : forall k l x,
    body (k, l) x =
    if negb (py_truth_list l) then Ok x
    else py_bind (py_try_pass [ValueErr; TypeErr] (py_bind (py_as_floats l) gen_summarize)
                              (fun v => set x (py_odict_set (get x) k v)) x) (fun self => Ok self).

  Lemma summ_item k l x acc : get x = Some acc ->
    body (k, l) x = Ok (set x (Some (item_step acc (k, l)))) \/
    (body (k, l) x = Ok x /\ item_step acc (k, l) = acc).
  Proof.
    intro G. rewrite Hb. unfold item_step. simpl fst. simpl snd.
    destruct l as [|o r]; [right; split; reflexivity|].
    simpl py_truth_list. simpl negb. cbv iota.
    unfold py_as_floats. destruct (all_some (o :: r)) as [xs|] eqn:A.
    - simpl py_bind at 2. rewrite gen_summarize_eq.
      assert (NE : xs <> []) by (eapply all_some_nonempty; [|exact A]; discriminate).
      destruct (summarize_exact_l xs NE) as [sm [E _]]. rewrite E. simpl. rewrite G. left. reflexivity.
    - simpl. right. split; reflexivity.
  Qed.

  Lemma summ_loop tbl : forall x acc, get x = Some acc ->
    py_forM tbl body x = Ok (set x (Some (fold_left item_step tbl acc))) \/
    (py_forM tbl body x = Ok x /\ fold_left item_step tbl acc = acc).
  Proof.
    induction tbl as [|[k l] r IH]; intros x acc G; simpl.
    - right. split; reflexivity.
    - destruct (summ_item k l x acc G) as [E | [E1 E2]].
      + rewrite E. destruct (IH (set x (Some (item_step acc (k, l)))) (item_step acc (k, l))) as [F | [F1 F2]].
        * apply get_set.
        * left. rewrite F, set_set. reflexivity.
        * left. rewrite F1, F2. reflexivity.
      + rewrite E1, E2. apply IH. exact G.
  Qed.
End SummLoop.

(* with distinct keys the table built is the model's calc_summaries *)
Lemma item_fold tbl : forall acc, NoDup (keys tbl) -> (forall k, In k (keys tbl) -> ~ In k (keys acc)) ->
  fold_left item_step tbl acc = acc ++ gs_table (calc_summaries tbl).
Proof.
  induction tbl as [|[k l] r IH]; intros acc ND H; simpl; [now rewrite app_nil_r|].
  inversion ND as [|? ? Nk Nr]. subst.
  assert (Hr : forall acc' : list (Z * gsummary), (forall k', In k' (keys acc') -> In k' (keys acc) \/ k' = k) ->
                            forall k', In k' (keys r) -> ~ In k' (keys acc')).
  { intros acc' Sub k' I X. destruct (Sub k' X) as [Y|Y]; [apply (H k'); [now right | exact Y] | subst; contradiction]. }
  unfold item_step at 2. simpl fst. simpl snd.
  destruct l as [|o l']; [apply IH; [assumption | intros k' I; apply H; now right]|].
  destruct (all_some (o :: l')) as [xs|]; [|apply IH; [assumption | intros k' I; apply H; now right]].
  destruct (summarize xs) as [sm| |]; try (apply IH; [assumption | intros k' I; apply H; now right]).
  unfold py_dict_set. rewrite aupd_absent by (apply H; now left).
  rewrite IH; [simpl; now rewrite <- app_assoc | assumption |].
  apply Hr. intros k' X. unfold keys in X. rewrite map_app in X. apply in_app_or in X.
  destruct X as [X | [X | []]]; [now left | right; now symmetry].
Qed.

Theorem gen_calc_split_edge_length_summaries_eq c x :
  NoDup (keys (elens (x_sd x))) ->
  gen_calc_split_edge_length_summaries c x
  = (sa__split_edge_length_summaries x (Some (gs_table (calc_summaries (elens (x_sd x))))),
     Some (gs_table (calc_summaries (elens (x_sd x))))).
Proof.
  intro ND. unfold gen_calc_split_edge_length_summaries.
  set (x0 := sa__split_edge_length_summaries x (Some [])).
  assert (E0 : a_split_edge_lengths x0 = elens (x_sd x)) by (destruct x as [[t w r cn el ag fr cf] ls as_ cs]; reflexivity).
  rewrite E0. unfold py_dict_items.
  match goal with |- context [py_forM _ ?B _] =>
    destruct (summ_loop a__split_edge_length_summaries sa__split_edge_length_summaries
                        (fun x v => eq_refl) (fun x a b => eq_refl) B
                        (fun k l x => eq_refl) (elens (x_sd x)) x0 [] eq_refl) as [F | [F1 F2]]
  end.
  - rewrite F. rewrite (item_fold _ [] ND) by (intros k _ []). simpl app.
    subst x0. destruct x as [[t w r cn el ag fr cf] ls as_ cs]. reflexivity.
  - rewrite F1. rewrite (item_fold _ [] ND) in F2 by (intros k _ []). simpl app in F2. rewrite F2.
    subst x0. destruct x as [[t w r cn el ag fr cf] ls as_ cs]. reflexivity.
Qed.

Theorem gen_calc_split_node_age_summaries_eq c x :
  NoDup (keys (nages (x_sd x))) ->
  gen_calc_split_node_age_summaries c x
  = (sa__split_node_age_summaries x (Some (gs_table (calc_summaries (nages (x_sd x))))),
     Some (gs_table (calc_summaries (nages (x_sd x))))).
Proof.
  intro ND. unfold gen_calc_split_node_age_summaries.
  set (x0 := sa__split_node_age_summaries x (Some [])).
  assert (E0 : a_split_node_ages x0 = nages (x_sd x)) by (destruct x as [[t w r cn el ag fr cf] ls as_ cs]; reflexivity).
  rewrite E0. unfold py_dict_items.
  match goal with |- context [py_forM _ ?B _] =>
    destruct (summ_loop a__split_node_age_summaries sa__split_node_age_summaries
                        (fun x v => eq_refl) (fun x a b => eq_refl) B
                        (fun k l x => eq_refl) (nages (x_sd x)) x0 [] eq_refl) as [F | [F1 F2]]
  end.
  - rewrite F. rewrite (item_fold _ [] ND) by (intros k _ []). simpl app.
    subst x0. destruct x as [[t w r cn el ag fr cf] ls as_ cs]. reflexivity.
  - rewrite F1. rewrite (item_fold _ [] ND) in F2 by (intros k _ []). simpl app in F2. rewrite F2.
    subst x0. destruct x as [[t w r cn el ag fr cf] ls as_ cs]. reflexivity.
Qed.

(* the cached getters: the ONE counter _trees_counted_for_summaries guards both tables; it is
   only ever assigned 0 (in update), so as soon as a tree was counted both getters recompute *)
Theorem gen_get_split_edge_length_summaries_fresh c x :
  NoDup (keys (elens (x_sd x))) ->
  x_counted_for_summ x <> total (x_sd x) ->
  snd (gen_get_split_edge_length_summaries c x) = Some (gs_table (calc_summaries (elens (x_sd x)))) /\
  x_sd (fst (gen_get_split_edge_length_summaries c x)) = x_sd x.
Proof.
  intros ND NE. unfold gen_get_split_edge_length_summaries, a__trees_counted_for_summaries, a_total_trees_counted.
  apply Z.eqb_neq in NE. rewrite NE. simpl negb. rewrite orb_true_r. cbv iota.
  rewrite gen_calc_split_edge_length_summaries_eq by exact ND.
  destruct x as [[t w r cn el ag fr cf] ls as_ cs]. split; reflexivity.
Qed.

Theorem gen_get_split_node_age_summaries_fresh c x :
  NoDup (keys (nages (x_sd x))) ->
  x_counted_for_summ x <> total (x_sd x) ->
  snd (gen_get_split_node_age_summaries c x) = Some (gs_table (calc_summaries (nages (x_sd x)))) /\
  x_sd (fst (gen_get_split_node_age_summaries c x)) = x_sd x.
Proof.
  intros ND NE. unfold gen_get_split_node_age_summaries, a__trees_counted_for_summaries, a_total_trees_counted.
  apply Z.eqb_neq in NE. rewrite NE. simpl negb. rewrite orb_true_r. cbv iota.
  rewrite gen_calc_split_node_age_summaries_eq by exact ND.
  destruct x as [[t w r cn el ag fr cf] ls as_ cs]. split; reflexivity.
Qed.

(* ... and when the guard does not fire the stored table is handed out unchanged *)
Theorem gen_get_split_edge_length_summaries_cached c x tbl :
  x_len_summ x = Some tbl -> x_counted_for_summ x = total (x_sd x) ->
  gen_get_split_edge_length_summaries c x = (x, Some tbl).
Proof.
  intros E C. unfold gen_get_split_edge_length_summaries, a__split_edge_length_summaries,
                a__trees_counted_for_summaries, a_total_trees_counted.
  rewrite E, C, Z.eqb_refl. simpl. now rewrite E.
Qed.
