(* C17: Pybus & Harvey gamma - the loop equals the published sums; sorting; independence of the
   child order on exactly ultrametric trees *)
From Coq Require Import ZArith QArith List Bool Lia ZifyBool Setoid Permutation Sorted.
From DV Require Import Model.PyPrims Model.Tree Model.C17Model Proofs.C17Ages Proofs.C17AgesThm Proofs.C17Depth
     Proofs.C17Stats Proofs.C17Perm.
Import ListNotations.
Open Scope Z_scope.

(* ------------------------------------------------------------------------------------------ *)
(* the published sums                                                                          *)

Fixpoint zseq (start : Z) (len : nat) : list Z :=
  match len with O => [] | S n => start :: zseq (start + 1) n end.

(* sum_k k * g_k, the first weight being i *)
Definition wsum (i : Z) (g : list Z) : Z :=
  sumZ (map (fun kg => fst kg * snd kg) (combine (zseq i (length g)) g)).

Lemma wsum_nil i : wsum i [] = 0.
Proof. reflexivity. Qed.

Lemma wsum_cons i x r : wsum i (x :: r) = i * x + wsum (i + 1) r.
Proof. unfold wsum. cbn [length zseq combine map]. rewrite sumZ_cons. reflexivity. Qed.

Lemma wsum_app i a b : wsum i (a ++ b) = wsum i a + wsum (i + Z.of_nat (length a)) b.
Proof.
  revert i. induction a as [|x a IH]; intro i.
  - cbn [app length]. rewrite wsum_nil. replace (i + Z.of_nat 0) with i by lia. lia.
  - cbn [app]. rewrite !wsum_cons, IH. cbn [length]. replace (i + 1 + Z.of_nat (length a)) with (i + Z.of_nat (S (length a))) by lia. lia.
Qed.

Lemma gamma_loop_spec g' : forall i T acc,
  gamma_loop i g' T acc =
  (T + wsum i g', acc + sumZ (map (fun m => T + wsum i (firstn m g')) (seq 1 (length g')))).
Proof.
  induction g' as [|x r IH]; intros i T acc.
  - cbn. f_equal; lia.
  - cbn [gamma_loop]. rewrite IH. rewrite wsum_cons. f_equal; [lia|].
    cbn [length]. rewrite <- cons_seq. cbn [map]. rewrite sumZ_cons.
    cbn [firstn]. rewrite wsum_cons, wsum_nil. rewrite <- (seq_shift (length r) 1), map_map.
    assert (E : sumZ (map (fun m => T + i * x + wsum (i + 1) (firstn m r)) (seq 1 (length r)))
              = sumZ (map (fun m => T + wsum i (firstn (S m) (x :: r))) (seq 1 (length r)))).
    { f_equal. apply map_ext. intro m. cbn [firstn]. rewrite wsum_cons. lia. }
    rewrite E. lia.
Qed.

Lemma firstn_removelast {X} (l : list X) m : (m <= length l - 1)%nat -> firstn m (removelast l) = firstn m l.
Proof.
  revert m. induction l as [|a l IH]; intros m Hm; [reflexivity|].
  destruct l as [|b l].
  - cbn in Hm. assert (m = 0)%nat by lia. subst. reflexivity.
  - destruct m as [|m]; [reflexivity|]. cbn [removelast firstn]. f_equal. apply IH. cbn [length] in *. lia.
Qed.

Lemma removelast_length {X} (l : list X) : length (removelast l) = (length l - 1)%nat.
Proof.
  induction l as [|a l IH]; [reflexivity|]. destruct l as [|b l]; [reflexivity|].
  cbn [removelast length] in *. rewrite IH. lia.
Qed.

Lemma waiting_times_length older rest : length (waiting_times older rest) = S (length rest).
Proof. revert older. induction rest as [|a r IH]; intro older; [reflexivity|]. cbn. rewrite IH. reflexivity. Qed.

(* speciation ages and the number of other nodes, as the code collects them *)
Definition spec_ages (a : atree) : list Z :=
  map a_age (filter (fun v => (length (a_kids v) =? 2)%nat) (apostorder a)).
Definition other_nodes (a : atree) : Z :=
  Z.of_nat (length (filter (fun v => negb (length (a_kids v) =? 2)%nat) (apostorder a))).

Lemma gamma_spec_l : forall a p,
  gamma_of_ages a = Ok p ->
  exists older rest,
    sort_desc (spec_ages a) = older :: rest
    /\ let g := waiting_times older rest in
       let n := Z.of_nat (length g) + 1 in
       gp_n p = n /\ n = other_nodes a /\ 3 <= n
       /\ gp_T p = wsum 2 g /\ gp_T p <> 0
       /\ gp_accum p = sumZ (map (fun m => wsum 2 (firstn m g)) (seq 1 (length g - 1)))
       /\ gp_numerator p = (inject_Z (gp_accum p) / inject_Z (n - 2) - inject_Z (gp_T p) / 2)%Q.
Proof.
  intros a p H. unfold gamma_of_ages in H. fold (spec_ages a) in H. fold (other_nodes a) in H.
  destruct (sort_desc (spec_ages a)) as [|older rest] eqn:Es; [discriminate|].
  exists older, rest. split; [reflexivity|]. cbv zeta.
  set (g := waiting_times older rest) in *. set (n := other_nodes a) in *.
  destruct (Z.of_nat (length g) =? n - 1) eqn:El; cbn [negb] in H; [|discriminate].
  rewrite gamma_loop_spec in H.
  destruct (n - 2 =? 0) eqn:E2; [discriminate|].
  set (T := 0 + wsum 2 (removelast g) + n * last g 0) in *.
  destruct (T =? 0) eqn:ET; [discriminate|]. inversion H; subst p; clear H. cbn [gp_n gp_T gp_accum gp_numerator].
  assert (Hn : Z.of_nat (length g) + 1 = n) by lia.
  assert (Hg : g <> []). { unfold g. destruct rest; discriminate. }
  assert (HT : T = wsum 2 g).
  { unfold T. rewrite (app_removelast_last 0 Hg) at 3. rewrite wsum_app, wsum_cons, wsum_nil, removelast_length.
    assert (1 <= length g)%nat by (destruct g; [contradiction | cbn; lia]). lia. }
  rewrite Hn. repeat split; try lia.
  - assert (1 <= length g)%nat by (destruct g; [contradiction | cbn; lia]). lia.
  - rewrite removelast_length. f_equal. apply map_ext_in. intros m Hm. apply in_seq in Hm.
    f_equal. apply firstn_removelast. lia.
Qed.

(* ------------------------------------------------------------------------------------------ *)
(* sort_desc: a descending sorted permutation, and canonical                                   *)

Fixpoint desc_sorted (l : list Z) : Prop :=
  match l with
  | [] => True
  | x :: r => (match r with [] => True | y :: _ => y <= x end) /\ desc_sorted r
  end.

Lemma insert_desc_perm x l : Permutation (x :: l) (insert_desc x l).
Proof.
  induction l as [|y r IH]; [apply Permutation_refl|]. cbn [insert_desc]. destruct (y <=? x); [apply Permutation_refl|].
  eapply Permutation_trans; [apply perm_swap|]. apply perm_skip. exact IH.
Qed.

Lemma insert_desc_sorted x l : desc_sorted l -> desc_sorted (insert_desc x l).
Proof.
  induction l as [|y r IH]; intro H; [cbn; auto|]. cbn [insert_desc]. destruct (y <=? x) eqn:E.
  - cbn [desc_sorted]. split; [lia | exact H].
  - destruct H as [H1 H2]. specialize (IH H2). cbn [desc_sorted]. split; [|exact IH].
    destruct r as [|z r']; cbn [insert_desc]; [lia|]. destruct (z <=? x); lia.
Qed.

Lemma sort_desc_spec_l : forall l, Permutation l (sort_desc l) /\ desc_sorted (sort_desc l).
Proof.
  induction l as [|x l [IHp IHs]]; [split; [constructor | exact I]|]. unfold sort_desc. cbn [fold_right]. fold (sort_desc l). split.
  - eapply Permutation_trans; [apply perm_skip; exact IHp | apply insert_desc_perm].
  - apply insert_desc_sorted. exact IHs.
Qed.

Lemma insert_desc_comm x y l : desc_sorted l -> insert_desc x (insert_desc y l) = insert_desc y (insert_desc x l).
Proof.
  induction l as [|z r IH]; intro H.
  - cbn [insert_desc]. destruct (y <=? x) eqn:E1, (x <=? y) eqn:E2; try reflexivity.
    + assert (x = y) by lia. subst. reflexivity.
    + lia.
  - destruct H as [H1 H2]. specialize (IH H2). cbn [insert_desc].
    destruct (z <=? y) eqn:Ey, (z <=? x) eqn:Ex; cbn [insert_desc]; rewrite ?Ey, ?Ex.
    + destruct (y <=? x) eqn:E1, (x <=? y) eqn:E2; try reflexivity.
      * assert (x = y) by lia. subst. reflexivity.
      * lia.
    + destruct (y <=? x) eqn:E1; [lia|]. reflexivity.
    + destruct (x <=? y) eqn:E2; [lia|]. reflexivity.
    + rewrite IH. reflexivity.
Qed.

Lemma sort_desc_perm l l' : Permutation l l' -> sort_desc l = sort_desc l'.
Proof.
  induction 1 as [|a l l' _ IH|a b l|l l' l'' _ IH1 _ IH2]; [reflexivity| | |].
  - unfold sort_desc. cbn [fold_right]. fold (sort_desc l) (sort_desc l'). rewrite IH. reflexivity.
  - unfold sort_desc. cbn [fold_right]. fold (sort_desc l). apply insert_desc_comm. apply sort_desc_spec_l.
  - rewrite IH1. exact IH2.
Qed.

(* ------------------------------------------------------------------------------------------ *)
(* gamma does not depend on the child order on exactly ultrametric trees                       *)

Lemma apost_annot_map {X} (f : tree -> Z) m (g : atree -> X) (h : tree -> X) :
  (forall s co, g (annot f m co s) = h s) ->
  forall t co, map g (apostorder (annot f m co t)) = map h (postorder t).
Proof.
  intros Hgh t. induction t as [i x l e ks IH] using tree_ind'. intro co.
  rewrite Forall_forall in IH.
  assert (Hroot := Hgh (T i x l e ks) co).
  cbn [annot apostorder postorder] in *. rewrite !map_app. cbn [map]. rewrite Hroot. f_equal.
  assert (G : forall (k : tree -> atree) (ls : list tree),
             (forall c, In c ls -> In c ks) -> (forall c, In c ls -> exists co', k c = annot f m co' c) ->
             map g (flat_map apostorder (map k ls)) = map h (flat_map postorder ls)).
  { intros k ls Hs Hk. induction ls as [|c ls IHl]; [reflexivity|]. cbn [map flat_map]. rewrite !map_app.
    destruct (Hk c (or_introl eq_refl)) as [co' E]. rewrite E, (IH c (Hs c (or_introl eq_refl))). f_equal.
    apply IHl; intros; [apply Hs | apply Hk]; right; assumption. }
  destruct m.
  - apply G; [auto|]. intros c _. exists true. reflexivity.
  - destruct ks as [|k r]; [reflexivity|]. cbn [flat_map]. rewrite !map_app. rewrite (IH k (or_introl eq_refl)). f_equal.
    apply G; [intros; right; assumption|]. intros c _. exists false. reflexivity.
  - apply G; [auto|]. intros c _. exists false. reflexivity.
Qed.

Definition bin_t (v : tree) : bool := (length (t_kids v) =? 2)%nat.

Lemma annot_kids_length f m co s : length (a_kids (annot f m co s)) = length (t_kids s).
Proof.
  destruct s as [i x l e ks]. cbn [annot a_kids t_kids]. destruct m.
  - apply map_length.
  - destruct ks as [|k r]; [reflexivity|]. cbn [length]. rewrite map_length. reflexivity.
  - apply map_length.
Qed.

Lemma filter_map_pairs {X} (l : list X) (b : X -> bool) (v : X -> Z) :
  map v (filter b l) = map snd (filter fst (map (fun x => (b x, v x)) l)).
Proof. induction l as [|a l IH]; [reflexivity|]. cbn. destruct (b a); cbn; rewrite IH; reflexivity. Qed.

Lemma filter_neg_length {X} (l : list X) (b : X -> bool) :
  length (filter (fun x => negb (b x)) l) = length (filter (fun p => negb (fst p)) (map (fun x => (b x, 0)) l)).
Proof. induction l as [|a l IH]; [reflexivity|]. cbn. destruct (b a); cbn; rewrite IH; reflexivity. Qed.

Lemma spec_ages_annot f m t : spec_ages (annot f m false t) = map f (filter bin_t (postorder t)).
Proof.
  unfold spec_ages. rewrite (filter_map_pairs (apostorder _)), (filter_map_pairs (postorder t)). do 2 f_equal.
  apply apost_annot_map. intros s co. rewrite annot_kids_length, annot_age. reflexivity.
Qed.

Lemma other_nodes_annot f m t : other_nodes (annot f m false t) = Z.of_nat (length (filter (fun v => negb (bin_t v)) (postorder t))).
Proof.
  unfold other_nodes. rewrite (filter_neg_length (apostorder _)), (filter_neg_length (postorder t)). do 3 f_equal.
  apply apost_annot_map. intros s co. rewrite annot_kids_length. reflexivity.
Qed.

Lemma gamma_of_ages_annot f m t :
  gamma_of_ages (annot f m false t) =
  gamma_of_ages (annot f CoNone false t).
Proof.
  unfold gamma_of_ages. fold (spec_ages (annot f m false t)) (other_nodes (annot f m false t)).
  fold (spec_ages (annot f CoNone false t)) (other_nodes (annot f CoNone false t)).
  rewrite !spec_ages_annot, !other_nodes_annot. reflexivity.
Qed.

Lemma local_okb_mono p q t : p <= q -> local_okb p t = true -> local_okb q t = true.
Proof.
  intros Hpq H. apply local_okb_iff. intros v Hv c Hc. pose proof (proj1 (local_okb_iff p t) H v Hv c Hc). lia.
Qed.

(* what gamma reads from an exactly ultrametric tree, up to the order of children *)
Lemma exact_tperm t t' : tperm t t' -> local_okb 0 t = true ->
  local_okb 0 t' = true /\ fp t' = fp t
  /\ Permutation (map fp (filter bin_t (postorder t))) (map fp (filter bin_t (postorder t')))
  /\ length (filter (fun v => negb (bin_t v)) (postorder t)) = length (filter (fun v => negb (bin_t v)) (postorder t')).
Proof.
  intro H. induction H as [i x l e ks ks' ks'' HF IH HP] using tperm_ind'. intro Hok.
  pose proof (Forall2_length _ _ _ HF) as L1. pose proof (Permutation_length HP) as L2.
  assert (Hkids : forall c, In c ks -> local_okb 0 c = true /\ fp c + elen c = fp (T i x l e ks)).
  { intros c Hc. split.
    - eapply local_okb_sub; [exact Hok|]. eapply in_preorder_kid; [exact Hc | apply in_preorder_self].
    - destruct ks as [|k0 r]; [destruct Hc|]. destruct Hc as [<- | Hc]; [rewrite fp_cons; reflexivity|].
      pose proof (proj1 (local_okb_iff 0 _) Hok _ (in_preorder_self _) c Hc). lia. }
  (* transfer along Forall2 to ks', then along the permutation to ks'' *)
  remember (fp (T i x l e ks)) as FP eqn:EFP.
  assert (Hk' : Forall (fun c' => local_okb 0 c' = true /\ fp c' + elen c' = FP) ks'
                /\ Permutation (flat_map (fun c => map fp (filter bin_t (postorder c))) ks)
                               (flat_map (fun c => map fp (filter bin_t (postorder c))) ks')
                /\ length (flat_map (fun c => filter (fun v => negb (bin_t v)) (postorder c)) ks)
                   = length (flat_map (fun c => filter (fun v => negb (bin_t v)) (postorder c)) ks')).
  { clear HP L1 L2 Hok EFP. induction IH as [|a b r r' Hab _ IHr].
    - repeat split; constructor.
    - inversion HF as [|? ? ? ? Tab HF']; subst.
      destruct (Hkids a (or_introl eq_refl)) as [Ha1 Ha2]. destruct (Hab Ha1) as [Hb1 [Hb2 [Hb3 Hb4]]].
      destruct (IHr HF') as [R1 [R2 R3]]; [intros c Hc; apply Hkids; right; exact Hc|].
      destruct (tperm_root a b Tab) as [_ [El _]].
      repeat split.
      + constructor; [|exact R1]. split; [exact Hb1|]. unfold elen in *. rewrite <- El, Hb2. exact Ha2.
      + cbn [flat_map]. apply Permutation_app; assumption.
      + cbn [flat_map]. rewrite !app_length, Hb4, R3. reflexivity. }
  destruct Hk' as [K1 [K2 K3]].
  assert (K1'' : forall c, In c ks'' -> local_okb 0 c = true /\ fp c + elen c = FP).
  { intros c Hc. rewrite Forall_forall in K1. apply K1. eapply Permutation_in; [apply Permutation_sym; exact HP | exact Hc]. }
  assert (Hfp : fp (T i x l e ks'') = FP).
  { destruct ks'' as [|k2 r2].
    - destruct ks'; [|discriminate]. destruct ks; [rewrite EFP; reflexivity | discriminate].
    - rewrite fp_cons. apply K1''. left. reflexivity. }
  split.
  { apply local_okb_iff. intros v Hv c Hc. apply in_preorder_inv in Hv. destruct Hv as [-> | [k [Hk Hv]]].
    - rewrite Hfp. cbn [t_kids] in Hc. assert (In c ks'') by (destruct ks''; [destruct Hc | right; exact Hc]).
      destruct (K1'' c H) as [_ E]. lia.
    - cbn [t_kids] in Hk. destruct (K1'' k Hk) as [Hokk _]. apply (proj1 (local_okb_iff 0 k) Hokk v Hv c Hc). }
  split; [exact Hfp|].
  assert (Hb : bin_t (T i x l e ks'') = bin_t (T i x l e ks)) by (unfold bin_t; cbn [t_kids]; rewrite <- L2, <- L1; reflexivity).
  cbn [postorder]. rewrite !filter_app, !map_app. cbn [filter]. rewrite Hb. split.
  - apply Permutation_app.
    + assert (G : forall ls, map fp (filter bin_t (flat_map postorder ls)) = flat_map (fun c => map fp (filter bin_t (postorder c))) ls).
      { induction ls as [|c ls IHl]; [reflexivity|]. cbn [flat_map]. rewrite filter_app, map_app, IHl. reflexivity. }
      rewrite !G.
      eapply Permutation_trans; [|apply Permutation_flat_map; exact HP].
      exact K2.
    + destruct (bin_t (T i x l e ks)); cbn [map]; [rewrite Hfp, EFP|]; apply Permutation_refl.
  - rewrite !app_length. f_equal.
    + assert (G : forall ls, length (filter (fun v => negb (bin_t v)) (flat_map postorder ls))
                             = length (flat_map (fun c => filter (fun v => negb (bin_t v)) (postorder c)) ls)).
      { induction ls as [|c ls IHl]; [reflexivity|]. cbn [flat_map]. rewrite filter_app, !app_length, IHl. reflexivity. }
      rewrite !G, K3. apply Permutation_length. apply Permutation_flat_map. exact HP.
    + destruct (bin_t (T i x l e ks)); reflexivity.
Qed.

Lemma calc_exact pv t : local_okb 0 t = true ->
  calc_node_ages (mkCfg pv false false) t = COk (annot fp (mode_of (mkCfg pv false false)) false t).
Proof.
  intro H. rewrite calc_node_ages_unforced by reflexivity.
  destruct (check_prec pv) as [p|] eqn:Ep.
  - pose proof (check_prec_nonneg _ _ Ep) as Hp.
    destruct (calc_enabled (mkCfg pv false false) p t eq_refl eq_refl Ep) as [[_ E] | [E _]].
    + rewrite E. unfold mode_of. cbn. rewrite Ep. reflexivity.
    + rewrite (local_okb_mono 0 p t Hp H) in E. discriminate.
  - rewrite (calc_disabled (mkCfg pv false false) t eq_refl eq_refl Ep). unfold mode_of. cbn. rewrite Ep. reflexivity.
Qed.

Lemma gamma_child_order_exact_l : forall pv t t',
  (forall v, In v (preorder t) -> forall d1 d2, In d1 (tipdists v) -> In d2 (tipdists v) -> d1 = d2) ->
  tperm t t' -> pybus_harvey_gamma pv t = pybus_harvey_gamma pv t'.
Proof.
  intros pv t t' Hex Hp.
  assert (Hok : local_okb 0 t = true).
  { apply exact_local_ok; [lia|]. intros v Hv d1 d2 H1 H2. rewrite (Hex v Hv d1 d2 H1 H2). lia. }
  destruct (exact_tperm t t' Hp Hok) as [Hok' [_ [Hperm Hcnt]]].
  unfold pybus_harvey_gamma, pybus_harvey_gamma_v, calc_node_ages_v. rewrite (calc_exact pv t Hok), (calc_exact pv t' Hok').
  rewrite (gamma_of_ages_annot fp _ t), (gamma_of_ages_annot fp _ t').
  unfold gamma_of_ages.
  fold (spec_ages (annot fp CoNone false t)) (other_nodes (annot fp CoNone false t)).
  fold (spec_ages (annot fp CoNone false t')) (other_nodes (annot fp CoNone false t')).
  rewrite !spec_ages_annot, !other_nodes_annot, Hcnt, (sort_desc_perm _ _ Hperm). reflexivity.
Qed.

(* with a positive precision and a tree that is ultrametric only within it, gamma depends on the order *)
Lemma gamma_child_order_refuted_l : exists pv t t' p p',
  tperm t t' /\ pybus_harvey_gamma pv t = GOk p /\ pybus_harvey_gamma pv t' = GOk p'
  /\ ~ (gp_numerator p / inject_Z (gp_T p) == gp_numerator p' / inject_Z (gp_T p'))%Q.
Proof.
  exists (PNum 1).
  exists (T 0 None None None [T 1 None None (Some 10) [f16_leaf 2 10; f16_leaf 3 11]; f16_leaf 4 20]).
  exists (T 0 None None None [T 1 None None (Some 10) [f16_leaf 3 11; f16_leaf 2 10]; f16_leaf 4 20]).
  eexists. eexists. split; [|split; [vm_compute; reflexivity | split; [vm_compute; reflexivity|]]].
  - eapply tperm_node; [|apply Permutation_refl]. constructor; [|constructor; [apply tperm_refl | constructor]].
    eapply tperm_node; [|apply perm_swap]. constructor; [apply tperm_refl|]. constructor; [apply tperm_refl | constructor].
  - vm_compute. discriminate.
Qed.
